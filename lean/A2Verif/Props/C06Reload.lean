import A2Verif.Lemmas.C06Pascal
import A2Verif.Lemmas.C06ExDos
import A2Verif.Lemmas.C06Ident
import A2Verif.Lemmas.C06Cpm
import A2Verif.Lemmas.C06ExFat
import A2Verif.Lemmas.C06ExProdos
import A2Verif.Lemmas.C06ProdosOpen
import A2Verif.Model.Read.ProdosT
import A2Verif.Lemmas.FsPascalInv
import A2Verif.Model.Read.Dos3x
/-!
# C06 for the concrete file-system models: saving and loading again loses nothing

Property C06: *for any history on any file system and container, serialising the image and loading the bytes again
yields the same file system, disk kind, catalog tree, file contents and free space.  Nothing held only in a2kit's
in-memory buffers (DOS VTOC, ProDOS bitmap, FAT) is lost by saving.*

`Model/Reload.lean` defines, for each of the five byte-exact concrete models, `save` (= `get_img()` + `to_bytes()`:
write the buffer back, hand out the unit array as bytes) and `load` (= the container's `from_bytes` + the file
system's `from_img`: a fresh object with closed buffers).  The theorems below say, per file system, for **every** state
`d` satisfying the stated coherence condition (proved to be preserved by every operation, successful or not):

1. `catalog (load (save d)) = catalog d`
2. `get (load (save d)) name = get d name` for every name
3. `statFree (load (save d)) = statFree d`
4. the independent reader reads the same volume from the saved image
5. `save (load (save d)) = save d`
6. **continuation**: every operation answers the same after a reload and leads to states that save to the same
   bytes — for whole histories with reloads interleaved anywhere (`…_history_with_reloads`).

A buffer that `get_img` did not write back would falsify 3 and 6: the negative witnesses show it on a concrete volume.
-/
namespace A2Verif.C06Reload
open A2Verif.Reload

/-! ## Pascal (no buffer: the object is the image) -/
namespace Pascal
open A2Verif.Fs.Pascal A2Verif.Reload.Pascal

/-- the operations of the Pascal model, queries included -/
inductive Op where
  | format (vol : Bytes) (fill : Nat) (date boot0 boot1 : Bytes)
  | put (f : FImg) (date : Bytes)
  | delete (name : Bytes)
  | rename (old new : Bytes)
  | retype (name : Bytes) (ty : Option Nat)
  | get (name : Bytes)
  | catalog
  | statFree

/-- what an operation answers -/
inductive Out where
  | unit (x : R Unit)
  | nat (x : R Nat)
  | got (x : R Got)
  | rows (x : R (List (Bytes × Nat × Nat)))

/-- run one operation: answer and image afterwards -/
def Op.run (r : Raw) : Op → Out × Raw
  | .format v fill date b0 b1 => let x := Fs.Pascal.format r v fill date b0 b1; (.unit x.1, x.2)
  | .put f date => let x := Fs.Pascal.put r f date; (.nat x.1, x.2)
  | .delete n => let x := Fs.Pascal.delete r n; (.unit x.1, x.2)
  | .rename o n => let x := Fs.Pascal.rename r o n; (.unit x.1, x.2)
  | .retype n t => let x := Fs.Pascal.retype r n t; (.unit x.1, x.2)
  | .get n => (.got (Fs.Pascal.get r n), r)
  | .catalog => (.rows (Fs.Pascal.catalog r), r)
  | .statFree => (.nat (Fs.Pascal.statFree r), r)

/-- a history in which the image may be saved and loaded again between any two operations -/
inductive Step where
  | op (o : Op)
  | reload

/-- run a history; `reload` replaces the object by `load (save ·)` -/
def exec : Raw → List Step → List Out × Raw
  | r, [] => ([], r)
  | r, .op o :: rest => let x := o.run r; let y := exec x.2 rest; (x.1 :: y.1, y.2)
  | r, .reload :: rest => exec (load (save r)) rest

/-- the same history without the reloads -/
def opsOf : List Step → List Step
  | [] => []
  | .op o :: rest => .op o :: opsOf rest
  | .reload :: rest => opsOf rest

/-- the coherence condition of the Pascal model: the image is a sequence of 512-byte blocks (the model's `Raw`
records the unit length 512).  Implied by the refinement invariant `Fs.Pascal.Inv` on images opened with unit length 512. -/
abbrev Coh (r : Raw) : Prop := Shaped 512 r

theorem coh_of_inv {r : Raw} (hu : r.unitLen = 512) (h : Fs.Pascal.Inv r) : Coh r := by
  refine ⟨by decide, hu, ?_⟩
  intro u hm
  obtain ⟨i, hi, rfl⟩ := List.getElem_of_mem hm
  have hi' : i < r.units.size := by simpa using hi
  exact h.blocks i _ (by rw [Array.getElem?_eq_getElem hi']; simp)

/-- C06, preservation: every operation — successful, refused, or failing part-way — keeps the coherence condition,
so the reload theorems apply in every state of every history. -/
theorem coh_preserved {r : Raw} (h : Coh r) (o : Op) : Coh (o.run r).2 := by
  cases o with
  | format v fill date b0 b1 => exact format_shaped v fill date b0 b1 h
  | put f date => exact put_shaped f date h
  | delete n => exact delete_shaped n h
  | rename o n => exact rename_shaped o n h
  | retype n t => exact retype_shaped n t h
  | get n => exact h
  | catalog => exact h
  | statFree => exact h

/-- C06 (Pascal), the core: loading the saved bytes gives back the very same object. -/
theorem reload_identity {r : Raw} (h : Coh r) : load (save r) = r := ofBytes_toBytes h

/-- C06 (Pascal), clauses 1–6: after `save` and `load` the catalog, every file, the free count and the independent
reader's volume are the same, a second save gives identical bytes, and every operation continues identically. -/
theorem reload_observes_same {r : Raw} (h : Coh r) :
    let r' := load (save r)
    Fs.Pascal.catalog r' = Fs.Pascal.catalog r ∧
    (∀ name, Fs.Pascal.get r' name = Fs.Pascal.get r name) ∧
    Fs.Pascal.statFree r' = Fs.Pascal.statFree r ∧
    Read.Pascal.read r' = Read.Pascal.read r ∧
    save r' = save r ∧
    ∀ o : Op, o.run r' = o.run r := by
  intro r'
  have e : r' = r := reload_identity h
  rw [e]
  exact ⟨rfl, fun _ => rfl, rfl, rfl, rfl, fun _ => rfl⟩

theorem exec_coh : ∀ (steps : List Step) {r : Raw}, Coh r → Coh (exec r steps).2 := by
  intro steps
  induction steps with
  | nil => intro r h; exact h
  | cons s rest ih =>
    intro r h
    cases s with
    | op o => exact ih (coh_preserved h o)
    | reload =>
      show Coh (exec (load (save r)) rest).2
      rw [reload_identity h]; exact ih h

/-- C06 (Pascal), whole histories: reloading between any operations of any history changes no answer and not the
final image. -/
theorem history_with_reloads : ∀ (steps : List Step) {r : Raw}, Coh r → exec r steps = exec r (opsOf steps) := by
  intro steps
  induction steps with
  | nil => intro r _; rfl
  | cons s rest ih =>
    intro r h
    cases s with
    | op o =>
      show (let x := o.run r; let y := exec x.2 rest; (x.1 :: y.1, y.2)) = (let x := o.run r; let y := exec x.2 (opsOf rest); (x.1 :: y.1, y.2))
      simp only [ih (coh_preserved h o)]
    | reload =>
      show exec (load (save r)) rest = exec r (opsOf rest)
      rw [reload_identity h]; exact ih h

/-! ### non-vacuity -/

/-- a 12-block volume formatted by the model -/
def exImg : Raw :=
  (Fs.Pascal.format { unitLen := 512, units := Array.replicate 12 (List.replicate 512 0) } [86] 238 [17, 0] [] []).2

theorem exImg_coh : Coh exImg := by
  refine format_shaped _ _ _ _ _ ⟨by decide, rfl, ?_⟩
  intro u hu
  rw [Array.toList_replicate] at hu
  rw [List.eq_of_mem_replicate hu, List.length_replicate]

def exA : FImg := { fullPath := [97], fsType := 5, eof := 700, chunks := [(1, [9, 8, 7]), (0, List.replicate 512 3)] }

set_option maxRecDepth 100000 in
/-- the example history really stores a file and the reload sits between the put and the queries: the free count
drops from 6 to 4 and stays there after the reload -/
example : ((exec exImg [.op .statFree, .op (.put exA [17, 0]), .reload, .op .statFree]).1.map
      (fun o => match o with | .nat (.ok n) => n | _ => 999)) = [6, 2, 4] := by decide +kernel

example : exec exImg [.op (.put exA [17, 0]), .reload, .op .statFree, .reload, .op (.get [65])] =
    exec exImg [.op (.put exA [17, 0]), .op .statFree, .op (.get [65])] := history_with_reloads _ exImg_coh

example : Fs.Pascal.statFree (load (save exImg)) = Fs.Pascal.statFree exImg := (reload_observes_same exImg_coh).2.2.1

end Pascal

/-! ## DOS 3.x (the VTOC buffer) -/
namespace Dos
open A2Verif.Fs.Dos3x A2Verif.Reload.Dos

/-- C06 (DOS 3.x), preservation: every operation — `init`, `put`, `delete`, `rename`, `lock`, `unlock`, `retype`, the
queries; successful, refused, or failing part-way (e.g. a `put` refused on a full catalog that keeps a sector
reserved in the buffer) — keeps the coherence condition `Coh`, so the reload theorems apply in every state of every
history from any coherent object, in particular from a blank image.  For EVERY source variant `rp` of `put` / `write_file`
(`{}` = as written at the pinned commit; `Repairs.repaired` = HEAD since f61df96 / 92058e4, what the harness probe `fsd variant`
selects); `rp` is the last, optional argument. -/
theorem coh_preserved {d : Disk} (h : Coh d) (o : Op) (rp : Repairs := {}) : Coh (o.run d rp).2 :=
  (op_sim (DSim.same h) o rp).2.coh

/-- an object without buffer on an image of 256-byte sectors is coherent (what `from_img` hands out) -/
theorem coh_closed {raw : Raw} {c : Nat} (h : Shaped 256 raw) : Coh ⟨raw, c, none⟩ := ⟨h, fun _ hv => by cases hv⟩

/-- `get_img()` cannot fail (the `expect` of the Rust never fires) on a coherent object, and `reload` is `load ∘ save` -/
theorem save_ok {d : Disk} (h : Coh d) : ∃ b, save d = .ok b ∧ reload d = load d.c b := by
  obtain ⟨r, hf, _⟩ := flush_ok h
  refine ⟨toBytes r, by unfold save; rw [hf], ?_⟩
  unfold reload save; rw [hf]

/-- C06 (DOS 3.x), clauses 1–6.  For every coherent object `d` with saved bytes `b` and `d' = load (save d)`:
the catalog, every `get`, the free count are the same; the flushed images are equal, hence the independent reader
reads the same volume from the saved image; a second save gives identical bytes; and every operation answers the same
and leads to objects that save to the same bytes.  The VTOC buffer is open in `d` (allocations pending in memory) and
closed in `d'`: this is the clause "nothing held only in the buffer is lost".  The last clause holds for EVERY source variant
`rp` of `put` (as written, and as repaired = HEAD). -/
theorem reload_observes_same {d : Disk} (h : Coh d) {b : Bytes} (hb : save d = .ok b) :
    let d' := load d.c b
    (catalog d').1 = (catalog d).1 ∧
    (∀ name, (get d' name).1 = (get d name).1) ∧
    (statFree d').1 = (statFree d).1 ∧
    d'.flush = d.flush ∧
    (∀ sb r, d.flush = .ok r → ∃ r', d'.flush = .ok r' ∧ Read.Dos3x.read r' sb = Read.Dos3x.read r sb) ∧
    save d' = .ok b ∧
    ∀ (rp : Repairs) (o : Op), (o.run d' rp).1 = (o.run d rp).1 ∧ save (o.run d' rp).2 = save (o.run d rp).2 := by
  intro d'
  obtain ⟨b', hb', hr⟩ := save_ok h
  rw [hb] at hb'
  cases hb'
  have hs : DSim d d' := by have := reload_dsim h; rw [hr] at this; exact this
  refine ⟨(catalog_sim hs).1, fun n => (get_sim hs n).1, (statFree_sim hs).1, flush_sim hs, ?_, ?_, ?_⟩
  · intro sb r hf
    exact ⟨r, by rw [flush_sim hs, hf], rfl⟩
  · rw [save_sim hs, hb]
  · intro rp o
    obtain ⟨e, s⟩ := op_sim hs o rp
    exact ⟨e, save_sim s⟩

/-- C06 (DOS 3.x), whole histories: saving and loading between any operations of any history changes no answer, and the
final objects save to the same bytes — for every source variant `rp` (last, optional argument). -/
theorem history_with_reloads {d : Disk} (h : Coh d) (steps : List Reload.Dos.Step) (rp : Repairs := {}) :
    (exec d steps rp).1 = (exec d (opsOf steps) rp).1 ∧ save (exec d steps rp).2 = save (exec d (opsOf steps) rp).2 := by
  obtain ⟨e, s⟩ := exec_sim steps (DSim.same h) rp
  exact ⟨e, save_sim s⟩

/-- coherence along a history -/
theorem exec_coh {d : Disk} (h : Coh d) (steps : List Reload.Dos.Step) (rp : Repairs := {}) : Coh (exec d steps rp).2 :=
  (exec_sim steps (DSim.same h) rp).2.coh'

/-! ### non-vacuity and the negative witness -/

open A2Verif.Reload.Dos (blank blank_coh exA exD exD_coh freeOf reloadForgetful reloadForgetful_eq exD_free)

/-- **negative witness**: if `get_img` did not write the VTOC buffer back, clause 3 would fail on `exD` — the reloaded
volume reports 429 free sectors instead of 426.  So `reload_observes_same` is not vacuous: it does depend on the flush. -/
theorem forgetful_flush_loses_allocations : freeOf (statFree (reloadForgetful exD)) ≠ freeOf (statFree exD) := by
  rw [reloadForgetful_eq exD_coh, exD_free.1, exD_free.2]; decide

/-- … whereas with the real `save` the free count survives (instance of clause 3) -/
example : (statFree (reload exD)).1 = (statFree exD).1 := by
  obtain ⟨b, hb, hr⟩ := save_ok exD_coh
  rw [hr]
  exact (reload_observes_same exD_coh hb).2.2.1

example : (exec (blank 16) [.op (.init 254 16), .reload, .op (.put exA), .reload, .op .catalog, .op (.get [72, 105])]).1 =
    (exec (blank 16) [.op (.init 254 16), .op (.put exA), .op .catalog, .op (.get [72, 105])]).1 :=
  (history_with_reloads (blank_coh 16) _).1

/-- the same instance for the variant HEAD runs (`Repairs.repaired`), and the per-operation clause for it -/
example : (exec (blank 16) [.op (.init 254 16), .reload, .op (.put exA), .reload, .op .catalog, .op (.get [72, 105])] Repairs.repaired).1 =
    (exec (blank 16) [.op (.init 254 16), .op (.put exA), .op .catalog, .op (.get [72, 105])] Repairs.repaired).1 :=
  (history_with_reloads (blank_coh 16) _ Repairs.repaired).1

example : ((Op.put exA).run (reload exD) Repairs.repaired).1 = ((Op.put exA).run exD Repairs.repaired).1 := by
  obtain ⟨b, hb, hr⟩ := save_ok exD_coh
  rw [hr]
  exact ((reload_observes_same exD_coh hb).2.2.2.2.2.2 Repairs.repaired (.put exA)).1

end Dos

/-! ## CP/M (no buffer: the object is the image plus the disk parameter block) -/
namespace Cpm
open A2Verif.Fs.Cpm A2Verif.Reload.Cpm
open A2Verif.Read.Cpm (Dpb)

/-- the operations of the CP/M model, queries included.  Both source-variant selectors of the model are quantified: `put` takes
any `FImg`, whose field `guardIface` selects `put` as written / with the F5–F8 refusal (d1794de, HEAD); `get` carries `absIdx`
(`read_file` as written / with `proposed_fixes/cpm-get-partial-extent.diff`) — the harness probe `fsc variant` picks one of each. -/
inductive Op where
  | format (vol : Bytes) (time : Option Bytes)
  | put (f : FImg) (now : Bytes)
  | delete (x : Bytes)
  | rename (old new : Bytes)
  | lock (x : Bytes)
  | unlock (x : Bytes)
  | retype (x ty : Bytes)
  | protect (x password : Bytes) (rd wr del : Bool)
  | unprotect (x : Bytes)
  | get (x : Bytes) (absIdx : Bool := false)
  | catalog
  | statFree

/-- what an operation answers -/
inductive Out where
  | unit (x : R Unit)
  | nat (x : R Nat)
  | got (x : R Got)
  | rows (x : R (List (Bytes × Nat × Bytes)))

/-- run one operation: answer and image afterwards -/
def Op.run (d : Dpb) (r : Raw) : Op → Out × Raw
  | .format v t => let x := Fs.Cpm.format d r v t; (.unit x.1, x.2)
  | .put f now => let x := Fs.Cpm.put d r f now; (.unit x.1, x.2)
  | .delete n => let x := Fs.Cpm.delete d r n; (.unit x.1, x.2)
  | .rename o n => let x := Fs.Cpm.rename d r o n; (.unit x.1, x.2)
  | .lock n => let x := Fs.Cpm.lock d r n; (.unit x.1, x.2)
  | .unlock n => let x := Fs.Cpm.unlock d r n; (.unit x.1, x.2)
  | .retype n t => let x := Fs.Cpm.retype d r n t; (.unit x.1, x.2)
  | .protect n p rd wr del => let x := Fs.Cpm.protect d r n p rd wr del; (.unit x.1, x.2)
  | .unprotect n => let x := Fs.Cpm.unprotect d r n; (.unit x.1, x.2)
  | .get n a => (.got (Fs.Cpm.get d r n a), r)
  | .catalog => (.rows (Fs.Cpm.catalog d r), r)
  | .statFree => (.nat (Fs.Cpm.statFree d r), r)

/-- a history in which the image may be saved and loaded again between any two operations -/
inductive Step where
  | op (o : Op)
  | reload

def exec (d : Dpb) : Raw → List Step → List Out × Raw
  | r, [] => ([], r)
  | r, .op o :: rest => let x := o.run d r; let y := exec d x.2 rest; (x.1 :: y.1, y.2)
  | r, .reload :: rest => exec d (load d (save r)) rest

def opsOf : List Step → List Step
  | [] => []
  | .op o :: rest => .op o :: opsOf rest
  | .reload :: rest => opsOf rest

/-- the coherence condition of the CP/M model: every unit has the block size of the DPB -/
abbrev Coh (d : Dpb) (r : Raw) : Prop := Shaped (blockSize d) r

/-- C06 (CP/M), preservation: every operation — successful, refused, or failing part-way — keeps the coherence condition -/
theorem coh_preserved {d : Dpb} {r : Raw} (h : Coh d r) (o : Op) : Coh d (o.run d r).2 := by
  cases o with
  | format v t => exact format_shaped v t h
  | put f now => exact put_shaped f now h
  | delete n => exact delete_shaped n h
  | rename o n => exact modify_shaped _ _ _ h
  | lock n => exact modify_shaped _ _ _ h
  | unlock n => exact modify_shaped _ _ _ h
  | retype n t => exact retype_shaped n t h
  | protect n p rd wr del => exact protect_shaped n p rd wr del h
  | unprotect n => exact unprotect_shaped n h
  | get n a => exact h
  | catalog => exact h
  | statFree => exact h

/-- C06 (CP/M), the core: loading the saved blocks gives back the very same object -/
theorem reload_identity {d : Dpb} {r : Raw} (h : Coh d r) : load d (save r) = r := ofBytes_toBytes h

/-- C06 (CP/M), clauses 1–6 -/
theorem reload_observes_same {d : Dpb} {r : Raw} (h : Coh d r) :
    let r' := load d (save r)
    Fs.Cpm.catalog d r' = Fs.Cpm.catalog d r ∧
    (∀ name absIdx, Fs.Cpm.get d r' name absIdx = Fs.Cpm.get d r name absIdx) ∧
    Fs.Cpm.statFree d r' = Fs.Cpm.statFree d r ∧
    Read.Cpm.read r' d = Read.Cpm.read r d ∧
    save r' = save r ∧
    ∀ o : Op, o.run d r' = o.run d r := by
  intro r'
  have e : r' = r := reload_identity h
  rw [e]
  exact ⟨rfl, fun _ _ => rfl, rfl, rfl, rfl, fun _ => rfl⟩

/-- C06 (CP/M), whole histories with reloads interleaved anywhere -/
theorem history_with_reloads {d : Dpb} : ∀ (steps : List Step) {r : Raw}, Coh d r → exec d r steps = exec d r (opsOf steps) := by
  intro steps
  induction steps with
  | nil => intro r _; rfl
  | cons s rest ih =>
    intro r h
    cases s with
    | op o =>
      show (let x := o.run d r; let y := exec d x.2 rest; (x.1 :: y.1, y.2)) = (let x := o.run d r; let y := exec d x.2 (opsOf rest); (x.1 :: y.1, y.2))
      simp only [ih (coh_preserved h o)]
    | reload =>
      show exec d (load d (save r)) rest = exec d r (opsOf rest)
      rw [reload_identity h]; exact ih h

/-! ### non-vacuity -/

def exD : Dpb := { bsh := 3, exm := 0, dsm := 15, drm := 31, al0 := 128, al1 := 0, v3 := false }
def exBlank : Raw := { unitLen := 1024, units := Array.replicate 16 (List.replicate 1024 0) }
def exA : FImg := { chunkLen := 1024, fullPath := [97, 46, 116, 120, 116], fsType := [84, 88, 84], access := List.replicate 11 32,
                    eof := 1030, chunks := [(1, [9, 8, 7, 6, 5, 4]), (0, List.replicate 1024 3)] }

theorem exBlank_coh : Coh exD exBlank := by
  refine ⟨by decide, rfl, ?_⟩
  intro u hu
  unfold exBlank at hu
  rw [Array.toList_replicate] at hu
  rw [List.eq_of_mem_replicate hu, List.length_replicate]; rfl

set_option maxRecDepth 100000 in
/-- format, free count, put, reload, free count: 15, then 13 after the reload -/
example : ((exec exD exBlank [.op (.format [] none), .op .statFree, .op (.put exA [0, 0, 0, 0]), .reload, .op .statFree]).1.map
      (fun o => match o with | .nat (.ok n) => n | .unit (.ok _) => 0 | _ => 999)) = [0, 15, 0, 13] := by decide +kernel

example : exec exD exBlank [.op (.format [] none), .reload, .op (.put exA [0, 0, 0, 0]), .reload, .op .catalog] =
    exec exD exBlank [.op (.format [] none), .op (.put exA [0, 0, 0, 0]), .op .catalog] := history_with_reloads _ exBlank_coh

/-- the same for the variants HEAD runs: `put` with the interface-attribute guard, `get` with either index rule -/
example : exec exD exBlank [.op (.format [] none), .reload, .op (.put { exA with guardIface := true } [0, 0, 0, 0]), .reload, .op (.get [97, 46, 116, 120, 116] true)] =
    exec exD exBlank [.op (.format [] none), .op (.put { exA with guardIface := true } [0, 0, 0, 0]), .op (.get [97, 46, 116, 120, 116] true)] :=
  history_with_reloads _ exBlank_coh

end Cpm

/-! ## FAT (the FAT buffer) -/
namespace Fat
open A2Verif.Fs.Fat A2Verif.Reload.Fat

/-- C06 (FAT12), preservation: every operation — `put`, `delete`, `rename`, `lock`, `unlock`, `retype`, `mkdir` and the
queries; successful, refused, or failing part-way (e.g. a `put` refused with `DiskFull` after its directory grew) — keeps
the coherence condition `Coh` (static geometry `Geo`; the FAT buffer is open and well-formed, or closed with every FAT
copy on the image holding one well-formed table). -/
theorem coh_preserved {d : Disk} (h : Coh d) (o : Op) : Coh (o.run d).2 := (op_sim (dsim_refl h) o).2.coh

/-- C06 (FAT12), clauses 1–6.  For every coherent object `d` with saved bytes `b` and `d' = load (save d)`: the catalog
of every directory, every `get`, the free count are the same; the flushed images are equal, hence the independent
reader reads the same volume; a second save gives identical bytes; and every operation answers the same and leads to
objects that save to the same bytes.  In `d` the FAT buffer may hold allocations that are nowhere on the image; in `d'`
the buffer is closed and is re-opened (with the repair against the backup copies) from the saved FAT. -/
theorem reload_observes_same {d : Disk} (h : Coh d) {b : Bytes} (hb : save d = .ok b) :
    let d' := load d.raw.unitLen d.labelFiles b
    (∀ path, (catalog path d').1 = (catalog path d).1) ∧
    (∀ path, (get path d').1 = (get path d).1) ∧
    (statFree d').1 = (statFree d).1 ∧
    (flush d').2.raw = (flush d).2.raw ∧
    Read.FatT.readT (flush d').2.raw = Read.FatT.readT (flush d).2.raw ∧
    save d' = .ok b ∧
    ∀ o : Op, (o.run d').1 = (o.run d).1 ∧ save (o.run d').2 = save (o.run d).2 := by
  intro d'
  obtain ⟨b', hb', hr⟩ := save_ok h
  rw [hb] at hb'
  cases hb'
  have hs : DSim d d' := by have := reload_dsim h; rw [hr] at this; exact this
  refine ⟨fun p => (run_sim (fun P => Resp.catalog (P := P) p) hs).1, fun p => (run_sim (fun P => Resp.get (P := P) p) hs).1,
    (run_sim (fun P => Resp.statFree (P := P)) hs).1, dsim_flush_raw hs, by rw [dsim_flush_raw hs], by rw [dsim_save hs, hb], ?_⟩
  intro o
  obtain ⟨e, s⟩ := op_sim hs o
  exact ⟨e, dsim_save s⟩

/-- C06 (FAT12), whole histories: saving and loading between any operations of any history changes no answer, and the
final objects save to the same bytes. -/
theorem history_with_reloads {d : Disk} (h : Coh d) (steps : List Reload.Fat.Step) :
    (exec d steps).1 = (exec d (opsOf steps)).1 ∧ save (exec d steps).2 = save (exec d (opsOf steps)).2 := by
  obtain ⟨e, s⟩ := exec_sim steps (dsim_refl h)
  exact ⟨e, dsim_save s⟩

theorem exec_coh {d : Disk} (h : Coh d) (steps : List Reload.Fat.Step) : Coh (exec d steps).2 :=
  (exec_sim steps (dsim_refl h)).2.coh'

/-- C06 (FAT12), `format` (as of /repo 55a0597) — preservation: called with a boot sector that carries the object's BPB and
an acceptable label (`FmtArgs`) it succeeds and leaves a coherent object, whatever the buffer held. -/
theorem format_coh_preserved {d : Disk} {vol boot : Bytes} {now : Stamp} (h : Coh d) (a : FmtArgs d vol boot now) :
    (Fs.Fat.format vol boot now d).1 = .ok () ∧ Coh (Fs.Fat.format vol boot now d).2 := format_coh h a

/-- C06 (FAT12), clause 6 for `format`: after save and load `format` answers the same and leaves **the very same
object**.  False before the repair `fat-format-stale-fat-buffer` (the original kept its stale buffer: 334 instead of
339 free clusters, design/C06.md §5.1), which this proof attempt found. -/
theorem format_after_reload_same {d : Disk} (h : Coh d) (vol boot : Bytes) (now : Stamp) (hl : isLabelValid vol = true ∨ vol = []) :
    Fs.Fat.format vol boot now (reload d) = Fs.Fat.format vol boot now d := format_twin (reload_dsim h) vol boot now hl

/-- C06 (FAT12), whole histories **including `format`** (every `format` called with fitting arguments, `ValidF`): reloads
anywhere change no answer, and the final objects save to the same bytes. -/
theorem history_with_reloads_format {d : Disk} (h : Coh d) (steps : List Reload.Fat.StepF) (hv : ValidF d (opsOfF steps)) :
    (execF d steps).1 = (execF d (opsOfF steps)).1 ∧ save (execF d steps).2 = save (execF d (opsOfF steps)).2 := by
  obtain ⟨e, s⟩ := execF_sim steps (dsim_refl h) hv
  exact ⟨e, dsim_save s⟩

/-! ### non-vacuity and the negative witness -/

open A2Verif.FsFat (exDisk)
open A2Verif.Reload.Fat (exDisk_coh' exD exD_coh freeOf reloadForgetful reloadForgetful_eq exD_free)

/-- **negative witness**: if `get_img` did not write the FAT buffer back, clause 3 would fail on `exD` -/
theorem forgetful_flush_loses_deallocations : freeOf (statFree (reloadForgetful exD)) ≠ freeOf (statFree exD) := by
  rw [reloadForgetful_eq exD_coh, exD_free.1, exD_free.2]; decide

/-- … whereas with the real `save` the free count survives (instance of clause 3) -/
example : (statFree (reload exD)).1 = (statFree exD).1 := by
  obtain ⟨b, hb, hr⟩ := save_ok exD_coh
  rw [hr]
  exact (reload_observes_same exD_coh hb).2.2.1

example : (exec exDisk [.op (.delete [65, 46, 66]), .reload, .op .statFree, .reload, .op (.catalog [])]).1 =
    (exec exDisk [.op (.delete [65, 46, 66]), .op .statFree, .op (.catalog [])]).1 :=
  (history_with_reloads exDisk_coh' _).1

/-- non-vacuity of the `format` clauses: on the freshly formatted example volume, put a file, reload, format again -/
example : (execF A2Verif.FsFat.exDisk0 [.reload, .op (.format [86] A2Verif.FsFat.exBoot A2Verif.FsFat.exStamp), .reload, .op (.op .statFree)]).1 =
    (execF A2Verif.FsFat.exDisk0 [.op (.format [86] A2Verif.FsFat.exBoot A2Verif.FsFat.exStamp), .op (.op .statFree)]).1 :=
  (history_with_reloads_format Reload.Fat.exDisk0_coh
    [.reload, .op (.format [86] A2Verif.FsFat.exBoot A2Verif.FsFat.exStamp), .reload, .op (.op .statFree)]
    (show Reload.Fat.FmtArgs _ _ _ _ ∧ (True ∧ True) from ⟨Reload.Fat.exFmtArgs, trivial, trivial⟩)).1

end Fat

/-! ## ProDOS (the volume bitmap buffer) -/
namespace Prodos
open A2Verif.Fs.Prodos A2Verif.Reload.Prodos

/-- C06 (ProDOS), the buffer survives: on the reloaded object `open_bitmap_buffer` restores exactly the buffer that
`get_img()` wrote — every allocation and de-allocation that lived only in memory is on the image. -/
theorem reopen_restores_buffer {d : Disk} {b : Array Nat} (h : Coh d) (hb : d.bitmap = some b) :
    getBitmap (reload d) = (.ok b, openTwin d b) := by
  rw [reload_open h hb]; exact reopen h hb

/-- `get_img()` succeeds on a coherent object, and `reload` is `load ∘ save` -/
theorem save_ok {d : Disk} (h : Coh d) : ∃ bytes, save d = .ok bytes ∧ reload d = load d.src bytes := by
  cases hb : d.bitmap with
  | none => exact ⟨_, by unfold save; rw [flush_closed hb], by unfold reload save; rw [flush_closed hb]⟩
  | some b => exact ⟨_, by unfold save; rw [flush_open h hb], by unfold reload save; rw [flush_open h hb]⟩

/-- C06 (ProDOS), clauses 1–5, and clause 6 **for the queries only** (`…_partial`).  For every coherent object `d`
(`Coh`: 512-byte blocks, `total_blocks` = image size, an open buffer sits where the volume header points, a closed one
has no bitmap blocks recorded) with saved bytes and `d' = load (save d)`: `catalog` of every directory, `get` of every
path and the free count answer the same; the images handed out by `get_img()` are equal, hence the independent reader
reads the same volume; a second save gives identical bytes.

**Missing for the full clause 6** (continuation of *modifying* operations): before its buffer is re-opened the reloaded
object does not know which blocks are bitmap blocks (`bitmap_blocks` is empty), so `write_block`'s refusal to write a
bitmap block and `zap_block`'s dropping of the buffer are not armed.  An operation that writes before it touches the
bitmap (`lock`, `rename`, `retype`: `write_entry` first, `allocate_block` afterwards) behaves the same only if the
directory block it writes is not a bitmap block — a well-formedness property of the volume (no directory, index or
data pointer designates a bitmap block, the bitmap marks its own blocks used) that needs the refinement invariant of
the ProDOS model, which is not proved preserved (`design/FsProdos.md`).  Likewise `Coh` is proved here for the states
the theorem is applied to, not preserved along modifying operations (it is re-established whenever the buffer is
opened: `openBitmap_closed`). -/
theorem reload_observes_same_partial {d : Disk} (h : Coh d) (hclosed : d.bitmap = none → d.bitmapBlocks = []) {bytes : Bytes}
    (hs : save d = .ok bytes) :
    let d' := load d.src bytes
    (∀ path, (catalog path d').1 = (catalog path d).1) ∧
    (∀ path, (get path d').1 = (get path d).1) ∧
    (statFree d').1 = (statFree d).1 ∧
    (d'.flush).2.raw = (d.flush).2.raw ∧
    Read.ProdosT.read (d'.flush).2.raw = Read.ProdosT.read (d.flush).2.raw ∧
    save d' = .ok bytes := by
  intro d'
  obtain ⟨b2, hs2, hr⟩ := save_ok h
  rw [hs] at hs2
  cases hs2
  have hd' : d' = reload d := hr.symm
  cases hb : d.bitmap with
  | none =>
    have e : reload d = d := by
      rw [reload_closed h hb]
      cases d
      simp only at hb
      have := hclosed hb
      simp only at this
      subst hb this
      rfl
    rw [hd', e]
    exact ⟨fun _ => rfl, fun _ => rfl, rfl, rfl, rfl, hs⟩
  | some b =>
    have e : reload d = closedTwin d b := reload_open h hb
    rw [hd', e]
    have hf : (closedTwin d b).flush = (.ok (), closedTwin d b) := flush_closed rfl
    have hfd := flush_open h hb
    refine ⟨fun p => ((RespQ.catalog p).out d b h hb _ (Or.inl rfl)).2.1, fun p => ((RespQ.get p).out d b h hb _ (Or.inl rfl)).2.1,
      (RespQ.statFree.out d b h hb _ (Or.inl rfl)).2.1, by rw [hf, hfd]; rfl, by rw [hf, hfd]; rfl, ?_⟩
    unfold save at hs ⊢
    rw [hfd] at hs
    rw [hf]
    exact hs

/-- C06 (ProDOS), clause 6 for sequences of queries: after a reload any sequence of `catalog`/`get`/`stat` requests is
answered as without the reload (the reloaded object re-opens its buffer on the way and stays a twin). -/
theorem queries_after_reload {d : Disk} {b : Array Nat} (h : Coh d) (hb : d.bitmap = some b) {α β : Type} {m1 : M α} {m2 : M β}
    (h1 : RespQ m1) (h2 : RespQ m2) :
    (m1 (reload d)).1 = (m1 d).1 ∧ (m2 (m1 (reload d)).2).1 = (m2 (m1 d).2).1 := by
  rw [reload_open h hb]
  obtain ⟨e0, e1, t1⟩ := h1.out d b h hb _ (Or.inl rfl)
  refine ⟨e1, ?_⟩
  rw [e0]
  exact (h2.out d b h hb _ t1).2.1

/-- C06 (ProDOS), clause 6 **after the reloaded object has re-opened its buffer** (`…_partial`; volumes below 4096
blocks, i.e. one bitmap block).  `openTwin d b` is the reloaded object after its first bitmap access
(`reopen_restores_buffer`).  From there on **every** history of operations — `put`, `delete`, `rename`, `lock`, `unlock`,
`retype`, `mkdir` and the queries, successful or not — answers exactly as on the object that was never saved, and the
final objects save to the same bytes: that the bitmap block of the image is stale in one object and current in the
other is invisible.  Missing for the full clause: the steps of the reloaded object *before* its first bitmap access
(see `reload_observes_same_partial`). -/
theorem continuation_after_reopen_partial {d : Disk} {b : Array Nat} (h : Coh d) (hb : d.bitmap = some b) (ht : d.total < 4096)
    (ops : List Reload.Prodos.Op) :
    (Reload.Prodos.exec (openTwin d b) ops).1 = (Reload.Prodos.exec d ops).1 ∧
    save (Reload.Prodos.exec (openTwin d b) ops).2 = save (Reload.Prodos.exec d ops).2 := by
  obtain ⟨e, s⟩ := exec_osim ops (osim_openTwin h hb ht)
  exact ⟨e, save_osim s⟩

/-! ### non-vacuity and the negative witness -/

open A2Verif.Reload.Prodos (blank exD cohB coh_of_cohB exD_coh freeOf reloadForgetful reloadForgetful_eq exD_free exD_closed)

/-- **negative witness**: if `get_img` did not write the bitmap buffer back, clause 3 would fail on `exD` -/
theorem forgetful_flush_loses_bitmap : freeOf (statFree (reloadForgetful exD)) ≠ freeOf (statFree exD) := by
  rw [reloadForgetful_eq exD_coh, exD_free.1, exD_free.2]; decide

/-- … whereas with the real `save` the free count survives (instance of clause 3) -/
example : (statFree (reload exD)).1 = (statFree exD).1 := by
  obtain ⟨bytes, hs, hr⟩ := save_ok exD_coh
  rw [hr]
  exact (reload_observes_same_partial exD_coh exD_closed hs).2.2.1

/-- instance of `continuation_after_reopen_partial` on the example object: a `mkdir`, a `lock` of a missing file and a
`stat` answer alike -/
example : (Reload.Prodos.exec (openTwin exD ((exD.bitmap).getD #[])) [.mkdir [47, 86, 47, 68] [0, 0, 0, 0], .lock [88], .statFree]).1 =
    (Reload.Prodos.exec exD [.mkdir [47, 86, 47, 68] [0, 0, 0, 0], .lock [88], .statFree]).1 := by
  have hb : exD.bitmap = some ((exD.bitmap).getD #[]) := by
    cases h : exD.bitmap with
    | none => exact absurd h Reload.Prodos.exD_open
    | some b => rfl
  exact (continuation_after_reopen_partial exD_coh hb Reload.Prodos.exD_small _).1

end Prodos

/-! ## Identification: the saved bytes are found to hold the same file system

`Model/Reload.lean`, namespace `Ident`: the container order of `create_fs_from_bytestream`, the size tests of the four
flat containers, and the first four tests of `try_img` (DOS 3.x, ProDOS, Pascal, FAT).  DOS 3.x is asked first, so a
DOS volume is always recognised; every other file system on a 143360-byte image is recognised only if its track 17
sector 0 (in DOS order) does not look like a VTOC — a genuine ambiguity of a2kit (`vtoc_lookalike_wins`). -/
namespace Ident
open A2Verif.Fs.Dos3x A2Verif.Reload.Dos A2Verif.Reload.Ident

/-- C06, identification (DOS 3.x): after `init33` (volume 1 … 254) on a blank DO image and **any** history of operations
and reloads without another `init`, the saved bytes are identified as DOS 3.3 — with the hint `do`, with `dsk`, and with
no hint at all. -/
theorem dos33_history_identified (vol : Nat) (steps : List Reload.Dos.Step)
    (hn : ∀ v s, Reload.Dos.Step.op (.init v s) ∉ steps)
    (hi : (init (blank 16) vol 16).1 ≠ .error .panic) {b : Bytes} (rp : Repairs := {})
    (hs : save (exec (init (blank 16) vol 16).2 steps rp).2 = .ok b) :
    identify .do_ b = some .dos33 ∧ identify .dsk b = some .dos33 ∧ identify .none b = some .dos33 := by
  have hc0 : Coh (init (blank 16) vol 16).2 := (init_sim (DSim.same (blank_coh 16)) vol 16).2.coh
  have hh0 : HdrD (init (blank 16) vol 16).2 ∧ (init (blank 16) vol 16).2.c = 16 := by
    rcases init_hdr (d := blank 16) (Or.inr rfl)
      (by show (Array.replicate (35 * 16) (List.replicate 256 0)).size = 35 * 16; rw [Array.size_replicate]) vol with h | h
    · exact absurd h hi
    · exact h
  have hc : Coh (exec (init (blank 16) vol 16).2 steps rp).2 := (exec_sim steps (DSim.same hc0) rp).2.coh'
  obtain ⟨hh, hcc⟩ := exec_hdr steps hc0 hh0.1 hn rp
  have h16 : (exec (init (blank 16) vol 16).2 steps rp).2.c = 16 := by
    rw [hcc]
    exact hh0.2
  exact dos_identified_16 hc hh h16 hs

/-- non-vacuity: `init33(254)`, a sparse `put`, a reload, a `delete` — whatever bytes come out are DOS 3.3 without a hint -/
example {b : Bytes} (hs : save (exec (init (blank 16) 254 16).2 [.op (.put exA), .reload, .op (.delete [72, 105])]).2 = .ok b) :
    identify .none b = some .dos33 :=
  (dos33_history_identified 254 _ (by intro v s h; simp at h) Reload.Dos.init16_ok {} hs).2.2

/-- C06, identification (DOS 3.2 on D13), same statement with the hints `d13` and none -/
theorem dos_identified_13 {d : Disk} (hc : Coh d) (hh : HdrD d) (h13 : d.c = 13) {b : Bytes} (hs : save d = .ok b) :
    identify .d13 b = some .dos32 ∧ identify .none b = some .dos32 := Reload.Ident.dos_identified_13 hc hh h13 hs

/-- C06, identification, **the ambiguity**: any 143360-byte image whose bytes 69632 … 69887 pass `test_img_16` is
identified as DOS 3.3 with `do`, `dsk` and no hint, whatever file system it holds. -/
theorem vtoc_lookalike_wins {b sec : Bytes} (hlen : b.length = 143360) (hs : bytesAt b 69632 256 = some sec)
    (ht : vtocTest sec 16 false = true) :
    identify .do_ b = some .dos33 ∧ identify .dsk b = some .dos33 ∧ identify .none b = some .dos33 :=
  Reload.Ident.vtoc_lookalike_wins hlen hs ht

/-- C06, identification, the witness of the ambiguity (kernel-evaluated): one byte string is ProDOS under `po` and
DOS 3.3 under `dsk` and under no hint -/
theorem ambiguous_image : identify .po ambiguousBytes = some .prodos ∧ identify .dsk ambiguousBytes = some .dos33 ∧
    identify .none ambiguousBytes = some .dos33 := Reload.Ident.ambiguous_image

end Ident

/-! ## Clause 6 in one place: continuing after a reload

What the `Save` / `Reload` operations of the history generator (`harness/src/fam/fs.rs`) check on the real code — the
history goes on with the re-loaded object, every later step oracle and the per-step tie then see whatever was held only in
a buffer — is, on the models, the conjunction of the five history theorems: a history with reloads anywhere answers as the
history without them, and ends in objects that save to the same bytes.  For ProDOS the statement starts at the re-loaded
object's first bitmap access (`continuation_after_reopen_partial`; what is missing is said there). -/
theorem continuation_after_reload :
    (∀ (steps : List Pascal.Step) {r : Raw}, Pascal.Coh r → Pascal.exec r steps = Pascal.exec r (Pascal.opsOf steps)) ∧
    (∀ {dpb : Read.Cpm.Dpb} (steps : List Cpm.Step) {r : Raw}, Cpm.Coh dpb r → Cpm.exec dpb r steps = Cpm.exec dpb r (Cpm.opsOf steps)) ∧
    (∀ {d : Fs.Dos3x.Disk}, Reload.Dos.Coh d → ∀ (steps : List Reload.Dos.Step) (rp : Fs.Dos3x.Repairs),
      (Reload.Dos.exec d steps rp).1 = (Reload.Dos.exec d (Reload.Dos.opsOf steps) rp).1 ∧
      Reload.Dos.save (Reload.Dos.exec d steps rp).2 = Reload.Dos.save (Reload.Dos.exec d (Reload.Dos.opsOf steps) rp).2) ∧
    (∀ {d : Fs.Fat.Disk}, Reload.Fat.Coh d → ∀ steps : List Reload.Fat.StepF, Reload.Fat.ValidF d (Reload.Fat.opsOfF steps) →
      (Reload.Fat.execF d steps).1 = (Reload.Fat.execF d (Reload.Fat.opsOfF steps)).1 ∧
      Reload.Fat.save (Reload.Fat.execF d steps).2 = Reload.Fat.save (Reload.Fat.execF d (Reload.Fat.opsOfF steps)).2) ∧
    (∀ {d : Fs.Prodos.Disk} {b : Array Nat}, Reload.Prodos.Coh d → d.bitmap = some b → d.total < 4096 → ∀ ops : List Reload.Prodos.Op,
      (Reload.Prodos.exec (Reload.Prodos.openTwin d b) ops).1 = (Reload.Prodos.exec d ops).1 ∧
      Reload.Prodos.save (Reload.Prodos.exec (Reload.Prodos.openTwin d b) ops).2 = Reload.Prodos.save (Reload.Prodos.exec d ops).2) :=
  ⟨fun steps _ h => Pascal.history_with_reloads steps h, fun steps _ h => Cpm.history_with_reloads steps h,
   fun h steps rp => Dos.history_with_reloads h steps rp, fun h steps hv => Fat.history_with_reloads_format h steps hv,
   fun h hb ht ops => Prodos.continuation_after_reopen_partial h hb ht ops⟩

end A2Verif.C06Reload
