import A2Verif.Props.C03
/-!
# C04 — free space is conserved

`Vol.free` is the length of the list of units the on-disk allocation map marks free (the harness compares
it with the number a2kit's `stat` reports); `Vol.noLeak` (every unit of the volume is owned, system or
free) is evaluated by the driver on every reading together with `wfB`.  Here: these two Boolean facts give
the accounting identity of C04, and with it "put consumes exactly what the new file owns" and "put then
delete restores the free count".  The acceptance clause of C04 (a file that fits is accepted) is a
statement about a2kit's allocator and is tested by the harness's exact-fit generator; it is not derivable
from the refinement conditions and is not claimed here.
-/
namespace A2Verif.C04

theorem mem_range {lo hi u : Nat} : u ∈ Vol.range lo hi ↔ lo ≤ u ∧ u < hi := by
  unfold Vol.range
  simp only [List.mem_map, List.mem_range]
  constructor
  · rintro ⟨k, hk, rfl⟩; omega
  · rintro ⟨h1, h2⟩; exact ⟨u - lo, by omega, by omega⟩

theorem range_nodup (lo hi : Nat) : (Vol.range lo hi).Nodup := by
  unfold Vol.range
  rw [List.nodup_iff_pairwise_ne, List.pairwise_map]
  exact (List.nodup_iff_pairwise_ne.1 List.nodup_range).imp (fun h e => h (by omega))

theorem range_length (lo hi : Nat) : (Vol.range lo hi).length = hi - lo := by
  unfold Vol.range; simp

/-- C04, first sentence ("the free space a volume reports equals its size minus the blocks reachable from
its directories and its fixed system areas, so nothing leaks"): in a well-formed, leak-free reading whose
system units lie inside the volume, the free units, the owned units and the system units PARTITION the unit
range, hence `free + owned + system = size`. -/
theorem free_accounting {v : Vol} (hw : v.wfB = true) (hl : v.noLeak = true)
    (hsys : ∀ u ∈ v.sys, v.lo ≤ u ∧ u < v.hi) :
    v.free + v.allOwned.length + v.sys.length = v.hi - v.lo := by
  obtain ⟨hin, hnd, hof, hsf, ⟨hfn, hfin⟩, _, _⟩ := wfB_iff.1 hw
  have hleak : ∀ u, v.lo ≤ u → u < v.hi → u ∈ v.allOwned ∨ u ∈ v.sys ∨ u ∈ v.freeUnits := by
    intro u h1 h2
    unfold Vol.noLeak at hl
    have := List.all_eq_true.1 hl u (mem_range.2 ⟨h1, h2⟩)
    simpa [Bool.or_eq_true, or_assoc] using this
  have ndL : (v.freeUnits ++ (v.allOwned ++ v.sys)).Nodup := by
    rw [List.nodup_append]
    refine ⟨hfn, hnd, ?_⟩
    intro a ha b hb hab
    subst hab
    rcases List.mem_append.1 hb with h | h
    · exact hof a h ha
    · exact hsf a h ha
  have hperm : (v.freeUnits ++ (v.allOwned ++ v.sys)).Perm (Vol.range v.lo v.hi) := by
    rw [List.perm_ext_iff_of_nodup ndL (range_nodup _ _)]
    intro u
    rw [mem_range]
    constructor
    · intro hu
      rcases List.mem_append.1 hu with h | h
      · exact hfin u h
      · rcases List.mem_append.1 h with h | h
        · exact hin u h
        · exact hsys u h
    · rintro ⟨h1, h2⟩
      rcases hleak u h1 h2 with h | h | h
      · exact List.mem_append_right _ (List.mem_append_left _ h)
      · exact List.mem_append_right _ (List.mem_append_right _ h)
      · exact List.mem_append_left _ h
  have := hperm.length_eq
  rw [range_length, List.length_append, List.length_append] at this
  unfold Vol.free
  omega

/-- C04 for every state of every history: after every step of a valid history, if the reading is leak-free
(the driver reports `noleak=1`) the identity holds. -/
theorem free_accounting_every_state {P : FsParams} {v0 : Vol} {tr : List Step} (hv : validFrom P v0 tr) :
    ∀ s ∈ tr, s.post.noLeak = true → (∀ u ∈ s.post.sys, s.post.lo ≤ u ∧ u < s.post.hi) →
      s.post.free + s.post.allOwned.length + s.post.sys.length = s.post.hi - s.post.lo :=
  fun s hs hl hsys => free_accounting (C03.every_state_well_formed hv s hs) hl hsys

/-- two readings of one volume (same bounds, same number of system units) -/
structure SameGeometry (v w : Vol) : Prop where
  lo : v.lo = w.lo
  hi : v.hi = w.hi
  sys : v.sys.length = w.sys.length

/-- a reading on which the accounting identity applies -/
structure Accountable (v : Vol) : Prop where
  wf : v.wfB = true
  noLeak : v.noLeak = true
  sysIn : ∀ u ∈ v.sys, v.lo ≤ u ∧ u < v.hi

/-- C04: between two readings of the same volume, free space moves exactly against owned space. -/
theorem free_moves_against_owned {v w : Vol} (hv : Accountable v) (hw : Accountable w) (hg : SameGeometry v w) :
    v.free + v.allOwned.length = w.free + w.allOwned.length := by
  have a := free_accounting hv.wf hv.noLeak hv.sysIn
  have b := free_accounting hw.wf hw.noLeak hw.sysIn
  rw [hg.lo, hg.hi, hg.sys] at a
  omega

/-- C04 ("storing a file and then deleting it restores the previous free count", general form): two
readings of the same volume with the same number of owned units report the same free count — i.e. the free
count is restored whenever no directory grew in between. -/
theorem same_owned_same_free {v w : Vol} (hv : Accountable v) (hw : Accountable w) (hg : SameGeometry v w)
    (ho : v.allOwned.length = w.allOwned.length) : v.free = w.free := by
  have := free_moves_against_owned hv hw hg
  omega

/-! ### flat volumes: the owned count is determined by the step conditions -/

/-- no entry is a directory (DOS 3.x, Pascal, CP/M always; ProDOS/FAT volumes without subdirectories) -/
def Flat (v : Vol) : Prop := ∀ f ∈ v.files, f.isDir = false

/-- `sameFiles` between lists without directories and with unique paths: same records up to order -/
theorem sameFiles_perm {a b : List FileRec} (h : sameFiles a b = true) (hflat : ∀ f ∈ a, f.isDir = false)
    (nda : (a.map (·.path)).Nodup) (ndb : (b.map (·.path)).Nodup) : a.Perm b := by
  obtain ⟨h1, h2⟩ := sameFiles_iff.1 h
  have fwd : ∀ f ∈ a, f ∈ b := by
    intro f hf
    obtain ⟨g, hg, hs⟩ := h1 f hf
    rw [sameRec_file (hflat f hf) hs] at hg
    exact (find_path_some hg).1
  rw [List.perm_ext_iff_of_nodup (nodup_of_nodup_map _ nda) (nodup_of_nodup_map _ ndb)]
  intro g
  refine ⟨fwd g, fun hg => ?_⟩
  have hsome := h2 g hg
  cases hfa : a.find? (·.path == g.path) with
  | none => rw [hfa] at hsome; cases hsome
  | some f =>
    obtain ⟨hfm, hfp⟩ := find_path_some hfa
    have e1 := find_path_of_mem ndb (fwd f hfm)
    have e2 := find_path_of_mem ndb hg
    rw [hfp] at e1
    rw [e1] at e2
    cases e2
    exact hfm

theorem perm_allOwned_length {a b : List FileRec} (h : a.Perm b) :
    (a.flatMap (·.owned)).length = (b.flatMap (·.owned)).length :=
  (List.Perm.flatMap_right _ h).length_eq

/-- removing the entry of path `p` from a list with unique paths removes exactly its owned units -/
theorem allOwned_length_without {l : List FileRec} (nd : (l.map (·.path)).Nodup) {p : Bytes} {f : FileRec}
    (hf : l.find? (·.path == p) = some f) :
    (l.flatMap (·.owned)).length = f.owned.length + ((without l [p]).flatMap (·.owned)).length := by
  induction l with
  | nil => cases hf
  | cons x xs ih =>
    rw [List.map_cons, List.nodup_cons] at nd
    rw [List.find?_cons] at hf
    by_cases hx : x.path = p
    · have hb : (x.path == p) = true := by simpa using hx
      rw [hb] at hf
      cases hf
      have hxs : without xs [p] = xs := by
        unfold without
        rw [List.filter_eq_self]
        intro a ha
        have : a.path ≠ p := fun e => nd.1 (by rw [hx, ← e]; exact List.mem_map_of_mem ha)
        simpa using this
      have hw : without (f :: xs) [p] = xs := by
        have : without (f :: xs) [p] = without xs [p] := by
          unfold without
          rw [List.filter_cons_of_neg]
          simpa using hx
        rw [this, hxs]
      rw [hw, List.flatMap_cons, List.length_append]
    · have hb : (x.path == p) = false := by simpa using hx
      rw [hb] at hf
      have hw : without (x :: xs) [p] = x :: without xs [p] := by
        unfold without
        rw [List.filter_cons_of_pos]
        simpa using hx
      rw [hw, List.flatMap_cons, List.flatMap_cons, List.length_append, List.length_append, ih nd.2 hf]
      omega

/-- C04 (usable space, bookkeeping side): on a flat volume an accepted `put` lowers the free count by
exactly the number of units the new entry owns (data + index/T-S-list/extent overhead) — no unit is lost to
the store. -/
theorem put_consumes_exactly_owned {P : FsParams} {pre post : Vol} {p : Bytes} {cs : List (Nat × Bytes)}
    {eof ty aux : Nat} (h : stepOk P pre (.put p cs eof ty aux) true post = true)
    (hflat : Flat pre) (ha : Accountable pre) (hb : Accountable post) (hg : SameGeometry pre post) :
    ∃ f, post.lookup p = some f ∧ post.free + f.owned.length = pre.free := by
  obtain ⟨_, ⟨f, hf, _⟩, hs⟩ := stepOk_put h
  refine ⟨f, hf, ?_⟩
  have ndpre := (C03.wfB_sound ha.wf).2.2.2.2.2
  have ndpost := (C03.wfB_sound hb.wf).2.2.2.2.2
  have hperm := sameFiles_perm hs hflat ndpre
    (List.Nodup.sublist ((without_sublist post.files [p]).map _) ndpost)
  have e1 := perm_allOwned_length hperm
  have e2 := allOwned_length_without ndpost hf
  have e3 := free_moves_against_owned ha hb hg
  unfold Vol.allOwned at e3
  omega

/-- C04: on a flat volume a successful `delete` raises the free count by exactly the number of units the
entry owned — every block of the file and its list blocks are released. -/
theorem delete_releases_exactly_owned {P : FsParams} {pre post : Vol} {p : Bytes}
    (h : stepOk P pre (.delete p) true post = true)
    (hflat : Flat pre) (ha : Accountable pre) (hb : Accountable post) (hg : SameGeometry pre post) :
    ∃ f, pre.lookup p = some f ∧ post.free = pre.free + f.owned.length := by
  obtain ⟨⟨f, hf, _⟩, _, hs⟩ := stepOk_delete h
  refine ⟨f, hf, ?_⟩
  have ndpre := (C03.wfB_sound ha.wf).2.2.2.2.2
  have ndpost := (C03.wfB_sound hb.wf).2.2.2.2.2
  have hperm := sameFiles_perm hs (fun g hg => hflat g (without_mem.1 hg).1)
    (List.Nodup.sublist ((without_sublist pre.files [p]).map _) ndpre) ndpost
  have e1 := perm_allOwned_length hperm
  have e2 := allOwned_length_without ndpre hf
  have e3 := free_moves_against_owned ha hb hg
  unfold Vol.allOwned at e3
  omega

/-- C04, second sentence ("storing a file and then deleting it restores the previous free count"): on a flat
volume, an accepted `put p` directly followed by a successful `delete p` gives back the free count of the
reading before the `put`, whichever units the allocator chose.  (With other steps in between, or with
directories, use `same_owned_same_free`: the count is restored whenever the owned total is.) -/
theorem put_then_delete_restores_free {P : FsParams} {v0 v1 v2 : Vol} {p : Bytes} {cs : List (Nat × Bytes)}
    {eof ty aux : Nat} (h1 : stepOk P v0 (.put p cs eof ty aux) true v1 = true)
    (h2 : stepOk P v1 (.delete p) true v2 = true)
    (hflat : Flat v0) (ha : Accountable v0) (hb : Accountable v2) (hg : SameGeometry v0 v2) :
    v2.free = v0.free := by
  obtain ⟨_, _, hs1⟩ := stepOk_put h1
  obtain ⟨_, _, hs2⟩ := stepOk_delete h2
  have nd0 := (C03.wfB_sound ha.wf).2.2.2.2.2
  have nd1 := (C03.wfB_sound (stepOk_wf h1)).2.2.2.2.2
  have nd2 := (C03.wfB_sound hb.wf).2.2.2.2.2
  have ndw := List.Nodup.sublist ((without_sublist v1.files [p]).map (·.path)) nd1
  have p1 := sameFiles_perm hs1 hflat nd0 ndw
  have p2 := sameFiles_perm hs2 (fun g hg => hflat g (p1.mem_iff.2 hg)) ndw nd2
  exact (same_owned_same_free ha hb hg (perm_allOwned_length (p1.trans p2))).symm

/-! ## non-vacuity -/
open VolExample

example : v0.free + v0.allOwned.length + v0.sys.length = v0.hi - v0.lo :=
  free_accounting v0_wf v0_noLeak (by decide)

/-- a leaked unit (5 neither owned, system nor free) is seen: `noLeak` is false and the identity fails -/
example : ({ v0 with freeUnits := [4, 6, 7] } : Vol).noLeak = false := by decide

example : ∃ f, v1.lookup [66] = some f ∧ v1.free + f.owned.length = v0.free :=
  put_consumes_exactly_owned (P := P0) (show stepOk P0 v0 putB.op true v1 = true by decide)
    (by unfold Flat; decide) ⟨by decide, by decide, by decide⟩ ⟨by decide, by decide, by decide⟩ ⟨rfl, rfl, rfl⟩

example : ({ v1 with files := [fA], freeUnits := [5, 6, 7, 4] } : Vol).free = v0.free :=
  put_then_delete_restores_free (P := P0) (p := [66]) (v1 := v1)
    (show stepOk P0 v0 putB.op true v1 = true by decide) (by decide)
    (by unfold Flat; decide) ⟨by decide, by decide, by decide⟩ ⟨by decide, by decide, by decide⟩ ⟨rfl, rfl, rfl⟩

end A2Verif.C04
