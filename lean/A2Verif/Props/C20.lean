import A2Verif.Model.Determinism
import A2Verif.Lemmas.Determinism
import A2Verif.Gen.HashSites
import A2Verif.Gen.C20Flags
import A2Verif.Gen.DasmTable
/-!
# C20 -- output is a deterministic function of input

"Nothing depends on hash-map iteration order": every iteration over a `HashMap`/`HashSet` in `/repo/src` is
in the census `Gen.HashSites` (regenerated from the working tree on every run) and must be classified; the
sites whose order reaches a C20 output are modelled with the iteration sequence `π` as an explicit argument
(`Model.Determinism`) and the theorems say that the output is the same for all `π`.
-/
namespace A2Verif.C20
open A2Verif.Model.Determinism A2Verif.Lemmas.Determinism

/-! ## census -/

/-- Clause "nothing depends on hash-map iteration order", census part: every iteration over a hash container
found in the current source has an entry in the committed classification table
(`translator/c20_sites.json`: order-free / sorted-before-use / modelled / lsp-unordered).  A new or rewritten
iteration that nobody has classified makes this theorem false (`unclassified ≠ []`). -/
theorem census_all_classified : Gen.HashSites.unclassified = [] := by decide

/-- the generated row list, the site count and the classified count agree -/
theorem census_counts : Gen.HashSites.sites.length = Gen.HashSites.siteCount ∧
    Gen.HashSites.siteCount = Gen.HashSites.classifiedCount ∧
    (Gen.HashSites.sites.filter (fun r => r.2.2.2 == 99)).length = 0 := by decide

example : 0 < Gen.HashSites.siteCount := by decide
example : 0 < Gen.HashSites.count_modelled ∨ 0 < Gen.HashSites.count_sorted_before_use := by decide

/-! ## the general lemma -/

/-- Sorting two permutations of a duplicate-free key list under the total order `≤` gives equal lists: a
renderer that first sorts the keys cannot see the iteration order. -/
theorem sorted_keys_order_free (k₁ k₂ : List Nat) (h : k₁.Perm k₂) :
    k₁.mergeSort (fun a b => decide (a ≤ b)) = k₂.mergeSort (fun a b => decide (a ≤ b)) ∧
      sortKeys k₁ = sortKeys k₂ :=
  ⟨sortNat_eq_of_perm h, sortKeys_eq_of_perm h⟩

/-- the key order DESIGN §9.12 saw on the real code, and the order every run has after sorting -/
example : sortKeys [6, 5, 1, 0, 4, 7, 2, 3] = [0, 1, 2, 3, 4, 5, 6, 7] := by decide

/-- entries version (map entries, keys distinct) -/
theorem sorted_entries_order_free (π₁ π₂ : List (Nat × List Nat)) (nd : (π₁.map (·.1)).Nodup) (h : π₁.Perm π₂) :
    sortEntries π₁ = sortEntries π₂ :=
  sortEntries_eq_of_perm nd h

/-! ## `Records::to_json`, `Display for Records`, `Records::update_fimg`

Two iteration sequences of one `Records.map`: permutations of each other with distinct keys.  Witness used
below: records `0 ↦ "A"`, `1 ↦ "B"`. -/

def w01 : List (Nat × List Nat) := [(0, [65]), (1, [66])]
def w10 : List (Nat × List Nat) := [(1, [66]), (0, [65])]

theorem w_perm : w01.Perm w10 := List.Perm.swap _ _ _

/-- JSON clause, repaired code (`ordered_keys`): the JSON text of a `Records` value does not depend on the
iteration order of the map. -/
theorem toJsonSorted_perm (recLen : Nat) (π₁ π₂ : List (Nat × List Nat)) (nd : (π₁.map (·.1)).Nodup)
    (h : π₁.Perm π₂) : toJsonSorted recLen π₁ = toJsonSorted recLen π₂ := by
  unfold toJsonSorted; rw [sortEntries_eq_of_perm nd h]

example : (w01.map (·.1)).Nodup ∧ toJsonSorted 8 w01 = toJsonSorted 8 w10 := by decide

/-- JSON clause, code as written at the pinned commit (recs.rs:184 walks the `HashMap`): the statement is
FALSE -- two iteration orders of the same two records give different JSON texts
(`…"records":{"0":["A"],"1":["B"]}}` vs `…{"1":["B"],"0":["A"]}}`). -/
theorem toJson_order_matters :
    ¬ ∀ (π₁ π₂ : List (Nat × List Nat)), (π₁.map (·.1)).Nodup → π₁.Perm π₂ →
        toJsonAsWritten 8 π₁ = toJsonAsWritten 8 π₂ := by
  intro h
  exact absurd (h w01 w10 (by decide) w_perm) (by decide)

/-- Display clause, repaired code. -/
theorem displaySorted_perm (π₁ π₂ : List (Nat × List Nat)) (nd : (π₁.map (·.1)).Nodup) (h : π₁.Perm π₂) :
    displaySorted π₁ = displaySorted π₂ := by
  unfold displaySorted; rw [sortEntries_eq_of_perm nd h]

example : displaySorted w01 = displaySorted w10 := by decide

/-- Display clause, code as written (recs.rs:208): FALSE (`Record 0    ARecord 1    B…` vs `Record 1    B…`). -/
theorem display_order_matters :
    ¬ ∀ (π₁ π₂ : List (Nat × List Nat)), (π₁.map (·.1)).Nodup → π₁.Perm π₂ →
        displayAsWritten π₁ = displayAsWritten π₂ := by
  intro h
  exact absurd (h w01 w10 (by decide) w_perm) (by decide)

/-- "bytes of a modified disk image" clause, repaired code: the file image produced from a `Records` value
(which is then written to the disk image) does not depend on the iteration order. -/
theorem updateFimgSorted_perm (recLen cl : Nat) (rf clear : Bool) (init : Chunks) (π₁ π₂ : List (Nat × List Nat))
    (nd : (π₁.map (·.1)).Nodup) (h : π₁.Perm π₂) :
    updateFimgSorted recLen cl rf clear init π₁ = updateFimgSorted recLen cl rf clear init π₂ := by
  unfold updateFimgSorted; rw [sortEntries_eq_of_perm nd h]

/-- records `0 ↦ "ABCDEFGH"` (over-long for record length 4: it runs into record 1) and `1 ↦ "xy"` -/
def u01 : List (Nat × List Nat) := [(0, [65, 66, 67, 68, 69, 70, 71, 72]), (1, [120, 121])]
def u10 : List (Nat × List Nat) := [(1, [120, 121]), (0, [65, 66, 67, 68, 69, 70, 71, 72])]

example : updateFimgSorted 4 16 false true [] u01 = updateFimgSorted 4 16 false true [] u10 ∧
    updateFimgSorted 4 16 false true [] u01 = some { chunks := [(0, [65, 66, 67, 68, 120, 121, 71, 72])], eof := 8 } := by
  decide

/-- same clause, code as written (recs.rs:100): FALSE when a record is longer than the record length (the
code only warns): whichever record is visited last wins the overlap -- chunk 0 is `ABCDxyGH` or `ABCDEFGH`. -/
theorem updateFimg_order_matters :
    ¬ ∀ (π₁ π₂ : List (Nat × List Nat)), (π₁.map (·.1)).Nodup → π₁.Perm π₂ →
        updateFimgAsWritten 4 16 false true [] π₁ = updateFimgAsWritten 4 16 false true [] π₂ := by
  intro h
  exact absurd (h u01 u10 (by decide) (List.Perm.swap _ _ _)) (by decide)

/-- The variant selected by the translator flags (what the driver answers with, i.e. the code as it is NOW) is
order-free as soon as all three flags say "sorted".  On the pinned commit the flags are `false` and the three
`…_order_matters` theorems above apply instead; after the repair `proposed_fixes/recs-sorted-keys.diff` they
are `true` and this theorem covers the current code. -/
theorem records_current_order_free
    (hj : Gen.C20Flags.recsToJsonSorted = true) (hd : Gen.C20Flags.recsDisplaySorted = true)
    (hu : Gen.C20Flags.recsUpdateFimgSorted = true)
    (recLen cl : Nat) (rf clear : Bool) (init : Chunks) (π₁ π₂ : List (Nat × List Nat))
    (nd : (π₁.map (·.1)).Nodup) (h : π₁.Perm π₂) :
    toJson recLen π₁ = toJson recLen π₂ ∧ display π₁ = display π₂ ∧
      updateFimg recLen cl rf clear init π₁ = updateFimg recLen cl rf clear init π₂ := by
  unfold toJson display updateFimg
  rw [hj, hd, hu]
  simp only [if_true]
  exact ⟨toJsonSorted_perm recLen π₁ π₂ nd h, displaySorted_perm π₁ π₂ nd h,
    updateFimgSorted_perm recLen cl rf clear init π₁ π₂ nd h⟩

/-! ## `FileImage::to_json` -/

/-- "JSON for file images" clause: the `chunks` object of a file image's JSON is the same for every iteration
order of `FileImage.chunks` (fimg.rs:222-228 goes through a `BTreeMap`). -/
theorem chunksJson_perm (π₁ π₂ : List (Nat × List Nat)) (nd : (π₁.map (·.1)).Nodup) (h : π₁.Perm π₂) :
    chunksJson π₁ = chunksJson π₂ := by
  unfold chunksJson; rw [sortEntries_eq_of_perm nd h]

example : chunksJson [(1, [255]), (0, [1, 171])] =
    [123, 34, 48, 34, 58, 34, 48, 49, 65, 66, 34, 44, 34, 49, 34, 58, 34, 70, 70, 34, 125] := by decide

/-! ## disassembly: `create_dasm_map` -/

/-- every opcode of the handbook in the source has at most two claimants, and where it has two
(`jmp`/`jml` absolute long, `jsr`/`jsl`) `use_proposed_op` picks the same one whichever is met first -/
theorem dasm_table_ok :
    tableOk Gen.DasmTable.claims Gen.DasmTable.preferPairs Gen.DasmTable.mnemonicCount = true := by
  decide +kernel

/-- Disassembly clause: the opcode → operation map the disassembler uses does not depend on the order in
which the handbook `HashMap` delivers the mnemonics. -/
theorem dasm_map_order_free (π : List Nat) (h : π.Perm (List.range Gen.DasmTable.mnemonicCount))
    (code : Nat) (hc : code < 256) :
    dasmMap π code = dasmMap (List.range Gen.DasmTable.mnemonicCount) code :=
  dasmMapWith_eq_of_perm _ _ _ dasm_table_ok h code hc

/-- non-vacuity: opcode `0x5C` has two claimants and the long jump wins; with a handbook in which nobody is
preferred the order would matter -/
example : (proposalsFor Gen.DasmTable.claims (List.range Gen.DasmTable.mnemonicCount) 0x5C).length = 2 := by
  decide +kernel
example : dasmWinner [] [(31, 92), (30, 92)] ≠ dasmWinner [] [(30, 92), (31, 92)] := by decide

/-- alternates of the handbooks are unique, so `OperationHandbook::new`/`PseudoOperationHandbook::new` insert
every key of `alternates` once (their census sites are classified order-free on this ground) -/
theorem handbook_alts_unique : Gen.DasmTable.altsUnique = true := by decide

end A2Verif.C20
