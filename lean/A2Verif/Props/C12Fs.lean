import A2Verif.Lemmas.C12FsPascal
import A2Verif.Lemmas.C12FsDos
import A2Verif.Lemmas.C12FsProdos
import A2Verif.Lemmas.C12FsProdosRead
import A2Verif.Lemmas.C12FsCpm
import A2Verif.Lemmas.C12FsWalk
/-!
# C12 — the file-system read paths never panic and terminate within their caps (theorems)

Property C12: "Given arbitrary or corrupted bytes as a disk image … a2kit returns either a result or an error in
bounded time; it does not panic, overflow, index out of range, loop forever … This covers identifying and
mounting the image and the read-only queries on it (stat, catalog, tree, glob, fetching each listed file)".

The statements below are about the byte-exact, code-shaped, panic-explicit concrete models of the file systems
(`Model/Fs/*.lean`) and the identification / label / listing pieces of `Model/C12FsId.lean`, on **arbitrary**
images.  `fixed = false` is the code as written, `fixed = true` the proposed repair (see `design/C12Fs.md`);
the `…_asWritten` theorems say that the `false` variant *is* the concrete model's own function.
-/
namespace A2Verif.C12Fs

/-! ## Pascal -/
section Pascal
open A2Verif.Fs.Pascal A2Verif.C12FsId.Pascal

/-- every byte of every unit is a byte -/
def BytesOk (r : Raw) : Prop := ∀ (i : Nat) (b : Bytes), r.units[i]? = some b → ∀ x ∈ b, x < 256

/-- an error is the same error at every result type -/
theorem err_cast {α β : Type} {e : Err} (h : (Except.error e : R α) = .error .panic) : (Except.error e : R β) = .error .panic := by
  cases h; rfl

/-- decidable form of `Blocks512`, for concrete images -/
theorem blocks512_of_all {r : Raw} (h : r.units.toList.all (fun b => b.length == 512) = true) : Blocks512 r := by
  intro i b hb
  rw [List.all_eq_true] at h
  have : b ∈ r.units.toList := by
    rw [Array.mem_toList_iff]
    exact Array.mem_of_getElem? hb
  simpa using h b this

/-- **C12 / Pascal, the `false` variant is the concrete model.**  `catalogV false`, `getV false` are
`Fs.Pascal.catalog`, `Fs.Pascal.get` (the functions tied byte-exactly to the real code by family `fsp`). -/
theorem pascal_asWritten (r : Raw) (name : Bytes) :
    catalogV false r = catalog r ∧ getV false r name = Fs.Pascal.get r name := by
  constructor
  · unfold catalogV catalog
    cases getDirectory r with
    | error e => rfl
    | ok d => simp only [listLoopN_asWritten]
  · unfold getV Fs.Pascal.get getFileEntry
    cases getDirectory r with
    | error e => rfl
    | ok d =>
      simp only [findEntryN_asWritten]
      cases findEntry (upper name) d.totalBlocks (List.take d.numFiles d.entries) 0 with
      | error e => rfl
      | ok oi => cases oi <;> rfl

/-- **C12 / Pascal, identification never panics** on an image of 512-byte blocks, whatever the bytes: the index
`directory.entries[i]` (`i < num_files`) is covered by `get_directory`'s own count check, `name[j]` by the
length tests that precede the loops. -/
theorem pascal_testImg_no_panic (r : Raw) (hb : Blocks512 r) : testImg r ≠ .error .panic := by
  unfold testImg
  cases hd : getDirectory r with
  | error e =>
    cases e <;> simp
    exact getDirectory_ne_panic hb hd
  | ok d =>
    obtain ⟨hh, h26, hnf, _, _, _, _, _⟩ := getDirectory_ok_shape hd
    simp only []
    split
    · simp
    · split
      · simp
      · rename_i hnl
        split
        · simp
        · have hs : (slice d.header 7 7).length = 7 := slice_length (by omega)
          have h1 := nameCharsOk_some (name := slice d.header 7 7) (n := Hdr.nameLen d.header) (i := 0) (by omega)
          have h2 := testEntries_ne_none (end_ := Hdr.endBlock d.header) (tot := Hdr.totalBlocks d.header) h26
            (n := Hdr.numFiles d.header) (i := 0) (by unfold Dir.numFiles at hnf; omega)
          split
          · rename_i hx; exact absurd hx h1
          · simp
          · split
            · rename_i hx; exact absurd hx h2
            · simp

/-- **C12 / Pascal, read-only queries with the repair, any image whose `get_directory` does not panic.**
With the total name conversion no query can panic: `readBlocks` fails with an error outside the image, the
slot loops only convert names, the free-block count only compares numbers. -/
theorem pascal_reads_fixed_no_panic_of_dir (r : Raw) (hd : getDirectory r ≠ .error .panic) :
    statV true r ≠ .error .panic ∧ catalogV true r ≠ .error .panic ∧ treeV true r ≠ .error .panic ∧
    globV true r ≠ .error .panic ∧ ∀ name, getV true r name ≠ .error .panic := by
  have hcat : catalogV true r ≠ .error .panic := by
    unfold catalogV
    cases h : getDirectory r with
    | error e => simp only []; intro hh; exact hd (by rw [h]; exact err_cast hh)
    | ok d => exact listLoopN_ne_panic (fun e _ _ => nameFn_fixed e)
  refine ⟨?_, hcat, ?_, hcat, ?_⟩
  · unfold statV
    have hs := statFree_panic_iff r
    cases hsf : statFree r with
    | error e => simp only []; intro hh; rw [hsf] at hs; exact hd (hs.1 hh)
    | ok free =>
      cases h : getDirectory r with
      | error e => simp only []; intro hh; exact hd (by rw [h]; exact err_cast hh)
      | ok d =>
        simp only []
        cases hv : volNameFn true d.header with
        | none => exact absurd hv (volNameFn_fixed _)
        | some s => simp
  · unfold treeV
    cases h : getDirectory r with
    | error e => simp only []; intro hh; exact hd (by rw [h]; exact err_cast hh)
    | ok d =>
      simp only []
      cases hv : volNameFn true d.header with
      | none => exact absurd hv (volNameFn_fixed _)
      | some s =>
        simp only []
        have := listLoopN_ne_panic (nm := nameFn true) (total := d.totalBlocks) (es := d.entries) (fun e _ _ => nameFn_fixed e)
        cases hl : listLoopN (nameFn true) d.totalBlocks d.entries with
        | error e => simp only []; intro hh; exact this (by rw [hl]; exact err_cast hh)
        | ok rows => simp
  · intro name
    unfold getV
    split
    · simp
    · cases h : getDirectory r with
      | error e => simp only []; intro hh; exact hd (by rw [h]; exact err_cast hh)
      | ok d =>
        simp only []
        have := findEntryN_ne_panic (nm := nameFn true) (uname := upper name) (total := d.totalBlocks)
          (es := d.entries.take d.numFiles) (i := 0) (fun e _ _ => nameFn_fixed e)
        cases hf : findEntryN (nameFn true) (upper name) d.totalBlocks (d.entries.take d.numFiles) 0 with
        | error e => simp only []; intro hh; exact this (by rw [hf]; exact err_cast hh)
        | ok oi =>
          cases oi with
          | none => simp
          | some idx =>
            simp only []
            have hrb := readBlocks_ne_panic r ((List.range (Entry.endBlock (d.entries.getD idx []) - Entry.beginBlock (d.entries.getD idx []))).map
              (· + Entry.beginBlock (d.entries.getD idx [])))
            split
            · rename_i e hr; intro hh; exact hrb (by rw [hr]; exact err_cast hh)
            · split <;> simp

/-- **C12 / Pascal, the main statement (repaired code): for every image of 512-byte blocks — any number of
blocks, any bytes — identification, `stat`, `catalog`, `tree`, `glob` and `get` of any name do not panic.** -/
theorem pascal_reads_fixed_no_panic (r : Raw) (hb : Blocks512 r) :
    testImg r ≠ .error .panic ∧ statV true r ≠ .error .panic ∧ catalogV true r ≠ .error .panic ∧
    treeV true r ≠ .error .panic ∧ globV true r ≠ .error .panic ∧ ∀ name, getV true r name ≠ .error .panic :=
  ⟨pascal_testImg_no_panic r hb, pascal_reads_fixed_no_panic_of_dir r (getDirectory_ne_panic hb)⟩

/-- **C12 / Pascal, ANY unit contents (short or long units included): the model panics exactly when block 2
exists and is shorter than one 26-byte entry** (`&buf[0..ENTRY_SIZE]`).  A model artefact: every `DiskImage`
delivers 512-byte blocks for `Block::PO` (`dsk_po.rs:69`, `dsk_do.rs`, the nibble formats decode to 512), so the
guard always holds in the Rust; for short *data* blocks the model is also not the Rust (`read_block` copies 512
bytes), which is why the 512-byte statement above is the one about a2kit. -/
theorem pascal_reads_fixed_any_units (r : Raw) :
    (catalogV true r = .error .panic ↔ ∃ b, r.units[2]? = some b ∧ b.length < 26) ∧
    ((¬ ∃ b, r.units[2]? = some b ∧ b.length < 26) →
      statV true r ≠ .error .panic ∧ treeV true r ≠ .error .panic ∧ ∀ name, getV true r name ≠ .error .panic) := by
  constructor
  · rw [← getDirectory_panic_iff]
    constructor
    · intro h
      by_cases hd : getDirectory r = .error .panic
      · exact hd
      · exact absurd h (pascal_reads_fixed_no_panic_of_dir r hd).2.1
    · intro h; unfold catalogV; rw [h]
  · intro h
    have hd : getDirectory r ≠ .error .panic := fun hh => h ((getDirectory_panic_iff r).1 hh)
    have := pascal_reads_fixed_no_panic_of_dir r hd
    exact ⟨this.1, this.2.2.1, this.2.2.2.2⟩

/-- **C12 / Pascal, the code as written after a successful identification**: `stat` and `get` of any name do not
panic, because `test_img` has validated the label and the name of every used slot among the first `num_files`
— exactly the slots `get_file_entry` converts. -/
theorem pascal_mounted_asWritten_stat_get_no_panic (r : Raw) (hm : testImg r = .ok true) :
    statV false r ≠ .error .panic ∧ ∀ name, getV false r name ≠ .error .panic := by
  unfold testImg at hm
  cases hd : getDirectory r with
  | error e => rw [hd] at hm; cases e <;> simp at hm
  | ok d =>
    rw [hd] at hm
    obtain ⟨hh, h26, hnf, _, _, _, _, _⟩ := getDirectory_ok_shape hd
    simp only [] at hm
    split at hm
    · simp at hm
    · split at hm
      · simp at hm
      · rename_i hnl
        split at hm
        · simp at hm
        · split at hm
          · simp at hm
          · simp at hm
          · rename_i hname
            split at hm
            · simp at hm
            · rename_i b hte
              simp only [Except.ok.injEq] at hm
              subst hm
              have hs : (slice d.header 7 7).length = 7 := slice_length (by omega)
              -- the label converts
              have hvol : volNameFn false d.header ≠ none := by
                unfold volNameFn
                simp only [Bool.false_eq_true, if_false]
                rw [if_neg (by omega)]
                have hall : ((slice d.header 7 7).take (Hdr.nameLen d.header)).any (fun c => decide (c ≥ 128)) = false := by
                  rw [List.any_eq_false]
                  intro c hc
                  obtain ⟨j, hjc⟩ := List.mem_iff_getElem?.1 hc
                  rw [List.getElem?_take] at hjc
                  split at hjc
                  · obtain ⟨c', hc', h32, h126⟩ := nameCharsOk_true hname j (by omega) (by omega)
                    rw [hc'] at hjc
                    simp only [Option.some.injEq] at hjc
                    subst hjc
                    simp only [decide_eq_true_eq]; omega
                  · simp at hjc
                rw [hall]; simp
              -- the names of the used slots convert
              have hnames : ∀ e ∈ d.entries.take d.numFiles, entryLive e d.totalBlocks = true → nameFn false e ≠ none := by
                intro e he hlive
                rw [nameFn_asWritten]
                obtain ⟨k, hk⟩ := List.mem_iff_getElem?.1 he
                rw [List.getElem?_take] at hk
                split at hk
                · rename_i hkn
                  apply testEntries_true h26 hte k (by omega) (by unfold Dir.numFiles at hkn; omega) e hk
                  unfold entryLive at hlive
                  simp only [Bool.and_eq_true, decide_eq_true_eq] at hlive
                  omega
                · simp at hk
              constructor
              · unfold statV
                have hsp := statFree_panic_iff r
                cases hsf : statFree r with
                | error e =>
                  simp only []; intro hh; rw [hsf] at hsp
                  have := hsp.1 hh; rw [hd] at this; simp at this
                | ok free =>
                  simp only [hd]
                  cases hv : volNameFn false d.header with
                  | none => exact absurd hv hvol
                  | some s => simp
              · intro name
                unfold getV
                split
                · simp
                · simp only [hd]
                  have := findEntryN_ne_panic (uname := upper name) (i := 0) hnames
                  cases hf : findEntryN (nameFn false) (upper name) d.totalBlocks (d.entries.take d.numFiles) 0 with
                  | error e => simp only []; intro hh; exact this (by rw [hf]; exact err_cast hh)
                  | ok oi =>
                    cases oi with
                    | none => simp
                    | some idx =>
                      simp only []
                      have hrb := readBlocks_ne_panic r ((List.range (Entry.endBlock (d.entries.getD idx []) - Entry.beginBlock (d.entries.getD idx []))).map
                        (· + Entry.beginBlock (d.entries.getD idx [])))
                      split
                      · rename_i e hr; intro hh; exact hrb (by rw [hr]; exact err_cast hh)
                      · split <;> simp

/-- **C12 / Pascal, the defect in the code as written, characterised**: `catalog_to_vec` (and with it `glob` and
`tree`, which run the same slot loop) panics exactly when some slot of the directory — used or not, in front of
`num_files` or behind it — passes the liveness test and has a name length above 15 or a name byte ≥ 128.
`test_img` never looks at the slots behind `num_files`. -/
theorem pascal_catalog_asWritten_panic_iff (r : Raw) (hb : Blocks512 r) :
    catalog r = .error .panic ↔
      ∃ d, getDirectory r = .ok d ∧ ∃ e ∈ d.entries, entryLive e d.totalBlocks = true ∧ fileNameToString e = none := by
  rw [← (pascal_asWritten r []).1]
  unfold catalogV
  cases hd : getDirectory r with
  | error e =>
    simp only [reduceCtorEq, false_and, exists_false, iff_false]
    intro hh
    exact getDirectory_ne_panic hb (by rw [hd]; exact err_cast hh)
  | ok d =>
    simp only [Except.ok.injEq, exists_eq_left']
    constructor
    · intro h
      by_cases hx : ∃ e ∈ d.entries, entryLive e d.totalBlocks = true ∧ fileNameToString e = none
      · exact hx
      · exfalso
        apply listLoopN_ne_panic (nm := nameFn false) (total := d.totalBlocks) (es := d.entries) _ h
        intro e he hl hn
        rw [nameFn_asWritten] at hn
        exact hx ⟨e, he, hl, hn⟩
    · rintro ⟨e, he, hl, hn⟩
      exact listLoopN_panic_of ⟨e, he, hl, by rw [nameFn_asWritten]; exact hn⟩

/-- **C12 / Pascal, bounded time.**  The model has no fuel: every loop of the read paths is a structural
recursion over a block range or over the slot list, and these are bounded by the image: a successful
`get_directory` has read `end − 2` blocks, all inside the image (`readBlocks` stops at the first block
outside), the slot list has fewer than `512·(end − 2)/26` elements, `num_files` of them at most are looked at
by `get`/`is_block_free`, and the free-block loop runs `total_blocks ≤ 65535` times. -/
theorem pascal_work_bounded (r : Raw) (hb : Blocks512 r) (hx : BytesOk r) {d : Dir} (hd : getDirectory r = .ok d) :
    Hdr.endBlock d.header ≤ r.units.size ∧ (d.entries.length + 1) * 26 ≤ 512 * (Hdr.endBlock d.header - 2) ∧
    d.numFiles ≤ d.entries.length ∧ d.totalBlocks < 65536 := by
  obtain ⟨hh, h26, hnf, _, h2, _, hsz, hcnt⟩ := getDirectory_ok_shape hd
  refine ⟨hsz, ?_, hnf, ?_⟩
  · rcases hcnt 512 (fun i b hib => by rw [hb i b hib]; exact Nat.le_refl _) with h | h
    · exact h
    · rw [h]; omega
  · -- the header is the beginning of block 2, whose bytes are bytes
    unfold getDirectory readBlock at hd
    cases h2u : r.units[2]? with
    | none => rw [h2u] at hd; simp at hd
    | some b0 =>
      rw [h2u] at hd
      simp only [volHeaderBlock, entrySize] at hd
      split at hd
      · simp at hd
      · split at hd
        · simp at hd
        · split at hd
          · simp at hd
          · split at hd
            · simp at hd
            · simp only [Except.ok.injEq] at hd
              subst hd
              unfold Dir.totalBlocks Hdr.totalBlocks le16
              dsimp only
              have hbyte : ∀ k, (List.take 26 b0).getD k 0 < 256 := by
                intro k
                rw [List.getD_eq_getElem?_getD]
                cases hk : (List.take 26 b0)[k]? with
                | none => simp
                | some x =>
                  simp only [Option.getD_some]
                  have hm : x ∈ List.take 26 b0 := List.mem_of_getElem? hk
                  exact hx 2 b0 h2u x (List.mem_of_mem_take hm)
              have := hbyte 14; have := hbyte (14 + 1)
              omega

/-- … and after a successful identification the directory is at most 18 blocks with at most 353 slots. -/
theorem pascal_mounted_work_bounded (r : Raw) (hb : Blocks512 r) (hm : testImg r = .ok true) :
    ∃ d, getDirectory r = .ok d ∧ Hdr.endBlock d.header ≤ 20 ∧ d.entries.length ≤ 353 := by
  unfold testImg at hm
  cases hd : getDirectory r with
  | error e => rw [hd] at hm; cases e <;> simp at hm
  | ok d =>
    rw [hd] at hm
    simp only [] at hm
    split at hm
    · simp at hm
    · rename_i hc
      obtain ⟨_, _, _, _, _, _, _, hcnt⟩ := getDirectory_ok_shape hd
      refine ⟨d, rfl, by omega, ?_⟩
      rcases hcnt 512 (fun i b hib => by rw [hb i b hib]; exact Nat.le_refl _) with h | h
      · have : 512 * (Hdr.endBlock d.header - 2) ≤ 512 * 18 := Nat.mul_le_mul_left _ (by omega)
        omega
      · omega

/-! ### Pascal: concrete images (non-vacuity and the witness of the defect) -/

def z512 : Bytes := List.replicate 512 0
/-- a directory block: header, slots, zero padding -/
def dirBlock (hdr slots : Bytes) : Bytes := hdr ++ slots ++ List.replicate (512 - hdr.length - slots.length) 0
/-- header of a 5-block volume `TEST` with a 1-block directory and `nf` files -/
def hdrTest (nf : Nat) : Bytes := [0,0, 3,0, 0,0, 4, 84,69,83,84,0,0,0, 5,0, nf,0, 0,0, 0,0, 0,0,0,0]
/-- a slot: block 3 only, type 5, name `AAAAA…` with the given length byte -/
def slotA (nameLen : Nat) : Bytes := [3,0, 4,0, 5,0, nameLen] ++ List.replicate 15 65 ++ [0,2, 0,0]

/-- a well-formed 5-block volume with one file `AAAAA` -/
def goodImg : Raw := { unitLen := 512, units := #[z512, z512, dirBlock (hdrTest 1) (slotA 5), z512, z512] }
/-- **the witness**: no files (`num_files = 0`), but the first (unused) slot still describes block 3 and has
name length 16 -/
def staleImg : Raw := { unitLen := 512, units := #[z512, z512, dirBlock (hdrTest 0) (slotA 16), z512, z512] }

example : Blocks512 goodImg ∧ Blocks512 staleImg := ⟨blocks512_of_all (by decide +kernel), blocks512_of_all (by decide +kernel)⟩
/-- non-vacuity of the positive theorems: the good image mounts, lists one file and `get` returns its block -/
example : (testImg goodImg).toOption = some true ∧ (catalog goodImg).toOption = some [([65,65,65,65,65], 1, 5)] ∧
    (Fs.Pascal.get goodImg [65,65,65,65,65]).toOption.map (·.eof) = some 0 ∧ (statFree goodImg).toOption = some 1 := by decide +kernel
/-- **the defect**: the stale image is identified as Pascal (so the CLI mounts it) and `catalog` panics; `stat`
and `get` do not (theorem above); with the repair nothing does -/
example : (testImg staleImg).toOption = some true ∧ cls (catalog staleImg) = .panic ∧ cls (treeV false staleImg) = .panic ∧
    (catalogV true staleImg).toOption.map (·.length) = some 1 := by decide +kernel
/-- any-units statement is not vacuous: an image whose block 2 has 25 bytes makes the model panic -/
example : cls (catalogV true { unitLen := 512, units := #[z512, z512, List.replicate 25 0] }) = .panic := by decide +kernel
/-- hypotheses of `pascal_work_bounded` are satisfiable -/
example : (getDirectory goodImg).toOption.map (·.entries.length) = some 18 ∧ BytesOk goodImg := by
  refine ⟨by decide +kernel, ?_⟩
  intro i b hb x hx
  have : b ∈ goodImg.units.toList := by rw [Array.mem_toList_iff]; exact Array.mem_of_getElem? hb
  have hall : goodImg.units.toList.all (fun b => b.all (· < 256)) = true := by decide +kernel
  rw [List.all_eq_true] at hall
  have := hall b this
  rw [List.all_eq_true] at this
  simpa using this x hx

end Pascal

/-! ## DOS 3.x -/
section Dos
open A2Verif.Fs.Dos3x A2Verif.C12FsId.Dos

/-- a freshly mounted disk (`from_img`: no VTOC buffer yet) on an image of 256-byte sectors -/
theorem diskOk_fresh {r : Raw} (hu : Units256 r) (c : Nat) : DiskOk { raw := r, c := c, vtoc := none } :=
  ⟨hu, fun v h => by cases h⟩

/-- decidable form of `Units256`, for concrete images -/
theorem units256_of_all {r : Raw} (h : r.units.toList.all (fun b => b.length == 256) = true) : Units256 r := by
  intro i b hb
  rw [List.all_eq_true] at h
  have : b ∈ r.units.toList := by
    rw [Array.mem_toList_iff]
    exact Array.mem_of_getElem? hb
  simpa using h b this

/-- **C12 / DOS 3.x, the main statement (code as written): for every image of 256-byte sectors — any number of
sectors, any bytes, 16 or 13 (or any other number of) sectors per track — `catalog`, `glob`, `tree` and `get` of any
name do not panic**, whether or not the image was identified as DOS.  Every sector buffer that reaches
`DirectorySector::from_bytes`, `TrackSectorList::from_bytes` or the copy loop of `read_sector` is 256 bytes; pointers
are followed through `read_block`, which refuses what is outside the image; `tslist.pairs[2p]` is covered by the
`max_pairs ≤ 122` check of `open_vtoc_buffer`; the name conversions are total. -/
theorem dos_reads_no_panic (d : Disk) (hd : DiskOk d) :
    (catalog d).1 ≠ .error .panic ∧ (glob d).1 ≠ .error .panic ∧ (tree d).1 ≠ .error .panic ∧
    ∀ name, (Fs.Dos3x.get d name).1 ≠ .error .panic := by
  have hcat : (catalog d).1 ≠ .error .panic := by
    unfold catalog
    refine (run_safe hd (P := fun rows => rows.length ≤ 7 * maxDirectoryReps) ?_).1
    apply ReadSafe.bind ReadSafe.getV; intro v _
    exact catalogLoop_safe _ _ _ _ zeros_length
  refine ⟨hcat, hcat, ?_, ?_⟩
  · unfold tree
    refine (run_safe hd (P := fun _ => True) ?_).1
    apply ReadSafe.bind ReadSafe.getV; intro v _
    exact treeLoop_safe _ _ _ _ zeros_length
  · intro name
    unfold Fs.Dos3x.get
    split
    · simp
    · rename_i hl
      exact (run_safe hd (getM_safe (by omega))).1

/-- **C12 / DOS 3.x, `stat`** (`num_free_sectors` indexes the 140-byte bitmap with `track*4` and shifts by
`sector + 32 - sectors`): no panic whenever the VTOC says at most 35 tracks and at most 32 sectors — the exact
guard; beyond it the Rust does panic (`example` below), but `test_img` only lets 35 tracks and 13/16 sectors mount. -/
theorem dos_stat_no_panic_of_geometry (d : Disk) (hd : DiskOk d)
    (hg : ∀ v, openVtoc d = .ok v → Vtoc.tracks v ≤ 35 ∧ Vtoc.sectors v ≤ 32) : (statFree d).1 ≠ .error .panic := by
  unfold statFree Disk.run
  have hs := openVtoc_spec hd
  cases ho : openVtoc d with
  | error e => simp only []; exact fun hh => hs.1 (by rw [ho]; cases hh; rfl)
  | ok v =>
    simp only []
    obtain ⟨ht, hsec⟩ := hg v ho
    show ((M.getV >>= fun v => M.lift (numFree v)) { c := d.c, raw := d.raw, v := v }).1 ≠ _
    exact numFree_ne_panic ht hsec

/-- what a successful identification establishes about the VTOC that `open_vtoc_buffer` will read -/
theorem dos_testImg_geometry {c : Nat} {r : Raw} (hm : testImg c r = true) :
    ∀ v, openVtoc { raw := r, c := c, vtoc := none } = .ok v → Vtoc.tracks v = 35 ∧ Vtoc.sectors v = c := by
  intro v hv
  unfold testImg at hm
  unfold openVtoc at hv
  simp only [] at hv
  split at hm
  · simp at hm
  · cases hr : imgRead c r vtocTrack 0 with
    | error e => rw [hr] at hm; simp at hm
    | ok dat =>
      rw [hr] at hm hv
      simp only [] at hm hv
      split at hm
      · simp at hm
      · rename_i hlen
        rw [if_neg hlen] at hv
        split at hv
        · simp at hv
        · simp only [Except.ok.injEq] at hv
          subst hv
          split at hm
          · simp at hm
          · split at hm
            · simp at hm
            · split at hm
              · simp at hm
              · split at hm
                · simp at hm
                · rename_i hgeo
                  constructor <;> omega

/-- **C12 / DOS 3.x, after a successful identification `stat` does not panic either** (16- and 13-sector images;
any `c ≤ 32`). -/
theorem dos_mounted_stat_no_panic (c : Nat) (r : Raw) (hu : Units256 r) (hc : c ≤ 32) (hm : testImg c r = true) :
    (statFree { raw := r, c := c, vtoc := none }).1 ≠ .error .panic := by
  apply dos_stat_no_panic_of_geometry _ (diskOk_fresh hu c)
  intro v hv
  obtain ⟨h1, h2⟩ := dos_testImg_geometry hm v hv
  omega

/-- **C12 / DOS 3.x, bounded time, directory walk.**  `catalogLoop`'s fuel is the Rust's `MAX_DIRECTORY_REPS = 100`
(the loop `for _try in 0..MAX_DIRECTORY_REPS`); it is consumed once per directory sector, so a catalog chain with a
cycle ends in `IOError` after 100 sectors, and a listing never has more than 700 rows. -/
theorem dos_catalog_rows_bounded (d : Disk) (hd : DiskOk d) (rows : List (Bytes × Nat × Nat))
    (h : (catalog d).1 = .ok rows) : rows.length ≤ 700 := by
  unfold catalog at h
  refine (run_safe hd (P := fun rows => rows.length ≤ 7 * maxDirectoryReps) ?_).2 rows h
  apply ReadSafe.bind ReadSafe.getV; intro v _
  exact catalogLoop_safe _ _ _ _ zeros_length

/-- **C12 / DOS 3.x, bounded time, track/sector list walk.**  `readLoop`'s fuel is `MAX_TSLIST_REPS = 1000`, consumed
once per T/S list sector; each visits `max_pairs` pairs (`≤ 122` by `open_vtoc_buffer`): a fetched file has at most
`max_pairs · 1000 ≤ 122 000` chunks and a T/S chain with a cycle ends in `EndOfData`. -/
theorem dos_tslist_walk_bounded (w : W) (hw : WOk w) (maxPairs t s count : Nat) (buf : Bytes) (hb : buf.length = 256)
    (cs : List (Nat × Bytes)) (h : (readLoop maxPairs maxTslistReps t s count buf w).1 = .ok cs) :
    cs.length ≤ maxPairs * 1000 ∧ (readLoop maxPairs maxTslistReps t s count buf w).2 = w := by
  obtain ⟨h1, _, h3⟩ := readLoop_safe maxPairs maxTslistReps t s count buf hb w hw
  exact ⟨h3 cs h, h1⟩

/-- … and `max_pairs` is between 1 and 122 on every disk whose VTOC buffer was opened from the image -/
theorem dos_maxPairs_bounded (r : Raw) (hu : Units256 r) (c : Nat) (v : Bytes)
    (h : openVtoc { raw := r, c := c, vtoc := none } = .ok v) : 1 ≤ Vtoc.maxPairs v ∧ Vtoc.maxPairs v ≤ 122 := by
  rcases (openVtoc_spec (diskOk_fresh hu c)).2 v h with h1 | h1
  · exact h1.2
  · cases h1

/-- **C12 / DOS 3.x, a catalog cycle is an error, not a hang.**  If the first catalog sector links to itself, the
walk of `catalog_to_vec` (and of `glob`, which is the same walk) runs into the cap and returns `IOError`. -/
theorem dos_catalog_selfloop_is_error (d : Disk) (v b : Bytes) (hv : openVtoc d = .ok v)
    (hts : verifyTs v (Vtoc.track1 v) (Vtoc.sector1 v) = .ok ()) (hbps : 256 ≤ Vtoc.bytesPerSector v)
    (hnv : ¬ (Vtoc.track1 v = vtocTrack ∧ Vtoc.sector1 v = 0))
    (hr : imgRead d.c d.raw (Vtoc.track1 v) (Vtoc.sector1 v) = .ok b) (hb : b.length = 256)
    (hlink : Dir.nextTrack b = Vtoc.track1 v ∧ Dir.nextSector b = Vtoc.sector1 v)
    (hnz : ¬ (Vtoc.track1 v = 0 ∧ Vtoc.sector1 v = 0)) :
    (catalog d).1 = .error .ioError ∧ (glob d).1 = .error .ioError := by
  have : (catalog d).1 = .error .ioError := by
    unfold catalog Disk.run
    rw [hv]
    simp only [bind_apply, getV_apply]
    rw [catalogLoop_selfloop (w := { c := d.c, raw := d.raw, v := v }) hts
      (fun data hd => readSector_full hbps hd hnv hr hb) hb hlink hnz _ _ zeros_length]
  exact ⟨this, this⟩

/-- **C12 / DOS 3.x, a track/sector-list cycle is an error, not a hang**: a T/S list (here: without data pairs) that
links to itself makes the walk of `read_file` return `EndOfData` at the cap. -/
theorem dos_tslist_selfloop_is_error (w : W) (t s mp : Nat) (b : Bytes) (hbps : 256 ≤ Vtoc.bytesPerSector w.v)
    (hnv : ¬ (t = vtocTrack ∧ s = 0)) (hr : imgRead w.c w.raw t s = .ok b) (hb : b.length = 256)
    (hholes : ∀ p, p < mp → Tsl.pairTrack b p = 0) (hlink : Tsl.nextTrack b = t ∧ Tsl.nextSector b = s) (hnz : t ≠ 0) :
    readLoop mp maxTslistReps t s 0 (zeros 256) w = (.error .endOfData, w) :=
  readLoop_selfloop (fun _ hd => readSector_full hbps hd hnv hr hb) hb hholes hlink hnz _ _ _ zeros_length

/-! ### DOS 3.x: concrete images -/

def z256 : Bytes := List.replicate 256 0
/-- a sector from its leading bytes -/
def sec256 (pre : Bytes) : Bytes := pre ++ List.replicate (256 - pre.length) 0
/-- a 35-track, 16-sector image: VTOC (17,0), first catalog sector (17,15), one T/S list (18,15), zeros elsewhere -/
def mkImg (vtoc cat tsl : Bytes) : Raw :=
  { unitLen := 256, units := ⟨List.replicate 272 z256 ++ (vtoc :: List.replicate 14 z256 ++ (cat :: List.replicate 15 z256 ++ (tsl :: List.replicate 256 z256)))⟩ }
/-- VTOC of a 16-sector volume 254 with the given `tracks` byte: catalog at (17,15), version 3, 122 pairs -/
def vtoc16 (tracks : Nat) : Bytes :=
  sec256 ([4, 17, 15, 3, 0, 0, 254] ++ List.replicate 32 0 ++ [122] ++ List.replicate 8 0 ++ [17, 1, 0, 0, tracks, 16, 0, 1])
/-- a catalog sector: link, then one entry `tsl = (18,15)`, type 4, name `A`, 2 sectors -/
def catSec (nt ns : Nat) : Bytes :=
  sec256 ([0, nt, ns] ++ List.replicate 8 0 ++ [18, 15, 4, 0xC1] ++ List.replicate 29 0xA0 ++ [2, 0])
/-- a T/S list: link, `pt ps` as first pair -/
def tslSec (nt ns pt ps : Nat) : Bytes := sec256 ([0, nt, ns, 0, 0, 0, 0] ++ List.replicate 5 0 ++ [pt, ps])

/-- a well-formed volume with one one-sector binary file `A` -/
def dosGood : Raw := mkImg (vtoc16 35) (catSec 0 0) (tslSec 0 0 18 14)
/-- the catalog sector linked to itself, the (empty) T/S list linked to itself -/
def dosCyclic : Raw := mkImg (vtoc16 35) (catSec 17 15) (tslSec 18 15 0 0)
/-- 36 tracks in the VTOC (not identified as DOS; `from_img` alone accepts it) -/
def dos36 : Raw := mkImg (vtoc16 36) (catSec 0 0) (tslSec 0 0 18 14)

def freshDisk (r : Raw) : Disk := { raw := r, c := 16, vtoc := none }

example : Units256 dosGood ∧ Units256 dosCyclic ∧ Units256 dos36 :=
  ⟨units256_of_all (by decide +kernel), units256_of_all (by decide +kernel), units256_of_all (by decide +kernel)⟩
/-- non-vacuity: the good image is identified, lists its file, fetches one chunk, counts its free sectors -/
example : testImg 16 dosGood = true ∧ ((catalog (freshDisk dosGood)).1.toOption.map (·.length)) = some 1 ∧
    ((Fs.Dos3x.get (freshDisk dosGood) [65]).1.toOption.map (·.chunks.length)) = some 1 ∧
    cls (statFree (freshDisk dosGood)).1 = .ok ∧ cls (tree (freshDisk dosGood)).1 = .ok := by decide +kernel
/-- the cyclic image is identified as DOS, and its catalog is an error after 100 sectors (by the theorem, not by
evaluation) -/
example : testImg 16 dosCyclic = true ∧ (catalog (freshDisk dosCyclic)).1 = .error .ioError :=
  ⟨by decide +kernel,
   (dos_catalog_selfloop_is_error (freshDisk dosCyclic) ((vtoc16 35).take 196) (catSec 17 15) (by decide +kernel) (by decide +kernel)
     (by decide +kernel) (by decide +kernel) (by decide +kernel) (by decide +kernel) (by decide +kernel) (by decide +kernel)).1⟩
/-- … and the T/S list walk of `get A` on it ends in `EndOfData` -/
example : readLoop 122 maxTslistReps 18 15 0 (zeros 256) { c := 16, raw := dosCyclic, v := (vtoc16 35).take 196 } =
    (.error .endOfData, { c := 16, raw := dosCyclic, v := (vtoc16 35).take 196 }) :=
  dos_tslist_selfloop_is_error _ 18 15 122 (tslSec 18 15 0 0) (by decide +kernel) (by decide +kernel) (by decide +kernel) (by decide +kernel)
    (by decide +kernel) (by decide +kernel) (by decide +kernel)
/-- the geometry guard of `stat` is exact: 36 tracks in the VTOC make `num_free_sectors` index the bitmap out of
range (only reachable through `from_img` without `test_img`) -/
example : testImg 16 dos36 = false ∧ cls (statFree (freshDisk dos36)).1 = .panic ∧ cls (catalog (freshDisk dos36)).1 = .ok := by
  decide +kernel

end Dos

/-! ## ProDOS: total work of `tree` and `glob` -/
section Prodos
open A2Verif.Fs.Prodos A2Verif.C12FsId.Prodos

/-- **C12 / ProDOS, bounded time of the recursive directory walks (repaired code).**  With the visit budget, `tree` and
`glob` enter at most `total_blocks + 1` directories and read at most `100 · (total_blocks + 1)` directory blocks — for
every image (cycles, shared sub-directories, any bytes) and whatever the nesting-cap branch returns (`capErr`); the
nesting itself is at most 33 resp. 32 levels by construction (`walkNode` recurses on the levels left). -/
theorem prodos_walk_budget_bounded (capErr : Bool) (r : Raw) :
    (tree true capErr r).2.visits ≤ r.units.size + 1 ∧ (tree true capErr r).2.reads ≤ 100 * (r.units.size + 1) ∧
    (glob true capErr r).2.visits ≤ r.units.size + 1 ∧ (glob true capErr r).2.reads ≤ 100 * (r.units.size + 1) := by
  have key : ∀ d, (walkNode true capErr r r.units.size d volKeyBlock ⟨0, 0⟩).2.visits ≤ r.units.size + 1 ∧
      (walkNode true capErr r r.units.size d volKeyBlock ⟨0, 0⟩).2.reads ≤ 100 * (r.units.size + 1) := by
    intro d
    obtain ⟨h1, _, h3, _⟩ := walkNode_post capErr r r.units.size d volKeyBlock ⟨0, 0⟩ 0 (Nat.zero_le _) (Nat.le_refl _)
    refine ⟨h1, ?_⟩
    have : (walkNode true capErr r r.units.size d volKeyBlock ⟨0, 0⟩).2.reads ≤
        100 * (walkNode true capErr r r.units.size d volKeyBlock ⟨0, 0⟩).2.visits := by omega
    exact Nat.le_trans this (Nat.mul_le_mul_left _ h1)
  unfold tree glob
  cases imgRead r volKeyBlock with
  | error e => simp
  | ok b => exact ⟨(key 33).1, (key 33).2, (key 32).1, (key 32).2⟩


/-- decidable form of `Units512`, for concrete images -/
theorem units512_of_all {r : Raw} (h : r.units.toList.all (fun b => b.length == 512) = true) : Units512 r := by
  intro i b hb
  rw [List.all_eq_true] at h
  have : b ∈ r.units.toList := by
    rw [Array.mem_toList_iff]
    exact Array.mem_of_getElem? hb
  simpa using h b this

theorem fresh_ok {r : Raw} (hu : Units512 r) (src : Repairs) : Fresh (fresh r src) := ⟨rfl, hu⟩

/-- **C12 / ProDOS, identification never panics** on an image of 512-byte blocks: `buf[0x29]`, `buf[0x2A]`, `buf[0x23]`,
`buf[0x24]` index a 512-byte block, `name[i]` (`i < nibs & 0x0F ≤ 15`) the 15-byte name. -/
theorem prodos_testImg_no_panic (r : Raw) (hu : Units512 r) : testImg r ≠ .error .panic := by
  unfold testImg
  obtain ⟨_, h2⟩ := imgRead_spec hu volKeyBlock
  cases hr : imgRead r volKeyBlock with
  | error e => simp
  | ok buf =>
    have hl := h2 buf hr
    simp only []
    split
    · simp
    · have hat : ∀ i, i < 512 → ∃ x, byteAt buf i = .ok x := by
        intro i hi
        unfold byteAt
        rw [List.getElem?_eq_getElem (by omega)]
        exact ⟨_, rfl⟩
      obtain ⟨x1, e1⟩ := hat 0x29 (by decide)
      obtain ⟨x2, e2⟩ := hat 0x2A (by decide)
      obtain ⟨x3, e3⟩ := hat 0x23 (by decide)
      obtain ⟨x4, e4⟩ := hat 0x24 (by decide)
      rw [e1, e2, e3, e4]
      simp only []
      split
      · simp
      · split
        · simp
        · split
          · simp
          · have hn : (slice buf 5 15).length = 15 := by
              unfold slice; simp only [List.length_take, List.length_drop]; omega
            have hloop : ∀ (idxs : List Nat), (∀ i ∈ idxs, i < 15) → volNameLoop (slice buf 5 15) idxs ≠ .error .panic := by
              intro idxs
              induction idxs with
              | nil => intro _; simp [volNameLoop]
              | cons i rest ih =>
                intro hi
                unfold volNameLoop byteAt
                rw [List.getElem?_eq_getElem (by rw [hn]; exact hi i List.mem_cons_self)]
                simp only []
                split
                · exact ih (fun j hj => hi j (List.mem_cons_of_mem _ hj))
                · simp
            unfold byteAt
            rw [List.getElem?_eq_getElem (by rw [hn]; decide)]
            simp only []
            split
            · simp
            · apply hloop
              intro i hi
              unfold rng at hi
              rw [List.mem_range'_1] at hi
              have : buf.getD 4 0 % 16 < 16 := Nat.mod_lt _ (by decide)
              omega

/-- **C12 / ProDOS, the main statement for `catalog`, `get`, `stat` (repaired `read_index_block`): for every image of
512-byte blocks — any number of blocks, any bytes — on a freshly mounted disk the volume listing, `get` of any non-empty
path and `stat` do not panic; the listing and `get` leave the state unchanged and a listing has at most 1300 rows.**
(Whichever bitmap block count the source uses — `src`. `get("")` is `&path[0..1]` on an empty string in `normalize_path`: an argument a listing cannot produce for a file; the
walks `tree`/`glob` are `prodos_walk_budget_bounded`.) -/
theorem prodos_reads_fixed_no_panic (r : Raw) (hu : Units512 r) (src : Repairs) :
    (catalog [47] (fresh r src)).1 ≠ .error .panic ∧ (catalog [47] (fresh r src)).2 = fresh r src ∧
    (∀ rows, (catalog [47] (fresh r src)).1 = .ok rows → rows.length ≤ 1300) ∧
    (∀ path, path ≠ [] → (getV true path (fresh r src)).1 ≠ .error .panic ∧ (getV true path (fresh r src)).2 = fresh r src) ∧
    (statFree (fresh r src)).1 ≠ .error .panic := by
  have hf := fresh_ok hu src
  have hcat : SafeAt (fun rows => rows.length ≤ 13 * 100) (catalog [47]) (fresh r src) := by
    unfold catalog
    apply SafeAt.bind (findDirKeyBlock_root_safe hf); intro key _
    exact catalogLoop_safe hf 100 key
  refine ⟨hcat.2.1, hcat.1, hcat.2.2, ?_, ?_⟩
  · intro path hp
    have := getV_safe hf hp
    exact ⟨this.2.1, this.1⟩
  · unfold statFree
    rw [bind_apply]
    obtain ⟨g1, g2, _⟩ := getVolHeader_safe hf
    cases hg : getVolHeader (fresh r src) with
    | mk res d' =>
      rw [hg] at g1 g2
      simp only [] at g1 g2
      subst g1
      cases res with
      | error e => simp only []; exact fun hh => g2 (by cases hh; rfl)
      | ok h => exact numFreeBlocks_fresh_ne_panic hf rfl

/-- a volume `V` (280 blocks claimed, directory blocks 2 → 3) with one tree file `T`: master index block 4 whose slot 0 is a
hole and whose slot 1 points at the (empty) index block 5; the entry says `EOF = 0` -/
def eofImg : Raw :=
  let hdr : Bytes := [0xF1, 86] ++ List.replicate 29 0 ++ [0x27, 0x0D, 1, 0, 6, 0, 0x18, 0x01]
  let ent : Bytes := [0x31, 84] ++ List.replicate 14 0 ++ [6, 4, 0, 3, 0, 0, 0, 0] ++ List.replicate 15 0
  let key : Bytes := [0, 0, 3, 0] ++ hdr ++ ent
  { unitLen := 512, units := #[z512, z512, key ++ List.replicate (512 - key.length) 0, z512, [0, 5] ++ List.replicate 510 0, z512] }

/-- **defect P2**: the image is identified as ProDOS, `get T` underflows `entry.eof() - *eof` in `read_index_block` as
written (the hole moved the running count past the recorded end of file) and succeeds with the repair -/
example : Units512 eofImg ∧ (testImg eofImg).toOption = some true ∧ cls (getV false [84] (fresh eofImg)).1 = .panic ∧
    cls (getV true [84] (fresh eofImg)).1 = .ok ∧ cls (catalog [47] (fresh eofImg)).1 = .ok :=
  ⟨units512_of_all (by decide +kernel), by decide +kernel, by decide +kernel, by decide +kernel, by decide +kernel⟩

/-! ### ProDOS: concrete directory graphs -/

/-- a sub-directory entry `A` with the given key pointer -/
def subEntry (ptr : Nat) : Bytes := [0xD1, 65] ++ List.replicate 15 0 ++ [ptr % 256, ptr / 256] ++ List.replicate 20 0
/-- a directory key block (links 0,0; header zero) whose first entries are sub-directory entries with these pointers -/
def keyBlockOf (ptrs : List Nat) : Bytes :=
  let body := List.replicate 43 0 ++ (ptrs.map subEntry).flatten
  body ++ List.replicate (512 - body.length) 0

/-- **a DAG without any cycle**: blocks 2 → 3 → 4 → 5 → 6, each level entered through two entries of its parent -/
def dagImg : Raw := { unitLen := 512, units := #[z512, z512, keyBlockOf [3, 3], keyBlockOf [4, 4], keyBlockOf [5, 5], keyBlockOf [6, 6], keyBlockOf []] }
/-- **a cycle that can be entered twice**: both sub-directory entries of the volume directory point back at it -/
def cycImg : Raw := { unitLen := 512, units := #[z512, z512, keyBlockOf [2, 2], z512] }

/-- the code as written (no budget), cap = error: on the acyclic 5-directory image the walk enters `31 = 2⁵ − 1`
directories — one per *path*; 20 levels give a million, 30 a billion (the real `tree` does not return: harness case
`dag depth=20 fan=2`).  With the budget the same walk stops after `total_blocks + 1 = 8` directories. -/
example : (tree false true dagImg).2.visits = 31 ∧ cls (tree false true dagImg).1 = .ok ∧
    (tree true true dagImg).2.visits = 8 ∧ cls (tree true true dagImg).1 = .err := by decide +kernel
/-- on the cyclic image the cap (6 levels here, 33 in `tree`) ends the walk at the first arrival when its branch is an
error (6 directories), but only prunes one path when it returns an empty result: `63 = 2⁶ − 1` directories for 6
levels, `2³³ − 1` for 33 — the seeded change `C12-6`; the budget bounds both -/
example : (walkNode false true cycImg 4 6 2 ⟨0, 0⟩).2.visits = 6 ∧ (walkNode false false cycImg 4 6 2 ⟨0, 0⟩).2.visits = 63 ∧
    (walkNode true false cycImg 4 6 2 ⟨0, 0⟩).2.visits = 5 := by decide +kernel

end Prodos

/-! ## CP/M -/
section Cpm
open A2Verif.Fs.Cpm A2Verif.C12FsId.Cpm
open A2Verif.Read.Cpm (Dpb)

theorem readLoopV_asWritten (absIdx : Bool) (d : Dpb) (r : Raw) (dir : Dir) (fi : FileInfo) :
    ∀ (es : List (Nat × Nat)) (bc prev : Nat) (g : Got), readLoopV false absIdx d r dir fi es bc prev g = readLoop absIdx d r dir fi es bc prev g := by
  intro es
  induction es with
  | nil => intro bc prev g; rfl
  | cons p rest ih =>
    intro bc prev g
    obtain ⟨k, i⟩ := p
    unfold readLoopV readLoop
    cases dir[i]? with
    | none => rfl
    | some fx =>
      simp only [ih, Bool.false_eq_true, if_false]
      rfl

theorem splitUserFilename_ne_panic (x : Bytes) : splitUserFilename x ≠ .error .panic := by
  unfold splitUserFilename
  split
  · simp
  · split
    · split <;> simp
    · simp
  · simp

theorem stdAccessAndTyp_ne_panic (x : Bytes) : stdAccessAndTyp x ≠ .error .panic := by
  unfold stdAccessAndTyp
  cases h : splitUserFilename x with
  | error e => simp only []; intro hh; cases hh; exact splitUserFilename_ne_panic x h
  | ok p => simp

/-- **C12 / CP/M, the `false` variants are the concrete model**: `statV false`, `getV false` are `Fs.Cpm.statFree`,
`Fs.Cpm.get` (tied byte-exactly to the real code by family `fsc`). -/
theorem cpm_asWritten (d : Dpb) (r : Raw) (name : Bytes) (absIdx : Bool) :
    statV false d r = statFree d r ∧ getV false d r name absIdx = Fs.Cpm.get d r name absIdx := by
  constructor
  · unfold statV statFree
    cases getDirectory d r with
    | error e => rfl
    | ok dir => unfold numFreeBlocksV numFreeBlocks; simp
  · unfold getV Fs.Cpm.get
    cases getDirectory d r with
    | error e => rfl
    | ok dir =>
      simp only []
      cases buildFiles d d.v3 dir with
      | error e => rfl
      | ok files =>
        simp only []
        cases getFile name files with
        | none => rfl
        | some fi =>
          simp only []
          split
          · rfl
          · cases stdAccessAndTyp name with
            | error e => rfl
            | ok p => simp only [readLoopV_asWritten]

/-- **C12 / CP/M, identification never panics** when the directory has a multiple of four entries (every DPB of
`bios/dpb.rs`: 48, 64, 128, …): the only index in `build_files` is the time stamp entry `4·(1+i/4)−1` of entry `i`. -/
theorem cpm_testImg_no_panic (d : Dpb) (r : Raw) (h4 : dirEntries d % 4 = 0) : testImg d r ≠ .error .panic := by
  unfold testImg
  cases hd : getDirectory d r with
  | error e => simp
  | ok dir =>
    simp only []
    have hl := getDirectory_length hd
    have := buildFiles_ne_panic (d := d) (v3 := d.v3) (dir := dir) (by rw [hl]; exact h4)
    cases hb : buildFiles d d.v3 dir with
    | ok files => simp
    | error e => cases e <;> simp; exact this hb

/-- **C12 / CP/M, the main statement (repaired code): on every image that `test_img` accepts — any bytes, any DPB
with CP/M 3 directory entries allowed (the CLI always passes `[3,1,0]`) — `stat`, `catalog`, `glob` and `get` of any
name do not panic.**  `read_file`'s `dir.get_entry` only sees indices `build_files` collected while walking the same
directory (`buildFiles_entriesLt`); block pointers go through `read_block`, which refuses what is outside the image. -/
theorem cpm_mounted_reads_fixed_no_panic (d : Dpb) (r : Raw) (hv3 : d.v3 = true) (hm : testImg d r = .ok true) :
    statV true d r ≠ .error .panic ∧ catalog d r ≠ .error .panic ∧ globV d r ≠ .error .panic ∧
    ∀ name absIdx, getV true d r name absIdx ≠ .error .panic := by
  unfold testImg at hm
  cases hd : getDirectory d r with
  | error e => rw [hd] at hm; simp at hm
  | ok dir =>
    rw [hd] at hm
    simp only [] at hm
    cases hb : buildFiles d d.v3 dir with
    | error e => rw [hb] at hm; cases e <;> simp at hm
    | ok files =>
      have hb' : buildFiles d true dir = .ok files := by rw [← hv3]; exact hb
      refine ⟨?_, ?_, ?_, ?_⟩
      · unfold statV numFreeBlocksV
        rw [hd]
        simp only [if_true]
        split <;> simp
      · unfold catalog
        rw [hd]
        simp only [hb']
        simp
      · unfold globV
        rw [hd]
        simp only [hb]
        simp
      · intro name absIdx
        unfold getV
        rw [hd]
        simp only [hb]
        cases hg : getFile name files with
        | none => simp
        | some fi =>
          simp only []
          split
          · simp
          · cases hs : stdAccessAndTyp name with
            | error e =>
              simp only []
              intro hh
              cases hh
              exact stdAccessAndTyp_ne_panic name hs
            | ok p =>
              simp only []
              exact readLoopV_fixed_ne_panic absIdx d r dir fi fi.entries 0 0 _
                (fun q hq => buildFiles_entriesLt hb fi (getFile_mem hg) q hq)

/-- **C12 / CP/M, the code as written: `stat` panics exactly when the directory references more blocks than the
volume has** (`user_blocks as u16 - used as u16`), which `test_img` does not look at. -/
theorem cpm_stat_asWritten_panic_iff (d : Dpb) (r : Raw) (dir : Dir) (hd : getDirectory d r = .ok dir) :
    statFree d r = .error .panic ↔
      (reservedBlocks d + ((usedPtrs d dir).filter (· > 0)).length) % 65536 > userBlocks d % 65536 := by
  unfold statFree numFreeBlocks
  rw [hd]
  simp only []
  split <;> simp_all

/-! ### CP/M: concrete images -/

/-- a tiny DPB: 1K blocks, extent mask 1, 8 blocks, 4 directory entries in block 0 -/
def dpb0 : Dpb := { bsh := 3, exm := 1, dsm := 7, drm := 3, al0 := 0x80, al1 := 0, v3 := true }
/-- an extent of user 0 named `A`, extent number `ex`, 128 records, all 16 block pointers `ptr` -/
def extA (ex ptr : Nat) : Bytes := [0, 65] ++ List.replicate 10 32 ++ [ex, 0, 0, 128] ++ List.replicate 16 ptr
def delE : Bytes := List.replicate 32 0xE5
def cpmImg (ents : List Bytes) : Raw :=
  { unitLen := 1024, units := ⟨(ents.flatten ++ List.replicate (1024 - ents.flatten.length) 0xE5) :: List.replicate 7 (List.replicate 1024 0xE5)⟩ }

/-- a good volume: one file `A` with one block -/
def cpmGood : Raw := cpmImg [[0, 65] ++ List.replicate 10 32 ++ [0, 0, 0, 8, 1] ++ List.replicate 15 0, delE, delE, delE]
/-- **witness C1**: one extent whose 16 pointers are all non-zero on a volume of 8 blocks -/
def cpmOverfull : Raw := cpmImg [extA 0 1, delE, delE, delE]
/-- **witness C2**: two entries of `A` with extent numbers 0 and 1 although one entry covers both (`EXM = 1`) -/
def cpmOverlap : Raw := cpmImg [extA 0 0, extA 1 0, delE, delE]

/-- non-vacuity: the good volume is identified and everything answers -/
example : (testImg dpb0 cpmGood).toOption = some true ∧ cls (statV false dpb0 cpmGood) = .ok ∧ cls (catalog dpb0 cpmGood) = .ok ∧
    ((Fs.Cpm.get dpb0 cpmGood [65]).toOption.map (·.chunks.length)) = some 1 := by decide +kernel
/-- **defect C1**: identified as CP/M, `stat` panics as written, answers 0 free blocks with the repair -/
example : (testImg dpb0 cpmOverfull).toOption = some true ∧ cls (statFree dpb0 cpmOverfull) = .panic ∧
    (statV true dpb0 cpmOverfull).toOption = some 0 := by decide +kernel
/-- **defect C2**: identified as CP/M, `get A` hits `panic!("unreachable: extents were not sorted")` as written, is
`BadFormat` with the repair -/
example : (testImg dpb0 cpmOverlap).toOption = some true ∧ cls (Fs.Cpm.get dpb0 cpmOverlap [65]) = .panic ∧
    cls (getV true dpb0 cpmOverlap [65]) = .err := by decide +kernel

end Cpm

/-! ## FAT: total work of `tree` and `glob` -/
section Fat
open A2Verif.C12FsWalk

/-- **C12 / FAT, bounded time of the recursive directory walks (repaired code).**  `fat::Disk::tree_node` and
`glob_node` have the shape of `C12FsWalk.walk` (nesting cap; visit counter with limit `cluster_count_usable()+1`; for
every entry of `build_files`: a sub-directory is loaded with `get_directory(Some(ptr))?` and walked with `?`, then the
metadata step `get_cluster_chain_length(..)?`).  For **every** instance of the file-system specific parts — any state, any
directory contents (cycles, sub-directories shared between parents), any behaviour of loading and of the metadata
step, either flavour of the nesting-cap branch — the walk enters at most `limit + 1` directories; the nesting is at
most `depth` levels by construction. -/
theorem fat_walk_budget_bounded {σ δ : Type} (k : Skel σ δ) (capErr : Bool) (limit depth : Nat) (root : δ) (st : σ) :
    (walk k true capErr limit depth root (st, 0)).2.2 ≤ limit + 1 ∧
    ((walk k true capErr limit depth root (st, 0)).1 = true → (walk k true capErr limit depth root (st, 0)).2.2 ≤ limit) :=
  ⟨(walk_post k capErr limit depth root (st, 0) (Nat.zero_le _)).1, (walk_post k capErr limit depth root (st, 0) (Nat.zero_le _)).2.1⟩

/-- a directory graph without cycles: level `n` has two sub-directory entries, both leading to level `n+1`, down to
level 4 (the FAT image of harness case `dag depth=… fan=2`) -/
def dagSkel : Skel Unit Nat :=
  { items := fun lvl => if lvl < 4 then [⟨some (lvl + 1), fun s => (true, s)⟩, ⟨some (lvl + 1), fun s => (true, s)⟩] else []
    load := fun ptr s => (some ptr, s) }

/-- **defect F1** in the small: without the budget the walk enters `31 = 2⁵ − 1` directories of a graph that has 5 (one per
path; `2²¹ − 1` for 20 levels: the real `tree` does not return, `hang:fat/tree`); with a budget of 5 it stops at 6 -/
example : (walk dagSkel false true 5 65 0 ((), 0)).2.2 = 31 ∧ (walk dagSkel false true 5 65 0 ((), 0)).1 = true ∧
    (walk dagSkel true true 5 65 0 ((), 0)).2.2 = 6 ∧ (walk dagSkel true true 5 65 0 ((), 0)).1 = false := by decide +kernel

end Fat

end A2Verif.C12Fs
