import A2Verif.Lemmas.FsCpmModify
import A2Verif.Lemmas.FsCpmRename3
import A2Verif.Lemmas.FsCpmPut2
import A2Verif.Lemmas.FsCpmPutAbs4
import A2Verif.Lemmas.FsCpmAccept5
import A2Verif.Lemmas.FsCpmProtect4
import A2Verif.Lemmas.FsCpmGet5
import A2Verif.Lemmas.FsCpmCat2
import A2Verif.Lemmas.FsCpmQuery
import A2Verif.Lemmas.FsCpmFormat
import A2Verif.Lemmas.FsCpmCheck
import A2Verif.Props.C01
import A2Verif.Props.C02
import A2Verif.Props.C03
import A2Verif.Props.C04
import A2Verif.Props.C05
/-!
# The concrete CP/M file-system model refines the abstract volume specification

`Model/Fs/Cpm.lean` transcribes a2kit's CP/M code (byte-exact; tied to the real code block for block by the
harness, `Drv/FsCpm.lean`, on every CP/M configuration).  Here: under the on-disk invariant `Inv d r` (`d` = the
disk parameter block, a parameter of the model) the independent reader reads the image as the well-formed,
leak-free volume `volOf d r`; `format` establishes `Inv` for CP/M 2 and for CP/M 3 (label, time stamps); the
entry-only operations `delete`, `rename`, `lock`, `unlock`, `retype` preserve `Inv` and are steps the abstract specification
allows (`stepOk`); hence every history of these operations is a `validFrom` trace and the history-level theorems
of `Props/C02 … C05` hold for the concrete model.

The model transcribes `split_user_filename` **with** `proposed_fixes/cpm-user-prefix.diff` applied (only the canonical
decimal spelling of a user prefix is accepted).  Without it a2kit's `get_file` and `split_user_filename` disagree about
the user area of `01:X`, `+1:X`, `1:X:Y`, a second file of the same name can be created, and `rename_refines` would be
false (defect found by this proof; direct oracle `user-prefix-alias-refused` in `harness/src/fam/fs_cpm.rs`).
`put`: every `put` that reports an error — an early refusal (duplicate name, disk full, directory full, bad name) or a
failure in the middle of the write loops — preserves `Inv` and leaves every file and the listing as they were
(`put_error_step`).  A successful `put` of a file image in the class `PutArgsOk` (on a consistent disk parameter block,
`DpbPut`): the new directory entries are characterised exactly (`put_success_entries`), the invariant holds afterwards
(`put_success_inv`) and the step is an abstract `put` of the stored chunks under the canonical path (`put_step`: the file
reads back chunk for chunk, zero-padded to the block size, with the length CP/M records, from blocks that were free, every
other file untouched).  Hence `put` is an operation of the histories (`Op.put`) and C01 holds for the concrete model
(`cpm_put_reads_back`).
-/
namespace A2Verif.FsCpm
open A2Verif.Fs.Cpm
open A2Verif.Read.Cpm (Dpb)

/-- under the invariant the independent reader succeeds, and what it reads is well-formed (C03) and leak-free (C04) -/
theorem inv_reads_well_formed {d : Dpb} {r : Raw} (h : Inv d r) :
    Read.Cpm.read r d = .ok (volOf d r) ∧ (volOf d r).wfB = true ∧ (volOf d r).noLeak = true :=
  inv_reads h

/-- `format` establishes the invariant: whenever a2kit's `format` (as modelled) reports success on an image of
`dsm+1` blocks, the formatted image satisfies `Inv` — CP/M 2 (fill with 0xE5) and CP/M 3 (label entry and
time-stamp entries), whatever the volume name and the time are -/
theorem format_establishes_inv {d : Dpb} {r r' : Raw} {vn : Bytes} {time : Option Bytes} (ho : DpbOk d)
    (hsz : r.units.size = d.dsm + 1) (ht : ∀ t, time = some t → t.length = 4)
    (h : Fs.Cpm.format d r vn time = (.ok (), r')) : Inv d r' :=
  format_inv ho hsz ht h

/-- the disk parameter blocks of the harness configurations satisfy `DpbOk` (Apple 5.25, Osborne DD, Kaypro 4, Amstrad) -/
example : DpbOk { bsh := 3, exm := 0, dsm := 127, drm := 47, al0 := 0xC0, al1 := 0, v3 := false } := by decide
example : DpbOk { bsh := 3, exm := 0, dsm := 184, drm := 63, al0 := 0xC0, al1 := 0, v3 := false } := by decide
example : DpbOk { bsh := 4, exm := 1, dsm := 196, drm := 63, al0 := 0xC0, al1 := 0, v3 := false } := by decide
example : DpbOk { bsh := 3, exm := 0, dsm := 174, drm := 63, al0 := 0xC0, al1 := 0, v3 := true } := by decide

instance (d : Dpb) : Decidable (ResvOk d) := by unfold ResvOk; infer_instance

/-- `is_reserved` of the model agrees with the reader's directory block list, for the harness configurations -/
example : ResvOk { bsh := 3, exm := 0, dsm := 127, drm := 47, al0 := 0xC0, al1 := 0, v3 := false } := by decide +kernel
example : ResvOk { bsh := 3, exm := 0, dsm := 184, drm := 63, al0 := 0xC0, al1 := 0, v3 := false } := by decide +kernel
example : ResvOk { bsh := 4, exm := 1, dsm := 196, drm := 63, al0 := 0xC0, al1 := 0, v3 := false } := by decide +kernel
example : ResvOk { bsh := 3, exm := 0, dsm := 174, drm := 63, al0 := 0xC0, al1 := 0, v3 := true } := by decide +kernel

instance (d : Dpb) : Decidable (ResvCount d) := by unfold ResvCount; infer_instance
example : ResvCount { bsh := 3, exm := 0, dsm := 127, drm := 47, al0 := 0xC0, al1 := 0, v3 := false } := by decide
example : ResvCount { bsh := 3, exm := 0, dsm := 184, drm := 63, al0 := 0xC0, al1 := 0, v3 := false } := by decide
example : ResvCount { bsh := 4, exm := 1, dsm := 196, drm := 63, al0 := 0xC0, al1 := 0, v3 := false } := by decide
example : ResvCount { bsh := 3, exm := 0, dsm := 174, drm := 63, al0 := 0xC0, al1 := 0, v3 := true } := by decide

/-- `stat().free_blocks` of the concrete model is the number of units the independent reader finds free (C04: the
reported free space), in every state satisfying the invariant -/
theorem cpm_stat_free_is_reading {d : Dpb} {r : Raw} (h : Inv d r) (hc : ResvCount d) (hsmall : d.dsm + 1 < 65536) :
    Fs.Cpm.statFree d r = .ok (volOf d r).free := statFree_spec h hc hsmall

/-! ## `put` -/

/-- **a `put` that reports an error refines "refused"**: whatever the error is and wherever it occurs (also after data
blocks have been written), the invariant holds afterwards and the reading — every file, the listing, the free
count — is what it was (C02, C05 for refusals; "a full disk or a full directory loses nothing") -/
theorem put_error_step {d : Dpb} {r r' : Raw} {f : FImg} {now : Bytes} {res : R Unit} (h : Inv d r) (hr : ResvOk d)
    (hop : Fs.Cpm.put d r f now = (res, r')) (herr : okB res = false) (op : FsOp) :
    Inv d r' ∧ volOf d r' = volOf d r ∧ stepOk (cpmParams d) (volOf d r) op false (volOf d r') = true := by
  rcases put_outcome h hop with ⟨_, hf⟩ | ⟨hok, _⟩
  · obtain ⟨hinv', hv⟩ := frame_volOf h hr hf
    exact ⟨hinv', hv, by rw [hv]; exact (refused_same h op).2⟩
  · rw [hok] at herr; cases herr

/-- partial — the full statement is `Inv d r → PutArgsOk → put d r f now = (.ok (), r') → Inv d r' ∧ stepOk … (.put (canon f.fullPath) …) true …`.
Proved here: a successful `put` is (1) writes into blocks that were neither reserved nor referenced by any file entry,
(2) followed by `save_directory` of a directory of 32-byte entries that still holds every old file entry at its index.
Missing: the characterisation of the *new* entries (key, extent numbers, pointers, record counts) needed to read the new
file back. -/
theorem put_success_frame_partial {d : Dpb} {r r' : Raw} {f : FImg} {now : Bytes} (h : Inv d r)
    (hop : Fs.Cpm.put d r f now = (.ok (), r')) :
    ∃ (sr : Raw) (dir2 : Dir), Frame d (dirOf d r) r sr ∧ KeepsFiles (dirOf d r) dir2 ∧ (∀ e ∈ dir2, e.length = 32) ∧
      saveDirectory d sr dir2 = (.ok (), r') := by
  rcases put_outcome h hop with ⟨hf, _⟩ | ⟨_, hd⟩
  · cases hf
  · exact hd.ex

/-- the disk parameter blocks of the harness configurations are consistent in the sense of `DpbPut` -/
example : DpbPut { bsh := 3, exm := 0, dsm := 127, drm := 47, al0 := 0xC0, al1 := 0, v3 := false } := by decide
example : DpbPut { bsh := 3, exm := 0, dsm := 184, drm := 63, al0 := 0xC0, al1 := 0, v3 := false } := by decide
example : DpbPut { bsh := 4, exm := 1, dsm := 196, drm := 63, al0 := 0xC0, al1 := 0, v3 := false } := by decide
example : DpbPut { bsh := 3, exm := 0, dsm := 174, drm := 63, al0 := 0xC0, al1 := 0, v3 := true } := by decide

/-- **a successful `put`, the new directory entries** (C01/C03/C04, the part of the refinement of `put` that speaks about the
code's loops): if `put` of a file image in `PutArgsOk` reports success, then the image afterwards is `save_directory` of a
directory `dir2` over data blocks `sr` such that (`PutFacts`) — every old file entry is in its place; entries that are not
file entries are untouched or a rewritten time stamp; every new file entry stands where an unused entry stood, carries the
user number and the blank-padded upper-case name of the file, describes exactly one physical extent `x` (`XEnt`: extent
number `÷ (exm+1) = x`, EX < 32, S2 < 64, slot `k` holds a fresh block containing chunk `x·slots+k` zero-padded to the block
size — or 0 when that chunk does not exist —, and the entry of the last extent has the record and byte counts from which the
reader computes `eofRule eof`); two new entries describe different extents; every chunk's extent has an entry; all non-zero
pointers of all file entries are pairwise different.  The name was valid and not in the directory. -/
theorem put_success_entries {d : Dpb} {r r' : Raw} {f : FImg} {now : Bytes} (h : Inv d r) (hr : ResvOk d) (hd : DpbPut d)
    (ha : PutArgsOk d f) (hop : Fs.Cpm.put d r f now = (.ok (), r')) :
    ∃ (user : Nat) (name : Bytes) (files : List FileInfo) (sr : Raw) (dir2 : Dir),
      splitUserFilename f.fullPath = .ok (user, name) ∧ isNameValid name = true ∧
      buildFiles d d.v3 (dirOf d r) = .ok files ∧ getFile f.fullPath files = none ∧
      PutFacts d r f user (stringToFileName name).1 (stringToFileName name).2 sr dir2 ∧
      saveDirectory d sr dir2 = (.ok (), r') := put_facts h hr hd ha hop

/-- **the invariant holds after a successful `put`** (C03, C04 for `put`: the image after an accepted `put` of a file image
in `PutArgsOk` is read by the independent reader as a well-formed, leak-free volume — `inv_reads_well_formed`) -/
theorem put_success_inv {d : Dpb} {r r' : Raw} {f : FImg} {now : Bytes} (h : Inv d r) (hr : ResvOk d) (hd : DpbPut d)
    (ha : PutArgsOk d f) (hop : Fs.Cpm.put d r f now = (.ok (), r')) : Inv d r' := put_success_inv' h hr hd ha hop

/-- **a successful `put` refines the abstract `put`** (C01, C02, C03, C04, C05 for `put`): if `put` of a file image in
`PutArgsOk` reports success, the invariant holds afterwards and the transition from the reading before to the reading after
is an abstract `put` of `putChunks f` (the stored chunks, ascending index) under the path `canon f.fullPath` — the target was
absent, is present afterwards as a file whose chunks are the stored ones at the same indices (each beginning with the stored
bytes, padded to the block size), whose length is the stored length as CP/M records it (`eofRule`: CP/M 3 exact, CP/M 2 rounded
up to 128), whose blocks were free before; every other file is unchanged. -/
theorem put_step {d : Dpb} {r r' : Raw} {f : FImg} {now : Bytes} (h : Inv d r) (hr : ResvOk d) (hd : DpbPut d)
    (ha : PutArgsOk d f) (hop : Fs.Cpm.put d r f now = (.ok (), r')) :
    Inv d r' ∧ stepOk (cpmParams d) (volOf d r) (.put (canon f.fullPath) (putChunks f) f.eof 0 0) true (volOf d r') = true :=
  put_success_refines h hr hd ha hop

/-! ## operations of the concrete model -/

inductive Op where
  | put (f : FImg) (now : Bytes)
  | delete (xname : Bytes)
  | rename (old new : Bytes)
  | lock (xname : Bytes)
  | unlock (xname : Bytes)
  | retype (xname ty : Bytes)
  /-- CP/M 3: password, and which of read / write / delete it guards -/
  | protect (xname password : Bytes) (rd wr del : Bool)
  | unprotect (xname : Bytes)

/-- run one operation on an image: (did it report success, the image afterwards) -/
def Op.run (d : Dpb) (r : Raw) : Op → Bool × Raw
  | .put f now => (okB (Fs.Cpm.put d r f now).1, (Fs.Cpm.put d r f now).2)
  | .delete x => (okB (Fs.Cpm.delete d r x).1, (Fs.Cpm.delete d r x).2)
  | .rename o n => (okB (Fs.Cpm.rename d r o n).1, (Fs.Cpm.rename d r o n).2)
  | .lock x => (okB (Fs.Cpm.lock d r x).1, (Fs.Cpm.lock d r x).2)
  | .unlock x => (okB (Fs.Cpm.unlock d r x).1, (Fs.Cpm.unlock d r x).2)
  | .retype x ty => (okB (Fs.Cpm.retype d r x ty).1, (Fs.Cpm.retype d r x ty).2)
  | .protect x pw rd wr del => (okB (Fs.Cpm.protect d r x pw rd wr del).1, (Fs.Cpm.protect d r x pw rd wr del).2)
  | .unprotect x => (okB (Fs.Cpm.unprotect d r x).1, (Fs.Cpm.unprotect d r x).2)

/-- the abstract operation a concrete one stands for, in the state whose reading is `v` (`canon`: user prefix `0:` dropped, upper
case, `.` appended to a bare name).  `protect`/`unprotect` change the password entry of a file: for the specification a
`retype`-like step (content kept, nothing else touched).  `unprotect` does not look for the file, only for a password entry: when
no file of that name exists it stands for `other` (nothing in the reading may change) — the only place where `v` matters. -/
def Op.abs (v : Vol) : Op → FsOp
  | .put f _ => .put (canon f.fullPath) (putChunks f) f.eof 0 0
  | .delete x => .delete (canon x)
  | .rename o n => .rename (canon o) (canon n)
  | .lock x => .lock (canon x)
  | .unlock x => .unlock (canon x)
  | .retype x _ => .retype (canon x)
  | .protect x _ _ _ _ => .retype (canon x)
  | .unprotect x => unprotectAbs v x

/-- the paths an operation names -/
def Op.names : Op → List Bytes
  | .put f _ => [canon f.fullPath]
  | .delete x => [canon x]
  | .rename o n => [canon o, canon n]
  | .lock x => [canon x]
  | .unlock x => [canon x]
  | .retype x _ => [canon x]
  | .protect x _ _ _ _ => [canon x]
  | .unprotect x => [canon x]

theorem Op.abs_targets (v : Vol) (op : Op) : ∀ q ∈ (op.abs v).targets, q ∈ op.names := by
  cases op with
  | unprotect x =>
    intro q hq
    show q ∈ [canon x]
    have hq' : q ∈ (unprotectAbs v x).targets := hq
    unfold unprotectAbs at hq'
    split at hq'
    · exact hq'
    · cases hq'
  | _ => intro q hq; exact hq

/-- the arguments the refinement theorem covers: file images in `PutArgsOk`; `protect`/`unprotect` with a valid name (no trailing
blanks, which `protect` — unlike every other operation — would accept); the other operations: any argument -/
def Op.Ok (d : Dpb) : Op → Prop
  | .put f _ => PutArgsOk d f
  | .protect x _ _ _ _ => isXnameValid x = true
  | .unprotect x => isXnameValid x = true
  | _ => True

instance (d : Dpb) (op : Op) : Decidable (op.Ok d) := by
  cases op <;> unfold Op.Ok <;> infer_instance

/-- the disk parameter block is one the proof covers: `is_reserved` agrees with the directory block list, an entry has
`extent_capacity / block_size` pointer slots (all a2kit disk kinds; checked by `decide` for the harness configurations below) -/
structure DpbGood (d : Dpb) : Prop where
  resv : ResvOk d
  put : DpbPut d

/-- the operations that only touch flags / password entries -/
def Op.isFlagOp : Op → Bool
  | .retype _ _ | .protect _ _ _ _ _ | .unprotect _ => true
  | _ => false

/-- **Refinement, one step**: every operation of the concrete model preserves the invariant and is a transition
the abstract specification allows between the readings before and after; `retype`, `protect`, `unprotect` moreover keep
content, length, blocks and the read-only flag of every file (`ContentKept`) -/
theorem step_refines {d : Dpb} {r : Raw} (h : Inv d r) (hg : DpbGood d) (op : Op) (hok : op.Ok d) :
    Inv d (op.run d r).2 ∧
    stepOk (cpmParams d) (volOf d r) (op.abs (volOf d r)) (op.run d r).1 (volOf d (op.run d r).2) = true ∧
    (op.isFlagOp = true → ContentKept (volOf d r) (volOf d (op.run d r).2)) := by
  cases op with
  | put f now =>
    show Inv d (Fs.Cpm.put d r f now).2 ∧ stepOk (cpmParams d) (volOf d r) (.put (canon f.fullPath) (putChunks f) f.eof 0 0)
      (okB (Fs.Cpm.put d r f now).1) (volOf d (Fs.Cpm.put d r f now).2) = true ∧ _
    cases hres : (Fs.Cpm.put d r f now).1 with
    | ok u =>
      cases u
      obtain ⟨a, b⟩ := put_step h hg.resv hg.put hok (Prod.ext hres rfl)
      exact ⟨a, b, fun hc => by cases hc⟩
    | error e =>
      obtain ⟨a, _, c⟩ := put_error_step (res := .error e) h hg.resv (Prod.ext hres rfl) rfl
        (.put (canon f.fullPath) (putChunks f) f.eof 0 0)
      exact ⟨a, c, fun hc => by cases hc⟩
  | delete x => obtain ⟨a, b⟩ := delete_refines (d := d) (r := r) (xname := x) h rfl; exact ⟨a, b, fun hc => by cases hc⟩
  | rename o n => obtain ⟨a, b⟩ := rename_refines (d := d) (r := r) (oldX := o) (newX := n) h rfl; exact ⟨a, b, fun hc => by cases hc⟩
  | lock x => obtain ⟨a, b⟩ := lock_refines (d := d) (r := r) (xname := x) h rfl; exact ⟨a, b, fun hc => by cases hc⟩
  | unlock x => obtain ⟨a, b⟩ := unlock_refines (d := d) (r := r) (xname := x) h rfl; exact ⟨a, b, fun hc => by cases hc⟩
  | retype x ty =>
    obtain ⟨a, b⟩ := retype_refines (d := d) (r := r) (xname := x) (ty := ty) h rfl
    exact ⟨a, b, fun _ => retype_kept h rfl⟩
  | protect x pw rd wr del =>
    obtain ⟨a, b, c⟩ := protect_refines (d := d) (r := r) (x := x) (password := pw) (rd := rd) (wr := wr) (del := del) h hok rfl
    exact ⟨a, b, fun _ => c⟩
  | unprotect x =>
    obtain ⟨a, b, c⟩ := unprotect_refines (d := d) (r := r) (x := x) h hok rfl
    exact ⟨a, b, fun _ => c⟩

theorem delete_step {d : Dpb} {r r' : Raw} {x : Bytes} {res : R Unit} (h : Inv d r) (hop : Fs.Cpm.delete d r x = (res, r')) :
    Inv d r' ∧ stepOk (cpmParams d) (volOf d r) (.delete (canon x)) (okB res) (volOf d r') = true := delete_refines h hop
theorem rename_step {d : Dpb} {r r' : Raw} {o n : Bytes} {res : R Unit} (h : Inv d r)
    (hop : Fs.Cpm.rename d r o n = (res, r')) :
    Inv d r' ∧ stepOk (cpmParams d) (volOf d r) (.rename (canon o) (canon n)) (okB res) (volOf d r') = true := rename_refines h hop
theorem lock_step {d : Dpb} {r r' : Raw} {x : Bytes} {res : R Unit} (h : Inv d r) (hop : Fs.Cpm.lock d r x = (res, r')) :
    Inv d r' ∧ stepOk (cpmParams d) (volOf d r) (.lock (canon x)) (okB res) (volOf d r') = true := lock_refines h hop
theorem unlock_step {d : Dpb} {r r' : Raw} {x : Bytes} {res : R Unit} (h : Inv d r) (hop : Fs.Cpm.unlock d r x = (res, r')) :
    Inv d r' ∧ stepOk (cpmParams d) (volOf d r) (.unlock (canon x)) (okB res) (volOf d r') = true := unlock_refines h hop
theorem retype_step {d : Dpb} {r r' : Raw} {x ty : Bytes} {res : R Unit} (h : Inv d r) (hop : Fs.Cpm.retype d r x ty = (res, r')) :
    Inv d r' ∧ stepOk (cpmParams d) (volOf d r) (.retype (canon x)) (okB res) (volOf d r') = true := retype_refines h hop

/-- **`protect` (CP/M 3 passwords) refines the specification**: refused → nothing changes; accepted → the file `canon x` keeps
content, length and blocks, every other file is identical (a `retype`-like step: only `access` of one record can change), and no
file loses its read-only flag.  (`hx`: a valid name; a2kit does not check passwords on `delete`/`rename`/`get`, so a password alone
does not make a file survive — the read-only flag does, `cpm_readonly_survives`.) -/
theorem protect_step {d : Dpb} {r r' : Raw} {x pw : Bytes} {rd wr del : Bool} {res : R Unit} (h : Inv d r) (hx : isXnameValid x = true)
    (hop : Fs.Cpm.protect d r x pw rd wr del = (res, r')) :
    Inv d r' ∧ stepOk (cpmParams d) (volOf d r) (.retype (canon x)) (okB res) (volOf d r') = true ∧
      ContentKept (volOf d r) (volOf d r') := protect_refines h hx hop

/-- **`unprotect` refines the specification** (as `protect_step`; when no file of that name exists — a stray password entry — the
reading does not change at all) -/
theorem unprotect_step {d : Dpb} {r r' : Raw} {x : Bytes} {res : R Unit} (h : Inv d r) (hx : isXnameValid x = true)
    (hop : Fs.Cpm.unprotect d r x = (res, r')) :
    Inv d r' ∧ stepOk (cpmParams d) (volOf d r) (unprotectAbs (volOf d r) x) (okB res) (volOf d r') = true ∧
      ContentKept (volOf d r) (volOf d r') := unprotect_refines h hx hop

/-- **C04, acceptance ("a file that fits is accepted")**: on an image satisfying the invariant whose directory a2kit's own
`build_files` accepts (`hb`; where the label asks for time stamps the directory is laid out as `add_timestamps` does, `hts`), a `put`
of a file image for this file system and block size (`hf`; in the repaired tree — `guardIface` — also: none of the interface
attributes F5–F8 set) in the class `PutArgsOk`, under a valid name (`hname`) that the listing
does not hold (`habs`), **with no more chunks than the reader finds free units** (`hfree`) **and needing no more extents than the
directory has unused entries** (`hext`; `extentsNeeded` = physical extents that hold a chunk), **is accepted** — and the step is the
abstract `put` (`put_step`).  Whatever the allocation state is: first-fit always finds a block and an entry. -/
theorem cpm_fits_is_accepted {d : Dpb} {r : Raw} {f : FImg} {now : Bytes} (h : Inv d r) (hg : DpbGood d) (hc : ResvCount d)
    (hsmall : d.dsm + 1 < 65536) (hb : okB (buildFiles d d.v3 (dirOf d r)) = true) (hts : tsLayoutB (dirOf d r) = true)
    (hf : f.fsOk = true ∧ f.chunkLen = blockSize d ∧ 3 ≤ f.fsType.length ∧ (f.guardIface && f.ifaceFlags) = false) (ha : PutArgsOk d f)
    (hname : isXnameValid f.fullPath = true) (habs : (volOf d r).lookup (canon f.fullPath) = none)
    (hfree : f.chunks.length ≤ (volOf d r).free)
    (hext : extentsNeeded f (putMaxX d f) (putSpe d) ≤ numFreeExtents (dirOf d r)) :
    ∃ r', Fs.Cpm.put d r f now = (.ok (), r') ∧ Inv d r' ∧
      stepOk (cpmParams d) (volOf d r) (.put (canon f.fullPath) (putChunks f) f.eof 0 0) true (volOf d r') = true := by
  cases hbf : buildFiles d d.v3 (dirOf d r) with
  | error e => rw [hbf] at hb; cases hb
  | ok files =>
    unfold isXnameValid at hname
    cases hsp : splitUserFilename f.fullPath with
    | error e => rw [hsp] at hname; cases hname
    | ok un =>
      obtain ⟨user, name⟩ := un
      rw [hsp] at hname
      simp only [Bool.and_eq_true] at hname
      obtain ⟨r', hput⟩ := put_accepts (now := now) h hg.resv hc hg.put hsmall hbf hf.1 hf.2.1 hf.2.2.1 hf.2.2.2 ha hsp hname.1 habs hfree hext hts
      obtain ⟨a, b⟩ := put_step h hg.resv hg.put ha hput
      exact ⟨r', hput, a, b⟩

/-! ## the queries: `get`, `catalog` -/

/-- **`get` of the concrete model is the reading** (C01, the read path): when a2kit's `build_files` accepts the directory, a valid
name that the independent reader lists is fetched by `get`, and what `get` returns is that file — the same chunk list (indices and
block contents) and the reader's length (as the `u32` a file image carries).  `hm`: for `read_file` as written the entries of the file
must be numbered the way `put` numbers them (every entry but the last by the last logical extent of its physical extent,
`MidFullAt`; always true when EXM = 0); the repaired `read_file` (`absIdx`, `proposed_fixes/cpm-get-partial-extent.diff`) needs no
such hypothesis. -/
theorem cpm_get_is_reading {d : Dpb} {r : Raw} {x : Bytes} {absIdx : Bool} {f : FileRec} (h : Inv d r) (hd : DpbPut d)
    (hb : okB (buildFiles d d.v3 (dirOf d r)) = true) (hx : isXnameValid x = true)
    (hf : (volOf d r).lookup (canon x) = some f) (hm : absIdx = true ∨ MidFullAt d r (canon x)) :
    ∃ g, Fs.Cpm.get d r x absIdx = .ok g ∧ g.chunks = f.chunks ∧ g.eof = f.eof % 4294967296 :=
  get_is_reading h hd hb hx hf hm

/-- the converse: whatever `get` returns successfully is the file the reader lists under `canon x` ("unlisted-not-fetchable") -/
theorem cpm_get_sound {d : Dpb} {r : Raw} {x : Bytes} {absIdx : Bool} {g : Got} (h : Inv d r) (hd : DpbPut d)
    (hget : Fs.Cpm.get d r x absIdx = .ok g) (hm : absIdx = true ∨ MidFullAt d r (canon x)) :
    ∃ f, (volOf d r).lookup (canon x) = some f ∧ g.chunks = f.chunks ∧ g.eof = f.eof % 4294967296 :=
  get_sound h hd hget hm

/-- a name the reader does not list is reported `FileNotFound` ("deleted-not-fetchable") -/
theorem cpm_get_missing {d : Dpb} {r : Raw} {x : Bytes} {absIdx : Bool} (h : Inv d r)
    (hb : okB (buildFiles d d.v3 (dirOf d r)) = true) (hf : (volOf d r).lookup (canon x) = none) :
    Fs.Cpm.get d r x absIdx = .error .fileNotFound := get_missing h hb hf

/-- **C01 at the level of the two operations** ("once accepted by put, is returned by a later get of the same path with every
stored chunk at the same index … and logical length"): if `put` accepted a file image in `PutArgsOk` and `build_files` accepts the
directory afterwards, `get` of the same name succeeds and returns exactly the stored chunk indices, each chunk beginning with the
stored bytes, and the stored length as CP/M records it — for `read_file` as written and as repaired (the files `put` writes are
numbered as `read_file` expects, `put_midfull`).  `hb'` fails exactly when the image set an interface attribute F5–F8 and `put`
accepted it (defect `cpm-put-interface-flags`, repaired). -/
theorem cpm_get_after_put {d : Dpb} {r r' : Raw} {f : FImg} {now : Bytes} {absIdx : Bool} (h : Inv d r) (hg : DpbGood d)
    (ha : PutArgsOk d f) (hop : Fs.Cpm.put d r f now = (.ok (), r')) (hb' : okB (buildFiles d d.v3 (dirOf d r')) = true) :
    ∃ g, Fs.Cpm.get d r' f.fullPath absIdx = .ok g ∧ chunksMatch (putChunks f) g.chunks = true ∧
      g.eof = (cpmParams d).eofRule f.eof % 4294967296 := get_after_put h hg.resv hg.put ha hop hb'

/-- **`catalog_to_vec` of the concrete model is the listing of the reading** (C05, the API side): the rows are, up to order, the
files the independent reader lists — the same paths (`rowPath`: `u:NAME.TYP` rows when some file is outside user area 0, else `NAME` with
the type column) — and the block count of a row is the number of units the reader finds owned by that file -/
theorem cpm_catalog_is_reading {d : Dpb} {r : Raw} {rows : List (Bytes × Nat × Bytes)} (h : Inv d r)
    (hcat : Fs.Cpm.catalog d r = .ok rows) :
    (rows.map rowPath).Perm (volOf d r).paths ∧
    ∀ row ∈ rows, ∃ f ∈ (volOf d r).files, f.path = rowPath row ∧ row.2.1 = f.owned.length := catalog_spec h hcat

/-! ## histories -/

def trace (d : Dpb) : Raw → List Op → List Step
  | _, [] => []
  | r, op :: ops => ⟨op.abs (volOf d r), (op.run d r).1, volOf d (op.run d r).2⟩ :: trace d (op.run d r).2 ops

def finalRaw (d : Dpb) : Raw → List Op → Raw
  | r, [] => r
  | r, op :: ops => finalRaw d (op.run d r).2 ops

/-- **Refinement, histories**: every history of concrete operations (`put`, `delete`, `rename`, `lock`, `unlock`, `retype`,
`protect`, `unprotect`; successful and refused), started from an image satisfying the invariant, is a valid trace of the abstract specification; the
invariant holds at the end and the final reading is the reading of the final image -/
theorem history_refines {d : Dpb} (hg : DpbGood d) : ∀ (ops : List Op) {r : Raw}, Inv d r → (∀ op ∈ ops, op.Ok d) →
    validFrom (cpmParams d) (volOf d r) (trace d r ops) ∧ Inv d (finalRaw d r ops) ∧
    finalVol (volOf d r) (trace d r ops) = volOf d (finalRaw d r ops) := by
  intro ops
  induction ops with
  | nil => intro r h _; exact ⟨trivial, h, rfl⟩
  | cons op ops ih =>
    intro r h hok
    obtain ⟨h1, h2, _⟩ := step_refines h hg op (hok op List.mem_cons_self)
    obtain ⟨a, b, c⟩ := ih h1 (fun o ho => hok o (List.mem_cons_of_mem _ ho))
    refine ⟨⟨h2, a⟩, b, ?_⟩
    show finalVol (volOf d r) (⟨op.abs (volOf d r), (op.run d r).1, volOf d (op.run d r).2⟩ :: trace d (op.run d r).2 ops) = _
    rw [finalVol_cons]
    exact c

theorem mem_trace {d : Dpb} : ∀ {ops : List Op} {r : Raw} {s : Step}, s ∈ trace d r ops → ∃ op ∈ ops, ∃ v, s.op = op.abs v := by
  intro ops
  induction ops with
  | nil => intro r s hs; cases hs
  | cons op ops ih =>
    intro r s hs
    rcases List.mem_cons.1 hs with rfl | hs
    · exact ⟨op, List.mem_cons_self, _, rfl⟩
    · obtain ⟨o, ho, e⟩ := ih hs
      exact ⟨o, List.mem_cons_of_mem _ ho, e⟩

theorem mem_trace_inv {d : Dpb} (hg : DpbGood d) : ∀ {ops : List Op} {r : Raw} {s : Step}, Inv d r → (∀ op ∈ ops, op.Ok d) →
    s ∈ trace d r ops → ∃ r', Inv d r' ∧ s.post = volOf d r' := by
  intro ops
  induction ops with
  | nil => intro r s _ _ hs; cases hs
  | cons op ops ih =>
    intro r s h hok hs
    obtain ⟨h1, _, _⟩ := step_refines h hg op (hok op List.mem_cons_self)
    rcases List.mem_cons.1 hs with rfl | hs
    · exact ⟨_, h1, rfl⟩
    · exact ih h1 (fun o ho => hok o (List.mem_cons_of_mem _ ho)) hs

/-! ## the history-level theorems of C01 … C05, for the concrete CP/M model -/

/-- C01 for the concrete model ("once accepted by put, is returned … for as long as it is not deleted"): after a `put` the
model accepted, followed by ANY history of concrete operations (further puts, deletes, renames, lock/unlock/retype — of this
file or others, successful or refused) in which no delete and no rename *of this file* succeeded, the reading of the final image
holds the file under `canon f.fullPath`: every stored chunk is there at its index, beginning with the stored bytes; there is no
other chunk; the length is the stored one as CP/M records it. -/
theorem cpm_put_reads_back {d : Dpb} (hg : DpbGood d) {r r1 : Raw} {f : FImg} {now : Bytes} (h : Inv d r) (ha : PutArgsOk d f)
    (hput : Fs.Cpm.put d r f now = (.ok (), r1)) {ops : List Op} (hok : ∀ op ∈ ops, op.Ok d)
    (hnd : ∀ s ∈ trace d r1 ops, s.ok = true → s.op ≠ .delete (canon f.fullPath) ∧ ∀ q, s.op ≠ .rename (canon f.fullPath) q) :
    ∃ g, (volOf d (finalRaw d r1 ops)).lookup (canon f.fullPath) = some g ∧ g.isDir = false ∧
      g.eof = (cpmParams d).eofRule f.eof ∧
      (∀ k bytes, (k, bytes) ∈ f.chunks → ∃ data, (k, data) ∈ g.chunks ∧ bytes <+: data) ∧
      (∀ k data, (k, data) ∈ g.chunks → ∃ bytes, (k, bytes) ∈ f.chunks ∧ bytes <+: data) := by
  obtain ⟨h1, hstep⟩ := put_step h hg.resv hg.put ha hput
  obtain ⟨hv, _, heq⟩ := history_refines hg ops h1 hok
  obtain ⟨g, hl, hc, he, hdir⟩ := C01.stored_content_kept_until_deleted hstep hv hnd
  rw [heq] at hl
  refine ⟨g, hl, hdir, he, ?_, ?_⟩
  · intro k bytes hm
    exact C01.stored_chunk_comes_back hc (by unfold putChunks; exact List.mem_mergeSort.2 hm)
  · intro k data hm
    obtain ⟨bytes, hb, hp⟩ := C01.no_other_chunk hc hm
    exact ⟨bytes, by unfold putChunks at hb; exact List.mem_mergeSort.1 hb, hp⟩

/-- C02 for the concrete model: a file that no operation of the history names is found bit-identical
(content, length, flags, blocks) in the reading of the final image -/
theorem cpm_bystanders_survive {d : Dpb} (hg : DpbGood d) {r : Raw} (h : Inv d r) {ops : List Op} (hok : ∀ op ∈ ops, op.Ok d)
    {q : Bytes} {g : FileRec} (hgq : (volOf d r).lookup q = some g) (hq : ∀ op ∈ ops, q ∉ op.names) :
    (volOf d (finalRaw d r ops)).lookup q = some g := by
  obtain ⟨hv, _, heq⟩ := history_refines hg ops h hok
  have hd : g.isDir = false := by
    have hm := (lookup_some hgq).1
    unfold volOf mkVol filesOf at hm
    simp only [List.mem_map] at hm
    obtain ⟨k, _, rfl⟩ := hm
    rfl
  have := C02.bystanders_survive_history hv (fun s hs => by
    obtain ⟨op, ho, v, e⟩ := mem_trace hs
    rw [e]; exact fun hm => hq op ho (Op.abs_targets v op q hm)) hgq hd
  rw [heq] at this
  exact this

/-- C03 for the concrete model: the image after **every** step of every history, successful or refused,
is read by the independent reader as a well-formed volume -/
theorem cpm_states_well_formed {d : Dpb} (hg : DpbGood d) {r : Raw} (h : Inv d r) {ops : List Op} (hok : ∀ op ∈ ops, op.Ok d) :
    (∀ s ∈ trace d r ops, s.post.wfB = true) ∧
    Read.Cpm.read (finalRaw d r ops) d = .ok (volOf d (finalRaw d r ops)) ∧ (volOf d (finalRaw d r ops)).wfB = true := by
  obtain ⟨hv, hfin, _⟩ := history_refines hg ops h hok
  exact ⟨C03.every_state_well_formed hv, (inv_reads hfin).1, volOf_wf hfin⟩

/-- C04 for the concrete model: in every state of every history `free + owned + reserved = size` -/
theorem cpm_free_accounting {d : Dpb} (hg : DpbGood d) {r : Raw} (h : Inv d r) {ops : List Op} (hok : ∀ op ∈ ops, op.Ok d) :
    (∀ s ∈ trace d r ops, s.post.free + s.post.allOwned.length + s.post.sys.length = s.post.hi - s.post.lo) ∧
    (volOf d (finalRaw d r ops)).free + (volOf d (finalRaw d r ops)).allOwned.length + (volOf d (finalRaw d r ops)).sys.length =
      d.dsm + 1 := by
  have key : ∀ {r' : Raw}, Inv d r' →
      (volOf d r').free + (volOf d r').allOwned.length + (volOf d r').sys.length = (volOf d r').hi - (volOf d r').lo := by
    intro r' h'
    apply C04.free_accounting (volOf_wf h') (mkVol_noLeak d _)
    intro u hu
    have : u ∈ Read.Cpm.dirBlocks d := hu
    rw [h'.dpb.prefix_, List.mem_range] at this
    have := h'.dpb.inRange
    exact ⟨Nat.zero_le _, by show u < d.dsm + 1; omega⟩
  obtain ⟨_, hfin, _⟩ := history_refines hg ops h hok
  refine ⟨fun s hs => ?_, key hfin⟩
  obtain ⟨r', h', e⟩ := mem_trace_inv hg h hok hs
  rw [e]; exact key h'

/-- C05 for the concrete model: the names the reader lists after a history are exactly the fold of the history
over the initial listing, and they are pairwise different -/
theorem cpm_listing_is_history_fold {d : Dpb} (hg : DpbGood d) {r : Raw} (h : Inv d r) {ops : List Op} (hok : ∀ op ∈ ops, op.Ok d)
    (q : Bytes) :
    (q ∈ (volOf d (finalRaw d r ops)).paths ↔ q ∈ foldPaths (volOf d r).paths (trace d r ops)) ∧
    (volOf d (finalRaw d r ops)).paths.Nodup := by
  obtain ⟨hv, hfin, heq⟩ := history_refines hg ops h hok
  have := C05.listing_is_history_fold' hv q
  rw [heq] at this
  exact ⟨this, wfB_paths_nodup (volOf_wf hfin)⟩

theorem Op.abs_retype_flag {v : Vol} {op : Op} {q : Bytes} (h : op.abs v = .retype q) : op.isFlagOp = true := by
  cases op <;> first | rfl | cases h

/-- **C19 for the concrete CP/M model** ("a file set read-only cannot be deleted, renamed or overwritten through a2kit until the
protection is removed, while reading it is unaffected"): along ANY history of concrete operations — puts, deletes, renames, `lock`,
`retype`, `protect`, `unprotect`, of this file or others, successful or refused — in which no `unlock` of `q` succeeded, a read-only
file `q` is found at the end, still read-only, with the same content, length and blocks; and every delete, rename or overwrite of
`q` attempted on the way was refused (the code: `FileReadOnly` for delete/rename, `FileExists` for put).  Password protection
(`protect`) plays no part: a2kit checks no password, a password entry only shows in `access`. -/
theorem cpm_readonly_survives {d : Dpb} (hg : DpbGood d) : ∀ (ops : List Op) {r : Raw}, Inv d r → (∀ op ∈ ops, op.Ok d) →
    ∀ {q : Bytes} {f : FileRec}, (volOf d r).lookup q = some f → f.locked = true →
    (∀ s ∈ trace d r ops, s.ok = true → s.op ≠ .unlock q) →
    (∃ g, (volOf d (finalRaw d r ops)).lookup q = some g ∧ g.locked = true ∧ g.chunks = f.chunks ∧ g.eof = f.eof ∧ g.owned = f.owned) ∧
    (∀ s ∈ trace d r ops, (s.op = .delete q ∨ (∃ p, s.op = .rename q p) ∨ (∃ cs e t a, s.op = .put q cs e t a)) → s.ok = false) := by
  intro ops
  induction ops with
  | nil => intro r _ _ q f hf hl _; exact ⟨⟨f, hf, hl, rfl, rfl, rfl⟩, fun s hs => by cases hs⟩
  | cons op ops ih =>
    intro r h hok q f hf hl hnu
    obtain ⟨h1, h2, h3⟩ := step_refines h hg op (hok op List.mem_cons_self)
    have hhead : (⟨op.abs (volOf d r), (op.run d r).1, volOf d (op.run d r).2⟩ : Step) ∈ trace d r (op :: ops) := List.mem_cons_self
    obtain ⟨⟨g, hg1, hg2, hg3, hg4, hg5, _⟩, hatt⟩ := ro_step h2 hf hl (volOf_flat hf) (fun e => h3 (Op.abs_retype_flag e))
      (fun c => hnu _ hhead c.2 c.1)
    obtain ⟨⟨g', a1, a2, a3, a4, a5⟩, hrest⟩ := ih h1 (fun o ho => hok o (List.mem_cons_of_mem _ ho)) hg1 hg2
      (fun s hs => hnu s (List.mem_cons_of_mem _ hs))
    refine ⟨⟨g', a1, a2, by rw [a3, hg3], by rw [a4, hg4], by rw [a5, hg5]⟩, fun s hs => ?_⟩
    rcases List.mem_cons.1 hs with rfl | hs
    · exact hatt
    · exact hrest s hs

/-- does a successful step with this operation take the file away from path `p`? -/
def removesB (p : Bytes) : FsOp → Bool
  | .delete q => q == p
  | .rename q _ => q == p
  | _ => false

/-- the hypothesis of `cpm_put_reads_back` as a computation on the trace: no successful delete/rename of `p` -/
def keptB (p : Bytes) (tr : List Step) : Bool := tr.all (fun s => !s.ok || !removesB p s.op)

theorem keptB_spec {p : Bytes} {tr : List Step} (h : keptB p tr = true) :
    ∀ s ∈ tr, s.ok = true → s.op ≠ .delete p ∧ ∀ q, s.op ≠ .rename p q := by
  intro s hs hok
  unfold keptB at h
  rw [List.all_eq_true] at h
  have := h s hs
  rw [hok] at this
  simp only [Bool.not_true, Bool.false_or, Bool.not_eq_true'] at this
  refine ⟨fun e => ?_, fun q e => ?_⟩
  · rw [e] at this; simp [removesB] at this
  · rw [e] at this; simp [removesB] at this

/-! ## non-vacuity: a concrete image and a concrete history

`exD`: a 16-block CP/M 2 volume (1K blocks, 8 directory entries in block 0).  `exImg`: formatted by the model, then
`a.txt` (two chunks, lower-case name, user 0) and `3:B` (one chunk, user 3) stored by the model's `put`.  The
invariant of `exImg` is established by the executable check `invB` (sound: `invB_sound`).  `exOps`: put `c.dat` (sparse: chunks
0 and 2), a refused put of the existing `a.txt`, a refused put of a file larger than the free space, lock `A.TXT`,
a refused delete of it, unlock (lower-case spelling with `0:` prefix), retype to `sys`, a refused
rename onto the existing `3:B`, a rename into user area 7 (`7:c.d`), a refused delete of the old name, delete of the new
name -/

def exD : Dpb := { bsh := 3, exm := 0, dsm := 15, drm := 7, al0 := 128, al1 := 0, v3 := false }

def exBlank : Raw := { unitLen := 1024, units := Array.replicate 16 [] }
def exA : FImg := { chunkLen := 1024, fullPath := [97, 46, 116, 120, 116], fsType := [84, 88, 84], access := List.replicate 11 32,
                    eof := 1030, chunks := [(1, [9, 8, 7, 6, 5, 4]), (0, List.replicate 1024 3)] }
def exB : FImg := { chunkLen := 1024, fullPath := [51, 58, 66], fsType := [32, 32, 32], access := List.replicate 11 32,
                    eof := 5, chunks := [(0, [1, 2, 3, 4, 5])] }
/-- `c.dat`, sparse: chunks 0 and 2, length 2050 -/
def exC : FImg := { chunkLen := 1024, fullPath := [99, 46, 100, 97, 116], fsType := [68, 65, 84], access := List.replicate 11 32,
                    eof := 2050, chunks := [(2, [7, 7]), (0, [1, 2, 3])] }
/-- 14 chunks: more than the free space of `exImg` -/
def exBig : FImg := { chunkLen := 1024, fullPath := [66, 73, 71], fsType := [32, 32, 32], access := List.replicate 11 32,
                      eof := 13 * 1024 + 1, chunks := (List.range 14).map (fun i => (i, [i])) }
def exImg0 : Raw := (Fs.Cpm.format exD exBlank [] none).2
def exImg1 : Raw := (Fs.Cpm.put exD exImg0 exA [0, 0, 0, 0]).2
def exImg : Raw := (Fs.Cpm.put exD exImg1 exB [0, 0, 0, 0]).2

def exOps : List Op :=
  [.put exC [0, 0, 0, 0], .put exA [0, 0, 0, 0], .put exBig [0, 0, 0, 0],
   .lock [65, 46, 84, 88, 84], .delete [65, 46, 84, 88, 84], .unlock [48, 58, 97, 46, 116, 120, 116],
   .retype [65, 46, 84, 88, 84] [115, 121, 115], .rename [97, 46, 116, 120, 116] [51, 58, 66], .rename [65, 46, 84, 88, 84] [55, 58, 99, 46, 100],
   .delete [65, 46, 84, 88, 84], .delete [55, 58, 67, 46, 68]]

/-- put `3:B`, lock `A.TXT`, a refused delete of it, unlock, delete `3:b` -/
def exOps1 : List Op :=
  [.put exB [0, 0, 0, 0], .lock [65, 46, 84, 88, 84], .delete [65, 46, 84, 88, 84], .unlock [97, 46, 116, 120, 116], .delete [51, 58, 98]]

theorem exGood : DpbGood exD := ⟨by decide +kernel, by decide⟩

set_option maxRecDepth 100000 in
theorem exImg_inv : Inv exD exImg := invB_sound (by decide +kernel)

set_option maxRecDepth 100000 in
theorem exImg0_inv : Inv exD exImg0 := invB_sound (by decide +kernel)

/-- every `put` of the example history is in the class the refinement theorem covers -/
theorem exOps_ok : ∀ op ∈ exOps, op.Ok exD := by decide +kernel

set_option maxRecDepth 100000 in
/-- what the concrete model answers on the example history -/
example : (trace exD exImg exOps).map (·.ok) =
    [true, false, false, true, false, true, true, false, true, false, true] := by decide +kernel

set_option maxRecDepth 100000 in
/-- the example image holds the two files under their canonical paths -/
example : (volOf exD exImg).paths = [[65, 46, 84, 88, 84], [51, 58, 66, 46]] := by decide +kernel

example : validFrom (cpmParams exD) (volOf exD exImg) (trace exD exImg exOps) := (history_refines exGood exOps exImg_inv exOps_ok).1
example : ∀ s ∈ trace exD exImg exOps, s.post.wfB = true := (cpm_states_well_formed exGood exImg_inv exOps_ok).1

set_option maxRecDepth 100000 in
/-- non-vacuity of `put_step` / `cpm_put_reads_back`: the model accepts `put a.txt` on the freshly formatted example volume;
the history `exOps1` that follows (put `3:B`, lock, a refused delete of the locked file, unlock, delete of the
other file) has no successful delete/rename of `A.TXT` — so `A.TXT` is read back at the end -/
example : ∃ g, (volOf exD (finalRaw exD exImg1 exOps1)).lookup
      (canon exA.fullPath) = some g ∧ g.isDir = false ∧ g.eof = (cpmParams exD).eofRule exA.eof ∧
      (∀ k bytes, (k, bytes) ∈ exA.chunks → ∃ data, (k, data) ∈ g.chunks ∧ bytes <+: data) ∧
      (∀ k data, (k, data) ∈ g.chunks → ∃ bytes, (k, bytes) ∈ exA.chunks ∧ bytes <+: data) :=
  cpm_put_reads_back exGood exImg0_inv (by decide +kernel)
    (Prod.ext (by
      have : okB (Fs.Cpm.put exD exImg0 exA [0, 0, 0, 0]).1 = true := by decide +kernel
      revert this
      cases (Fs.Cpm.put exD exImg0 exA [0, 0, 0, 0]).1 with
      | ok u => intro _; rfl
      | error e => intro h; cases h) rfl)
    (by decide +kernel) (keptB_spec (by decide +kernel))

set_option maxRecDepth 100000 in
/-- `format` of a CP/M 3 volume with label and time stamps reports success, hence (`format_establishes_inv`) the result satisfies `Inv` -/
example : Inv { exD with v3 := true } (Fs.Cpm.format { exD with v3 := true } exBlank [86] (some [100, 31, 0, 0])).2 :=
  format_establishes_inv (d := { exD with v3 := true }) (r := exBlank) (vn := [86]) (time := some [100, 31, 0, 0])
    (by decide) rfl (by intro t ht; cases ht; rfl)
    (Prod.ext (by
      have : okB (Fs.Cpm.format { exD with v3 := true } exBlank [86] (some [100, 31, 0, 0])).1 = true := by decide +kernel
      revert this
      cases (Fs.Cpm.format { exD with v3 := true } exBlank [86] (some [100, 31, 0, 0])).1 with
      | ok u => intro _; rfl
      | error e => intro h; cases h) rfl)

/-- non-vacuity of `put_success_entries` / `put_success_inv` / `put_step`: the example parameter block and the example file
images satisfy the hypotheses -/
example : DpbPut exD ∧ ResvOk exD ∧ PutArgsOk exD exA ∧ PutArgsOk exD exB ∧ PutArgsOk exD exC := by decide +kernel

/-- a file image as the harness generates them (chunk keys pairwise different, chunks of block size, the last possibly shorter,
`eof` inside the last chunk) is in `PutArgsOk` for each of the harness's disk parameter blocks — EXM = 0 and EXM = 1 (Kaypro),
CP/M 2 and CP/M 3 — and for a parameter block with 16-bit block pointers (DSM ≥ 256, EXM = 1, 4K blocks) -/
def hImg (bs : Nat) (n : Nat) : FImg :=
  { chunkLen := bs, fullPath := [72, 46, 66], fsType := [66, 32, 32], access := List.replicate 11 0, eof := (n - 1) * bs + 17,
    chunks := (List.range n).map (fun i => (i, if i + 1 = n then List.replicate 17 5 else List.replicate bs (i % 251))) }

example : PutArgsOk { bsh := 3, exm := 0, dsm := 127, drm := 47, al0 := 0xC0, al1 := 0, v3 := false } (hImg 1024 20) := by decide +kernel
example : PutArgsOk { bsh := 3, exm := 0, dsm := 184, drm := 63, al0 := 0xC0, al1 := 0, v3 := false } (hImg 1024 33) := by decide +kernel
example : PutArgsOk { bsh := 4, exm := 1, dsm := 196, drm := 63, al0 := 0xC0, al1 := 0, v3 := false } (hImg 2048 17) := by decide +kernel
example : PutArgsOk { bsh := 3, exm := 0, dsm := 174, drm := 63, al0 := 0xC0, al1 := 0, v3 := true } (hImg 1024 16) := by decide +kernel
example : PutArgsOk { bsh := 5, exm := 1, dsm := 400, drm := 127, al0 := 0x80, al1 := 0, v3 := false } (hImg 4096 9) := by decide +kernel
example : DpbGood { bsh := 5, exm := 1, dsm := 400, drm := 127, al0 := 0x80, al1 := 0, v3 := false } ∧
    DpbOk { bsh := 5, exm := 1, dsm := 400, drm := 127, al0 := 0x80, al1 := 0, v3 := false } :=
  ⟨⟨by decide +kernel, by decide⟩, by decide⟩

set_option maxRecDepth 100000 in
/-- non-vacuity of `cpm_fits_is_accepted`: `c.dat` (2 chunks, 1 extent) fits the example image (12 free blocks, 6 unused entries) -/
example : ∃ r', Fs.Cpm.put exD exImg exC [0, 0, 0, 0] = (.ok (), r') ∧ Inv exD r' ∧
    stepOk (cpmParams exD) (volOf exD exImg) (.put (canon exC.fullPath) (putChunks exC) exC.eof 0 0) true (volOf exD r') = true :=
  cpm_fits_is_accepted exImg_inv exGood (by decide) (by decide) (by decide +kernel) (by decide +kernel) (by decide) (by decide +kernel)
    (by decide +kernel) (by decide +kernel) (by decide +kernel) (by decide +kernel)

/-- a CP/M 3 volume with label and time stamps, as the model's `format` makes it -/
def exD3 : Dpb := { exD with v3 := true }
def exImg3 : Raw := (Fs.Cpm.format exD3 exBlank [86] (some [100, 31, 0, 0])).2

set_option maxRecDepth 100000 in
/-- on the time-stamped CP/M 3 example volume the hypotheses `hb`, `hts` of `cpm_fits_is_accepted` hold: a2kit's `build_files` accepts
the directory, every fourth entry is a time-stamp entry (and `c.dat` fits) -/
example : okB (buildFiles exD3 exD3.v3 (dirOf exD3 exImg3)) = true ∧ tsLayoutB (dirOf exD3 exImg3) = true ∧
    (findLabel (dirOf exD3 exImg3)).isSome = true ∧
    exC.chunks.length ≤ (volOf exD3 exImg3).free ∧ extentsNeeded exC (putMaxX exD3 exC) (putSpe exD3) ≤ numFreeExtents (dirOf exD3 exImg3) := by
  decide +kernel

/-- a CP/M 3 history: put `a.txt`, set it read-only, give it a password, a refused delete and a refused rename of it, `unprotect`,
a second `unprotect` (refused: no password entry left), `retype` to `sys` -/
def exOps3 : List Op :=
  [.put exA [0, 0, 0, 0], .lock [65, 46, 84, 88, 84], .protect [97, 46, 116, 120, 116] [80, 87] true false true,
   .delete [65, 46, 84, 88, 84], .rename [65, 46, 84, 88, 84] [67], .unprotect [65, 46, 84, 88, 84], .unprotect [65, 46, 84, 88, 84],
   .retype [65, 46, 84, 88, 84] [115, 121, 115]]

theorem exGood3 : DpbGood exD3 := ⟨by decide +kernel, by decide⟩

set_option maxRecDepth 100000 in
theorem exImg3_inv : Inv exD3 exImg3 := invB_sound (by decide +kernel)

theorem exOps3_ok : ∀ op ∈ exOps3, op.Ok exD3 := by decide +kernel

set_option maxRecDepth 100000 in
/-- what the concrete model answers on the CP/M 3 history -/
example : (trace exD3 exImg3 exOps3).map (·.ok) = [true, true, true, false, false, true, false, true] := by decide +kernel

/-- no successful `unlock` of `q` in a trace, as a computation -/
def noUnlockB (q : Bytes) (tr : List Step) : Bool :=
  tr.all (fun s => !s.ok || match s.op with
    | .unlock p => p != q
    | _ => true)

theorem noUnlockB_spec {q : Bytes} {tr : List Step} (h : noUnlockB q tr = true) : ∀ s ∈ tr, s.ok = true → s.op ≠ .unlock q := by
  intro s hs hok e
  unfold noUnlockB at h
  rw [List.all_eq_true] at h
  have := h s hs
  rw [hok, e] at this
  simp at this

set_option maxRecDepth 100000 in
/-- non-vacuity of `cpm_readonly_survives` (and of `protect_step`, `unprotect_step` inside `history_refines`): after put and lock the
file `A.TXT` is read-only; the rest of the history (protect, refused delete and rename, unprotect, retype) leaves it read-only -/
example : ∃ g, (volOf exD3 (finalRaw exD3 (finalRaw exD3 exImg3 (exOps3.take 2)) (exOps3.drop 2))).lookup [65, 46, 84, 88, 84] = some g ∧
    g.locked = true := by
  have hok2 : ∀ op ∈ exOps3.take 2, op.Ok exD3 := by decide +kernel
  have hok3 : ∀ op ∈ exOps3.drop 2, op.Ok exD3 := by decide +kernel
  have hinv := (history_refines exGood3 (exOps3.take 2) exImg3_inv hok2).2.1
  have hsome : ((volOf exD3 (finalRaw exD3 exImg3 (exOps3.take 2))).lookup [65, 46, 84, 88, 84]).map (·.locked) = some true := by
    decide +kernel
  cases hf : (volOf exD3 (finalRaw exD3 exImg3 (exOps3.take 2))).lookup [65, 46, 84, 88, 84] with
  | none => rw [hf] at hsome; cases hsome
  | some f =>
    rw [hf] at hsome
    have hl : f.locked = true := by simpa using hsome
    obtain ⟨⟨g, a1, a2, _⟩, _⟩ := cpm_readonly_survives exGood3 (exOps3.drop 2) hinv hok3 hf hl
      (noUnlockB_spec (by decide +kernel))
    exact ⟨g, a1, a2⟩

set_option maxRecDepth 100000 in
/-- non-vacuity of `cpm_get_is_reading`: on the example image `get a.txt` returns the file the reader lists as `A.TXT` -/
example : ((volOf exD exImg).lookup (canon [97, 46, 116, 120, 116])).isSome = true ∧
    ∀ f, (volOf exD exImg).lookup (canon [97, 46, 116, 120, 116]) = some f →
      ∃ g, Fs.Cpm.get exD exImg [97, 46, 116, 120, 116] false = .ok g ∧ g.chunks = f.chunks ∧ g.eof = f.eof % 4294967296 :=
  ⟨by decide +kernel, fun _ hf => cpm_get_is_reading exImg_inv (by decide) (by decide +kernel) (by decide +kernel) hf
    (Or.inr (by decide +kernel))⟩

set_option maxRecDepth 100000 in
/-- non-vacuity of `cpm_get_after_put`: `c.dat` (sparse) stored on the example image is fetched again -/
example : ∃ g, Fs.Cpm.get exD (Fs.Cpm.put exD exImg exC [0, 0, 0, 0]).2 exC.fullPath false = .ok g ∧
    chunksMatch (putChunks exC) g.chunks = true ∧ g.eof = (cpmParams exD).eofRule exC.eof % 4294967296 :=
  cpm_get_after_put exImg_inv exGood (by decide +kernel)
    (Prod.ext (by
      have : okB (Fs.Cpm.put exD exImg exC [0, 0, 0, 0]).1 = true := by decide +kernel
      revert this
      cases (Fs.Cpm.put exD exImg exC [0, 0, 0, 0]).1 with
      | ok u => intro _; rfl
      | error e => intro h; cases h) rfl)
    (by decide +kernel)

set_option maxRecDepth 100000 in
/-- non-vacuity of `cpm_catalog_is_reading`: the catalog of the example image (files in user areas 0 and 3) succeeds -/
example : ∃ rows, Fs.Cpm.catalog exD exImg = .ok rows ∧ (rows.map rowPath).Perm (volOf exD exImg).paths := by
  have hok : okB (Fs.Cpm.catalog exD exImg) = true := by decide +kernel
  cases hc : Fs.Cpm.catalog exD exImg with
  | error e => rw [hc] at hok; cases hok
  | ok rows => exact ⟨rows, rfl, (cpm_catalog_is_reading exImg_inv hc).1⟩

/-- `a.txt` with the interface attribute F5 set in `access` -/
def exF5 : FImg := { exC with access := [32, 32, 32, 32, 160, 32, 32, 32, 32, 32, 32] }

set_option maxRecDepth 100000 in
/-- **the defect `proposed_fixes/cpm-put-interface-flags.diff` repairs, on the model as written** (`guardIface := false`): `put` of an
image that sets F5 is accepted on the example volume, and afterwards a2kit's own `build_files` rejects the directory — so `get` of
the bystander `A.TXT`, which worked before, fails, and so does `catalog` (C01, C02 violated; the hypothesis `hb` of
`cpm_fits_is_accepted` is not preserved by `put`) -/
example : okB (Fs.Cpm.put exD exImg exF5 [0, 0, 0, 0]).1 = true ∧
    okB (Fs.Cpm.get exD exImg [65, 46, 84, 88, 84]) = true ∧
    okB (Fs.Cpm.get exD (Fs.Cpm.put exD exImg exF5 [0, 0, 0, 0]).2 [65, 46, 84, 88, 84]) = false ∧
    okB (Fs.Cpm.catalog exD (Fs.Cpm.put exD exImg exF5 [0, 0, 0, 0]).2) = false := by decide +kernel

/-- the result is this error -/
def errIs {α : Type} (x : R α) (e : Err) : Bool := match x with
  | .error e' => decide (e' = e)
  | .ok _ => false

set_option maxRecDepth 100000 in
/-- the repaired variant (`guardIface := true`) refuses that image and leaves the volume as it was -/
example : errIs (Fs.Cpm.put exD exImg { exF5 with guardIface := true } [0, 0, 0, 0]).1 .badFormat = true ∧
    okB (Fs.Cpm.get exD (Fs.Cpm.put exD exImg { exF5 with guardIface := true } [0, 0, 0, 0]).2 [65, 46, 84, 88, 84]) = true := by
  decide +kernel

set_option maxRecDepth 100000 in
example : okB (Fs.Cpm.put exD (Fs.Cpm.format exD exBlank [] none).2 exA [0, 0, 0, 0]).1 = true := by decide +kernel

end A2Verif.FsCpm
