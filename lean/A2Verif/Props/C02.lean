import A2Verif.Lemmas.VolSpec
/-!
# C02 — operations on one file never disturb another

The harness checks `stepOk` on the real code after every operation (successful or refused) of the
generated histories.  Here: what that per-step condition implies for every other file, for one step
and for histories of any length.
-/
namespace A2Verif.C02

/-- C02, one step ("whatever operation is applied to one path … a failed attempt at any of these, every
other file still reads back byte-for-byte and with the same metadata"): a FILE record under a path the
operation does not name — content `chunks`, `eof`, type, aux, access, lock flag and the owned blocks —
is identical in the reading after the step, whether the operation succeeded or was refused. -/
theorem frame_step {P : FsParams} {pre post : Vol} {op : FsOp} {ok : Bool} {q : Bytes} {f : FileRec}
    (h : stepOk P pre op ok post = true) (hq : q ∉ op.targets)
    (hf : pre.lookup q = some f) (hd : f.isDir = false) :
    post.lookup q = some f :=
  stepOk_bystander_lookup h hq hf hd

/-- C02, one step, directories as bystanders ("directory growth …"): a directory the operation does not
name is still a directory under the same path and still owns every block it owned (it may have grown). -/
theorem frame_step_dir {P : FsParams} {pre post : Vol} {op : FsOp} {ok : Bool} {q : Bytes} {d : FileRec}
    (h : stepOk P pre op ok post = true) (hq : q ∉ op.targets)
    (hf : pre.lookup q = some d) (hd : d.isDir = true) :
    ∃ d', post.lookup q = some d' ∧ d'.isDir = true ∧ ∀ u ∈ d.owned, u ∈ d'.owned := by
  have key : ∀ {a b : List FileRec}, sameFiles a b = true → a.find? (·.path == q) = some d →
      ∃ d', b.find? (·.path == q) = some d' ∧ d'.isDir = true ∧ ∀ u ∈ d.owned, u ∈ d'.owned := by
    intro a b hs ha
    obtain ⟨hm, hp⟩ := find_path_some ha
    obtain ⟨g, hg, hsr⟩ := (sameFiles_iff.1 hs).1 d hm
    rw [hp] at hg
    unfold sameRec at hsr
    rw [hd] at hsr
    simp only [if_true, Bool.and_eq_true, List.all_eq_true, List.contains_eq_mem, decide_eq_true_eq] at hsr
    exact ⟨g, hg, hsr.1.1, hsr.2⟩
  unfold Vol.lookup at hf ⊢
  rcases stepOk_frame h with hs | hs | hs | hs
  · have := key hs (by rw [without_find hq]; exact hf)
    rwa [without_find hq] at this
  · have := key hs hf
    rwa [without_find hq] at this
  · exact key hs (by rw [without_find hq]; exact hf)
  · exact key hs hf

/-- C02, one step, second sentence ("… never redirect a write into blocks owned by another file"): the
units of a newly stored file were free before, hence — the previous reading being well-formed — belonged
to no file and to no system structure. -/
theorem new_file_takes_no_owned_block {P : FsParams} {pre post : Vol} {p : Bytes} {cs : List (Nat × Bytes)}
    {eof ty aux : Nat} (hw : pre.wfB = true)
    (h : stepOk P pre (.put p cs eof ty aux) true post = true) :
    ∃ f, post.lookup p = some f ∧ ∀ u ∈ f.owned, u ∉ pre.allOwned ∧ u ∉ pre.sys := by
  obtain ⟨_, ⟨f, hf, _, _, _, _, _, hfree⟩, _⟩ := stepOk_put h
  obtain ⟨_, _, h3, h4, _⟩ := wfB_iff.1 hw
  exact ⟨f, hf, fun u hu => ⟨fun ho => h3 u ho (hfree u hu), fun hs => h4 u hs (hfree u hu)⟩⟩

/-- C02 over histories of any length: a file present at the start, under a path that no operation of the
history names (successful or refused, in any interleaving), is identical in the reading after the last
step. -/
theorem bystanders_survive_history {P : FsParams} {v0 : Vol} {tr : List Step} {q : Bytes} {f : FileRec}
    (hv : validFrom P v0 tr) (hq : ∀ s ∈ tr, q ∉ s.op.targets)
    (hf : v0.lookup q = some f) (hd : f.isDir = false) :
    (finalVol v0 tr).lookup q = some f :=
  history_induction_mem (fun v => v.lookup q = some f) tr
    (fun s hs _ hstep hpre => frame_step hstep (hq s hs) hpre hd) v0 hv hf

/-- C02 over histories, "for every other file present at each step": the file is identical in the reading
after EVERY step of the history, not only the last. -/
theorem bystanders_survive_every_step {P : FsParams} {v0 : Vol} {tr : List Step} {q : Bytes} {f : FileRec}
    (hv : validFrom P v0 tr) (hq : ∀ s ∈ tr, q ∉ s.op.targets)
    (hf : v0.lookup q = some f) (hd : f.isDir = false) :
    ∀ s ∈ tr, s.post.lookup q = some f := by
  induction tr generalizing v0 with
  | nil => intro s hs; cases hs
  | cons t rest ih =>
    have ht := frame_step hv.1 (hq t List.mem_cons_self) hf hd
    intro s hs
    rcases List.mem_cons.1 hs with rfl | hm
    · exact ht
    · exact ih hv.2 (fun s hs => hq s (List.mem_cons_of_mem _ hs)) ht s hm

open VolExample in
/-- non-vacuity: in the example history nothing names `A` between the start and the lock, and nothing
names `C` after the rename; `frame_step` applies to the successful `put B` and to the refused put. -/
example : v1.lookup [65] = some fA :=
  frame_step (P := P0) (pre := v0) (op := putB.op) (ok := true) (by decide) (by decide) (by decide) rfl

open VolExample in
example : (finalVol v3 [unlockA, delA]).lookup [67] = some fC :=
  bystanders_survive_history (P := P0) (by decide) (by decide) (by decide) rfl

end A2Verif.C02
