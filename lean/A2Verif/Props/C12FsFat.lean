import A2Verif.Lemmas.C12FsFatWalk
import A2Verif.Gen.C12FsFlags
/-!
# C12 — the FAT read paths on arbitrary images (`/repo/src/fs/fat/mod.rs`, `directory.rs`, `bios/{bpb,fat}.rs`)

Theorems over the byte-exact, code-shaped, panic-explicit concrete model `Model/Fs/Fat.lean` (+ `C12FsId.Fat`: identification,
mount, the repaired `get`).  An image is any `Raw` whose units have 512 bytes (what `Img::read_sector` delivers); NOTHING is assumed
about the contents of any sector.  `Good d` is what identification + `from_img` establish.  FAT12 and FAT16; FAT32 and stored names
with a byte ≥ 128 are outside the model (`Err.unmodelled`, never `panic`; guards stated below).

Two read paths CAN panic on an identified image (defects F2, F3 of `design/C12Fs.md`, both confirmed on the real code):
* F3: the BPB's `bytes_per_sec` differs from the sector size of the image — guard `bps = 512` in `Good`, established by the repaired
  `verify` (`szFixed = true`), a hypothesis for the code as written;
* F2: `get` of a path whose last node contains `*` or `?` — `getV true` (repaired) has no guard, `Fs.Fat.get` = `getV false` has the
  guard "`goto_path` does not answer with the wildcard `FileInfo`".
-/
namespace A2Verif.C12FsFat
open A2Verif.Fs.Fat A2Verif.C12FsId A2Verif.C12FsId.Fat

/-! ## identification and mount -/

/-- C12, FAT identification: a boot sector accepted by `BootSector::verify` (either variant) has a foundation on which none of the
`u64` subtractions and divisions of `bpb.rs` panics (`Bpb.ok`: `sec_per_clus ≠ 0`, data region not negative, the FAT holds two
entries), has ≥ 1 reserved sector, ≥ 1 FAT of ≥ 1 sector and `bytes_per_sec ∈ {512,…,4096}`; the repaired variant also ties
`bytes_per_sec` to the length of the sector read. -/
theorem fat_verify_establishes_ok (fx : Bool) (sec : Bytes) (h : verify fx sec = true) :
    (Bpb.ofBoot sec).ok = true ∧ 512 ≤ (Bpb.ofBoot sec).bps ∧ (Bpb.ofBoot sec).fatSecs ≠ 0 ∧
      (fx = true → (Bpb.ofBoot sec).bps = sec.length) := by
  unfold verify at h
  split at h
  · cases h
  · simp only [Bool.and_eq_true, Bool.or_eq_true, Bool.not_eq_true', bne_iff_ne, ne_eq, decide_eq_false_iff_not, Nat.not_le,
      beq_iff_eq] at h
    obtain ⟨⟨⟨⟨_, hfv⟩, hsz⟩, hfs⟩, hdata⟩ := h
    unfold foundationVerify at hfv
    simp only [Bool.and_eq_true, List.contains_eq_mem, List.mem_cons, List.not_mem_nil, or_false, decide_eq_true_eq,
      bne_iff_ne, ne_eq] at hfv
    obtain ⟨⟨⟨⟨⟨hbps, hspc⟩, _⟩, _⟩, _⟩, _⟩ := hfv
    have hb : 512 ≤ (Bpb.ofBoot sec).bps := by omega
    have hs : (Bpb.ofBoot sec).spc ≠ 0 := by omega
    refine ⟨?_, hb, hfs, ?_⟩
    · unfold Bpb.ok
      simp only [Bool.and_eq_true, decide_eq_true_eq]
      refine ⟨⟨hs, ?_⟩, ?_⟩
      · unfold Bpb.firstDataSec; omega
      · have h32 : (Bpb.ofBoot sec).fatType ≤ 32 := by
          unfold Bpb.fatType; split
          · omega
          · split <;> omega
        have hpos : 0 < (Bpb.ofBoot sec).fatType := by
          unfold Bpb.fatType; split
          · omega
          · split <;> omega
        have h1 : 1 ≤ (Bpb.ofBoot sec).fatSecs := by omega
        have : 64 * (Bpb.ofBoot sec).fatType ≤ (Bpb.ofBoot sec).fatSecs * (Bpb.ofBoot sec).secSize * 8 := by
          have : 512 ≤ (Bpb.ofBoot sec).fatSecs * (Bpb.ofBoot sec).secSize := by
            calc 512 ≤ (Bpb.ofBoot sec).secSize := hb
              _ = 1 * (Bpb.ofBoot sec).secSize := (Nat.one_mul _).symm
              _ ≤ (Bpb.ofBoot sec).fatSecs * (Bpb.ofBoot sec).secSize := Nat.mul_le_mul_right _ h1
          omega
        have := (Nat.le_div_iff_mul_le hpos).mpr this
        show 2 ≤ _
        omega
    · intro hfx
      subst hfx
      simpa using hsz

/-- C12, FAT mount after identification: for EVERY image of 512-byte sectors that `test_img` accepts, `from_img` does not panic (it
mounts); with the repaired `verify` — or, as written, if the BPB says 512 bytes per sector — and FAT12/16 the mounted state is
`Good`, the hypothesis of every read-path theorem below.  (`replFor`: 160K / 180K images get the tabulated foundation.) -/
theorem fat_identified_mounts_good (fx lf : Bool) (r : Raw) (hu : Units512 r) (hid : testImg fx r = true)
    (hbps : fx = true ∨ ∀ b, r.units[0]? = some b → (Bpb.ofBoot b).bps = 512) :
    ∃ d, mount lf (replFor r) r = .ok d ∧ d.raw = r ∧ d.fat = none ∧ (d.bpb.fatType ≠ 32 → Good d) := by
  unfold testImg at hid
  cases h0 : r.units[0]? with
  | none => rw [h0] at hid; cases hid
  | some b =>
    rw [h0] at hid
    simp only [] at hid
    obtain ⟨hok, hb512, _, hsz⟩ := fat_verify_establishes_ok fx b hid
    have hlen : b.length = 512 := hu 0 b h0
    have hbps' : (Bpb.ofBoot b).bps = 512 := by
      cases hbps with
      | inl h => rw [hsz h, hlen]
      | inr h => exact h b h0
    have hok' := hok
    unfold Bpb.ok at hok'
    simp only [Bool.and_eq_true, decide_eq_true_eq] at hok'
    have hrepl : ∀ bp, replFor r = some bp → bp.ok = true ∧ bp.bps = 512 := by
      intro bp hbp
      unfold replFor at hbp
      split at hbp
      · cases hbp; exact ⟨by decide, rfl⟩
      · split at hbp
        · cases hbp; exact ⟨by decide, rfl⟩
        · cases hbp
    have hfin : ((replFor r).getD (Bpb.ofBoot b)).ok = true ∧ ((replFor r).getD (Bpb.ofBoot b)).bps = 512 := by
      cases hr : replFor r with
      | none => exact ⟨hok, hbps'⟩
      | some bp => exact hrepl bp hr
    have hfin' := hfin.1
    unfold Bpb.ok at hfin'
    simp only [Bool.and_eq_true, decide_eq_true_eq] at hfin'
    refine ⟨Disk.ofImg r ((replFor r).getD (Bpb.ofBoot b)) lf, ?_, rfl, rfl, ?_⟩
    · unfold mount
      rw [h0]
      simp only []
      rw [if_neg (by omega), if_neg (by omega), if_neg (by omega)]
    · intro h32
      exact ⟨hfin.1, hfin.2, rfl, h32, hu, fun f hf => by cases hf⟩

/-- `from_img` WITHOUT identification can panic (model-true; guard = `test_img`, which `lib.rs::try_img` always runs first): a boot
sector with `sec_per_clus = 0` divides by zero in `fat_type()`.  The same sector is not identified. -/
def zeroSpcBoot : Bytes :=
  [0xEB, 0x3C, 0x90] ++ List.replicate 8 0x20 ++ [0x00, 0x02, 0x00, 0x01, 0x00, 0x02, 0x70, 0x00, 0xD0, 0x02, 0xFD, 0x02, 0x00]
  ++ List.replicate 486 0 ++ [0x55, 0xAA]

example : cls (mount false none { unitLen := 512, units := #[zeroSpcBoot] }) = .panic ∧
    testImg false { unitLen := 512, units := #[zeroSpcBoot] } = false := by decide +kernel

/-! ## the read-only queries -/

/-- **C12, FAT read paths.**  For EVERY good state (any sector contents, any number of sectors, FAT12 or FAT16, FAT buffer open or
not): `stat` (root directory + free count over all usable clusters), `catalog_to_vec` of ANY path (root, sub-directory, through
sub-directories of any depth, missing, malformed), and `get` of ANY path with the repaired wildcard refusal do not panic; the
code as written (`Fs.Fat.get`) does not panic on any path for which `goto_path` does not answer with the wildcard `FileInfo`.
This covers `get_root_dir`, `build_files` (long-name parts, bad names, duplicates), `goto_path`, `get_directory`, the cluster-chain
walk with its cap, `open_fat_buffer` with `fat::repair` against every backup copy, `read_block`, `dir.get_entry(finfo.idx)`.
A result `Err.unmodelled` (stored name byte ≥ 128) means the model does not follow the Rust further; it is not a panic. -/
theorem fat_reads_no_panic (d : Disk) (g : Good d) :
    (statFree d).1 ≠ .error .panic ∧
    (∀ path, (catalog path d).1 ≠ .error .panic) ∧
    (∀ path, (getV true path d).1 ≠ .error .panic) ∧
    (∀ path, (∀ p fi d', gotoPath path d = (.ok (p, fi), d') → fi.wildcard = false) → (getV false path d).1 ≠ .error .panic) := by
  refine ⟨(statFree_safe g).2.1, fun path => (catalog_safe g path).2.1, fun path => ?_, fun path hw => (get_safe g path hw).2.1⟩
  unfold getV
  simp only [if_true]
  have hs := (gotoPath_safe g path).2.1
  cases hr : gotoPath path d with
  | mk res d' =>
    rw [hr] at hs
    cases res with
    | error e => simp only []; intro hh; apply hs; cases hh; rfl
    | ok pf =>
      obtain ⟨p, fi⟩ := pf
      simp only []
      split
      · intro hh; cases hh
      · rename_i hwf
        apply (get_safe g path ?_).2.1
        intro p' fi' d'' hrun
        rw [hr] at hrun
        cases hrun
        cases hf : fi.wildcard
        · rfl
        · exact absurd hf hwf

/-- the read paths change the state in one way only: the FAT buffer is opened (never the image, never the BPB), and an opened
buffer has `fat_secs · 512` bytes — so every later query runs from a good state again (the harness runs them in sequence) -/
theorem fat_reads_keep_good (d : Disk) (g : Good d) :
    Good (statFree d).2 ∧ (∀ path, Good (catalog path d).2 ∧ (catalog path d).2.raw = d.raw) ∧
      (∀ path, (∀ p fi d', gotoPath path d = (.ok (p, fi), d') → fi.wildcard = false) → Good (Fs.Fat.get path d).2) :=
  ⟨good_ext g (statFree_safe g).1,
   fun path => ⟨good_ext g (catalog_safe g path).1, (Ext.same g (catalog_safe g path).1).1⟩,
   fun path hw => good_ext g (get_safe g path hw).1⟩

/-- `getV false` is the concrete model's `get` -/
theorem fat_get_asWritten : getV false = Fs.Fat.get := rfl

/-! ## bounded work -/

/-- **C12, bounded time, cluster chains.**  `get_cluster_chain_data` (every file fetch and every sub-directory read) makes at most
`cluster_count_usable` iterations (the model's fuel IS the Rust's `for _i in 0..max_clusters`); what it returns has at most that
many blocks, whatever the FAT says (cycles, back links, reserved values).  The free count and `fat::repair` are structural
recursions over the `cluster_count_usable` entries; the root directory read over `root_dir_secs ≤ 65535` sectors. -/
theorem fat_chain_walk_bounded (d : Disk) (g : Good d) (c : Nat) (buf : Bytes) (d' : Disk)
    (h : getClusterChainData c d = (.ok buf, d')) : buf.length ≤ d.bpb.clusterCountUsable * d.bpb.blockSize := by
  have := (getClusterChainData_safe g c).2.2 buf (by rw [h])
  exact this

/-- a cluster linked to itself ends the walk with `BadFAT` when the cap is used up — for every cap (proved by induction on the
cap, nothing is evaluated) -/
theorem fat_chain_selfloop_is_error (d : Disk) (c : Nat) (data : Bytes) (hin : clusInRng d.bpb c = true)
    (hrb : readBlock c d = (.ok data, d)) (hnc : nextCluster c d = (.ok (some c), d)) :
    getClusterChainData c d = (.error .badFAT, d) := by
  have h2 := (clusInRng_lt hin).1
  unfold getClusterChainData
  rw [if_neg (by omega)]
  simp only [bind_apply, M.get, hin, Bool.not_true, Bool.false_eq_true, ↓reduceIte]
  exact chainDataLoop_selfloop hin hrb hnc _

/-- **C12, FAT `tree` and `glob`** (the recursive walks `tree_node(include_meta = true)` and `glob_node` over the concrete model:
`build_files` of each directory, `get_directory` of each sub-directory entry, `get_cluster_chain_length` of each entry): for EVERY
good state — directory cycles, DAGs, sub-directory entries pointing anywhere — no panic, with or without the visit budget; with the
budget (c9d6197) a walk that returns has entered at most `cluster_count_usable + 1` directories.  Bounded time: the recursion is on
the nesting cap (65 / 64 levels), each level a structural recursion over the entries `build_files` returned, each chain walk on its
cap; without the budget the number of directories entered is bounded only by (entries per directory)^depth (defect F1). -/
theorem fat_tree_glob_no_panic (d : Disk) (g : Good d) (budget : Bool) :
    (treeV budget d).1 ≠ .error .panic ∧ (globV budget d).1 ≠ .error .panic ∧
    (∀ v, (treeV true d).1 = .ok v → v ≤ d.bpb.clusterCountUsable + 1) ∧
    (∀ v, (globV true d).1 = .ok v → v ≤ d.bpb.clusterCountUsable + 1) :=
  ⟨(treeV_safe g budget).2.1, (globV_safe g budget).2.1,
   fun v h => (treeV_safe g true).2.2 v h rfl, fun v h => (globV_safe g true).2.2 v h rfl⟩

/-- the same for the source as it is now: the budget is in both walks and both nesting-cap branches return `Err` at depth 64
(`Gen.C12FsFlags`, regenerated from `fs/fat/mod.rs` on every run; does not check when one of them disappears) -/
theorem fat_tree_glob_no_panic_now (d : Disk) (g : Good d) :
    (treeV Gen.C12FsFlags.fatVisitBudget d).1 ≠ .error .panic ∧ (globV Gen.C12FsFlags.fatVisitBudget d).1 ≠ .error .panic ∧
    (∀ v, (treeV Gen.C12FsFlags.fatVisitBudget d).1 = .ok v → v ≤ d.bpb.clusterCountUsable + 1) := by
  have hb : Gen.C12FsFlags.fatVisitBudget = true := by decide
  have hc : Gen.C12FsFlags.fatTreeCapErr = true ∧ Gen.C12FsFlags.fatGlobCapErr = true ∧ Gen.C12FsFlags.fatMaxDirectoryDepth = 64 := by decide
  rw [hb]
  exact ⟨(fat_tree_glob_no_panic d g true).1, (fat_tree_glob_no_panic d g true).2.1, (fat_tree_glob_no_panic d g true).2.2.1⟩

/-! ## `build_files` -/

/-- C12, `Directory::build_files` on ANY list of directory entries (any bytes; both variants of the label handling): no panic —
long-name parts are entries like any other, the fourth bad name is `Syntax`, a repeated key `DuplicateFile` —; every `FileInfo`
has an entry index inside the directory, a first cluster, and is no wildcard; `unmodelled` only for a name byte ≥ 128. -/
theorem fat_buildFiles_total (lf : Bool) (dir : Directory) :
    buildFiles lf dir ≠ .error .panic ∧
    (∀ r, buildFiles lf dir = .ok r → ∀ kv ∈ r, kv.2.idx < dir.length ∧ kv.2.cluster1.isSome = true ∧ kv.2.wildcard = false) ∧
    (buildFiles lf dir = .error .unmodelled → ∃ e ∈ dir, (e.take 11).any (fun c => c ≥ 128) = true) := by
  obtain ⟨h1, h2⟩ := buildFiles_spec lf dir
  exact ⟨h1, fun r hr kv hkv => ⟨(h2 r hr kv hkv).2.1, (h2 r hr kv hkv).2.2, (h2 r hr kv hkv).1⟩,
    fun h => buildLoop_unmodelled lf dir 0 0 [] h⟩

/-! ## non-vacuity and witnesses -/

/-- boot sector of a 360K volume (512 bytes/sector, 2 sectors/cluster, 1 reserved, 2 FATs of 2 sectors, 112 root entries, 720
sectors, 9 sectors/track, 2 heads) -/
def exBoot : Bytes :=
  [0xEB, 0x3C, 0x90] ++ List.replicate 8 0x20 ++
  [0x00, 0x02, 0x02, 0x01, 0x00, 0x02, 0x70, 0x00, 0xD0, 0x02, 0xFD, 0x02, 0x00, 0x09, 0x00, 0x02, 0x00]
  ++ List.replicate 482 0 ++ [0x55, 0xAA]

/-- the first two tracks of such a volume, everything behind the boot sector zero (empty root directory) -/
def exRaw : Raw := { unitLen := 512, units := #[exBoot] ++ Array.replicate 17 (List.replicate 512 0) }

theorem exRaw_all : ∀ i : Fin 18, (exRaw.units[i.val]?).map List.length = some 512 := by decide +kernel

theorem exRaw_units : Units512 exRaw := by
  intro i b h
  by_cases hi : i < 18
  · have := exRaw_all ⟨i, hi⟩
    rw [h] at this
    simpa using this
  · have hs : exRaw.units.size = 18 := by decide +kernel
    have : exRaw.units[i]? = none := Array.getElem?_eq_none (by omega)
    rw [this] at h
    cases h

example : testImg true exRaw = true ∧ testImg false exRaw = true := by decide +kernel

def exDisk : Disk := Disk.ofImg exRaw (Bpb.ofBoot exBoot) false

/-- the mounted example is `Good`: the hypotheses of the theorems above are satisfiable -/
theorem exDisk_good : Good exDisk ∧ cls (mount false (replFor exRaw) exRaw) = .ok :=
  ⟨⟨by decide +kernel, by decide +kernel, rfl, by decide +kernel, exRaw_units, fun f hf => by cases hf⟩, by decide +kernel⟩

/-- the hypotheses of `fat_identified_mounts_good` are satisfiable -/
example : ∃ d, mount false (replFor exRaw) exRaw = .ok d ∧ d.raw = exRaw := by
  obtain ⟨d, h1, h2, _, _⟩ := fat_identified_mounts_good true false exRaw exRaw_units (by decide +kernel) (Or.inl rfl)
  exact ⟨d, h1, h2⟩

/-- defect F2, witness: on a healthy (empty) volume `get("A*")` panics as written (`finfo.cluster1.unwrap()` on the wildcard
`FileInfo`); repaired: `Syntax`.  `stat` and `catalog("/")` run (the example image ends before the data region). -/
example : cls (getV false [65, 42] exDisk).1 = .panic ∧ cls (getV true [65, 42] exDisk).1 = .err ∧
    cls (catalog [47] exDisk).1 = .ok ∧ cls (getV false [65] exDisk).1 = .err ∧
    cls (treeV true exDisk).1 = .ok ∧ cls (globV false exDisk).1 = .ok := by decide +kernel

/-- defect F3, witness: the same boot sector with `bytes_per_sec = 1024` and 224 root entries on the 512-byte image: accepted by
`verify` as written, refused by the repaired one -/
def exBoot1024 : Bytes := (exBoot.set 12 4).set 17 224

example : verify false exBoot1024 = true ∧ verify true exBoot1024 = false := by decide +kernel

end A2Verif.C12FsFat
