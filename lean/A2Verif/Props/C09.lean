import A2Verif.Lemmas.C09Imd
import A2Verif.Lemmas.C09Td0
import A2Verif.Lemmas.C09Dot2mg
import A2Verif.Lemmas.C09Woz
import A2Verif.Lemmas.C09Meta
import A2Verif.Props.C09Img
/-!
# Property C09 — image encode/decode is stable and self-identifying

Theorems about the executable models `Model.C09Imd`, `Model.C09Td0`, `Model.C09Crc`,
`Model.C09Dot2mg`, `Model.C09Woz` (hand transcriptions of src/img/{imd,td0,woz,woz1,woz2,dot2mg}.rs, tied to
the real code by the correspondence harness `harness/src/fam/c09.rs`) and about the GENERATED tables
`Gen.Woz.CRC32_TAB`, `Gen.Td0.*`, `Gen.C09Const.*` (re-extracted from the working tree on every run).
-/
namespace A2Verif.C09
open A2Verif.Model

/-! ## IMD: per-sector run compression -/
section imd
open A2Verif.Model.C09Imd A2Verif.Lemmas.C09Imd

/-- **C09, IMD clause** (*"serialising … and parsing the bytes back gives … identical sector contents"*).
For every sector size `128·2^shift` and every list of well-formed expanded sector records (code 0
without data, or code 1/3/5/7 followed by exactly one sector of arbitrary bytes) `Track::compress`
succeeds (no panic) and `Track::expand` of its result is the original track buffer.  The loop bound
`sectors` is the number of records, as in every track a2kit holds in memory. -/
theorem imd_expand_compress (shift : Nat) (secs : List Sec) (h : ∀ s ∈ secs, s.wf shift) :
    (compressGo shift secs.length (flatten secs)).bind (expandGo shift secs.length) = some (flatten secs) := by
  rw [compressGo_flatten shift secs h]
  exact expandGo_compressed shift secs h

/-- the same on the `Track` structure: all other fields are carried through unchanged -/
theorem imd_track_expand_compress (t : Track) (secs : List Sec) (h : ∀ s ∈ secs, s.wf t.shift)
    (hb : t.buf = flatten secs) (hn : t.sectors = secs.length) :
    t.compress.bind Track.expand = some t := by
  have h1 := compressGo_flatten t.shift secs h
  have h2 := expandGo_compressed t.shift secs h
  simp only [Track.compress, hb, hn, h1, Option.map, Option.bind, Track.expand, h2]
  cases t
  simp_all

/-- **C09, fixpoint clause for IMD** (*"serialising again gives identical bytes"*): compressing the
re-expanded track gives the same compressed bytes again. -/
theorem imd_compress_stable (shift : Nat) (secs : List Sec) (h : ∀ s ∈ secs, s.wf shift) :
    ((compressGo shift secs.length (flatten secs)).bind (expandGo shift secs.length)).bind
        (compressGo shift secs.length) = compressGo shift secs.length (flatten secs) := by
  rw [imd_expand_compress shift secs h]
  rfl

/-- a 128-byte-sector track with a uniform sector (compressed to 2 bytes), a no-data record and a
non-uniform sector -/
def exSecs : List Sec := [⟨1, List.replicate 128 0xE5⟩, ⟨0, []⟩, ⟨3, List.range 128⟩]

/-- non-vacuity -/
example : (∀ s ∈ exSecs, s.wf 0) ∧
    (compressGo 0 3 (flatten exSecs)).map List.length = some (2 + 1 + 129) := by
  decide +kernel

/-- **C09, IMD container clause** (*"serialising any image … and parsing the bytes back gives an image of the
same type with the same geometry …, identical sector contents and metadata"*).  For every IMD image
as a2kit holds it — 29-byte header with an accepted signature, a comment without the terminator byte
0x1A, at least one track, every track with maps of the lengths its flag bits announce and a buffer of
well-formed expanded sector records of its sector size (size code at most 6, as `from_bytes` demands; records of ANY mix of
types: unavailable, normal, deleted-data, data-error) — `to_bytes` does not panic and
`from_bytes` of the result returns exactly the same image: header, comment, every track header byte,
all maps and every sector record. -/
theorem imd_fromBytes_toBytes (x : Image) (h : ImageWf x) : (toBytes x).bind fromBytes = some (some x) :=
  A2Verif.Lemmas.C09Imd.imd_fromBytes_toBytes x h

/-- **C09, fixpoint clause for the IMD container**: serialising the re-parsed image gives identical bytes. -/
theorem imd_reserialize (x : Image) (h : ImageWf x) :
    ((toBytes x).bind fromBytes).bind (fun r => r.bind toBytes) = toBytes x := by
  rw [imd_fromBytes_toBytes x h]
  rfl

/-- a one-track image: sector 1 uniform (stored compressed), sector 2 not -/
def exImdSecs : List Sec := [⟨1, List.replicate 128 0xE5⟩, ⟨1, List.range 128⟩]
def exImdTrack : Track :=
  { mode := 5, cylinder := 0, head := 0, sectors := 2, shift := 0, sectorMap := [1, 2], cylMap := [],
    headMap := [], buf := flatten exImdSecs }
def exImdImg : Image where
  header := [73, 77, 68, 32, 49, 46, 49, 57, 58, 32, 48, 49, 45, 48, 49, 45, 50, 48, 48, 48, 32, 48, 48, 58, 48, 48, 58, 48, 48]
  comment := [104, 105]
  tracks := [exImdTrack]

/-- non-vacuity of `ImageWf` -/
example : ImageWf exImdImg := by
  refine ⟨by decide, by decide, by decide, by decide, ?_⟩
  intro t ht
  have : t = exImdTrack := by simpa [exImdImg] using ht
  subst this
  exact ⟨exImdSecs, ⟨by decide +kernel, by decide, rfl, by decide, by decide, by decide, by decide⟩⟩

/-- the executable model agrees on the example (134 bytes of track data become 3 + 129) -/
example : (toBytes exImdImg).map List.length = some (29 + 2 + 1 + 5 + 2 + 2 + 129) ∧
    (toBytes exImdImg).bind fromBytes = some (some exImdImg) := by decide +kernel

end imd

/-! ## TD0: sector codec and CRC-16 -/
section td0
open A2Verif.Model.C09Td0 A2Verif.Lemmas.C09Td0

/-- **C09, TD0 clause** (*"identical sector contents"*).  For every legal Teledisk sector size
(128, 256, …, 8192 bytes) and every content, `Sector::pack` succeeds and `Sector::unpack` of the
record it built returns exactly the content. -/
theorem td0_unpack_pack (shift : Nat) (hs : shift ≤ 6) (dat : List Nat) (hl : dat.length = secSize shift) :
    (pack shift dat).bind (unpack shift) = some dat :=
  unpack_pack shift hs dat hl

/-- non-vacuity: a uniform 256-byte sector is stored as the 7-byte `Repeated` record, a non-uniform one raw -/
example : pack 1 (List.replicate 256 0xE5) = some [5, 0, 1, 128, 0, 0xE5, 0xE5] ∧
    (pack 1 (List.range 256)).map List.length = some 259 := by decide +kernel

/-- `unpack` also decodes the run-length encoding that a2kit never writes but must read -/
example : unpack 0 ([0, 0, 2] ++ [1, 60, 7, 9] ++ [0, 8, 1, 2, 3, 4, 5, 6, 7, 8]) =
    some ((List.replicate 60 [7, 9]).flatten ++ [1, 2, 3, 4, 5, 6, 7, 8]) := by decide +kernel

/-- **C09, TD0 container clause** (*"serialising … and parsing the bytes back gives … the same geometry, identical sector
contents and metadata"*, normal layer).  For every TD0 image as a2kit holds it — 8 header bytes, optional
comment with a 6-byte time stamp whose notes are in the in-memory form (no NUL, no CR LF pair, at most 65535 bytes
once encoded), at least one track, tracks whose sector count byte equals the number of sector records and is not the end mark 0xFF,
sector records with a size code of at most 6 that are empty for no-data sectors (flags 0x10 / 0x20) and carry a correct
length word otherwise (any encoding, any other flags) — `from_bytes` of
what `to_bytes` wrote (before the external LZHUF stage) succeeds and returns the image itself with exactly the
fields `to_bytes` recomputes (`canon`): comment flag, header CRC, comment CRC and length, track and sector CRC
bytes.  In particular every header byte, the time stamp, the notes (LF ↔ NUL coding undone), every track and
sector header and every sector record come back unchanged. -/
theorem td0_fromBytes_toBytes (x : Image) (h : ImageWf x) : fromBytesNormal (toBytesNormal x) = some (canon x) :=
  A2Verif.Lemmas.C09Td0.td0_fromBytes_toBytes x h

/-- **C09, fixpoint clause for TD0**: the object after `to_bytes`, and the re-parsed image, serialise to the
same bytes again (for every image, well-formed or not). -/
theorem td0_reserialize (x : Image) : toBytesNormal (canon x) = toBytesNormal x :=
  td0_toBytes_canon x

theorem td0_reserialize_reparsed (x : Image) (h : ImageWf x) :
    (fromBytesNormal (toBytesNormal x)).map toBytesNormal = some (toBytesNormal x) := by
  rw [td0_fromBytes_toBytes x h]
  simp [td0_toBytes_canon]

/-- **C09, metadata clause for the TD0 notes**: notes without NUL and without CR LF pairs are read back
exactly after the LF → NUL coding of `to_bytes` and the NUL → LF, CR LF → LF decoding of `from_bytes`. -/
theorem td0_notes_roundtrip (t : List Nat) (h0 : ∀ b ∈ t, b ≠ 0) (hc : noCRLF t = true) :
    decodeText (encodeText t) = t := decode_encode t h0 hc

/-- what `Sector::pack` builds satisfies the record hypothesis of the container theorem -/
theorem td0_pack_wellformed (shift : Nat) (hs : shift ≤ 6) (dat rec : List Nat) (h : pack shift dat = some rec)
    (c hd i crc : Nat) :
    SectorWf { cyl := c, head := hd, id := i, shift := shift, flags := 0, crc := crc, data := rec } :=
  pack_sectorWf shift hs dat rec h c hd i crc

/-- a one-track image with a two-line comment, a uniform sector and a no-data sector -/
def exTd0 : Image where
  hdr := [0, 0, 0x15, 0, 1, 0, 0, 1]
  hcrc := [0, 0]
  comment := some { crc := [0, 0], len := [0, 0], stamp := [100, 0, 1, 0, 0, 0], text := [97, 10, 98] }
  tracks := [{ nsec := 2, cyl := 0, head := 0, crc := 0, sectors :=
    [{ cyl := 0, head := 0, id := 1, shift := 0, flags := 0, crc := 0, data := [5, 0, 1, 64, 0, 0xE5, 0xE5] },
     { cyl := 0, head := 0, id := 2, shift := 0, flags := 0x20, crc := 0, data := [] }] }]

/-- the executable model on the example: the comment flag is set, the newline is stored as NUL, the re-parse is `canon` -/
example : (toBytesNormal exTd0).take 2 = [84, 68] ∧ (toBytesNormal exTd0)[7]? = some 0x80 ∧
    ((toBytesNormal exTd0).drop 22).take 3 = [97, 0, 98] ∧
    fromBytesNormal (toBytesNormal exTd0) = some (canon exTd0) := by decide +kernel

/-- non-vacuity of the hypothesis of `td0_fromBytes_toBytes` -/
example : ImageWf exTd0 := by
  refine ⟨by decide, by decide, ?_, ?_⟩
  · intro t ht
    have : t = exTd0.tracks.head (by decide) := by simpa [exTd0] using ht
    subst this
    refine ⟨rfl, by decide, ?_⟩
    intro s hs
    simp only [exTd0, List.head_cons, List.mem_cons, List.not_mem_nil, or_false] at hs
    rcases hs with rfl | rfl
    · exact ⟨by decide, Or.inr ⟨by decide, 5, 0, [1, 64, 0, 0xE5, 0xE5], rfl, by decide⟩⟩
    · exact ⟨by decide, Or.inl ⟨by decide, rfl⟩⟩
  · intro c hc
    have : c = { crc := [0, 0], len := [0, 0], stamp := [100, 0, 1, 0, 0, 0], text := [97, 10, 98] } := by
      simpa [exTd0] using hc.symm
    subst this
    exact ⟨by decide, by decide, by decide, by decide⟩

/-- the constants of `td0::crc16` as found in the source now: polynomial 0xA097, MSB first, 8 bits per byte -/
theorem td0_crc16_params :
    A2Verif.Gen.Td0.CRC16_POLY = 0xA097 ∧ A2Verif.Gen.Td0.CRC16_TOPBIT = 0x8000 ∧
    A2Verif.Gen.Td0.CRC16_BITS = 8 := by decide

/-- check value of the Teledisk CRC (the image header of an empty `TD` 1.5 image) -/
example : C09Crc.crc16 0 [49, 50, 51, 52, 53, 54, 55, 56, 57] = 4019 := by decide +kernel

end td0

/-! ## WOZ: CRC-32 -/
section crc32
open A2Verif.Model.C09Crc

/-- **C09, integrity clause (WOZ CRC32), table part.**  Every entry of the table in woz.rs (as
extracted now) is the bit-serial reflected CRC-32 (polynomial 0xEDB88320) of its index. -/
theorem woz_crc32_table : ∀ i : Fin 256, A2Verif.Gen.Woz.CRC32_TAB[i.val]? = some (tabEntry i.val) := by
  decide +kernel

theorem woz_crc32_table_length : A2Verif.Gen.Woz.CRC32_TAB.length = 256 := by decide +kernel

theorem fold32_eq (crc : Nat) (buf : List Nat) :
    fold32 A2Verif.Gen.Woz.CRC32_TAB crc buf = some (fold32Bitwise crc buf) := by
  induction buf generalizing crc with
  | nil => rfl
  | cons p ps ih =>
    have hlt : (crc ^^^ p) % 256 < 256 := Nat.mod_lt _ (by decide)
    have := woz_crc32_table ⟨(crc ^^^ p) % 256, hlt⟩
    simp only [fold32, upd32, this, ih, upd32Bitwise, fold32Bitwise]

/-- **C09, integrity clause (WOZ CRC32), fold part.**  The table driven `crc32` of woz.rs never
indexes outside its table and computes the table-free CRC-32 for every seed and every byte string. -/
theorem woz_crc32_correct (seed : Nat) (buf : List Nat) : crc32 seed buf = some (crc32Bitwise seed buf) := by
  simp only [crc32, crc32With, fold32_eq, crc32Bitwise]

/-- the standard CRC-32 check value -/
example : crc32 0 [49, 50, 51, 52, 53, 54, 55, 56, 57] = some 0xCBF43926 := by decide +kernel

end crc32

/-! ## WOZ: chunk walk and header CRC -/
section woz
open A2Verif.Model.C09Woz A2Verif.Model.C09Crc A2Verif.Lemmas.C09Woz

theorem length_le_flat (cs : List Chunk) : cs.length ≤ (flat cs).length := by
  induction cs with
  | nil => simp
  | cons c cs ih => rw [flat_cons, List.length_append, chunkBytes_length, List.length_cons]; omega

/-- **C09, WOZ container clause** (*"parsing the bytes back gives an image of the same type with the same …
contents"*, chunk bookkeeping part).  On a 12-byte header followed by any list of chunks
(4-byte id, 32-bit length, payload) the `while ptr>0` loop of `from_bytes` built on `get_next_chunk`
reports every chunk, in writing order, at exactly the offset it was written to and with its payload
size — for every payload, every id (known or not) and every number of chunks. -/
theorem woz_walk_finds_chunks (hdr : List Nat) (hh : hdr.length = 12) (cs : List Chunk)
    (hall : ∀ c ∈ cs, c.id < 4294967296 ∧ c.payload.length < 4294967296) :
    walk (hdr ++ flat cs) = founds 12 cs := by
  have h := walkFrom_chunks cs hdr ((hdr ++ flat cs).length + 1) (by omega)
    (by have := length_le_flat cs; rw [List.length_append]; omega) hall
  rw [hh] at h
  exact h

/-- **C09, WOZ2 fixed track-bits offset.**  With the creator's chunk order and sizes (INFO 60 bytes,
TMAP 160 bytes, then TRKS) the walk meets TRKS at offset 248, so `track_bits_offset = 248 + 1288 = 1536`,
which is the value `Woz2::to_bytes` insists on: an image a2kit wrote can be written again after reload. -/
theorem woz2_trks_offset (info tmap trks : Chunk) (rest : List Chunk)
    (hi : info.payload.length = 60) (ht : tmap.payload.length = 160) :
    ((founds 12 (info :: tmap :: trks :: rest))[2]?).map (fun f => f.ptr + 1288) = some 1536 := by
  simp [founds, hi, ht]

/-- **C09, integrity clause (WOZ CRC32 field).**  `to_bytes` never panics and the four bytes it stores at
offset 8 are the little-endian table-free CRC-32 of everything after byte 12. -/
theorem woz_toBytes_crc (x : Image) :
    toBytes x = some (x.magic ++ le32 (crc32Bitwise 0 (body x)) ++ body x) := by
  simp only [toBytes, woz_crc32_correct]

/-- **C09, WOZ payload clause.**  After the walk, the chunk buffers handed to the per-chunk parsers
(`buf[ptr..end]`) are exactly the chunks that were written: id, size and every payload byte, for the known ids, in
file order, with the offsets they were written to. -/
theorem woz_readChunks (hdr : List Nat) (hh : hdr.length = 12) (cs : List Chunk)
    (hall : ∀ c ∈ cs, c.id < 4294967296 ∧ c.payload.length < 4294967296) :
    readChunks (hdr ++ flat cs) = withPtrs 12 cs :=
  readChunks_chunks hdr hh cs hall

/-- **C09, WOZ2 object clause, creator layout** (*"parsing the bytes back gives … identical sector contents and
metadata"*).  For every WOZ2 object as a2kit holds it (`Woz2Wf`: INFO 60 and TMAP 160 payload bytes, 160 TRK
entries, a bit buffer of whole blocks whose length the TRKS size field states, optional META text and WRIT
chunk, supported disk type/sides, no flux) with the standard track-bits offset, `to_bytes` does not panic, leaves
the object unchanged, and `from_bytes` of the bytes returns the same object: all 68 INFO bytes, the
track map, every TRK entry, every bit of every track, the META text, the WRIT chunk, and offset 1536. -/
theorem woz2_fromBytes_toBytes (x : Woz2) (h : Woz2Wf x) (ho : x.off = 1536) :
    ∃ b, toBytes2 x = some (b, x) ∧ fromBytes2 b = some x := by
  refine ⟨x.magic ++ le32 (crc32Bitwise 0 (body2 x)) ++ body2 x, ?_, woz2_fromBytes_body x h ho _⟩
  simp only [toBytes2, rebase_std x ho, woz_crc32_correct]

/-- **C09, WOZ2 object clause, loaded file with another chunk layout** (DESIGN §9 item 27, after the repair).
If the track bits were found at any block-aligned offset, `to_bytes` re-bases the TRK entries and sets the
offset to 1536 (`y`); the bytes it returns parse back to exactly that object; the object stays consistent:
a second `to_bytes` on the same object returns the same bytes and leaves it unchanged. -/
theorem woz2_loaded_rebase (x : Woz2) (h : Woz2Wf x) (hoff : x.off % 512 = 0) :
    ∃ y b, toBytes2 x = some (b, y) ∧ y.off = 1536 ∧ Woz2Wf y ∧ fromBytes2 b = some y ∧
      toBytes2 y = some (b, y) := by
  obtain ⟨y, hr, hy⟩ := rebase_some x hoff
  have hwy := rebase_wf x y h hr
  obtain ⟨b, hb, hfb⟩ := woz2_fromBytes_toBytes y hwy hy
  exact ⟨y, b, by rw [toBytes2_of_rebase x y hr hy]; exact hb, hy, hwy, hfb, hb⟩

/-- … and every track keeps its bytes: the range of `trks.bits` a TRK entry addresses is the same before and
after the re-basing (so every sector reads the same from the object after `to_bytes`). -/
theorem woz2_rebase_keeps_tracks (x y : Woz2) (hr : rebase x = some y) (t : Trk)
    (hge : t.start ≥ x.off / 512) (hfit : t.start + 3 - x.off / 512 < 65536) :
    bitsRange y (if t.start ≥ x.off / 512 then { t with start := (t.start + 3 - x.off / 512) % 65536 } else t) =
      bitsRange x t :=
  bitsRange_rebase x y hr t hge hfit

/-- a miniature WOZ2 object: one used track of one block, META text, loaded with the bits one block later than
the creator would put them (offset 2048, TRK start 4) -/
def exWoz2 : Woz2 where
  magic := [0x57, 0x4F, 0x5A, 0x32, 0xFF, 0x0A, 0x0D, 0x0A]
  info := chunkBytes ⟨A2Verif.Gen.C09Const.INFO_ID, [2, 1, 0, 0, 0] ++ List.replicate 32 0x20 ++ [1, 1, 32] ++ List.replicate 20 0⟩
  tmap := chunkBytes ⟨A2Verif.Gen.C09Const.TMAP_ID, List.replicate 160 0xFF⟩
  trksSize := le32 (1280 + 512)
  trks := ⟨4, 1, [0, 16, 0, 0]⟩ :: List.replicate 159 ⟨0, 0, [0, 0, 0, 0]⟩
  bits := List.replicate 512 0xAA
  metaTxt := some [116, 9, 120, 10]
  writ := none
  off := 2048

example : Woz2Wf exWoz2 := by
  refine ⟨by decide +kernel, ⟨_, rfl, by decide +kernel⟩, ⟨_, rfl, by decide +kernel⟩, by decide +kernel, by decide +kernel,
    by decide +kernel, by decide +kernel, by decide +kernel, ?_, ?_, by decide +kernel, by decide +kernel⟩
  · intro p hp
    have hm : exWoz2.metaTxt = some [116, 9, 120, 10] := rfl
    rw [hm] at hp
    cases hp
    decide
  · intro w hw
    have hn : exWoz2.writ = none := rfl
    rw [hn] at hw
    cases hw

/-- the executable model on the example: first `to_bytes` re-bases (start 4 → 3, offset 1536), the bytes parse
back to that object, the second `to_bytes` is identical -/
example : (toBytes2 exWoz2).map (fun p => (p.2.off, p.2.trks.head?.map (·.start), fromBytes2 p.1 == some p.2,
    (toBytes2 p.2).map (·.1) == some p.1)) = some (1536, some 3, true, true) := by decide +kernel

/-- a2kit's WOZ2 layout in miniature: the walk over the serialised image finds INFO, TMAP, TRKS, META -/
def exWoz : Image where
  magic := [0x57, 0x4F, 0x5A, 0x32, 0xFF, 0x0A, 0x0D, 0x0A]
  chunks := [⟨A2Verif.Gen.C09Const.INFO_ID, List.replicate 60 1⟩, ⟨A2Verif.Gen.C09Const.TMAP_ID, List.replicate 160 0xFF⟩,
             ⟨A2Verif.Gen.C09Const.TRKS_ID, List.replicate 1280 0⟩, ⟨A2Verif.Gen.C09Const.META_ID, [116, 9, 120, 10]⟩]

example : (toBytes exWoz).map (fun b => (walk b).map (fun f => (f.ptr, f.size, f.known))) =
    some [(12, 60, true), (80, 160, true), (248, 1280, true), (1536, 4, true)] := by decide +kernel

end woz

/-! ## 2MG: header, offsets and lengths -/
section dot2mg
open A2Verif.Model.C09Dot2mg A2Verif.Model.C09Crc A2Verif.Gen.C09Const A2Verif.Lemmas.C09Dot2mg

/-- **C09, 2MG header clause.**  The 64-byte header survives `to_bytes`/`from_bytes` field by field. -/
theorem dot2mg_header_roundtrip (h : Header) (hw : h.wf) : Header.fromBytes h.toBytes = some h :=
  header_roundtrip h hw

/-- hypotheses of the 2MG round trip: what `Dot2mg::create` establishes and every accepted edit keeps -/
structure Dot2mgWf (x : Image) : Prop where
  hdr : x.header.wf
  magic : x.header.magic = [0x32, 0x49, 0x4D, 0x47]
  fmt : rd32 x.header.imgFmt ≤ 2
  len : x.data.length = rd32 x.header.dataLen
  raw : rawOk (rd32 x.header.imgFmt) x.data.length = true
  blocks : rd32 x.header.imgFmt = 1 → rd32 x.header.blocks * 512 = x.data.length
  small : 64 + x.data.length + x.comment.length + x.creator.length < 4294967296

theorem finalize_wf (x : Image) (h : x.header.wf) : x.finalize.wf := by
  unfold Header.wf Header.fields at *
  simp only [Image.finalize, List.map_cons, List.map_nil, w32, le32, List.length_cons, List.length_nil] at *
  simp only [DOT2MG_FIELDS, List.cons.injEq] at *
  simp [h]

theorem slice_nil (bs : List Nat) : (bs.drop 0).take 0 = [] := by simp

/-- **C09, 2MG clause** (*"parsing the bytes back gives … identical sector contents and metadata";
"2MG offsets and lengths are correct"*).  Serialising a 2MG image and parsing the bytes back yields the same
wrapped data, comment and creator strings, and the header that `to_bytes` wrote — i.e. the offsets
and lengths recomputed on save (`Image.finalize`) address exactly the comment and the creator
chunk. -/
theorem dot2mg_roundtrip (x : Image) (h : Dot2mgWf x) :
    fromBytes (toBytes x) = some { x with header := x.finalize } := by
  have hfw := finalize_wf x h.hdr
  have hH := header_length x.finalize hfw
  have hlen : (toBytes x).length = 64 + x.data.length + x.comment.length + x.creator.length := by
    simp [toBytes, hH]; omega
  have htake : (toBytes x).take 64 = x.finalize.toBytes := by
    simp only [toBytes, List.append_assoc]
    rw [← hH, List.take_left']
    rfl
  have hsmall := h.small
  have hmagic : x.finalize.magic = x.header.magic := rfl
  have hfmt : x.finalize.imgFmt = x.header.imgFmt := rfl
  have hblk : x.finalize.blocks = x.header.blocks := rfl
  have hdl : x.finalize.dataLen = x.header.dataLen := rfl
  have hdo : rd32 x.finalize.dataOffset = 64 := by
    show rd32 (w32 64) = 64
    rw [rd32_w32]
  have hdlen := h.len
  -- comment slice
  have hcom : (if (toBytes x).length < rd32 x.finalize.commentOffset + rd32 x.finalize.commentLen then []
      else ((toBytes x).drop (rd32 x.finalize.commentOffset)).take (rd32 x.finalize.commentLen)) = x.comment := by
    show (if (toBytes x).length < rd32 (w32 _) + rd32 (w32 _) then [] else
      ((toBytes x).drop (rd32 (w32 _))).take (rd32 (w32 _))) = x.comment
    have hm : x.comment.length % 4294967296 = x.comment.length := Nat.mod_eq_of_lt (by omega)
    simp only [rd32_w32, hm]
    by_cases h0 : x.comment.length = 0
    · have : x.comment = [] := List.eq_nil_of_length_eq_zero h0
      simp [this]
    · rw [if_neg h0]
      have hm2 : (64 + rd32 x.header.dataLen) % 4294967296 = 64 + x.data.length := by
        rw [← hdlen]; exact Nat.mod_eq_of_lt (by omega)
      rw [hm2, if_neg (by omega)]
      have : toBytes x = (x.finalize.toBytes ++ x.data) ++ x.comment ++ x.creator := by
        simp [toBytes]
      rw [this]
      exact slice_at _ _ _ _ _ (by simp [hH]) rfl
  have hcre : (if (toBytes x).length < rd32 x.finalize.creatorOffset + rd32 x.finalize.creatorLen then []
      else ((toBytes x).drop (rd32 x.finalize.creatorOffset)).take (rd32 x.finalize.creatorLen)) = x.creator := by
    show (if (toBytes x).length < rd32 (w32 _) + rd32 (w32 _) then [] else
      ((toBytes x).drop (rd32 (w32 _))).take (rd32 (w32 _))) = x.creator
    have hm : x.creator.length % 4294967296 = x.creator.length := Nat.mod_eq_of_lt (by omega)
    have hmc : x.comment.length % 4294967296 = x.comment.length := Nat.mod_eq_of_lt (by omega)
    simp only [rd32_w32, hm, hmc]
    by_cases h0 : x.creator.length = 0
    · have : x.creator = [] := List.eq_nil_of_length_eq_zero h0
      simp [this]
    · rw [if_neg h0]
      have hm2 : (64 + rd32 x.header.dataLen + x.comment.length) % 4294967296 = 64 + x.data.length + x.comment.length := by
        rw [← hdlen]; exact Nat.mod_eq_of_lt (by omega)
      rw [hm2, if_neg (by omega)]
      have : toBytes x = (x.finalize.toBytes ++ x.data ++ x.comment) ++ x.creator ++ [] := by
        simp [toBytes]
      rw [this]
      exact slice_at _ _ _ _ _ (by simp [hH]; omega) rfl
  have hdata : ((toBytes x).drop 64).take (rd32 x.header.dataLen) = x.data := by
    have : toBytes x = x.finalize.toBytes ++ x.data ++ (x.comment ++ x.creator) := by
      simp [toBytes]
    rw [this]
    exact slice_at _ _ _ _ _ hH.symm hdlen.symm
  unfold fromBytes
  rw [if_neg (by omega), htake, header_roundtrip _ hfw]
  simp only [hmagic, h.magic, ne_eq, not_true_eq_false, if_false, hfmt, hdl, hdo, hblk]
  rw [if_neg (by have := h.fmt; omega), if_neg (by omega)]
  rw [← hdlen, h.raw]
  simp only [not_true_eq_false, if_false]
  rw [hdlen, hdata]
  have hb : ¬ (rd32 x.header.imgFmt = 1 ∧ rd32 x.header.blocks * 512 ≠ rd32 x.header.dataLen) := by
    intro ⟨h1, h2⟩; exact h2 (by rw [← hdlen]; exact h.blocks h1)
  rw [if_neg hb, hcom, hcre]

/-- **C09, fixpoint clause for 2MG.**  The header recomputation is idempotent, hence serialising the
re-parsed image gives identical bytes. -/
theorem dot2mg_stable (x : Image) (h : Dot2mgWf x) :
    (fromBytes (toBytes x)).map toBytes = some (toBytes x) := by
  rw [dot2mg_roundtrip x h]
  simp only [Option.map, toBytes, Image.finalize]

theorem header_fromBytes_wf (bs : List Nat) (h : Header) (hf : Header.fromBytes bs = some h) : h.wf := by
  unfold Header.fromBytes at hf
  split at hf
  · simp at hf
  · rename_i hl
    have h64 : bs.length = 64 := by omega
    simp only [DOT2MG_FIELDS, splitBy, Option.some.injEq] at hf
    subst hf
    simp only [Header.wf, Header.fields, DOT2MG_FIELDS, List.map_cons, List.map_nil, List.length_take, List.length_drop, h64]
    decide

/-- **C09, 2MG, files written by other programs** (*"2MG offsets and lengths are correct"*).  For EVERY byte string that
`from_bytes` accepts — any data offset, comment and creator extents anywhere (in any order, overlapping, inside the data,
ending at or beyond the end of the file, of length zero with a non-zero offset), text that is or is not UTF-8 — the object
satisfies the hypotheses of `dot2mg_roundtrip`: whatever the header of the foreign file said, the fields that `to_bytes`
recomputes depend only on the strings and the data the object holds. -/
theorem dot2mg_foreign_wf (vc vr : Bool) (bs : List Nat) (x : Image) (hsmall : bs.length < 1073741824)
    (h : fromBytesV vc vr bs = some x) : Dot2mgWf x := by
  unfold fromBytesV at h
  split at h
  · simp at h
  · cases hh : Header.fromBytes (bs.take 64) with
    | none => simp [hh] at h
    | some hd =>
      simp only [hh] at h
      split at h
      · simp at h
      · rename_i hmagic
        split at h
        · simp at h
        · rename_i hfmt
          split at h
          · simp at h
          · rename_i hlen
            split at h
            · simp at h
            · rename_i hraw
              split at h
              · simp at h
              · rename_i hblk
                simp only [Option.some.injEq] at h
                subst h
                have hdl : ((bs.drop (rd32 hd.dataOffset)).take (rd32 hd.dataLen)).length = rd32 hd.dataLen := by
                  simp only [List.length_take, List.length_drop]; omega
                have hle : ∀ (o n : Nat) (v : Bool), (if bs.length < o + n then [] else if v then (bs.drop o).take n else []).length ≤ bs.length := by
                  intro o n v
                  split
                  · simp
                  · split
                    · simp only [List.length_take, List.length_drop]; omega
                    · simp
                refine ⟨header_fromBytes_wf _ _ hh, by simpa using hmagic, by simpa using hfmt, hdl, ?_, ?_, ?_⟩
                · simp only [hdl]; simpa using hraw
                · intro h1
                  simp only [hdl]
                  by_cases hb : rd32 hd.blocks * 512 = rd32 hd.dataLen
                  · exact hb
                  · exact absurd ⟨h1, hb⟩ hblk
                · have h1 := hle (rd32 hd.commentOffset) (rd32 hd.commentLen) vc
                  have h2 := hle (rd32 hd.creatorOffset) (rd32 hd.creatorLen) vr
                  simp only [hdl]
                  have : rd32 hd.dataLen ≤ bs.length := by omega
                  omega

/-- … hence what a2kit saves for a loaded foreign file is consistent: the data starts at 64, the stored lengths are the
lengths of the strings the object holds, the stored offsets are where the strings are in the saved file (0 for an empty
one), the parts tile the file; the saved file loads to the same data and strings, and saving again gives identical
bytes.  (The seeded change "lengths taken from the header" contradicts `commentLen`/`creatorLen` here.) -/
theorem dot2mg_foreign_saved_consistent (vc vr : Bool) (bs : List Nat) (x : Image) (hsmall : bs.length < 1073741824)
    (h : fromBytesV vc vr bs = some x) :
    rd32 x.finalize.dataOffset = 64 ∧ rd32 x.finalize.commentLen = x.comment.length ∧ rd32 x.finalize.creatorLen = x.creator.length ∧
      (x.comment ≠ [] → rd32 x.finalize.commentOffset = 64 + x.data.length) ∧
      (x.creator ≠ [] → rd32 x.finalize.creatorOffset = 64 + x.data.length + x.comment.length) ∧
      (toBytes x).length = 64 + x.data.length + x.comment.length + x.creator.length ∧
      fromBytes (toBytes x) = some { x with header := x.finalize } ∧
      (fromBytes (toBytes x)).map toBytes = some (toBytes x) := by
  have hw := dot2mg_foreign_wf vc vr bs x hsmall h
  have hsm := hw.small
  have hH := header_length x.finalize (finalize_wf x hw.hdr)
  have hcl : x.comment.length % 4294967296 = x.comment.length := Nat.mod_eq_of_lt (by omega)
  have hrl : x.creator.length % 4294967296 = x.creator.length := Nat.mod_eq_of_lt (by omega)
  refine ⟨?_, ?_, ?_, ?_, ?_, ?_, dot2mg_roundtrip x hw, dot2mg_stable x hw⟩
  · show rd32 (w32 64) = 64
    rw [rd32_w32]
  · show rd32 (w32 _) = _
    rw [rd32_w32, hcl, hcl]
  · show rd32 (w32 _) = _
    rw [rd32_w32, hrl, hrl]
  · intro hne
    have : x.comment.length ≠ 0 := by intro h0; exact hne (List.eq_nil_of_length_eq_zero h0)
    show rd32 (w32 _) = _
    rw [rd32_w32, hcl, if_neg this, ← hw.len]
    exact Nat.mod_eq_of_lt (by omega)
  · intro hne
    have : x.creator.length ≠ 0 := by intro h0; exact hne (List.eq_nil_of_length_eq_zero h0)
    show rd32 (w32 _) = _
    rw [rd32_w32, hrl, hcl, if_neg this, ← hw.len]
    exact Nat.mod_eq_of_lt (by omega)
  · simp [toBytes, hH]; omega

/-- the object with the header-length field as the repaired `to_bytes` leaves it -/
def fixedLen (x : Image) : Image :=
  let h : Header := { x.header with headerLen := [64, 0] }
  { x with header := h }

theorem toBytesF_false (x : Image) : toBytesF false x = toBytes x := rfl
theorem toBytesF_true (x : Image) : toBytesF true x = toBytes (fixedLen x) := rfl

theorem fixedLen_wf (x : Image) (h : Dot2mgWf x) : Dot2mgWf (fixedLen x) := by
  refine ⟨?_, h.magic, h.fmt, h.len, h.raw, h.blocks, h.small⟩
  have := h.hdr
  unfold Header.wf Header.fields at *
  simp only [fixedLen, List.map_cons, List.map_nil, List.length_cons, List.length_nil] at *
  simp only [DOT2MG_FIELDS, List.cons.injEq] at *
  simp [this]

/-- **C09, 2MG, header-length field** (repaired code): whatever a loaded file claimed, the saved file says that its header
is 64 bytes long — which it is — and still parses back to the same data and strings. -/
theorem dot2mg_saved_header_len (x : Image) (h : Dot2mgWf x) :
    ((toBytesF true x).drop 8).take 2 = [64, 0] ∧
      fromBytes (toBytesF true x) = some { fixedLen x with header := (fixedLen x).finalize } := by
  refine ⟨?_, by rw [toBytesF_true]; exact dot2mg_roundtrip _ (fixedLen_wf x h)⟩
  have hw := (fixedLen_wf x h).hdr
  have hfw := finalize_wf (fixedLen x) hw
  unfold Header.wf Header.fields at hfw
  simp only [DOT2MG_FIELDS, List.map_cons, List.map_nil, List.cons.injEq] at hfw
  obtain ⟨h1, h2, _⟩ := hfw
  rw [toBytesF_true]
  simp only [toBytes, Header.toBytes, Header.fields, List.flatten_cons, List.append_assoc]
  have e1 : (fixedLen x).finalize.magic.length = 4 := h1
  have e2 : (fixedLen x).finalize.creatorId.length = 4 := h2
  have hl : (fixedLen x).finalize.headerLen = [64, 0] := rfl
  rw [hl]
  have : ∀ (a b c : List Nat), a.length = 4 → b.length = 4 → ((a ++ (b ++ ([64, 0] ++ c))).drop 8).take 2 = [64, 0] := by
    intro a b c ha hb
    have : a ++ (b ++ ([64, 0] ++ c)) = (a ++ b) ++ ([64, 0] ++ c) := by simp
    rw [this, List.drop_left' (by simp [ha, hb])]
    rfl
  exact this _ _ _ e1 e2

/-- a 140K DOS-ordered image with comment and creator strings and stale offsets in the header -/
def exHdr : Header where
  magic := [0x32, 0x49, 0x4D, 0x47]
  creatorId := [0x32, 0x4B, 0x49, 0x54]
  headerLen := [64, 0]
  version := [1, 0]
  imgFmt := [0, 0, 0, 0]
  flags := [254, 1, 0, 0]
  blocks := le32 280
  dataOffset := [0, 0, 0, 0]
  dataLen := le32 143360
  commentOffset := [9, 9, 9, 9]
  commentLen := [0, 0, 0, 0]
  creatorOffset := [0, 0, 0, 0]
  creatorLen := [0, 0, 0, 0]
  pad := List.replicate 16 0

def exImg : Image where
  header := exHdr
  data := List.replicate 143360 0
  comment := [72, 105]
  creator := [97]

/-- non-vacuity of `Dot2mgWf` and what the recomputed offsets are -/
example : exHdr.wf ∧ rd32 exHdr.imgFmt ≤ 2 ∧ exImg.data.length = rd32 exHdr.dataLen ∧
    rawOk 0 exImg.data.length = true ∧
    rd32 exImg.finalize.commentOffset = 64 + 143360 ∧ rd32 exImg.finalize.creatorOffset = 64 + 143360 + 2 := by
  decide +kernel

end dot2mg

/-! ## Metadata interface: what is written is what is read back -/
section metadata
open A2Verif.Model.C09Meta A2Verif.Lemmas.C09Meta

/-- **C09, metadata clause** (*"metadata written through the metadata interface is what is read back afterwards"*).
For every table of key paths whose fixed-width text fields are space padded, every state, key path and value:
if `put_metadata` stores the value (neither refused nor skipped as read-only) then `get_metadata` shows, under the
same key path, the value in its canonical spelling — hex text in lower case, fixed-width text without trailing
white space, TD0 notes with CR LF taken as LF, every other text unchanged.
`_partial`: the key tables (`table`) are a hand transcription (tied by the `metaput` correspondence, not generated),
and the pattern constraints and deletion rule of the standard WOZ2 META keys are not modelled. -/
theorem meta_put_get_partial (tbl : List Field)
    (hpads : ∀ f ∈ tbl, ∀ n pad, f.kind = .buf n pad → pad = 0x20)
    (st st' : State) (key : List String) (val : List Nat) (f : Field)
    (hf : findField tbl key = some f) (hp : put tbl st key val = .stored st') :
    C09Meta.get tbl st' key = some (expected f.kind val) := by
  have hmem : f ∈ tbl := List.mem_of_find?_eq_some hf
  simp only [put, hf] at hp
  by_cases hro : f.kind = .readOnly
  · rw [if_pos hro] at hp; cases hp
  · rw [if_neg hro] at hp
    cases ha : accept f.kind val with
    | none => simp [ha] at hp
    | some raw =>
      simp only [ha, PutResult.stored.injEq] at hp
      subst hp
      simp only [C09Meta.get, hf, lookup_store_same, Option.map]
      rw [accept_render f.kind val raw (hpads f hmem) ha]

/-- … and nothing else changes: a field stored under another path reads as before -/
theorem meta_put_frame (tbl : List Field) (st st' : State) (key key2 : List String) (val : List Nat) (f g : Field)
    (hf : findField tbl key = some f) (hg : findField tbl key2 = some g) (hne : g.path ≠ f.path)
    (hp : put tbl st key val = .stored st') :
    C09Meta.get tbl st' key2 = C09Meta.get tbl st key2 := by
  simp only [put, hf] at hp
  by_cases hro : f.kind = .readOnly
  · rw [if_pos hro] at hp; cases hp
  · rw [if_neg hro] at hp
    cases ha : accept f.kind val with
    | none => simp [ha] at hp
    | some raw =>
      simp only [ha, PutResult.stored.injEq] at hp
      subst hp
      simp only [C09Meta.get, hg, lookup_store_other st f.path g.path raw hne]

/-- non-vacuity on the level of one field: upper-case hex `8A` is accepted for a one-byte field and shown as `8a`;
a creator string is stored space padded to 32 bytes and shown without the padding; a NUL in TD0 notes is refused
and CR LF is taken as LF; `02` is not an allowed spelling for a 0/1 flag -/
example : accept (.hex 1) [56, 65] = some [0x8A] ∧ render (.hex 1) [0x8A] = [56, 97] ∧ expected (.hex 1) [56, 65] = [56, 97] ∧
    (accept (.buf 32 0x20) [109, 101, 32]).map List.length = some 32 ∧
    (accept (.buf 32 0x20) [109, 101, 32]).map (render (.buf 32 0x20)) = some [109, 101] ∧
    accept .td0Notes [97, 0] = none ∧ accept .td0Notes [97, 13, 13, 10, 98] = some [97, 10, 98] ∧
    accept (.hexOneOf 1 [[48, 48], [48, 49]]) [48, 50] = none ∧ accept .hardware [255, 1].reverse = none := by
  decide +kernel

end metadata

end A2Verif.C09
