import A2Verif.Lemmas.FsDosInit
import A2Verif.Lemmas.FsDosDelete
import A2Verif.Lemmas.FsDosPutD
import A2Verif.Lemmas.FsDosFresh
import A2Verif.Props.C01
import A2Verif.Props.C03
import A2Verif.Props.C04
import A2Verif.Props.C05
/-!
# The concrete DOS 3.x model refines the abstract volume specification (C01–C05, DOS 3.3 / 3.2)

`Model/Fs/Dos3x.lean` is a transcription of a2kit's DOS 3.x code, tied to the real code byte for byte by the
harness (driver family `fsd`).  Here: the on-disk invariant `Inv`, the theorem that the independent reader
(`Model/Read/Dos3x.lean`) succeeds on every image satisfying it and returns a well-formed volume (C03), and the
per-operation refinement theorems: `put` (any number of T/S lists, sparse files, short chunks), `delete`, `lock`,
`unlock`, `retype`, `rename` of the concrete model keep the invariant and their effect on the reading is a step the
abstract specification (`stepOk`) allows; hence every history of concrete operations is a valid trace and the history
theorems of C01–C05 hold for the concrete model.

The reading of a disk is what the harness sees: the image after the VTOC buffer has been written back
(`Disk.flush` = `get_img()`), read by `Read.Dos3x.read` with the format-time system units `sb`.
-/
set_option linter.unusedSimpArgs false
namespace A2Verif.FsDos
open A2Verif.Fs.Dos3x A2Verif.Read.Dos3x

/-- **The on-disk invariant** of a saved DOS 3.x image with `c` sectors per track: there is a layout `L`
(catalog chain, one T/S list chain per live entry) such that the VTOC is sane (35 tracks, `c` sectors, 122 pairs),
the catalog chain is intact within the reader's fuel, every live entry's T/S chain is well formed within fuel
with all pointers in range (`Describes`), and what the chains lead to satisfies the C03 conditions (`wfB`: all
referenced sectors in range, pairwise disjoint and disjoint from VTOC / catalog / format-time system sectors `sb`,
marked used in the bitmap, names unique, chunk indices ascending). -/
def Inv (r : Raw) (c : Nat) (sb : List Nat) : Prop := ∃ L, Describes r c L ∧ (volOf r c sb L).wfB = true

/-- C03 for the concrete DOS model, reader side: on every image satisfying the invariant the independent
reader succeeds and what it returns is well formed. -/
theorem inv_read {r : Raw} {c : Nat} {sb : List Nat} (h : Inv r c sb) :
    ∃ v, Read.Dos3x.read r (some sb) = .ok v ∧ v.wfB = true := by
  obtain ⟨L, hd, hw⟩ := h
  exact ⟨_, read_ok sb hd, hw⟩

/-- invariant of the file system object: the VTOC buffer is open and the working state satisfies `WInv`
(geometry and buffer sane, the flushed image satisfies `Inv`, live names carry bit 7, the catalog is not empty) -/
def DInv (d : Disk) (sb : List Nat) : Prop := ∃ v L, d.vtoc = some v ∧ WInv { c := d.c, raw := d.raw, v := v } sb L

/-- what the harness reads after an operation: flush (`get_img()`), then the independent reader -/
def reading (d : Disk) (sb : List Nat) : Except String Vol :=
  match d.flush with
  | .ok r => Read.Dos3x.read r (some sb)
  | .error _ => .error "flush-failed"

theorem flush_toDisk {w : W} (h : WOk w) : w.toDisk.flush = .ok w.img := by
  unfold Disk.flush W.toDisk
  simp only
  have := imgWrite_ok h (t := Fs.Dos3x.vtocTrack) (s := 0) (by decide) (by rcases h.hc with e | e <;> omega) w.v
  rw [this]
  rfl

theorem reading_toDisk {w : W} {sb : List Nat} {L : Lay} (hi : WInv w sb L) :
    reading w.toDisk sb = .ok (volOf w.img w.c sb L) := by
  unfold reading
  rw [flush_toDisk hi.ok]
  exact read_ok sb hi.desc

theorem dinv_toDisk {w : W} {sb : List Nat} {L : Lay} (hi : WInv w sb L) : DInv w.toDisk sb :=
  ⟨w.v, L, rfl, hi⟩

theorem toDisk_eq {d : Disk} {v : Bytes} (h : d.vtoc = some v) : (W.mk d.c d.raw v).toDisk = d := by
  cases d; simp only [W.toDisk] at *; rw [h]

theorem run_eq {α : Type} {d : Disk} {v : Bytes} (h : d.vtoc = some v) (m : M α) :
    d.run m = ((m (W.mk d.c d.raw v)).1, (m (W.mk d.c d.raw v)).2.toDisk) := by
  unfold Disk.run openVtoc
  rw [h]

/-- C03: the invariant of the object implies the on-disk invariant of the flushed image; its reading is
well formed -/
theorem dinv_reading {d : Disk} {sb : List Nat} (h : DInv d sb) :
    ∃ r v, d.flush = .ok r ∧ Inv r d.c sb ∧ reading d sb = .ok v ∧ v.wfB = true := by
  obtain ⟨v, L, hv, hi⟩ := h
  have hd := toDisk_eq hv
  refine ⟨_, _, by rw [← hd]; exact flush_toDisk hi.ok, ⟨L, hi.desc, hi.wf⟩, by rw [← hd]; exact reading_toDisk hi, hi.wf⟩

/-- a refused operation that returns the disk as it was is a step the specification allows -/
theorem refused_same {d : Disk} {sb : List Nat} (h : DInv d sb) (op : FsOp) :
    DInv d sb ∧ ∃ pre post, reading d sb = .ok pre ∧ reading d sb = .ok post ∧ stepOk dosParams pre op false post = true := by
  obtain ⟨_, v, _, _, hr, hw⟩ := dinv_reading h
  exact ⟨h, v, v, hr, hr, stepOk_refused_same hw op⟩

/-- transfer of a working-state refinement to the disk object -/
theorem lift_refines {d : Disk} {sb : List Nat} {v : Bytes} {L : Lay} (hv : d.vtoc = some v)
    (hi : WInv { c := d.c, raw := d.raw, v := v } sb L) {α : Type} {m : M α} {op : FsOp}
    (h : ∃ res w', m { c := d.c, raw := d.raw, v := v } = (res, w') ∧ WInv w' sb L ∧ w'.c = d.c ∧
      stepOk dosParams (volOf (W.mk d.c d.raw v).img d.c sb L) op (isOk res)
        (volOf w'.img d.c sb L) = true) :
    DInv (d.run m).2 sb ∧ ∃ pre post, reading d sb = .ok pre ∧ reading (d.run m).2 sb = .ok post ∧
      stepOk dosParams pre op (isOk (d.run m).1) post = true := by
  obtain ⟨res, w', hm, hi', hc', hs⟩ := h
  rw [run_eq hv, hm]
  refine ⟨dinv_toDisk hi', volOf (W.mk d.c d.raw v).img d.c sb L, volOf w'.img d.c sb L, ?_, ?_, ?_⟩
  · have := reading_toDisk hi; rw [toDisk_eq hv] at this; exact this
  · have := reading_toDisk hi'; rw [hc'] at this; exact this
  · exact hs

/-! ## the operations -/

/-- `lock` of the concrete model refines the specification: the invariant is kept and the readings before and
after are related by `stepOk … (.lock path) …` (refused: nothing changed). -/
theorem dos_lock_refines {d : Disk} {sb : List Nat} (h : DInv d sb) (name : Bytes) :
    DInv (lock d name).2 sb ∧ ∃ pre post, reading d sb = .ok pre ∧ reading (lock d name).2 sb = .ok post ∧
      stepOk dosParams pre (.lock (pathOf name)) (isOk (lock d name).1) post = true := by
  unfold lock Fs.Dos3x.modify
  by_cases hv : isNameValid name = true
  · obtain ⟨fname, hfn, _, _⟩ := stringToFileName_ok hv
    obtain ⟨v, L, hvt, hi⟩ := h
    have hp : pathOf name = pathOfName fname := by unfold pathOf; rw [hfn]
    simp only [hv, Bool.not_true, Bool.false_eq_true, if_false, hp]
    have hr := lockM_refines (P := dosParams) hi hfn true
    simp only [if_true] at hr
    exact lift_refines hvt hi hr
  · simp only [hv, Bool.not_false, if_true]
    exact refused_same h _

theorem dos_unlock_refines {d : Disk} {sb : List Nat} (h : DInv d sb) (name : Bytes) :
    DInv (unlock d name).2 sb ∧ ∃ pre post, reading d sb = .ok pre ∧ reading (unlock d name).2 sb = .ok post ∧
      stepOk dosParams pre (.unlock (pathOf name)) (isOk (unlock d name).1) post = true := by
  unfold unlock Fs.Dos3x.modify
  by_cases hv : isNameValid name = true
  · obtain ⟨fname, hfn, _, _⟩ := stringToFileName_ok hv
    obtain ⟨v, L, hvt, hi⟩ := h
    have hp : pathOf name = pathOfName fname := by unfold pathOf; rw [hfn]
    simp only [hv, Bool.not_true, Bool.false_eq_true, if_false, hp]
    have hr := lockM_refines (P := dosParams) hi hfn false
    simp only [Bool.false_eq_true, if_false] at hr
    exact lift_refines hvt hi hr
  · simp only [hv, Bool.not_false, if_true]
    exact refused_same h _

theorem dos_retype_refines {d : Disk} {sb : List Nat} (h : DInv d sb) (name : Bytes) (ty : Option Nat) :
    DInv (retype d name ty).2 sb ∧ ∃ pre post, reading d sb = .ok pre ∧ reading (retype d name ty).2 sb = .ok post ∧
      stepOk dosParams pre (.retype (pathOf name)) (isOk (retype d name ty).1) post = true := by
  unfold retype Fs.Dos3x.modify
  by_cases hv : isNameValid name = true
  · obtain ⟨fname, hfn, _, _⟩ := stringToFileName_ok hv
    obtain ⟨v, L, hvt, hi⟩ := h
    have hp : pathOf name = pathOfName fname := by unfold pathOf; rw [hfn]
    simp only [hv, Bool.not_true, Bool.false_eq_true, if_false, hp]
    exact lift_refines hvt hi (retypeM_refines hi hfn ty)
  · simp only [hv, Bool.not_false, if_true]
    exact refused_same h _


/-- `rename` (= `ok_to_rename`, then `modify`) refines the specification; a refusal — invalid name, new name in
use, old name missing, file locked — leaves the disk as it was. -/
theorem dos_rename_refines {d : Disk} {sb : List Nat} (h : DInv d sb) (old new : Bytes) :
    DInv (rename d old new).2 sb ∧ ∃ pre post, reading d sb = .ok pre ∧ reading (rename d old new).2 sb = .ok post ∧
      stepOk dosParams pre (.rename (pathOf old) (pathOf new)) (isOk (rename d old new).1) post = true := by
  unfold rename
  by_cases hvn : isNameValid new = true
  · obtain ⟨nf, hnn, hnl, hnb⟩ := stringToFileName_ok hvn
    obtain ⟨v, L, hvt, hi⟩ := h
    obtain ⟨o, ho, hoi⟩ := getTslistSector_eval hi hnn
    have hrun : d.run (getTslistSector new) = (.ok o, d) := by rw [run_eq hvt, ho]; simp only; rw [toDisk_eq hvt]
    simp only [hvn, Bool.not_true, Bool.false_eq_true, if_false, hrun]
    cases o with
    | some x => exact refused_same ⟨v, L, hvt, hi⟩ _
    | none =>
      simp only
      have hfree := hoi.1 rfl
      unfold Fs.Dos3x.modify
      by_cases hv : isNameValid old = true
      · obtain ⟨fname, hfn, _, _⟩ := stringToFileName_ok hv
        have hp : pathOf old = pathOfName fname := by unfold pathOf; rw [hfn]
        have hq : pathOf new = pathOfName nf := by unfold pathOf; rw [hnn]
        simp only [hv, Bool.not_true, Bool.false_eq_true, if_false, hp, hq]
        exact lift_refines hvt hi (renameM_refines (P := dosParams) hi hfn hnn hnl hnb hfree)
      · simp only [hv, Bool.not_false, if_true]
        exact refused_same ⟨v, L, hvt, hi⟩ _
  · simp only [hvn, Bool.not_false, if_true]
    exact refused_same h _


/-- transfer of a working-state refinement that changes the layout (delete, put) to the disk object -/
theorem lift_refines' {d : Disk} {sb : List Nat} {v : Bytes} {L : Lay} (hv : d.vtoc = some v)
    (hi : WInv { c := d.c, raw := d.raw, v := v } sb L) {α : Type} {m : M α} {op : FsOp}
    (h : ∃ res w' L', m { c := d.c, raw := d.raw, v := v } = (res, w') ∧ WInv w' sb L' ∧ w'.c = d.c ∧
      stepOk dosParams (volOf (W.mk d.c d.raw v).img d.c sb L) op (isOk res) (volOf w'.img d.c sb L') = true) :
    DInv (d.run m).2 sb ∧ ∃ pre post, reading d sb = .ok pre ∧ reading (d.run m).2 sb = .ok post ∧
      stepOk dosParams pre op (isOk (d.run m).1) post = true := by
  obtain ⟨res, w', L', hm, hi', hc', hs⟩ := h
  rw [run_eq hv, hm]
  refine ⟨dinv_toDisk hi', volOf (W.mk d.c d.raw v).img d.c sb L, volOf w'.img d.c sb L', ?_, ?_, ?_⟩
  · have := reading_toDisk hi; rw [toDisk_eq hv] at this; exact this
  · have := reading_toDisk hi'; rw [hc'] at this; exact this
  · exact hs

/-- `delete` of the concrete model refines the specification: an accepted delete frees exactly the sectors the
file's record owned (data and T/S lists) and removes exactly that record; a refusal (missing file, locked file,
over-long name) leaves the disk as it was. -/
theorem dos_delete_refines {d : Disk} {sb : List Nat} (h : DInv d sb) (name : Bytes) :
    DInv (delete d name).2 sb ∧ ∃ pre post, reading d sb = .ok pre ∧ reading (delete d name).2 sb = .ok post ∧
      stepOk dosParams pre (.delete (pathOf name)) (isOk (delete d name).1) post = true := by
  unfold delete
  obtain ⟨v, L, hvt, hi⟩ := h
  cases hfn : stringToFileName name with
  | error e =>
    have hm : deleteM name { c := d.c, raw := d.raw, v := v } = (.error e, { c := d.c, raw := d.raw, v := v }) := by
      unfold deleteM
      simp only [M.bind_apply, M.getV_apply, M.lift_apply, hfn]
    rw [run_eq hvt, hm]
    simp only [toDisk_eq hvt]
    exact refused_same ⟨v, L, hvt, hi⟩ _
  | ok fname =>
    have hp : pathOf name = pathOfName fname := by unfold pathOf; rw [hfn]
    rw [hp]
    exact lift_refines' hvt hi (deleteM_refines (P := dosParams) hi hfn)

/-- `put` of the concrete model refines the specification, for every file image whose chunks are not longer than
the chunk length (any number of T/S lists — the spill to a continuation sector —, holes across lists, short chunks):
an accepted put inserts exactly one record on previously free sectors which reads back the stored chunks index for
index; every refusal (wrong file system or chunk length, invalid name, empty image, name in use, not enough free
sectors, catalog full, no type) leaves all files as they were and the volume well formed. -/
theorem dos_put_refines {d : Disk} {sb : List Nat} (h : DInv d sb) (f : FImg) (hfit : ChunksFit f) :
    DInv (put d f).2 sb ∧ ∃ pre post, reading d sb = .ok pre ∧ reading (put d f).2 sb = .ok post ∧
      stepOk dosParams pre (.put (pathOf f.fullPath) (putChunks f) 0 (f.fsType.getD 0 0 % 128) 0) (isOk (put d f).1) post = true := by
  unfold put
  by_cases h1 : f.fsOk = true
  · by_cases h2 : f.chunkLen = 256
    · by_cases hv : isNameValid f.fullPath = true
      · obtain ⟨fname, hfn, hfl, hfb⟩ := stringToFileName_ok hv
        obtain ⟨v, L, hvt, hi⟩ := h
        have hp : pathOf f.fullPath = pathOfName fname := by unfold pathOf; rw [hfn]
        simp only [h1, Bool.not_true, Bool.false_eq_true, if_false, h2, ne_eq, not_true_eq_false, hv, hp]
        exact lift_refines' hvt hi (putM_refines hi hfit hfn hfl hfb)
      · simp only [h1, Bool.not_true, Bool.false_eq_true, if_false, h2, ne_eq, not_true_eq_false, hv, Bool.not_false, if_true]
        exact refused_same h _
    · simp only [h1, Bool.not_true, Bool.false_eq_true, if_false, ne_eq, h2, not_false_eq_true, if_true]
      exact refused_same h _
  · simp only [h1, Bool.not_false, if_true]
    exact refused_same h _

/-! ## `init` -/

/-- `init33(254,false)` / `init32(254,false)` on a blank 35-track image succeed and establish the invariant,
with the format-time system units `initSys c` (VTOC, catalog track, track 0). -/
theorem dos_init_establishes_inv {c : Nat} (hc : c = 13 ∨ c = 16) :
    (init (blank c) 254 c).1 = .ok () ∧ DInv (init (blank c) 254 c).2 (initSys c) := by
  obtain ⟨w, h, hi, _⟩ := init_winv hc
  rw [h]
  exact ⟨rfl, dinv_toDisk hi⟩

/-- non-vacuity: a freshly initialised DOS 3.3 volume is read as an empty, well-formed volume with 496 free sectors -/
example : ∃ v, reading (init (blank 16) 254 16).2 (initSys 16) = .ok v ∧ v.wfB = true := by
  obtain ⟨_, v, _, _, hr, hw⟩ := dinv_reading (dos_init_establishes_inv (c := 16) (Or.inr rfl)).2
  exact ⟨v, hr, hw⟩

/-! ## histories -/

/-- operations of the concrete model -/
inductive Op where
  | put (f : FImg)
  | delete (name : Bytes)
  | rename (old new : Bytes)
  | lock (name : Bytes)
  | unlock (name : Bytes)
  | retype (name : Bytes) (ty : Option Nat)

/-- run one operation: (did it report success, the disk afterwards) -/
def Op.run (d : Disk) : Op → Bool × Disk
  | .put f => (isOk (Fs.Dos3x.put d f).1, (Fs.Dos3x.put d f).2)
  | .delete name => (isOk (Fs.Dos3x.delete d name).1, (Fs.Dos3x.delete d name).2)
  | .rename old new => (isOk (Fs.Dos3x.rename d old new).1, (Fs.Dos3x.rename d old new).2)
  | .lock name => (isOk (Fs.Dos3x.lock d name).1, (Fs.Dos3x.lock d name).2)
  | .unlock name => (isOk (Fs.Dos3x.unlock d name).1, (Fs.Dos3x.unlock d name).2)
  | .retype name ty => (isOk (Fs.Dos3x.retype d name ty).1, (Fs.Dos3x.retype d name ty).2)

/-- the abstract operation a concrete one stands for (names are stored upper-cased, blank-trimmed) -/
def Op.abs : Op → FsOp
  | .put f => .put (pathOf f.fullPath) (putChunks f) 0 (f.fsType.getD 0 0 % 128) 0
  | .delete name => .delete (pathOf name)
  | .rename old new => .rename (pathOf old) (pathOf new)
  | .lock name => .lock (pathOf name)
  | .unlock name => .unlock (pathOf name)
  | .retype name _ => .retype (pathOf name)

/-- the reading of a disk as a value (`default` if the reader fails — it does not under `DInv`) -/
def volD (d : Disk) (sb : List Nat) : Vol := match reading d sb with | .ok v => v | .error _ => default

theorem reading_volD {d : Disk} {sb : List Nat} (h : DInv d sb) : reading d sb = .ok (volD d sb) ∧ (volD d sb).wfB = true := by
  obtain ⟨_, v, _, _, hr, hw⟩ := dinv_reading h
  unfold volD; rw [hr]; exact ⟨rfl, hw⟩

/-- the per-step refinement statement for one operation: invariant kept, step allowed by the specification -/
def StepRefines (op : Op) : Prop := ∀ (d : Disk) (sb : List Nat), DInv d sb →
  DInv (op.run d).2 sb ∧ stepOk dosParams (volD d sb) op.abs (op.run d).1 (volD (op.run d).2 sb) = true

/-- operations that rewrite one catalog entry without touching the bitmap -/
def Op.isMeta : Op → Bool
  | .put _ | .delete _ => false
  | _ => true

/-- every operation except `put` -/
def Op.notPut : Op → Bool
  | .put _ => false
  | _ => true

theorem of_readings {d d' : Disk} {sb : List Nat} {op : FsOp} {ok : Bool}
    (h : DInv d' sb ∧ ∃ pre post, reading d sb = .ok pre ∧ reading d' sb = .ok post ∧ stepOk dosParams pre op ok post = true) :
    DInv d' sb ∧ stepOk dosParams (volD d sb) op ok (volD d' sb) = true := by
  obtain ⟨h1, pre, post, hp, hq, hs⟩ := h
  refine ⟨h1, ?_⟩
  unfold volD; rw [hp, hq]; exact hs

/-- **Refinement, one step** (proved for `lock`, `unlock`, `retype`, `rename`) -/
theorem meta_step_refines (op : Op) (hm : op.isMeta = true) : StepRefines op := by
  intro d sb h
  cases op with
  | put f => cases hm
  | delete name => cases hm
  | rename old new => exact of_readings (dos_rename_refines h old new)
  | lock name => exact of_readings (dos_lock_refines h name)
  | unlock name => exact of_readings (dos_unlock_refines h name)
  | retype name ty => exact of_readings (dos_retype_refines h name ty)

/-- the only condition on the arguments: a file image handed to `put` has no chunk longer than its chunk length
(`ChunksFit`; a2kit truncates longer chunks silently, so the condition cannot be dropped — `design/FsDos.md` §6) -/
def Op.ArgsOk : Op → Prop
  | .put f => ChunksFit f
  | _ => True

/-- **Refinement, one step**: every operation of the concrete model keeps the invariant and is a step the abstract
specification allows -/
theorem step_refines (op : Op) (ha : op.ArgsOk) : StepRefines op := by
  intro d sb h
  cases op with
  | put f => exact of_readings (dos_put_refines h f ha)
  | delete name => exact of_readings (dos_delete_refines h name)
  | rename old new => exact of_readings (dos_rename_refines h old new)
  | lock name => exact of_readings (dos_lock_refines h name)
  | unlock name => exact of_readings (dos_unlock_refines h name)
  | retype name ty => exact of_readings (dos_retype_refines h name ty)

/-- **Refinement, one step**, for every operation except `put` -/
theorem notPut_step_refines (op : Op) (hm : op.notPut = true) : StepRefines op := by
  intro d sb h
  cases op with
  | put f => cases hm
  | delete name => exact of_readings (dos_delete_refines h name)
  | rename old new => exact of_readings (dos_rename_refines h old new)
  | lock name => exact of_readings (dos_lock_refines h name)
  | unlock name => exact of_readings (dos_unlock_refines h name)
  | retype name ty => exact of_readings (dos_retype_refines h name ty)

/-- the checked steps a history of concrete operations produces -/
def trace (sb : List Nat) : Disk → List Op → List Step
  | _, [] => []
  | d, op :: ops => ⟨op.abs, (op.run d).1, volD (op.run d).2 sb⟩ :: trace sb (op.run d).2 ops

def finalDisk : Disk → List Op → Disk
  | d, [] => d
  | d, op :: ops => finalDisk (op.run d).2 ops

/-- **Refinement, histories**: every history of concrete operations each of which refines the specification,
started from a disk satisfying the invariant, is a valid trace of the abstract specification; the invariant holds
at the end and the final reading is the reading of the final disk. -/
theorem history_refines {sb : List Nat} : ∀ (ops : List Op) {d : Disk}, DInv d sb → (∀ op ∈ ops, StepRefines op) →
    validFrom dosParams (volD d sb) (trace sb d ops) ∧ DInv (finalDisk d ops) sb ∧
    finalVol (volD d sb) (trace sb d ops) = volD (finalDisk d ops) sb := by
  intro ops
  induction ops with
  | nil => intro d h _; exact ⟨trivial, h, rfl⟩
  | cons op ops ih =>
    intro d h ha
    obtain ⟨h1, h2⟩ := ha op List.mem_cons_self d sb h
    obtain ⟨a, b, c⟩ := ih h1 (fun o ho => ha o (List.mem_cons_of_mem _ ho))
    refine ⟨⟨h2, a⟩, b, ?_⟩
    show finalVol (volD d sb) (⟨op.abs, (op.run d).1, volD (op.run d).2 sb⟩ :: trace sb (op.run d).2 ops) = _
    rw [finalVol_cons]
    exact c

theorem mem_trace {sb : List Nat} : ∀ {ops : List Op} {d : Disk} {s : Step}, s ∈ trace sb d ops → ∃ op ∈ ops, s.op = op.abs := by
  intro ops
  induction ops with
  | nil => intro d s hs; cases hs
  | cons op ops ih =>
    intro d s hs
    rcases List.mem_cons.1 hs with rfl | hs
    · exact ⟨op, List.mem_cons_self, rfl⟩
    · obtain ⟨o, ho, e⟩ := ih hs
      exact ⟨o, List.mem_cons_of_mem _ ho, e⟩

/-- histories of `lock`/`unlock`/`retype`/`rename` refine the specification unconditionally -/
theorem meta_history_refines {sb : List Nat} (ops : List Op) {d : Disk} (h : DInv d sb) (hm : ∀ op ∈ ops, op.isMeta = true) :
    validFrom dosParams (volD d sb) (trace sb d ops) ∧ DInv (finalDisk d ops) sb ∧
    finalVol (volD d sb) (trace sb d ops) = volD (finalDisk d ops) sb :=
  history_refines ops h (fun op ho => meta_step_refines op (hm op ho))

/-! ## the history-level theorems of C01 … C05 for the concrete DOS model

Each is the instance of the generic theorem of `Props/C0x.lean` for traces of the concrete model.  They are
stated for histories **all of whose operations satisfy `StepRefines`** — proved here for `lock`, `unlock`,
`retype`, `rename` (`meta_step_refines`); for `put` and `delete` the per-step refinement is not yet proved, so
these theorems are `…_partial`: what is missing for the full statement is exactly `StepRefines (.put f)` (for
file images within the model's scope) and `StepRefines (.delete name)`. -/

/-- C03 (`dos_states_well_formed`, partial): the disk after **every** step of the history, successful or
refused, is read by the independent reader as a well-formed volume.  Full statement: the same without the
hypothesis `hops`. -/
theorem dos_states_well_formed_partial {sb : List Nat} {d : Disk} (h : DInv d sb) {ops : List Op}
    (hops : ∀ op ∈ ops, StepRefines op) :
    (∀ s ∈ trace sb d ops, s.post.wfB = true) ∧
    reading (finalDisk d ops) sb = .ok (volD (finalDisk d ops) sb) ∧ (volD (finalDisk d ops) sb).wfB = true := by
  obtain ⟨hv, hfin, _⟩ := history_refines ops h hops
  exact ⟨C03.every_state_well_formed hv, (reading_volD hfin).1, (reading_volD hfin).2⟩

/-- C03, unconditional for histories of catalog-entry operations -/
theorem dos_states_well_formed_meta {sb : List Nat} {d : Disk} (h : DInv d sb) {ops : List Op}
    (hm : ∀ op ∈ ops, op.isMeta = true) :
    (∀ s ∈ trace sb d ops, s.post.wfB = true) ∧ (volD (finalDisk d ops) sb).wfB = true := by
  have := dos_states_well_formed_partial h (fun op ho => meta_step_refines op (hm op ho))
  exact ⟨this.1, this.2.2⟩

theorem volD_isDir {sb : List Nat} {d : Disk} (h : DInv d sb) {g : FileRec} (hg : g ∈ (volD d sb).files) : g.isDir = false := by
  obtain ⟨v, L, hv, hi⟩ := h
  have hr := reading_toDisk hi
  rw [toDisk_eq hv] at hr
  have : volD d sb = volOf (W.mk d.c d.raw v).img d.c sb L := by unfold volD; rw [hr]
  rw [this] at hg
  obtain ⟨e, t, _, _, _, rfl⟩ := mem_filesOf hi.desc.files hg
  rfl

/-- C02 (`dos_bystanders_survive`, partial): a file that no operation of the history names is found
bit-identical (content, type, lock flag, sectors) in the reading of the final disk. -/
theorem dos_bystanders_survive_partial {sb : List Nat} {d : Disk} (h : DInv d sb) {ops : List Op}
    (hops : ∀ op ∈ ops, StepRefines op) {q : Bytes} {g : FileRec} (hg : (volD d sb).lookup q = some g)
    (hq : ∀ op ∈ ops, q ∉ op.abs.targets) : (volD (finalDisk d ops) sb).lookup q = some g := by
  obtain ⟨hv, _, heq⟩ := history_refines ops h hops
  have hd : g.isDir = false := volD_isDir h (lookup_some hg).1
  have := C02.bystanders_survive_history hv (fun s hs => by
    obtain ⟨op, ho, e⟩ := mem_trace hs
    rw [e]; exact hq op ho) hg hd
  rw [heq] at this
  exact this

/-- C05 (`dos_listing_is_history_fold`, partial): the names the reader lists after a history are exactly the
fold of the history over the initial listing, and they are pairwise different. -/
theorem dos_listing_is_history_fold_partial {sb : List Nat} {d : Disk} (h : DInv d sb) {ops : List Op}
    (hops : ∀ op ∈ ops, StepRefines op) (q : Bytes) :
    (q ∈ (volD (finalDisk d ops) sb).paths ↔ q ∈ foldPaths (volD d sb).paths (trace sb d ops)) ∧
    (volD (finalDisk d ops) sb).paths.Nodup := by
  obtain ⟨hv, hfin, heq⟩ := history_refines ops h hops
  have := C05.listing_is_history_fold' hv q
  rw [heq] at this
  exact ⟨this, wfB_paths_nodup (reading_volD hfin).2⟩

/-- C01 (`dos_get_returns_last_put`, partial): after an accepted `put` (whose step refines the specification),
and any further history that does not name the file, the file the reader finds holds the stored chunks index for
index, each beginning with the stored bytes, and the stored type. -/
theorem dos_get_returns_last_put_partial {sb : List Nat} {d : Disk} (h : DInv d sb) {f : FImg}
    (hput : StepRefines (.put f)) (hok : ((Op.put f).run d).1 = true) {ops : List Op}
    (hops : ∀ op ∈ ops, StepRefines op) (hq : ∀ op ∈ ops, pathOf f.fullPath ∉ op.abs.targets) :
    ∃ g, (volD (finalDisk ((Op.put f).run d).2 ops) sb).lookup (pathOf f.fullPath) = some g ∧
      chunksMatch (putChunks f) g.chunks = true ∧ g.ftype = f.fsType.getD 0 0 % 128 ∧ g.isDir = false := by
  obtain ⟨h1, h2⟩ := hput d sb h
  rw [hok] at h2
  obtain ⟨hv, _, heq⟩ := history_refines ops h1 hops
  obtain ⟨g, hg, _, hc, _, hd, ht, _⟩ := C01.get_returns_last_put h2 hv (fun s hs => by
    obtain ⟨op, ho, e⟩ := mem_trace hs
    rw [e]; exact hq op ho)
  rw [heq] at hg
  exact ⟨g, hg, hc, ht rfl, hd⟩


/-! ## the history-level theorems, unconditional within `ArgsOk`

Histories of `put` (any size: one or many T/S lists, sparse, short chunks), `delete`, `rename`, `lock`, `unlock`,
`retype`, started from any disk satisfying the invariant (e.g. a freshly initialised one, `dos_init_establishes_inv`). -/

theorem full_history_refines {sb : List Nat} (ops : List Op) {d : Disk} (h : DInv d sb) (ha : ∀ op ∈ ops, op.ArgsOk) :
    validFrom dosParams (volD d sb) (trace sb d ops) ∧ DInv (finalDisk d ops) sb ∧
    finalVol (volD d sb) (trace sb d ops) = volD (finalDisk d ops) sb :=
  history_refines ops h (fun op ho => step_refines op (ha op ho))

/-- **Refinement, histories, without a per-step hypothesis** (C01–C05 for the concrete DOS model): every history of
`put` (any number of T/S lists, sparse, short chunks; no chunk longer than the chunk length), `delete`, `rename`,
`lock`, `unlock`, `retype` from a disk satisfying the invariant is a valid trace of the abstract specification; the
invariant holds at the end and the final reading is the reading of the final disk. -/
theorem dos_history_refines {sb : List Nat} (ops : List Op) {d : Disk} (h : DInv d sb) (ha : ∀ op ∈ ops, op.ArgsOk) :
    validFrom dosParams (volD d sb) (trace sb d ops) ∧ DInv (finalDisk d ops) sb ∧
    finalVol (volD d sb) (trace sb d ops) = volD (finalDisk d ops) sb :=
  full_history_refines ops h ha

/-- C03 for the concrete DOS model: the disk after **every** step of every history, successful or refused, is read
by the independent reader as a well-formed volume -/
theorem dos_states_well_formed {sb : List Nat} {d : Disk} (h : DInv d sb) {ops : List Op} (ha : ∀ op ∈ ops, op.ArgsOk) :
    (∀ s ∈ trace sb d ops, s.post.wfB = true) ∧
    reading (finalDisk d ops) sb = .ok (volD (finalDisk d ops) sb) ∧ (volD (finalDisk d ops) sb).wfB = true :=
  dos_states_well_formed_partial h (fun op ho => step_refines op (ha op ho))

/-- C02 for the concrete DOS model: a file that no operation of the history names is found bit-identical
(content, type, lock flag, sectors) in the reading of the final disk -/
theorem dos_bystanders_survive {sb : List Nat} {d : Disk} (h : DInv d sb) {ops : List Op} (ha : ∀ op ∈ ops, op.ArgsOk)
    {q : Bytes} {g : FileRec} (hg : (volD d sb).lookup q = some g) (hq : ∀ op ∈ ops, q ∉ op.abs.targets) :
    (volD (finalDisk d ops) sb).lookup q = some g :=
  dos_bystanders_survive_partial h (fun op ho => step_refines op (ha op ho)) hg hq

/-- C05 for the concrete DOS model: the names the reader lists after a history are exactly the fold of the history
over the initial listing (accepted puts add, accepted deletes remove, accepted renames replace, everything else —
and every refusal — changes nothing), and they are pairwise different -/
theorem dos_listing_is_history_fold {sb : List Nat} {d : Disk} (h : DInv d sb) {ops : List Op} (ha : ∀ op ∈ ops, op.ArgsOk) (q : Bytes) :
    (q ∈ (volD (finalDisk d ops) sb).paths ↔ q ∈ foldPaths (volD d sb).paths (trace sb d ops)) ∧
    (volD (finalDisk d ops) sb).paths.Nodup :=
  dos_listing_is_history_fold_partial h (fun op ho => step_refines op (ha op ho)) q

/-- C01 for the concrete DOS model: after an accepted `put` (any number of T/S lists), and any further
history that does not name the file, the file the reader finds holds the stored chunks index for index, each
beginning with the stored bytes, and the stored type -/
theorem dos_get_returns_last_put {sb : List Nat} {d : Disk} (h : DInv d sb) {f : FImg} (hone : ChunksFit f)
    (hok : ((Op.put f).run d).1 = true) {ops : List Op} (ha : ∀ op ∈ ops, op.ArgsOk)
    (hq : ∀ op ∈ ops, pathOf f.fullPath ∉ op.abs.targets) :
    ∃ g, (volD (finalDisk ((Op.put f).run d).2 ops) sb).lookup (pathOf f.fullPath) = some g ∧
      chunksMatch (putChunks f) g.chunks = true ∧ g.ftype = f.fsType.getD 0 0 % 128 ∧ g.isDir = false :=
  dos_get_returns_last_put_partial h (step_refines (.put f) hone) hok (fun op ho => step_refines op (ha op ho)) hq

/-- C04, acceptance clause (`dos_fits_is_accepted`): a DOS file image with the right chunk length, at least one chunk,
a type, a valid name not yet listed, for which the catalog has a free entry and `sectorsNeeded f` = data sectors +
`⌈end/122⌉` T/S list sectors are free, **is accepted** — `put` returns `Ok(sectorsNeeded f)`.  a2kit answers
DISK FULL when the catalog is full, hence the slot hypothesis. -/
theorem dos_fits_is_accepted {d : Disk} {sb : List Nat} {v : Bytes} {L : Lay} (hv : d.vtoc = some v)
    (hi : WInv { c := d.c, raw := d.raw, v := v } sb L) {f : FImg} (hone : ChunksFit f)
    (hfs : f.fsOk = true) (hcl : f.chunkLen = 256) (hname : isNameValid f.fullPath = true) (hch : f.chunks.length ≠ 0)
    (hty : f.fsType ≠ []) (hfresh : pathOf f.fullPath ∉ (volD d sb).paths)
    (hslot : (slotIn (W.mk d.c d.raw v).img d.c L.cat).isSome = true) (hspace : sectorsNeeded f ≤ nfree v d.c) :
    (put d f).1 = .ok (sectorsNeeded f) := by
  have hr := reading_toDisk hi
  rw [toDisk_eq hv] at hr
  have hvd : volD d sb = volOf (W.mk d.c d.raw v).img d.c sb L := by unfold volD; rw [hr]
  rw [hvd] at hfresh
  unfold put
  simp only [hfs, Bool.not_true, Bool.false_eq_true, if_false, hcl, ne_eq, not_true_eq_false, hname]
  rw [run_eq hv]
  exact writeFile_accepts hi hone hname hch hty hfresh hslot hspace

/-- non-vacuity of `dos_fits_is_accepted` and of the spill branch of `dos_put_refines`: on a freshly initialised
DOS 3.3 volume (528 free sectors, empty catalog) the sparse file image `exB` (chunks 0 and 123, i.e. **two** T/S
lists) meets every hypothesis, so `put` answers `Ok(4)` = 2 data sectors + 2 T/S lists -/
example : (put fresh16 exB).1 = .ok 4 := by
  have hi := fresh16_winv
  have hnf : (volD fresh16 (initSys 16)).paths = [] := by
    have hr := reading_toDisk hi
    rw [toDisk_eq fresh16_vtoc] at hr
    unfold volD; rw [hr]
    exact paths_of_no_tsls rfl
  have := dos_fits_is_accepted (sb := initSys 16) (L := initLay 16) fresh16_vtoc hi exB_fit rfl rfl (by decide) (by decide) (by decide)
    (by rw [hnf]; exact List.not_mem_nil) (by rw [fresh16_c]; exact fresh16_slot) (by rw [fresh16_c, fresh16_free, exB_needs.1]; decide)
  rw [exB_needs.1] at this
  exact this

/-- … and the disk after that put satisfies the invariant again and reads back the two chunks at indices 0 and 123 -/
example : DInv (put fresh16 exB).2 (initSys 16) ∧ ∃ pre post, reading fresh16 (initSys 16) = .ok pre ∧
    reading (put fresh16 exB).2 (initSys 16) = .ok post ∧
    stepOk dosParams pre (.put (pathOf exB.fullPath) (putChunks exB) 0 (exB.fsType.getD 0 0 % 128) 0) (isOk (put fresh16 exB).1) post = true :=
  dos_put_refines ⟨_, _, fresh16_vtoc, fresh16_winv⟩ exB exB_fit

/-- C04, the reported free count: `stat().free_blocks` of the concrete model is the number of units the independent
reader finds marked free in the VTOC bitmap of the flushed image -/
theorem dos_stat_free_is_reading {d : Disk} {sb : List Nat} (h : DInv d sb) : (statFree d).1 = .ok (volD d sb).free := by
  obtain ⟨v, L, hv, hi⟩ := h
  have hr := reading_toDisk hi
  rw [toDisk_eq hv] at hr
  have hvd : volD d sb = volOf (W.mk d.c d.raw v).img d.c sb L := by unfold volD; rw [hr]
  unfold statFree
  rw [run_eq hv]
  simp only [M.bind_apply, M.getV_apply, M.lift_apply]
  rw [numFree_eq hi.ok.vok, hvd]
  show _ = Except.ok (freeOf (W.mk d.c d.raw v).img d.c).length
  rw [freeOf_eq hi.ok]
  rfl

/-! ## non-vacuity: a concrete history on a freshly initialised DOS 3.3 volume -/

def exA : FImg := { fullPath := [72, 105], fsType := [4], chunks := [(0, [7, 7, 7, 7]), (2, [1, 2, 3])] }

theorem exA_one : ChunksFit exA := by
  · intro k d hd
    have : (k = 0 ∧ d = [7, 7, 7, 7]) ∨ (k = 2 ∧ d = [1, 2, 3]) := by
      unfold exA at hd
      simp only [List.lookup] at hd
      by_cases h0 : k = 0
      · subst h0; simp at hd; exact Or.inl ⟨rfl, hd.symm⟩
      · have e0 : (k == 0) = false := by simpa using h0
        rw [e0] at hd
        by_cases h2 : k = 2
        · subst h2; simp at hd; exact Or.inr ⟨rfl, hd.symm⟩
        · have e2 : (k == 2) = false := by simpa using h2
          rw [e2] at hd; cases hd
    rcases this with ⟨_, rfl⟩ | ⟨_, rfl⟩ <;> simp

/-- every state of this history (put a sparse file, lock it, a refused delete, unlock, rename, delete) on a fresh
DOS 3.3 volume is well formed, and the names listed at the end are the fold of the history -/
example : ∀ s ∈ trace (initSys 16) (init (blank 16) 254 16).2
    [.put exA, .lock [72, 105], .delete [72, 105], .unlock [72, 105], .rename [72, 105] [89, 111], .delete [89, 111]],
    s.post.wfB = true :=
  (dos_states_well_formed (dos_init_establishes_inv (c := 16) (Or.inr rfl)).2 (by
    intro op ho
    simp only [List.mem_cons, List.mem_nil_iff, or_false] at ho
    rcases ho with rfl | rfl | rfl | rfl | rfl | rfl
    · exact exA_one
    all_goals trivial)).1

end A2Verif.FsDos
