import A2Verif.Lemmas.FsDosInit
import A2Verif.Lemmas.FsDosDelete
import A2Verif.Lemmas.FsDosPutD
import A2Verif.Lemmas.FsDosFresh
import A2Verif.Lemmas.FsDosCat
import A2Verif.Props.C01
import A2Verif.Props.C03
import A2Verif.Props.C04
import A2Verif.Props.C05
/-!
# The concrete DOS 3.x model refines the abstract volume specification (C01–C05, DOS 3.3 / 3.2)

`Model/Fs/Dos3x.lean` is a transcription of a2kit's DOS 3.x code, tied to the real code byte for byte by the
harness (driver family `fsd`).  Here: the on-disk invariant `Inv`, the theorem that the independent reader
(`Model/Read/Dos3x.lean`) succeeds on every image satisfying it and returns a well-formed volume (C03), and the
per-operation refinement theorems: `put` (any number of T/S lists, sparse files, short chunks), `delete`, `lock`,
`unlock`, `retype`, `rename` of the concrete model keep the invariant and their effect on the reading is a step the
abstract specification (`stepOk`) allows; hence every history of concrete operations is a valid trace and the history
theorems of C01–C05 hold for the concrete model.

The reading of a disk is what the harness sees: the image after the VTOC buffer has been written back
(`Disk.flush` = `get_img()`), read by `Read.Dos3x.read` with the format-time system units `sb`.
-/
set_option linter.unusedSimpArgs false
namespace A2Verif.FsDos
open A2Verif.Fs.Dos3x A2Verif.Read.Dos3x

/-- **The on-disk invariant** of a saved DOS 3.x image with `c` sectors per track: there is a layout `L`
(catalog chain, one T/S list chain per live entry) such that the VTOC is sane (35 tracks, `c` sectors, 122 pairs),
the catalog chain is intact within the reader's fuel, every live entry's T/S chain is well formed within fuel
with all pointers in range (`Describes`), and what the chains lead to satisfies the C03 conditions (`wfB`: all
referenced sectors in range, pairwise disjoint and disjoint from VTOC / catalog / format-time system sectors `sb`,
marked used in the bitmap, names unique, chunk indices ascending). -/
def Inv (r : Raw) (c : Nat) (sb : List Nat) : Prop := ∃ L, Describes r c L ∧ (volOf r c sb L).wfB = true

/-- C03 for the concrete DOS model, reader side: on every image satisfying the invariant the independent
reader succeeds and what it returns is well formed. -/
theorem inv_read {r : Raw} {c : Nat} {sb : List Nat} (h : Inv r c sb) :
    ∃ v, Read.Dos3x.read r (some sb) = .ok v ∧ v.wfB = true := by
  obtain ⟨L, hd, hw⟩ := h
  exact ⟨_, read_ok sb hd, hw⟩

/-- invariant of the file system object: the VTOC buffer is open and the working state satisfies `WInv`
(geometry and buffer sane, the flushed image satisfies `Inv`, live names carry bit 7, the catalog is not empty) -/
def DInv (d : Disk) (sb : List Nat) : Prop := ∃ v L, d.vtoc = some v ∧ WInv { c := d.c, raw := d.raw, v := v } sb L

/-- what the harness reads after an operation: flush (`get_img()`), then the independent reader -/
def reading (d : Disk) (sb : List Nat) : Except String Vol :=
  match d.flush with
  | .ok r => Read.Dos3x.read r (some sb)
  | .error _ => .error "flush-failed"

theorem flush_toDisk {w : W} (h : WOk w) : w.toDisk.flush = .ok w.img := by
  unfold Disk.flush W.toDisk
  simp only
  have := imgWrite_ok h (t := Fs.Dos3x.vtocTrack) (s := 0) (by decide) (by rcases h.hc with e | e <;> omega) w.v
  rw [this]
  rfl

theorem reading_toDisk {w : W} {sb : List Nat} {L : Lay} (hi : WInv w sb L) :
    reading w.toDisk sb = .ok (volOf w.img w.c sb L) := by
  unfold reading
  rw [flush_toDisk hi.ok]
  exact read_ok sb hi.desc

theorem dinv_toDisk {w : W} {sb : List Nat} {L : Lay} (hi : WInv w sb L) : DInv w.toDisk sb :=
  ⟨w.v, L, rfl, hi⟩

theorem toDisk_eq {d : Disk} {v : Bytes} (h : d.vtoc = some v) : (W.mk d.c d.raw v).toDisk = d := by
  cases d; simp only [W.toDisk] at *; rw [h]

theorem run_eq {α : Type} {d : Disk} {v : Bytes} (h : d.vtoc = some v) (m : M α) :
    d.run m = ((m (W.mk d.c d.raw v)).1, (m (W.mk d.c d.raw v)).2.toDisk) := by
  unfold Disk.run openVtoc
  rw [h]

/-- C03: the invariant of the object implies the on-disk invariant of the flushed image; its reading is
well formed -/
theorem dinv_reading {d : Disk} {sb : List Nat} (h : DInv d sb) :
    ∃ r v, d.flush = .ok r ∧ Inv r d.c sb ∧ reading d sb = .ok v ∧ v.wfB = true := by
  obtain ⟨v, L, hv, hi⟩ := h
  have hd := toDisk_eq hv
  refine ⟨_, _, by rw [← hd]; exact flush_toDisk hi.ok, ⟨L, hi.desc, hi.wf⟩, by rw [← hd]; exact reading_toDisk hi, hi.wf⟩

/-- a refused operation that returns the disk as it was is a step the specification allows -/
theorem refused_same {d : Disk} {sb : List Nat} (h : DInv d sb) (op : FsOp) :
    DInv d sb ∧ ∃ pre post, reading d sb = .ok pre ∧ reading d sb = .ok post ∧ stepOk dosParams pre op false post = true := by
  obtain ⟨_, v, _, _, hr, hw⟩ := dinv_reading h
  exact ⟨h, v, v, hr, hr, stepOk_refused_same hw op⟩

/-- **one step of the concrete model, with its accounting**: the invariant is kept, the geometry is kept, the readings
before and after are related by a step the specification allows, and (under `cond`) a reading without lost units
stays so (`StepL`) -/
def StepD (d d' : Disk) (sb : List Nat) (op : FsOp) (ok : Bool) (cond : Prop) : Prop :=
  DInv d' sb ∧ d'.c = d.c ∧ ∃ pre post, reading d sb = .ok pre ∧ reading d' sb = .ok post ∧ StepL dosParams pre op ok post cond

theorem StepD.refines {d d' : Disk} {sb : List Nat} {op : FsOp} {ok : Bool} {cond : Prop} (h : StepD d d' sb op ok cond) :
    DInv d' sb ∧ ∃ pre post, reading d sb = .ok pre ∧ reading d' sb = .ok post ∧ stepOk dosParams pre op ok post = true := by
  obtain ⟨h1, _, pre, post, a, b, c⟩ := h
  exact ⟨h1, pre, post, a, b, c.ok⟩

theorem StepD.same {d : Disk} {sb : List Nat} (h : DInv d sb) (op : FsOp) (cond : Prop) : StepD d d sb op false cond := by
  obtain ⟨_, v, _, _, hr, hw⟩ := dinv_reading h
  exact ⟨h, rfl, v, v, hr, hr, StepL.refused_same hw op cond⟩

/-- transfer of a working-state refinement to the disk object -/
theorem lift_refines {d : Disk} {sb : List Nat} {v : Bytes} {L : Lay} (hv : d.vtoc = some v)
    (hi : WInv { c := d.c, raw := d.raw, v := v } sb L) {α : Type} {m : M α} {op : FsOp} {cond : Prop}
    (h : ∃ res w', m { c := d.c, raw := d.raw, v := v } = (res, w') ∧ WInv w' sb L ∧ w'.c = d.c ∧
      StepL dosParams (volOf (W.mk d.c d.raw v).img d.c sb L) op (isOk res) (volOf w'.img d.c sb L) cond) :
    StepD d (d.run m).2 sb op (isOk (d.run m).1) cond := by
  obtain ⟨res, w', hm, hi', hc', hs⟩ := h
  rw [run_eq hv, hm]
  refine ⟨dinv_toDisk hi', hc', volOf (W.mk d.c d.raw v).img d.c sb L, volOf w'.img d.c sb L, ?_, ?_, ?_⟩
  · have := reading_toDisk hi; rw [toDisk_eq hv] at this; exact this
  · have := reading_toDisk hi'; rw [hc'] at this; exact this
  · exact hs

/-! ## the operations -/

/-- `lock` of the concrete model, with its accounting -/
theorem dos_lock_stepD {d : Disk} {sb : List Nat} (h : DInv d sb) (name : Bytes) :
    StepD d (lock d name).2 sb (.lock (pathOf name)) (isOk (lock d name).1) True := by
  unfold lock Fs.Dos3x.modify
  by_cases hv : isNameValid name = true
  · obtain ⟨fname, hfn, _, _⟩ := stringToFileName_ok hv
    obtain ⟨v, L, hvt, hi⟩ := h
    have hp : pathOf name = pathOfName fname := by unfold pathOf; rw [hfn]
    simp only [hv, Bool.not_true, Bool.false_eq_true, if_false, hp]
    have hr := lockM_refines (P := dosParams) hi hfn true
    simp only [if_true] at hr
    exact lift_refines hvt hi hr
  · simp only [hv, Bool.not_false, if_true]
    exact StepD.same h _ _

/-- `lock` of the concrete model refines the specification: the invariant is kept and the readings before and
after are related by `stepOk … (.lock path) …` (refused: nothing changed). -/
theorem dos_lock_refines {d : Disk} {sb : List Nat} (h : DInv d sb) (name : Bytes) :
    DInv (lock d name).2 sb ∧ ∃ pre post, reading d sb = .ok pre ∧ reading (lock d name).2 sb = .ok post ∧
      stepOk dosParams pre (.lock (pathOf name)) (isOk (lock d name).1) post = true :=
  (dos_lock_stepD h name).refines

theorem dos_unlock_stepD {d : Disk} {sb : List Nat} (h : DInv d sb) (name : Bytes) :
    StepD d (unlock d name).2 sb (.unlock (pathOf name)) (isOk (unlock d name).1) True := by
  unfold unlock Fs.Dos3x.modify
  by_cases hv : isNameValid name = true
  · obtain ⟨fname, hfn, _, _⟩ := stringToFileName_ok hv
    obtain ⟨v, L, hvt, hi⟩ := h
    have hp : pathOf name = pathOfName fname := by unfold pathOf; rw [hfn]
    simp only [hv, Bool.not_true, Bool.false_eq_true, if_false, hp]
    have hr := lockM_refines (P := dosParams) hi hfn false
    simp only [Bool.false_eq_true, if_false] at hr
    exact lift_refines hvt hi hr
  · simp only [hv, Bool.not_false, if_true]
    exact StepD.same h _ _

theorem dos_unlock_refines {d : Disk} {sb : List Nat} (h : DInv d sb) (name : Bytes) :
    DInv (unlock d name).2 sb ∧ ∃ pre post, reading d sb = .ok pre ∧ reading (unlock d name).2 sb = .ok post ∧
      stepOk dosParams pre (.unlock (pathOf name)) (isOk (unlock d name).1) post = true :=
  (dos_unlock_stepD h name).refines

theorem dos_retype_stepD {d : Disk} {sb : List Nat} (h : DInv d sb) (name : Bytes) (ty : Option Nat) :
    StepD d (retype d name ty).2 sb (.retype (pathOf name)) (isOk (retype d name ty).1) True := by
  unfold retype Fs.Dos3x.modify
  by_cases hv : isNameValid name = true
  · obtain ⟨fname, hfn, _, _⟩ := stringToFileName_ok hv
    obtain ⟨v, L, hvt, hi⟩ := h
    have hp : pathOf name = pathOfName fname := by unfold pathOf; rw [hfn]
    simp only [hv, Bool.not_true, Bool.false_eq_true, if_false, hp]
    exact lift_refines hvt hi (retypeM_refines hi hfn ty)
  · simp only [hv, Bool.not_false, if_true]
    exact StepD.same h _ _

theorem dos_retype_refines {d : Disk} {sb : List Nat} (h : DInv d sb) (name : Bytes) (ty : Option Nat) :
    DInv (retype d name ty).2 sb ∧ ∃ pre post, reading d sb = .ok pre ∧ reading (retype d name ty).2 sb = .ok post ∧
      stepOk dosParams pre (.retype (pathOf name)) (isOk (retype d name ty).1) post = true :=
  (dos_retype_stepD h name ty).refines

theorem dos_rename_stepD {d : Disk} {sb : List Nat} (h : DInv d sb) (old new : Bytes) :
    StepD d (rename d old new).2 sb (.rename (pathOf old) (pathOf new)) (isOk (rename d old new).1) True := by
  unfold rename
  by_cases hvn : isNameValid new = true
  · obtain ⟨nf, hnn, hnl, hnb⟩ := stringToFileName_ok hvn
    obtain ⟨v, L, hvt, hi⟩ := h
    obtain ⟨o, ho, hoi⟩ := getTslistSector_eval hi hnn
    have hrun : d.run (getTslistSector new) = (.ok o, d) := by rw [run_eq hvt, ho]; simp only; rw [toDisk_eq hvt]
    simp only [hvn, Bool.not_true, Bool.false_eq_true, if_false, hrun]
    cases o with
    | some x => exact StepD.same ⟨v, L, hvt, hi⟩ _ _
    | none =>
      simp only
      have hfree := hoi.1 rfl
      unfold Fs.Dos3x.modify
      by_cases hv : isNameValid old = true
      · obtain ⟨fname, hfn, _, _⟩ := stringToFileName_ok hv
        have hp : pathOf old = pathOfName fname := by unfold pathOf; rw [hfn]
        have hq : pathOf new = pathOfName nf := by unfold pathOf; rw [hnn]
        simp only [hv, Bool.not_true, Bool.false_eq_true, if_false, hp, hq]
        exact lift_refines hvt hi (renameM_refines (P := dosParams) hi hfn hnn hnl hnb hfree)
      · simp only [hv, Bool.not_false, if_true]
        exact StepD.same ⟨v, L, hvt, hi⟩ _ _
  · simp only [hvn, Bool.not_false, if_true]
    exact StepD.same h _ _

/-- `rename` (= `ok_to_rename`, then `modify`) refines the specification; a refusal — invalid name, new name in
use, old name missing, file locked — leaves the disk as it was. -/
theorem dos_rename_refines {d : Disk} {sb : List Nat} (h : DInv d sb) (old new : Bytes) :
    DInv (rename d old new).2 sb ∧ ∃ pre post, reading d sb = .ok pre ∧ reading (rename d old new).2 sb = .ok post ∧
      stepOk dosParams pre (.rename (pathOf old) (pathOf new)) (isOk (rename d old new).1) post = true :=
  (dos_rename_stepD h old new).refines

/-- transfer of a working-state refinement that changes the layout (delete) to the disk object -/
theorem lift_refines' {d : Disk} {sb : List Nat} {v : Bytes} {L : Lay} (hv : d.vtoc = some v)
    (hi : WInv { c := d.c, raw := d.raw, v := v } sb L) {α : Type} {m : M α} {op : FsOp} {cond : Prop}
    (h : ∃ res w' L', m { c := d.c, raw := d.raw, v := v } = (res, w') ∧ WInv w' sb L' ∧ w'.c = d.c ∧
      StepL dosParams (volOf (W.mk d.c d.raw v).img d.c sb L) op (isOk res) (volOf w'.img d.c sb L') cond) :
    StepD d (d.run m).2 sb op (isOk (d.run m).1) cond := by
  obtain ⟨res, w', L', hm, hi', hc', hs⟩ := h
  rw [run_eq hv, hm]
  refine ⟨dinv_toDisk hi', hc', volOf (W.mk d.c d.raw v).img d.c sb L, volOf w'.img d.c sb L', ?_, ?_, ?_⟩
  · have := reading_toDisk hi; rw [toDisk_eq hv] at this; exact this
  · have := reading_toDisk hi'; rw [hc'] at this; exact this
  · exact hs

theorem dos_delete_stepD {d : Disk} {sb : List Nat} (h : DInv d sb) (name : Bytes) :
    StepD d (delete d name).2 sb (.delete (pathOf name)) (isOk (delete d name).1) True := by
  unfold delete
  obtain ⟨v, L, hvt, hi⟩ := h
  cases hfn : stringToFileName name with
  | error e =>
    have hm : deleteM name { c := d.c, raw := d.raw, v := v } = (.error e, { c := d.c, raw := d.raw, v := v }) := by
      unfold deleteM
      simp only [M.bind_apply, M.getV_apply, M.lift_apply, hfn]
    rw [run_eq hvt, hm]
    simp only [toDisk_eq hvt]
    exact StepD.same ⟨v, L, hvt, hi⟩ _ _
  | ok fname =>
    have hp : pathOf name = pathOfName fname := by unfold pathOf; rw [hfn]
    rw [hp]
    exact lift_refines' hvt hi (deleteM_refines (P := dosParams) hi hfn)

/-- `delete` of the concrete model refines the specification: an accepted delete frees exactly the sectors the
file's record owned (data and T/S lists) and removes exactly that record; a refusal (missing file, locked file,
over-long name) leaves the disk as it was. -/
theorem dos_delete_refines {d : Disk} {sb : List Nat} (h : DInv d sb) (name : Bytes) :
    DInv (delete d name).2 sb ∧ ∃ pre post, reading d sb = .ok pre ∧ reading (delete d name).2 sb = .ok post ∧
      stepOk dosParams pre (.delete (pathOf name)) (isOk (delete d name).1) post = true :=
  (dos_delete_stepD h name).refines

/-- `put d f` (source variant `rp`) is one of the two refusals that come after `write_file` has reserved the T/S list
sector — possible only in the source as written (`rp.slotFirst = false`): the image passes the checks of `put`, and the
answer is DISK FULL although `pre.free` (= `stat().free_blocks`) covers the sectors the file needs (the catalog has no
free entry), or RANGE ERROR (the image has no type byte) -/
def PutLeaks (rp : Repairs) (pre : Vol) (d : Disk) (f : FImg) : Prop :=
  rp.slotFirst = false ∧ f.fsOk = true ∧ f.chunkLen = 256 ∧ (rp.chunkGuard && hasLongChunk f) = false ∧
    isNameValid f.fullPath = true ∧ leakRes (put d f rp).1 f pre.free

/-- the condition on a file image handed to `put`: no chunk longer than the chunk length — needed only for the source as
written; the repaired `put` (`rp.chunkGuard`) checks it itself -/
def FitOk (rp : Repairs) (f : FImg) : Prop := rp.chunkGuard = true ∨ ChunksFit f

/-- `put` of the concrete model, either variant of the source, with its accounting (C01, C02, C03, C05: `stepOk`; C04:
`PutLeaks` is the only way to lose a unit, and it loses exactly one; in the repaired source a refused `put` returns the
disk as it was) -/
theorem dos_put_stepD {rp : Repairs} {d : Disk} {sb : List Nat} (h : DInv d sb) (f : FImg) (hfit : FitOk rp f) :
    DInv (put d f rp).2 sb ∧ (put d f rp).2.c = d.c ∧ ∃ pre post, reading d sb = .ok pre ∧ reading (put d f rp).2 sb = .ok post ∧
      stepOk dosParams pre (.put (pathOf f.fullPath) (putChunks f) 0 (f.fsType.getD 0 0 % 128) 0) (isOk (put d f rp).1) post = true ∧
      (¬ PutLeaks rp pre d f → pre.noLeak = true → post.noLeak = true) ∧
      (PutLeaks rp pre d f → post.files = pre.files ∧ post.free + 1 = pre.free ∧ post.sys = pre.sys ∧ post.lo = pre.lo ∧ post.hi = pre.hi) ∧
      (rp.slotFirst = true → isOk (put d f rp).1 = false → (put d f rp).2 = d) := by
  have hsame : ∀ (e : Err), e ≠ .diskFull →
      ((put d f rp).1 = .error e ∧ (put d f rp).2 = d ∧ (e = .range → f.chunkLen ≠ 256 ∨ (rp.chunkGuard && hasLongChunk f) = true)) →
      DInv (put d f rp).2 sb ∧ (put d f rp).2.c = d.c ∧ ∃ pre post, reading d sb = .ok pre ∧ reading (put d f rp).2 sb = .ok post ∧
      stepOk dosParams pre (.put (pathOf f.fullPath) (putChunks f) 0 (f.fsType.getD 0 0 % 128) 0) (isOk (put d f rp).1) post = true ∧
      (¬ PutLeaks rp pre d f → pre.noLeak = true → post.noLeak = true) ∧
      (PutLeaks rp pre d f → post.files = pre.files ∧ post.free + 1 = pre.free ∧ post.sys = pre.sys ∧ post.lo = pre.lo ∧ post.hi = pre.hi) ∧
      (rp.slotFirst = true → isOk (put d f rp).1 = false → (put d f rp).2 = d) := by
    intro e hne ⟨h1, h2, h3⟩
    obtain ⟨_, v, _, _, hr, hw⟩ := dinv_reading h
    rw [h1, h2]
    refine ⟨h, rfl, v, v, hr, hr, stepOk_refused_same hw _, fun _ hn => hn, fun hl => ?_, fun _ _ => rfl⟩
    exfalso
    obtain ⟨_, _, hcl, hg, _, hlk⟩ := hl
    rw [h1] at hlk
    rcases hlk with ⟨hlk, _⟩ | hlk
    · injection hlk with hlk; exact hne hlk
    · injection hlk with hlk
      rcases h3 hlk with h3 | h3
      · exact h3 hcl
      · rw [hg] at h3; cases h3
  by_cases h1 : f.fsOk = true
  · by_cases h2 : f.chunkLen = 256
    · by_cases hg : (rp.chunkGuard && hasLongChunk f) = true
      · have e1 : put d f rp = (.error .range, d) := by
          unfold put
          have hg' : (rp.chunkGuard && f.chunks.any (fun c => decide (c.2.length > 256))) = true := hg
          simp only [h1, Bool.not_true, Bool.false_eq_true, if_false, h2, ne_eq, not_true_eq_false, hg', if_true]
        exact hsame .range (by decide) ⟨by rw [e1], by rw [e1], fun _ => Or.inr hg⟩
      · have hg0 : (rp.chunkGuard && hasLongChunk f) = false := by simpa using hg
        have hfit' : ChunksFit f := by
          rcases hfit with hc | hc
          · rw [hc, Bool.true_and] at hg0; exact chunksFit_of_guard hg0
          · exact hc
        by_cases hv : isNameValid f.fullPath = true
        · obtain ⟨fname, hfn, hfl, hfb⟩ := stringToFileName_ok hv
          obtain ⟨v, L, hvt, hi⟩ := h
          have hp : pathOf f.fullPath = pathOfName fname := by unfold pathOf; rw [hfn]
          have hput : put d f rp = d.run (writeFile f rp) := by
            unfold put
            have hg' : (rp.chunkGuard && f.chunks.any (fun c => decide (c.2.length > 256))) = false := hg0
            simp only [h1, Bool.not_true, Bool.false_eq_true, if_false, h2, ne_eq, not_true_eq_false, hv, hg']
          obtain ⟨res, w', L', hm, hi', hc', hs, hl, hun⟩ := putM_refines hi rp hfit' hfn hfl hfb
          have hrd := reading_toDisk hi
          rw [toDisk_eq hvt] at hrd
          have hfr : (volOf (W.mk d.c d.raw v).img d.c sb L).free = nfree v d.c := by
            show (freeOf (W.mk d.c d.raw v).img d.c).length = _
            rw [freeOf_eq hi.ok]; rfl
          rw [hput, run_eq hvt, hm, hp]
          refine ⟨dinv_toDisk hi', hc', _, volOf w'.img d.c sb L', hrd, ?_, hs, ?_, ?_, ?_⟩
          · have := reading_toDisk hi'; rw [hc'] at this; exact this
          · intro hnl
            apply hl.tight
            cases hsf : rp.slotFirst with
            | true => exact Or.inl rfl
            | false =>
              right
              intro hlk
              apply hnl
              refine ⟨hsf, h1, h2, hg0, hv, ?_⟩
              rw [hput, run_eq hvt, hm, hfr]; exact hlk
          · intro hlk
            apply hl.leak hlk.1
            have := hlk.2.2.2.2.2
            rw [hput, run_eq hvt, hm, hfr] at this; exact this
          · intro hsf hr
            rw [hun hsf hr]
            exact toDisk_eq hvt
        · have e1 : put d f rp = (.error .syntaxError, d) := by
            unfold put
            have hg' : (rp.chunkGuard && f.chunks.any (fun c => decide (c.2.length > 256))) = false := hg0
            simp only [h1, Bool.not_true, Bool.false_eq_true, if_false, h2, ne_eq, not_true_eq_false, hv, Bool.not_false, if_true, hg']
          exact hsame .syntaxError (by decide) ⟨by rw [e1], by rw [e1], fun e => by cases e⟩
    · have e1 : put d f rp = (.error .range, d) := by
        unfold put
        simp only [h1, Bool.not_true, Bool.false_eq_true, if_false, ne_eq, h2, not_false_eq_true, if_true]
      exact hsame .range (by decide) ⟨by rw [e1], by rw [e1], fun _ => Or.inl h2⟩
  · have e1 : put d f rp = (.error .ioError, d) := by
      unfold put
      simp only [h1, Bool.not_false, if_true]
    exact hsame .ioError (by decide) ⟨by rw [e1], by rw [e1], fun e => by cases e⟩

/-- `put` of the concrete model refines the specification (either variant of the source; for the source as written:
every file image whose chunks are not longer than the chunk length), any number of T/S lists — the spill to a
continuation sector —, holes across lists, short chunks: an accepted put inserts exactly one record on previously free
sectors which reads back the stored chunks index for index; every refusal (wrong file system or chunk length, over-long
chunk in the repaired source, invalid name, empty image, name in use, not enough free sectors, catalog full, no type)
leaves all files as they were and the volume well formed. -/
theorem dos_put_refines {rp : Repairs} {d : Disk} {sb : List Nat} (h : DInv d sb) (f : FImg) (hfit : FitOk rp f) :
    DInv (put d f rp).2 sb ∧ ∃ pre post, reading d sb = .ok pre ∧ reading (put d f rp).2 sb = .ok post ∧
      stepOk dosParams pre (.put (pathOf f.fullPath) (putChunks f) 0 (f.fsType.getD 0 0 % 128) 0) (isOk (put d f rp).1) post = true := by
  obtain ⟨h1, _, pre, post, a, b, c, _⟩ := dos_put_stepD h f hfit
  exact ⟨h1, pre, post, a, b, c⟩

/-- **in the repaired source a refused `put` changes nothing** (`dos_put_refused_changes_nothing`): whatever the reason
— wrong file system or chunk length, over-long chunk, invalid name, empty image, name in use, not enough free sectors,
**catalog full**, no type byte — the disk object (image and VTOC buffer) is returned exactly as it was -/
theorem dos_put_refused_changes_nothing {rp : Repairs} {d : Disk} {sb : List Nat} (h : DInv d sb) (f : FImg) (hfit : FitOk rp f)
    (hsf : rp.slotFirst = true) (hr : isOk (put d f rp).1 = false) : (put d f rp).2 = d := by
  obtain ⟨_, _, _, _, _, _, _, _, _, hu⟩ := dos_put_stepD h f hfit
  exact hu hsf hr

/-! ## `init` -/

/-- `init33(254,false)` / `init32(254,false)` on a blank 35-track image succeed and establish the invariant,
with the format-time system units `initSys c` (VTOC, catalog track, track 0). -/
theorem dos_init_establishes_inv {c : Nat} (hc : c = 13 ∨ c = 16) :
    (init (blank c) 254 c).1 = .ok () ∧ DInv (init (blank c) 254 c).2 (initSys c) := by
  obtain ⟨w, h, hi, _⟩ := init_winv hc
  rw [h]
  exact ⟨rfl, dinv_toDisk hi⟩

/-- non-vacuity: a freshly initialised DOS 3.3 volume is read as an empty, well-formed volume with 496 free sectors -/
example : ∃ v, reading (init (blank 16) 254 16).2 (initSys 16) = .ok v ∧ v.wfB = true := by
  obtain ⟨_, v, _, _, hr, hw⟩ := dinv_reading (dos_init_establishes_inv (c := 16) (Or.inr rfl)).2
  exact ⟨v, hr, hw⟩

/-! ## histories -/

/-- operations of the concrete model -/
inductive Op where
  | put (f : FImg)
  | delete (name : Bytes)
  | rename (old new : Bytes)
  | lock (name : Bytes)
  | unlock (name : Bytes)
  | retype (name : Bytes) (ty : Option Nat)

/-- run one operation on the source variant `rp`: (did it report success, the disk afterwards) -/
def Op.run (rp : Repairs) (d : Disk) : Op → Bool × Disk
  | .put f => (isOk (Fs.Dos3x.put d f rp).1, (Fs.Dos3x.put d f rp).2)
  | .delete name => (isOk (Fs.Dos3x.delete d name).1, (Fs.Dos3x.delete d name).2)
  | .rename old new => (isOk (Fs.Dos3x.rename d old new).1, (Fs.Dos3x.rename d old new).2)
  | .lock name => (isOk (Fs.Dos3x.lock d name).1, (Fs.Dos3x.lock d name).2)
  | .unlock name => (isOk (Fs.Dos3x.unlock d name).1, (Fs.Dos3x.unlock d name).2)
  | .retype name ty => (isOk (Fs.Dos3x.retype d name ty).1, (Fs.Dos3x.retype d name ty).2)

/-- the abstract operation a concrete one stands for (names are stored upper-cased, blank-trimmed) -/
def Op.abs : Op → FsOp
  | .put f => .put (pathOf f.fullPath) (putChunks f) 0 (f.fsType.getD 0 0 % 128) 0
  | .delete name => .delete (pathOf name)
  | .rename old new => .rename (pathOf old) (pathOf new)
  | .lock name => .lock (pathOf name)
  | .unlock name => .unlock (pathOf name)
  | .retype name _ => .retype (pathOf name)

variable {rp : Repairs}

/-- the reading of a disk as a value (`default` if the reader fails — it does not under `DInv`) -/
def volD (d : Disk) (sb : List Nat) : Vol := match reading d sb with | .ok v => v | .error _ => default

theorem reading_volD {d : Disk} {sb : List Nat} (h : DInv d sb) : reading d sb = .ok (volD d sb) ∧ (volD d sb).wfB = true := by
  obtain ⟨_, v, _, _, hr, hw⟩ := dinv_reading h
  unfold volD; rw [hr]; exact ⟨rfl, hw⟩

/-- the per-step refinement statement for one operation: invariant kept, step allowed by the specification -/
def StepRefines (rp : Repairs) (op : Op) : Prop := ∀ (d : Disk) (sb : List Nat), DInv d sb →
  DInv (op.run rp d).2 sb ∧ stepOk dosParams (volD d sb) op.abs (op.run rp d).1 (volD (op.run rp d).2 sb) = true

/-- operations that rewrite one catalog entry without touching the bitmap -/
def Op.isMeta : Op → Bool
  | .put _ | .delete _ => false
  | _ => true

/-- every operation except `put` -/
def Op.notPut : Op → Bool
  | .put _ => false
  | _ => true

theorem of_readings {d d' : Disk} {sb : List Nat} {op : FsOp} {ok : Bool}
    (h : DInv d' sb ∧ ∃ pre post, reading d sb = .ok pre ∧ reading d' sb = .ok post ∧ stepOk dosParams pre op ok post = true) :
    DInv d' sb ∧ stepOk dosParams (volD d sb) op ok (volD d' sb) = true := by
  obtain ⟨h1, pre, post, hp, hq, hs⟩ := h
  refine ⟨h1, ?_⟩
  unfold volD; rw [hp, hq]; exact hs

/-- **Refinement, one step** (proved for `lock`, `unlock`, `retype`, `rename`) -/
theorem meta_step_refines (op : Op) (hm : op.isMeta = true) : StepRefines rp op := by
  intro d sb h
  cases op with
  | put f => cases hm
  | delete name => cases hm
  | rename old new => exact of_readings (dos_rename_refines h old new)
  | lock name => exact of_readings (dos_lock_refines h name)
  | unlock name => exact of_readings (dos_unlock_refines h name)
  | retype name ty => exact of_readings (dos_retype_refines h name ty)

/-- the only condition on the arguments, and only for the source as written: a file image handed to `put` has no chunk
longer than its chunk length (`FitOk`; as written a2kit truncates longer chunks silently, so the condition cannot be
dropped there — `design/FsDos.md` §6; the repaired `put` refuses such an image) -/
def Op.ArgsOk (rp : Repairs) : Op → Prop
  | .put f => FitOk rp f
  | _ => True

/-- in the repaired source (`chunkGuard`) there is no condition on the arguments -/
theorem argsOk_of_guard (hg : rp.chunkGuard = true) (op : Op) : op.ArgsOk rp := by
  cases op <;> first | exact Or.inl hg | trivial

/-- **Refinement, one step**: every operation of the concrete model keeps the invariant and is a step the abstract
specification allows -/
theorem step_refines (op : Op) (ha : op.ArgsOk rp) : StepRefines rp op := by
  intro d sb h
  cases op with
  | put f => exact of_readings (dos_put_refines h f ha)
  | delete name => exact of_readings (dos_delete_refines h name)
  | rename old new => exact of_readings (dos_rename_refines h old new)
  | lock name => exact of_readings (dos_lock_refines h name)
  | unlock name => exact of_readings (dos_unlock_refines h name)
  | retype name ty => exact of_readings (dos_retype_refines h name ty)

/-- **Refinement, one step**, for every operation except `put` -/
theorem notPut_step_refines (op : Op) (hm : op.notPut = true) : StepRefines rp op := by
  intro d sb h
  cases op with
  | put f => cases hm
  | delete name => exact of_readings (dos_delete_refines h name)
  | rename old new => exact of_readings (dos_rename_refines h old new)
  | lock name => exact of_readings (dos_lock_refines h name)
  | unlock name => exact of_readings (dos_unlock_refines h name)
  | retype name ty => exact of_readings (dos_retype_refines h name ty)

/-- the checked steps a history of concrete operations produces -/
def trace (rp : Repairs) (sb : List Nat) : Disk → List Op → List Step
  | _, [] => []
  | d, op :: ops => ⟨op.abs, (op.run rp d).1, volD (op.run rp d).2 sb⟩ :: trace rp sb (op.run rp d).2 ops

def finalDisk (rp : Repairs) : Disk → List Op → Disk
  | d, [] => d
  | d, op :: ops => finalDisk rp (op.run rp d).2 ops

/-- **Refinement, histories**: every history of concrete operations each of which refines the specification,
started from a disk satisfying the invariant, is a valid trace of the abstract specification; the invariant holds
at the end and the final reading is the reading of the final disk. -/
theorem history_refines {sb : List Nat} : ∀ (ops : List Op) {d : Disk}, DInv d sb → (∀ op ∈ ops, StepRefines rp op) →
    validFrom dosParams (volD d sb) (trace rp sb d ops) ∧ DInv (finalDisk rp d ops) sb ∧
    finalVol (volD d sb) (trace rp sb d ops) = volD (finalDisk rp d ops) sb := by
  intro ops
  induction ops with
  | nil => intro d h _; exact ⟨trivial, h, rfl⟩
  | cons op ops ih =>
    intro d h ha
    obtain ⟨h1, h2⟩ := ha op List.mem_cons_self d sb h
    obtain ⟨a, b, c⟩ := ih h1 (fun o ho => ha o (List.mem_cons_of_mem _ ho))
    refine ⟨⟨h2, a⟩, b, ?_⟩
    show finalVol (volD d sb) (⟨op.abs, (op.run rp d).1, volD (op.run rp d).2 sb⟩ :: trace rp sb (op.run rp d).2 ops) = _
    rw [finalVol_cons]
    exact c

theorem mem_trace {sb : List Nat} : ∀ {ops : List Op} {d : Disk} {s : Step}, s ∈ trace rp sb d ops → ∃ op ∈ ops, s.op = op.abs := by
  intro ops
  induction ops with
  | nil => intro d s hs; cases hs
  | cons op ops ih =>
    intro d s hs
    rcases List.mem_cons.1 hs with rfl | hs
    · exact ⟨op, List.mem_cons_self, rfl⟩
    · obtain ⟨o, ho, e⟩ := ih hs
      exact ⟨o, List.mem_cons_of_mem _ ho, e⟩

/-- histories of `lock`/`unlock`/`retype`/`rename` refine the specification unconditionally -/
theorem meta_history_refines {sb : List Nat} (ops : List Op) {d : Disk} (h : DInv d sb) (hm : ∀ op ∈ ops, op.isMeta = true) :
    validFrom dosParams (volD d sb) (trace rp sb d ops) ∧ DInv (finalDisk rp d ops) sb ∧
    finalVol (volD d sb) (trace rp sb d ops) = volD (finalDisk rp d ops) sb :=
  history_refines ops h (fun op ho => meta_step_refines (rp := rp) op (hm op ho))

/-! ## the history-level theorems of C01 … C05 for the concrete DOS model

Each is the instance of the generic theorem of `Props/C0x.lean` for traces of the concrete model.  The `…_partial`
versions are stated for histories **all of whose operations satisfy `StepRefines`** (a hypothesis); `step_refines`
below proves `StepRefines` for every operation (for `put`: every file image without an over-long chunk), which gives
the versions without that hypothesis further down (`dos_history_refines`, `dos_get_returns_last_put`, …).  The
`…_partial` versions are kept because they also cover a `put` of a file image with an over-long chunk whenever that
single step happens to refine the specification. -/

/-- C03 (`dos_states_well_formed`, partial): the disk after **every** step of the history, successful or
refused, is read by the independent reader as a well-formed volume.  Full statement: the same without the
hypothesis `hops`. -/
theorem dos_states_well_formed_partial {sb : List Nat} {d : Disk} (h : DInv d sb) {ops : List Op}
    (hops : ∀ op ∈ ops, StepRefines rp op) :
    (∀ s ∈ trace rp sb d ops, s.post.wfB = true) ∧
    reading (finalDisk rp d ops) sb = .ok (volD (finalDisk rp d ops) sb) ∧ (volD (finalDisk rp d ops) sb).wfB = true := by
  obtain ⟨hv, hfin, _⟩ := history_refines ops h hops
  exact ⟨C03.every_state_well_formed hv, (reading_volD hfin).1, (reading_volD hfin).2⟩

/-- C03, unconditional for histories of catalog-entry operations -/
theorem dos_states_well_formed_meta {sb : List Nat} {d : Disk} (h : DInv d sb) {ops : List Op}
    (hm : ∀ op ∈ ops, op.isMeta = true) :
    (∀ s ∈ trace rp sb d ops, s.post.wfB = true) ∧ (volD (finalDisk rp d ops) sb).wfB = true := by
  have := dos_states_well_formed_partial h (fun op ho => meta_step_refines (rp := rp) op (hm op ho))
  exact ⟨this.1, this.2.2⟩

theorem volD_isDir {sb : List Nat} {d : Disk} (h : DInv d sb) {g : FileRec} (hg : g ∈ (volD d sb).files) : g.isDir = false := by
  obtain ⟨v, L, hv, hi⟩ := h
  have hr := reading_toDisk hi
  rw [toDisk_eq hv] at hr
  have : volD d sb = volOf (W.mk d.c d.raw v).img d.c sb L := by unfold volD; rw [hr]
  rw [this] at hg
  obtain ⟨e, t, _, _, _, rfl⟩ := mem_filesOf hi.desc.files hg
  rfl

/-- C02 (`dos_bystanders_survive`, partial): a file that no operation of the history names is found
bit-identical (content, type, lock flag, sectors) in the reading of the final disk. -/
theorem dos_bystanders_survive_partial {sb : List Nat} {d : Disk} (h : DInv d sb) {ops : List Op}
    (hops : ∀ op ∈ ops, StepRefines rp op) {q : Bytes} {g : FileRec} (hg : (volD d sb).lookup q = some g)
    (hq : ∀ op ∈ ops, q ∉ op.abs.targets) : (volD (finalDisk rp d ops) sb).lookup q = some g := by
  obtain ⟨hv, _, heq⟩ := history_refines ops h hops
  have hd : g.isDir = false := volD_isDir h (lookup_some hg).1
  have := C02.bystanders_survive_history hv (fun s hs => by
    obtain ⟨op, ho, e⟩ := mem_trace hs
    rw [e]; exact hq op ho) hg hd
  rw [heq] at this
  exact this

/-- C05 (`dos_listing_is_history_fold`, partial): the names the reader lists after a history are exactly the
fold of the history over the initial listing, and they are pairwise different. -/
theorem dos_listing_is_history_fold_partial {sb : List Nat} {d : Disk} (h : DInv d sb) {ops : List Op}
    (hops : ∀ op ∈ ops, StepRefines rp op) (q : Bytes) :
    (q ∈ (volD (finalDisk rp d ops) sb).paths ↔ q ∈ foldPaths (volD d sb).paths (trace rp sb d ops)) ∧
    (volD (finalDisk rp d ops) sb).paths.Nodup := by
  obtain ⟨hv, hfin, heq⟩ := history_refines ops h hops
  have := C05.listing_is_history_fold' hv q
  rw [heq] at this
  exact ⟨this, wfB_paths_nodup (reading_volD hfin).2⟩

/-- C01 (`dos_get_returns_last_put`, partial): after an accepted `put` (whose step refines the specification),
and any further history that does not name the file, the file the reader finds holds the stored chunks index for
index, each beginning with the stored bytes, and the stored type. -/
theorem dos_get_returns_last_put_partial {sb : List Nat} {d : Disk} (h : DInv d sb) {f : FImg}
    (hput : StepRefines rp (.put f)) (hok : ((Op.put f).run rp d).1 = true) {ops : List Op}
    (hops : ∀ op ∈ ops, StepRefines rp op) (hq : ∀ op ∈ ops, pathOf f.fullPath ∉ op.abs.targets) :
    ∃ g, (volD (finalDisk rp ((Op.put f).run rp d).2 ops) sb).lookup (pathOf f.fullPath) = some g ∧
      chunksMatch (putChunks f) g.chunks = true ∧ g.ftype = f.fsType.getD 0 0 % 128 ∧ g.isDir = false := by
  obtain ⟨h1, h2⟩ := hput d sb h
  rw [hok] at h2
  obtain ⟨hv, _, heq⟩ := history_refines ops h1 hops
  obtain ⟨g, hg, _, hc, _, hd, ht, _⟩ := C01.get_returns_last_put h2 hv (fun s hs => by
    obtain ⟨op, ho, e⟩ := mem_trace hs
    rw [e]; exact hq op ho)
  rw [heq] at hg
  exact ⟨g, hg, hc, ht rfl, hd⟩


/-! ## the history-level theorems, unconditional within `ArgsOk`

Histories of `put` (any size: one or many T/S lists, sparse, short chunks), `delete`, `rename`, `lock`, `unlock`,
`retype`, started from any disk satisfying the invariant (e.g. a freshly initialised one, `dos_init_establishes_inv`). -/

theorem full_history_refines {sb : List Nat} (ops : List Op) {d : Disk} (h : DInv d sb) (ha : ∀ op ∈ ops, op.ArgsOk rp) :
    validFrom dosParams (volD d sb) (trace rp sb d ops) ∧ DInv (finalDisk rp d ops) sb ∧
    finalVol (volD d sb) (trace rp sb d ops) = volD (finalDisk rp d ops) sb :=
  history_refines ops h (fun op ho => step_refines op (ha op ho))

/-- **Refinement, histories, without a per-step hypothesis** (C01–C05 for the concrete DOS model): every history of
`put` (any number of T/S lists, sparse, short chunks; no chunk longer than the chunk length), `delete`, `rename`,
`lock`, `unlock`, `retype` from a disk satisfying the invariant is a valid trace of the abstract specification; the
invariant holds at the end and the final reading is the reading of the final disk. -/
theorem dos_history_refines {sb : List Nat} (ops : List Op) {d : Disk} (h : DInv d sb) (ha : ∀ op ∈ ops, op.ArgsOk rp) :
    validFrom dosParams (volD d sb) (trace rp sb d ops) ∧ DInv (finalDisk rp d ops) sb ∧
    finalVol (volD d sb) (trace rp sb d ops) = volD (finalDisk rp d ops) sb :=
  full_history_refines ops h ha

/-- C03 for the concrete DOS model: the disk after **every** step of every history, successful or refused, is read
by the independent reader as a well-formed volume -/
theorem dos_states_well_formed {sb : List Nat} {d : Disk} (h : DInv d sb) {ops : List Op} (ha : ∀ op ∈ ops, op.ArgsOk rp) :
    (∀ s ∈ trace rp sb d ops, s.post.wfB = true) ∧
    reading (finalDisk rp d ops) sb = .ok (volD (finalDisk rp d ops) sb) ∧ (volD (finalDisk rp d ops) sb).wfB = true :=
  dos_states_well_formed_partial h (fun op ho => step_refines op (ha op ho))

/-- C02 for the concrete DOS model: a file that no operation of the history names is found bit-identical
(content, type, lock flag, sectors) in the reading of the final disk -/
theorem dos_bystanders_survive {sb : List Nat} {d : Disk} (h : DInv d sb) {ops : List Op} (ha : ∀ op ∈ ops, op.ArgsOk rp)
    {q : Bytes} {g : FileRec} (hg : (volD d sb).lookup q = some g) (hq : ∀ op ∈ ops, q ∉ op.abs.targets) :
    (volD (finalDisk rp d ops) sb).lookup q = some g :=
  dos_bystanders_survive_partial h (fun op ho => step_refines op (ha op ho)) hg hq

/-- C05 for the concrete DOS model: the names the reader lists after a history are exactly the fold of the history
over the initial listing (accepted puts add, accepted deletes remove, accepted renames replace, everything else —
and every refusal — changes nothing), and they are pairwise different -/
theorem dos_listing_is_history_fold {sb : List Nat} {d : Disk} (h : DInv d sb) {ops : List Op} (ha : ∀ op ∈ ops, op.ArgsOk rp) (q : Bytes) :
    (q ∈ (volD (finalDisk rp d ops) sb).paths ↔ q ∈ foldPaths (volD d sb).paths (trace rp sb d ops)) ∧
    (volD (finalDisk rp d ops) sb).paths.Nodup :=
  dos_listing_is_history_fold_partial h (fun op ho => step_refines op (ha op ho)) q

/-- C01 for the concrete DOS model: after an accepted `put` (any number of T/S lists), and any further
history that does not name the file, the file the reader finds holds the stored chunks index for index, each
beginning with the stored bytes, and the stored type -/
theorem dos_get_returns_last_put {sb : List Nat} {d : Disk} (h : DInv d sb) {f : FImg} (hone : FitOk rp f)
    (hok : ((Op.put f).run rp d).1 = true) {ops : List Op} (ha : ∀ op ∈ ops, op.ArgsOk rp)
    (hq : ∀ op ∈ ops, pathOf f.fullPath ∉ op.abs.targets) :
    ∃ g, (volD (finalDisk rp ((Op.put f).run rp d).2 ops) sb).lookup (pathOf f.fullPath) = some g ∧
      chunksMatch (putChunks f) g.chunks = true ∧ g.ftype = f.fsType.getD 0 0 % 128 ∧ g.isDir = false :=
  dos_get_returns_last_put_partial h (step_refines (.put f) hone) hok (fun op ho => step_refines op (ha op ho)) hq

/-- C04, acceptance clause (`dos_fits_is_accepted`): a DOS file image with the right chunk length, at least one chunk,
a type, a valid name not yet listed, for which the catalog has a free entry and `sectorsNeeded f` = data sectors +
`⌈end/122⌉` T/S list sectors are free, **is accepted** — `put` returns `Ok(sectorsNeeded f)`.  a2kit answers
DISK FULL when the catalog is full, hence the slot hypothesis. -/
theorem dos_fits_is_accepted {d : Disk} {sb : List Nat} {v : Bytes} {L : Lay} (hv : d.vtoc = some v)
    (hi : WInv { c := d.c, raw := d.raw, v := v } sb L) {f : FImg} (hone : hasLongChunk f = false)
    (hfs : f.fsOk = true) (hcl : f.chunkLen = 256) (hname : isNameValid f.fullPath = true) (hch : f.chunks.length ≠ 0)
    (hty : f.fsType ≠ []) (hfresh : pathOf f.fullPath ∉ (volD d sb).paths)
    (hslot : (slotIn (W.mk d.c d.raw v).img d.c L.cat).isSome = true) (hspace : sectorsNeeded f ≤ nfree v d.c) :
    (put d f rp).1 = .ok (sectorsNeeded f) := by
  have hr := reading_toDisk hi
  rw [toDisk_eq hv] at hr
  have hvd : volD d sb = volOf (W.mk d.c d.raw v).img d.c sb L := by unfold volD; rw [hr]
  rw [hvd] at hfresh
  have hg : (rp.chunkGuard && f.chunks.any (fun c => decide (c.2.length > 256))) = false := by
    show (rp.chunkGuard && hasLongChunk f) = false
    rw [hone, Bool.and_false]
  unfold put
  simp only [hfs, Bool.not_true, Bool.false_eq_true, if_false, hcl, ne_eq, not_true_eq_false, hname, hg]
  rw [run_eq hv]
  exact writeFile_accepts hi (chunksFit_of_guard hone) hname hch hty hfresh hslot hspace rp

/-- **C04, acceptance clause, at the level of the API** (`dos_fits_is_accepted_api`; cf. `pascal_fits_is_accepted`,
`fat_fits_is_accepted`): on a disk satisfying the invariant, a DOS file image with the right chunk length, at least one
chunk, no over-long chunk, a type byte and a valid name that is not listed, whose sector requirement **including its
T/S lists** (`sectorsNeeded f` = chunks + ⌈end/122⌉) does not exceed the free count of the reading (= `stat().free_blocks`,
`dos_stat_free_is_reading`), and for which a catalog slot exists (`get_next_directory_slot` succeeds), **is accepted**:
`put` returns `Ok(sectorsNeeded f)` — it is neither refused nor does it panic. -/
theorem dos_fits_is_accepted_api {d : Disk} {sb : List Nat} (h : DInv d sb) {f : FImg} (hfit : hasLongChunk f = false)
    (hfs : f.fsOk = true) (hcl : f.chunkLen = 256) (hname : isNameValid f.fullPath = true) (hch : f.chunks.length ≠ 0)
    (hty : f.fsType ≠ []) (hfresh : pathOf f.fullPath ∉ (volD d sb).paths)
    (hslot : isOk (d.run nextDirectorySlot).1 = true) (hspace : sectorsNeeded f ≤ (volD d sb).free) :
    (put d f rp).1 = .ok (sectorsNeeded f) := by
  obtain ⟨v, L, hv, hi⟩ := h
  have hr := reading_toDisk hi
  rw [toDisk_eq hv] at hr
  have hvd : volD d sb = volOf (W.mk d.c d.raw v).img d.c sb L := by unfold volD; rw [hr]
  have hfr : (volD d sb).free = nfree v d.c := by
    rw [hvd]
    show (freeOf (W.mk d.c d.raw v).img d.c).length = _
    rw [freeOf_eq hi.ok]; rfl
  refine dos_fits_is_accepted hv hi hfit hfs hcl hname hch hty hfresh ?_ (by rw [← hfr]; exact hspace)
  rw [run_eq hv, nextDirectorySlot_eval hi] at hslot
  cases hs : slotIn (W.mk d.c d.raw v).img d.c L.cat with
  | none => rw [hs] at hslot; cases hslot
  | some x => rfl

/-- a freshly initialised DOS 3.3 volume (528 free sectors, empty catalog) accepts every file image that meets the
hypotheses of `dos_fits_is_accepted` and needs at most 528 sectors -/
theorem fresh16_accepts {f : FImg} (hfit : hasLongChunk f = false) (hfs : f.fsOk = true) (hcl : f.chunkLen = 256)
    (hname : isNameValid f.fullPath = true) (hch : f.chunks.length ≠ 0) (hty : f.fsType ≠ []) (hneed : sectorsNeeded f ≤ 528) :
    (put fresh16 f rp).1 = .ok (sectorsNeeded f) := by
  have hi := fresh16_winv.1
  have hnf : (volD fresh16 (initSys 16)).paths = [] := by
    have hr := reading_toDisk hi
    rw [toDisk_eq fresh16_vtoc] at hr
    unfold volD; rw [hr]
    exact paths_of_no_tsls rfl
  exact dos_fits_is_accepted (sb := initSys 16) (L := initLay 16) fresh16_vtoc hi hfit hfs hcl hname hch hty
    (by rw [hnf]; exact List.not_mem_nil) (by rw [fresh16_c]; exact fresh16_slot) (by rw [fresh16_c, fresh16_free]; exact hneed)

/-- non-vacuity of `dos_fits_is_accepted` and of the spill branch of `dos_put_refines`: on a freshly initialised
DOS 3.3 volume the sparse file image `exB` (chunks 0 and 123, i.e. **two** T/S lists) meets every hypothesis, so `put`
answers `Ok(4)` = 2 data sectors + 2 T/S lists -/
example : (put fresh16 exB).1 = .ok 4 := by
  have := fresh16_accepts (rp := {}) (f := exB) (by decide) rfl rfl (by decide) (by decide) (by decide) (by rw [exB_needs.1]; decide)
  rw [exB_needs.1] at this
  exact this

/-- … and the disk after that put satisfies the invariant again and reads back the two chunks at indices 0 and 123 -/
example : DInv (put fresh16 exB).2 (initSys 16) ∧ ∃ pre post, reading fresh16 (initSys 16) = .ok pre ∧
    reading (put fresh16 exB).2 (initSys 16) = .ok post ∧
    stepOk dosParams pre (.put (pathOf exB.fullPath) (putChunks exB) 0 (exB.fsType.getD 0 0 % 128) 0) (isOk (put fresh16 exB).1) post = true :=
  dos_put_refines (rp := {}) ⟨_, _, fresh16_vtoc, fresh16_winv.1⟩ exB (Or.inr exB_fit)

/-- C04, the reported free count: `stat().free_blocks` of the concrete model is the number of units the independent
reader finds marked free in the VTOC bitmap of the flushed image -/
theorem dos_stat_free_is_reading {d : Disk} {sb : List Nat} (h : DInv d sb) : (statFree d).1 = .ok (volD d sb).free := by
  obtain ⟨v, L, hv, hi⟩ := h
  have hr := reading_toDisk hi
  rw [toDisk_eq hv] at hr
  have hvd : volD d sb = volOf (W.mk d.c d.raw v).img d.c sb L := by unfold volD; rw [hr]
  unfold statFree
  rw [run_eq hv]
  simp only [M.bind_apply, M.getV_apply, M.lift_apply]
  rw [numFree_eq hi.ok.vok, hvd]
  show _ = Except.ok (freeOf (W.mk d.c d.raw v).img d.c).length
  rw [freeOf_eq hi.ok]
  rfl

/-! ## C04: free + owned + system = size along histories

`Vol.noLeak` (every unit is owned, a system unit, or marked free) is kept by every operation except the two refusals of
`put` that come after `write_file` has reserved the T/S list sector (`PutLeaks`); those lose exactly one sector. -/

theorem volD_eq {d : Disk} {sb : List Nat} {v : Vol} (h : reading d sb = .ok v) : volD d sb = v := by unfold volD; rw [h]

/-- the operation, applied to `d`, is a refused `put` that loses a sector (`PutLeaks`) -/
def Op.leaks (rp : Repairs) (d : Disk) (sb : List Nat) : Op → Prop
  | .put f => PutLeaks rp (volD d sb) d f
  | _ => False

/-- no step of the history is a refused `put` that loses a sector -/
def LeakFree (rp : Repairs) (sb : List Nat) : Disk → List Op → Prop
  | _, [] => True
  | d, op :: ops => ¬ op.leaks rp d sb ∧ LeakFree rp sb (op.run rp d).2 ops

/-- in the repaired source (`slotFirst`) no `put` loses a sector -/
theorem leakFree_of_slotFirst (hsf : rp.slotFirst = true) (sb : List Nat) : ∀ (ops : List Op) (d : Disk), LeakFree rp sb d ops := by
  intro ops
  induction ops with
  | nil => intro _; trivial
  | cons op ops ih =>
    intro d
    refine ⟨?_, ih _⟩
    cases op with
    | put f => intro hl; have := hl.1; rw [hsf] at this; cases this
    | _ => exact fun h => h

/-- C04, one step: every operation other than a `put` refused after its T/S list sector was reserved keeps "no unit is
lost" (and the geometry) -/
theorem dos_noLeak_step {sb : List Nat} {d : Disk} (h : DInv d sb) (op : Op) (ha : op.ArgsOk rp) (hl : ¬ op.leaks rp d sb)
    (hn : (volD d sb).noLeak = true) : (volD (op.run rp d).2 sb).noLeak = true ∧ (op.run rp d).2.c = d.c := by
  have key : ∀ {d' : Disk} {o : FsOp} {ok : Bool}, StepD d d' sb o ok True → (volD d' sb).noLeak = true ∧ d'.c = d.c := by
    intro d' o ok hs
    obtain ⟨_, hc, pre, post, a, b, c⟩ := hs
    rw [volD_eq a] at hn
    rw [volD_eq b]
    exact ⟨c.tight trivial hn, hc⟩
  cases op with
  | put f =>
    obtain ⟨_, hc, pre, post, a, b, _, ht, _⟩ := dos_put_stepD h f ha
    have hl' : ¬ PutLeaks rp (volD d sb) d f := hl
    rw [volD_eq a] at hn hl'
    show (volD (put d f rp).2 sb).noLeak = true ∧ (put d f rp).2.c = d.c
    rw [volD_eq b]
    exact ⟨ht hl' hn, hc⟩
  | delete name => exact key (dos_delete_stepD h name)
  | rename old new => exact key (dos_rename_stepD h old new)
  | lock name => exact key (dos_lock_stepD h name)
  | unlock name => exact key (dos_unlock_stepD h name)
  | retype name ty => exact key (dos_retype_stepD h name ty)

/-- the system units of a reading lie inside the volume -/
theorem volD_sys_in_range {sb : List Nat} {d : Disk} (h : DInv d sb) (hsb : ∀ u ∈ sb, u < 35 * d.c) :
    (volD d sb).lo = 0 ∧ (volD d sb).hi = 35 * d.c ∧ ∀ u ∈ (volD d sb).sys, (volD d sb).lo ≤ u ∧ u < (volD d sb).hi := by
  obtain ⟨v, L, hv, hi⟩ := h
  have hr := reading_toDisk hi
  rw [toDisk_eq hv] at hr
  rw [volD_eq hr]
  refine ⟨rfl, rfl, fun u hu => ⟨Nat.zero_le _, ?_⟩⟩
  show u < 35 * d.c
  have hu' : u ∈ fixedOf d.c L ++ sb.filter (fun u => !(fixedOf d.c L).contains u) := hu
  rcases List.mem_append.1 hu' with hf | hf
  · rcases List.mem_cons.1 hf with rfl | hc
    · have := hi.ok.hc
      show Read.Dos3x.vtocTrack * d.c < 35 * d.c
      unfold Read.Dos3x.vtocTrack
      have : d.c = 13 ∨ d.c = 16 := this
      omega
    · obtain ⟨_, _, _, _, _, hlt⟩ := catChain_mem hi.desc.cat u hc
      rw [hi.desc.size] at hlt; exact hlt
  · exact hsb u (List.mem_filter.1 hf).1

/-- C04, one state: in a state without lost units, free + owned + system sectors = all sectors -/
theorem dos_state_accounting {sb : List Nat} {d : Disk} (h : DInv d sb) (hsb : ∀ u ∈ sb, u < 35 * d.c)
    (hn : (volD d sb).noLeak = true) :
    (volD d sb).free + (volD d sb).allOwned.length + (volD d sb).sys.length = 35 * d.c := by
  obtain ⟨hlo, hhi, hsys⟩ := volD_sys_in_range h hsb
  have := C04.free_accounting (reading_volD h).2 hn hsys
  rw [hlo, hhi] at this
  exact this

/-- **C04 for the concrete DOS model** (`dos_free_accounting`): along every history of `put` / `delete` / `rename` /
`lock` / `unlock` / `retype` that starts in a state without lost units and contains no `put` refused after its T/S list
sector was reserved (`LeakFree`: catalog full, or no type byte), in **every** state — after successful and after refused
steps — no unit is lost and `free + owned + system = size` (35 · sectors per track). -/
theorem dos_free_accounting {sb : List Nat} : ∀ (ops : List Op) {d : Disk}, DInv d sb → (∀ u ∈ sb, u < 35 * d.c) →
    (volD d sb).noLeak = true → (∀ op ∈ ops, op.ArgsOk rp) → LeakFree rp sb d ops →
    (∀ s ∈ trace rp sb d ops, s.post.noLeak = true ∧ s.post.free + s.post.allOwned.length + s.post.sys.length = 35 * d.c) ∧
    (volD (finalDisk rp d ops) sb).noLeak = true ∧
    (volD (finalDisk rp d ops) sb).free + (volD (finalDisk rp d ops) sb).allOwned.length + (volD (finalDisk rp d ops) sb).sys.length = 35 * d.c := by
  intro ops
  induction ops with
  | nil =>
    intro d h hsb hn _ _
    exact ⟨fun s hs => (by cases hs), hn, dos_state_accounting h hsb hn⟩
  | cons op ops ih =>
    intro d h hsb hn ha hl
    have hao := ha op List.mem_cons_self
    obtain ⟨h1, _⟩ := step_refines op hao d sb h
    obtain ⟨hn1, hc1⟩ := dos_noLeak_step h op hao hl.1 hn
    have hsb1 : ∀ u ∈ sb, u < 35 * (op.run rp d).2.c := by rw [hc1]; exact hsb
    obtain ⟨a, b, c⟩ := ih h1 hsb1 hn1 (fun o ho => ha o (List.mem_cons_of_mem _ ho)) hl.2
    rw [hc1] at a c
    refine ⟨?_, b, c⟩
    intro s hs
    rcases List.mem_cons.1 hs with rfl | hs
    · refine ⟨hn1, ?_⟩
      have := dos_state_accounting h1 hsb1 hn1
      rw [hc1] at this
      exact this
    · exact a s hs

/-- C04: a freshly initialised volume has no lost unit (every sector is the VTOC, a catalog-track or track-0 sector, or
marked free), and its format-time system units lie inside the volume -/
theorem dos_init_noLeak {c : Nat} (hc : c = 13 ∨ c = 16) :
    (volD (init (blank c) 254 c).2 (initSys c)).noLeak = true ∧ (init (blank c) 254 c).2.c = c := by
  obtain ⟨w, h, hi, hcw, hvol⟩ := init_winv hc
  rw [h]
  have hr := reading_toDisk hi
  rw [volD_eq hr, hvol]
  exact ⟨initVol_noLeak c hc, hcw⟩

/-- **C04, the excluded case, exactly**: a `put` that is refused after `write_file` has reserved its T/S list sector
(`PutLeaks`: DISK FULL although enough sectors are free, i.e. the catalog is full; or RANGE ERROR, no type byte) leaves
every file as it was, lowers the free count by exactly one, and the lost sector is neither owned nor a system sector:
a state without lost units becomes one with a lost unit.  (On a2kit itself: `proposed_fixes/dos-put-catalog-full-leak.diff`.) -/
theorem dos_put_leak_exact {sb : List Nat} {d : Disk} (h : DInv d sb) (hsb : ∀ u ∈ sb, u < 35 * d.c) {f : FImg} (hfit : FitOk rp f)
    (hl : PutLeaks rp (volD d sb) d f) :
    (volD (put d f rp).2 sb).files = (volD d sb).files ∧ (volD (put d f rp).2 sb).free + 1 = (volD d sb).free ∧
    ((volD d sb).noLeak = true → (volD (put d f rp).2 sb).noLeak = false) := by
  obtain ⟨h1, hc, pre, post, a, b, _, _, hk, _⟩ := dos_put_stepD h f hfit
  have e1 := volD_eq a
  have e2 := volD_eq b
  rw [e1] at hl
  obtain ⟨hf, hfr, hs, _, _⟩ := hk hl
  refine ⟨by rw [e1, e2]; exact hf, by rw [e1, e2]; exact hfr, fun hn => ?_⟩
  cases hp : (volD (put d f rp).2 sb).noLeak with
  | false => rfl
  | true =>
    exfalso
    have hsb1 : ∀ u ∈ sb, u < 35 * (put d f rp).2.c := by rw [hc]; exact hsb
    have a1 := dos_state_accounting h hsb hn
    have a2 := dos_state_accounting h1 hsb1 hp
    rw [hc, e2] at a2
    rw [e1] at a1
    have ho : post.allOwned = pre.allOwned := by unfold Vol.allOwned; rw [hf]
    rw [ho, hs] at a2
    omega

/-- non-vacuity of `dos_put_leak_exact` — the **negative example for the source as written**: on a fresh DOS 3.3 volume the file image `exN` (no type byte) is refused with
RANGE ERROR after its T/S list sector was reserved: 528 free sectors become 527 with an empty catalog -/
example : (volD (put fresh16 exN).2 (initSys 16)).free + 1 = (volD fresh16 (initSys 16)).free ∧
    (volD (put fresh16 exN).2 (initSys 16)).noLeak = false := by
  have hd : DInv fresh16 (initSys 16) := ⟨_, _, fresh16_vtoc, fresh16_winv.1⟩
  have hsb : ∀ u ∈ initSys 16, u < 35 * fresh16.c := by rw [fresh16_c]; exact initSys_lt
  have hfit : ChunksFit exN := by
    intro k d hd
    unfold exN at hd
    simp only [List.lookup] at hd
    split at hd
    · cases hd; decide
    · cases hd
  have hl : PutLeaks {} (volD fresh16 (initSys 16)) fresh16 exN := ⟨rfl, rfl, rfl, rfl, by decide, Or.inr (errOf_some fresh16_exN)⟩
  have hn : (volD fresh16 (initSys 16)).noLeak = true := (dos_init_noLeak (c := 16) (Or.inr rfl)).1
  obtain ⟨_, a, b⟩ := dos_put_leak_exact (rp := {}) hd hsb (Or.inr hfit) hl
  exact ⟨a, b hn⟩

/-! ## the repaired source (`Repairs.repaired`): no hypothesis on arguments or history -/

/-- **Refinement of every history, repaired source** (`chunkGuard`): no condition on the file images at all -/
theorem dos_history_refines_repaired {sb : List Nat} (hg : rp.chunkGuard = true) (ops : List Op) {d : Disk} (h : DInv d sb) :
    validFrom dosParams (volD d sb) (trace rp sb d ops) ∧ DInv (finalDisk rp d ops) sb ∧
    finalVol (volD d sb) (trace rp sb d ops) = volD (finalDisk rp d ops) sb :=
  dos_history_refines ops h (fun op _ => argsOk_of_guard hg op)

/-- **C04 for the repaired source, unconditionally** (`dos_free_accounting_repaired`): with both repairs, along **every**
history of `put` / `delete` / `rename` / `lock` / `unlock` / `retype` — whatever the file images, successful or refused
steps, full catalog or not — that starts in a state without lost units, in every state no unit is lost and
`free + owned + system = size`. -/
theorem dos_free_accounting_repaired {sb : List Nat} (hsf : rp.slotFirst = true) (hg : rp.chunkGuard = true) (ops : List Op)
    {d : Disk} (h : DInv d sb) (hsb : ∀ u ∈ sb, u < 35 * d.c) (hn : (volD d sb).noLeak = true) :
    (∀ s ∈ trace rp sb d ops, s.post.noLeak = true ∧ s.post.free + s.post.allOwned.length + s.post.sys.length = 35 * d.c) ∧
    (volD (finalDisk rp d ops) sb).noLeak = true ∧
    (volD (finalDisk rp d ops) sb).free + (volD (finalDisk rp d ops) sb).allOwned.length + (volD (finalDisk rp d ops) sb).sys.length = 35 * d.c :=
  dos_free_accounting ops h hsb hn (fun op _ => argsOk_of_guard hg op) (leakFree_of_slotFirst hsf sb ops d)

/-- non-vacuity, repaired source: the no-type image `exN`, which leaks a sector in the source as written, is refused
and the disk is returned as it was -/
example : (put fresh16 exN Repairs.repaired).2 = fresh16 := by
  have hd : DInv fresh16 (initSys 16) := ⟨_, _, fresh16_vtoc, fresh16_winv.1⟩
  refine dos_put_refused_changes_nothing (rp := Repairs.repaired) hd exN (Or.inl rfl) rfl ?_
  rw [errOf_some fresh16_exN_repaired]; rfl

/-- **negative example for the source as written** (C01): the file image `exL` (one chunk of 257 bytes) is accepted, and
what `get` then returns does not begin with the stored bytes; the repaired source refuses it with RANGE ERROR -/
example : truncWitness = true ∧ errOf (put fresh16 exL Repairs.repaired).1 = some .range ∧ ¬ ChunksFit exL := by
  refine ⟨fresh16_exL_truncated, fresh16_exL_refused, fun h => ?_⟩
  have := h 0 (List.replicate 257 7) rfl
  rw [List.length_replicate] at this
  omega

/-! ## `get` and `catalog` of the concrete model are the reading (C01, C05 at the level of the API) -/

/-- **C01 at the API level** (`dos_get_is_reading`): on a disk satisfying the invariant, `get` of a valid name does not
change the disk; if the independent reader lists a file under that name, `get` returns exactly that record's chunk
map (every stored chunk at its index, holes absent, data = the full sectors) and its type byte (type + 128 · lock bit);
if the reader lists no such file, `get` answers FILE NOT FOUND. -/
theorem dos_get_is_reading {d : Disk} {sb : List Nat} (h : DInv d sb) {name : Bytes} (hv : isNameValid name = true) :
    (Fs.Dos3x.get d name).2 = d ∧
    (∀ g, (volD d sb).lookup (pathOf name) = some g →
      (Fs.Dos3x.get d name).1 = .ok { fsType := g.ftype + 128 * g.access, chunks := g.chunks }) ∧
    ((volD d sb).lookup (pathOf name) = none → (Fs.Dos3x.get d name).1 = .error .fileNotFound) := by
  obtain ⟨fname, hfn, _, _⟩ := stringToFileName_ok hv
  obtain ⟨v, L, hvt, hi⟩ := h
  have hp : pathOf name = pathOfName fname := by unfold pathOf; rw [hfn]
  have hr := reading_toDisk hi
  rw [toDisk_eq hvt] at hr
  have hvd : volD d sb = volOf (W.mk d.c d.raw v).img d.c sb L := volD_eq hr
  have hlen : ¬ ((nameBytes name).length > 30) := by
    have := nameBytes_length_le name
    unfold isNameValid at hv
    simp only [Bool.and_eq_true, decide_eq_true_eq] at hv
    omega
  have hget : Fs.Dos3x.get d name = d.run (getM name) := by unfold Fs.Dos3x.get; rw [if_neg hlen]
  obtain ⟨h1, h2⟩ := getM_is_reading hi hv hfn
  rw [hget, run_eq hvt, hvd, hp]
  refine ⟨?_, fun g hg => by rw [h1 g hg], fun hg => by rw [h2 hg]⟩
  cases hl : (volOf (W.mk d.c d.raw v).img d.c sb L).lookup (pathOfName fname) with
  | none => rw [h2 hl]; exact toDisk_eq hvt
  | some g => rw [h1 g hl]; exact toDisk_eq hvt

/-- **C01 for the concrete DOS model, through the API**: after an accepted `put` (any number of T/S lists) and any
further history that does not name the file, `get` of that name returns the stored chunks index for index, each
beginning with the stored bytes, and the stored type. -/
theorem dos_get_after_put {sb : List Nat} {d : Disk} (h : DInv d sb) {f : FImg} (hfit : FitOk rp f)
    (hname : isNameValid f.fullPath = true) (hok : ((Op.put f).run rp d).1 = true) {ops : List Op} (ha : ∀ op ∈ ops, op.ArgsOk rp)
    (hq : ∀ op ∈ ops, pathOf f.fullPath ∉ op.abs.targets) :
    ∃ got, (Fs.Dos3x.get (finalDisk rp ((Op.put f).run rp d).2 ops) f.fullPath).1 = .ok got ∧
      chunksMatch (putChunks f) got.chunks = true ∧ got.fsType % 128 = f.fsType.getD 0 0 % 128 := by
  obtain ⟨g, hg, hc, ht, _⟩ := dos_get_returns_last_put h hfit hok ha hq
  obtain ⟨h1, _⟩ := step_refines (.put f) hfit d sb h
  obtain ⟨_, hfin, _⟩ := full_history_refines ops h1 ha
  obtain ⟨_, hget, _⟩ := dos_get_is_reading hfin hname
  refine ⟨_, hget g hg, hc, ?_⟩
  show (g.ftype + 128 * g.access) % 128 = _
  rw [ht]; omega

theorem filesOf_map {r : Raw} {c : Nat} {α : Type} {R : Bytes → List Nat → Prop} (ψ : FileRec → α) (ψ' : Bytes → α)
    (hψ : ∀ e t, ψ (recOf r c e t) = ψ' e) {L : List Bytes} {T : List (List Nat)} (h : All2 R L T) :
    (filesOf r c L T).map ψ = L.map ψ' := by
  induction h with
  | nil => rfl
  | @cons e t L T _ _ ih => rw [filesOf_cons, List.map_cons, List.map_cons, hψ, ih]

/-- **C05 at the API level** (`dos_catalog_is_reading`): `catalog_to_vec` does not change the disk and lists exactly
the files the independent reader finds, in the same order: the name a2kit prints is `renderPath` of the reader's
path, the sector count is the record's `aux`, the type byte is type + 128 · lock bit. -/
theorem dos_catalog_is_reading {d : Disk} {sb : List Nat} (h : DInv d sb) :
    (Fs.Dos3x.catalog d).2 = d ∧
    (Fs.Dos3x.catalog d).1 = .ok ((volD d sb).files.map (fun g => (renderPath g.path, g.aux, g.ftype + 128 * g.access))) := by
  obtain ⟨v, L, hvt, hi⟩ := h
  have hr := reading_toDisk hi
  rw [toDisk_eq hvt] at hr
  have hvd : volD d sb = volOf (W.mk d.c d.raw v).img d.c sb L := volD_eq hr
  have hc := catalogM_is_reading hi
  have hcat : Fs.Dos3x.catalog d = (.ok ((liveOf (W.mk d.c d.raw v).img L.cat).map rowOf), d) := by
    unfold Fs.Dos3x.catalog
    rw [run_eq hvt, hc]
    simp only [toDisk_eq hvt]
  rw [hcat, hvd]
  refine ⟨rfl, ?_⟩
  show Except.ok _ = Except.ok ((filesOf (W.mk d.c d.raw v).img d.c (liveOf (W.mk d.c d.raw v).img L.cat) L.tsls).map _)
  congr 1
  have hmap : ∀ e ∈ liveOf (W.mk d.c d.raw v).img L.cat, rowOf e =
      (renderPath (pathOfName (slice e 3 30)), le16 e 33, e.getD 2 0 % 128 + 128 * (e.getD 2 0 / 128)) := by
    intro e he
    unfold rowOf
    rw [fileNameToString_path _ (hi.names e he), Nat.mod_add_div]
  rw [filesOf_map (fun g => (renderPath g.path, g.aux, g.ftype + 128 * g.access))
    (fun e => (renderPath (pathOfName (slice e 3 30)), le16 e 33, e.getD 2 0 % 128 + 128 * (e.getD 2 0 / 128)))
    (fun e t => rfl) hi.desc.files]
  exact List.map_congr_left hmap

/-- non-vacuity of `dos_get_is_reading` / `dos_get_after_put`: after the accepted two-list put of `exB` on a fresh volume,
`get` returns chunks at the indices 0 and 123 which begin with the stored bytes -/
example : ∃ got, (Fs.Dos3x.get (put fresh16 exB).2 exB.fullPath).1 = .ok got ∧ chunksMatch (putChunks exB) got.chunks = true := by
  have hd : DInv fresh16 (initSys 16) := ⟨_, _, fresh16_vtoc, fresh16_winv.1⟩
  have hok : (put fresh16 exB).1 = .ok (sectorsNeeded exB) :=
    fresh16_accepts (rp := {}) (f := exB) (by decide) rfl rfl (by decide) (by decide) (by decide) (by rw [exB_needs.1]; decide)
  have hok' : ((Op.put exB).run {} fresh16).1 = true := by unfold Op.run; simp only; rw [hok]; rfl
  have hnm : isNameValid exB.fullPath = true := by decide
  obtain ⟨got, a, b, _⟩ := dos_get_after_put (rp := {}) hd (Or.inr exB_fit) hnm hok' (ops := []) (fun _ h => by cases h) (fun _ h => by cases h)
  simp only [finalDisk, Op.run] at a
  exact ⟨got, a, b⟩

/-- non-vacuity of `dos_catalog_is_reading`: the catalog of a fresh volume is empty -/
example : (Fs.Dos3x.catalog fresh16).1 = .ok [] := by
  have hd : DInv fresh16 (initSys 16) := ⟨_, _, fresh16_vtoc, fresh16_winv.1⟩
  have hr := reading_toDisk fresh16_winv.1
  rw [toDisk_eq fresh16_vtoc] at hr
  rw [(dos_catalog_is_reading hd).2, volD_eq hr, fresh16_winv.2]
  rfl

/-! ## non-vacuity: a concrete history on a freshly initialised DOS 3.3 volume -/

def exA : FImg := { fullPath := [72, 105], fsType := [4], chunks := [(0, [7, 7, 7, 7]), (2, [1, 2, 3])] }

theorem exA_one : ChunksFit exA := by
  · intro k d hd
    have : (k = 0 ∧ d = [7, 7, 7, 7]) ∨ (k = 2 ∧ d = [1, 2, 3]) := by
      unfold exA at hd
      simp only [List.lookup] at hd
      by_cases h0 : k = 0
      · subst h0; simp at hd; exact Or.inl ⟨rfl, hd.symm⟩
      · have e0 : (k == 0) = false := by simpa using h0
        rw [e0] at hd
        by_cases h2 : k = 2
        · subst h2; simp at hd; exact Or.inr ⟨rfl, hd.symm⟩
        · have e2 : (k == 2) = false := by simpa using h2
          rw [e2] at hd; cases hd
    rcases this with ⟨_, rfl⟩ | ⟨_, rfl⟩ <;> simp

def exHist : List Op :=
  [.put exA, .lock [72, 105], .delete [72, 105], .unlock [72, 105], .rename [72, 105] [89, 111], .delete [89, 111]]

theorem exHist_ok : ∀ op ∈ exHist, op.ArgsOk rp := by
  intro op ho
  simp only [exHist, List.mem_cons, List.mem_nil_iff, or_false] at ho
  rcases ho with rfl | rfl | rfl | rfl | rfl | rfl
  · exact Or.inr exA_one
  all_goals trivial

/-- every state of this history (put a sparse file, lock it, a refused delete, unlock, rename, delete) on a fresh
DOS 3.3 volume is well formed, and the names listed at the end are the fold of the history -/
example : ∀ s ∈ trace {} (initSys 16) (init (blank 16) 254 16).2 exHist, s.post.wfB = true :=
  (dos_states_well_formed (dos_init_establishes_inv (c := 16) (Or.inr rfl)).2 exHist_ok).1

/-- non-vacuity of `dos_free_accounting`: in every state of that history, free + owned + system sectors = 560 -/
example : ∀ s ∈ trace {} (initSys 16) fresh16 exHist, s.post.free + s.post.allOwned.length + s.post.sys.length = 560 := by
  have hd : DInv fresh16 (initSys 16) := ⟨_, _, fresh16_vtoc, fresh16_winv.1⟩
  have hsb : ∀ u ∈ initSys 16, u < 35 * fresh16.c := by rw [fresh16_c]; exact initSys_lt
  have hn : (volD fresh16 (initSys 16)).noLeak = true := (dos_init_noLeak (c := 16) (Or.inr rfl)).1
  have hok : (put fresh16 exA).1 = .ok (sectorsNeeded exA) :=
    fresh16_accepts (rp := {}) (f := exA) (by decide) rfl rfl (by decide) (by decide) (by decide) (by decide)
  have hl : LeakFree {} (initSys 16) fresh16 exHist := by
    refine ⟨?_, fun h => h, fun h => h, fun h => h, fun h => h, fun h => h, trivial⟩
    intro hp
    have := hp.2.2.2.2.2
    rw [hok] at this
    rcases this with ⟨e, _⟩ | e <;> cases e
  intro s hs
  have := ((dos_free_accounting exHist hd hsb hn exHist_ok hl).1 s hs).2
  rw [fresh16_c] at this
  exact this

end A2Verif.FsDos
