import A2Verif.Props.C02
/-!
# C19 — protection flags are honoured and reversible

`FileRec.locked` is the protection flag the independent reader finds in the entry (DOS 3.x lock bit, ProDOS
access bits, CP/M R/O, FAT read-only).  The step conditions allow a successful delete/rename only of an
unprotected entry and a successful put/mkdir only onto an absent path.  Here: what that implies for a
protected file over histories of any length, what `unlock` restores, and that flag operations touch one
entry only.
-/
namespace A2Verif.C19

/-- C19 (single step, "cannot be deleted, renamed or overwritten"): a successful operation is never one the
protection must refuse (`mustRefuse`: delete/rename of a protected or missing entry, put/mkdir onto an
existing path). -/
theorem successful_step_was_permitted {P : FsParams} {pre post : Vol} {op : FsOp}
    (h : stepOk P pre op true post = true) : mustRefuse pre op = false := by
  cases op with
  | put p cs eof ty aux => simp [mustRefuse, (stepOk_put h).1]
  | mkdir p => simp [mustRefuse, (stepOk_mkdir h).1]
  | delete p => obtain ⟨⟨f, hf, hl⟩, _⟩ := stepOk_delete h; simp [mustRefuse, hf, hl]
  | rename p q => obtain ⟨⟨f, g, hf, _, hl, _⟩, _⟩ := stepOk_rename h; simp [mustRefuse, hf, hl]
  | lock p => rfl
  | unlock p => rfl
  | retype p => rfl
  | other => rfl

/-- C19, one step: a protected file is found identical after ANY valid step other than a lock/unlock/retype
of it — successful deletes, renames (of it or onto it), overwrites and mkdirs naming it are not valid steps,
refused ones change nothing, and operations on other paths are covered by the frame property. -/
theorem protected_step {P : FsParams} {pre post : Vol} {op : FsOp} {ok : Bool} {q : Bytes} {f : FileRec}
    (h : stepOk P pre op ok post = true) (hf : pre.lookup q = some f) (hl : f.locked = true)
    (hd : f.isDir = false) (hop : op ≠ .lock q ∧ op ≠ .unlock q ∧ op ≠ .retype q) :
    post.lookup q = some f := by
  cases ok with
  | false => exact sameFiles_lookup (stepOk_refused h) hf hd
  | true =>
    have frame : q ∉ op.targets → post.lookup q = some f := fun hn => C02.frame_step h hn hf hd
    cases op with
    | put p cs eof ty aux =>
      by_cases hp : p = q
      · subst hp; rw [(stepOk_put h).1] at hf; cases hf
      · exact frame (by simpa [FsOp.targets] using Ne.symm hp)
    | mkdir p =>
      by_cases hp : p = q
      · subst hp; rw [(stepOk_mkdir h).1] at hf; cases hf
      · exact frame (by simpa [FsOp.targets] using Ne.symm hp)
    | delete p =>
      by_cases hp : p = q
      · subst hp
        obtain ⟨⟨f', hf', hl'⟩, _⟩ := stepOk_delete h
        rw [hf] at hf'; cases hf'; rw [hl] at hl'; cases hl'
      · exact frame (by simpa [FsOp.targets] using Ne.symm hp)
    | rename p r =>
      obtain ⟨⟨f', g, hf', _, hl', _⟩, htgt, _, _⟩ := stepOk_rename h
      by_cases hp : p = q
      · subst hp; rw [hf] at hf'; cases hf'; rw [hl] at hl'; cases hl'
      · by_cases hr : r = q
        · subst hr
          rcases htgt with e | e
          · exact absurd e hp
          · rw [e] at hf; cases hf
        · exact frame (by simp [FsOp.targets, Ne.symm hp, Ne.symm hr])
    | lock p =>
      by_cases hp : p = q
      · subst hp; exact absurd rfl hop.1
      · exact frame (by simpa [FsOp.targets] using Ne.symm hp)
    | unlock p =>
      by_cases hp : p = q
      · subst hp; exact absurd rfl hop.2.1
      · exact frame (by simpa [FsOp.targets] using Ne.symm hp)
    | retype p =>
      by_cases hp : p = q
      · subst hp; exact absurd rfl hop.2.2
      · exact frame (by simpa [FsOp.targets] using Ne.symm hp)
    | other => exact frame (by simp [FsOp.targets])

/-- C19 over histories ("cannot be deleted, renamed or overwritten through a2kit until the protection is
removed, while reading it is unaffected"): along a valid history of any length in which nobody locks, unlocks
or retypes `q`, a protected file `q` is found identical at the end — content, length, type, flags, blocks —
whatever deletes, renames (of `q` or onto `q`), overwrites and other operations were attempted. -/
theorem protected_file_survives {P : FsParams} {v0 : Vol} {tr : List Step} {q : Bytes} {f : FileRec}
    (hv : validFrom P v0 tr) (hf : v0.lookup q = some f) (hl : f.locked = true) (hd : f.isDir = false)
    (hop : ∀ s ∈ tr, s.op ≠ .lock q ∧ s.op ≠ .unlock q ∧ s.op ≠ .retype q) :
    (finalVol v0 tr).lookup q = some f :=
  history_induction_mem (fun v => v.lookup q = some f) tr
    (fun s hs _ hstep hpre => protected_step hstep hpre hl hd (hop s hs)) v0 hv hf

/-- C19: every attempt on a protected file inside such a history was refused. -/
theorem attempts_on_protected_file_refused {P : FsParams} {v0 : Vol} {tr : List Step} {q : Bytes} {f : FileRec}
    (hv : validFrom P v0 tr) (hf : v0.lookup q = some f) (hl : f.locked = true) (hd : f.isDir = false)
    (hop : ∀ s ∈ tr, s.op ≠ .lock q ∧ s.op ≠ .unlock q ∧ s.op ≠ .retype q) :
    ∀ s ∈ tr, (s.op = .delete q ∨ (∃ r, s.op = .rename q r) ∨ (∃ cs e t a, s.op = .put q cs e t a)) →
      s.ok = false := by
  induction tr generalizing v0 with
  | nil => intro s hs; cases hs
  | cons t rest ih =>
    intro s hs hatt
    have hkeep := protected_step hv.1 hf hl hd (hop t List.mem_cons_self)
    rcases List.mem_cons.1 hs with rfl | hm
    · obtain ⟨op, ok, post⟩ := s
      cases ok with
      | false => rfl
      | true =>
        have hperm := successful_step_was_permitted hv.1
        simp only at hatt hperm
        rcases hatt with rfl | ⟨r, rfl⟩ | ⟨cs, e, t, a, rfl⟩ <;> simp [mustRefuse, hf, hl] at hperm
    · exact ih hv.2 hkeep (fun s hs => hop s (List.mem_cons_of_mem _ hs)) s hm hatt

/-- C19 ("removing the protection makes those operations possible again … unlock is the exact inverse"):
after a valid `unlock q` the entry has the same content, length, blocks, type, aux and kind as before, its
flag is clear, and the spec no longer demands refusal of delete or rename. -/
theorem unlock_restores {P : FsParams} {pre post : Vol} {q : Bytes}
    (h : stepOk P pre (.unlock q) true post = true) :
    ∃ f g, pre.lookup q = some f ∧ post.lookup q = some g ∧ g.locked = false ∧
      g.chunks = f.chunks ∧ g.eof = f.eof ∧ g.owned = f.owned ∧ g.ftype = f.ftype ∧ g.aux = f.aux ∧
      g.isDir = f.isDir ∧ g.path = f.path ∧
      mustRefuse post (.delete q) = false ∧ ∀ r, mustRefuse post (.rename q r) = false := by
  obtain ⟨⟨f, g, hf, hg, hl, h1, h2, h3, h4, h5, h6⟩, _⟩ := stepOk_unlock h
  refine ⟨f, g, hf, hg, hl, h1, h2, h3, h4, h5, h6, ?_, ?_, ?_⟩
  · rw [(lookup_some hg).2, (lookup_some hf).2]
  · simp [mustRefuse, hg, hl]
  · intro r; simp [mustRefuse, hg, hl]

/-- C19: `lock` sets the flag and keeps everything else that is read back. -/
theorem lock_protects {P : FsParams} {pre post : Vol} {q : Bytes}
    (h : stepOk P pre (.lock q) true post = true) :
    ∃ f g, pre.lookup q = some f ∧ post.lookup q = some g ∧ g.locked = true ∧
      g.chunks = f.chunks ∧ g.eof = f.eof ∧ g.owned = f.owned ∧ g.ftype = f.ftype ∧ g.aux = f.aux ∧
      g.isDir = f.isDir ∧
      mustRefuse post (.delete q) = true ∧ ∀ r, mustRefuse post (.rename q r) = true := by
  obtain ⟨⟨f, g, hf, hg, hl, h1, h2, h3, h4, h5, h6⟩, _⟩ := stepOk_lock h
  refine ⟨f, g, hf, hg, hl, h1, h2, h3, h4, h5, h6, ?_, ?_⟩
  · simp [mustRefuse, hg, hl]
  · intro r; simp [mustRefuse, hg, hl]

/-- C19 ("changing protection or type alters nothing but that file's own directory entry"): a lock, unlock
or retype step — successful or refused — leaves every other file entry identical and every other path
listed as before. -/
theorem flag_ops_touch_only_own_entry {P : FsParams} {pre post : Vol} {op : FsOp} {ok : Bool} {p : Bytes}
    (h : stepOk P pre op ok post = true) (hop : op = .lock p ∨ op = .unlock p ∨ op = .retype p)
    {q : Bytes} (hq : q ≠ p) :
    (∀ f, pre.lookup q = some f → f.isDir = false → post.lookup q = some f) ∧
    (q ∈ post.paths ↔ q ∈ pre.paths) := by
  have hn : q ∉ op.targets := by
    rcases hop with rfl | rfl | rfl <;> simpa [FsOp.targets] using hq
  exact ⟨fun f hf hd => C02.frame_step h hn hf hd, stepOk_bystander_path h hn⟩

/-! ## non-vacuity -/
open VolExample

/-- the locked `A` of the example survives the refused delete, the rename of `B` and the refused put -/
example : (finalVol v2 [delAref, renBC, putCref]).lookup [65] = some fAlocked :=
  protected_file_survives (P := P0) (by decide) (by decide) rfl rfl (by
    intro s hs
    simp only [List.mem_cons, List.mem_nil_iff, or_false] at hs
    rcases hs with rfl | rfl | rfl <;> simp [delAref, renBC, putCref])

/-- a reading in which the delete of the locked `A` had succeeded is not a valid step -/
example : stepOk P0 v2 (.delete [65]) true { v2 with files := [fB], freeUnits := [2, 3, 5, 6, 7] } = false := by
  decide

/-- `unlock A` in the example gives back the original record, and the delete that follows is valid -/
example : ∃ f g, v3.lookup [65] = some f ∧ v4.lookup [65] = some g ∧ g.locked = false ∧
      g.chunks = f.chunks ∧ g.eof = f.eof ∧ g.owned = f.owned ∧ g.ftype = f.ftype ∧ g.aux = f.aux ∧
      g.isDir = f.isDir ∧ g.path = f.path ∧
      mustRefuse v4 (.delete [65]) = false ∧ ∀ r, mustRefuse v4 (.rename [65] r) = false :=
  unlock_restores (P := P0) (by decide)
example : stepOk P0 v4 delA.op delA.ok delA.post = true := by decide

end A2Verif.C19
