import A2Verif.Lemmas.MinifyState
import A2Verif.Lemmas.ToolState
/-!
# C17, the `Minifier` object — references stay intact whatever the object minified before

The language server keeps one `Minifier` (`Tools.minifier`) and calls `minify` for every request.  The reference
theorems of `Props/C17.lean` (`retarget_image`, `ref_integrity`, …) are about `Model.Minify.minify`, the function a FRESH
object computes.  Here the object is a state machine (`Model/MinifyState.lean`: `deleted_lines`, `all_lines`, `line_map`,
`forbids_combining_next`, `linenum_refs`, `forbids_combining_any`, `ends_with_str` survive a call, also a failed one), and
the theorems say that with the six resets of `minify_stage1` every call on every reachable — indeed every — state
computes that same function, so the reference theorems hold for a reused object too.  Which resets are present is read
from the current source (`Gen.ToolState.minifierResets…`).
-/
namespace A2Verif.C17
open A2Verif.Model.Minify

/-- **State independence**: with all six resets, `minify` on ANY state of the object (anything earlier calls left in the
seven carried fields) answers what a fresh object answers. -/
theorem minify_state_independent (cfg : Cfg) (s : MinSt) (level : Nat) (p : List Line) :
    (minifyS cfg Resets.all s ⟨level, p, none⟩).2 = minify cfg level p :=
  minifyS_all_resets cfg s level p

/-- **History independence**: after every session on the same object — any programs, any levels, calls whose first pass
failed on some line (`failAt`), calls where `set_line_ref_map` failed half way — the next call answers what a fresh
object answers. -/
theorem minify_history_independent (cfg : Cfg) (hist : List Input) (level : Nat) (p : List Line) :
    (minifyS cfg Resets.all (session cfg Resets.all MinSt.fresh hist) ⟨level, p, none⟩).2 = minify cfg level p :=
  minifyS_all_resets cfg _ level p

/-- **The stale read is dead** (`ends_with_str`, the one field `minify` reads before assigning it): stage 3 copies it into
`last_line_ends_with_str` in its first iteration, where `combining` is false and the copy is not used.  For every value
`e` an earlier call may have left, the loop produces what it produces on a fresh object. -/
theorem stage3_first_read_dead (refset fnext : List Nat) (e : Bool) (ls : List Line) :
    stage3Loop refset fnext none false e ls = stage3 refset fnext ls :=
  stage3Loop_first_read_dead refset fnext e ls

/-- rows of the generated table for the minifier that still have an unreviewed carried field -/
def unexplainedMinifier : List (Nat × Nat × Nat) :=
  A2Verif.Gen.ToolState.unexplainedCarry.filter fun r => r.1 == A2Verif.Gen.ToolState.toolMinifier

/-- **The minifier on the current tree**: all six resets are in the source, `ends_with_str` is still the (proved dead)
carried read, no other non-configuration field can be read from an earlier call (reviewed: `flags` = the level, and two
imprecisions of the syntactic analysis), hence history independence for the code as it is now.  Fails to check when a
reset disappears from `minify_stage1` or a new carried field appears. -/
theorem minifier_current_tree :
    Resets.current = Resets.all ∧ A2Verif.Gen.ToolState.minifierResetsProgram = true ∧ unexplainedMinifier = [] ∧
    ∀ (cfg : Cfg) (hist : List Input) (level : Nat) (p : List Line),
      (minifyS cfg Resets.current (session cfg Resets.current MinSt.fresh hist) ⟨level, p, none⟩).2 = minify cfg level p := by
  have h : Resets.current = Resets.all := by decide
  refine ⟨h, by decide, by decide +kernel, ?_⟩
  intro cfg hist level p
  rw [h]
  exact minify_history_independent cfg hist level p

/-! ## what a missing reset does (the two seeded changes, on the model) -/

/-- `10 HOME / 20 PRINT "MENU" / 30 INPUT CHOICE / 40 IF CHOICE > 2 THEN 20 / 50 END` -/
def menu : List Line :=
  [ ⟨10, false, false, [], false, false, false, [], 6, false⟩, ⟨20, false, false, [], false, false, false, [1], 12, true⟩,
    ⟨30, false, false, [], false, false, false, [], 9, false⟩, ⟨40, false, false, [20], true, false, false, [], 14, false⟩,
    ⟨50, false, false, [], true, false, false, [], 5, false⟩ ]

/-- `5 REM MAIN LOOP / 100 X = X + 1 / 110 IF X < 10 THEN GOTO 5 / 120 GOSUB 200 / 130 END / 200 REM SUBROUTINE /
210 PRINT X / 220 RETURN` -/
def mainLoop : List Line :=
  [ ⟨5, true, false, [], false, false, false, [], 4, false⟩, ⟨100, false, false, [], false, false, false, [], 8, false⟩,
    ⟨110, false, false, [5], true, false, false, [], 18, false⟩, ⟨120, false, false, [200], false, false, false, [], 11, false⟩,
    ⟨130, false, false, [], true, false, false, [], 6, false⟩, ⟨200, true, false, [], false, false, false, [], 6, false⟩,
    ⟨210, false, false, [], false, false, false, [], 9, false⟩, ⟨220, false, false, [], true, false, false, [], 9, false⟩ ]

def noAllLinesReset : Resets := { Resets.all with allLines := false }
def noLineMapReset : Resets := { Resets.all with lineMap := false }

/-- fresh object, level 2: `GOTO 5` follows the deleted REM to line 100, `GOSUB 200` to line 210 -/
example : minify Cfg.fixed 2 mainLoop = .ok
    [⟨100, [], [], [], 8⟩, ⟨110, [], [100], [], 18⟩, ⟨120, [], [210], [], 11⟩, ⟨130, [], [], [], 6⟩, ⟨210, [], [], [], 9⟩, ⟨220, [], [], [], 9⟩] := by
  decide

/-- **without the reset of `all_lines`** the same object, after the menu program, sends `GOTO 5` to line 10 — a line of
the PREVIOUS program that does not exist in this one -/
theorem without_all_lines_reset_reference_dangles :
    (minifyS Cfg.fixed noAllLinesReset (session Cfg.fixed noAllLinesReset MinSt.fresh [⟨2, menu, none⟩]) ⟨2, mainLoop, none⟩).2 = .ok
      [⟨100, [], [], [], 8⟩, ⟨110, [], [10], [], 18⟩, ⟨120, [], [210], [], 11⟩, ⟨130, [], [], [], 6⟩, ⟨210, [], [], [], 9⟩, ⟨220, [], [], [], 9⟩] := by
  decide

/-- so "every reference that resolved in the input resolves in the output" is false of that object -/
theorem without_all_lines_reset_not_history_independent :
    ¬ ∀ (hist : List Input) (level : Nat) (p : List Line),
        (minifyS Cfg.fixed noAllLinesReset (session Cfg.fixed noAllLinesReset MinSt.fresh hist) ⟨level, p, none⟩).2 = minify Cfg.fixed level p := by
  intro h
  have := h [⟨2, menu, none⟩] 2 mainLoop
  revert this
  decide

/-- `10 REM TITLE / 20 REM AUTHOR / 30 HOME / 40 PRINT "HELLO" / 50 GOTO 10 / 60 GOSUB 20 / 70 END` -/
def earlier : List Line :=
  [ ⟨10, true, false, [], false, false, false, [], 5, false⟩, ⟨20, true, false, [], false, false, false, [], 5, false⟩,
    ⟨30, false, false, [], false, false, false, [], 6, false⟩, ⟨40, false, false, [], false, false, false, [1], 13, true⟩,
    ⟨50, false, false, [10], true, false, false, [], 8, false⟩, ⟨60, false, false, [20], false, false, false, [], 9, false⟩,
    ⟨70, false, false, [], true, false, false, [], 5, false⟩ ]

/-- `10 INPUT A$ / 20 PRINT A$ / 30 IF A$ = "Q" THEN 60 / 40 GOSUB 20 / 50 GOTO 10 / 60 END` -/
def later : List Line :=
  [ ⟨10, false, false, [], false, false, false, [], 9, false⟩, ⟨20, false, false, [], false, false, false, [], 9, false⟩,
    ⟨30, false, false, [60], true, false, false, [2], 17, false⟩, ⟨40, false, false, [20], false, false, false, [], 9, false⟩,
    ⟨50, false, false, [10], true, false, false, [], 8, false⟩, ⟨60, false, false, [], true, false, false, [], 5, false⟩ ]

/-- **without the reset of `line_map`** the entries `10 ↦ 30`, `20 ↦ 30` of the earlier program rewrite the branches of
the later one: `GOSUB 20` becomes `GOSUB 30`, `GOTO 10` becomes `GOTO 30` — a different program, silently -/
theorem without_line_map_reset_branches_rewritten :
    (minifyS Cfg.fixed noLineMapReset (session Cfg.fixed noLineMapReset MinSt.fresh [⟨2, earlier, none⟩]) ⟨2, later, none⟩).2 = .ok
      [⟨10, [], [], [], 9⟩, ⟨20, [], [], [], 9⟩, ⟨30, [], [60], [2], 17⟩, ⟨40, [], [30], [], 9⟩, ⟨50, [], [30], [], 8⟩, ⟨60, [], [], [], 5⟩] ∧
    minify Cfg.fixed 2 later = .ok
      [⟨10, [], [], [], 9⟩, ⟨20, [], [], [], 9⟩, ⟨30, [], [60], [2], 17⟩, ⟨40, [], [20], [], 9⟩, ⟨50, [], [10], [], 8⟩, ⟨60, [], [], [], 5⟩] := by
  decide

/-- a call whose first pass fails on its third line returns `err` and leaves what it collected (early return) … -/
example : (minifyS Cfg.fixed Resets.all MinSt.fresh ⟨2, earlier, some 2⟩).1.allLines = [10, 20] ∧
    (minifyS Cfg.fixed Resets.all MinSt.fresh ⟨2, earlier, some 2⟩).1.deleted = [10, 20] ∧
    (minifyS Cfg.fixed Resets.all MinSt.fresh ⟨2, earlier, some 2⟩).2 = .err := by decide
/-- … which the resets make harmless -/
example : (minifyS Cfg.fixed Resets.all (session Cfg.fixed Resets.all MinSt.fresh [⟨2, earlier, some 2⟩, ⟨3, menu, none⟩]) ⟨2, later, none⟩).2
    = minify Cfg.fixed 2 later := by decide
/-- a stale `ends_with_str = true` (the menu's line 20 ends with a string … here forced) changes nothing at level 3 -/
example : (minifyS Cfg.fixed Resets.all { MinSt.fresh with endsWithStr := true } ⟨3, menu, none⟩).2 = minify Cfg.fixed 3 menu := by decide

end A2Verif.C17
