import A2Verif.Model.Mkdsk
import A2Verif.Lemmas.MkdskDomain
import A2Verif.Lemmas.MkdskAny
/-!
# Property C10 — every accepted mkdsk configuration yields a valid empty volume

The configuration space is finite: 7 OS x 23 kinds x 10 image types x (no wrap | 3 wraps) x boot flag x the 34 volume
classes of `volClasses` (names / numbers at the edges of the legal ranges).  All statements below are established
by kernel evaluation of the model `A2Verif.Model.Mkdsk` over that *whole* space (`decide +kernel`, one run per OS),
against the tables regenerated from the current source (`A2Verif.Gen.Mkdsk`).

What "valid" means for the *decision* (the content of the written file is the business of the direct oracle of
harness family `c10`, which reloads every accepted file with a2kit itself):
the (image type, kind) pair is an arm of `mkimage`, the extension belongs to the image type, the file system is the
one the OS names, the capacity is one the formatter of that file system supports, the volume argument is legal for
that file system, and the block / free-block figures the formatter produces are consistent with the capacity
and leave room for a first file.
-/
namespace A2Verif.C10
open A2Verif.Gen.Mkdsk A2Verif.Model.Mkdsk A2Verif.Lemmas.MkdskDomain A2Verif.Lemmas.MkdskAny

/-! ## the specification of an accepted plan (written independently of the guards of mkdsk.rs) -/

def fsOfHandler : Handler → Option Fs
  | .cpm _ => some .cpm
  | .dos3x => some .dos
  | .prodos => some .prodos
  | .pascal => some .pascal
  | .fat => some .fat
  | .unreachable => none

def isRefuse : Ctor → Bool
  | .refuse => true
  | _ => false

/-- the (image type, kind) pairing is an image-creating arm of `mkimage` -/
def pairInTable (p : Plan) : Bool :=
  mkimageArms.any fun a => a.1.same p.typ && a.2.1.same p.kind && !isRefuse a.2.2

/-- the plan is for the image type, (refined) kind and OS that were asked for -/
def asRequested (c : Config) (p : Plan) : Bool :=
  (match typeFromStr c.typ with | some t => t.same p.typ | none => false) &&
  (match kindFromStr c.kind with | some k => (refine c.os k).same p.kind | none => false) &&
  (match fsOfHandler (osHandler c.os) with | some f => f == p.fs | none => false)

def extOk (c : Config) (p : Plan) : Bool := (fileExts p.typ).contains (c.ext.map lower)

/-- the legal range of the volume argument, per file system (DOS 3.x: a number 1..254, and 254 if boot tracks are
wanted; ProDOS / Pascal: a legal name; CP/M 3 and FAT: nothing or a legal label; CP/M 2: ignored);
only DOS 3.x can be made bootable -/
def volLegal (c : Config) (p : Plan) : Bool :=
  match p.fs with
  | .dos => match c.vol.bind parseU8 with
    | some v => decide (1 ≤ v) && decide (v ≤ 254) && (!c.boot || v == 254)
    | none => false
  | .prodos => !c.boot && (match c.vol with | some s => prodosNameValid s | none => false)
  | .pascal => !c.boot && (match c.vol with | some s => pascalVolValid s | none => false)
  | .cpm => !c.boot && (match osHandler c.os with
    | .cpm v => decide (v < 3) || (cpmLabel v c.vol).isEmpty || cpmNameValid (cpmLabel v c.vol)
    | _ => true)
  | .fat => !c.boot && (match c.vol with | some s => s.isEmpty || fatLabelValid s | none => true)

/-- the capacity of the image is one the formatter of the file system supports -/
def capacityOk (p : Plan) : Bool :=
  match p.fs with
  | .dos => dos3xCapacities.contains p.cap && (p.kind.same .A2_DOS32_KIND || p.kind.same .A2_DOS33_KIND) &&
      p.blockSize == 256 && decide (p.total * 256 ≤ p.cap)
  | .prodos => decide (280 ≤ p.total) && decide (p.total ≤ 65535) && p.total * 512 == p.cap && p.blockSize == 512
  | .pascal => p.kind.same .A2_DOS33_KIND && p.total == 280 && p.total * 512 == p.cap && p.blockSize == 512
  | .cpm => match dpbArms.find? (fun a => a.1.same p.kind) with
    | some (_, d) => d.verify && decide (d.diskCapacity ≤ p.cap) && p.total == d.get 4 + 1 && p.blockSize == 128 * 2 ^ d.get 1
    | none => false
  | .fat => match bpbArms.find? (fun a => a.1.same p.kind) with
    | some (_, b) => b.get 5 * b.get 0 == p.cap && p.total == b.clusters && p.blockSize == b.get 0 * b.get 1
    | none => false

/-- What each `--kind` value means, in data bytes: written down from the documentation of the media (tracks x sides x
sectors x sector size; Apple 3.5 inch in 512 byte blocks), deliberately *not* taken from `img/names.rs`, so that a
changed layout constant or a changed `DiskKind::from_str` arm shows up here. -/
def specCapacity : KindArg → Nat
  | .k_8in => 256256
  | .k_8in_trs80 => 625920
  | .k_8in_nabu => 1018368
  | .k_5_25in => 143360
  | .k_5_25in_ibm_ssdd8 => 163840
  | .k_5_25in_ibm_ssdd9 => 184320
  | .k_5_25in_ibm_dsdd8 => 327680
  | .k_5_25in_ibm_dsdd9 => 368640
  | .k_5_25in_ibm_ssqd => 327680
  | .k_5_25in_ibm_dsqd => 655360
  | .k_5_25in_ibm_dshd => 1228800
  | .k_5_25in_kayii => 204800
  | .k_5_25in_kay4 => 409600
  | .k_5_25in_osb_sd => 102400
  | .k_5_25in_osb_dd => 204800
  | .k_3_5in => 819200
  | .k_3_5in_ss => 409600
  | .k_3_5in_ds => 819200
  | .k_3_5in_ibm_720 => 737280
  | .k_3_5in_ibm_1440 => 1474560
  | .k_3_5in_ibm_2880 => 2949120
  | .k_3in_amstrad => 184320
  | .k_hdmax => 33553920

/-- the image has the capacity the `--kind` value stands for (DOS 3.2 turns the 5.25 inch kind into its 13 sector
form; a WOZ reports the 16 sector figure for it, woz1.rs:359 / woz2.rs:671) -/
def specOk (c : Config) (p : Plan) : Bool :=
  if c.os.same .o_dos32 && p.kind.same .A2_DOS32_KIND then
    p.cap == 35 * 13 * 256 || ((p.typ.same .WOZ1 || p.typ.same .WOZ2) && p.cap == 35 * 16 * 256)
  else p.cap == specCapacity c.kind

/-- the byte capacity of the image is the data capacity of the requested kind (Apple 3.5 inch sectors carry 512 data
bytes of their 524; a WOZ of a 13 sector disk reports the 16 sector figure, woz1.rs:359 / woz2.rs:671) -/
def kindCapacityOk (p : Plan) : Bool :=
  let raw := p.kind.byteCapacity
  let data := if p.kind.data.sectorSize.headD 0 == 524 then raw / 524 * 512 else raw
  p.cap == data || (p.kind.same .A2_DOS32_KIND && (p.typ.same .WOZ1 || p.typ.same .WOZ2) && p.cap == 35 * 16 * 256)

/-- the free-space figure is consistent with the capacity and leaves room for a first file: not more free blocks
than blocks, not more blocks than bytes, at least one free block, and at least 70% of the medium is free -/
def freeOk (p : Plan) : Bool :=
  decide (0 < p.free) && decide (p.free ≤ p.total) && decide (p.total * p.blockSize ≤ p.cap) &&
  decide (p.cap * 70 ≤ p.free * p.blockSize * 100)

def acceptedOk (c : Config) (p : Plan) : Bool :=
  asRequested c p && pairInTable p && extOk c p && specOk c p && kindCapacityOk p && capacityOk p && volLegal c p && freeOk p

/-! ## the exhaustive runs, one per OS -/

set_option maxRecDepth 100000 in
theorem check_cpm2 : checkOs acceptedOk .o_cpm2 = true := by decide +kernel
set_option maxRecDepth 100000 in
theorem check_cpm3 : checkOs acceptedOk .o_cpm3 = true := by decide +kernel
set_option maxRecDepth 100000 in
theorem check_dos32 : checkOs acceptedOk .o_dos32 = true := by decide +kernel
set_option maxRecDepth 100000 in
theorem check_dos33 : checkOs acceptedOk .o_dos33 = true := by decide +kernel
set_option maxRecDepth 100000 in
theorem check_prodos : checkOs acceptedOk .o_prodos = true := by decide +kernel
set_option maxRecDepth 100000 in
theorem check_pascal : checkOs acceptedOk .o_pascal = true := by decide +kernel
set_option maxRecDepth 100000 in
theorem check_fat : checkOs acceptedOk .o_fat = true := by decide +kernel

theorem check_all (os : Os) : checkOs acceptedOk os = true := by
  cases os
  · exact check_cpm2
  · exact check_cpm3
  · exact check_dos32
  · exact check_dos33
  · exact check_prodos
  · exact check_pascal
  · exact check_fat

/-! ## the property -/

/-- C10, clause "combinations that cannot work are refused with an error" (not with a crash): over the whole
configuration space no configuration reaches a `panic!` / `assert!` / `unwrap` failure. -/
theorem no_panic (os : Os) (kind : KindArg) (typ : TypeArg) (wrap : Option WrapArg) (boot : Bool)
    (vol : Option (List Nat)) (hv : vol ∈ volClasses) :
    (run (cfg os kind typ wrap boot vol)).outcome.isPanic = false := by
  have h := checkOs_sound acceptedOk os (check_all os) kind typ wrap boot vol hv
  unfold run
  cases hp : plan (cfg os kind typ wrap boot vol) with
  | ok p => rfl
  | err s => rfl
  | panic s => rw [hp] at h; exact h.elim

/-- C10, clause "for every accepted combination …" as far as it is a fact about the decision: an accepted
configuration is one whose (image type, kind) pair is in `mkimage`'s table, whose extension belongs to the image type,
whose image has the capacity the `--kind` value stands for (`specCapacity`, independent of names.rs) and the data
capacity of the kind value, whose file system is the requested one on a capacity
its formatter supports, whose volume argument is legal, and whose
block and free-block figures are consistent with the capacity and leave room for a first file. -/
theorem accepted_sound (os : Os) (kind : KindArg) (typ : TypeArg) (wrap : Option WrapArg) (boot : Bool)
    (vol : Option (List Nat)) (hv : vol ∈ volClasses) (p : Plan)
    (hok : (run (cfg os kind typ wrap boot vol)).outcome = .ok p) :
    acceptedOk (cfg os kind typ wrap boot vol) p = true := by
  have h := checkOs_sound acceptedOk os (check_all os) kind typ wrap boot vol hv
  unfold run at hok
  cases hp : plan (cfg os kind typ wrap boot vol) with
  | ok q =>
    rw [hp] at h hok
    have hq : Outcome.ok q = Outcome.ok p := hok
    have : q = p := by injection hq
    exact this ▸ h
  | err s =>
    rw [hp] at hok
    have hq : Outcome.err s = Outcome.ok p := hok
    cases hq
  | panic s =>
    rw [hp] at hok
    have hq : Outcome.panic s = Outcome.ok p := hok
    cases hq

/-- C10, clause "… and no file is written": for *every* configuration (any strings, any destination state) the single
write step of `mkdsk` is executed exactly when the decision is `ok`; every refusal and every panic is reached before it. -/
theorem refused_writes_nothing (c : Config) : (run c).wrote = (run c).outcome.isOk := by
  unfold run
  cases plan c <;> rfl

/-- an existing destination is never overwritten: the command is refused before anything else is looked at -/
theorem existing_destination_refused (c : Config) (h : c.destExists = true) : (run c).outcome.isOk = false := by
  unfold run plan
  cases hk : osKnown c.os <;> simp [h, Outcome.isOk]

/-! ## … and for arbitrary strings

The three statements below quantify over *every* `Config`: any volume string, any extension, any destination state
(the enumerated classes above are special cases).  They rest on the finite facts `tablesOk_holds` and
`preImg_no_panic` (kernel evaluation over the generated tables) and on case analysis of the model. -/

/-- no volume string, extension or destination state can make `mkdsk` panic -/
theorem no_panic_any (c : Config) : (run c).outcome.isPanic = false := by
  have h := plan_no_panic c
  unfold run
  cases hp : plan c with
  | ok p => rfl
  | err s => rfl
  | panic s => rw [hp] at h; cases h

theorem run_ok_iff (c : Config) (p : Plan) : (run c).outcome = .ok p ↔ plan c = .ok p := by
  unfold run
  cases plan c <;> simp

/-- whatever the destination is called: an accepted configuration's extension, lower-cased, is one of the extensions
of the image type that was written -/
theorem accepted_extension_any (c : Config) (p : Plan) (h : (run c).outcome = .ok p) : extOk c p = true :=
  accepted_extension c p ((run_ok_iff c p).mp h)

/-- whatever the volume string is: if the configuration is accepted, the string is legal for the file system that
was written (DOS 3.x: it parses as a number in 1..254, and 254 with boot tracks; ProDOS, Pascal: a legal name;
CP/M 3, FAT: empty or a legal label), and only DOS 3.x is made bootable -/
theorem accepted_volume_any (c : Config) (p : Plan) (h : (run c).outcome = .ok p) : volLegal c p = true := by
  obtain ⟨x, _, hper⟩ := plan_ok_perOs ((run_ok_iff c p).mp h)
  unfold perOs at hper
  unfold volLegal
  split at hper
  · rename_i v hh
    obtain ⟨hb, hv⟩ := mkcpm_volume hper
    rw [mkcpm_fs hper, hh]
    simp only [hb, Bool.not_false, Bool.true_and]
    by_cases h3 : v < 3
    · simp [h3]
    · by_cases he : (cpmLabel v c.vol).length = 0
      · have : (cpmLabel v c.vol).isEmpty = true := by simpa [List.isEmpty_iff_length_eq_zero] using he
        simp [this]
      · have := hv (by omega) (by omega)
        simp [this]
  · obtain ⟨s, v, hs, hp, hg, _, hb⟩ := mkdos3x_volume hper
    rw [mkdos3x_fs hper, hs]
    have hr := (dos3xVolGuard_range v).mp hg
    simp only [Option.bind, hp]
    have hbv : dos3xBootVol = 254 := rfl
    cases hbo : c.boot
    · simp [hr.1, hr.2]
    · have := hb hbo
      simp [this, hbv]
  · obtain ⟨hb, s, hs, hv⟩ := mkprodos_volume hper
    rw [mkprodos_fs hper, hs]
    simp [hb, hv]
  · obtain ⟨hb, s, hs, hv⟩ := mkpascal_volume hper
    rw [mkpascal_fs hper, hs]
    simp [hb, hv]
  · obtain ⟨hb, hv⟩ := mkfat_volume hper
    rw [mkfat_fs hper]
    simp only [hb, Bool.not_false, Bool.true_and]
    cases hvol : c.vol with
    | none => rfl
    | some s =>
      rw [hvol] at hv
      simp only [Option.getD] at hv
      by_cases he : s.length = 0
      · have : s.isEmpty = true := by simpa [List.isEmpty_iff_length_eq_zero] using he
        simp [this]
      · have := hv (by omega)
        simp [this]
  · cases hper

/-- the interning of `DiskKind` values by the translator is sound: different constructors of `Kind` carry different
data, so comparing constructors is comparing `DiskKind` values with the derived `PartialEq` -/
theorem kind_data_injective : ∀ a ∈ Kind.all, ∀ b ∈ Kind.all, a.data = b.data → a.same b = true := by decide +kernel

/-- `mkimage` returns an image of the requested type with a kind the later stages can rely on -/
theorem mkimage_type_faithful : ∀ t ∈ ImgType.all, ∀ k ∈ Kind.all, ∀ w ∈ wraps,
    (match mkimage t k w with | .ok img => img.typ.same t | .err _ => true | .panic _ => true) = true := by decide +kernel

/-! ## non-vacuity: concrete accepted and refused configurations -/

/-- "NEW.DISK" -/
def newDisk : List Nat := [78, 69, 87, 46, 68, 73, 83, 75]

example : some [50, 53, 52] ∈ volClasses := by decide
example : some [65, 66, 67, 68, 69, 70, 71, 72, 73, 74, 75, 76, 77, 78, 79] ∈ volClasses := by decide

/-- ProDOS on a 3.5 inch 800K WOZ2 with a 15 character name is accepted: 1600 blocks, 1593 free -/
example : (run (cfg .o_prodos .k_3_5in .t_woz2 none false (some [65, 66, 67, 68, 69, 70, 71, 72, 73, 74, 75, 76, 77, 78, 79]))).outcome
    = .ok { typ := .WOZ2, kind := .A2_800_KIND, cap := 819200, fs := .prodos, blockSize := 512, total := 1600, free := 1593 } := by
  decide +kernel

/-- bootable DOS 3.2 (the kind is refined to the 13 sector kind) in a WOZ1 -/
example : (run (cfg .o_dos32 .k_5_25in .t_woz1 none true (some [50, 53, 52]))).outcome
    = .ok { typ := .WOZ1, kind := .A2_DOS32_KIND, cap := 143360, fs := .dos, blockSize := 256, total := 455, free := 403 } := by
  decide +kernel

/-- FAT on an 8 inch IMD, no label -/
example : (run (cfg .o_fat .k_8in .t_imd none false none)).outcome
    = .ok { typ := .IMD, kind := .IBM_CPM1_KIND, cap := 256256, fs := .fat, blockSize := 512, total := 493, free := 493 } := by
  decide +kernel

/-- refusals: Pascal on 800K (no boot blocks for that kind), a 16 character ProDOS name, DOS volume 256 -/
example : (run (cfg .o_pascal .k_3_5in .t_po none false (some [65]))).outcome = .err .bootBlocks := by decide +kernel
example : (run (cfg .o_dos33 .k_5_25in .t_do none false (some [50, 53, 54]))).outcome = .err .volumeRange := by decide +kernel

/-! ## the defects of the round-0 tree, as negative statements about the model with the round-0 parameters

The model takes the four source-dependent decisions as parameters; with the values the translator extracted from the
tree before the fixes (`v>=1 || v<=254`; no kind guard in `mkcpm`; no name check in prodos `format`; `IMD`/`TD0` arms
for the 2.88M kind) the configurations below panic, i.e. `no_panic` was false of that tree. -/

def a2dos33Do : Img := { typ := .DO, kind := .A2_DOS33_KIND, cap := 143360 }

/-- `a2kit mkdsk -o dos33 -t do -v 0 -d x.do`: the guard `v>=1 || v<=254` lets 0 through to `assert!(vol>0 && vol<255)` -/
example : mkdos3xWith (fun v => decide (v ≥ 1) || decide (v ≤ 254)) (some [48]) false a2dos33Do .A2_DOS33_KIND = .panic .initAssert := by
  decide +kernel
example : mkdos3xWith (fun v => decide (v ≥ 1) || decide (v ≤ 254)) (some [50, 53, 53]) false a2dos33Do .A2_DOS33_KIND = .panic .initAssert := by
  decide +kernel
/-- with the repaired guard the same request is refused -/
example : mkdos3xWith (fun v => decide (v ≥ 1) && decide (v ≤ 254)) (some [48]) false a2dos33Do .A2_DOS33_KIND = .err .volumeRange := by
  decide +kernel

/-- `a2kit mkdsk -o prodos -t do -v NEW_DISK -d x.do`: `string_to_file_name` panics on an illegal name -/
example : mkprodosWith false (some [78, 69, 87, 95, 68, 73, 83, 75]) false a2dos33Do .A2_DOS33_KIND = .panic .nameAssert := by decide +kernel
example : mkprodosWith true (some [78, 69, 87, 95, 68, 73, 83, 75]) false a2dos33Do .A2_DOS33_KIND = .err .volumeName := by decide +kernel

/-- `a2kit mkdsk -o cpm2 -k 3.5in-ibm-720 -t img -d x.img`: `DiskParameterBlock::create` panics on a kind it has no DPB for -/
example : mkcpmWith none none false .D35_IBM_720 { typ := .IMG, kind := .D35_IBM_720, cap := 737280 } 2 = .panic .dpbCreate := by decide +kernel
example : mkcpmWith (some [.A2_DOS33_KIND]) none false .D35_IBM_720 { typ := .IMG, kind := .D35_IBM_720, cap := 737280 } 2 = .err .kindUnsupported := by
  decide +kernel

/-- `a2kit mkdsk -o fat -k 3.5in-ibm-2880 -t imd -d x.imd`: an IMD track cannot encode 1000 kbps, `Track::create` panics -/
example : mkimageWith [(.IMD, .D35_IBM_2880, .imd)] .IMD .D35_IBM_2880 none = .panic .imageCreate := by decide +kernel
example : mkimageWith [(.TD0, .D35_IBM_2880, .td0)] .TD0 .D35_IBM_2880 none = .panic .imageCreate := by decide +kernel
example : mkimageWith [(.IMD, .D35_IBM_2880, .refuse), (.IMD, .D35_IBM_2880, .imd)] .IMD .D35_IBM_2880 none = .err .pairing := by decide +kernel

end A2Verif.C10
