import A2Verif.Lemmas.Renumber
import A2Verif.Lemmas.RenumberText
import A2Verif.Lemmas.RenumberSel
import A2Verif.Lemmas.RenumberFinal
import A2Verif.Lemmas.RenumberMove
import A2Verif.Lemmas.RenumberMoveFinal
import A2Verif.Lemmas.RenumberTotal
/-!
# Property C16 — renumbering preserves program structure

All statements are about `Model.Renumber` (transcription of `linenum.rs`, `*/renumber.rs`, `lang/mod.rs`),
tied to the real code by the harness family `c16` (functional: same gathered labels in, same text / refusal
out).  `renumber` is the code **with** `/verif/proposed_fixes/renumber-empty-selection.diff`; `renumberLegacy`
is HEAD 27d20bf, for which the property is false (`legacy_empty_selection_violates`).

Reading guide (clauses of the property):
* refusal, contrapositives — `accepts_only_in_bounds`, `accepts_only_without_collision`, `accepts_only_unique_primaries`,
                 `accepts_move_only_if_allowed`, `empty_selection_refused`, `refusal_returns_nothing`
* refusal in full — `refused_iff` (`renumber = Err` ⟺ `Refuse`, never a panic), `accepted_iff`, `accepted_not_refuse`,
                 `renumber_outcome`, `needsMove_iff` (what "interleave" means), `refused_unmodified`,
                 `move_last_row_refused` (the one spurious refusal)
* (ii)         — `selected_rows_are_the_requested_lines`, `selected_primaries_sequence`
* (iii)        — `edits_char`, `ref_follows`, `only_label_edits`
* (iv)         — `bottom_up_eq_simultaneous`
* (i)–(iv) as one theorem, no move — `renumber_correct`
* (i)–(iv) as one theorem, move    — `moved_block_placed` (content of the block: `moved_block_content`),
                 `placement_ascending` (the block stands where its numbers belong)
* building blocks of (i) — `one_edit_on_one_row`, `apply_loop_rows_partial`
* theorems that read the current source (reference kinds, bounds, per-pass resets, object reuse) — `Props/C16Tree.lean`
-/
namespace A2Verif.C16
open A2Verif.Model.Renumber A2Verif.Lemmas.Renumber

/-! ## a concrete instance used for the non-vacuity examples

```
10 GOTO 30          10 GOTO 110
20 END       ==>    100 END          (beg=20, end=64000, first=100, step=10)
30 GOTO 10          110 GOTO 10
```
-/
def exIn : Input :=
  { src := [49,48,32,71,79,84,79,32,51,48,10,50,48,32,69,78,68,10,51,48,32,71,79,84,79,32,49,48,10],
    defs := [(10, ⟨⟨⟨0,0⟩,⟨0,3⟩⟩,0,1⟩), (20, ⟨⟨⟨1,0⟩,⟨1,3⟩⟩,0,1⟩), (30, ⟨⟨⟨2,0⟩,⟨2,3⟩⟩,0,1⟩)],
    refs := [(30, ⟨⟨⟨0,8⟩,⟨0,10⟩⟩,0,0⟩), (10, ⟨⟨⟨2,8⟩,⟨2,10⟩⟩,0,0⟩)],
    beg := 20, end_ := 64000, first := 100, step := 10, flags := 0, maxNum := 63999 }

def exOut : List Nat :=
  [49,48,32,71,79,84,79,32,49,49,48,10,49,48,48,32,69,78,68,10,49,49,48,32,71,79,84,79,32,49,48,10]

/-- the instance is accepted, its labels satisfy `LabelsOK`, and the result is the expected text -/
example : renumber exIn = .ok exOut ∧ labelsOK exIn.src exIn.defs exIn.refs = true := by decide

/-! ## inversion: what an accepted request went through -/

theorem buildEdits_ok_inv {allTxt : List Nat} {defs refs : List (Nat × Label)} {ext : Option Range} {p : Params}
    {edits : List Edit} (h : buildEdits allTxt defs refs ext p = .ok edits) :
    ∃ pl, plan allTxt defs refs ext p = .ok pl ∧
      ((pl.ins = pl.sel.s.line ∧ edits = pl.selEdits ++ pl.unselEdits) ∨
       (pl.ins ≠ pl.sel.s.line ∧ ∃ updated, applyEdits pl.selTxt pl.selEdits pl.sel.s.line = .ok updated ∧
          edits = [⟨⟨pl.endPos, pl.endPos⟩, pl.lineSep⟩, ⟨⟨⟨pl.ins, 0⟩, ⟨pl.ins, 0⟩⟩, updated⟩] ++
            (rangeList pl.sel.s.line pl.sel.e.line).map (fun l => (⟨⟨⟨l, 0⟩, ⟨l + 1, 0⟩⟩, []⟩ : Edit)) ++
            pl.unselEdits)) := by
  unfold buildEdits at h
  cases hp : plan allTxt defs refs ext p with
  | err => simp [hp, Res.bind] at h
  | panic => simp [hp, Res.bind] at h
  | ok pl =>
    refine ⟨pl, rfl, ?_⟩
    simp only [hp, Res.bind] at h
    split at h
    · rename_i hne
      right
      cases hu : applyEdits pl.selTxt pl.selEdits pl.sel.s.line with
      | err => simp [hu] at h
      | panic => simp [hu] at h
      | ok updated =>
        simp only [hu] at h
        injection h with h
        exact ⟨hne, updated, rfl, h.symm⟩
    · rename_i heq
      left
      injection h with h
      exact ⟨by simpa using heq, h.symm⟩

/-- an accepted request: some line number lies in `[beg,end)`, `plan` succeeded, `build_edits` returned edits
and `apply_edits` applied them -/
theorem renumber_ok_inv {i : Input} {out : List Nat} (h : renumber i = .ok out) :
    ∃ ext pl edits, extSelOf i.defs i.beg i.end_ = some ext ∧ anySelected i.defs i.beg i.end_ = true ∧
      plan i.src i.defs i.refs ext i.params = .ok pl ∧
      buildEdits i.src i.defs i.refs ext i.params = .ok edits ∧
      applyEdits i.src edits 0 = .ok out := by
  unfold renumber renumberWith at h
  split at h
  · cases h
  · rename_i ext hext
    cases hany : anySelected i.defs i.beg i.end_ with
    | false => simp [hany] at h
    | true =>
      simp only [hany, Bool.not_false, Bool.not_true, Bool.and_false, Bool.false_eq_true, ↓reduceIte] at h
      split at h
      · rename_i edits hb
        obtain ⟨pl, hp, _⟩ := buildEdits_ok_inv hb
        refine ⟨ext, pl, edits, hext, rfl, hp, hb, ?_⟩
        split at h
        · rename_i ans ha; injection h with h; rw [← h]; exact ha
        · cases h
        · cases h
      · cases h
      · cases h

/-! ## refusals

Every refusal of the Rust is an `Err(..)`: `renumber` takes `&str` and returns `Result<String,_>`, so a
refused request returns no text at all and cannot modify the caller's program (`refusal_returns_nothing`;
the harness oracle `refusal-unmodified` re-checks the source buffer).  The theorems below are the
contrapositives "accepted ⇒ the condition that must be refused does not hold". -/

/-- a result is either a text or carries nothing -/
theorem refusal_returns_nothing (i : Input) : (∃ out, renumber i = .ok out) ∨ renumber i = .err ∨ renumber i = .panic := by
  cases h : renumber i with
  | ok out => exact Or.inl ⟨out, rfl⟩
  | err => exact Or.inr (Or.inl rfl)
  | panic => exact Or.inr (Or.inr rfl)

/-- **exceeds 63999 (32767 for Integer) ⇒ refused**: if the request is accepted every new number is within
`[0,maxNum]`. -/
theorem accepts_only_in_bounds {allTxt : List Nat} {defs refs : List (Nat × Label)} {ext : Option Range}
    {p : Params} {pl : Plan} (h : plan allTxt defs refs ext p = .ok pl) :
    ∀ kn ∈ pl.mapping, kn.2 ≤ p.maxNum := by
  have f := plan_ok_inv h
  intro kn hkn
  have hv : kn.2 ∈ pl.mapping.map (·.2) := List.mem_map_of_mem hkn
  rw [f.mapping, mkMapping_vals] at hv
  obtain ⟨k, hk, hkeq⟩ := List.mem_map.mp hv
  rw [← hkeq]
  have hk' : k < (selGroup pl.sel defs).length := by simpa using hk
  have hb := f.bound
  unfold lastNum at hb
  have : k * p.dl ≤ p.dl * ((selGroup pl.sel defs).length - 1) := by
    rw [Nat.mul_comm]; exact Nat.mul_le_mul_left _ (by omega)
  omega

example : (plan exIn.src exIn.defs exIn.refs (some ⟨⟨1,0⟩,⟨3,0⟩⟩) exIn.params).bind (fun pl => .ok pl.mapping)
    = .ok [(20,100),(30,110)] := by decide

/-- **duplicate / interleave ⇒ refused**: if the request is accepted, no line outside the selected rows has a
number inside `[first, last]` (so no new number equals an unselected number, and no unselected line lies
between two renumbered lines). -/
theorem accepts_only_without_collision {allTxt : List Nat} {defs refs : List (Nat × Label)} {ext : Option Range}
    {p : Params} {pl : Plan} (h : plan allTxt defs refs ext p = .ok pl) :
    ∀ num lab, (num, lab) ∈ defs → ¬ onSelRows pl.sel lab → ¬ (p.l0 ≤ num ∧ num ≤ lastNum p pl.sel defs) := by
  have f := plan_ok_inv h
  obtain ⟨ins0, hck, _⟩ := f.check
  intro num lab hmem hout
  obtain ⟨vs, hvs, hlab⟩ := (memG_group defs num lab).mpr hmem
  obtain ⟨i0, hi0, hor⟩ := checkLoop_some hck _ hvs
  dsimp only at hi0 hor
  subst hi0
  simp only [List.mem_singleton] at hlab
  subst hlab
  rcases hor with h1 | h1
  · exact absurd h1 hout
  · exact h1

/-- **duplicated primary in the source ⇒ refused** -/
theorem accepts_only_unique_primaries {i : Input} {out : List Nat} (h : renumber i = .ok out) :
    ∀ num l1 l2, (num, l1) ∈ i.defs → (num, l2) ∈ i.defs → l1 = l2 := by
  obtain ⟨ext, pl, edits, hext, _, _, _, _⟩ := renumber_ok_inv h
  unfold extSelOf at hext
  cases hs : selRows i.beg i.end_ (group i.defs) 0x10000 0 with
  | none => simp [hs] at hext
  | some r =>
    intro num l1 l2 h1 h2
    obtain ⟨vs1, hv1, hl1⟩ := (memG_group i.defs num l1).mpr h1
    obtain ⟨vs2, hv2, hl2⟩ := (memG_group i.defs num l2).mpr h2
    obtain ⟨a, ha⟩ := selRows_some hs _ hv1
    obtain ⟨b, hb⟩ := selRows_some hs _ hv2
    dsimp only at ha hb
    subst ha hb
    simp only [List.mem_singleton] at hl1 hl2
    subst hl1 hl2
    -- keys of the grouped map are pairwise distinct, so both entries are the same entry
    have hnd := keys_nodup_group i.defs
    have : ∀ (m : List (Nat × List Label)), (m.map (·.1)).Nodup → ∀ x y, (num, x) ∈ m → (num, y) ∈ m → x = y := by
      intro m
      induction m with
      | nil => intro _ x y hx; cases hx
      | cons z zs ih =>
        intro hnd x y hx hy
        simp only [List.map_cons, List.nodup_cons] at hnd
        rcases List.mem_cons.mp hx with hx | hx <;> rcases List.mem_cons.mp hy with hy | hy
        · rw [← hx] at hy; injection hy with _ hy; exact hy.symm
        · exact absurd (List.mem_map_of_mem (f := (·.1)) hy) (by rw [← hx] at hnd; exact hnd.1)
        · exact absurd (List.mem_map_of_mem (f := (·.1)) hx) (by rw [← hy] at hnd; exact hnd.1)
        · exact ih hnd.2 x y hx hy
    have := this _ hnd _ _ hv1 hv2
    injection this

/-- **move needed but not allowed ⇒ refused**: without the REORDER flag an accepted request leaves the
selection where it is, and the edit list consists of label replacements only. -/
theorem accepts_move_only_if_allowed {allTxt : List Nat} {defs refs : List (Nat × Label)} {ext : Option Range}
    {p : Params} {edits : List Edit} (hm : p.allowMove = false)
    (h : buildEdits allTxt defs refs ext p = .ok edits) :
    ∃ pl, plan allTxt defs refs ext p = .ok pl ∧ pl.ins = pl.sel.s.line ∧ edits = pl.selEdits ++ pl.unselEdits := by
  obtain ⟨pl, hp, hor⟩ := buildEdits_ok_inv h
  refine ⟨pl, hp, ?_⟩
  have := (plan_ok_inv hp).move hm
  rcases hor with h1 | h1
  · exact h1
  · exact absurd this h1.1

/-- **empty selection ⇒ refused** (the proposed fix): when no line number lies in `[beg,end)` the request is
refused. -/
theorem empty_selection_refused (i : Input) (h : ∀ d ∈ i.defs, ¬ (i.beg ≤ d.1 ∧ d.1 < i.end_)) :
    renumber i = .err := by
  have hany : anySelected i.defs i.beg i.end_ = false := by
    unfold anySelected
    rw [List.any_eq_false]
    intro d hd
    have := h d hd
    simpa using this
  unfold renumber renumberWith
  split
  · rfl
  · simp [hany]

/-- the request of DESIGN §9 item 23: lines 10,20,30; renumber the (empty) range 21..29 starting at 500 -/
def exEmpty : Input :=
  { src := [49,48,32,65,10,50,48,32,66,10,51,48,32,67],      -- "10 A\n20 B\n30 C"
    defs := [(10, ⟨⟨⟨0,0⟩,⟨0,3⟩⟩,0,1⟩), (20, ⟨⟨⟨1,0⟩,⟨1,3⟩⟩,0,1⟩), (30, ⟨⟨⟨2,0⟩,⟨2,3⟩⟩,0,1⟩)],
    refs := [], beg := 21, end_ := 29, first := 500, step := 1, flags := 0, maxNum := 63999 }

/-- lines 30,40; renumber the (empty) range 10..20 starting at 5: HEAD selects row 0 -/
def exEmpty2 : Input :=
  { src := [51,48,32,65,10,52,48,32,66],      -- "30 A\n40 B"
    defs := [(30, ⟨⟨⟨0,0⟩,⟨0,3⟩⟩,0,1⟩), (40, ⟨⟨⟨1,0⟩,⟨1,3⟩⟩,0,1⟩)],
    refs := [], beg := 10, end_ := 20, first := 5, step := 1, flags := 0, maxNum := 63999 }

/-- **HEAD violates the property**: no line is selected, yet the request is accepted and every line is
renumbered (`500 A / 501 B / 502 C`), contradicting "all other text is unchanged"; in the second instance
row 0 (`30 A`, not in 10..20) becomes `5 A`.  With the fix the same requests are refused. -/
theorem legacy_empty_selection_violates :
    renumberLegacy exEmpty = .ok [53,48,48,32,65,10,53,48,49,32,66,10,53,48,50,32,67] ∧
    renumberLegacy exEmpty ≠ .ok exEmpty.src ∧
    (∀ d ∈ exEmpty.defs, ¬ (exEmpty.beg ≤ d.1 ∧ d.1 < exEmpty.end_)) ∧
    renumber exEmpty = .err ∧
    renumberLegacy exEmpty2 = .ok [53,32,65,10,52,48,32,66] ∧
    (∀ d ∈ exEmpty2.defs, ¬ (exEmpty2.beg ≤ d.1 ∧ d.1 < exEmpty2.end_)) ∧
    renumber exEmpty2 = .err := by decide

/-! ## (ii) the selected lines carry `first, first+step, …` -/

/-- **Which lines are selected.**  For a program whose numbers ascend with the rows (the documented
precondition of `renumber`; fewer than 65536 rows), an accepted request hands to `build_edits` exactly the rows
whose line number lies in `[beg,end)`. -/
theorem selected_rows_are_the_requested_lines {i : Input} {out : List Nat} (h : renumber i = .ok out)
    (hmono : ∀ d1 ∈ i.defs, ∀ d2 ∈ i.defs, d1.2.rng.s.line ≤ d2.2.rng.s.line → d1.1 ≤ d2.1)
    (hrows : ∀ d ∈ i.defs, d.2.rng.s.line < 0x10000) :
    ∃ l0 ln pl, l0 ≤ ln ∧ plan i.src i.defs i.refs (some ⟨⟨l0, 0⟩, ⟨ln + 1, 0⟩⟩) i.params = .ok pl ∧
      ∀ d ∈ i.defs, (l0 ≤ d.2.rng.s.line ∧ d.2.rng.s.line ≤ ln) ↔ (i.beg ≤ d.1 ∧ d.1 < i.end_) := by
  obtain ⟨ext, pl, edits, hext, hany, hp, _, _⟩ := renumber_ok_inv h
  obtain ⟨l0, ln, rfl, hle, hiff⟩ := extSelOf_spec i.defs i.beg i.end_ ext hext hany hmono hrows
  exact ⟨l0, ln, pl, hle, hp, hiff⟩

example : (∀ d1 ∈ exIn.defs, ∀ d2 ∈ exIn.defs, d1.2.rng.s.line ≤ d2.2.rng.s.line → d1.1 ≤ d2.1) ∧
    (∀ d ∈ exIn.defs, d.2.rng.s.line < 0x10000) ∧
    extSelOf exIn.defs exIn.beg exIn.end_ = some (some ⟨⟨1, 0⟩, ⟨3, 0⟩⟩) := by decide

/-- The primaries found on the selected rows, in ascending order, are mapped to `first + k*step`, and the
label of the `k`-th one is replaced by exactly that number (with its blanks kept). -/
theorem selected_primaries_sequence {allTxt : List Nat} {defs refs : List (Nat × Label)} {ext : Option Range}
    {p : Params} {pl : Plan} (h : plan allTxt defs refs ext p = .ok pl) :
    let keys := (selGroup pl.sel defs).map (·.1)
    keys.Pairwise (· < ·) ∧
    pl.mapping.map (·.1) = keys ∧
    pl.mapping.map (·.2) = (List.range keys.length).map (fun k => p.l0 + k * p.dl) ∧
    (∀ k num lab rest, (selGroup pl.sel defs)[k]? = some (num, lab :: rest) →
      lookup pl.mapping num = some (p.l0 + k * p.dl) ∧ applyMapping (p.l0 + k * p.dl) lab ∈ pl.selEdits) := by
  have f := plan_ok_inv h
  refine ⟨keysSorted_group _, ?_, ?_, ?_⟩
  · rw [f.mapping, mkMapping_keys]
  · rw [f.mapping, mkMapping_vals]
  · intro k num lab rest hk
    have hnd : ((selGroup pl.sel defs).map (·.1)).Nodup := keys_nodup_group _
    have hk' : ((selGroup pl.sel defs).map (·.1))[k]? = some num := by simp [List.getElem?_map, hk]
    have hl := lookup_mkMapping p.l0 p.dl _ hnd k num hk'
    rw [← f.mapping] at hl
    refine ⟨hl, ?_⟩
    rw [f.selEdits]
    apply List.mem_append_left
    exact (mem_primEdits _ _ _).mpr ⟨num, lab, rest, _, List.mem_of_getElem? hk, hl, rfl⟩

example : (plan exIn.src exIn.defs exIn.refs (some ⟨⟨1,0⟩,⟨3,0⟩⟩) exIn.params).bind
    (fun pl => .ok ((selGroup pl.sel exIn.defs).map (·.1))) = .ok [20, 30] := by decide

/-! ## (iii) references follow the renumbered lines, nothing else is edited -/

/-- The complete list of label edits (no move): an edit is either the replacement of a selected primary by
its image, or the replacement of a reference — anywhere in the program — whose number is a renumbered
primary, by that primary's image.  Hence no other reference (missing target, unselected target) and no
text outside the gathered labels is the subject of an edit. -/
theorem edits_char {allTxt : List Nat} {defs refs : List (Nat × Label)} {ext : Option Range}
    {p : Params} {pl : Plan} (h : plan allTxt defs refs ext p = .ok pl) (hu : p.updateRefs = true)
    (hrow : ∀ x ∈ refs, x.2.rng.s.line = x.2.rng.e.line) (e : Edit) :
    e ∈ pl.selEdits ++ pl.unselEdits ↔
      (∃ num lab rest n, (num, lab :: rest) ∈ selGroup pl.sel defs ∧ lookup pl.mapping num = some n ∧
          e = applyMapping n lab) ∨
      (∃ s item n, (s, item) ∈ refs ∧ lookup pl.mapping s = some n ∧ e = applyMapping n item) := by
  have f := plan_ok_inv h
  rw [f.selEdits, f.unselEdits]
  simp only [hu, ↓reduceIte, List.mem_append, mem_primEdits, mem_secEdits]
  unfold selGroup
  simp only [memG_group, List.mem_filter]
  constructor
  · rintro ((h1 | ⟨s, item, n, ⟨hm, _⟩, hl, _, he⟩) | ⟨s, item, n, hm, hl, _, he⟩)
    · exact Or.inl h1
    · exact Or.inr ⟨s, item, n, hm, hl, he⟩
    · exact Or.inr ⟨s, item, n, hm, hl, he⟩
  · rintro (h1 | ⟨s, item, n, hm, hl, he⟩)
    · exact Or.inl (Or.inl h1)
    · have hr := hrow _ hm
      dsimp only at hr
      by_cases hin : inSel pl.sel item = true
      · exact Or.inl (Or.inr ⟨s, item, n, ⟨hm, hin⟩, hl, trivial, he⟩)
      · refine Or.inr ⟨s, item, n, hm, hl, ?_, he⟩
        have hin' : ¬ (pl.sel.s.line ≤ item.rng.s.line ∧ item.rng.s.line ≤ pl.sel.e.line) := by
          simpa [inSel] using hin
        simp only [Bool.or_eq_true, decide_eq_true_eq]
        omega

/-- every reference to the `k`-th renumbered line, wherever it stands, is replaced by `first + k*step` -/
theorem ref_follows {allTxt : List Nat} {defs refs : List (Nat × Label)} {ext : Option Range}
    {p : Params} {pl : Plan} (h : plan allTxt defs refs ext p = .ok pl) (hu : p.updateRefs = true)
    (hrow : ∀ x ∈ refs, x.2.rng.s.line = x.2.rng.e.line)
    (k s : Nat) (item : Label) (hk : ((selGroup pl.sel defs).map (·.1))[k]? = some s) (hm : (s, item) ∈ refs) :
    applyMapping (p.l0 + k * p.dl) item ∈ pl.selEdits ++ pl.unselEdits := by
  have f := plan_ok_inv h
  have hnd : ((selGroup pl.sel defs).map (·.1)).Nodup := keys_nodup_group _
  have hl := lookup_mkMapping p.l0 p.dl _ hnd k s hk
  rw [← f.mapping] at hl
  exact (edits_char h hu hrow _).mpr (Or.inr ⟨s, item, _, hm, hl, rfl⟩)

/-- a reference whose number is not a renumbered primary is not the subject of any edit: every edit comes
from a label whose number is in the mapping -/
theorem only_label_edits {allTxt : List Nat} {defs refs : List (Nat × Label)} {ext : Option Range}
    {p : Params} {pl : Plan} (h : plan allTxt defs refs ext p = .ok pl) (hu : p.updateRefs = true)
    (hrow : ∀ x ∈ refs, x.2.rng.s.line = x.2.rng.e.line) (e : Edit) (he : e ∈ pl.selEdits ++ pl.unselEdits) :
    ∃ num lab n, ((num, lab) ∈ defs ∨ (num, lab) ∈ refs) ∧ num ∈ (selGroup pl.sel defs).map (·.1) ∧
      lookup pl.mapping num = some n ∧ e = applyMapping n lab := by
  have f := plan_ok_inv h
  have key : ∀ num n, lookup pl.mapping num = some n → num ∈ (selGroup pl.sel defs).map (·.1) := by
    intro num n hl
    apply Classical.byContradiction
    intro hn
    have := lookup_none_of_not_mem pl.mapping num (by rw [f.mapping, mkMapping_keys]; exact hn)
    rw [this] at hl; cases hl
  rcases (edits_char h hu hrow e).mp he with ⟨num, lab, rest, n, hm, hl, he⟩ | ⟨s, item, n, hm, hl, he⟩
  · refine ⟨num, lab, n, Or.inl ?_, key _ _ hl, hl, he⟩
    have : MemG (selGroup pl.sel defs) num lab := ⟨lab :: rest, hm, by simp⟩
    unfold selGroup at this
    rw [memG_group] at this
    exact (List.mem_filter.mp this).1
  · exact ⟨s, item, n, Or.inr hm, key _ _ hl, hl, he⟩

example : (plan exIn.src exIn.defs exIn.refs (some ⟨⟨1,0⟩,⟨3,0⟩⟩) exIn.params).bind
    (fun pl => .ok (pl.selEdits ++ pl.unselEdits)) =
      .ok [⟨⟨⟨1,0⟩,⟨1,3⟩⟩, [49,48,48,32]⟩, ⟨⟨⟨2,0⟩,⟨2,3⟩⟩, [49,49,48,32]⟩, ⟨⟨⟨0,8⟩,⟨0,10⟩⟩, [49,49,48]⟩] := by
  decide

/-! ## (iv) bottom-up application = simultaneous substitution -/

/-- **General lemma.**  Applying ascending, pairwise disjoint range edits to a text one after the other,
bottom-up (`apply_edits` applies the last range first, so that earlier offsets stay valid even when a
replacement is longer or shorter than what it replaces), yields the simultaneous substitution
`l[0,s₁) ++ n₁ ++ l[e₁,s₂) ++ n₂ ++ … ++ l[e_k,∞)`: every character outside the ranges is kept, in order, and
every range is replaced by its new text.  By induction on the edit list. -/
theorem bottom_up_eq_simultaneous (l : List Nat) (xs : List E1) (h : Chain 0 l.length xs) :
    seqDesc l xs = substAsc 0 l xs := seqDesc_eq_subst l xs h

/-- instance with a growing and a shrinking replacement: `10 GOTO 30` ↦ `100 GOTO 5` -/
example : Chain 0 10 [⟨0, 2, [49,48,48]⟩, ⟨8, 10, [53]⟩] ∧
    seqDesc [49,48,32,71,79,84,79,32,51,48] [⟨0, 2, [49,48,48]⟩, ⟨8, 10, [53]⟩]
      = [49,48,48,32,71,79,84,79,32,53] := by decide

/-! ## (i) the lines stay, only the addressed columns change -/

/-- **One edit, flat text.**  `replace_range` works on the flat text and finds its offsets by summing the
lengths of the preceding lines; on a text of `\n`-terminated rows (without `\r`) a range on row `r` is
resolved to exactly the characters `[s,e)` of that row, whatever the lengths of the rows before it: the result
is the text of the same rows with row `r` replaced by `row[0,s) ++ new ++ row[e,∞)`. -/
theorem one_edit_on_one_row (ls : List (List Nat)) (h : ∀ l ∈ ls, NoNl l) (r s e : Nat) (new : List Nat)
    (hnew : NoNl new) (l : List Nat) (hr : ls[r]? = some l) (hse : s ≤ e) (hel : e ≤ l.length) :
    replaceRange (joinT ls) ⟨⟨r, s⟩, ⟨r, e⟩⟩ new = .ok (joinT (ls.set r (replace1 l ⟨s, e, new⟩))) :=
  replaceRange_row ls h r s e new hnew l hr hse hel

/-- **The `apply_edits` loop keeps the lines** (partial form of clause (i)).  On a text of `\n`-terminated
rows, a sequence of single-row edits, each inside its row at the moment it is applied (`ValidSeq`), is
applied without error or panic, the number of rows is unchanged, and the resulting text is that of the rows
after the row-wise replacements; together with `bottom_up_eq_simultaneous` (per row) and `edits_char` (which
ranges, which new texts) this is "same lines, same statements, same order, only label columns change".

The full statement (rows of the output = rows of the source with each row's label edits substituted, for every
accepted no-move request with `labelsOK`, including a last line without `\\n` and CRLF texts) is
`renumber_correct` below; this theorem is one of its building blocks and keeps its `_partial` name only because
it speaks about the loop, not about `renumber`. -/
theorem apply_loop_rows_partial (ls : List (List Nat)) (h : ∀ l ∈ ls, NoNl l) (es : List Edit)
    (hv : ValidSeq ls es) :
    applyLoop 0 es (joinT ls) = .ok (joinT (es.foldl rowsStep ls)) ∧
      (es.foldl rowsStep ls).length = ls.length :=
  applyLoop_rows ls h es hv

/-- the running example: its three label edits in the order `apply_edits` applies them are a `ValidSeq` on the
three rows, and the loop yields the expected text -/
example :
    let rows := [[49,48,32,71,79,84,79,32,51,48], [50,48,32,69,78,68], [51,48,32,71,79,84,79,32,49,48]]
    let es : List Edit := [⟨⟨⟨2,0⟩,⟨2,3⟩⟩, [49,49,48,32]⟩, ⟨⟨⟨1,0⟩,⟨1,3⟩⟩, [49,48,48,32]⟩, ⟨⟨⟨0,8⟩,⟨0,10⟩⟩, [49,49,48]⟩]
    joinT rows = exIn.src ∧
    sortDesc [⟨⟨⟨1,0⟩,⟨1,3⟩⟩, [49,48,48,32]⟩, ⟨⟨⟨2,0⟩,⟨2,3⟩⟩, [49,49,48,32]⟩, ⟨⟨⟨0,8⟩,⟨0,10⟩⟩, [49,49,48]⟩] = es ∧
    ValidSeq rows es ∧ joinT (es.foldl rowsStep rows) = exOut := by
  refine ⟨by decide, by decide, ?_, by decide⟩
  refine .cons ⟨rfl, by unfold NoNl; decide, _, rfl, by decide, by decide⟩ ?_
  refine .cons ⟨rfl, by unfold NoNl; decide, _, rfl, by decide, by decide⟩ ?_
  refine .cons ⟨rfl, by unfold NoNl; decide, _, rfl, by decide, by decide⟩ ?_
  exact .nil _

/-! ## the property as one theorem (no move) -/

/-- the new text of a label whose number is mapped to `n` -/
def labelEdit (lab : Label) (n : Nat) : E1 :=
  ⟨lab.rng.s.ch, lab.rng.e.ch, List.replicate lab.lead SP ++ digits n ++ List.replicate lab.trail SP⟩

/-- **C16, clauses (i)–(iv), for requests that do not move lines.**

Hypotheses: the program text is the LF document `d` of the rows `rows` (no `\r`/`\n` inside a row), with or
without a final newline (`t`), given either as it is or in CRLF form (`crlf`); the gathered labels satisfy
`labelsOK`; the line numbers ascend with the rows; REORDER and PASS_OVER_REFS are off; the request is accepted.

Conclusion: there are `keys` — the strictly ascending enumeration of the line numbers lying in `[beg,end)` —
and a `mapping` sending the `k`-th key to `first + k*step` and nothing else (ii), such that the output is the
document of rows `rows'` with the same line separator, the same final-newline state and the same number of
rows (i), and every row is the original row in which an ascending, pairwise disjoint chain `as` of ranges has
been replaced simultaneously (iv), where `as` consists of **exactly** the labels (defining or referring, in any
row) whose number is a key, each replaced by its blanks + the image of its number (iii); every character
outside those ranges is kept in place (`substAsc`). -/
theorem renumber_correct (i : Input) (out d : List Nat) (rows : List (List Nat)) (t crlf : Bool)
    (hdoc : IsDoc d rows t) (hsrc : i.src = if crlf then lfToCrlf d else d)
    (hlab : labelsOK i.src i.defs i.refs = true)
    (hmono : ∀ d1 ∈ i.defs, ∀ d2 ∈ i.defs, d1.2.rng.s.line ≤ d2.2.rng.s.line → d1.1 ≤ d2.1)
    (hrows : ∀ x ∈ i.defs, x.2.rng.s.line < 0x10000)
    (hflags : i.flags % 2 = 0 ∧ i.flags / 2 % 2 = 0)
    (h : renumber i = .ok out) :
    ∃ (keys : List Nat) (mapping : List (Nat × Nat)) (rows' : List (List Nat)) (d' : List Nat),
      keys.Pairwise (· < ·) ∧
      (∀ num, num ∈ keys ↔ (∃ lab, (num, lab) ∈ i.defs) ∧ i.beg ≤ num ∧ num < i.end_) ∧
      (∀ k num, keys[k]? = some num → lookup mapping num = some (i.first + k * i.step)) ∧
      (∀ num, num ∉ keys → lookup mapping num = none) ∧
      out = (if crlf then lfToCrlf d' else d') ∧ IsDoc d' rows' t ∧ rows'.length = rows.length ∧
      ∀ r l, rows[r]? = some l → ∃ as, Chain 0 l.length as ∧ rows'[r]? = some (substAsc 0 l as) ∧
        ∀ x, x ∈ as ↔ ∃ num lab n, ((num, lab) ∈ i.defs ∨ (num, lab) ∈ i.refs) ∧ lab.rng.s.line = r ∧
          lookup mapping num = some n ∧ x = labelEdit lab n := by
  obtain ⟨ext, pl, edits, hext, hany, hp, hb, happ⟩ := renumber_ok_inv h
  have hmove : i.params.allowMove = false := by simp [Input.params, hflags.1]
  have hupd : i.params.updateRefs = true := by simp [Input.params, hflags.2]
  obtain ⟨pl', hp', _, hedits⟩ := accepts_move_only_if_allowed hmove hb
  rw [hp] at hp'
  injection hp' with hp'
  subst hp'
  have f := plan_ok_inv hp
  -- the rows of the source
  have hsplit : splitLines i.src = rows := by
    rw [hsrc]
    cases crlf with
    | true => simp only [↓reduceIte]; rw [splitLines_lfToCrlf d (noCR_isDoc hdoc)]; exact splitLines_isDoc hdoc
    | false => exact splitLines_isDoc hdoc
  -- what labelsOK says
  unfold labelsOK at hlab
  simp only [hsplit, Bool.and_eq_true, List.all_eq_true] at hlab
  obtain ⟨hok, hpw⟩ := hlab
  have hpw' : (i.defs ++ i.refs).Pairwise DisjX := by
    have := (pairwiseB_iff _ _).mp hpw
    rw [List.pairwise_map] at this
    exact this
  have hrowR : ∀ x ∈ i.refs, x.2.rng.e.line = x.2.rng.s.line := by
    intro x hx
    obtain ⟨_, _, h2, _⟩ := labelOK_geom (hok x (List.mem_append_right _ hx))
    exact h2
  have hrowR' : ∀ x ∈ i.refs, x.2.rng.s.line = x.2.rng.e.line := fun x hx => (hrowR x hx).symm
  -- the edit list
  have hE : pl.selEdits ++ pl.unselEdits =
      primEdits pl.mapping (selGroup pl.sel i.defs) ++ secEdits pl.mapping (selGroup pl.sel i.refs) (fun _ => true) ++
      secEdits pl.mapping (group i.refs)
        (fun item => item.rng.s.line < pl.sel.s.line || item.rng.e.line > pl.sel.e.line) := by
    rw [f.selEdits, f.unselEdits]; simp [hupd]
  have hdis : (pl.selEdits ++ pl.unselEdits).Pairwise DisjE := by
    rw [hE]; exact edits_pairwise _ _ _ _ hpw' hrowR
  have hkeyOf : ∀ num n, lookup pl.mapping num = some n → num ∈ (selGroup pl.sel i.defs).map (·.1) := by
    intro num n hl
    apply Classical.byContradiction
    intro hn
    have := lookup_none_of_not_mem pl.mapping num (by rw [f.mapping, mkMapping_keys]; exact hn)
    rw [this] at hl; cases hl
  have hfit : ∀ ed ∈ pl.selEdits ++ pl.unselEdits,
      EditOn rows ed ∧ ed.rng.s.ch < ed.rng.e.ch ∧ ed.new ≠ [] := by
    intro ed hed
    obtain ⟨num, lab, n, hmem, _, _, rfl⟩ := only_label_edits hp hupd hrowR' ed hed
    have hmem' : (num, lab) ∈ i.defs ++ i.refs := List.mem_append.mpr hmem
    obtain ⟨l, hl, h2, h3, h4⟩ := labelOK_geom (hok _ hmem')
    obtain ⟨hn1, hn2⟩ := applyMapping_new n lab
    exact ⟨⟨h2, hn1, l, hl, Nat.le_of_lt h3, h4⟩, h3, hn2⟩
  obtain ⟨d', rows', happ', hd', hlen, hrowsSpec⟩ :=
    applyEdits_disjoint hdoc crlf (pl.selEdits ++ pl.unselEdits) hfit hdis
  rw [← hsrc, ← hedits, happ] at happ'
  injection happ' with hout
  -- the selection
  obtain ⟨l0, ln, rfl, hle, hiff⟩ := extSelOf_spec i.defs i.beg i.end_ ext hext hany hmono hrows
  obtain ⟨ep, hns⟩ := f.selNorm
  obtain ⟨hs0, hs1⟩ := normSel_rows hle hns
  have huniq := accepts_only_unique_primaries h
  have hkeys : ∀ num, num ∈ (selGroup pl.sel i.defs).map (·.1) ↔
      (∃ lab, (num, lab) ∈ i.defs ∧ inSel pl.sel lab = true) := by
    intro num
    constructor
    · intro hk
      obtain ⟨⟨k, vs⟩, hx, rfl⟩ := List.mem_map.mp hk
      have hne := group_vals_ne_nil _ _ hx
      cases vs with
      | nil => exact absurd rfl hne
      | cons v rest =>
        have : MemG (selGroup pl.sel i.defs) k v := ⟨v :: rest, hx, by simp⟩
        unfold selGroup at this
        rw [memG_group] at this
        exact ⟨v, List.mem_filter.mp this⟩
    · rintro ⟨lab, hm, hin⟩
      have : MemG (selGroup pl.sel i.defs) num lab := by
        unfold selGroup; rw [memG_group]; exact List.mem_filter.mpr ⟨hm, hin⟩
      obtain ⟨vs, hvs, _⟩ := this
      exact List.mem_map.mpr ⟨(num, vs), hvs, rfl⟩
  have hinSel : ∀ x ∈ i.defs, inSel pl.sel x.2 = true ↔ (i.beg ≤ x.1 ∧ x.1 < i.end_) := by
    intro x hx
    rw [← hiff x hx]
    simp only [inSel, Bool.and_eq_true, decide_eq_true_eq, hs0, hs1]
  have hks : ((selGroup pl.sel i.defs).map (·.1)).Pairwise (· < ·) := keysSorted_group _
  refine ⟨(selGroup pl.sel i.defs).map (·.1), pl.mapping, rows', d', hks, ?_, ?_, ?_, hout,
    hd', hlen, ?_⟩
  · intro num
    rw [hkeys]
    constructor
    · rintro ⟨lab, hm, hin⟩
      exact ⟨⟨lab, hm⟩, (hinSel _ hm).mp hin⟩
    · rintro ⟨⟨lab, hm⟩, hb⟩
      exact ⟨lab, hm, (hinSel _ hm).mpr hb⟩
  · intro k num hk
    have hnd : ((selGroup pl.sel i.defs).map (·.1)).Nodup := keys_nodup_group _
    have := lookup_mkMapping i.params.l0 i.params.dl _ hnd k num hk
    rw [← f.mapping] at this
    exact this
  · intro num hn
    exact lookup_none_of_not_mem pl.mapping num (by rw [f.mapping, mkMapping_keys]; exact hn)
  · intro r l hl
    obtain ⟨as, hc, hrow, hmem⟩ := hrowsSpec r l hl
    refine ⟨as, hc, hrow, ?_⟩
    intro x
    rw [hmem]
    constructor
    · rintro ⟨ed, hed, hr, rfl⟩
      obtain ⟨num, lab, n, hm, _, hl', rfl⟩ := only_label_edits hp hupd hrowR' ed hed
      exact ⟨num, lab, n, hm, hr, hl', rfl⟩
    · rintro ⟨num, lab, n, hm, hr, hl', rfl⟩
      refine ⟨applyMapping n lab, ?_, hr, rfl⟩
      rcases hm with hm | hm
      · -- a defining label whose number is mapped is the first (only) label of a selected key
        obtain ⟨lab', hm', hin'⟩ := (hkeys num).mp (hkeyOf num n hl')
        have hll := huniq num lab lab' hm hm'
        subst hll
        have : MemG (selGroup pl.sel i.defs) num lab := by
          unfold selGroup; rw [memG_group]; exact List.mem_filter.mpr ⟨hm, hin'⟩
        obtain ⟨vs, hvs, hv⟩ := this
        cases vs with
        | nil => cases hv
        | cons v rest =>
          have hv' : (num, v) ∈ i.defs := by
            have : MemG (selGroup pl.sel i.defs) num v := ⟨v :: rest, hvs, by simp⟩
            unfold selGroup at this
            rw [memG_group] at this
            exact (List.mem_filter.mp this).1
          have := huniq num lab v hm hv'
          subst this
          exact (edits_char hp hupd hrowR' _).mpr (Or.inl ⟨num, lab, rest, n, hvs, hl', rfl⟩)
      · exact (edits_char hp hupd hrowR' _).mpr (Or.inr ⟨num, lab, n, hm, hl', rfl⟩)

/-- the running example meets every hypothesis of `renumber_correct` (LF text with final newline) -/
example :
    IsDoc exIn.src [[49,48,32,71,79,84,79,32,51,48], [50,48,32,69,78,68], [51,48,32,71,79,84,79,32,49,48]] true ∧
    labelsOK exIn.src exIn.defs exIn.refs = true ∧
    (∀ d1 ∈ exIn.defs, ∀ d2 ∈ exIn.defs, d1.2.rng.s.line ≤ d2.2.rng.s.line → d1.1 ≤ d2.1) ∧
    (∀ x ∈ exIn.defs, x.2.rng.s.line < 0x10000) ∧ (exIn.flags % 2 = 0 ∧ exIn.flags / 2 % 2 = 0) ∧
    renumber exIn = .ok exOut := by
  refine ⟨⟨by unfold NoNl; decide, by simp only [↓reduceIte]; decide⟩, by decide, by decide, by decide, by decide,
    by decide⟩

/-- the same program as CRLF text without final newline: also an instance (`t = false`, `crlf = true`) -/
example :
    let d := [49,48,32,71,79,84,79,32,51,48,10,50,48,32,69,78,68,10,51,48,32,71,79,84,79,32,49,48]
    let rows := [[49,48,32,71,79,84,79,32,51,48], [50,48,32,69,78,68], [51,48,32,71,79,84,79,32,49,48]]
    IsDoc d rows false ∧
    labelsOK (lfToCrlf d) exIn.defs exIn.refs = true ∧
    renumber { exIn with src := lfToCrlf d } =
      .ok (lfToCrlf [49,48,32,71,79,84,79,32,49,49,48,10,49,48,48,32,69,78,68,10,49,49,48,32,71,79,84,79,32,49,48]) := by
  refine ⟨⟨by unfold NoNl; decide, ?_⟩, by decide, by decide⟩
  simp only [Bool.false_eq_true, ↓reduceIte]
  exact ⟨by decide, [[49,48,32,71,79,84,79,32,51,48], [50,48,32,69,78,68]], [51,48,32,71,79,84,79,32,49,48],
    by decide, by decide⟩

/-! ## the move path -/

theorem prim_mem {defs : List (Nat × Label)} {sel : Range} {mapping : List (Nat × Nat)} {num n : Nat} {lab : Label}
    (huniq : ∀ num l1 l2, (num, l1) ∈ defs → (num, l2) ∈ defs → l1 = l2)
    (hm : (num, lab) ∈ defs) (hin : inSel sel lab = true) (hl : lookup mapping num = some n) :
    applyMapping n lab ∈ primEdits mapping (selGroup sel defs) := by
  have : MemG (selGroup sel defs) num lab := by
    unfold selGroup; rw [memG_group]; exact List.mem_filter.mpr ⟨hm, hin⟩
  obtain ⟨vs, hvs, hv⟩ := this
  cases vs with
  | nil => cases hv
  | cons v rest =>
    have hv' : (num, v) ∈ defs := by
      have : MemG (selGroup sel defs) num v := ⟨v :: rest, hvs, by simp⟩
      unfold selGroup at this
      rw [memG_group] at this
      exact (List.mem_filter.mp this).1
    have := huniq num lab v hm hv'
    subst this
    exact (mem_primEdits _ _ _).mpr ⟨num, lab, rest, n, hvs, hl, rfl⟩

/-- the text `build_edits` inserts when it moves: `apply_edits(sel_txt, sel_edits, sel.start.line)` succeeds and is
the document of the selected rows with their labels replaced (see `moved_block_content`) -/
theorem moved_block_text (i : Input) (d : List Nat) (rows : List (List Nat)) (t crlf : Bool)
    (hdoc : IsDoc d rows t) (hsrc : i.src = if crlf then lfToCrlf d else d)
    (hlab : labelsOK i.src i.defs i.refs = true) (hupdF : i.flags / 2 % 2 = 0)
    (huniq : ∀ num l1 l2, (num, l1) ∈ i.defs → (num, l2) ∈ i.defs → l1 = l2)
    {ext : Option Range} {pl : Plan}
    (hp : plan i.src i.defs i.refs ext i.params = .ok pl) :
    ∃ block' : List (List Nat),
      applyEdits pl.selTxt pl.selEdits pl.sel.s.line =
        .ok (if pl.lineSep = [CR, LF] then lfToCrlf (joinT block') else joinT block') ∧
      (∀ x ∈ block', NoNl x) ∧
      block'.length = pl.sel.e.line + 1 - pl.sel.s.line ∧
      ∀ k l, k < block'.length → rows[pl.sel.s.line + k]? = some l →
        ∃ as, Chain 0 l.length as ∧ block'[k]? = some (substAsc 0 l as) ∧
          ∀ x, x ∈ as ↔ ∃ num lab n, ((num, lab) ∈ i.defs ∨ (num, lab) ∈ i.refs) ∧
            lab.rng.s.line = pl.sel.s.line + k ∧ lookup pl.mapping num = some n ∧ x = labelEdit lab n := by
  have hupd : i.params.updateRefs = true := by simp [Input.params, hupdF]
  have f := plan_ok_inv hp
  have hsplit : splitLines i.src = rows := by
    rw [hsrc]
    cases crlf with
    | true => simp only [↓reduceIte]; rw [splitLines_lfToCrlf d (noCR_isDoc hdoc)]; exact splitLines_isDoc hdoc
    | false => exact splitLines_isDoc hdoc
  unfold labelsOK at hlab
  simp only [hsplit, Bool.and_eq_true, List.all_eq_true] at hlab
  obtain ⟨hok, hpw⟩ := hlab
  have hpw' : (i.defs ++ i.refs).Pairwise DisjX := by
    have := (pairwiseB_iff _ _).mp hpw
    rw [List.pairwise_map] at this
    exact this
  have hrowR : ∀ x ∈ i.refs, x.2.rng.e.line = x.2.rng.s.line := by
    intro x hx
    obtain ⟨_, _, h2, _⟩ := labelOK_geom (hok x (List.mem_append_right _ hx))
    exact h2
  -- the edits inside the selection
  have hSel : pl.selEdits = primEdits pl.mapping (selGroup pl.sel i.defs) ++
      secEdits pl.mapping (selGroup pl.sel i.refs) (fun _ => true) := by
    rw [f.selEdits]; simp [hupd]
  have hselMem : ∀ ed, ed ∈ pl.selEdits ↔ ∃ num lab n, ((num, lab) ∈ i.defs ∨ (num, lab) ∈ i.refs) ∧
      inSel pl.sel lab = true ∧ lookup pl.mapping num = some n ∧ ed = applyMapping n lab := by
    intro ed
    rw [hSel, List.mem_append]
    constructor
    · rintro (h1 | h1)
      · obtain ⟨num, lab, rest, n, hm, hl, rfl⟩ := (mem_primEdits _ _ _).mp h1
        have : MemG (selGroup pl.sel i.defs) num lab := ⟨lab :: rest, hm, by simp⟩
        unfold selGroup at this
        rw [memG_group] at this
        obtain ⟨hm', hin⟩ := List.mem_filter.mp this
        exact ⟨num, lab, n, Or.inl hm', hin, hl, rfl⟩
      · obtain ⟨s, item, n, hm, hl, _, rfl⟩ := (mem_secEdits _ _ _ _).mp h1
        unfold selGroup at hm
        rw [memG_group] at hm
        obtain ⟨hm', hin⟩ := List.mem_filter.mp hm
        exact ⟨s, item, n, Or.inr hm', hin, hl, rfl⟩
    · rintro ⟨num, lab, n, hm | hm, hin, hl, rfl⟩
      · exact Or.inl (prim_mem huniq hm hin hl)
      · refine Or.inr ((mem_secEdits _ _ _ _).mpr ⟨num, lab, n, ?_, hl, rfl, rfl⟩)
        unfold selGroup; rw [memG_group]; exact List.mem_filter.mpr ⟨hm, hin⟩
  have hdisSel : pl.selEdits.Pairwise DisjE := by
    have := edits_pairwise pl.mapping pl.sel i.defs i.refs hpw' hrowR
    rw [← hSel] at this
    exact (List.pairwise_append.mp this).1
  -- the selected rows as a document
  let block := (rangeList pl.sel.s.line pl.sel.e.line).map (fun l => rows[l]?.getD [])
  have hblockNl : ∀ l ∈ block, NoNl l := by
    intro l hl
    obtain ⟨r, _, rfl⟩ := List.mem_map.mp hl
    cases hg : rows[r]? with
    | none => intro c hc; simp at hc
    | some l0 => exact hdoc.1 l0 (List.mem_of_getElem? hg)
  have hblockLen : block.length = pl.sel.e.line + 1 - pl.sel.s.line := by simp [block, rangeList]
  have hblockGet : ∀ k, k < block.length → block[k]? = some (rows[pl.sel.s.line + k]?.getD []) := by
    intro k hk
    rw [hblockLen] at hk
    simp [block, rangeList, List.getElem?_map, List.getElem?_range hk, Nat.add_comm]
  have hblockDoc : IsDoc (joinT block) block true := ⟨hblockNl, by simp⟩
  have hselTxt : pl.selTxt =
      (if decide (pl.lineSep = [CR, LF]) then lfToCrlf (joinT block) else joinT block) := by
    rw [f.selTxtEq, hsplit]
    have hfm : ∀ sep : List Nat, ((rangeList pl.sel.s.line pl.sel.e.line).flatMap
        fun l => rows[l]?.getD [] ++ sep) = block.flatMap (fun l => l ++ sep) := by
      intro sep; simp [block, List.flatMap_map]
    rw [hfm]
    obtain ⟨e1, e2⟩ := flatMap_sep_eq block hblockNl
    rcases f.lineSepOk with hs | hs
    · rw [hs]; simp [e1]
    · rw [hs]; simp [CR, LF]; rfl
  have hfit : ∀ ed ∈ pl.selEdits, (pl.sel.s.line ≤ ed.rng.s.line ∧ ed.rng.e.line = ed.rng.s.line) ∧
      EditOn block (shiftEdit pl.sel.s.line ed) ∧ ed.rng.s.ch < ed.rng.e.ch ∧ ed.new ≠ [] := by
    intro ed hed
    obtain ⟨num, lab, n, hm, hin, _, rfl⟩ := (hselMem ed).mp hed
    have hmem' : (num, lab) ∈ i.defs ++ i.refs := List.mem_append.mpr hm
    obtain ⟨l, hl, h2, h3, h4⟩ := labelOK_geom (hok _ hmem')
    obtain ⟨hn1, hn2⟩ := applyMapping_new n lab
    simp only [inSel, Bool.and_eq_true, decide_eq_true_eq] at hin
    have hk : lab.rng.s.line - pl.sel.s.line < block.length := by rw [hblockLen]; omega
    have hget := hblockGet _ hk
    have : pl.sel.s.line + (lab.rng.s.line - pl.sel.s.line) = lab.rng.s.line := by omega
    rw [this] at hget
    dsimp only at hl
    rw [hl] at hget
    refine ⟨⟨hin.1, h2⟩, ⟨?_, hn1, l, hget, Nat.le_of_lt h3, h4⟩, h3, hn2⟩
    simp only [shiftEdit, applyMapping]
    dsimp only at h2
    rw [h2]
  obtain ⟨d', block', happ', hd', hlen, hspec⟩ :=
    applyEdits_row_disjoint hblockDoc (decide (pl.lineSep = [CR, LF])) pl.selEdits pl.sel.s.line hfit hdisSel
  rw [← hselTxt] at happ'
  have hd'eq : d' = joinT block' := by simpa [IsDoc] using hd'.2
  refine ⟨block', ?_, hd'.1, by rw [hlen, hblockLen], ?_⟩
  · rw [happ', hd'eq]
    by_cases hs : pl.lineSep = [CR, LF] <;> simp [hs]
  · intro k l hk hl
    rw [hlen] at hk
    have hget := hblockGet k hk
    rw [hl] at hget
    obtain ⟨as, hc, hrow, hm⟩ := hspec k l hget
    refine ⟨as, hc, hrow, ?_⟩
    intro x
    rw [hm]
    constructor
    · rintro ⟨ed, hed, hr, rfl⟩
      obtain ⟨num, lab, n, hmm, _, hl', rfl⟩ := (hselMem ed).mp hed
      exact ⟨num, lab, n, hmm, hr, hl', rfl⟩
    · rintro ⟨num, lab, n, hmm, hr, hl', rfl⟩
      refine ⟨applyMapping n lab, (hselMem _).mpr ⟨num, lab, n, hmm, ?_, hl', rfl⟩, hr, rfl⟩
      rw [hblockLen] at hk
      simp only [inSel, Bool.and_eq_true, decide_eq_true_eq]
      omega

/-- **Move path, the content of the moved block.**  `plan` succeeded, the selection has to move, and
`updated = apply_edits(sel_txt, sel_edits, sel.start.line)` is the text `build_edits` inserts at the insertion row.
Then `updated` is the document (each row terminated by `line_sep`) of the selected rows, in their order, in which
exactly the labels standing on those rows whose number is a renumbered primary have been replaced by their images
(clauses (ii)–(iv) for the block).  Where the block goes is `moved_block_placed`. -/
theorem moved_block_content (i : Input) (out d : List Nat) (rows : List (List Nat)) (t crlf : Bool)
    (hdoc : IsDoc d rows t) (hsrc : i.src = if crlf then lfToCrlf d else d)
    (hlab : labelsOK i.src i.defs i.refs = true) (hupdF : i.flags / 2 % 2 = 0)
    (h : renumber i = .ok out) {ext : Option Range} {pl : Plan} {updated : List Nat}
    (hp : plan i.src i.defs i.refs ext i.params = .ok pl)
    (hu : applyEdits pl.selTxt pl.selEdits pl.sel.s.line = .ok updated) :
    ∃ block' : List (List Nat),
      updated = (if pl.lineSep = [CR, LF] then lfToCrlf (joinT block') else joinT block') ∧
      (∀ x ∈ block', NoNl x) ∧
      block'.length = pl.sel.e.line + 1 - pl.sel.s.line ∧
      ∀ k l, k < block'.length → rows[pl.sel.s.line + k]? = some l →
        ∃ as, Chain 0 l.length as ∧ block'[k]? = some (substAsc 0 l as) ∧
          ∀ x, x ∈ as ↔ ∃ num lab n, ((num, lab) ∈ i.defs ∨ (num, lab) ∈ i.refs) ∧
            lab.rng.s.line = pl.sel.s.line + k ∧ lookup pl.mapping num = some n ∧ x = labelEdit lab n := by
  obtain ⟨block', h1, h2, h3, h4⟩ :=
    moved_block_text i d rows t crlf hdoc hsrc hlab hupdF (accepts_only_unique_primaries h) hp
  rw [hu] at h1
  injection h1 with h1
  exact ⟨block', h1, h2, h3, h4⟩

/-- a request that moves: `20 INPUT X / 30 PRINT X` become `1000 / 1002` and go behind `40 END`; the reference in
row 0 follows -/
def exMove : Input :=
  { src := [49,48,32,71,79,84,79,32,51,48,10,50,48,32,73,78,80,85,84,32,88,10,51,48,32,80,82,73,78,84,32,88,10,52,48,32,69,78,68],
    defs := [(10, ⟨⟨⟨0,0⟩,⟨0,3⟩⟩,0,1⟩), (20, ⟨⟨⟨1,0⟩,⟨1,3⟩⟩,0,1⟩), (30, ⟨⟨⟨2,0⟩,⟨2,3⟩⟩,0,1⟩), (40, ⟨⟨⟨3,0⟩,⟨3,3⟩⟩,0,1⟩)],
    refs := [(30, ⟨⟨⟨0,8⟩,⟨0,10⟩⟩,0,0⟩)], beg := 20, end_ := 40, first := 1000, step := 2, flags := 1, maxNum := 63999 }

/-- `exMove` is an instance of `moved_block_content` / `moved_block_placed` in which the block really moves
(`10 GOTO 1002 / 40 END / 1000 INPUT X / 1002 PRINT X`) -/
example :
    labelsOK exMove.src exMove.defs exMove.refs = true ∧ exMove.flags / 2 % 2 = 0 ∧
    renumber exMove = .ok [49,48,32,71,79,84,79,32,49,48,48,50,10,52,48,32,69,78,68,10,49,48,48,48,32,73,78,80,85,84,32,88,10,
      49,48,48,50,32,80,82,73,78,84,32,88,10] ∧
    (plan exMove.src exMove.defs exMove.refs (some ⟨⟨1,0⟩,⟨3,0⟩⟩) exMove.params).bind
      (fun pl => .ok (pl.ins, pl.sel.s.line, pl.sel.e.line)) = .ok (4, 1, 2) := by decide

/-! ## the move path, complete: where the block goes -/

/-- what an accepted request selected and how it maps the selected numbers (shared by `renumber_correct` and
`moved_block_placed`) -/
theorem keys_spec {i : Input}
    (hmono : ∀ d1 ∈ i.defs, ∀ d2 ∈ i.defs, d1.2.rng.s.line ≤ d2.2.rng.s.line → d1.1 ≤ d2.1)
    (hrows : ∀ x ∈ i.defs, x.2.rng.s.line < 0x10000)
    {ext : Option Range} {pl : Plan} (hext : extSelOf i.defs i.beg i.end_ = some ext)
    (hany : anySelected i.defs i.beg i.end_ = true)
    (hp : plan i.src i.defs i.refs ext i.params = .ok pl) :
    ext = some ⟨⟨pl.sel.s.line, 0⟩, ⟨pl.sel.e.line + 1, 0⟩⟩ ∧ pl.sel.s.line ≤ pl.sel.e.line ∧
    (∀ x ∈ i.defs, inSel pl.sel x.2 = true ↔ (i.beg ≤ x.1 ∧ x.1 < i.end_)) ∧
    ((selGroup pl.sel i.defs).map (·.1)).Pairwise (· < ·) ∧
    (∀ num, num ∈ (selGroup pl.sel i.defs).map (·.1) ↔ (∃ lab, (num, lab) ∈ i.defs ∧ inSel pl.sel lab = true)) ∧
    (∀ num, num ∈ (selGroup pl.sel i.defs).map (·.1) ↔ (∃ lab, (num, lab) ∈ i.defs) ∧ i.beg ≤ num ∧ num < i.end_) ∧
    (∀ k num, ((selGroup pl.sel i.defs).map (·.1))[k]? = some num →
      lookup pl.mapping num = some (i.first + k * i.step)) ∧
    (∀ num, num ∉ (selGroup pl.sel i.defs).map (·.1) → lookup pl.mapping num = none) := by
  have f := plan_ok_inv hp
  obtain ⟨l0, ln, rfl, hle, hiff⟩ := extSelOf_spec i.defs i.beg i.end_ ext hext hany hmono hrows
  obtain ⟨ep, hns⟩ := f.selNorm
  obtain ⟨hs0, hs1⟩ := normSel_rows hle hns
  have hkeys : ∀ num, num ∈ (selGroup pl.sel i.defs).map (·.1) ↔
      (∃ lab, (num, lab) ∈ i.defs ∧ inSel pl.sel lab = true) := by
    intro num
    constructor
    · intro hk
      obtain ⟨⟨k, vs⟩, hx, rfl⟩ := List.mem_map.mp hk
      have hne := group_vals_ne_nil _ _ hx
      cases vs with
      | nil => exact absurd rfl hne
      | cons v rest =>
        have : MemG (selGroup pl.sel i.defs) k v := ⟨v :: rest, hx, by simp⟩
        unfold selGroup at this
        rw [memG_group] at this
        exact ⟨v, List.mem_filter.mp this⟩
    · rintro ⟨lab, hm, hin⟩
      have : MemG (selGroup pl.sel i.defs) num lab := by
        unfold selGroup; rw [memG_group]; exact List.mem_filter.mpr ⟨hm, hin⟩
      obtain ⟨vs, hvs, _⟩ := this
      exact List.mem_map.mpr ⟨(num, vs), hvs, rfl⟩
  have hinSel : ∀ x ∈ i.defs, inSel pl.sel x.2 = true ↔ (i.beg ≤ x.1 ∧ x.1 < i.end_) := by
    intro x hx
    rw [← hiff x hx]
    simp only [inSel, Bool.and_eq_true, decide_eq_true_eq, hs0, hs1]
  refine ⟨by rw [hs0, hs1], by omega, hinSel, keysSorted_group _, hkeys, ?_, ?_, ?_⟩
  · intro num
    rw [hkeys]
    constructor
    · rintro ⟨lab, hm, hin⟩
      exact ⟨⟨lab, hm⟩, (hinSel _ hm).mp hin⟩
    · rintro ⟨⟨lab, hm⟩, hb⟩
      exact ⟨lab, hm, (hinSel _ hm).mpr hb⟩
  · intro k num hk
    have hnd : ((selGroup pl.sel i.defs).map (·.1)).Nodup := keys_nodup_group _
    have := lookup_mkMapping i.params.l0 i.params.dl _ hnd k num hk
    rw [← f.mapping] at this
    exact this
  · intro num hn
    exact lookup_none_of_not_mem pl.mapping num (by rw [f.mapping, mkMapping_keys]; exact hn)

/-- what `build_edits` returns when it moves, and the block -/
theorem move_setup {i : Input} {d : List Nat} {rows : List (List Nat)} {t crlf : Bool}
    (hdoc : IsDoc d rows t) (hsrc : i.src = if crlf then lfToCrlf d else d)
    (hlab : labelsOK i.src i.defs i.refs = true)
    (hrows : ∀ x ∈ i.defs, x.2.rng.s.line < 0x10000)
    (hupdF : i.flags / 2 % 2 = 0)
    (huniq : ∀ num l1 l2, (num, l1) ∈ i.defs → (num, l2) ∈ i.defs → l1 = l2)
    {ext : Option Range} {pl : Plan}
    (hext : extSelOf i.defs i.beg i.end_ = some ext)
    (hextEq : ext = some ⟨⟨pl.sel.s.line, 0⟩, ⟨pl.sel.e.line + 1, 0⟩⟩) (hab : pl.sel.s.line ≤ pl.sel.e.line)
    (hp : plan i.src i.defs i.refs ext i.params = .ok pl) (hmv : pl.ins ≠ pl.sel.s.line) :
    ∃ (B : List (List Nat)) (updated last : List Nat),
      MoveCtx rows pl.sel.s.line pl.sel.e.line pl.ins last pl.lineSep updated B pl.unselEdits ∧
      buildEdits i.src i.defs i.refs ext i.params =
        .ok (moveEdits rows.length pl.sel.s.line pl.sel.e.line pl.ins last.length pl.lineSep updated pl.unselEdits) ∧
      B.length = pl.sel.e.line + 1 - pl.sel.s.line ∧
      ∀ k l, k < B.length → rows[pl.sel.s.line + k]? = some l →
        ∃ as, Chain 0 l.length as ∧ B[k]? = some (substAsc 0 l as) ∧
          ∀ x, x ∈ as ↔ ∃ num lab n, ((num, lab) ∈ i.defs ∨ (num, lab) ∈ i.refs) ∧
            lab.rng.s.line = pl.sel.s.line + k ∧ lookup pl.mapping num = some n ∧ x = labelEdit lab n := by
  have hupd : i.params.updateRefs = true := by simp [Input.params, hupdF]
  have hsplit : splitLines i.src = rows := by
    rw [hsrc]
    cases crlf with
    | true => simp only [↓reduceIte]; rw [splitLines_lfToCrlf d (noCR_isDoc hdoc)]; exact splitLines_isDoc hdoc
    | false => exact splitLines_isDoc hdoc
  have hlab' := hlab
  unfold labelsOK at hlab'
  simp only [hsplit, Bool.and_eq_true, List.all_eq_true] at hlab'
  obtain ⟨hok, hpw⟩ := hlab'
  have hpw' : (i.defs ++ i.refs).Pairwise DisjX := by
    have := (pairwiseB_iff _ _).mp hpw
    rw [List.pairwise_map] at this
    exact this
  subst hextEq
  obtain ⟨hda, hdb⟩ := extSelOf_ends i.defs i.beg i.end_ _ _ hext hrows
  obtain ⟨B, hu, hBnl, hBlen, hBspec⟩ := moved_block_text i d rows t crlf hdoc hsrc hlab hupdF huniq hp
  obtain ⟨last, hend, c⟩ := moveCtx_of_plan hp hupd rows hsplit hdoc.1 hok hpw' hmv hab hda hdb B hBnl hBlen
    _ rfl
  refine ⟨B, _, last, c, ?_, hBlen, hBspec⟩
  unfold buildEdits
  simp only [hp, Res.bind, hu]
  rw [if_pos hmv, hend]
  rfl

/-- **C16 for requests that move lines** (REORDER set, `insert_pos.line ≠ sel.start.line`): clauses (i)–(iv) and the
placement of the block.

Hypotheses as in `renumber_correct` except that the REORDER flag is free.  Conclusion, for an accepted request that
moves: `keys`/`mapping` as in `renumber_correct` (ii); the selected rows are exactly the rows `a..b` whose line number
lies in `[beg,end)`; the insertion row `ins` lies outside `a..b+1`; there is the row-wise renumbered program `new` —
row `r` of the source in which **exactly** the labels (defining or referring) whose number is a key are replaced by
their images, simultaneously, every other character kept (iii, iv) — and the output is the text (same separator
LF/CRLF, always with a final newline) of the rows

  `placeFrom a b ins block 0 new ++ (an empty row, if the source ended in a newline) ++ (block, if ins = #rows)`

where `block = new[a..b]` and `placeFrom` walks `new` in source order, drops the rows `a..b`, keeps every other row, and
emits `block` immediately in front of source row `ins` (i): the rows outside the selection keep their relative order, so
do the rows of the block, the block is contiguous, nothing else is added or lost.  The empty row comes from the
`line_sep` that `build_edits` appends at `end_pos` (needed when the text has no final newline; harmless otherwise).
That the numbers ascend in the result is `moved_block_ascending`; the one spurious refusal of the move path is
`move_last_row_refused`. -/
theorem moved_block_placed (i : Input) (out d : List Nat) (rows : List (List Nat)) (t crlf : Bool)
    (hdoc : IsDoc d rows t) (hsrc : i.src = if crlf then lfToCrlf d else d)
    (hlab : labelsOK i.src i.defs i.refs = true)
    (hmono : ∀ d1 ∈ i.defs, ∀ d2 ∈ i.defs, d1.2.rng.s.line ≤ d2.2.rng.s.line → d1.1 ≤ d2.1)
    (hrows : ∀ x ∈ i.defs, x.2.rng.s.line < 0x10000)
    (hupdF : i.flags / 2 % 2 = 0)
    (h : renumber i = .ok out) :
    ∃ ext pl, plan i.src i.defs i.refs ext i.params = .ok pl ∧
      (pl.ins ≠ pl.sel.s.line →
        ∃ (keys : List Nat) (new : List (List Nat)),
          keys.Pairwise (· < ·) ∧
          (∀ num, num ∈ keys ↔ (∃ lab, (num, lab) ∈ i.defs) ∧ i.beg ≤ num ∧ num < i.end_) ∧
          (∀ k num, keys[k]? = some num → lookup pl.mapping num = some (i.first + k * i.step)) ∧
          (∀ num, num ∉ keys → lookup pl.mapping num = none) ∧
          pl.sel.s.line ≤ pl.sel.e.line ∧ pl.sel.e.line < rows.length ∧
          (∀ x ∈ i.defs, (pl.sel.s.line ≤ x.2.rng.s.line ∧ x.2.rng.s.line ≤ pl.sel.e.line) ↔
            (i.beg ≤ x.1 ∧ x.1 < i.end_)) ∧
          (pl.ins < pl.sel.s.line ∨ pl.sel.e.line + 2 ≤ pl.ins) ∧ pl.ins ≤ rows.length ∧
          new.length = rows.length ∧
          (∀ r l, rows[r]? = some l → ∃ as, Chain 0 l.length as ∧ new[r]? = some (substAsc 0 l as) ∧
            ∀ x, x ∈ as ↔ ∃ num lab n, ((num, lab) ∈ i.defs ∨ (num, lab) ∈ i.refs) ∧ lab.rng.s.line = r ∧
              lookup pl.mapping num = some n ∧ x = labelEdit lab n) ∧
          out = (let block := (new.drop pl.sel.s.line).take (pl.sel.e.line + 1 - pl.sel.s.line)
                 let rows' := placeFrom pl.sel.s.line pl.sel.e.line pl.ins block 0 new ++
                   ((if t then [[]] else []) ++ (if pl.ins = rows.length then block else []))
                 if crlf then lfToCrlf (joinT rows') else joinT rows')) := by
  obtain ⟨ext, pl, edits, hext, hany, hp, hb, happ⟩ := renumber_ok_inv h
  refine ⟨ext, pl, hp, ?_⟩
  intro hmv
  obtain ⟨hextEq, hab, hinSel, hks, hkeys, hkeys2, hmap, hnomap⟩ := keys_spec hmono hrows hext hany hp
  have huniq := accepts_only_unique_primaries h
  obtain ⟨B, updated, last, c, hbe, hBlen, hBspec⟩ :=
    move_setup hdoc hsrc hlab hrows hupdF huniq hext hextEq hab hp hmv
  have hedits : edits = moveEdits rows.length pl.sel.s.line pl.sel.e.line pl.ins last.length pl.lineSep updated
      pl.unselEdits := by
    rw [hb] at hbe; injection hbe
  have f := plan_ok_inv hp
  have hupd : i.params.updateRefs = true := by simp [Input.params, hupdF]
  have hsplit : splitLines i.src = rows := by
    rw [hsrc]
    cases crlf with
    | true => simp only [↓reduceIte]; rw [splitLines_lfToCrlf d (noCR_isDoc hdoc)]; exact splitLines_isDoc hdoc
    | false => exact splitLines_isDoc hdoc
  have hlab' := hlab
  unfold labelsOK at hlab'
  simp only [hsplit, Bool.and_eq_true, List.all_eq_true] at hlab'
  obtain ⟨hok, _⟩ := hlab'
  -- the one failing case is excluded by `h`
  have hokk : t = true ∨ pl.sel.e.line + 1 < rows.length := by
    cases ht : t with
    | true => exact Or.inl rfl
    | false =>
      right
      rcases Nat.lt_or_ge (pl.sel.e.line + 1) rows.length with h' | h'
      · exact h'
      · have hbL := c.hbL
        subst ht
        have := c.applyEdits_move_err hdoc crlf (by omega)
        rw [← hsrc, ← hedits, happ] at this
        cases this
  obtain ⟨N, hNlen, _, hNspec, hres⟩ := c.applyEdits_move hdoc crlf hokk
  rw [← hsrc, ← hedits, happ] at hres
  injection hres with hout
  -- the row-wise renumbered program
  have haL : pl.sel.s.line ≤ N.length := by have := c.hbL; omega
  have hlenA : (N.take pl.sel.s.line).length = pl.sel.s.line := by simp; omega
  have hnewLen : (N.take pl.sel.s.line ++ B ++ N.drop (pl.sel.e.line + 1)).length = rows.length := by
    have := c.hbL
    simp [hBlen, hNlen]; omega
  have hget : ∀ r, (N.take pl.sel.s.line ++ B ++ N.drop (pl.sel.e.line + 1))[r]? =
      if pl.sel.s.line ≤ r ∧ r ≤ pl.sel.e.line then B[r - pl.sel.s.line]? else N[r]? := by
    intro r
    have hbL := c.hbL
    by_cases h1 : r < pl.sel.s.line
    · rw [if_neg (by omega), List.getElem?_append_left (by simp [hlenA]; omega),
        List.getElem?_append_left (by rw [hlenA]; exact h1), List.getElem?_take, if_pos h1]
    · by_cases h2 : r ≤ pl.sel.e.line
      · rw [if_pos ⟨by omega, h2⟩, List.getElem?_append_left (by simp [hlenA, hBlen]; omega),
          List.getElem?_append_right (by rw [hlenA]; omega), hlenA]
      · rw [if_neg (by omega), List.getElem?_append_right (by simp [hlenA, hBlen]; omega)]
        simp only [List.length_append, hlenA, hBlen, List.getElem?_drop]
        congr 1; omega
  have hblock : ((N.take pl.sel.s.line ++ B ++ N.drop (pl.sel.e.line + 1)).drop pl.sel.s.line).take
      (pl.sel.e.line + 1 - pl.sel.s.line) = B := by
    rw [List.append_assoc, List.drop_left' hlenA, List.take_left' hBlen]
  have hplace : placeFrom pl.sel.s.line pl.sel.e.line pl.ins B 0 N =
      placeFrom pl.sel.s.line pl.sel.e.line pl.ins B 0 (N.take pl.sel.s.line ++ B ++ N.drop (pl.sel.e.line + 1)) := by
    apply placeFrom_congr
    · rw [hnewLen, hNlen]
    · intro j hj
      rw [hget j, if_neg (by simpa using hj)]
  have hkeyOf : ∀ num n, lookup pl.mapping num = some n → num ∈ (selGroup pl.sel i.defs).map (·.1) := by
    intro num n hl
    apply Classical.byContradiction
    intro hn
    rw [hnomap num hn] at hl; cases hl
  refine ⟨(selGroup pl.sel i.defs).map (·.1), N.take pl.sel.s.line ++ B ++ N.drop (pl.sel.e.line + 1),
    hks, hkeys2, hmap, hnomap, hab, c.hbL, ?_, ?_, c.hinsL, hnewLen, ?_, ?_⟩
  · intro x hx
    rw [← hinSel x hx]
    simp only [inSel, Bool.and_eq_true, decide_eq_true_eq]
  · have := c.hins; omega
  · intro r l hl
    rw [hget r]
    by_cases hsel : pl.sel.s.line ≤ r ∧ r ≤ pl.sel.e.line
    · rw [if_pos hsel]
      have hk : r - pl.sel.s.line < B.length := by rw [hBlen]; omega
      have hr : pl.sel.s.line + (r - pl.sel.s.line) = r := by omega
      have := hBspec (r - pl.sel.s.line) l hk (by rw [hr]; exact hl)
      rw [hr] at this
      exact this
    · rw [if_neg hsel]
      obtain ⟨as, hc, hrow, hm⟩ := hNspec r l hl
      refine ⟨as, hc, hrow, ?_⟩
      intro x
      rw [hm]
      constructor
      · rintro ⟨ed, hed, hr, rfl⟩
        rw [f.unselEdits, if_pos hupd] at hed
        obtain ⟨s, item, n, hmg, hlk, _, rfl⟩ := (mem_secEdits _ _ _ _).mp hed
        exact ⟨s, item, n, Or.inr ((memG_group i.refs s item).mp hmg), hr, hlk, rfl⟩
      · rintro ⟨num, lab, n, hmm, hr, hlk, rfl⟩
        rcases hmm with hmm | hmm
        · -- a defining label with a mapped number stands on a selected row
          exfalso
          obtain ⟨lab', hm', hin'⟩ := (hkeys num).mp (hkeyOf num n hlk)
          have := huniq num lab lab' hmm hm'
          subst this
          simp only [inSel, Bool.and_eq_true, decide_eq_true_eq] at hin'
          exact hsel (by omega)
        · refine ⟨applyMapping n lab, ?_, hr, rfl⟩
          rw [f.unselEdits, if_pos hupd]
          refine (mem_secEdits _ _ _ _).mpr ⟨num, lab, n, (memG_group i.refs num lab).mpr hmm, hlk, ?_, rfl⟩
          obtain ⟨_, _, he, _, _⟩ := labelOK_geom (hok _ (List.mem_append_right _ hmm))
          dsimp only at he
          simp only [Bool.or_eq_true, decide_eq_true_eq]
          omega
  · simp only []
    rw [hblock, ← hplace, ← hout]

/-- `exMove` meets the hypotheses of `moved_block_placed`, it moves (`ins = 4` is the row count, `a..b = 1..2`), and
the output is the placement of the row-wise renumbered program
`new = 10 GOTO 1002 / 1000 INPUT X / 1002 PRINT X / 40 END` -/
example :
    let d := exMove.src
    let rows := [[49,48,32,71,79,84,79,32,51,48], [50,48,32,73,78,80,85,84,32,88], [51,48,32,80,82,73,78,84,32,88],
      [52,48,32,69,78,68]]
    let new := [[49,48,32,71,79,84,79,32,49,48,48,50], [49,48,48,48,32,73,78,80,85,84,32,88],
      [49,48,48,50,32,80,82,73,78,84,32,88], [52,48,32,69,78,68]]
    IsDoc d rows false ∧
    (∀ d1 ∈ exMove.defs, ∀ d2 ∈ exMove.defs, d1.2.rng.s.line ≤ d2.2.rng.s.line → d1.1 ≤ d2.1) ∧
    (∀ x ∈ exMove.defs, x.2.rng.s.line < 0x10000) ∧
    renumber exMove = .ok (joinT (placeFrom 1 2 4 ((new.drop 1).take 2) 0 new ++ ([] ++ (new.drop 1).take 2))) := by
  refine ⟨⟨by unfold NoNl; decide, ?_⟩, by decide, by decide, by decide⟩
  simp only [Bool.false_eq_true, ↓reduceIte]
  exact ⟨by decide, [[49,48,32,71,79,84,79,32,51,48], [50,48,32,73,78,80,85,84,32,88], [51,48,32,80,82,73,78,84,32,88]],
    [52,48,32,69,78,68], rfl, by decide⟩

/-- **The one spurious refusal of the move path.**  A request that has to move the *last* row of a text *without* final
newline is refused (`apply edits failed`): the deletion range `(l,0)-(l+1,0)` of that row has no end position in
`replace_range`.  (With a final newline the same request is accepted, see `moved_block_placed`.)  A refusal returns no
text, so the property is not violated; the case is listed in `refused_iff`. -/
theorem move_last_row_refused (i : Input) (d : List Nat) (rows : List (List Nat)) (crlf : Bool)
    (hdoc : IsDoc d rows false) (hsrc : i.src = if crlf then lfToCrlf d else d)
    (hlab : labelsOK i.src i.defs i.refs = true)
    (hmono : ∀ d1 ∈ i.defs, ∀ d2 ∈ i.defs, d1.2.rng.s.line ≤ d2.2.rng.s.line → d1.1 ≤ d2.1)
    (hrows : ∀ x ∈ i.defs, x.2.rng.s.line < 0x10000)
    (hupdF : i.flags / 2 % 2 = 0) :
    ∀ out, renumber i = .ok out → ∀ ext pl, plan i.src i.defs i.refs ext i.params = .ok pl →
      extSelOf i.defs i.beg i.end_ = some ext → pl.ins ≠ pl.sel.s.line → pl.sel.e.line + 1 < rows.length := by
  intro out h ext' pl' hp' hext' hmv
  obtain ⟨ext, pl, edits, hext, hany, hp, hb, happ⟩ := renumber_ok_inv h
  rw [hext'] at hext
  injection hext with hext
  subst hext
  rw [hp'] at hp
  injection hp with hp
  subst hp
  obtain ⟨hextEq, hab, _⟩ := keys_spec hmono hrows hext' hany hp'
  obtain ⟨B, updated, last, c, hbe, _, _⟩ :=
    move_setup hdoc hsrc hlab hrows hupdF (accepts_only_unique_primaries h) hext' hextEq hab hp' hmv
  have hedits : edits = moveEdits rows.length pl'.sel.s.line pl'.sel.e.line pl'.ins last.length pl'.lineSep updated
      pl'.unselEdits := by
    rw [hb] at hbe; injection hbe
  rcases Nat.lt_or_ge (pl'.sel.e.line + 1) rows.length with h' | h'
  · exact h'
  · have hbL := c.hbL
    have := c.applyEdits_move_err hdoc crlf (by omega)
    rw [← hsrc, ← hedits, happ] at this
    cases this

/-- instance: `10 A / 20 B / 30 C` without final newline, `30` renumbered to `5` with REORDER: refused; the same text
with a final newline is accepted -/
example :
    renumber { src := [49,48,32,65,10,50,48,32,66,10,51,48,32,67],
               defs := [(10, ⟨⟨⟨0,0⟩,⟨0,3⟩⟩,0,1⟩), (20, ⟨⟨⟨1,0⟩,⟨1,3⟩⟩,0,1⟩), (30, ⟨⟨⟨2,0⟩,⟨2,3⟩⟩,0,1⟩)],
               refs := [], beg := 30, end_ := 31, first := 5, step := 1, flags := 1, maxNum := 63999 } = .err ∧
    renumber { src := [49,48,32,65,10,50,48,32,66,10,51,48,32,67,10],
               defs := [(10, ⟨⟨⟨0,0⟩,⟨0,3⟩⟩,0,1⟩), (20, ⟨⟨⟨1,0⟩,⟨1,3⟩⟩,0,1⟩), (30, ⟨⟨⟨2,0⟩,⟨2,3⟩⟩,0,1⟩)],
               refs := [], beg := 30, end_ := 31, first := 5, step := 1, flags := 1, maxNum := 63999 } =
      .ok [53,32,67,10,49,48,32,65,10,50,48,32,66,10,10] := by decide

/-- **The block is placed where its new numbers belong** (every accepted request, moving or not).  `ins` is the row in
front of which the block stands in the result (`ins = a` when nothing moves).  Every line outside the selection that
stands before row `ins` has a number below `first`; every one from row `ins` on has a number above the last new number
`first + step*(n-1)`; the selected lines get `first ≤ … ≤ last`, ascending in their row order.  As the unselected lines
keep their numbers and their order (`moved_block_placed` / `renumber_correct`) and ascend by hypothesis, the line numbers
of the result are strictly increasing. -/
theorem placement_ascending (i : Input) (out d : List Nat) (rows : List (List Nat)) (t crlf : Bool)
    (hdoc : IsDoc d rows t) (hsrc : i.src = if crlf then lfToCrlf d else d)
    (hlab : labelsOK i.src i.defs i.refs = true)
    (hmono : ∀ d1 ∈ i.defs, ∀ d2 ∈ i.defs, d1.2.rng.s.line ≤ d2.2.rng.s.line → d1.1 ≤ d2.1)
    (hrows : ∀ x ∈ i.defs, x.2.rng.s.line < 0x10000)
    (h : renumber i = .ok out) :
    ∃ ext pl, plan i.src i.defs i.refs ext i.params = .ok pl ∧
      (∀ x ∈ i.defs, ¬ (i.beg ≤ x.1 ∧ x.1 < i.end_) →
        (x.2.rng.s.line < pl.ins → x.1 < i.first) ∧
        (pl.ins ≤ x.2.rng.s.line → lastNum i.params pl.sel i.defs < x.1)) ∧
      (∀ x ∈ i.defs, ∀ y ∈ i.defs, (i.beg ≤ x.1 ∧ x.1 < i.end_) → (i.beg ≤ y.1 ∧ y.1 < i.end_) →
        x.2.rng.s.line < y.2.rng.s.line →
        ∃ nx ny, lookup pl.mapping x.1 = some nx ∧ lookup pl.mapping y.1 = some ny ∧
          i.first ≤ nx ∧ nx < ny ∧ ny ≤ lastNum i.params pl.sel i.defs) := by
  obtain ⟨ext, pl, edits, hext, hany, hp, hb, happ⟩ := renumber_ok_inv h
  refine ⟨ext, pl, hp, ?_, ?_⟩
  · obtain ⟨_, _, hinSel, _, _, _, _, _⟩ := keys_spec hmono hrows hext hany hp
    have f := plan_ok_inv hp
    have hsplit : splitLines i.src = rows := by
      rw [hsrc]
      cases crlf with
      | true => simp only [↓reduceIte]; rw [splitLines_lfToCrlf d (noCR_isDoc hdoc)]; exact splitLines_isDoc hdoc
      | false => exact splitLines_isDoc hdoc
    have hlab' := hlab
    unfold labelsOK at hlab'
    simp only [hsplit, Bool.and_eq_true, List.all_eq_true] at hlab'
    obtain ⟨hok, _⟩ := hlab'
    obtain ⟨ins0, hck, hins⟩ := f.check
    rw [hsplit] at hins
    obtain ⟨_, hbound, hatt⟩ := checkLoop_ins hck
    obtain ⟨p1, p2, _, _⟩ := pushBlank_spec rows 0 ins0 (Nat.zero_le _)
    rw [← hins] at p1 p2
    simp only [Nat.sub_zero] at p2
    have hcoll := accepts_only_without_collision hp
    have hl0 : i.params.l0 = i.first := rfl
    -- an unselected defining label is an entry `[lab]` of the grouped map and does not lie on the selected rows
    have hentry : ∀ x ∈ i.defs, ¬ (i.beg ≤ x.1 ∧ x.1 < i.end_) →
        (x.1, [x.2]) ∈ group i.defs ∧ ¬ onSelRows pl.sel x.2 := by
      intro x hx hns
      obtain ⟨vs, hvs, hl⟩ := (memG_group i.defs x.1 x.2).mpr hx
      obtain ⟨i0, hi0, _⟩ := checkLoop_some hck _ hvs
      dsimp only at hi0
      subst hi0
      simp only [List.mem_singleton] at hl
      subst hl
      refine ⟨hvs, ?_⟩
      intro hon
      obtain ⟨_, _, he, _, _⟩ := labelOK_geom (hok _ (List.mem_append_left _ hx))
      apply hns
      rw [← hinSel x hx]
      unfold onSelRows at hon
      simp only [inSel, Bool.and_eq_true, decide_eq_true_eq]
      omega
    intro x hx hns
    obtain ⟨hxe, hxout⟩ := hentry x hx hns
    have hnc := hcoll x.1 x.2 hx hxout
    rw [hl0] at hnc
    constructor
    · intro hrow
      apply Classical.byContradiction
      intro hge
      rcases Nat.lt_or_ge x.2.rng.s.line ins0 with hlt | hge0
      · rcases hatt with h0 | ⟨q, i0, hm, _, hq, h0⟩
        · omega
        · have hmem : (q, i0) ∈ i.defs := (memG_group i.defs q i0).mp ⟨[i0], hm, by simp⟩
          have := hmono x hx (q, i0) hmem (by dsimp only; omega)
          dsimp only at this
          rw [hl0] at hq
          omega
      · obtain ⟨l, hl, hbl⟩ := p2 _ hge0 hrow
        obtain ⟨l', hl', hb'⟩ := labelOK_nonblank (hok _ (List.mem_append_left _ hx))
        rw [hl] at hl'
        injection hl' with hl'
        subst hl'
        rw [hbl] at hb'; cases hb'
    · intro hrow
      have hfb : i.first ≤ lastNum i.params pl.sel i.defs := by unfold lastNum; rw [hl0]; omega
      rcases Nat.lt_or_ge x.1 i.first with hlt | hge
      · have := hbound x.1 x.2 hxe hxout (by rw [hl0]; exact hlt)
        omega
      · omega
  · obtain ⟨_, _, hinSel, hks, hkeys, _, hmap, _⟩ := keys_spec hmono hrows hext hany hp
    have f := plan_ok_inv hp
    have huniq := accepts_only_unique_primaries h
    intro x hx y hy hxs hys hrow
    have hxk : x.1 ∈ (selGroup pl.sel i.defs).map (·.1) := (hkeys x.1).mpr ⟨x.2, hx, (hinSel x hx).mpr hxs⟩
    have hyk : y.1 ∈ (selGroup pl.sel i.defs).map (·.1) := (hkeys y.1).mpr ⟨y.2, hy, (hinSel y hy).mpr hys⟩
    obtain ⟨kx, hkx⟩ := List.getElem?_of_mem hxk
    obtain ⟨ky, hky⟩ := List.getElem?_of_mem hyk
    have hle := hmono x hx y hy (Nat.le_of_lt hrow)
    have hne : x.1 ≠ y.1 := by
      intro heq
      have := huniq x.1 x.2 y.2 hx (by rw [heq]; exact hy)
      rw [this] at hrow
      omega
    have hkk : kx < ky := by
      obtain ⟨hx1, hx2⟩ := List.getElem?_eq_some_iff.mp hkx
      obtain ⟨hy1, hy2⟩ := List.getElem?_eq_some_iff.mp hky
      rcases Nat.lt_trichotomy kx ky with hlt | heq | hgt
      · exact hlt
      · subst heq; rw [hx2] at hy2; exact absurd hy2 hne
      · have := (List.pairwise_iff_getElem.mp hks) ky kx hy1 hx1 hgt
        rw [hx2, hy2] at this
        omega
    have hkyl : ky < (selGroup pl.sel i.defs).length := by
      obtain ⟨hy1, _⟩ := List.getElem?_eq_some_iff.mp hky
      simpa using hy1
    have hdl := f.dl_ok
    have hs : i.params.dl = i.step := rfl
    refine ⟨_, _, hmap kx x.1 hkx, hmap ky y.1 hky, Nat.le_add_right _ _, ?_, ?_⟩
    · have : kx * i.step < ky * i.step := Nat.mul_lt_mul_of_pos_right hkk (by omega)
      omega
    · unfold lastNum
      have : ky * i.step ≤ ((selGroup pl.sel i.defs).length - 1) * i.step := Nat.mul_le_mul_right _ (by omega)
      have hl0 : i.params.l0 = i.first := rfl
      rw [hl0, hs, Nat.mul_comm i.step]
      omega

/-- `exMove`: the unselected `10` (row 0 < ins = 4) is below 1000, the selected `20`, `30` become `1000 < 1002` -/
example : (plan exMove.src exMove.defs exMove.refs (some ⟨⟨1,0⟩,⟨3,0⟩⟩) exMove.params).bind
    (fun pl => .ok (pl.ins, lookup pl.mapping 20, lookup pl.mapping 30, lastNum exMove.params pl.sel exMove.defs)) =
      .ok (4, some 1000, some 1002, 1002) := by decide

/-! ## the refusal clause in full: exactly which requests are refused

`Refuse` is stated on the program and the request alone (which numbers are selected, which are not, where their lines
stand), not on the loops of the code. -/

/-- the request selects the line number `x` -/
def selNum (i : Input) (x : Nat) : Bool := decide (i.beg ≤ x) && decide (x < i.end_)

/-- the defining labels of the selected / of the other lines -/
def selDefs (i : Input) : List (Nat × Label) := i.defs.filter (fun d => selNum i d.1)
def unselDefs (i : Input) : List (Nat × Label) := i.defs.filter (fun d => !selNum i d.1)

/-- the last new number `first + step*(n-1)` -/
def lastNew (i : Input) : Nat := i.first + i.step * ((selDefs i).length - 1)

/-- **interleave**: the selected lines are not where their new numbers belong — a line behind the selection has a
number below `first`, or a non-blank row in front of the selection stands behind every line numbered below `first`
(i.e. a line in front of the selection has a number above the new range) -/
def NeedsMove (i : Input) (rows : List (List Nat)) : Prop :=
  (∃ x ∈ unselDefs i, x.1 < i.first ∧ ∃ s ∈ selDefs i, s.2.rng.s.line < x.2.rng.s.line) ∨
  (∃ r l, rows[r]? = some l ∧ isBlank l = false ∧ (∀ s ∈ selDefs i, r < s.2.rng.s.line) ∧
    ∀ x ∈ unselDefs i, x.1 < i.first → x.2.rng.s.line < r)

/-- **the requests that are refused** -/
def Refuse (i : Input) (rows : List (List Nat)) (t : Bool) : Prop :=
  selDefs i = [] ∨                                                   -- no line number in `[beg,end)`
  ¬ (i.defs.map (·.1)).Nodup ∨                                       -- the source has a line number twice
  (i.first > i.maxNum ∨ i.step < 1 ∨ i.step > i.maxNum) ∨            -- start / step out of range
  lastNew i > i.maxNum ∨                                             -- would exceed 63999 (32767)
  (∃ x ∈ unselDefs i, i.first ≤ x.1 ∧ x.1 ≤ lastNew i) ∨             -- would duplicate a number / interleave
  (NeedsMove i rows ∧ i.flags % 2 = 0) ∨                             -- lines would have to move, REORDER not set
  (NeedsMove i rows ∧ t = false ∧ ∃ s ∈ selDefs i, s.2.rng.s.line + 1 = rows.length)
                                                                     -- (spurious) move of the last row, no final newline

theorem group_length_of_nodup (xs : List (Nat × Label)) (h : (xs.map (·.1)).Nodup) :
    (group xs).length = xs.length := by
  have hs := (singletons_iff_nodup xs).mpr h
  have h1 := (ungroup_group_perm xs).length_eq
  have h2 := congrArg List.length (ungroup_keys_of_singletons (group xs) hs)
  simp only [List.length_map] at h2
  omega

theorem mem_selDefs {i : Input} {x : Nat × Label} : x ∈ selDefs i ↔ x ∈ i.defs ∧ i.beg ≤ x.1 ∧ x.1 < i.end_ := by
  simp [selDefs, selNum, List.mem_filter]

theorem mem_unselDefs {i : Input} {x : Nat × Label} :
    x ∈ unselDefs i ↔ x ∈ i.defs ∧ ¬ (i.beg ≤ x.1 ∧ x.1 < i.end_) := by
  simp only [unselDefs, selNum, List.mem_filter, Bool.not_eq_true', Bool.and_eq_false_iff, decide_eq_false_iff_not]
  constructor
  · rintro ⟨h1, h2⟩; exact ⟨h1, by omega⟩
  · rintro ⟨h1, h2⟩; exact ⟨h1, by omega⟩

/-- the facts about the selection that the refusal theorems share -/
structure PlanCtx (i : Input) (rows : List (List Nat)) (sel : Range) : Prop where
  hok : ∀ x ∈ i.defs ++ i.refs, labelOK rows x = true
  hinSel : ∀ x ∈ i.defs, inSel sel x.2 = true ↔ (i.beg ≤ x.1 ∧ x.1 < i.end_)
  hab : sel.s.line ≤ sel.e.line
  hda : ∃ d ∈ i.defs, d.2.rng.s.line = sel.s.line
  hdb : ∃ d ∈ i.defs, d.2.rng.s.line = sel.e.line
  hnd : (i.defs.map (·.1)).Nodup

theorem PlanCtx.onSel {i : Input} {rows : List (List Nat)} {sel : Range} (c : PlanCtx i rows sel) {x : Nat × Label}
    (hx : x ∈ i.defs) : onSelRows sel x.2 ↔ (i.beg ≤ x.1 ∧ x.1 < i.end_) := by
  rw [← c.hinSel x hx]
  obtain ⟨_, _, he, _, _⟩ := labelOK_geom (c.hok _ (List.mem_append_left _ hx))
  unfold onSelRows
  simp only [inSel, Bool.and_eq_true, decide_eq_true_eq]
  omega

theorem PlanCtx.selLen {i : Input} {rows : List (List Nat)} {sel : Range} (c : PlanCtx i rows sel) :
    (selGroup sel i.defs).length = (selDefs i).length := by
  have : i.defs.filter (fun d => inSel sel d.2) = selDefs i := by
    unfold selDefs
    apply List.filter_congr
    intro x hx
    rw [Bool.eq_iff_iff, c.hinSel x hx]
    simp [selNum]
  unfold selGroup
  rw [this]
  apply group_length_of_nodup
  exact List.Nodup.sublist ((List.filter_sublist).map _) c.hnd

theorem PlanCtx.lastEq {i : Input} {rows : List (List Nat)} {sel : Range} (c : PlanCtx i rows sel) :
    lastNum i.params sel i.defs = lastNew i := by
  unfold lastNum lastNew
  rw [c.selLen]
  rfl

theorem PlanCtx.selRow {i : Input} {rows : List (List Nat)} {sel : Range} (c : PlanCtx i rows sel) :
    ∀ s ∈ selDefs i, sel.s.line ≤ s.2.rng.s.line ∧ s.2.rng.s.line ≤ sel.e.line := by
  intro s hs
  obtain ⟨hsd, hss⟩ := mem_selDefs.mp hs
  have := (c.hinSel s hsd).mpr hss
  simpa [inSel] using this

/-- a defining label is an entry `[lab]` of the grouped map -/
theorem entry_of_def {i : Input} (hnd : (i.defs.map (·.1)).Nodup) {x : Nat × Label} (hx : x ∈ i.defs) :
    (x.1, [x.2]) ∈ group i.defs := by
  obtain ⟨vs, hvs, hl⟩ := (memG_group i.defs x.1 x.2).mpr hx
  obtain ⟨lab, hlab⟩ := (singletons_iff_nodup i.defs).mpr hnd _ hvs
  dsimp only at hlab
  subst hlab
  simp only [List.mem_singleton] at hl
  subst hl
  exact hvs

/-- **when lines have to move**: `insert_pos.line ≠ sel.start.line` says exactly `NeedsMove` (`ins0` is the result of
the loop over `all_primaries`, the blank-line loop follows) -/
theorem needsMove_iff' {i : Input} {rows : List (List Nat)} {sel : Range} {ln ins0 : Nat}
    (hck : checkLoop sel i.first ln (group i.defs) 0 = some ins0)
    (c : PlanCtx i rows sel) : pushBlank rows 0 ins0 ≠ sel.s.line ↔ NeedsMove i rows := by
  have hokd : ∀ x ∈ i.defs, labelOK rows x = true := fun x hx => c.hok x (List.mem_append_left _ hx)
  obtain ⟨p1, pL, p3, hcase⟩ := ins_cases sel _ _ i.defs rows ins0 hck hokd c.hda
  obtain ⟨_, hbound, hatt⟩ := checkLoop_ins hck
  obtain ⟨_, p2, _, _⟩ := pushBlank_spec rows 0 ins0 (Nat.zero_le _)
  simp only [Nat.sub_zero] at p2
  obtain ⟨da, hda, hrowa⟩ := c.hda
  obtain ⟨db, hdb, hrowb⟩ := c.hdb
  have hdaSel : da ∈ selDefs i := by
    refine mem_selDefs.mpr ⟨hda, (c.hinSel da hda).mp ?_⟩
    have := c.hab
    simp only [inSel, Bool.and_eq_true, decide_eq_true_eq]; omega
  have hdbSel : db ∈ selDefs i := by
    refine mem_selDefs.mpr ⟨hdb, (c.hinSel db hdb).mp ?_⟩
    have := c.hab
    simp only [inSel, Bool.and_eq_true, decide_eq_true_eq]; omega
  -- an unselected line numbered below `first` stands in front of `ins0`
  have hlow : ∀ x ∈ unselDefs i, x.1 < i.first → x.2.rng.s.line + 1 ≤ ins0 := by
    intro x hx hlt
    obtain ⟨hxd, hns⟩ := mem_unselDefs.mp hx
    exact hbound x.1 x.2 (entry_of_def c.hnd hxd) (fun h => hns ((c.onSel hxd).mp h)) hlt
  have hselRow := c.selRow
  constructor
  · intro hne
    rcases hcase with ⟨h0, hle⟩ | h0
    · -- the block goes up: row `ins` is the witness of the second clause
      right
      have hb := c.hab
      have hlt : pushBlank rows 0 ins0 < sel.s.line := by omega
      obtain ⟨lb, hlb, _⟩ := labelOK_geom (hokd db hdb)
      have hbL : sel.e.line < rows.length := by
        rcases Nat.lt_or_ge sel.e.line rows.length with h' | h'
        · exact h'
        · rw [hrowb, List.getElem?_eq_none h'] at hlb; cases hlb
      obtain ⟨l, hl⟩ : ∃ l, rows[pushBlank rows 0 ins0]? = some l :=
        ⟨rows[pushBlank rows 0 ins0]'(by omega), List.getElem?_eq_getElem (by omega)⟩
      refine ⟨_, l, hl, p3 l hl, ?_, ?_⟩
      · intro s hs; have := hselRow s hs; omega
      · intro x hx hlt'; have := hlow x hx hlt'; omega
    · -- the block goes down: the line that pushed `ins0` behind the selection is the witness
      left
      rcases hatt with h' | ⟨q, i0, hm, hout, hq, h'⟩
      · omega
      · have hmem : (q, i0) ∈ i.defs := (memG_group i.defs q i0).mp ⟨[i0], hm, by simp⟩
        refine ⟨(q, i0), mem_unselDefs.mpr ⟨hmem, fun hs => hout ((c.onSel hmem).mpr hs)⟩, hq,
          db, hdbSel, ?_⟩
        dsimp only
        omega
  · rintro (⟨x, hx, hlt, s, hs, hrow⟩ | ⟨r, l, hl, hnb, hbefore, hafter⟩)
    · have h1 := hlow x hx hlt
      have h2 := hselRow s hs
      omega
    · intro heq
      have hra : r < sel.s.line := by have := hbefore da hdaSel; omega
      have hi0 : ins0 ≤ r := by
        rcases hatt with h' | ⟨q, i0, hm, hout, hq, h'⟩
        · omega
        · have hmem : (q, i0) ∈ i.defs := (memG_group i.defs q i0).mp ⟨[i0], hm, by simp⟩
          have := hafter (q, i0) (mem_unselDefs.mpr ⟨hmem, fun hs => hout ((c.onSel hmem).mpr hs)⟩) hq
          dsimp only at this
          omega
      obtain ⟨l', hl', hb'⟩ := p2 r hi0 (by omega)
      rw [hl] at hl'
      injection hl' with hl'
      subst hl'
      rw [hnb] at hb'; cases hb'

theorem needsMove_iff {i : Input} {rows : List (List Nat)} {pl : Plan} {ext : Option Range}
    (hp : plan i.src i.defs i.refs ext i.params = .ok pl) (hsplit : splitLines i.src = rows)
    (c : PlanCtx i rows pl.sel) : pl.ins ≠ pl.sel.s.line ↔ NeedsMove i rows := by
  obtain ⟨ins0, hck, hins⟩ := (plan_ok_inv hp).check
  rw [hsplit] at hins
  rw [hins]
  exact needsMove_iff' hck c

/-- without a move the label edits always apply -/
theorem noMove_applies {i : Input} {d : List Nat} {rows : List (List Nat)} {t crlf : Bool}
    (hdoc : IsDoc d rows t) (hsrc : i.src = if crlf then lfToCrlf d else d)
    (hlab : labelsOK i.src i.defs i.refs = true) (hupdF : i.flags / 2 % 2 = 0)
    {ext : Option Range} {pl : Plan} (hp : plan i.src i.defs i.refs ext i.params = .ok pl) :
    ∃ out, applyEdits i.src (pl.selEdits ++ pl.unselEdits) 0 = .ok out := by
  have hupd : i.params.updateRefs = true := by simp [Input.params, hupdF]
  have f := plan_ok_inv hp
  have hsplit : splitLines i.src = rows := by
    rw [hsrc]
    cases crlf with
    | true => simp only [↓reduceIte]; rw [splitLines_lfToCrlf d (noCR_isDoc hdoc)]; exact splitLines_isDoc hdoc
    | false => exact splitLines_isDoc hdoc
  unfold labelsOK at hlab
  simp only [hsplit, Bool.and_eq_true, List.all_eq_true] at hlab
  obtain ⟨hok, hpw⟩ := hlab
  have hpw' : (i.defs ++ i.refs).Pairwise DisjX := by
    have := (pairwiseB_iff _ _).mp hpw
    rw [List.pairwise_map] at this
    exact this
  have hrowR : ∀ x ∈ i.refs, x.2.rng.e.line = x.2.rng.s.line := by
    intro x hx
    obtain ⟨_, _, h2, _⟩ := labelOK_geom (hok x (List.mem_append_right _ hx))
    exact h2
  have hrowR' : ∀ x ∈ i.refs, x.2.rng.s.line = x.2.rng.e.line := fun x hx => (hrowR x hx).symm
  have hE : pl.selEdits ++ pl.unselEdits =
      primEdits pl.mapping (selGroup pl.sel i.defs) ++ secEdits pl.mapping (selGroup pl.sel i.refs) (fun _ => true) ++
      secEdits pl.mapping (group i.refs)
        (fun item => item.rng.s.line < pl.sel.s.line || item.rng.e.line > pl.sel.e.line) := by
    rw [f.selEdits, f.unselEdits]; simp [hupd]
  have hdis : (pl.selEdits ++ pl.unselEdits).Pairwise DisjE := by
    rw [hE]; exact edits_pairwise _ _ _ _ hpw' hrowR
  have hfit : ∀ ed ∈ pl.selEdits ++ pl.unselEdits,
      EditOn rows ed ∧ ed.rng.s.ch < ed.rng.e.ch ∧ ed.new ≠ [] := by
    intro ed hed
    obtain ⟨num, lab, n, hmem, _, _, rfl⟩ := only_label_edits hp hupd hrowR' ed hed
    have hmem' : (num, lab) ∈ i.defs ++ i.refs := List.mem_append.mpr hmem
    obtain ⟨l, hl, h2, h3, h4⟩ := labelOK_geom (hok _ hmem')
    obtain ⟨hn1, hn2⟩ := applyMapping_new n lab
    exact ⟨⟨h2, hn1, l, hl, Nat.le_of_lt h3, h4⟩, h3, hn2⟩
  obtain ⟨d', rows', happ', _⟩ := applyEdits_disjoint hdoc crlf (pl.selEdits ++ pl.unselEdits) hfit hdis
  rw [← hsrc] at happ'
  exact ⟨_, happ'⟩

/-- the selection `renumber` passes to `build_edits`, for a program whose numbers ascend with the rows -/
theorem planCtx_of {i : Input} {rows : List (List Nat)} (hsplit : splitLines i.src = rows)
    (hlab : labelsOK i.src i.defs i.refs = true)
    (hmono : ∀ d1 ∈ i.defs, ∀ d2 ∈ i.defs, d1.2.rng.s.line ≤ d2.2.rng.s.line → d1.1 ≤ d2.1)
    (hrows : ∀ x ∈ i.defs, x.2.rng.s.line < 0x10000)
    {ext : Option Range} (hext : extSelOf i.defs i.beg i.end_ = some ext)
    (hany : anySelected i.defs i.beg i.end_ = true) :
    ∃ l0 ln l, ext = some ⟨⟨l0, 0⟩, ⟨ln + 1, 0⟩⟩ ∧ l0 ≤ ln ∧ rows[ln]? = some l ∧
      ∀ c : Nat, PlanCtx i rows ⟨⟨l0, 0⟩, ⟨ln, c⟩⟩ := by
  obtain ⟨l0, ln, rfl, hle, hiff⟩ := extSelOf_spec i.defs i.beg i.end_ ext hext hany hmono hrows
  obtain ⟨hda, hdb⟩ := extSelOf_ends i.defs i.beg i.end_ l0 ln hext hrows
  unfold labelsOK at hlab
  simp only [hsplit, Bool.and_eq_true, List.all_eq_true] at hlab
  obtain ⟨hok, _⟩ := hlab
  obtain ⟨db, hdb', hrowb⟩ := hdb
  obtain ⟨l, hl, _⟩ := labelOK_geom (hok db (List.mem_append_left _ hdb'))
  rw [hrowb] at hl
  have hnd : (i.defs.map (·.1)).Nodup := by
    apply (singletons_iff_nodup i.defs).mp
    unfold extSelOf at hext
    cases hs : selRows i.beg i.end_ (group i.defs) 0x10000 0 with
    | none => simp [hs] at hext
    | some r => exact selRows_some hs
  refine ⟨l0, ln, l, rfl, hle, hl, fun c => ⟨hok, ?_, hle, hda, ⟨db, hdb', hrowb⟩, hnd⟩⟩
  intro x hx
  rw [← hiff x hx]
  simp only [inSel, Bool.and_eq_true, decide_eq_true_eq]

theorem renumber_of_build_err {i : Input} {ext : Option Range} (hext : extSelOf i.defs i.beg i.end_ = some ext)
    (hany : anySelected i.defs i.beg i.end_ = true)
    (hb : buildEdits i.src i.defs i.refs ext i.params = .err) : renumber i = .err := by
  unfold renumber renumberWith
  simp [hext, hany, hb]

theorem renumber_of_apply {i : Input} {ext : Option Range} {edits : List Edit}
    (hext : extSelOf i.defs i.beg i.end_ = some ext) (hany : anySelected i.defs i.beg i.end_ = true)
    (hb : buildEdits i.src i.defs i.refs ext i.params = .ok edits) : renumber i = applyEdits i.src edits 0 := by
  unfold renumber renumberWith
  simp only [hext, hany, Bool.not_false, Bool.not_true, Bool.and_false, Bool.false_eq_true, ↓reduceIte, hb]
  cases applyEdits i.src edits 0 <;> rfl

theorem plan_bad_params (allTxt : List Nat) (defs refs : List (Nat × Label)) (ext : Option Range) (p : Params)
    (h : ¬ ((p.minNum ≤ p.l0 ∧ p.l0 ≤ p.maxNum) ∧ (1 ≤ p.dl ∧ p.dl ≤ p.maxNum))) :
    plan allTxt defs refs ext p = .err := by
  unfold plan
  simp only []
  by_cases h1 : p.l0 < p.minNum ∨ p.l0 > p.maxNum
  · rw [if_pos h1]
  · rw [if_neg h1, if_pos (by omega)]

/-- **accepted ⇒ none of the refusal conditions holds** (the contrapositives collected) -/
theorem accepted_not_refuse (i : Input) (out d : List Nat) (rows : List (List Nat)) (t crlf : Bool)
    (hdoc : IsDoc d rows t) (hsrc : i.src = if crlf then lfToCrlf d else d)
    (hlab : labelsOK i.src i.defs i.refs = true)
    (hmono : ∀ d1 ∈ i.defs, ∀ d2 ∈ i.defs, d1.2.rng.s.line ≤ d2.2.rng.s.line → d1.1 ≤ d2.1)
    (hrows : ∀ x ∈ i.defs, x.2.rng.s.line < 0x10000)
    (hupdF : i.flags / 2 % 2 = 0)
    (h : renumber i = .ok out) : ¬ Refuse i rows t := by
  obtain ⟨ext, pl, edits, hext, hany, hp, hb, happ⟩ := renumber_ok_inv h
  have hsplit : splitLines i.src = rows := by
    rw [hsrc]
    cases crlf with
    | true => simp only [↓reduceIte]; rw [splitLines_lfToCrlf d (noCR_isDoc hdoc)]; exact splitLines_isDoc hdoc
    | false => exact splitLines_isDoc hdoc
  obtain ⟨l0, ln, l, hextEq, hle, hl, hc⟩ := planCtx_of hsplit hlab hmono hrows hext hany
  obtain ⟨hextEq', _, _⟩ := keys_spec hmono hrows hext hany hp
  rw [hextEq] at hextEq'
  injection hextEq' with hextEq'
  injection hextEq' with e1 e2
  injection e1 with e1 _
  injection e2 with e2 _
  have e2' : ln = pl.sel.e.line := by omega
  have c : PlanCtx i rows pl.sel := by
    have := hc pl.sel.e.ch
    rw [e1, e2'] at this
    have hs : pl.sel = ⟨⟨pl.sel.s.line, 0⟩, ⟨pl.sel.e.line, pl.sel.e.ch⟩⟩ := by
      obtain ⟨ep, hns⟩ := (plan_ok_inv hp).selNorm
      rw [hextEq] at hns
      unfold normSel at hns
      simp only [Nat.add_sub_cancel, true_and] at hns
      rw [if_pos (by omega)] at hns
      split at hns
      · injection hns with hns; rw [← hns]
      · cases hns
    rw [hs]; exact this
  have f := plan_ok_inv hp
  rintro (h1 | h2 | h3 | h4 | ⟨x, hx, hr⟩ | ⟨hm, hfl⟩ | ⟨hm, ht, s, hs, hsl⟩)
  · unfold anySelected at hany
    obtain ⟨ds, hds, hsel⟩ := List.any_eq_true.mp hany
    simp only [Bool.and_eq_true, decide_eq_true_eq] at hsel
    have : ds ∈ selDefs i := mem_selDefs.mpr ⟨hds, hsel⟩
    rw [h1] at this; cases this
  · exact h2 c.hnd
  · have := f.l0_ok; have := f.dl_ok
    have e1 : i.params.l0 = i.first := rfl
    have e2 : i.params.dl = i.step := rfl
    have e3 : i.params.maxNum = i.maxNum := rfl
    omega
  · have := f.bound
    rw [c.lastEq] at this
    have e3 : i.params.maxNum = i.maxNum := rfl
    omega
  · obtain ⟨hxd, hns⟩ := mem_unselDefs.mp hx
    have := accepts_only_without_collision hp x.1 x.2 hxd (fun hon => hns ((c.onSel hxd).mp hon))
    rw [c.lastEq] at this
    exact this hr
  · have hmv := (needsMove_iff hp hsplit c).mpr hm
    exact hmv (f.move (by simp [Input.params, hfl]))
  · have hmv := (needsMove_iff hp hsplit c).mpr hm
    subst ht
    have := move_last_row_refused i d rows crlf hdoc hsrc hlab hmono hrows hupdF out h ext pl hp hext hmv
    have := (c.selRow s hs).2
    omega

/-- **every request is accepted or refused (no crash), and a refused one meets a refusal condition** -/
theorem renumber_outcome (i : Input) (d : List Nat) (rows : List (List Nat)) (t crlf : Bool)
    (hdoc : IsDoc d rows t) (hsrc : i.src = if crlf then lfToCrlf d else d)
    (hlab : labelsOK i.src i.defs i.refs = true)
    (hmono : ∀ d1 ∈ i.defs, ∀ d2 ∈ i.defs, d1.2.rng.s.line ≤ d2.2.rng.s.line → d1.1 ≤ d2.1)
    (hrows : ∀ x ∈ i.defs, x.2.rng.s.line < 0x10000)
    (hupdF : i.flags / 2 % 2 = 0) :
    (∃ out, renumber i = .ok out) ∨ (renumber i = .err ∧ Refuse i rows t) := by
  have hsplit : splitLines i.src = rows := by
    rw [hsrc]
    cases crlf with
    | true => simp only [↓reduceIte]; rw [splitLines_lfToCrlf d (noCR_isDoc hdoc)]; exact splitLines_isDoc hdoc
    | false => exact splitLines_isDoc hdoc
  by_cases hnd : (i.defs.map (·.1)).Nodup
  case neg =>
    right
    refine ⟨?_, Or.inr (Or.inl hnd)⟩
    have : selRows i.beg i.end_ (group i.defs) 0x10000 0 = none :=
      selRows_none_of _ _ _ _ _ (fun hs => hnd ((singletons_iff_nodup i.defs).mp hs))
    unfold renumber renumberWith extSelOf
    simp [this]
  obtain ⟨r, hr⟩ := selRows_isSome i.beg i.end_ (group i.defs) 0x10000 0 ((singletons_iff_nodup i.defs).mpr hnd)
  obtain ⟨ext, hext⟩ : ∃ ext, extSelOf i.defs i.beg i.end_ = some ext := by
    unfold extSelOf; rw [hr]; exact ⟨_, rfl⟩
  by_cases hany : anySelected i.defs i.beg i.end_ = true
  case neg =>
    right
    constructor
    · unfold renumber renumberWith
      simp [hext, hany]
    · left
      unfold selDefs
      apply List.filter_eq_nil_iff.mpr
      intro x hx hsel
      apply hany
      unfold anySelected
      exact List.any_eq_true.mpr ⟨x, hx, by simpa [selNum] using hsel⟩
  obtain ⟨l0, ln, l, hextEq, hle, hl, hc⟩ := planCtx_of hsplit hlab hmono hrows hext hany
  subst hextEq
  have c := hc l.length
  have e1 : i.params.l0 = i.first := rfl
  have e2 : i.params.dl = i.step := rfl
  have e3 : i.params.maxNum = i.maxNum := rfl
  have e4 : i.params.minNum = 0 := rfl
  by_cases hpar : (i.params.minNum ≤ i.params.l0 ∧ i.params.l0 ≤ i.params.maxNum) ∧
      (1 ≤ i.params.dl ∧ i.params.dl ≤ i.params.maxNum)
  case neg =>
    right
    refine ⟨renumber_of_build_err hext hany ?_, Or.inr (Or.inr (Or.inl ?_))⟩
    · unfold buildEdits
      rw [plan_bad_params _ _ _ _ _ hpar]; rfl
    · omega
  rcases plan_outcome i.src i.defs i.refs i.params rows l0 ln l hsplit hl hle hpar.1 hpar.2 with
    ⟨hperr, hreason⟩ | ⟨pl, hp, hsel⟩
  · right
    refine ⟨renumber_of_build_err hext hany (by unfold buildEdits; rw [hperr]; rfl), ?_⟩
    rcases hreason with r1 | r2 | r3 | ⟨ins0, hck, ham, hne⟩
    · -- a selected line exists
      exfalso
      unfold anySelected at hany
      obtain ⟨ds, hds, hsel⟩ := List.any_eq_true.mp hany
      simp only [Bool.and_eq_true, decide_eq_true_eq] at hsel
      have := c.selLen
      have hpos : 0 < (selDefs i).length := List.length_pos_of_mem (mem_selDefs.mpr ⟨hds, hsel⟩)
      omega
    · rw [c.lastEq] at r2
      exact Or.inr (Or.inr (Or.inr (Or.inl (by omega))))
    · rw [c.lastEq] at r3
      by_cases hcol : ∃ x ∈ unselDefs i, i.first ≤ x.1 ∧ x.1 ≤ lastNew i
      · exact Or.inr (Or.inr (Or.inr (Or.inr (Or.inl hcol))))
      · exfalso
        obtain ⟨ins', hsome⟩ := checkLoop_isSome ⟨⟨l0, 0⟩, ⟨ln, l.length⟩⟩ i.params.l0 (lastNew i) (group i.defs) 0 (by
          intro x hx
          obtain ⟨lab, hlab⟩ := (singletons_iff_nodup i.defs).mpr hnd x hx
          refine ⟨lab, hlab, ?_⟩
          have hmem : (x.1, lab) ∈ i.defs := (memG_group i.defs x.1 lab).mp ⟨x.2, hx, by rw [hlab]; simp⟩
          by_cases hon : onSelRows ⟨⟨l0, 0⟩, ⟨ln, l.length⟩⟩ lab
          · exact Or.inl hon
          · right
            intro hr
            exact hcol ⟨(x.1, lab), mem_unselDefs.mpr ⟨hmem, fun hs => hon ((c.onSel hmem).mpr hs)⟩, hr⟩)
        rw [r3] at hsome; cases hsome
    · rw [c.lastEq] at hck
      have hm := (needsMove_iff' hck c).mp hne
      refine Or.inr (Or.inr (Or.inr (Or.inr (Or.inr (Or.inl ⟨hm, ?_⟩)))))
      have : (i.flags % 2 == 1) = false := ham
      have h2 := Nat.mod_two_eq_zero_or_one i.flags
      rcases h2 with h2 | h2
      · exact h2
      · rw [h2] at this; cases this
  · have c' : PlanCtx i rows pl.sel := by rw [hsel]; exact c
    have huniq : ∀ num l1 l2, (num, l1) ∈ i.defs → (num, l2) ∈ i.defs → l1 = l2 := by
      intro num l1 l2 h1 h2
      have hn1 := entry_of_def hnd h1
      have hn2 := entry_of_def hnd h2
      have hkn := keys_nodup_group i.defs
      have : ∀ (m : List (Nat × List Label)), (m.map (·.1)).Nodup → ∀ x y, (num, x) ∈ m → (num, y) ∈ m → x = y := by
        intro m
        induction m with
        | nil => intro _ x y hx; cases hx
        | cons z zs ih =>
          intro hnd x y hx hy
          simp only [List.map_cons, List.nodup_cons] at hnd
          rcases List.mem_cons.mp hx with hx | hx <;> rcases List.mem_cons.mp hy with hy | hy
          · rw [← hx] at hy; injection hy with _ hy; exact hy.symm
          · exact absurd (List.mem_map_of_mem (f := (·.1)) hy) (by rw [← hx] at hnd; exact hnd.1)
          · exact absurd (List.mem_map_of_mem (f := (·.1)) hx) (by rw [← hy] at hnd; exact hnd.1)
          · exact ih hnd.2 x y hx hy
      have := this _ hkn _ _ hn1 hn2
      injection this
    by_cases hmv : pl.ins = pl.sel.s.line
    · left
      obtain ⟨out, hout⟩ := noMove_applies hdoc hsrc hlab hupdF hp
      have hb : buildEdits i.src i.defs i.refs (some ⟨⟨l0, 0⟩, ⟨ln + 1, 0⟩⟩) i.params =
          .ok (pl.selEdits ++ pl.unselEdits) := by
        unfold buildEdits
        simp only [hp, Res.bind]
        rw [if_neg (by simpa using hmv)]
      exact ⟨out, by rw [renumber_of_apply hext hany hb]; exact hout⟩
    · have hsl : pl.sel.s.line = l0 ∧ pl.sel.e.line = ln := by rw [hsel]; exact ⟨rfl, rfl⟩
      obtain ⟨B, updated, last, mc, hbe, _, _⟩ :=
        move_setup hdoc hsrc hlab hrows hupdF huniq hext (by rw [hsl.1, hsl.2]) c'.hab hp hmv
      by_cases hbad : t = false ∧ pl.sel.e.line + 1 = rows.length
      · right
        obtain ⟨ht, hbL⟩ := hbad
        subst ht
        refine ⟨?_, Or.inr (Or.inr (Or.inr (Or.inr (Or.inr (Or.inr ⟨(needsMove_iff hp hsplit c').mp hmv, rfl, ?_⟩)))))⟩
        · rw [renumber_of_apply hext hany hbe, hsrc]
          exact mc.applyEdits_move_err hdoc crlf hbL
        · obtain ⟨db, hdb, hrowb⟩ := c'.hdb
          refine ⟨db, mem_selDefs.mpr ⟨hdb, (c'.hinSel db hdb).mp ?_⟩, by omega⟩
          have := c'.hab
          simp only [inSel, Bool.and_eq_true, decide_eq_true_eq]; omega
      · left
        have hokk : t = true ∨ pl.sel.e.line + 1 < rows.length := by
          have := mc.hbL
          cases t with
          | true => exact Or.inl rfl
          | false => right; simp at hbad; omega
        obtain ⟨N, _, _, _, hres⟩ := mc.applyEdits_move hdoc crlf hokk
        exact ⟨_, by rw [renumber_of_apply hext hany hbe, hsrc]; exact hres⟩

/-- **Accepted ⟺ no refusal condition.** -/
theorem accepted_iff (i : Input) (d : List Nat) (rows : List (List Nat)) (t crlf : Bool)
    (hdoc : IsDoc d rows t) (hsrc : i.src = if crlf then lfToCrlf d else d)
    (hlab : labelsOK i.src i.defs i.refs = true)
    (hmono : ∀ d1 ∈ i.defs, ∀ d2 ∈ i.defs, d1.2.rng.s.line ≤ d2.2.rng.s.line → d1.1 ≤ d2.1)
    (hrows : ∀ x ∈ i.defs, x.2.rng.s.line < 0x10000)
    (hupdF : i.flags / 2 % 2 = 0) :
    (∃ out, renumber i = .ok out) ↔ ¬ Refuse i rows t := by
  constructor
  · rintro ⟨out, h⟩
    exact accepted_not_refuse i out d rows t crlf hdoc hsrc hlab hmono hrows hupdF h
  · intro hn
    rcases renumber_outcome i d rows t crlf hdoc hsrc hlab hmono hrows hupdF with h | ⟨_, h⟩
    · exact h
    · exact absurd h hn

/-- **The refusal clause, in full** ("a request that would duplicate a line number, exceed 63999 or interleave lines is
refused"), both dialects (`maxNum` = 63999 Applesoft, 32767 Integer BASIC).  For a program whose labels satisfy
`labelsOK` and whose numbers ascend with the rows (references being updated), `renumber` returns `Err` **exactly** when
`Refuse` holds: no line in `[beg,end)`; a line number twice in the source; `first`/`step` out of range; the last new
number above `maxNum`; an unselected number inside `[first, last]` (duplicate or interleave); the selected lines would
have to move and REORDER is not set (interleave); or — the one refusal that is not called for — REORDER is set, the last
row has to move and the text has no final newline.  In every other case the request is accepted; it never panics. -/
theorem refused_iff (i : Input) (d : List Nat) (rows : List (List Nat)) (t crlf : Bool)
    (hdoc : IsDoc d rows t) (hsrc : i.src = if crlf then lfToCrlf d else d)
    (hlab : labelsOK i.src i.defs i.refs = true)
    (hmono : ∀ d1 ∈ i.defs, ∀ d2 ∈ i.defs, d1.2.rng.s.line ≤ d2.2.rng.s.line → d1.1 ≤ d2.1)
    (hrows : ∀ x ∈ i.defs, x.2.rng.s.line < 0x10000)
    (hupdF : i.flags / 2 % 2 = 0) :
    (renumber i = .err ↔ Refuse i rows t) ∧ renumber i ≠ .panic := by
  have hout := renumber_outcome i d rows t crlf hdoc hsrc hlab hmono hrows hupdF
  refine ⟨⟨?_, ?_⟩, ?_⟩
  · intro herr
    rcases hout with ⟨out, h⟩ | ⟨_, h⟩
    · rw [herr] at h; cases h
    · exact h
  · intro hr
    rcases hout with ⟨out, h⟩ | ⟨h, _⟩
    · exact absurd hr (accepted_not_refuse i out d rows t crlf hdoc hsrc hlab hmono hrows hupdF h)
    · exact h
  · intro hp
    rcases hout with ⟨out, h⟩ | ⟨h, _⟩ <;> rw [hp] at h <;> cases h

/-- the caller's program after the operation: the returned text if the request is accepted; a refused request returns
no text (`Err`), the caller keeps what it passed in (`renumber` takes `&str`; the CLI prints nothing, the language
servers answer with an error and no edits) -/
def programAfter (i : Input) : List Nat :=
  match renumber i with
  | .ok out => out
  | _ => i.src

/-- **… and the program is returned unmodified**: whenever the request is not accepted — in particular under every
condition of `Refuse` — the program is what it was. -/
theorem refused_unmodified (i : Input) (h : ¬ ∃ out, renumber i = .ok out) : programAfter i = i.src := by
  unfold programAfter
  cases hr : renumber i with
  | ok out => exact absurd ⟨out, hr⟩ h
  | err => rfl
  | panic => rfl

/-- instances of every refusal condition on `10 GOTO 30 / 20 END / 30 GOTO 10` (Applesoft bounds) and of the Integer
BASIC bound: each is refused by the model, and the program is unmodified -/
example :
    let base := exIn
    -- empty selection, bad step, beyond 63999 (64000 would be the 2nd new number), collision with the unselected 10,
    -- interleave (20.. → 5 needs a move, REORDER off); accepted with REORDER on
    renumber { base with beg := 21, end_ := 29 } = .err ∧
    renumber { base with step := 0 } = .err ∧
    renumber { base with first := 63999, step := 1 } = .err ∧
    renumber { base with first := 63998, step := 1 } = .ok
      [49,48,32,71,79,84,79,32,54,51,57,57,57,10,54,51,57,57,56,32,69,78,68,10,54,51,57,57,57,32,71,79,84,79,32,49,48,10] ∧
    renumber { base with first := 5, step := 5 } = .err ∧
    renumber { base with first := 1, step := 1 } = .err ∧
    renumber { base with first := 1, step := 1, flags := 1 } = .ok
      [49,32,69,78,68,10,50,32,71,79,84,79,32,49,48,10,49,48,32,71,79,84,79,32,50,10,10] ∧
    -- Integer BASIC: 32767 is the last number
    renumber { base with first := 32767, step := 1, maxNum := 32767 } = .err ∧
    renumber { base with first := 32766, step := 1, maxNum := 32767 } = .ok
      [49,48,32,71,79,84,79,32,51,50,55,54,55,10,51,50,55,54,54,32,69,78,68,10,51,50,55,54,55,32,71,79,84,79,32,49,48,10] ∧
    programAfter { base with first := 5, step := 5 } = base.src := by decide

end A2Verif.C16
