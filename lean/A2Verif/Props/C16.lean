import A2Verif.Lemmas.Renumber
import A2Verif.Lemmas.RenumberText
import A2Verif.Lemmas.RenumberSel
/-!
# Property C16 — renumbering preserves program structure

All statements are about `Model.Renumber` (transcription of `linenum.rs`, `*/renumber.rs`, `lang/mod.rs`),
tied to the real code by the harness family `c16` (functional: same gathered labels in, same text / refusal
out).  `renumber` is the code **with** `/verif/proposed_fixes/renumber-empty-selection.diff`; `renumberLegacy`
is HEAD 27d20bf, for which the property is false (`legacy_empty_selection_violates`).

Reading guide (clauses of the property):
* refusal      — `accepts_only_in_bounds`, `accepts_only_without_collision`, `accepts_only_unique_primaries`,
                 `accepts_move_only_if_allowed`, `empty_selection_refused`, `refusal_returns_nothing`
* (ii)         — `selected_rows_are_the_requested_lines`, `selected_primaries_sequence`
* (iii)        — `edits_char`, `ref_follows`, `only_label_edits`
* (iv)         — `bottom_up_eq_simultaneous`
* (i)          — `one_edit_on_one_row`, `apply_loop_rows_partial` (see the docstring for what is missing)
-/
namespace A2Verif.C16
open A2Verif.Model.Renumber A2Verif.Lemmas.Renumber

/-! ## a concrete instance used for the non-vacuity examples

```
10 GOTO 30          10 GOTO 110
20 END       ==>    100 END          (beg=20, end=64000, first=100, step=10)
30 GOTO 10          110 GOTO 10
```
-/
def exIn : Input :=
  { src := [49,48,32,71,79,84,79,32,51,48,10,50,48,32,69,78,68,10,51,48,32,71,79,84,79,32,49,48,10],
    defs := [(10, ⟨⟨⟨0,0⟩,⟨0,3⟩⟩,0,1⟩), (20, ⟨⟨⟨1,0⟩,⟨1,3⟩⟩,0,1⟩), (30, ⟨⟨⟨2,0⟩,⟨2,3⟩⟩,0,1⟩)],
    refs := [(30, ⟨⟨⟨0,8⟩,⟨0,10⟩⟩,0,0⟩), (10, ⟨⟨⟨2,8⟩,⟨2,10⟩⟩,0,0⟩)],
    beg := 20, end_ := 64000, first := 100, step := 10, flags := 0, maxNum := 63999 }

def exOut : List Nat :=
  [49,48,32,71,79,84,79,32,49,49,48,10,49,48,48,32,69,78,68,10,49,49,48,32,71,79,84,79,32,49,48,10]

/-- the instance is accepted, its labels satisfy `LabelsOK`, and the result is the expected text -/
example : renumber exIn = .ok exOut ∧ labelsOK exIn.src exIn.defs exIn.refs = true := by decide

/-! ## inversion: what an accepted request went through -/

theorem buildEdits_ok_inv {allTxt : List Nat} {defs refs : List (Nat × Label)} {ext : Option Range} {p : Params}
    {edits : List Edit} (h : buildEdits allTxt defs refs ext p = .ok edits) :
    ∃ pl, plan allTxt defs refs ext p = .ok pl ∧
      ((pl.ins = pl.sel.s.line ∧ edits = pl.selEdits ++ pl.unselEdits) ∨
       (pl.ins ≠ pl.sel.s.line ∧ ∃ updated, applyEdits pl.selTxt pl.selEdits pl.sel.s.line = .ok updated ∧
          edits = [⟨⟨pl.endPos, pl.endPos⟩, pl.lineSep⟩, ⟨⟨⟨pl.ins, 0⟩, ⟨pl.ins, 0⟩⟩, updated⟩] ++
            (rangeList pl.sel.s.line pl.sel.e.line).map (fun l => (⟨⟨⟨l, 0⟩, ⟨l + 1, 0⟩⟩, []⟩ : Edit)) ++
            pl.unselEdits)) := by
  unfold buildEdits at h
  cases hp : plan allTxt defs refs ext p with
  | err => simp [hp, Res.bind] at h
  | panic => simp [hp, Res.bind] at h
  | ok pl =>
    refine ⟨pl, rfl, ?_⟩
    simp only [hp, Res.bind] at h
    split at h
    · rename_i hne
      right
      cases hu : applyEdits pl.selTxt pl.selEdits pl.sel.s.line with
      | err => simp [hu] at h
      | panic => simp [hu] at h
      | ok updated =>
        simp only [hu] at h
        injection h with h
        exact ⟨hne, updated, rfl, h.symm⟩
    · rename_i heq
      left
      injection h with h
      exact ⟨by simpa using heq, h.symm⟩

/-- an accepted request: some line number lies in `[beg,end)`, `plan` succeeded, `build_edits` returned edits
and `apply_edits` applied them -/
theorem renumber_ok_inv {i : Input} {out : List Nat} (h : renumber i = .ok out) :
    ∃ ext pl edits, extSelOf i.defs i.beg i.end_ = some ext ∧ anySelected i.defs i.beg i.end_ = true ∧
      plan i.src i.defs i.refs ext i.params = .ok pl ∧
      buildEdits i.src i.defs i.refs ext i.params = .ok edits ∧
      applyEdits i.src edits 0 = .ok out := by
  unfold renumber renumberWith at h
  split at h
  · cases h
  · rename_i ext hext
    cases hany : anySelected i.defs i.beg i.end_ with
    | false => simp [hany] at h
    | true =>
      simp only [hany, Bool.not_false, Bool.not_true, Bool.and_false, Bool.false_eq_true, ↓reduceIte] at h
      split at h
      · rename_i edits hb
        obtain ⟨pl, hp, _⟩ := buildEdits_ok_inv hb
        refine ⟨ext, pl, edits, hext, rfl, hp, hb, ?_⟩
        split at h
        · rename_i ans ha; injection h with h; rw [← h]; exact ha
        · cases h
        · cases h
      · cases h
      · cases h

/-! ## refusals

Every refusal of the Rust is an `Err(..)`: `renumber` takes `&str` and returns `Result<String,_>`, so a
refused request returns no text at all and cannot modify the caller's program (`refusal_returns_nothing`;
the harness oracle `refusal-unmodified` re-checks the source buffer).  The theorems below are the
contrapositives "accepted ⇒ the condition that must be refused does not hold". -/

/-- a result is either a text or carries nothing -/
theorem refusal_returns_nothing (i : Input) : (∃ out, renumber i = .ok out) ∨ renumber i = .err ∨ renumber i = .panic := by
  cases h : renumber i with
  | ok out => exact Or.inl ⟨out, rfl⟩
  | err => exact Or.inr (Or.inl rfl)
  | panic => exact Or.inr (Or.inr rfl)

/-- **exceeds 63999 (32767 for Integer) ⇒ refused**: if the request is accepted every new number is within
`[0,maxNum]`. -/
theorem accepts_only_in_bounds {allTxt : List Nat} {defs refs : List (Nat × Label)} {ext : Option Range}
    {p : Params} {pl : Plan} (h : plan allTxt defs refs ext p = .ok pl) :
    ∀ kn ∈ pl.mapping, kn.2 ≤ p.maxNum := by
  have f := plan_ok_inv h
  intro kn hkn
  have hv : kn.2 ∈ pl.mapping.map (·.2) := List.mem_map_of_mem hkn
  rw [f.mapping, mkMapping_vals] at hv
  obtain ⟨k, hk, hkeq⟩ := List.mem_map.mp hv
  rw [← hkeq]
  have hk' : k < (selGroup pl.sel defs).length := by simpa using hk
  have hb := f.bound
  unfold lastNum at hb
  have : k * p.dl ≤ p.dl * ((selGroup pl.sel defs).length - 1) := by
    rw [Nat.mul_comm]; exact Nat.mul_le_mul_left _ (by omega)
  omega

example : (plan exIn.src exIn.defs exIn.refs (some ⟨⟨1,0⟩,⟨3,0⟩⟩) exIn.params).bind (fun pl => .ok pl.mapping)
    = .ok [(20,100),(30,110)] := by decide

/-- **duplicate / interleave ⇒ refused**: if the request is accepted, no line outside the selected rows has a
number inside `[first, last]` (so no new number equals an unselected number, and no unselected line lies
between two renumbered lines). -/
theorem accepts_only_without_collision {allTxt : List Nat} {defs refs : List (Nat × Label)} {ext : Option Range}
    {p : Params} {pl : Plan} (h : plan allTxt defs refs ext p = .ok pl) :
    ∀ num lab, (num, lab) ∈ defs → ¬ onSelRows pl.sel lab → ¬ (p.l0 ≤ num ∧ num ≤ lastNum p pl.sel defs) := by
  have f := plan_ok_inv h
  obtain ⟨ins0, hck, _⟩ := f.check
  intro num lab hmem hout
  obtain ⟨vs, hvs, hlab⟩ := (memG_group defs num lab).mpr hmem
  obtain ⟨i0, hi0, hor⟩ := checkLoop_some hck _ hvs
  dsimp only at hi0 hor
  subst hi0
  simp only [List.mem_singleton] at hlab
  subst hlab
  rcases hor with h1 | h1
  · exact absurd h1 hout
  · exact h1

/-- **duplicated primary in the source ⇒ refused** -/
theorem accepts_only_unique_primaries {i : Input} {out : List Nat} (h : renumber i = .ok out) :
    ∀ num l1 l2, (num, l1) ∈ i.defs → (num, l2) ∈ i.defs → l1 = l2 := by
  obtain ⟨ext, pl, edits, hext, _, _, _, _⟩ := renumber_ok_inv h
  unfold extSelOf at hext
  cases hs : selRows i.beg i.end_ (group i.defs) 0x10000 0 with
  | none => simp [hs] at hext
  | some r =>
    intro num l1 l2 h1 h2
    obtain ⟨vs1, hv1, hl1⟩ := (memG_group i.defs num l1).mpr h1
    obtain ⟨vs2, hv2, hl2⟩ := (memG_group i.defs num l2).mpr h2
    obtain ⟨a, ha⟩ := selRows_some hs _ hv1
    obtain ⟨b, hb⟩ := selRows_some hs _ hv2
    dsimp only at ha hb
    subst ha hb
    simp only [List.mem_singleton] at hl1 hl2
    subst hl1 hl2
    -- keys of the grouped map are pairwise distinct, so both entries are the same entry
    have hnd := keys_nodup_group i.defs
    have : ∀ (m : List (Nat × List Label)), (m.map (·.1)).Nodup → ∀ x y, (num, x) ∈ m → (num, y) ∈ m → x = y := by
      intro m
      induction m with
      | nil => intro _ x y hx; cases hx
      | cons z zs ih =>
        intro hnd x y hx hy
        simp only [List.map_cons, List.nodup_cons] at hnd
        rcases List.mem_cons.mp hx with hx | hx <;> rcases List.mem_cons.mp hy with hy | hy
        · rw [← hx] at hy; injection hy with _ hy; exact hy.symm
        · exact absurd (List.mem_map_of_mem (f := (·.1)) hy) (by rw [← hx] at hnd; exact hnd.1)
        · exact absurd (List.mem_map_of_mem (f := (·.1)) hx) (by rw [← hy] at hnd; exact hnd.1)
        · exact ih hnd.2 x y hx hy
    have := this _ hnd _ _ hv1 hv2
    injection this

/-- **move needed but not allowed ⇒ refused**: without the REORDER flag an accepted request leaves the
selection where it is, and the edit list consists of label replacements only. -/
theorem accepts_move_only_if_allowed {allTxt : List Nat} {defs refs : List (Nat × Label)} {ext : Option Range}
    {p : Params} {edits : List Edit} (hm : p.allowMove = false)
    (h : buildEdits allTxt defs refs ext p = .ok edits) :
    ∃ pl, plan allTxt defs refs ext p = .ok pl ∧ pl.ins = pl.sel.s.line ∧ edits = pl.selEdits ++ pl.unselEdits := by
  obtain ⟨pl, hp, hor⟩ := buildEdits_ok_inv h
  refine ⟨pl, hp, ?_⟩
  have := (plan_ok_inv hp).move hm
  rcases hor with h1 | h1
  · exact h1
  · exact absurd this h1.1

/-- **empty selection ⇒ refused** (the proposed fix): when no line number lies in `[beg,end)` the request is
refused. -/
theorem empty_selection_refused (i : Input) (h : ∀ d ∈ i.defs, ¬ (i.beg ≤ d.1 ∧ d.1 < i.end_)) :
    renumber i = .err := by
  have hany : anySelected i.defs i.beg i.end_ = false := by
    unfold anySelected
    rw [List.any_eq_false]
    intro d hd
    have := h d hd
    simpa using this
  unfold renumber renumberWith
  split
  · rfl
  · simp [hany]

/-- the request of DESIGN §9 item 23: lines 10,20,30; renumber the (empty) range 21..29 starting at 500 -/
def exEmpty : Input :=
  { src := [49,48,32,65,10,50,48,32,66,10,51,48,32,67],      -- "10 A\n20 B\n30 C"
    defs := [(10, ⟨⟨⟨0,0⟩,⟨0,3⟩⟩,0,1⟩), (20, ⟨⟨⟨1,0⟩,⟨1,3⟩⟩,0,1⟩), (30, ⟨⟨⟨2,0⟩,⟨2,3⟩⟩,0,1⟩)],
    refs := [], beg := 21, end_ := 29, first := 500, step := 1, flags := 0, maxNum := 63999 }

/-- lines 30,40; renumber the (empty) range 10..20 starting at 5: HEAD selects row 0 -/
def exEmpty2 : Input :=
  { src := [51,48,32,65,10,52,48,32,66],      -- "30 A\n40 B"
    defs := [(30, ⟨⟨⟨0,0⟩,⟨0,3⟩⟩,0,1⟩), (40, ⟨⟨⟨1,0⟩,⟨1,3⟩⟩,0,1⟩)],
    refs := [], beg := 10, end_ := 20, first := 5, step := 1, flags := 0, maxNum := 63999 }

/-- **HEAD violates the property**: no line is selected, yet the request is accepted and every line is
renumbered (`500 A / 501 B / 502 C`), contradicting "all other text is unchanged"; in the second instance
row 0 (`30 A`, not in 10..20) becomes `5 A`.  With the fix the same requests are refused. -/
theorem legacy_empty_selection_violates :
    renumberLegacy exEmpty = .ok [53,48,48,32,65,10,53,48,49,32,66,10,53,48,50,32,67] ∧
    renumberLegacy exEmpty ≠ .ok exEmpty.src ∧
    (∀ d ∈ exEmpty.defs, ¬ (exEmpty.beg ≤ d.1 ∧ d.1 < exEmpty.end_)) ∧
    renumber exEmpty = .err ∧
    renumberLegacy exEmpty2 = .ok [53,32,65,10,52,48,32,66] ∧
    (∀ d ∈ exEmpty2.defs, ¬ (exEmpty2.beg ≤ d.1 ∧ d.1 < exEmpty2.end_)) ∧
    renumber exEmpty2 = .err := by decide

/-! ## (ii) the selected lines carry `first, first+step, …` -/

/-- **Which lines are selected.**  For a program whose numbers ascend with the rows (the documented
precondition of `renumber`; fewer than 65536 rows), an accepted request hands to `build_edits` exactly the rows
whose line number lies in `[beg,end)`. -/
theorem selected_rows_are_the_requested_lines {i : Input} {out : List Nat} (h : renumber i = .ok out)
    (hmono : ∀ d1 ∈ i.defs, ∀ d2 ∈ i.defs, d1.2.rng.s.line ≤ d2.2.rng.s.line → d1.1 ≤ d2.1)
    (hrows : ∀ d ∈ i.defs, d.2.rng.s.line < 0x10000) :
    ∃ l0 ln pl, l0 ≤ ln ∧ plan i.src i.defs i.refs (some ⟨⟨l0, 0⟩, ⟨ln + 1, 0⟩⟩) i.params = .ok pl ∧
      ∀ d ∈ i.defs, (l0 ≤ d.2.rng.s.line ∧ d.2.rng.s.line ≤ ln) ↔ (i.beg ≤ d.1 ∧ d.1 < i.end_) := by
  obtain ⟨ext, pl, edits, hext, hany, hp, _, _⟩ := renumber_ok_inv h
  obtain ⟨l0, ln, rfl, hle, hiff⟩ := extSelOf_spec i.defs i.beg i.end_ ext hext hany hmono hrows
  exact ⟨l0, ln, pl, hle, hp, hiff⟩

example : (∀ d1 ∈ exIn.defs, ∀ d2 ∈ exIn.defs, d1.2.rng.s.line ≤ d2.2.rng.s.line → d1.1 ≤ d2.1) ∧
    (∀ d ∈ exIn.defs, d.2.rng.s.line < 0x10000) ∧
    extSelOf exIn.defs exIn.beg exIn.end_ = some (some ⟨⟨1, 0⟩, ⟨3, 0⟩⟩) := by decide

/-- The primaries found on the selected rows, in ascending order, are mapped to `first + k*step`, and the
label of the `k`-th one is replaced by exactly that number (with its blanks kept). -/
theorem selected_primaries_sequence {allTxt : List Nat} {defs refs : List (Nat × Label)} {ext : Option Range}
    {p : Params} {pl : Plan} (h : plan allTxt defs refs ext p = .ok pl) :
    let keys := (selGroup pl.sel defs).map (·.1)
    keys.Pairwise (· < ·) ∧
    pl.mapping.map (·.1) = keys ∧
    pl.mapping.map (·.2) = (List.range keys.length).map (fun k => p.l0 + k * p.dl) ∧
    (∀ k num lab rest, (selGroup pl.sel defs)[k]? = some (num, lab :: rest) →
      lookup pl.mapping num = some (p.l0 + k * p.dl) ∧ applyMapping (p.l0 + k * p.dl) lab ∈ pl.selEdits) := by
  have f := plan_ok_inv h
  refine ⟨keysSorted_group _, ?_, ?_, ?_⟩
  · rw [f.mapping, mkMapping_keys]
  · rw [f.mapping, mkMapping_vals]
  · intro k num lab rest hk
    have hnd : ((selGroup pl.sel defs).map (·.1)).Nodup := keys_nodup_group _
    have hk' : ((selGroup pl.sel defs).map (·.1))[k]? = some num := by simp [List.getElem?_map, hk]
    have hl := lookup_mkMapping p.l0 p.dl _ hnd k num hk'
    rw [← f.mapping] at hl
    refine ⟨hl, ?_⟩
    rw [f.selEdits]
    apply List.mem_append_left
    exact (mem_primEdits _ _ _).mpr ⟨num, lab, rest, _, List.mem_of_getElem? hk, hl, rfl⟩

example : (plan exIn.src exIn.defs exIn.refs (some ⟨⟨1,0⟩,⟨3,0⟩⟩) exIn.params).bind
    (fun pl => .ok ((selGroup pl.sel exIn.defs).map (·.1))) = .ok [20, 30] := by decide

/-! ## (iii) references follow the renumbered lines, nothing else is edited -/

/-- The complete list of label edits (no move): an edit is either the replacement of a selected primary by
its image, or the replacement of a reference — anywhere in the program — whose number is a renumbered
primary, by that primary's image.  Hence no other reference (missing target, unselected target) and no
text outside the gathered labels is the subject of an edit. -/
theorem edits_char {allTxt : List Nat} {defs refs : List (Nat × Label)} {ext : Option Range}
    {p : Params} {pl : Plan} (h : plan allTxt defs refs ext p = .ok pl) (hu : p.updateRefs = true)
    (hrow : ∀ x ∈ refs, x.2.rng.s.line = x.2.rng.e.line) (e : Edit) :
    e ∈ pl.selEdits ++ pl.unselEdits ↔
      (∃ num lab rest n, (num, lab :: rest) ∈ selGroup pl.sel defs ∧ lookup pl.mapping num = some n ∧
          e = applyMapping n lab) ∨
      (∃ s item n, (s, item) ∈ refs ∧ lookup pl.mapping s = some n ∧ e = applyMapping n item) := by
  have f := plan_ok_inv h
  rw [f.selEdits, f.unselEdits]
  simp only [hu, ↓reduceIte, List.mem_append, mem_primEdits, mem_secEdits]
  unfold selGroup
  simp only [memG_group, List.mem_filter]
  constructor
  · rintro ((h1 | ⟨s, item, n, ⟨hm, _⟩, hl, _, he⟩) | ⟨s, item, n, hm, hl, _, he⟩)
    · exact Or.inl h1
    · exact Or.inr ⟨s, item, n, hm, hl, he⟩
    · exact Or.inr ⟨s, item, n, hm, hl, he⟩
  · rintro (h1 | ⟨s, item, n, hm, hl, he⟩)
    · exact Or.inl (Or.inl h1)
    · have hr := hrow _ hm
      dsimp only at hr
      by_cases hin : inSel pl.sel item = true
      · exact Or.inl (Or.inr ⟨s, item, n, ⟨hm, hin⟩, hl, trivial, he⟩)
      · refine Or.inr ⟨s, item, n, hm, hl, ?_, he⟩
        have hin' : ¬ (pl.sel.s.line ≤ item.rng.s.line ∧ item.rng.s.line ≤ pl.sel.e.line) := by
          simpa [inSel] using hin
        simp only [Bool.or_eq_true, decide_eq_true_eq]
        omega

/-- every reference to the `k`-th renumbered line, wherever it stands, is replaced by `first + k*step` -/
theorem ref_follows {allTxt : List Nat} {defs refs : List (Nat × Label)} {ext : Option Range}
    {p : Params} {pl : Plan} (h : plan allTxt defs refs ext p = .ok pl) (hu : p.updateRefs = true)
    (hrow : ∀ x ∈ refs, x.2.rng.s.line = x.2.rng.e.line)
    (k s : Nat) (item : Label) (hk : ((selGroup pl.sel defs).map (·.1))[k]? = some s) (hm : (s, item) ∈ refs) :
    applyMapping (p.l0 + k * p.dl) item ∈ pl.selEdits ++ pl.unselEdits := by
  have f := plan_ok_inv h
  have hnd : ((selGroup pl.sel defs).map (·.1)).Nodup := keys_nodup_group _
  have hl := lookup_mkMapping p.l0 p.dl _ hnd k s hk
  rw [← f.mapping] at hl
  exact (edits_char h hu hrow _).mpr (Or.inr ⟨s, item, _, hm, hl, rfl⟩)

/-- a reference whose number is not a renumbered primary is not the subject of any edit: every edit comes
from a label whose number is in the mapping -/
theorem only_label_edits {allTxt : List Nat} {defs refs : List (Nat × Label)} {ext : Option Range}
    {p : Params} {pl : Plan} (h : plan allTxt defs refs ext p = .ok pl) (hu : p.updateRefs = true)
    (hrow : ∀ x ∈ refs, x.2.rng.s.line = x.2.rng.e.line) (e : Edit) (he : e ∈ pl.selEdits ++ pl.unselEdits) :
    ∃ num lab n, ((num, lab) ∈ defs ∨ (num, lab) ∈ refs) ∧ num ∈ (selGroup pl.sel defs).map (·.1) ∧
      lookup pl.mapping num = some n ∧ e = applyMapping n lab := by
  have f := plan_ok_inv h
  have key : ∀ num n, lookup pl.mapping num = some n → num ∈ (selGroup pl.sel defs).map (·.1) := by
    intro num n hl
    apply Classical.byContradiction
    intro hn
    have := lookup_none_of_not_mem pl.mapping num (by rw [f.mapping, mkMapping_keys]; exact hn)
    rw [this] at hl; cases hl
  rcases (edits_char h hu hrow e).mp he with ⟨num, lab, rest, n, hm, hl, he⟩ | ⟨s, item, n, hm, hl, he⟩
  · refine ⟨num, lab, n, Or.inl ?_, key _ _ hl, hl, he⟩
    have : MemG (selGroup pl.sel defs) num lab := ⟨lab :: rest, hm, by simp⟩
    unfold selGroup at this
    rw [memG_group] at this
    exact (List.mem_filter.mp this).1
  · exact ⟨s, item, n, Or.inr hm, key _ _ hl, hl, he⟩

example : (plan exIn.src exIn.defs exIn.refs (some ⟨⟨1,0⟩,⟨3,0⟩⟩) exIn.params).bind
    (fun pl => .ok (pl.selEdits ++ pl.unselEdits)) =
      .ok [⟨⟨⟨1,0⟩,⟨1,3⟩⟩, [49,48,48,32]⟩, ⟨⟨⟨2,0⟩,⟨2,3⟩⟩, [49,49,48,32]⟩, ⟨⟨⟨0,8⟩,⟨0,10⟩⟩, [49,49,48]⟩] := by
  decide

/-! ## (iv) bottom-up application = simultaneous substitution -/

/-- **General lemma.**  Applying ascending, pairwise disjoint range edits to a text one after the other,
bottom-up (`apply_edits` applies the last range first, so that earlier offsets stay valid even when a
replacement is longer or shorter than what it replaces), yields the simultaneous substitution
`l[0,s₁) ++ n₁ ++ l[e₁,s₂) ++ n₂ ++ … ++ l[e_k,∞)`: every character outside the ranges is kept, in order, and
every range is replaced by its new text.  By induction on the edit list. -/
theorem bottom_up_eq_simultaneous (l : List Nat) (xs : List E1) (h : Chain 0 l.length xs) :
    seqDesc l xs = substAsc 0 l xs := seqDesc_eq_subst l xs h

/-- instance with a growing and a shrinking replacement: `10 GOTO 30` ↦ `100 GOTO 5` -/
example : Chain 0 10 [⟨0, 2, [49,48,48]⟩, ⟨8, 10, [53]⟩] ∧
    seqDesc [49,48,32,71,79,84,79,32,51,48] [⟨0, 2, [49,48,48]⟩, ⟨8, 10, [53]⟩]
      = [49,48,48,32,71,79,84,79,32,53] := by decide

/-! ## (i) the lines stay, only the addressed columns change -/

/-- **One edit, flat text.**  `replace_range` works on the flat text and finds its offsets by summing the
lengths of the preceding lines; on a text of `\n`-terminated rows (without `\r`) a range on row `r` is
resolved to exactly the characters `[s,e)` of that row, whatever the lengths of the rows before it: the result
is the text of the same rows with row `r` replaced by `row[0,s) ++ new ++ row[e,∞)`. -/
theorem one_edit_on_one_row (ls : List (List Nat)) (h : ∀ l ∈ ls, NoNl l) (r s e : Nat) (new : List Nat)
    (hnew : NoNl new) (l : List Nat) (hr : ls[r]? = some l) (hse : s ≤ e) (hel : e ≤ l.length) :
    replaceRange (joinT ls) ⟨⟨r, s⟩, ⟨r, e⟩⟩ new = .ok (joinT (ls.set r (replace1 l ⟨s, e, new⟩))) :=
  replaceRange_row ls h r s e new hnew l hr hse hel

/-- **The `apply_edits` loop keeps the lines** (partial form of clause (i)).  On a text of `\n`-terminated
rows, a sequence of single-row edits, each inside its row at the moment it is applied (`ValidSeq`), is
applied without error or panic, the number of rows is unchanged, and the resulting text is that of the rows
after the row-wise replacements; together with `bottom_up_eq_simultaneous` (per row) and `edits_char` (which
ranges, which new texts) this is "same lines, same statements, same order, only label columns change".

FULL (not proved, covered by the correspondence and by the `exact-text` oracle): for `renumber i = .ok out`
without move and `labelsOK i.src i.defs i.refs`, `splitLines out` has the rows of `splitLines i.src` with row
`r` replaced by `substAsc 0 row (label edits of row r, ascending)`.  Missing links: (a) `sortDesc` returns the
edits in descending `(row, column)` order and label edits in that order form a `ValidSeq` (each row's edits a
`Chain`); (b) a last line without `\n` and the CRLF wrapper of `apply_edits`
(`crlfToLf` before / `lfToCrlf` after); (c) the move path (insertion of the pre-edited block, row deletions). -/
theorem apply_loop_rows_partial (ls : List (List Nat)) (h : ∀ l ∈ ls, NoNl l) (es : List Edit)
    (hv : ValidSeq ls es) :
    applyLoop 0 es (joinT ls) = .ok (joinT (es.foldl rowsStep ls)) ∧
      (es.foldl rowsStep ls).length = ls.length :=
  applyLoop_rows ls h es hv

/-- the running example: its three label edits in the order `apply_edits` applies them are a `ValidSeq` on the
three rows, and the loop yields the expected text -/
example :
    let rows := [[49,48,32,71,79,84,79,32,51,48], [50,48,32,69,78,68], [51,48,32,71,79,84,79,32,49,48]]
    let es : List Edit := [⟨⟨⟨2,0⟩,⟨2,3⟩⟩, [49,49,48,32]⟩, ⟨⟨⟨1,0⟩,⟨1,3⟩⟩, [49,48,48,32]⟩, ⟨⟨⟨0,8⟩,⟨0,10⟩⟩, [49,49,48]⟩]
    joinT rows = exIn.src ∧
    sortDesc [⟨⟨⟨1,0⟩,⟨1,3⟩⟩, [49,48,48,32]⟩, ⟨⟨⟨2,0⟩,⟨2,3⟩⟩, [49,49,48,32]⟩, ⟨⟨⟨0,8⟩,⟨0,10⟩⟩, [49,49,48]⟩] = es ∧
    ValidSeq rows es ∧ joinT (es.foldl rowsStep rows) = exOut := by
  refine ⟨by decide, by decide, ?_, by decide⟩
  refine .cons ⟨rfl, by unfold NoNl; decide, _, rfl, by decide, by decide⟩ ?_
  refine .cons ⟨rfl, by unfold NoNl; decide, _, rfl, by decide, by decide⟩ ?_
  refine .cons ⟨rfl, by unfold NoNl; decide, _, rfl, by decide, by decide⟩ ?_
  exact .nil _

end A2Verif.C16
