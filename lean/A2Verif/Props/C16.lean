import A2Verif.Lemmas.Renumber
import A2Verif.Lemmas.RenumberText
import A2Verif.Lemmas.RenumberSel
import A2Verif.Lemmas.RenumberFinal
import A2Verif.Lemmas.RenumberMove
/-!
# Property C16 — renumbering preserves program structure

All statements are about `Model.Renumber` (transcription of `linenum.rs`, `*/renumber.rs`, `lang/mod.rs`),
tied to the real code by the harness family `c16` (functional: same gathered labels in, same text / refusal
out).  `renumber` is the code **with** `/verif/proposed_fixes/renumber-empty-selection.diff`; `renumberLegacy`
is HEAD 27d20bf, for which the property is false (`legacy_empty_selection_violates`).

Reading guide (clauses of the property):
* refusal      — `accepts_only_in_bounds`, `accepts_only_without_collision`, `accepts_only_unique_primaries`,
                 `accepts_move_only_if_allowed`, `empty_selection_refused`, `refusal_returns_nothing`
* (ii)         — `selected_rows_are_the_requested_lines`, `selected_primaries_sequence`
* (iii)        — `edits_char`, `ref_follows`, `only_label_edits`
* (iv)         — `bottom_up_eq_simultaneous`
* (i)–(iv) as one theorem, no move — `renumber_correct`
* move path    — `moved_block_partial` (the inserted block; the placement of the block is what is missing)
* building blocks of (i) — `one_edit_on_one_row`, `apply_loop_rows_partial`
-/
namespace A2Verif.C16
open A2Verif.Model.Renumber A2Verif.Lemmas.Renumber

/-! ## a concrete instance used for the non-vacuity examples

```
10 GOTO 30          10 GOTO 110
20 END       ==>    100 END          (beg=20, end=64000, first=100, step=10)
30 GOTO 10          110 GOTO 10
```
-/
def exIn : Input :=
  { src := [49,48,32,71,79,84,79,32,51,48,10,50,48,32,69,78,68,10,51,48,32,71,79,84,79,32,49,48,10],
    defs := [(10, ⟨⟨⟨0,0⟩,⟨0,3⟩⟩,0,1⟩), (20, ⟨⟨⟨1,0⟩,⟨1,3⟩⟩,0,1⟩), (30, ⟨⟨⟨2,0⟩,⟨2,3⟩⟩,0,1⟩)],
    refs := [(30, ⟨⟨⟨0,8⟩,⟨0,10⟩⟩,0,0⟩), (10, ⟨⟨⟨2,8⟩,⟨2,10⟩⟩,0,0⟩)],
    beg := 20, end_ := 64000, first := 100, step := 10, flags := 0, maxNum := 63999 }

def exOut : List Nat :=
  [49,48,32,71,79,84,79,32,49,49,48,10,49,48,48,32,69,78,68,10,49,49,48,32,71,79,84,79,32,49,48,10]

/-- the instance is accepted, its labels satisfy `LabelsOK`, and the result is the expected text -/
example : renumber exIn = .ok exOut ∧ labelsOK exIn.src exIn.defs exIn.refs = true := by decide

/-! ## inversion: what an accepted request went through -/

theorem buildEdits_ok_inv {allTxt : List Nat} {defs refs : List (Nat × Label)} {ext : Option Range} {p : Params}
    {edits : List Edit} (h : buildEdits allTxt defs refs ext p = .ok edits) :
    ∃ pl, plan allTxt defs refs ext p = .ok pl ∧
      ((pl.ins = pl.sel.s.line ∧ edits = pl.selEdits ++ pl.unselEdits) ∨
       (pl.ins ≠ pl.sel.s.line ∧ ∃ updated, applyEdits pl.selTxt pl.selEdits pl.sel.s.line = .ok updated ∧
          edits = [⟨⟨pl.endPos, pl.endPos⟩, pl.lineSep⟩, ⟨⟨⟨pl.ins, 0⟩, ⟨pl.ins, 0⟩⟩, updated⟩] ++
            (rangeList pl.sel.s.line pl.sel.e.line).map (fun l => (⟨⟨⟨l, 0⟩, ⟨l + 1, 0⟩⟩, []⟩ : Edit)) ++
            pl.unselEdits)) := by
  unfold buildEdits at h
  cases hp : plan allTxt defs refs ext p with
  | err => simp [hp, Res.bind] at h
  | panic => simp [hp, Res.bind] at h
  | ok pl =>
    refine ⟨pl, rfl, ?_⟩
    simp only [hp, Res.bind] at h
    split at h
    · rename_i hne
      right
      cases hu : applyEdits pl.selTxt pl.selEdits pl.sel.s.line with
      | err => simp [hu] at h
      | panic => simp [hu] at h
      | ok updated =>
        simp only [hu] at h
        injection h with h
        exact ⟨hne, updated, rfl, h.symm⟩
    · rename_i heq
      left
      injection h with h
      exact ⟨by simpa using heq, h.symm⟩

/-- an accepted request: some line number lies in `[beg,end)`, `plan` succeeded, `build_edits` returned edits
and `apply_edits` applied them -/
theorem renumber_ok_inv {i : Input} {out : List Nat} (h : renumber i = .ok out) :
    ∃ ext pl edits, extSelOf i.defs i.beg i.end_ = some ext ∧ anySelected i.defs i.beg i.end_ = true ∧
      plan i.src i.defs i.refs ext i.params = .ok pl ∧
      buildEdits i.src i.defs i.refs ext i.params = .ok edits ∧
      applyEdits i.src edits 0 = .ok out := by
  unfold renumber renumberWith at h
  split at h
  · cases h
  · rename_i ext hext
    cases hany : anySelected i.defs i.beg i.end_ with
    | false => simp [hany] at h
    | true =>
      simp only [hany, Bool.not_false, Bool.not_true, Bool.and_false, Bool.false_eq_true, ↓reduceIte] at h
      split at h
      · rename_i edits hb
        obtain ⟨pl, hp, _⟩ := buildEdits_ok_inv hb
        refine ⟨ext, pl, edits, hext, rfl, hp, hb, ?_⟩
        split at h
        · rename_i ans ha; injection h with h; rw [← h]; exact ha
        · cases h
        · cases h
      · cases h
      · cases h

/-! ## refusals

Every refusal of the Rust is an `Err(..)`: `renumber` takes `&str` and returns `Result<String,_>`, so a
refused request returns no text at all and cannot modify the caller's program (`refusal_returns_nothing`;
the harness oracle `refusal-unmodified` re-checks the source buffer).  The theorems below are the
contrapositives "accepted ⇒ the condition that must be refused does not hold". -/

/-- a result is either a text or carries nothing -/
theorem refusal_returns_nothing (i : Input) : (∃ out, renumber i = .ok out) ∨ renumber i = .err ∨ renumber i = .panic := by
  cases h : renumber i with
  | ok out => exact Or.inl ⟨out, rfl⟩
  | err => exact Or.inr (Or.inl rfl)
  | panic => exact Or.inr (Or.inr rfl)

/-- **exceeds 63999 (32767 for Integer) ⇒ refused**: if the request is accepted every new number is within
`[0,maxNum]`. -/
theorem accepts_only_in_bounds {allTxt : List Nat} {defs refs : List (Nat × Label)} {ext : Option Range}
    {p : Params} {pl : Plan} (h : plan allTxt defs refs ext p = .ok pl) :
    ∀ kn ∈ pl.mapping, kn.2 ≤ p.maxNum := by
  have f := plan_ok_inv h
  intro kn hkn
  have hv : kn.2 ∈ pl.mapping.map (·.2) := List.mem_map_of_mem hkn
  rw [f.mapping, mkMapping_vals] at hv
  obtain ⟨k, hk, hkeq⟩ := List.mem_map.mp hv
  rw [← hkeq]
  have hk' : k < (selGroup pl.sel defs).length := by simpa using hk
  have hb := f.bound
  unfold lastNum at hb
  have : k * p.dl ≤ p.dl * ((selGroup pl.sel defs).length - 1) := by
    rw [Nat.mul_comm]; exact Nat.mul_le_mul_left _ (by omega)
  omega

example : (plan exIn.src exIn.defs exIn.refs (some ⟨⟨1,0⟩,⟨3,0⟩⟩) exIn.params).bind (fun pl => .ok pl.mapping)
    = .ok [(20,100),(30,110)] := by decide

/-- **duplicate / interleave ⇒ refused**: if the request is accepted, no line outside the selected rows has a
number inside `[first, last]` (so no new number equals an unselected number, and no unselected line lies
between two renumbered lines). -/
theorem accepts_only_without_collision {allTxt : List Nat} {defs refs : List (Nat × Label)} {ext : Option Range}
    {p : Params} {pl : Plan} (h : plan allTxt defs refs ext p = .ok pl) :
    ∀ num lab, (num, lab) ∈ defs → ¬ onSelRows pl.sel lab → ¬ (p.l0 ≤ num ∧ num ≤ lastNum p pl.sel defs) := by
  have f := plan_ok_inv h
  obtain ⟨ins0, hck, _⟩ := f.check
  intro num lab hmem hout
  obtain ⟨vs, hvs, hlab⟩ := (memG_group defs num lab).mpr hmem
  obtain ⟨i0, hi0, hor⟩ := checkLoop_some hck _ hvs
  dsimp only at hi0 hor
  subst hi0
  simp only [List.mem_singleton] at hlab
  subst hlab
  rcases hor with h1 | h1
  · exact absurd h1 hout
  · exact h1

/-- **duplicated primary in the source ⇒ refused** -/
theorem accepts_only_unique_primaries {i : Input} {out : List Nat} (h : renumber i = .ok out) :
    ∀ num l1 l2, (num, l1) ∈ i.defs → (num, l2) ∈ i.defs → l1 = l2 := by
  obtain ⟨ext, pl, edits, hext, _, _, _, _⟩ := renumber_ok_inv h
  unfold extSelOf at hext
  cases hs : selRows i.beg i.end_ (group i.defs) 0x10000 0 with
  | none => simp [hs] at hext
  | some r =>
    intro num l1 l2 h1 h2
    obtain ⟨vs1, hv1, hl1⟩ := (memG_group i.defs num l1).mpr h1
    obtain ⟨vs2, hv2, hl2⟩ := (memG_group i.defs num l2).mpr h2
    obtain ⟨a, ha⟩ := selRows_some hs _ hv1
    obtain ⟨b, hb⟩ := selRows_some hs _ hv2
    dsimp only at ha hb
    subst ha hb
    simp only [List.mem_singleton] at hl1 hl2
    subst hl1 hl2
    -- keys of the grouped map are pairwise distinct, so both entries are the same entry
    have hnd := keys_nodup_group i.defs
    have : ∀ (m : List (Nat × List Label)), (m.map (·.1)).Nodup → ∀ x y, (num, x) ∈ m → (num, y) ∈ m → x = y := by
      intro m
      induction m with
      | nil => intro _ x y hx; cases hx
      | cons z zs ih =>
        intro hnd x y hx hy
        simp only [List.map_cons, List.nodup_cons] at hnd
        rcases List.mem_cons.mp hx with hx | hx <;> rcases List.mem_cons.mp hy with hy | hy
        · rw [← hx] at hy; injection hy with _ hy; exact hy.symm
        · exact absurd (List.mem_map_of_mem (f := (·.1)) hy) (by rw [← hx] at hnd; exact hnd.1)
        · exact absurd (List.mem_map_of_mem (f := (·.1)) hx) (by rw [← hy] at hnd; exact hnd.1)
        · exact ih hnd.2 x y hx hy
    have := this _ hnd _ _ hv1 hv2
    injection this

/-- **move needed but not allowed ⇒ refused**: without the REORDER flag an accepted request leaves the
selection where it is, and the edit list consists of label replacements only. -/
theorem accepts_move_only_if_allowed {allTxt : List Nat} {defs refs : List (Nat × Label)} {ext : Option Range}
    {p : Params} {edits : List Edit} (hm : p.allowMove = false)
    (h : buildEdits allTxt defs refs ext p = .ok edits) :
    ∃ pl, plan allTxt defs refs ext p = .ok pl ∧ pl.ins = pl.sel.s.line ∧ edits = pl.selEdits ++ pl.unselEdits := by
  obtain ⟨pl, hp, hor⟩ := buildEdits_ok_inv h
  refine ⟨pl, hp, ?_⟩
  have := (plan_ok_inv hp).move hm
  rcases hor with h1 | h1
  · exact h1
  · exact absurd this h1.1

/-- **empty selection ⇒ refused** (the proposed fix): when no line number lies in `[beg,end)` the request is
refused. -/
theorem empty_selection_refused (i : Input) (h : ∀ d ∈ i.defs, ¬ (i.beg ≤ d.1 ∧ d.1 < i.end_)) :
    renumber i = .err := by
  have hany : anySelected i.defs i.beg i.end_ = false := by
    unfold anySelected
    rw [List.any_eq_false]
    intro d hd
    have := h d hd
    simpa using this
  unfold renumber renumberWith
  split
  · rfl
  · simp [hany]

/-- the request of DESIGN §9 item 23: lines 10,20,30; renumber the (empty) range 21..29 starting at 500 -/
def exEmpty : Input :=
  { src := [49,48,32,65,10,50,48,32,66,10,51,48,32,67],      -- "10 A\n20 B\n30 C"
    defs := [(10, ⟨⟨⟨0,0⟩,⟨0,3⟩⟩,0,1⟩), (20, ⟨⟨⟨1,0⟩,⟨1,3⟩⟩,0,1⟩), (30, ⟨⟨⟨2,0⟩,⟨2,3⟩⟩,0,1⟩)],
    refs := [], beg := 21, end_ := 29, first := 500, step := 1, flags := 0, maxNum := 63999 }

/-- lines 30,40; renumber the (empty) range 10..20 starting at 5: HEAD selects row 0 -/
def exEmpty2 : Input :=
  { src := [51,48,32,65,10,52,48,32,66],      -- "30 A\n40 B"
    defs := [(30, ⟨⟨⟨0,0⟩,⟨0,3⟩⟩,0,1⟩), (40, ⟨⟨⟨1,0⟩,⟨1,3⟩⟩,0,1⟩)],
    refs := [], beg := 10, end_ := 20, first := 5, step := 1, flags := 0, maxNum := 63999 }

/-- **HEAD violates the property**: no line is selected, yet the request is accepted and every line is
renumbered (`500 A / 501 B / 502 C`), contradicting "all other text is unchanged"; in the second instance
row 0 (`30 A`, not in 10..20) becomes `5 A`.  With the fix the same requests are refused. -/
theorem legacy_empty_selection_violates :
    renumberLegacy exEmpty = .ok [53,48,48,32,65,10,53,48,49,32,66,10,53,48,50,32,67] ∧
    renumberLegacy exEmpty ≠ .ok exEmpty.src ∧
    (∀ d ∈ exEmpty.defs, ¬ (exEmpty.beg ≤ d.1 ∧ d.1 < exEmpty.end_)) ∧
    renumber exEmpty = .err ∧
    renumberLegacy exEmpty2 = .ok [53,32,65,10,52,48,32,66] ∧
    (∀ d ∈ exEmpty2.defs, ¬ (exEmpty2.beg ≤ d.1 ∧ d.1 < exEmpty2.end_)) ∧
    renumber exEmpty2 = .err := by decide

/-! ## (ii) the selected lines carry `first, first+step, …` -/

/-- **Which lines are selected.**  For a program whose numbers ascend with the rows (the documented
precondition of `renumber`; fewer than 65536 rows), an accepted request hands to `build_edits` exactly the rows
whose line number lies in `[beg,end)`. -/
theorem selected_rows_are_the_requested_lines {i : Input} {out : List Nat} (h : renumber i = .ok out)
    (hmono : ∀ d1 ∈ i.defs, ∀ d2 ∈ i.defs, d1.2.rng.s.line ≤ d2.2.rng.s.line → d1.1 ≤ d2.1)
    (hrows : ∀ d ∈ i.defs, d.2.rng.s.line < 0x10000) :
    ∃ l0 ln pl, l0 ≤ ln ∧ plan i.src i.defs i.refs (some ⟨⟨l0, 0⟩, ⟨ln + 1, 0⟩⟩) i.params = .ok pl ∧
      ∀ d ∈ i.defs, (l0 ≤ d.2.rng.s.line ∧ d.2.rng.s.line ≤ ln) ↔ (i.beg ≤ d.1 ∧ d.1 < i.end_) := by
  obtain ⟨ext, pl, edits, hext, hany, hp, _, _⟩ := renumber_ok_inv h
  obtain ⟨l0, ln, rfl, hle, hiff⟩ := extSelOf_spec i.defs i.beg i.end_ ext hext hany hmono hrows
  exact ⟨l0, ln, pl, hle, hp, hiff⟩

example : (∀ d1 ∈ exIn.defs, ∀ d2 ∈ exIn.defs, d1.2.rng.s.line ≤ d2.2.rng.s.line → d1.1 ≤ d2.1) ∧
    (∀ d ∈ exIn.defs, d.2.rng.s.line < 0x10000) ∧
    extSelOf exIn.defs exIn.beg exIn.end_ = some (some ⟨⟨1, 0⟩, ⟨3, 0⟩⟩) := by decide

/-- The primaries found on the selected rows, in ascending order, are mapped to `first + k*step`, and the
label of the `k`-th one is replaced by exactly that number (with its blanks kept). -/
theorem selected_primaries_sequence {allTxt : List Nat} {defs refs : List (Nat × Label)} {ext : Option Range}
    {p : Params} {pl : Plan} (h : plan allTxt defs refs ext p = .ok pl) :
    let keys := (selGroup pl.sel defs).map (·.1)
    keys.Pairwise (· < ·) ∧
    pl.mapping.map (·.1) = keys ∧
    pl.mapping.map (·.2) = (List.range keys.length).map (fun k => p.l0 + k * p.dl) ∧
    (∀ k num lab rest, (selGroup pl.sel defs)[k]? = some (num, lab :: rest) →
      lookup pl.mapping num = some (p.l0 + k * p.dl) ∧ applyMapping (p.l0 + k * p.dl) lab ∈ pl.selEdits) := by
  have f := plan_ok_inv h
  refine ⟨keysSorted_group _, ?_, ?_, ?_⟩
  · rw [f.mapping, mkMapping_keys]
  · rw [f.mapping, mkMapping_vals]
  · intro k num lab rest hk
    have hnd : ((selGroup pl.sel defs).map (·.1)).Nodup := keys_nodup_group _
    have hk' : ((selGroup pl.sel defs).map (·.1))[k]? = some num := by simp [List.getElem?_map, hk]
    have hl := lookup_mkMapping p.l0 p.dl _ hnd k num hk'
    rw [← f.mapping] at hl
    refine ⟨hl, ?_⟩
    rw [f.selEdits]
    apply List.mem_append_left
    exact (mem_primEdits _ _ _).mpr ⟨num, lab, rest, _, List.mem_of_getElem? hk, hl, rfl⟩

example : (plan exIn.src exIn.defs exIn.refs (some ⟨⟨1,0⟩,⟨3,0⟩⟩) exIn.params).bind
    (fun pl => .ok ((selGroup pl.sel exIn.defs).map (·.1))) = .ok [20, 30] := by decide

/-! ## (iii) references follow the renumbered lines, nothing else is edited -/

/-- The complete list of label edits (no move): an edit is either the replacement of a selected primary by
its image, or the replacement of a reference — anywhere in the program — whose number is a renumbered
primary, by that primary's image.  Hence no other reference (missing target, unselected target) and no
text outside the gathered labels is the subject of an edit. -/
theorem edits_char {allTxt : List Nat} {defs refs : List (Nat × Label)} {ext : Option Range}
    {p : Params} {pl : Plan} (h : plan allTxt defs refs ext p = .ok pl) (hu : p.updateRefs = true)
    (hrow : ∀ x ∈ refs, x.2.rng.s.line = x.2.rng.e.line) (e : Edit) :
    e ∈ pl.selEdits ++ pl.unselEdits ↔
      (∃ num lab rest n, (num, lab :: rest) ∈ selGroup pl.sel defs ∧ lookup pl.mapping num = some n ∧
          e = applyMapping n lab) ∨
      (∃ s item n, (s, item) ∈ refs ∧ lookup pl.mapping s = some n ∧ e = applyMapping n item) := by
  have f := plan_ok_inv h
  rw [f.selEdits, f.unselEdits]
  simp only [hu, ↓reduceIte, List.mem_append, mem_primEdits, mem_secEdits]
  unfold selGroup
  simp only [memG_group, List.mem_filter]
  constructor
  · rintro ((h1 | ⟨s, item, n, ⟨hm, _⟩, hl, _, he⟩) | ⟨s, item, n, hm, hl, _, he⟩)
    · exact Or.inl h1
    · exact Or.inr ⟨s, item, n, hm, hl, he⟩
    · exact Or.inr ⟨s, item, n, hm, hl, he⟩
  · rintro (h1 | ⟨s, item, n, hm, hl, he⟩)
    · exact Or.inl (Or.inl h1)
    · have hr := hrow _ hm
      dsimp only at hr
      by_cases hin : inSel pl.sel item = true
      · exact Or.inl (Or.inr ⟨s, item, n, ⟨hm, hin⟩, hl, trivial, he⟩)
      · refine Or.inr ⟨s, item, n, hm, hl, ?_, he⟩
        have hin' : ¬ (pl.sel.s.line ≤ item.rng.s.line ∧ item.rng.s.line ≤ pl.sel.e.line) := by
          simpa [inSel] using hin
        simp only [Bool.or_eq_true, decide_eq_true_eq]
        omega

/-- every reference to the `k`-th renumbered line, wherever it stands, is replaced by `first + k*step` -/
theorem ref_follows {allTxt : List Nat} {defs refs : List (Nat × Label)} {ext : Option Range}
    {p : Params} {pl : Plan} (h : plan allTxt defs refs ext p = .ok pl) (hu : p.updateRefs = true)
    (hrow : ∀ x ∈ refs, x.2.rng.s.line = x.2.rng.e.line)
    (k s : Nat) (item : Label) (hk : ((selGroup pl.sel defs).map (·.1))[k]? = some s) (hm : (s, item) ∈ refs) :
    applyMapping (p.l0 + k * p.dl) item ∈ pl.selEdits ++ pl.unselEdits := by
  have f := plan_ok_inv h
  have hnd : ((selGroup pl.sel defs).map (·.1)).Nodup := keys_nodup_group _
  have hl := lookup_mkMapping p.l0 p.dl _ hnd k s hk
  rw [← f.mapping] at hl
  exact (edits_char h hu hrow _).mpr (Or.inr ⟨s, item, _, hm, hl, rfl⟩)

/-- a reference whose number is not a renumbered primary is not the subject of any edit: every edit comes
from a label whose number is in the mapping -/
theorem only_label_edits {allTxt : List Nat} {defs refs : List (Nat × Label)} {ext : Option Range}
    {p : Params} {pl : Plan} (h : plan allTxt defs refs ext p = .ok pl) (hu : p.updateRefs = true)
    (hrow : ∀ x ∈ refs, x.2.rng.s.line = x.2.rng.e.line) (e : Edit) (he : e ∈ pl.selEdits ++ pl.unselEdits) :
    ∃ num lab n, ((num, lab) ∈ defs ∨ (num, lab) ∈ refs) ∧ num ∈ (selGroup pl.sel defs).map (·.1) ∧
      lookup pl.mapping num = some n ∧ e = applyMapping n lab := by
  have f := plan_ok_inv h
  have key : ∀ num n, lookup pl.mapping num = some n → num ∈ (selGroup pl.sel defs).map (·.1) := by
    intro num n hl
    apply Classical.byContradiction
    intro hn
    have := lookup_none_of_not_mem pl.mapping num (by rw [f.mapping, mkMapping_keys]; exact hn)
    rw [this] at hl; cases hl
  rcases (edits_char h hu hrow e).mp he with ⟨num, lab, rest, n, hm, hl, he⟩ | ⟨s, item, n, hm, hl, he⟩
  · refine ⟨num, lab, n, Or.inl ?_, key _ _ hl, hl, he⟩
    have : MemG (selGroup pl.sel defs) num lab := ⟨lab :: rest, hm, by simp⟩
    unfold selGroup at this
    rw [memG_group] at this
    exact (List.mem_filter.mp this).1
  · exact ⟨s, item, n, Or.inr hm, key _ _ hl, hl, he⟩

example : (plan exIn.src exIn.defs exIn.refs (some ⟨⟨1,0⟩,⟨3,0⟩⟩) exIn.params).bind
    (fun pl => .ok (pl.selEdits ++ pl.unselEdits)) =
      .ok [⟨⟨⟨1,0⟩,⟨1,3⟩⟩, [49,48,48,32]⟩, ⟨⟨⟨2,0⟩,⟨2,3⟩⟩, [49,49,48,32]⟩, ⟨⟨⟨0,8⟩,⟨0,10⟩⟩, [49,49,48]⟩] := by
  decide

/-! ## (iv) bottom-up application = simultaneous substitution -/

/-- **General lemma.**  Applying ascending, pairwise disjoint range edits to a text one after the other,
bottom-up (`apply_edits` applies the last range first, so that earlier offsets stay valid even when a
replacement is longer or shorter than what it replaces), yields the simultaneous substitution
`l[0,s₁) ++ n₁ ++ l[e₁,s₂) ++ n₂ ++ … ++ l[e_k,∞)`: every character outside the ranges is kept, in order, and
every range is replaced by its new text.  By induction on the edit list. -/
theorem bottom_up_eq_simultaneous (l : List Nat) (xs : List E1) (h : Chain 0 l.length xs) :
    seqDesc l xs = substAsc 0 l xs := seqDesc_eq_subst l xs h

/-- instance with a growing and a shrinking replacement: `10 GOTO 30` ↦ `100 GOTO 5` -/
example : Chain 0 10 [⟨0, 2, [49,48,48]⟩, ⟨8, 10, [53]⟩] ∧
    seqDesc [49,48,32,71,79,84,79,32,51,48] [⟨0, 2, [49,48,48]⟩, ⟨8, 10, [53]⟩]
      = [49,48,48,32,71,79,84,79,32,53] := by decide

/-! ## (i) the lines stay, only the addressed columns change -/

/-- **One edit, flat text.**  `replace_range` works on the flat text and finds its offsets by summing the
lengths of the preceding lines; on a text of `\n`-terminated rows (without `\r`) a range on row `r` is
resolved to exactly the characters `[s,e)` of that row, whatever the lengths of the rows before it: the result
is the text of the same rows with row `r` replaced by `row[0,s) ++ new ++ row[e,∞)`. -/
theorem one_edit_on_one_row (ls : List (List Nat)) (h : ∀ l ∈ ls, NoNl l) (r s e : Nat) (new : List Nat)
    (hnew : NoNl new) (l : List Nat) (hr : ls[r]? = some l) (hse : s ≤ e) (hel : e ≤ l.length) :
    replaceRange (joinT ls) ⟨⟨r, s⟩, ⟨r, e⟩⟩ new = .ok (joinT (ls.set r (replace1 l ⟨s, e, new⟩))) :=
  replaceRange_row ls h r s e new hnew l hr hse hel

/-- **The `apply_edits` loop keeps the lines** (partial form of clause (i)).  On a text of `\n`-terminated
rows, a sequence of single-row edits, each inside its row at the moment it is applied (`ValidSeq`), is
applied without error or panic, the number of rows is unchanged, and the resulting text is that of the rows
after the row-wise replacements; together with `bottom_up_eq_simultaneous` (per row) and `edits_char` (which
ranges, which new texts) this is "same lines, same statements, same order, only label columns change".

The full statement (rows of the output = rows of the source with each row's label edits substituted, for every
accepted no-move request with `labelsOK`, including a last line without `\\n` and CRLF texts) is
`renumber_correct` below; this theorem is one of its building blocks and keeps its `_partial` name only because
it speaks about the loop, not about `renumber`. -/
theorem apply_loop_rows_partial (ls : List (List Nat)) (h : ∀ l ∈ ls, NoNl l) (es : List Edit)
    (hv : ValidSeq ls es) :
    applyLoop 0 es (joinT ls) = .ok (joinT (es.foldl rowsStep ls)) ∧
      (es.foldl rowsStep ls).length = ls.length :=
  applyLoop_rows ls h es hv

/-- the running example: its three label edits in the order `apply_edits` applies them are a `ValidSeq` on the
three rows, and the loop yields the expected text -/
example :
    let rows := [[49,48,32,71,79,84,79,32,51,48], [50,48,32,69,78,68], [51,48,32,71,79,84,79,32,49,48]]
    let es : List Edit := [⟨⟨⟨2,0⟩,⟨2,3⟩⟩, [49,49,48,32]⟩, ⟨⟨⟨1,0⟩,⟨1,3⟩⟩, [49,48,48,32]⟩, ⟨⟨⟨0,8⟩,⟨0,10⟩⟩, [49,49,48]⟩]
    joinT rows = exIn.src ∧
    sortDesc [⟨⟨⟨1,0⟩,⟨1,3⟩⟩, [49,48,48,32]⟩, ⟨⟨⟨2,0⟩,⟨2,3⟩⟩, [49,49,48,32]⟩, ⟨⟨⟨0,8⟩,⟨0,10⟩⟩, [49,49,48]⟩] = es ∧
    ValidSeq rows es ∧ joinT (es.foldl rowsStep rows) = exOut := by
  refine ⟨by decide, by decide, ?_, by decide⟩
  refine .cons ⟨rfl, by unfold NoNl; decide, _, rfl, by decide, by decide⟩ ?_
  refine .cons ⟨rfl, by unfold NoNl; decide, _, rfl, by decide, by decide⟩ ?_
  refine .cons ⟨rfl, by unfold NoNl; decide, _, rfl, by decide, by decide⟩ ?_
  exact .nil _

/-! ## the property as one theorem (no move) -/

/-- the new text of a label whose number is mapped to `n` -/
def labelEdit (lab : Label) (n : Nat) : E1 :=
  ⟨lab.rng.s.ch, lab.rng.e.ch, List.replicate lab.lead SP ++ digits n ++ List.replicate lab.trail SP⟩

/-- **C16, clauses (i)–(iv), for requests that do not move lines.**

Hypotheses: the program text is the LF document `d` of the rows `rows` (no `\r`/`\n` inside a row), with or
without a final newline (`t`), given either as it is or in CRLF form (`crlf`); the gathered labels satisfy
`labelsOK`; the line numbers ascend with the rows; REORDER and PASS_OVER_REFS are off; the request is accepted.

Conclusion: there are `keys` — the strictly ascending enumeration of the line numbers lying in `[beg,end)` —
and a `mapping` sending the `k`-th key to `first + k*step` and nothing else (ii), such that the output is the
document of rows `rows'` with the same line separator, the same final-newline state and the same number of
rows (i), and every row is the original row in which an ascending, pairwise disjoint chain `as` of ranges has
been replaced simultaneously (iv), where `as` consists of **exactly** the labels (defining or referring, in any
row) whose number is a key, each replaced by its blanks + the image of its number (iii); every character
outside those ranges is kept in place (`substAsc`). -/
theorem renumber_correct (i : Input) (out d : List Nat) (rows : List (List Nat)) (t crlf : Bool)
    (hdoc : IsDoc d rows t) (hsrc : i.src = if crlf then lfToCrlf d else d)
    (hlab : labelsOK i.src i.defs i.refs = true)
    (hmono : ∀ d1 ∈ i.defs, ∀ d2 ∈ i.defs, d1.2.rng.s.line ≤ d2.2.rng.s.line → d1.1 ≤ d2.1)
    (hrows : ∀ x ∈ i.defs, x.2.rng.s.line < 0x10000)
    (hflags : i.flags % 2 = 0 ∧ i.flags / 2 % 2 = 0)
    (h : renumber i = .ok out) :
    ∃ (keys : List Nat) (mapping : List (Nat × Nat)) (rows' : List (List Nat)) (d' : List Nat),
      keys.Pairwise (· < ·) ∧
      (∀ num, num ∈ keys ↔ (∃ lab, (num, lab) ∈ i.defs) ∧ i.beg ≤ num ∧ num < i.end_) ∧
      (∀ k num, keys[k]? = some num → lookup mapping num = some (i.first + k * i.step)) ∧
      (∀ num, num ∉ keys → lookup mapping num = none) ∧
      out = (if crlf then lfToCrlf d' else d') ∧ IsDoc d' rows' t ∧ rows'.length = rows.length ∧
      ∀ r l, rows[r]? = some l → ∃ as, Chain 0 l.length as ∧ rows'[r]? = some (substAsc 0 l as) ∧
        ∀ x, x ∈ as ↔ ∃ num lab n, ((num, lab) ∈ i.defs ∨ (num, lab) ∈ i.refs) ∧ lab.rng.s.line = r ∧
          lookup mapping num = some n ∧ x = labelEdit lab n := by
  obtain ⟨ext, pl, edits, hext, hany, hp, hb, happ⟩ := renumber_ok_inv h
  have hmove : i.params.allowMove = false := by simp [Input.params, hflags.1]
  have hupd : i.params.updateRefs = true := by simp [Input.params, hflags.2]
  obtain ⟨pl', hp', _, hedits⟩ := accepts_move_only_if_allowed hmove hb
  rw [hp] at hp'
  injection hp' with hp'
  subst hp'
  have f := plan_ok_inv hp
  -- the rows of the source
  have hsplit : splitLines i.src = rows := by
    rw [hsrc]
    cases crlf with
    | true => simp only [↓reduceIte]; rw [splitLines_lfToCrlf d (noCR_isDoc hdoc)]; exact splitLines_isDoc hdoc
    | false => exact splitLines_isDoc hdoc
  -- what labelsOK says
  unfold labelsOK at hlab
  simp only [hsplit, Bool.and_eq_true, List.all_eq_true] at hlab
  obtain ⟨hok, hpw⟩ := hlab
  have hpw' : (i.defs ++ i.refs).Pairwise DisjX := by
    have := (pairwiseB_iff _ _).mp hpw
    rw [List.pairwise_map] at this
    exact this
  have hrowR : ∀ x ∈ i.refs, x.2.rng.e.line = x.2.rng.s.line := by
    intro x hx
    obtain ⟨_, _, h2, _⟩ := labelOK_geom (hok x (List.mem_append_right _ hx))
    exact h2
  have hrowR' : ∀ x ∈ i.refs, x.2.rng.s.line = x.2.rng.e.line := fun x hx => (hrowR x hx).symm
  -- the edit list
  have hE : pl.selEdits ++ pl.unselEdits =
      primEdits pl.mapping (selGroup pl.sel i.defs) ++ secEdits pl.mapping (selGroup pl.sel i.refs) (fun _ => true) ++
      secEdits pl.mapping (group i.refs)
        (fun item => item.rng.s.line < pl.sel.s.line || item.rng.e.line > pl.sel.e.line) := by
    rw [f.selEdits, f.unselEdits]; simp [hupd]
  have hdis : (pl.selEdits ++ pl.unselEdits).Pairwise DisjE := by
    rw [hE]; exact edits_pairwise _ _ _ _ hpw' hrowR
  have hkeyOf : ∀ num n, lookup pl.mapping num = some n → num ∈ (selGroup pl.sel i.defs).map (·.1) := by
    intro num n hl
    apply Classical.byContradiction
    intro hn
    have := lookup_none_of_not_mem pl.mapping num (by rw [f.mapping, mkMapping_keys]; exact hn)
    rw [this] at hl; cases hl
  have hfit : ∀ ed ∈ pl.selEdits ++ pl.unselEdits,
      EditOn rows ed ∧ ed.rng.s.ch < ed.rng.e.ch ∧ ed.new ≠ [] := by
    intro ed hed
    obtain ⟨num, lab, n, hmem, _, _, rfl⟩ := only_label_edits hp hupd hrowR' ed hed
    have hmem' : (num, lab) ∈ i.defs ++ i.refs := List.mem_append.mpr hmem
    obtain ⟨l, hl, h2, h3, h4⟩ := labelOK_geom (hok _ hmem')
    obtain ⟨hn1, hn2⟩ := applyMapping_new n lab
    exact ⟨⟨h2, hn1, l, hl, Nat.le_of_lt h3, h4⟩, h3, hn2⟩
  obtain ⟨d', rows', happ', hd', hlen, hrowsSpec⟩ :=
    applyEdits_disjoint hdoc crlf (pl.selEdits ++ pl.unselEdits) hfit hdis
  rw [← hsrc, ← hedits, happ] at happ'
  injection happ' with hout
  -- the selection
  obtain ⟨l0, ln, rfl, hle, hiff⟩ := extSelOf_spec i.defs i.beg i.end_ ext hext hany hmono hrows
  obtain ⟨ep, hns⟩ := f.selNorm
  obtain ⟨hs0, hs1⟩ := normSel_rows hle hns
  have huniq := accepts_only_unique_primaries h
  have hkeys : ∀ num, num ∈ (selGroup pl.sel i.defs).map (·.1) ↔
      (∃ lab, (num, lab) ∈ i.defs ∧ inSel pl.sel lab = true) := by
    intro num
    constructor
    · intro hk
      obtain ⟨⟨k, vs⟩, hx, rfl⟩ := List.mem_map.mp hk
      have hne := group_vals_ne_nil _ _ hx
      cases vs with
      | nil => exact absurd rfl hne
      | cons v rest =>
        have : MemG (selGroup pl.sel i.defs) k v := ⟨v :: rest, hx, by simp⟩
        unfold selGroup at this
        rw [memG_group] at this
        exact ⟨v, List.mem_filter.mp this⟩
    · rintro ⟨lab, hm, hin⟩
      have : MemG (selGroup pl.sel i.defs) num lab := by
        unfold selGroup; rw [memG_group]; exact List.mem_filter.mpr ⟨hm, hin⟩
      obtain ⟨vs, hvs, _⟩ := this
      exact List.mem_map.mpr ⟨(num, vs), hvs, rfl⟩
  have hinSel : ∀ x ∈ i.defs, inSel pl.sel x.2 = true ↔ (i.beg ≤ x.1 ∧ x.1 < i.end_) := by
    intro x hx
    rw [← hiff x hx]
    simp only [inSel, Bool.and_eq_true, decide_eq_true_eq, hs0, hs1]
  have hks : ((selGroup pl.sel i.defs).map (·.1)).Pairwise (· < ·) := keysSorted_group _
  refine ⟨(selGroup pl.sel i.defs).map (·.1), pl.mapping, rows', d', hks, ?_, ?_, ?_, hout,
    hd', hlen, ?_⟩
  · intro num
    rw [hkeys]
    constructor
    · rintro ⟨lab, hm, hin⟩
      exact ⟨⟨lab, hm⟩, (hinSel _ hm).mp hin⟩
    · rintro ⟨⟨lab, hm⟩, hb⟩
      exact ⟨lab, hm, (hinSel _ hm).mpr hb⟩
  · intro k num hk
    have hnd : ((selGroup pl.sel i.defs).map (·.1)).Nodup := keys_nodup_group _
    have := lookup_mkMapping i.params.l0 i.params.dl _ hnd k num hk
    rw [← f.mapping] at this
    exact this
  · intro num hn
    exact lookup_none_of_not_mem pl.mapping num (by rw [f.mapping, mkMapping_keys]; exact hn)
  · intro r l hl
    obtain ⟨as, hc, hrow, hmem⟩ := hrowsSpec r l hl
    refine ⟨as, hc, hrow, ?_⟩
    intro x
    rw [hmem]
    constructor
    · rintro ⟨ed, hed, hr, rfl⟩
      obtain ⟨num, lab, n, hm, _, hl', rfl⟩ := only_label_edits hp hupd hrowR' ed hed
      exact ⟨num, lab, n, hm, hr, hl', rfl⟩
    · rintro ⟨num, lab, n, hm, hr, hl', rfl⟩
      refine ⟨applyMapping n lab, ?_, hr, rfl⟩
      rcases hm with hm | hm
      · -- a defining label whose number is mapped is the first (only) label of a selected key
        obtain ⟨lab', hm', hin'⟩ := (hkeys num).mp (hkeyOf num n hl')
        have hll := huniq num lab lab' hm hm'
        subst hll
        have : MemG (selGroup pl.sel i.defs) num lab := by
          unfold selGroup; rw [memG_group]; exact List.mem_filter.mpr ⟨hm, hin'⟩
        obtain ⟨vs, hvs, hv⟩ := this
        cases vs with
        | nil => cases hv
        | cons v rest =>
          have hv' : (num, v) ∈ i.defs := by
            have : MemG (selGroup pl.sel i.defs) num v := ⟨v :: rest, hvs, by simp⟩
            unfold selGroup at this
            rw [memG_group] at this
            exact (List.mem_filter.mp this).1
          have := huniq num lab v hm hv'
          subst this
          exact (edits_char hp hupd hrowR' _).mpr (Or.inl ⟨num, lab, rest, n, hvs, hl', rfl⟩)
      · exact (edits_char hp hupd hrowR' _).mpr (Or.inr ⟨num, lab, n, hm, hl', rfl⟩)

/-- the running example meets every hypothesis of `renumber_correct` (LF text with final newline) -/
example :
    IsDoc exIn.src [[49,48,32,71,79,84,79,32,51,48], [50,48,32,69,78,68], [51,48,32,71,79,84,79,32,49,48]] true ∧
    labelsOK exIn.src exIn.defs exIn.refs = true ∧
    (∀ d1 ∈ exIn.defs, ∀ d2 ∈ exIn.defs, d1.2.rng.s.line ≤ d2.2.rng.s.line → d1.1 ≤ d2.1) ∧
    (∀ x ∈ exIn.defs, x.2.rng.s.line < 0x10000) ∧ (exIn.flags % 2 = 0 ∧ exIn.flags / 2 % 2 = 0) ∧
    renumber exIn = .ok exOut := by
  refine ⟨⟨by unfold NoNl; decide, by simp only [↓reduceIte]; decide⟩, by decide, by decide, by decide, by decide,
    by decide⟩

/-- the same program as CRLF text without final newline: also an instance (`t = false`, `crlf = true`) -/
example :
    let d := [49,48,32,71,79,84,79,32,51,48,10,50,48,32,69,78,68,10,51,48,32,71,79,84,79,32,49,48]
    let rows := [[49,48,32,71,79,84,79,32,51,48], [50,48,32,69,78,68], [51,48,32,71,79,84,79,32,49,48]]
    IsDoc d rows false ∧
    labelsOK (lfToCrlf d) exIn.defs exIn.refs = true ∧
    renumber { exIn with src := lfToCrlf d } =
      .ok (lfToCrlf [49,48,32,71,79,84,79,32,49,49,48,10,49,48,48,32,69,78,68,10,49,49,48,32,71,79,84,79,32,49,48]) := by
  refine ⟨⟨by unfold NoNl; decide, ?_⟩, by decide, by decide⟩
  simp only [Bool.false_eq_true, ↓reduceIte]
  exact ⟨by decide, [[49,48,32,71,79,84,79,32,51,48], [50,48,32,69,78,68]], [51,48,32,71,79,84,79,32,49,48],
    by decide, by decide⟩

/-! ## the move path -/

theorem prim_mem {defs : List (Nat × Label)} {sel : Range} {mapping : List (Nat × Nat)} {num n : Nat} {lab : Label}
    (huniq : ∀ num l1 l2, (num, l1) ∈ defs → (num, l2) ∈ defs → l1 = l2)
    (hm : (num, lab) ∈ defs) (hin : inSel sel lab = true) (hl : lookup mapping num = some n) :
    applyMapping n lab ∈ primEdits mapping (selGroup sel defs) := by
  have : MemG (selGroup sel defs) num lab := by
    unfold selGroup; rw [memG_group]; exact List.mem_filter.mpr ⟨hm, hin⟩
  obtain ⟨vs, hvs, hv⟩ := this
  cases vs with
  | nil => cases hv
  | cons v rest =>
    have hv' : (num, v) ∈ defs := by
      have : MemG (selGroup sel defs) num v := ⟨v :: rest, hvs, by simp⟩
      unfold selGroup at this
      rw [memG_group] at this
      exact (List.mem_filter.mp this).1
    have := huniq num lab v hm hv'
    subst this
    exact (mem_primEdits _ _ _).mpr ⟨num, lab, rest, n, hvs, hl, rfl⟩

/-- **Move path, the moved block** (partial form of "with move: the selected block … ").  When the request is
accepted and the selection has to move (`insert_pos.line ≠ sel.start.line`, REORDER set), the edit list is:
a line separator appended at the end of the document, the pre-edited block inserted at column 0 of the
insertion row, one deletion `(l,0)-(l+1,0)` for every selected row, and the label edits of the unselected rows.
The inserted text `updated` is the document (each row terminated by `line_sep`) of the selected rows, in their
order, in which exactly the labels standing on those rows whose number is a renumbered primary have been
replaced by their images (clauses (ii)–(iv) for the block).

MISSING for the full clause "(with move) the selected block is contiguous at the insertion row, the other rows
keep their order": the effect of `apply_edits` on this mixed list — `replace_range` with the multi-row
deletion ranges, the insertion of a multi-line text, the insertion at `end_pos` (including the special case
`start.line == line_count`), and the row shifts between them.  Covered by the correspondence (≈ 600 real moves
per quick run agree with the model) and by the oracles `same-lines` / `primary-sequence` / `refs-follow`. -/
theorem moved_block_partial (i : Input) (out d : List Nat) (rows : List (List Nat)) (t crlf : Bool)
    (hdoc : IsDoc d rows t) (hsrc : i.src = if crlf then lfToCrlf d else d)
    (hlab : labelsOK i.src i.defs i.refs = true) (hupdF : i.flags / 2 % 2 = 0)
    (h : renumber i = .ok out) :
    ∃ ext pl edits, plan i.src i.defs i.refs ext i.params = .ok pl ∧
      buildEdits i.src i.defs i.refs ext i.params = .ok edits ∧ applyEdits i.src edits 0 = .ok out ∧
      (pl.ins ≠ pl.sel.s.line →
        ∃ updated block',
          edits = [⟨⟨pl.endPos, pl.endPos⟩, pl.lineSep⟩, ⟨⟨⟨pl.ins, 0⟩, ⟨pl.ins, 0⟩⟩, updated⟩] ++
            (rangeList pl.sel.s.line pl.sel.e.line).map (fun l => (⟨⟨⟨l, 0⟩, ⟨l + 1, 0⟩⟩, []⟩ : Edit)) ++
            pl.unselEdits ∧
          updated = (if pl.lineSep = [CR, LF] then lfToCrlf (joinT block') else joinT block') ∧
          block'.length = pl.sel.e.line + 1 - pl.sel.s.line ∧
          ∀ k l, k < block'.length → rows[pl.sel.s.line + k]? = some l →
            ∃ as, Chain 0 l.length as ∧ block'[k]? = some (substAsc 0 l as) ∧
              ∀ x, x ∈ as ↔ ∃ num lab n, ((num, lab) ∈ i.defs ∨ (num, lab) ∈ i.refs) ∧
                lab.rng.s.line = pl.sel.s.line + k ∧ lookup pl.mapping num = some n ∧ x = labelEdit lab n) := by
  obtain ⟨ext, pl, edits, hext, hany, hp, hb, happ⟩ := renumber_ok_inv h
  refine ⟨ext, pl, edits, hp, hb, happ, ?_⟩
  intro hmv
  obtain ⟨pl', hp', hor⟩ := buildEdits_ok_inv hb
  rw [hp] at hp'
  injection hp' with hp'
  subst hp'
  rcases hor with ⟨h1, _⟩ | ⟨_, updated, hu, hedits⟩
  · exact absurd h1 hmv
  have hupd : i.params.updateRefs = true := by simp [Input.params, hupdF]
  have f := plan_ok_inv hp
  have huniq := accepts_only_unique_primaries h
  have hsplit : splitLines i.src = rows := by
    rw [hsrc]
    cases crlf with
    | true => simp only [↓reduceIte]; rw [splitLines_lfToCrlf d (noCR_isDoc hdoc)]; exact splitLines_isDoc hdoc
    | false => exact splitLines_isDoc hdoc
  unfold labelsOK at hlab
  simp only [hsplit, Bool.and_eq_true, List.all_eq_true] at hlab
  obtain ⟨hok, hpw⟩ := hlab
  have hpw' : (i.defs ++ i.refs).Pairwise DisjX := by
    have := (pairwiseB_iff _ _).mp hpw
    rw [List.pairwise_map] at this
    exact this
  have hrowR : ∀ x ∈ i.refs, x.2.rng.e.line = x.2.rng.s.line := by
    intro x hx
    obtain ⟨_, _, h2, _⟩ := labelOK_geom (hok x (List.mem_append_right _ hx))
    exact h2
  -- the edits inside the selection
  have hSel : pl.selEdits = primEdits pl.mapping (selGroup pl.sel i.defs) ++
      secEdits pl.mapping (selGroup pl.sel i.refs) (fun _ => true) := by
    rw [f.selEdits]; simp [hupd]
  have hselMem : ∀ ed, ed ∈ pl.selEdits ↔ ∃ num lab n, ((num, lab) ∈ i.defs ∨ (num, lab) ∈ i.refs) ∧
      inSel pl.sel lab = true ∧ lookup pl.mapping num = some n ∧ ed = applyMapping n lab := by
    intro ed
    rw [hSel, List.mem_append]
    constructor
    · rintro (h1 | h1)
      · obtain ⟨num, lab, rest, n, hm, hl, rfl⟩ := (mem_primEdits _ _ _).mp h1
        have : MemG (selGroup pl.sel i.defs) num lab := ⟨lab :: rest, hm, by simp⟩
        unfold selGroup at this
        rw [memG_group] at this
        obtain ⟨hm', hin⟩ := List.mem_filter.mp this
        exact ⟨num, lab, n, Or.inl hm', hin, hl, rfl⟩
      · obtain ⟨s, item, n, hm, hl, _, rfl⟩ := (mem_secEdits _ _ _ _).mp h1
        unfold selGroup at hm
        rw [memG_group] at hm
        obtain ⟨hm', hin⟩ := List.mem_filter.mp hm
        exact ⟨s, item, n, Or.inr hm', hin, hl, rfl⟩
    · rintro ⟨num, lab, n, hm | hm, hin, hl, rfl⟩
      · exact Or.inl (prim_mem huniq hm hin hl)
      · refine Or.inr ((mem_secEdits _ _ _ _).mpr ⟨num, lab, n, ?_, hl, rfl, rfl⟩)
        unfold selGroup; rw [memG_group]; exact List.mem_filter.mpr ⟨hm, hin⟩
  have hdisSel : pl.selEdits.Pairwise DisjE := by
    have := edits_pairwise pl.mapping pl.sel i.defs i.refs hpw' hrowR
    rw [← hSel] at this
    exact (List.pairwise_append.mp this).1
  -- the selected rows as a document
  let block := (rangeList pl.sel.s.line pl.sel.e.line).map (fun l => rows[l]?.getD [])
  have hblockNl : ∀ l ∈ block, NoNl l := by
    intro l hl
    obtain ⟨r, _, rfl⟩ := List.mem_map.mp hl
    cases hg : rows[r]? with
    | none => intro c hc; simp at hc
    | some l0 => exact hdoc.1 l0 (List.mem_of_getElem? hg)
  have hblockLen : block.length = pl.sel.e.line + 1 - pl.sel.s.line := by simp [block, rangeList]
  have hblockGet : ∀ k, k < block.length → block[k]? = some (rows[pl.sel.s.line + k]?.getD []) := by
    intro k hk
    rw [hblockLen] at hk
    simp [block, rangeList, List.getElem?_map, List.getElem?_range hk, Nat.add_comm]
  have hblockDoc : IsDoc (joinT block) block true := ⟨hblockNl, by simp⟩
  have hselTxt : pl.selTxt =
      (if decide (pl.lineSep = [CR, LF]) then lfToCrlf (joinT block) else joinT block) := by
    rw [f.selTxtEq, hsplit]
    have hfm : ∀ sep : List Nat, ((rangeList pl.sel.s.line pl.sel.e.line).flatMap
        fun l => rows[l]?.getD [] ++ sep) = block.flatMap (fun l => l ++ sep) := by
      intro sep; simp [block, List.flatMap_map]
    rw [hfm]
    obtain ⟨e1, e2⟩ := flatMap_sep_eq block hblockNl
    rcases f.lineSepOk with hs | hs
    · rw [hs]; simp [e1]
    · rw [hs]; simp [CR, LF]; rfl
  have hfit : ∀ ed ∈ pl.selEdits, (pl.sel.s.line ≤ ed.rng.s.line ∧ ed.rng.e.line = ed.rng.s.line) ∧
      EditOn block (shiftEdit pl.sel.s.line ed) ∧ ed.rng.s.ch < ed.rng.e.ch ∧ ed.new ≠ [] := by
    intro ed hed
    obtain ⟨num, lab, n, hm, hin, _, rfl⟩ := (hselMem ed).mp hed
    have hmem' : (num, lab) ∈ i.defs ++ i.refs := List.mem_append.mpr hm
    obtain ⟨l, hl, h2, h3, h4⟩ := labelOK_geom (hok _ hmem')
    obtain ⟨hn1, hn2⟩ := applyMapping_new n lab
    simp only [inSel, Bool.and_eq_true, decide_eq_true_eq] at hin
    have hk : lab.rng.s.line - pl.sel.s.line < block.length := by rw [hblockLen]; omega
    have hget := hblockGet _ hk
    have : pl.sel.s.line + (lab.rng.s.line - pl.sel.s.line) = lab.rng.s.line := by omega
    rw [this] at hget
    dsimp only at hl
    rw [hl] at hget
    refine ⟨⟨hin.1, h2⟩, ⟨?_, hn1, l, hget, Nat.le_of_lt h3, h4⟩, h3, hn2⟩
    simp only [shiftEdit, applyMapping]
    dsimp only at h2
    rw [h2]
  obtain ⟨d', block', happ', hd', hlen, hspec⟩ :=
    applyEdits_row_disjoint hblockDoc (decide (pl.lineSep = [CR, LF])) pl.selEdits pl.sel.s.line hfit hdisSel
  rw [← hselTxt, hu] at happ'
  injection happ' with hupdated
  have hd'eq : d' = joinT block' := by simpa [IsDoc] using hd'.2
  refine ⟨updated, block', hedits, ?_, by rw [hlen, hblockLen], ?_⟩
  · rw [hupdated, hd'eq]
    by_cases hs : pl.lineSep = [CR, LF] <;> simp [hs]
  · intro k l hk hl
    rw [hlen] at hk
    have hget := hblockGet k hk
    rw [hl] at hget
    obtain ⟨as, hc, hrow, hm⟩ := hspec k l hget
    refine ⟨as, hc, hrow, ?_⟩
    intro x
    rw [hm]
    constructor
    · rintro ⟨ed, hed, hr, rfl⟩
      obtain ⟨num, lab, n, hmm, _, hl', rfl⟩ := (hselMem ed).mp hed
      exact ⟨num, lab, n, hmm, hr, hl', rfl⟩
    · rintro ⟨num, lab, n, hmm, hr, hl', rfl⟩
      refine ⟨applyMapping n lab, (hselMem _).mpr ⟨num, lab, n, hmm, ?_, hl', rfl⟩, hr, rfl⟩
      rw [hblockLen] at hk
      simp only [inSel, Bool.and_eq_true, decide_eq_true_eq]
      omega

/-- a request that moves: `20 INPUT X / 30 PRINT X` become `1000 / 1002` and go behind `40 END`; the reference in
row 0 follows -/
def exMove : Input :=
  { src := [49,48,32,71,79,84,79,32,51,48,10,50,48,32,73,78,80,85,84,32,88,10,51,48,32,80,82,73,78,84,32,88,10,52,48,32,69,78,68],
    defs := [(10, ⟨⟨⟨0,0⟩,⟨0,3⟩⟩,0,1⟩), (20, ⟨⟨⟨1,0⟩,⟨1,3⟩⟩,0,1⟩), (30, ⟨⟨⟨2,0⟩,⟨2,3⟩⟩,0,1⟩), (40, ⟨⟨⟨3,0⟩,⟨3,3⟩⟩,0,1⟩)],
    refs := [(30, ⟨⟨⟨0,8⟩,⟨0,10⟩⟩,0,0⟩)], beg := 20, end_ := 40, first := 1000, step := 2, flags := 1, maxNum := 63999 }

/-- `exMove` is an instance of `moved_block_partial` in which the block really moves
(`10 GOTO 1002 / 40 END / 1000 INPUT X / 1002 PRINT X`) -/
example :
    labelsOK exMove.src exMove.defs exMove.refs = true ∧ exMove.flags / 2 % 2 = 0 ∧
    renumber exMove = .ok [49,48,32,71,79,84,79,32,49,48,48,50,10,52,48,32,69,78,68,10,49,48,48,48,32,73,78,80,85,84,32,88,10,
      49,48,48,50,32,80,82,73,78,84,32,88,10] ∧
    (plan exMove.src exMove.defs exMove.refs (some ⟨⟨1,0⟩,⟨3,0⟩⟩) exMove.params).bind
      (fun pl => .ok (pl.ins, pl.sel.s.line, pl.sel.e.line)) = .ok (4, 1, 2) := by decide

end A2Verif.C16
