import A2Verif.Lemmas.RetokProg
import A2Verif.Lemmas.RetokInt
/-!
# C14 round 4 — the listing is re-read to the same bytes, for EVERY token stream (model level)

`Props/C14.lean` proved the payload codec, the keyword lookup and instances (`retokA_detokA_partial`).
Here the whole statement is a theorem: induction over the lines of a program and over the items of a line.

Clauses of the property covered: "detokenize∘tokenize gives a source that … tokenizes to the same bytes (modulo
blanks the listing inserts at the head of REM/DATA payloads)" (Applesoft, all streams of the class; Integer BASIC:
payload codec and number tokens, line level partial), "line numbers in order of appearance", and — for the
framing — "refused instead of wrapped" (Integer length byte, Applesoft link field).
-/
namespace A2Verif.C14Retok
open A2Verif.Detok A2Verif.Gen.Tokens

/-! ## Applesoft -/

/-- `WfA addr t` (decidable): `t` is a well-formed Applesoft token stream for load address `addr` inside the
detokenizer's caps —
* line structure: `scanA` (link field = address of the following line, addresses ≤ 65535, `00 00` marker, nothing after);
* code context: bytes > 127 are keys of `DETOK_MAP`; other bytes are printable, not a blank, not lower case (the
  tokenizer strips blanks and capitalises outside strings);
* after `"` up to the closing `"` or the end of the line, after REM up to the end of the line, after DATA up to a
  `:` outside quotes or the end of the line: ANY bytes `01..FF` (escape discipline of HEAD: `0A`, `0D` and bytes
  > 126 are printed `\xNN`, a literal backslash in front of `xHH` is printed `\x5c`);
* caps of `detokenize`: body < 255 bytes, ≤ 5000 lines, image ≤ 65533 bytes. -/
def WfA (addr : Nat) (t : List Nat) : Bool := WF_A addr t && classA addr t

theorem classA_imp_WF {addr : Nat} {t : List Nat} (h : classA addr t = true) : WF_A addr t = true := by
  unfold classA at h
  unfold WF_A
  cases hs : scanA (t.length + 1) addr t with
  | none => simp [hs] at h
  | some _ => rfl

/-- **Applesoft: `retokA (detokA t) = stripHead t` for EVERY well-formed token stream** (property clause
"tokenizes to the same bytes modulo blanks at the head of REM/DATA payloads", on the model).
For every load address and every `t` with `WfA addr t`: the detokenizer succeeds with a listing `s`, and the
reference tokenizer for the canonical listing language maps `s` to `stripHeadA addr t` — the same lines with
the blanks directly after REM / DATA tokens removed and the link fields recomputed.
Proof: induction over the lines (`prog_roundtrip`) and, inside a line, over its items (`line_roundtrip`):
code character / keyword token (` KW ` is one blank-delimited word that looks up to its token,
`kw_entry`) / string (closed or running to the end of line) / REM / DATA (payload codec of `payload_roundtrip`,
blank skipping `dropBlanks_escP`), decimal line number (`parseDec_dec`).
Hypotheses, each necessary:
* code characters are not blanks / lower case / `"`: `stripHead` does not remove code blanks and the tokenizer
  capitalises (witness below: a body `41 20 42` re-tokenizes to `41 42`);
* tokens in the table: otherwise `detokA` is `err`;
* caps: a body of ≥ 255 bytes is cut by `max_line_length`, more than 5000 lines by `max_lines` (listing
  truncated, `design/C14.md` "Caps").
No hypothesis on payload bytes, on keyword adjacency, or on what follows a keyword: the listing puts a blank on
both sides of every keyword and never prints a blank otherwise in code context, so `ATN` vs `AT N`,
`A TO N` vs `AT ON` cannot arise in `retokA` (see the `decide` instances below and `design/C14.md` round 4 for
the same question on the real, blank-insensitive parser). -/
theorem retokA_detokA (addr : Nat) (t : List Nat) (h : WfA addr t = true) :
    ∃ s, detokA t = .ok s ∧ retokA addr s = stripHeadA addr t := by
  simp only [WfA, Bool.and_eq_true] at h
  exact retokA_detokA_all addr t h.2

/-- the same, as the decidable check the driver evaluates (`c14 rtA` answers `holds`) -/
theorem roundTrip_holds_on_class (addr : Nat) (t : List Nat) (h : WfA addr t = true) :
    (match detokA t with
     | .ok s => retokA addr s == stripHeadA addr t
     | _ => false) = true := by
  obtain ⟨s, h1, h2⟩ := retokA_detokA addr t h
  simp [h1, h2]

/-- non-vacuity: a six-line program (string with escape look-alike + CR + FF, REM with head blanks, DATA with a
quoted colon then a statement, `DRAW 1 AT N,5`, `FOR I = A TO N : PRINT ATN (1)`, unterminated string) is `WfA` -/
def sample : List Nat :=
  [17, 8, 10, 0, 186, 34, 92, 120, 48, 70, 13, 255, 34, 59, 65, 0, 28, 8, 20, 0, 178, 32, 32, 92, 120, 52, 0, 48, 8, 30,
   0, 131, 32, 34, 58, 34, 44, 92, 120, 102, 102, 32, 58, 186, 65, 36, 0, 59, 8, 40, 0, 148, 49, 197, 78, 44, 53, 0, 76,
   8, 50, 0, 129, 73, 208, 65, 193, 78, 58, 186, 225, 40, 49, 41, 0, 85, 8, 60, 0, 186, 34, 72, 73, 0, 0, 0]

example : WfA 2049 sample = true := by decide +kernel

/-- the classical ambiguities on the model: token `AT` followed by the name `N` is listed ` AT N` and read back as
`C5 4E`; the token `ATN` is listed ` ATN ` and read back as `E1`; `A TO N` (`41 C1 4E`) is listed `A TO N` -/
example : detokA [12, 8, 10, 0, 148, 49, 197, 78, 44, 53, 0, 0, 0] =
    .ok [49, 48, 32, 32, 68, 82, 65, 87, 32, 49, 32, 65, 84, 32, 78, 44, 53, 10] := by decide +kernel
example : retokA 2049 [49, 48, 32, 32, 68, 82, 65, 87, 32, 49, 32, 65, 84, 32, 78, 44, 53, 10] =
    .ok [12, 8, 10, 0, 148, 49, 197, 78, 44, 53, 0, 0, 0] := by decide +kernel
example : retokA 2049 [49, 48, 32, 32, 80, 82, 73, 78, 84, 32, 32, 65, 84, 78, 32, 40, 49, 41, 10] =
    .ok [11, 8, 10, 0, 186, 225, 40, 49, 41, 0, 0, 0] := by decide +kernel

/-- hypothesis "no blank in code context" is needed: the body `A␣B` is outside the class and does not round-trip -/
example : WfA 2049 [9, 8, 10, 0, 65, 32, 66, 0, 0, 0] = false ∧
    detokA [9, 8, 10, 0, 65, 32, 66, 0, 0, 0] = .ok [49, 48, 32, 65, 32, 66, 10] ∧
    retokA 2049 [49, 48, 32, 65, 32, 66, 10] = .err := by decide +kernel

/-- limit of the reference tokenizer (why it is tied to the real one on REAL listings only): a stream that spells a
keyword with letters (`50 52 49 4E 54`, which the real tokenizer never emits — it would have emitted `BA`) is in the
class and round-trips through `retokA`, whereas a maximal-munch tokenizer reads the listing `PRINT` as the token.
For the real tokenizer the side condition is "`t` is an output of `tokenize`"; see `design/C14.md` round 4. -/
example : WfA 2049 [11, 8, 10, 0, 80, 82, 73, 78, 84, 0, 0, 0] = true := by decide +kernel

/-! ## structure: line numbers in order, refusals instead of wrapping -/

/-- total size of the framed lines: 2 link + 2 number + body + terminator -/
def totalA (ls : List Line) : Nat := (ls.map fun l => l.body.length + 5).sum

/-- **Applesoft framing never wraps a link field and never refuses**: `tokenize` at load address `addr` returns a
stream exactly when the address of the end marker, `addr + Σ (body + 5)`, fits 16 bits; otherwise the `u16` addition
panics (debug profile) — there is no third outcome, in particular no stream with a link taken modulo 65536. -/
theorem applesoft_framing_no_wrap : ∀ (ls : List Line) (addr : Nat),
    (ls = [] ∨ addr + totalA ls ≤ 65535 → (assembleA addr ls).isOk = true) ∧
    (ls ≠ [] ∧ 65535 < addr + totalA ls → assembleA addr ls = .panic) := by
  intro ls
  induction ls with
  | nil => intro addr; simp [assembleA, Outcome.isOk]
  | cons l ls ih =>
    intro addr
    have e : totalA (l :: ls) = l.body.length + 5 + totalA ls := by simp [totalA]
    obtain ⟨i1, i2⟩ := ih (addr + (2 + l.body.length) + 3)
    constructor
    · intro h
      have h' : addr + totalA (l :: ls) ≤ 65535 := by simpa using h
      have hn : ¬ (65535 < addr + (2 + l.body.length) + 3) := by omega
      have := i1 (Or.inr (by omega))
      simp only [assembleA, hn, if_false]
      cases hr : assembleA (addr + (2 + l.body.length) + 3) ls <;> simp_all [Outcome.map, Outcome.isOk]
    · intro h
      by_cases hn : 65535 < addr + (2 + l.body.length) + 3
      · simp [assembleA, hn]
      · simp only [assembleA, hn, if_false]
        have hne : ls ≠ [] := by
          intro hnil; subst hnil; simp [totalA] at h; omega
        rw [i2 ⟨hne, by omega⟩]
        rfl

/-- when a stream is returned, every link field is the true (unwrapped) address of the following line and the line
numbers stand in the stream in the order of the source lines (scan of `link_field_law`); the end marker's address
fits 16 bits -/
theorem applesoft_ok_links_and_order (addr : Nat) (ls : List Line) (t : List Nat) (hok : LinesOK ls)
    (h : assembleA addr ls = .ok t) :
    scanA (t.length + 1) addr t = some ls ∧ lineNumsA addr t = ls.map (·.num) ∧
      (ls ≠ [] → addr + totalA ls ≤ 65535) := by
  have hs := scanA_assembleA ls addr t hok h (t.length + 1) (by omega)
  have hn : lineNumsA addr t = ls.map (·.num) := by simp [lineNumsA, hs]
  refine ⟨hs, hn, ?_⟩
  intro hnil
  by_cases hle : addr + totalA ls ≤ 65535
  · exact hle
  · have := (applesoft_framing_no_wrap ls addr).2 ⟨hnil, by omega⟩
    rw [this] at h; cases h

example : assembleA 65520 [⟨10, [186, 65]⟩, ⟨20, [128]⟩] = .ok [247, 255, 10, 0, 186, 65, 0, 253, 255, 20, 0, 128, 0, 0, 0] ∧
    assembleA 65524 [⟨10, [186, 65]⟩, ⟨20, [128]⟩] = .panic := by decide

/-- **Integer BASIC framing refuses instead of wrapping**: `tokenize` returns a stream exactly when every line
(number + body) has at most 126 bytes, i.e. every body ≤ 124 bytes; otherwise it is refused (`err`, never a panic, never a
length byte taken modulo 256). -/
theorem integer_framing_refuses : ∀ (ls : List Line),
    ((∀ l ∈ ls, l.body.length ≤ 124) → (assembleI ls).isOk = true) ∧
    ((∃ l ∈ ls, 124 < l.body.length) → assembleI ls = .err) := by
  intro ls
  induction ls with
  | nil => simp [assembleI, Outcome.isOk]
  | cons l ls ih =>
    obtain ⟨i1, i2⟩ := ih
    constructor
    · intro h
      have hl := h l (by simp)
      have hn : ¬ (126 < 2 + l.body.length) := by omega
      have := i1 (fun x hx => h x (by simp [hx]))
      simp only [assembleI, hn, if_false]
      cases hr : assembleI ls <;> simp_all [Outcome.map, Outcome.isOk]
    · rintro ⟨x, hx, hlen⟩
      by_cases hn : 126 < 2 + l.body.length
      · simp [assembleI, hn]
      · simp only [assembleI, hn, if_false]
        simp at hx
        rcases hx with hx | hx
        · subst hx; omega
        · rw [i2 ⟨x, hx, hlen⟩]; rfl

/-- when a stream is returned the length bytes are exact, below 256 (at most 128), and the line numbers stand in the
stream in the order of the source lines -/
theorem integer_ok_lengths_and_order (ls : List Line) (t : List Nat) (hnum : ∀ l ∈ ls, l.num < 65536)
    (h : assembleI ls = .ok t) :
    walkI (t.length + 1) t = some ls ∧ (∀ l ∈ ls, l.body.length + 4 ≤ 128) := by
  refine ⟨walkI_assembleI ls t hnum h (t.length + 1) (by omega), ?_⟩
  intro l hl
  by_cases hle : l.body.length ≤ 124
  · omega
  · have := (integer_framing_refuses ls).2 ⟨l, hl, by omega⟩
    rw [this] at h; cases h

example : (assembleI [⟨10, List.replicate 124 65⟩]).isOk = true ∧ assembleI [⟨10, List.replicate 125 65⟩] = .err := by
  decide +kernel

/-- **line numbers after the round trip**: the re-tokenized listing of a well-formed stream has the same line
numbers in the same order as the stream (whenever the stripped lines still fit below 64K they do: stripping
only shortens) -/
theorem roundtrip_keeps_line_numbers (addr : Nat) (t t' : List Nat) (h : WfA addr t = true)
    (h' : stripHeadA addr t = .ok t') : ∃ s, detokA t = .ok s ∧ retokA addr s = .ok t' ∧
      lineNumsA addr t' = lineNumsA addr t := by
  obtain ⟨s, h1, h2⟩ := retokA_detokA addr t h
  refine ⟨s, h1, by rw [h2, h'], ?_⟩
  simp only [WfA, Bool.and_eq_true] at h
  unfold stripHeadA at h'
  cases hs : scanA (t.length + 1) addr t with
  | none => simp [hs] at h'
  | some ls =>
    simp only [hs] at h'
    have hok : LinesOK (ls.map stripLine) := scan_strip_linesOK _ _ _ _ hs
    have := scanA_assembleA _ addr t' hok h' (t'.length + 1) (by omega)
    simp [lineNumsA, this, hs, stripLine, Function.comp_def]

/-! ## Integer BASIC -/

/-- **Integer BASIC payload codec (strings and REM), all bytes**: for every payload `p` (any bytes `01..FF` other than
the terminators `term` of the context — `29 01` in a string, `01` after REM), in front of its terminator `c` and any
rest of the image: `integer::bytes_to_escaped_string_ex` stops exactly at the terminator, and
`parse_escaped_ascii(·, inverted, caps)` (the tokenizer's `stringlike_node_to_bytes`) turns the printed text back into
`p`.  This is the escape discipline of HEAD **after the repairs**: positive ASCII, negative NUL, negative lower case,
`FF`, `8A`, `8D` (and the negative quote inside strings) are printed `\xNN`; a negative backslash in front of a
negative `xHH` is printed `\xdc` — the statement begins with `iBackslashEscHex = "dc"` read from the source, so it stops
checking if the unrepaired `\x5c` comes back (`c14/integer/escaped-byte-not-reproduced`). -/
theorem integer_payload_roundtrip (term : List Nat) (p tl : List Nat) (c : Nat)
    (hterm : term = [iCloseQuote, iEol] ∨ term = [iEol])
    (hp : ∀ b ∈ p, b < 256 ∧ term.contains b = false) (hc : term.contains c = true) :
    (escI term (p ++ c :: tl)).2 = c :: tl ∧ unescI (escI term (p ++ c :: tl)).1 = p :=
  escI_roundtrip term p tl c hterm (by decide) hp hc

/-- every byte value, in a REM payload followed by the end of line: listed and read back -/
example : unescI (escI [1] ([220, 248, 176, 198, 129, 225, 255, 138, 0x80, 0xC1, 220, 40, 41] ++ 1 :: [])).1 =
    [220, 248, 176, 198, 129, 225, 255, 138, 0x80, 0xC1, 220, 40, 41] := by decide +kernel
/-- the unrepaired spelling `\x5c` of the negative backslash is read back as `5C`, not `DC` -/
example : unescI [92, 120, 53, 99] = [92] ∧ unescI [92, 120, 100, 99] = [220] := by decide +kernel

/-- **Integer BASIC number tokens re-tokenize to themselves, provided the header digit is the first digit of the
value** (`WF_I` requires it; hypothesis `hhdr`): the listing prints `dec v`, the tokenizer parses it
(`i16::from_str_radix`) back to `v` and builds `[B0 + first digit of v, lo, hi]`.  Without `hhdr` the statement is
false: `B0 07 00` is listed `7` and comes back as `B7 07 00`. -/
theorem integer_number_token_roundtrip (b lo hi : Nat) (hlo : lo < 256) (hhi : hi < 128)
    (hhdr : b = 176 + firstDigit (lo + 256 * hi)) :
    numTokI (decVal (dec (lo + 256 * hi)) 0) = [b, lo, hi] := by
  rw [decVal_dec, hhdr]
  have h1 : (lo + 256 * hi) % 256 = lo := by omega
  have h2 : (lo + 256 * hi) / 256 = hi := by omega
  simp [numTokI, h1, h2]

example : numTokI (decVal (dec 7) 0) = [183, 7, 0] ∧ [183, 7, 0] ≠ [176, 7, 0] := by decide

/-- **Integer BASIC names**: a run of negative ASCII (no negative lower case — the tokenizer capitalises names) in front of
any positive byte is listed character by character and stops at that byte; capitalising and setting the high bit
(`to_uppercase … b+128`, integer/tokenizer.rs:63-70) gives the run back.  (Where the run ENDS in the re-read listing is the
parser's decision — `c14/integer/name-begins-with-keyword` — and not part of this statement.) -/
theorem integer_name_roundtrip (name tl : List Nat) (c : Nat) (hc : c < 128)
    (hn : ∀ b ∈ name, 128 ≤ b ∧ ¬ (225 ≤ b ∧ b ≤ 250)) :
    varNameI (name ++ c :: tl) = .ok (name.map (· - 128), c :: tl) ∧
      (name.map (· - 128)).map (fun x => upC x + 128) = name :=
  varNameI_roundtrip name tl c hc hn

/-- `N9` followed by the `=` token -/
example : varNameI ([206, 185] ++ 113 :: []) = .ok ([78, 57], [113]) := by decide

end A2Verif.C14Retok
