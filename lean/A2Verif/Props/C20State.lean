import A2Verif.Lemmas.ToolState
import A2Verif.Lemmas.MinifyState
import A2Verif.Gen.HashSites
import A2Verif.Gen.ClockSites
import A2Verif.Lemmas.ImageState
import A2Verif.Model.Determinism
/-!
# C20, incidental state — the tool objects and early exits from hash iterations

"Running the same operation on the same inputs produces byte-identical results every time, in the same process or a new
one … nothing depends on hash-map iteration order, addresses or other incidental state."

* **Incidental state kept in a tool object.**  `Tokenizer`, `Minifier`, `Renumberer`, `Disassembler`, `Assembler`,
  `MerlinParser` are long-lived in the language servers.  `Gen.ToolState` (regenerated from the working tree) lists for
  every entry point the fields it resets, the fields whose value from an EARLIER call it may read, and the fields it may
  write.  `tool_history_independent` turns "nothing is read from an earlier call except configuration" into "the output
  after every call history equals the output of a fresh object"; `tool_objects_current_tree` checks the premise on the
  generated table.
* **Early exit from an iteration over a hash container.**  A loop that stops early, or a length cap on what it
  accumulates, makes the RESULT depend on the order even when the loop body only inserts into a map.  The census
  fingerprints now include these constructs, no automatic rule applies to such a site: `census_early_exit_reviewed`.
-/
namespace A2Verif.C20
open A2Verif.ToolState

/-- **History independence** for any tool whose entry points respect their extracted signatures: if every field an entry
point may read from an earlier call is a configuration field, its output after EVERY sequence of prior calls
(successful or failed) equals its output on the initial object.  By induction over the call history. -/
theorem tool_history_independent {I O : Type} (tool : List (Entry I O)) (cfg : List Nat)
    (hresp : ∀ e, e ∈ tool → e.Respects)
    (hcfg : ∀ e, e ∈ tool → ∀ f, f ∈ cfg → f ∉ e.sig.writes)
    (e : Entry I O) (he : e ∈ tool) (hcar : ∀ f, f ∈ e.sig.carried → f ∈ cfg)
    (s0 : St) (h : Hist I) (i : I) :
    (e.run (runHist tool s0 h) i).2 = (e.run s0 i).2 :=
  history_independent tool cfg hresp hcfg e he hcar s0 h i

/-- a tool with a carried field is NOT history independent in general: one entry point that appends its input to field 0
and returns the field (what `tokenize` without its reset does) -/
def appender : Entry (List Nat) (List Nat) where
  sig := ⟨[0], [0]⟩
  run := fun s i => (fun f => if f = 0 then s 0 ++ i else s f, s 0 ++ i)

theorem carried_field_breaks_independence :
    appender.Respects ∧
    (appender.run (runHist [appender] (fun _ => []) [(0, [1])]) [2]).2 ≠ (appender.run (fun _ => []) [2]).2 := by
  refine ⟨⟨?_, ?_⟩, by decide⟩
  · intro s t i h
    have := h 0 (by simp [appender])
    simp [appender, this]
  · intro s i f hf
    have : f ≠ 0 := by intro h; apply hf; simp [appender, h]
    simp [appender, this]

/-- **All tool objects on the current tree**: the generated table is consistent (configuration fields are written by no
entry point of their tool; ids in range; every carried non-configuration field is accounted for) and no carried field is
unreviewed.  The reviewed ones (`translator/toolstate_carry.json`) are: external tree-sitter parsers (parameter), the
documented modes (`flags`, MX / program counter of the assembler, Merlin `line_sep`), two imprecisions of the analysis, and
`Minifier::ends_with_str`, whose read is proved dead (`C17.stage3_first_read_dead`).  Fails to check when a reset
disappears or a new carried field appears anywhere in the nine tool structs. -/
theorem tool_objects_current_tree :
    tableConsistent = true ∧ A2Verif.Gen.ToolState.unexplainedCarry = [] ∧
    A2Verif.Gen.ToolState.entries.length ≠ 0 ∧ A2Verif.Gen.ToolState.fieldCount.length = A2Verif.Gen.ToolState.toolCount := by
  decide +kernel

/-- entry points of the current tree that read nothing but configuration from the object: for these
`tool_history_independent` applies as it stands -/
def historyFreeEntries : List (Nat × Nat) :=
  (A2Verif.Gen.ToolState.entries.filter fun r => (historyFields r.1 r.2.1).isEmpty).map fun r => (r.1, r.2.1)

/-- … among them `tokenize` / `detokenize` of the Integer BASIC and Applesoft tokenizers and the three entry points of the
disassembler -/
example : (A2Verif.Gen.ToolState.toolIntegerTokenizer, A2Verif.Gen.ToolState.entryIntegerTokenizer_tokenize) ∈ historyFreeEntries ∧
    (A2Verif.Gen.ToolState.toolApplesoftTokenizer, A2Verif.Gen.ToolState.entryApplesoftTokenizer_tokenize) ∈ historyFreeEntries := by
  decide +kernel

/-- the minifier keeps `line_map` between calls unless `minify_stage1` resets it: without that reset the SAME request gives
another program after another history (model of the seeded change; the concrete programs are in `Props/C17State.lean`) -/
theorem minifier_output_needs_line_map_reset :
    ∃ (hist : List Model.Minify.Input) (p : List Model.Minify.Line),
      (Model.Minify.minifyS Model.Minify.Cfg.fixed { Model.Minify.Resets.all with lineMap := false }
          (Model.Minify.session Model.Minify.Cfg.fixed { Model.Minify.Resets.all with lineMap := false } Model.Minify.MinSt.fresh hist) ⟨2, p, none⟩).2
        ≠ Model.Minify.minify Model.Minify.Cfg.fixed 2 p :=
  ⟨[⟨2, [⟨10, true, false, [], false, false, false, [], 5, false⟩, ⟨30, false, false, [], false, false, false, [], 6, false⟩], none⟩],
   [⟨10, false, false, [], false, false, false, [], 9, false⟩, ⟨20, false, false, [10], true, false, false, [], 8, false⟩], by decide⟩

/-- with the resets every history gives the fresh answer (`C17.minify_history_independent`) -/
theorem minifier_output_history_free (cfg : Model.Minify.Cfg) (hist : List Model.Minify.Input) (level : Nat) (p : List Model.Minify.Line) :
    (Model.Minify.minifyS cfg Model.Minify.Resets.all (Model.Minify.session cfg Model.Minify.Resets.all Model.Minify.MinSt.fresh hist) ⟨level, p, none⟩).2
      = Model.Minify.minify cfg level p :=
  Model.Minify.minifyS_all_resets cfg _ level p

/-! ## early exits -/

/-- Every iteration over a hash container whose body (or a later loop over a sequence the body filled in hash order,
before any sort) leaves early (`break`, `return`), branches on the length of an accumulator, or uses the filled sequence
positionally, is classified by a REVIEWED table entry whose fingerprint includes those constructs — never by an automatic
"order-free" rule.  Adding such a construct to a classified loop (e.g. a cap on the number of records in
`Records::from_fimg`) gives the site a new fingerprint, so `census_all_classified` fails. -/
theorem census_early_exit_reviewed :
    Gen.HashSites.earlyExit.all (fun r => r.2.1 != 99 && r.2.2 == 1) = true ∧
    Gen.HashSites.earlyExit.all (fun r => Gen.HashSites.sites.any (fun s => s.2.2.1 == r.1 && s.2.2.2 == r.2.1)) = true := by
  decide +kernel

/-- why order matters once there is a cap: inserting the elements of a sequence into a set until it holds `cap` elements
keeps different elements for different orders -/
def capInsert (cap : Nat) : List Nat → List Nat → List Nat
  | acc, [] => acc
  | acc, x :: xs => if cap ≤ acc.length then acc else capInsert cap (if acc.contains x then acc else acc ++ [x]) xs

theorem capped_accumulation_order_matters :
    ¬ ∀ (cap : Nat) (π₁ π₂ : List Nat), π₁.Perm π₂ →
        (capInsert cap [] π₁).Perm (capInsert cap [] π₂) := by
  intro h
  have := h 1 [0, 1] [1, 0] (List.Perm.swap _ _ _)
  revert this
  decide

/-- without a cap (cap ≥ number of elements) the result is the same set in every order — on the witness -/
example : (capInsert 2 [] [0, 1]).Perm (capInsert 2 [] [1, 0]) := by decide

/-! ## the wall clock

"… apart from fields that by design record the current time."  Writing a stamp reads the clock by design; DECODING or
rendering a stamp that is already on the disk must not.  `Gen.ClockSites` (regenerated from the working tree) lists every
read of the wall clock in `src/`; the automatic class `stamp` needs an enclosing function that produces a value to be
written (`pack_*`, `create*`, `format`, `mk*`), anything else a reviewed entry. -/

/-- **Clock reads on the current tree**: every read of the wall clock in `src/` sits in a function that produces a stamp
to be written (or has a reviewed entry), none is unclassified.  A new clock read in a decoding / rendering path
(`unpack_time`, `fmt`, `to_json`, `tree`, …) makes this fail. -/
theorem clock_reads_only_stamp_current_tree :
    Gen.ClockSites.unclassified = [] ∧
    Gen.ClockSites.sites.all (fun r => r.2.2.1 != 99) = true ∧
    Gen.ClockSites.sites.length = Gen.ClockSites.siteCount ∧ 0 < Gen.ClockSites.siteCount := by
  decide +kernel

open A2Verif.Model.Determinism in
/-- why a clock read in the decoder matters: with the "not after today" window the SAME stamp (30-SEP-26) decodes to
2026 on a machine whose local date is 2026-10-01 and to 1926 on one whose local date is 2026-09-29 -/
theorem sliding_century_depends_on_clock :
    ¬ ∀ (t₁ t₂ : Nat × Nat × Nat) (yy mm dd : Nat), centurySliding t₁ yy mm dd = centurySliding t₂ yy mm dd := by
  intro h
  have := h (2026, 10, 1) (2026, 9, 29) 26 9 30
  revert this
  decide

open A2Verif.Model.Determinism in
/-- … and why no test with sane stamps sees it: for every stamp that, read as 20yy, is not after the reader's date (and
for every yy ≥ 79) the window decodes exactly what the pinned code decodes -/
theorem sliding_century_agrees_on_past_stamps (today : Nat × Nat × Nat) (yy mm dd : Nat)
    (h : 79 ≤ yy ∨ dateLe (2000 + yy, mm, dd) today = true) :
    centurySliding today yy mm dd = centuryPinned yy := by
  unfold centurySliding centuryPinned
  rcases h with h | h
  · have : ¬ yy < 79 := by omega
    simp [this]
  · by_cases hy : yy < 79 <;> simp [hy, h]

open A2Verif.Model.Determinism in
/-- the pinned decoder has no clock argument: the century is a function of the stored year -/
example : centuryPinned 26 = 2026 ∧ centuryPinned 78 = 2078 ∧ centuryPinned 79 = 1979 ∧ centuryPinned 99 = 1999 ∧ centuryPinned 0 = 2000 := by
  decide

/-! ## the head position of an image object

"… or other incidental state": a nibble image object remembers where the last sector read left the head, and the next
track reader starts there.  Read-only operations are `readOnlyOp : head → output × head` (`Model/ImageState.lean`); an
OUTPUT may not depend on the head the earlier reads left behind. -/

open A2Verif.ImageState in
/-- the data a sector read returns is the same from every head position (the search goes around the whole track;
address fields distinct) -/
theorem sector_read_head_independent (t : Track) (hd : Distinct t) (h s : Nat) :
    (readSector t h s).1 = (t.find? (fun x => x.1 == s)).map (·.2) :=
  readSector_fst t hd h s

open A2Verif.ImageState in
/-- **Reads do not affect outputs**: if the track solution (`chs_map` / `chss_map`: geometry JSON) and the track dump
(`to_nibbles`) rotate the disk to the reference bit first, then after EVERY history of read-only operations — sector
reads that move the head, solutions, dumps — every read-only operation returns what it returns on a fresh object. -/
theorem reads_do_not_affect_outputs (v : Variant) (hs : v.solutionResets = true) (hdm : v.dumpResets = true)
    (t : Track) (hd : Distinct t) (h0 : Nat) (hist : List Op) (o : Op) :
    (readOnlyOp v t (runOps v t h0 hist) o).1 = (readOnlyOp v t h0 o).1 := by
  cases o with
  | read s => simp [readOnlyOp, readSector_fst t hd]
  | solution => simp [readOnlyOp, trackSolution, hs]
  | dump => simp [readOnlyOp, trackDump, hdm]

open A2Verif.ImageState in
/-- **The track readers on the current tree**: `chs_map`, `chss_map` and `to_nibbles` of both track readers (5.25 and 3.5
inch) call `self.reset()` before anything reads the head position — read from the current source — hence
`reads_do_not_affect_outputs` applies to the code as it is now.  Fails to check when one of the resets disappears (seeded
C20-7 drops the one in `chss_map`, which the images call directly). -/
theorem image_reads_current_tree :
    Variant.current525 = ⟨true, true⟩ ∧ Variant.current35 = ⟨true, true⟩ ∧
    ∀ (t : Track), Distinct t → ∀ (h0 : Nat) (hist : List Op) (o : Op),
      (readOnlyOp Variant.current525 t (runOps Variant.current525 t h0 hist) o).1 = (readOnlyOp Variant.current525 t h0 o).1 ∧
      (readOnlyOp Variant.current35 t (runOps Variant.current35 t h0 hist) o).1 = (readOnlyOp Variant.current35 t h0 o).1 := by
  have h5 : Variant.current525 = ⟨true, true⟩ := by decide
  have h3 : Variant.current35 = ⟨true, true⟩ := by decide
  refine ⟨h5, h3, ?_⟩
  intro t hd h0 hist o
  rw [h5, h3]
  exact ⟨reads_do_not_affect_outputs _ rfl rfl t hd h0 hist o, reads_do_not_affect_outputs _ rfl rfl t hd h0 hist o⟩

open A2Verif.ImageState in
/-- without the reset the geometry of a track depends on which sector was read before: three sectors `0 1 2`; a fresh
object lists `0,1,2`, after reading sector 0 the list is `1,2,0` -/
theorem track_solution_without_reset_depends_on_head :
    ¬ ∀ (t : Track) (hist : List Op), Distinct t →
        (readOnlyOp ⟨false, true⟩ t (runOps ⟨false, true⟩ t 0 hist) .solution).1 = (readOnlyOp ⟨false, true⟩ t 0 .solution).1 := by
  intro h
  have := h [(0, 10), (1, 11), (2, 12)] [.read 0] (by unfold Distinct; decide)
  revert this
  decide

open A2Verif.ImageState in
example : (readOnlyOp ⟨false, true⟩ [(0, 10), (1, 11), (2, 12)] (runOps ⟨false, true⟩ [(0, 10), (1, 11), (2, 12)] 0 [.read 0]) .solution).1 = .ids [1, 2, 0] ∧
    (readOnlyOp ⟨true, true⟩ [(0, 10), (1, 11), (2, 12)] (runOps ⟨true, true⟩ [(0, 10), (1, 11), (2, 12)] 0 [.read 0, .read 2]) .solution).1 = .ids [0, 1, 2] ∧
    (readOnlyOp ⟨true, true⟩ [(0, 10), (1, 11), (2, 12)] 2 (.read 1)).1 = .data (some 11) := by decide

end A2Verif.C20
