import A2Verif.Props.C02
/-!
# C01 — stored file data is read back exactly

`stepOk` is checked by the harness on the real code after every operation.  Here: what an accepted `put`
guarantees about the record the independent reader finds, and that this record (respectively its content)
is still there after any further valid history, "for as long as it is not deleted".
-/
namespace A2Verif.C01

/-- C01, the accepted `put` itself ("once accepted by put, is returned … with every stored chunk at the
same index, the same type, auxiliary/load address and logical length"): the reading after the step has a
FILE entry under the path whose chunks match the stored ones (`chunksMatch`, unfolded below), whose
length is the stored length passed through the file system's rounding rule, and whose type / aux are the
requested ones where the file system records them. -/
theorem put_reads_back {P : FsParams} {pre post : Vol} {p : Bytes} {cs : List (Nat × Bytes)} {eof ty aux : Nat}
    (h : stepOk P pre (.put p cs eof ty aux) true post = true) :
    ∃ f, post.lookup p = some f ∧ chunksMatch cs f.chunks = true ∧ f.eof = P.eofRule eof ∧ f.isDir = false ∧
      (P.keepsType = true → f.ftype = ty) ∧ (P.keepsAux = true → f.aux = aux) := by
  obtain ⟨_, ⟨f, hf, hc, hd, he, ht, ha, _⟩, _⟩ := stepOk_put h
  exact ⟨f, hf, hc, he, hd, ht, ha⟩

/-- C01, what "chunks match" means ("every stored chunk at the same index (holes of sparse files
preserved) … returned chunk data begins with the stored bytes and is extended at most to the allocation
unit"): the returned index list IS the stored index list — so no chunk is missing, none is added, holes
stay holes — and position by position the stored bytes are a prefix of the returned bytes. -/
theorem chunksMatch_iff {cs got : List (Nat × Bytes)} : chunksMatch cs got = true ↔
    got.map (·.1) = cs.map (·.1) ∧
      ∀ (i : Nat) (s g : Nat × Bytes), cs[i]? = some s → got[i]? = some g → s.2 <+: g.2 := by
  unfold chunksMatch
  simp only [Bool.and_eq_true, beq_iff_eq, List.all_eq_true]
  constructor
  · rintro ⟨h1, h2⟩
    refine ⟨h1.symm, fun i s g hs hg => ?_⟩
    have hz : (cs.zip got)[i]? = some (s, g) := List.getElem?_zip_eq_some.2 ⟨hs, hg⟩
    have := h2 (s, g) (List.mem_iff_getElem?.2 ⟨i, hz⟩)
    exact List.prefix_iff_eq_take.2 this.symm
  · rintro ⟨h1, h2⟩
    refine ⟨h1.symm, ?_⟩
    rintro ⟨s, g⟩ hm
    obtain ⟨i, hi⟩ := List.mem_iff_getElem?.1 hm
    obtain ⟨hs, hg⟩ := List.getElem?_zip_eq_some.1 hi
    exact (List.prefix_iff_eq_take.1 (h2 i s g hs hg)).symm

/-- C01: every stored chunk comes back under its index, beginning with the stored bytes. -/
theorem stored_chunk_comes_back {cs got : List (Nat × Bytes)} (h : chunksMatch cs got = true)
    {k : Nat} {bytes : Bytes} (hm : (k, bytes) ∈ cs) : ∃ data, (k, data) ∈ got ∧ bytes <+: data := by
  obtain ⟨h1, h2⟩ := chunksMatch_iff.1 h
  obtain ⟨i, hi⟩ := List.mem_iff_getElem?.1 hm
  have hlen : got.length = cs.length := by simpa using congrArg List.length h1
  have hlt : i < got.length := by
    rw [hlen]; exact (List.getElem?_eq_some_iff.1 hi).1
  have hg : got[i]? = some got[i] := List.getElem?_eq_getElem hlt
  have hk : (got.map (·.1))[i]? = (cs.map (·.1))[i]? := by rw [h1]
  rw [List.getElem?_map, List.getElem?_map, hg, hi] at hk
  simp only [Option.map_some, Option.some.injEq] at hk
  refine ⟨got[i].2, ?_, h2 i (k, bytes) got[i] hi hg⟩
  have : (k, got[i].2) = got[i] := by rw [← hk]
  rw [this]
  exact List.getElem_mem hlt

/-- C01: no other index exists in what comes back. -/
theorem no_other_chunk {cs got : List (Nat × Bytes)} (h : chunksMatch cs got = true)
    {k : Nat} {data : Bytes} (hm : (k, data) ∈ got) : ∃ bytes, (k, bytes) ∈ cs ∧ bytes <+: data := by
  obtain ⟨h1, h2⟩ := chunksMatch_iff.1 h
  obtain ⟨i, hi⟩ := List.mem_iff_getElem?.1 hm
  have hlen : got.length = cs.length := by simpa using congrArg List.length h1
  have hlt : i < cs.length := by
    rw [← hlen]; exact (List.getElem?_eq_some_iff.1 hi).1
  have hc : cs[i]? = some cs[i] := List.getElem?_eq_getElem hlt
  have hk : (got.map (·.1))[i]? = (cs.map (·.1))[i]? := by rw [h1]
  rw [List.getElem?_map, List.getElem?_map, hc, hi] at hk
  simp only [Option.map_some, Option.some.injEq] at hk
  refine ⟨cs[i].2, ?_, h2 i cs[i] (k, data) hc hi⟩
  have : (k, cs[i].2) = cs[i] := by rw [hk]
  rw [this]
  exact List.getElem_mem hlt

/-- C01 over histories ("… by a later get of the same path"): after an accepted `put`, followed by ANY
valid continuation (any length, successful and refused operations) whose operations do not name the path,
the last reading still has exactly the record the `put` left — which matches what was stored. -/
theorem get_returns_last_put {P : FsParams} {pre mid : Vol} {p : Bytes} {cs : List (Nat × Bytes)}
    {eof ty aux : Nat} {tr : List Step}
    (hput : stepOk P pre (.put p cs eof ty aux) true mid = true)
    (hv : validFrom P mid tr) (hq : ∀ s ∈ tr, p ∉ s.op.targets) :
    ∃ f, (finalVol mid tr).lookup p = some f ∧ mid.lookup p = some f ∧
      chunksMatch cs f.chunks = true ∧ f.eof = P.eofRule eof ∧ f.isDir = false ∧
      (P.keepsType = true → f.ftype = ty) ∧ (P.keepsAux = true → f.aux = aux) := by
  obtain ⟨f, hf, hc, he, hd, ht, ha⟩ := put_reads_back hput
  exact ⟨f, C02.bystanders_survive_history hv hq hf hd, hf, hc, he, hd, ht, ha⟩

/-- the same, with the `put` anywhere inside one valid history `t1 ++ put :: t2` -/
theorem get_returns_last_put_in_history {P : FsParams} {v0 mid : Vol} {p : Bytes} {cs : List (Nat × Bytes)}
    {eof ty aux : Nat} {t1 t2 : List Step}
    (hv : validFrom P v0 (t1 ++ ⟨.put p cs eof ty aux, true, mid⟩ :: t2))
    (hq : ∀ s ∈ t2, p ∉ s.op.targets) :
    ∃ f, (finalVol v0 (t1 ++ ⟨.put p cs eof ty aux, true, mid⟩ :: t2)).lookup p = some f ∧
      chunksMatch cs f.chunks = true ∧ f.eof = P.eofRule eof ∧ f.isDir = false ∧
      (P.keepsType = true → f.ftype = ty) ∧ (P.keepsAux = true → f.aux = aux) := by
  obtain ⟨_, h2⟩ := validFrom_append.1 hv
  obtain ⟨f, hf, _, rest⟩ := get_returns_last_put h2.1 h2.2 hq
  refine ⟨f, ?_, rest⟩
  rw [finalVol_append, finalVol_cons]
  exact hf

/-! ## "for as long as it is not deleted": following the content through lock/unlock/retype/rename -/

/-- volume `v` holds, under the name `c`, a file with these chunks and this length -/
def HasContent (v : Vol) (c : Bytes) (chunks : List (Nat × Bytes)) (eof : Nat) : Prop :=
  ∃ g, v.lookup c = some g ∧ g.chunks = chunks ∧ g.eof = eof ∧ g.isDir = false

/-- the name under which a file is to be found after a step: a successful rename of it moves it, a
successful delete of it ends it, nothing else matters -/
def track (cur : Option Bytes) (s : Step) : Option Bytes :=
  match cur with
  | none => none
  | some c =>
    match s.op, s.ok with
    | .delete p, true => if p = c then none else some c
    | .rename p q, true => if p = c then some q else some c
    | _, _ => some c

theorem foldl_track_none (tr : List Step) : tr.foldl track none = none := by
  induction tr with
  | nil => rfl
  | cons s r ih => exact ih

/-- C01/C19, one step: whatever the operation and its result — on this file (lock, unlock, retype, a
refused delete/rename/overwrite) or on any other — the content is found unchanged under the tracked name;
the only way to lose it is a successful delete of this very file. -/
theorem content_step {P : FsParams} {pre : Vol} {s : Step} {c : Bytes} {ch : List (Nat × Bytes)} {e : Nat}
    (h : stepOk P pre s.op s.ok s.post = true) (hc : HasContent pre c ch e) :
    match track (some c) s with
    | some c' => HasContent s.post c' ch e
    | none => s.op = .delete c ∧ s.ok = true := by
  obtain ⟨g, hg, hch, he, hd⟩ := hc
  obtain ⟨op, ok, post⟩ := s
  simp only at h ⊢
  have frame : c ∉ op.targets → HasContent post c ch e :=
    fun hn => ⟨g, stepOk_bystander_lookup h hn hg hd, hch, he, hd⟩
  cases ok with
  | false =>
    have : track (some c) ⟨op, false, post⟩ = some c := by cases op <;> rfl
    rw [this]
    exact ⟨g, sameFiles_lookup (stepOk_refused h) hg hd, hch, he, hd⟩
  | true =>
    cases op with
    | put p cs eof ty aux =>
      show HasContent post c ch e
      by_cases hp : p = c
      · subst hp; rw [(stepOk_put h).1] at hg; cases hg
      · exact frame (by simpa [FsOp.targets] using Ne.symm hp)
    | mkdir p =>
      show HasContent post c ch e
      by_cases hp : p = c
      · subst hp; rw [(stepOk_mkdir h).1] at hg; cases hg
      · exact frame (by simpa [FsOp.targets] using Ne.symm hp)
    | delete p =>
      by_cases hp : p = c
      · subst hp; simp [track]
      · simp only [track, hp, if_false]
        exact frame (by simpa [FsOp.targets] using Ne.symm hp)
    | rename p q =>
      obtain ⟨⟨f, g', hf, hg', _, h1, h2, _, _, h5⟩, hq, _, _⟩ := stepOk_rename h
      by_cases hp : p = c
      · subst hp
        simp only [track, if_true]
        rw [hg] at hf; cases hf
        exact ⟨g', hg', h1.trans hch, h2.trans he, h5.trans hd⟩
      · simp only [track, hp, if_false]
        by_cases hqc : q = c
        · subst hqc
          rcases hq with hpq | hn
          · exact absurd hpq hp
          · rw [hn] at hg; cases hg
        · exact frame (by simp [FsOp.targets, Ne.symm hp, Ne.symm hqc])
    | lock p =>
      show HasContent post c ch e
      by_cases hp : p = c
      · subst hp
        obtain ⟨⟨f, g', hf, hg', _, h1, h2, _, _, _, h6⟩, _⟩ := stepOk_lock h
        rw [hg] at hf; cases hf
        exact ⟨g', hg', h1.trans hch, h2.trans he, h6.trans hd⟩
      · exact frame (by simpa [FsOp.targets] using Ne.symm hp)
    | unlock p =>
      show HasContent post c ch e
      by_cases hp : p = c
      · subst hp
        obtain ⟨⟨f, g', hf, hg', _, h1, h2, _, _, _, h6⟩, _⟩ := stepOk_unlock h
        rw [hg] at hf; cases hf
        exact ⟨g', hg', h1.trans hch, h2.trans he, h6.trans hd⟩
      · exact frame (by simpa [FsOp.targets] using Ne.symm hp)
    | retype p =>
      show HasContent post c ch e
      by_cases hp : p = c
      · subst hp
        obtain ⟨⟨f, g', hf, hg', h1, h2, _, h6⟩, _⟩ := stepOk_retype h
        rw [hg] at hf; cases hf
        exact ⟨g', hg', h1.trans hch, h2.trans he, h6.trans hd⟩
      · exact frame (by simpa [FsOp.targets] using Ne.symm hp)
    | other =>
      show HasContent post c ch e
      exact frame (by simp [FsOp.targets])

/-- C01 over histories, full strength of "for as long as it is not deleted": along ANY valid history —
operations on other files, lock/unlock/retype of this one, refused deletes/renames/overwrites of it,
successful renames of it — the content is found, chunk for chunk and with the same length, under the name
the renames lead to, unless a successful delete of it occurred. -/
theorem content_follows_history {P : FsParams} {tr : List Step} :
    ∀ {v0 : Vol} {c : Bytes} {ch : List (Nat × Bytes)} {e : Nat}, validFrom P v0 tr → HasContent v0 c ch e →
    match tr.foldl track (some c) with
    | some c' => HasContent (finalVol v0 tr) c' ch e
    | none => True := by
  induction tr with
  | nil => intro v0 c ch e _ h; exact h
  | cons s rest ih =>
    intro v0 c ch e hv h0
    have hs := content_step hv.1 h0
    rw [List.foldl_cons, finalVol_cons]
    cases ht : track (some c) s with
    | none => rw [foldl_track_none]; trivial
    | some c' =>
      rw [ht] at hs
      exact ih hv.2 hs

/-- C01 corollary: a history with no successful delete and no successful rename of `p` keeps the content
under `p` — whatever else happened to `p` (lock, unlock, retype, refused attempts) or to other files. -/
theorem content_kept_until_deleted {P : FsParams} {v0 : Vol} {tr : List Step} {p : Bytes}
    {ch : List (Nat × Bytes)} {e : Nat}
    (hv : validFrom P v0 tr) (h0 : HasContent v0 p ch e)
    (hnd : ∀ s ∈ tr, s.ok = true → s.op ≠ .delete p ∧ ∀ q, s.op ≠ .rename p q) :
    HasContent (finalVol v0 tr) p ch e := by
  have hfold : tr.foldl track (some p) = some p := by
    clear hv
    induction tr with
    | nil => rfl
    | cons s rest ih =>
      have hs : track (some p) s = some p := by
        have := hnd s List.mem_cons_self
        obtain ⟨op, ok, post⟩ := s
        cases ok with
        | false => cases op <;> rfl
        | true =>
          have := this rfl
          cases op with
          | delete r =>
            by_cases hr : r = p
            · subst hr; exact absurd rfl this.1
            · simp [track, hr]
          | rename r q =>
            by_cases hr : r = p
            · subst hr; exact absurd rfl (this.2 q)
            · simp [track, hr]
          | _ => rfl
      rw [List.foldl_cons, hs]
      exact ih (fun s hs => hnd s (List.mem_cons_of_mem _ hs))
  have := content_follows_history hv h0
  rw [hfold] at this
  exact this

/-- C01: an accepted `put` followed by any valid history without a successful delete/rename of the path:
the final reading returns chunks matching the stored ones and the stored length (rounded by the FS rule). -/
theorem stored_content_kept_until_deleted {P : FsParams} {pre mid : Vol} {p : Bytes} {cs : List (Nat × Bytes)}
    {eof ty aux : Nat} {tr : List Step}
    (hput : stepOk P pre (.put p cs eof ty aux) true mid = true) (hv : validFrom P mid tr)
    (hnd : ∀ s ∈ tr, s.ok = true → s.op ≠ .delete p ∧ ∀ q, s.op ≠ .rename p q) :
    ∃ g, (finalVol mid tr).lookup p = some g ∧ chunksMatch cs g.chunks = true ∧ g.eof = P.eofRule eof ∧
      g.isDir = false := by
  obtain ⟨f, hf, hc, he, hd, _, _⟩ := put_reads_back hput
  obtain ⟨g, hg, h1, h2, h3⟩ := content_kept_until_deleted hv ⟨f, hf, rfl, rfl, hd⟩ hnd
  exact ⟨g, hg, by rw [h1]; exact hc, by rw [h2]; exact he, h3⟩

/-! ## non-vacuity -/
open VolExample

/-- the example `put B` is accepted by the spec and the stored chunk `[9,9]` comes back as `[9,9,0,0]` -/
example : ∃ f, v1.lookup [66] = some f ∧ chunksMatch [(0, [9, 9])] f.chunks = true ∧ f.eof = 2 ∧ f.isDir = false ∧
    (P0.keepsType = true → f.ftype = 6) ∧ (P0.keepsAux = true → f.aux = 0) :=
  put_reads_back (P := P0) (pre := v0) (show stepOk P0 v0 putB.op true v1 = true by decide)

example : ∃ data, (0, data) ∈ fB.chunks ∧ [9, 9] <+: data :=
  stored_chunk_comes_back (cs := [(0, [9, 9])]) (by decide) (by decide)

/-- `A` (content `[1,2,3,4]`, length 4) is locked, a delete of it is refused, it is unlocked: still there
after six steps; the seventh deletes it. -/
example : HasContent (finalVol v0 [putB, lockA, delAref, renBC, putCref, unlockA]) [65] [(0, [1, 2, 3, 4])] 4 :=
  content_kept_until_deleted (P := P0) (by decide) ⟨fA, by decide, rfl, rfl, rfl⟩ (by
    intro s hs hok
    simp only [List.mem_cons, List.mem_nil_iff, or_false] at hs
    rcases hs with rfl | rfl | rfl | rfl | rfl | rfl <;>
      simp [putB, lockA, delAref, renBC, putCref, unlockA] at hok ⊢)

/-- `B` is renamed to `C`: the content stored as `B` is found under `C` at the end of the whole history -/
example : HasContent (finalVol v1 [lockA, delAref, renBC, putCref, unlockA, delA]) [67] [(0, [9, 9, 0, 0])] 2 :=
  content_follows_history (P := P0) (tr := [lockA, delAref, renBC, putCref, unlockA, delA]) (c := [66])
    (by decide) ⟨fB, by decide, rfl, rfl, rfl⟩

end A2Verif.C01
