import A2Verif.Lemmas.Detok
import A2Verif.Lemmas.DetokTotal
import A2Verif.Lemmas.Retok
import A2Verif.Lemmas.Merlin
/-!
# C14 — Tokenized programs are faithful and re-readable

Property theorems about the executable model `A2Verif.Model.Detok` (tied to `/repo` by the harness
family `c14`).  Clauses of the property and where they are covered:

* *structure* ("each Applesoft link field equal to the address of the following line for the given
  load address, Integer line lengths exact, end marker present, line numbers in order of
  appearance"): `link_field_law`, `links_visit_exactly_the_lines`, `assemble_then_follow_links`,
  `integer_line_lengths_exact` — for **all** lists of tokenized lines and **all** load addresses.
* *re-readable* (the detokenizer must produce a text, not crash, on every stream the tokenizer can
  emit): `detokA_never_panics`, `detokA_never_panics_on_wf`, `detokI_never_panics`,
  `detokI_never_panics_on_assembled`.
* *token tables* ("tokenizers emit tokens from the same maps the detokenizers invert"):
  `applesoft_token_tables_agree`, `integer_token_tables_agree` (re-proved against the generated tables).
* *faithful* (`tokenize (detokenize t) = t` modulo blanks at the head of REM/DATA payloads): this
  involves the tree-sitter parser, which is a parameter; it is checked by the direct oracle of the
  harness on the real code, not proved (see `design/C14.md`, "partial").
-/
namespace A2Verif.C14
open A2Verif.Detok A2Verif.Gen.Tokens

/-! ## structure of the Applesoft token stream -/

/-- **Link-field law** (property clause "each Applesoft link field equal to the address of the
following line for the given load address … end marker present … line numbers in order of
appearance").  For every list of tokenized lines (bodies without `00`, 16 bit line numbers) and every
load address at which the framing of `tokenize` does not overflow 16 bits, the assembled stream is
well formed for that address, scanning it returns exactly the lines, and the line numbers appear in
source order. -/
theorem link_field_law (addr : Nat) (ls : List Line) (t : List Nat) (hls : LinesOK ls)
    (h : assembleA addr ls = .ok t) :
    WF_A addr t = true ∧ scanA (t.length + 1) addr t = some ls ∧ lineNumsA addr t = ls.map (·.num) := by
  have hs := scanA_assembleA ls addr t hls h (t.length + 1) (Nat.lt_succ_self _)
  simp [WF_A, lineNumsA, hs]

example : LinesOK [⟨10, [151]⟩, ⟨20, [186, 34, 72, 73, 34]⟩] := by
  intro l hl; simp at hl; rcases hl with rfl | rfl <;> simp

example : assembleA 2049 [⟨10, [151]⟩, ⟨20, [186, 34, 72, 73, 34]⟩]
    = .ok [7, 8, 10, 0, 151, 0, 17, 8, 20, 0, 186, 34, 72, 73, 34, 0, 0, 0] := by decide

/-- the framing overflows (Rust: `u16` addition panics in the debug profile) when the program does
not fit below 64K: concrete instance -/
example : assembleA 65520 [⟨10, [151]⟩, ⟨20, [186, 34, 72, 73, 34]⟩] = .panic := by decide

/-- **Following the links visits exactly the lines** (what the ROM does with a well-formed
stream): if `WF_A addr t`, then walking the link fields by address arithmetic from `addr` visits
exactly the lines found by scanning for the `00` terminators, in the same order, and ends on the
`00 00` marker with nothing after it. -/
theorem links_visit_exactly_the_lines (addr : Nat) (t : List Nat) (h : WF_A addr t = true) :
    ∃ ls, scanA (t.length + 1) addr t = some ls ∧ walkA (t.length + 1) addr t = some ls := by
  unfold WF_A at h
  cases hs : scanA (t.length + 1) addr t with
  | none => simp [hs] at h
  | some ls => exact ⟨ls, rfl, walkA_of_scanA _ _ _ _ hs _ (Nat.lt_succ_self _)⟩

example : WF_A 2049 [7, 8, 10, 0, 151, 0, 17, 8, 20, 0, 186, 34, 72, 73, 34, 0, 0, 0] = true := by decide
/-- a wrong link field, a missing end marker and a wrong load address are all rejected -/
example : WF_A 2049 [8, 8, 10, 0, 151, 0, 17, 8, 20, 0, 186, 34, 72, 73, 34, 0, 0, 0] = false := by decide
example : WF_A 2049 [7, 8, 10, 0, 151, 0, 17, 8, 20, 0, 186, 34, 72, 73, 34, 0, 0] = false := by decide
example : WF_A 2050 [7, 8, 10, 0, 151, 0, 17, 8, 20, 0, 186, 34, 72, 73, 34, 0, 0, 0] = false := by decide

/-- assembled streams are traversed correctly by the link walk: `walk ∘ assemble = id` -/
theorem assemble_then_follow_links (addr : Nat) (ls : List Line) (t : List Nat) (hls : LinesOK ls)
    (h : assembleA addr ls = .ok t) : walkA (t.length + 1) addr t = some ls := by
  have hs := scanA_assembleA ls addr t hls h (t.length + 1) (Nat.lt_succ_self _)
  exact walkA_of_scanA _ _ _ _ hs _ (Nat.lt_succ_self _)

/-! ## structure of the Integer BASIC token stream -/

/-- **Integer line lengths exact**: for every list of tokenized lines that `tokenize` frames without
refusing (number + body ≤ 126 bytes), adding the length bytes walks exactly the records, every record
ends in the EOL token `01`, and the chain ends exactly at the end of the program. -/
theorem integer_line_lengths_exact (ls : List Line) (t : List Nat) (hn : ∀ l ∈ ls, l.num < 65536)
    (h : assembleI ls = .ok t) : walkI (t.length + 1) t = some ls :=
  walkI_assembleI ls t hn h _ (Nat.lt_succ_self _)

example : assembleI [⟨10, [97, 40, 200, 201, 41]⟩, ⟨20, [81]⟩]
    = .ok [9, 10, 0, 97, 40, 200, 201, 41, 1, 5, 20, 0, 81, 1] := by decide
example : WF_I [9, 10, 0, 97, 40, 200, 201, 41, 1, 5, 20, 0, 81, 1] = true := by decide
/-- a length byte that is off by one is rejected -/
example : WF_I [10, 10, 0, 97, 40, 200, 201, 41, 1, 5, 20, 0, 81, 1] = false := by decide
/-- a line of 127 bytes (number + body) is refused, as in the Rust -/
example : assembleI [⟨10, List.replicate 125 193⟩] = .err := by decide +kernel

/-! ## the detokenizers never crash on what the tokenizers emit -/

theorem endsIn_append {z : Nat} : ∀ (x y : List Nat), y ≠ [] → endsIn z y = true → endsIn z (x ++ y) = true := by
  intro x
  induction x with
  | nil => intro y _ h; simpa using h
  | cons a x ih =>
    intro y hy h
    have := ih y hy h
    cases hxy : x ++ y with
    | nil => simp at hxy; exact absurd hxy.2 hy
    | cons c t => rw [hxy] at this; simpa [endsIn, hxy] using this

theorem scanA_endsIn : ∀ (fuel addr : Nat) (t : List Nat) (ls : List Line),
    scanA fuel addr t = some ls → t ≠ [] ∧ endsIn 0 t = true := by
  intro fuel
  induction fuel with
  | zero => intro addr t ls h; simp [scanA] at h
  | succ f ih =>
    intro addr t ls h
    unfold scanA at h
    split at h
    · simp [endsIn]
    · rename_i lk0 lk1 n0 n1 rest
      cases hs : splitZero rest with
      | none => simp [hs] at h
      | some p =>
        obtain ⟨body, rest'⟩ := p
        simp only [hs] at h
        split at h
        · cases hr : scanA f (addr + body.length + 5) rest' with
          | none => simp [hr] at h
          | some ls' =>
            obtain ⟨hne, he⟩ := ih _ _ _ hr
            obtain ⟨e, _⟩ := splitZero_spec rest body rest' hs
            subst e
            refine ⟨by simp, ?_⟩
            have : endsIn 0 ([lk0, lk1, n0, n1] ++ body ++ [0] ++ rest') = true :=
              endsIn_append _ _ hne he
            simpa using this
        · simp at h
    · simp at h

/-- **`detokA` never panics on a stream that ends in `00`** (in particular the fuel
`img.length + 1` of the model is sufficient): the only index the Rust does not guard,
`img[addr]` after an unterminated string (tokenizer.rs:180), is reached only if no `00` follows. -/
theorem detokA_never_panics (t : List Nat) (h : endsIn 0 t = true) : detokA t ≠ .panic :=
  (progA_good (t.length + 1) t 0 0 (Nat.lt_succ_self _) h).not_panic

/-- **`detokA` never panics on well-formed input**, for every load address -/
theorem detokA_never_panics_on_wf (addr : Nat) (t : List Nat) (h : WF_A addr t = true) :
    detokA t ≠ .panic := by
  unfold WF_A at h
  cases hs : scanA (t.length + 1) addr t with
  | none => simp [hs] at h
  | some ls => exact detokA_never_panics t (scanA_endsIn _ _ _ _ hs).2

/-- everything `tokenize` can assemble is detokenized without a crash -/
theorem detokA_never_panics_on_assembled (addr : Nat) (ls : List Line) (t : List Nat) (hls : LinesOK ls)
    (h : assembleA addr ls = .ok t) : detokA t ≠ .panic :=
  detokA_never_panics_on_wf addr t (link_field_law addr ls t hls h).1

example : detokA [7, 8, 10, 0, 151, 0, 17, 8, 20, 0, 186, 34, 72, 73, 34, 0, 0, 0]
    = .ok [49, 48, 32, 32, 72, 79, 77, 69, 32, 10, 50, 48, 32, 32, 80, 82, 73, 78, 84, 32, 34, 72, 73, 34, 10] := by
  decide +kernel
/-- DESIGN §9 item 18 on the model: an unterminated string at the very end of the input makes the
Rust index out of range (`01 08 0A 00 22 41`) unless the source guards the index (the translator records
which, `Gen.Tokens.aQuoteIndexGuarded`); without the guard the hypothesis of `detokA_never_panics` is needed -/
example : detokA [1, 8, 10, 0, 34, 65] = (if aQuoteIndexGuarded then .ok [49, 48, 32, 34, 65, 10] else .panic) := by
  decide +kernel
example : detokI [5, 10, 0, 40, 193] = (if iQuoteIndexGuarded then .err else .panic) := by decide +kernel
/-- unknown token: a refusal, not a panic -/
example : detokA [7, 8, 10, 0, 250, 0, 0, 0] = .err := by decide +kernel

theorem walkI_endsIn : ∀ (fuel : Nat) (t : List Nat) (ls : List Line), walkI fuel t = some ls → endsIn 1 t = true := by
  intro fuel
  induction fuel with
  | zero => intro t ls h; simp [walkI] at h
  | succ f ih =>
    intro t ls h
    unfold walkI at h
    split at h
    · simp [endsIn]
    · rename_i len rest
      split at h
      · simp at h
      · split at h
        · rename_i n0 n1 more htake
          split at h
          · rename_i hc
            cases hr : walkI f (rest.drop (len - 1)) with
            | none => simp [hr] at h
            | some ls' =>
              have he := ih _ _ hr
              have hsplit : rest = (n0 :: n1 :: more) ++ rest.drop (len - 1) := by
                rw [← htake]; exact (List.take_append_drop _ _).symm
              have hmore : more ≠ [] := by
                intro hm; rw [hm] at hc; simp at hc
              have hl : more.getLast? = some iEol := hc.2
              have hem : endsIn 1 more = true := by
                clear ih h hr he htake hsplit hc
                induction more with
                | nil => exact absurd rfl hmore
                | cons a m ihm =>
                  cases m with
                  | nil => simp [iEol] at hl; simp [endsIn, hl]
                  | cons c m' =>
                    have : (c :: m').getLast? = some iEol := by simpa using hl
                    simpa [endsIn] using ihm (by simp) this
              generalize rest.drop (len - 1) = rest' at hr he hsplit
              rw [hsplit]
              by_cases hr' : rest' = []
              · subst hr'
                have h2 : endsIn 1 ([len, n0, n1] ++ more) = true := endsIn_append _ _ hmore hem
                simpa using h2
              · have h2 : endsIn 1 ((len :: n0 :: n1 :: more) ++ rest') = true := endsIn_append _ _ hr' he
                simpa using h2
          · simp at h
        · simp at h

/-- **`detokI` never panics on a stream that ends in the EOL token** -/
theorem detokI_never_panics (t : List Nat) (h : endsIn 1 t = true) : detokI t ≠ .panic :=
  (progI_good (t.length + 1) t 0 0 [] (Nat.lt_succ_self _) h).not_panic

/-- everything the Integer BASIC `tokenize` can assemble is detokenized without a crash -/
theorem detokI_never_panics_on_assembled (ls : List Line) (t : List Nat) (hn : ∀ l ∈ ls, l.num < 65536)
    (h : assembleI ls = .ok t) : detokI t ≠ .panic :=
  detokI_never_panics t (walkI_endsIn _ _ _ (integer_line_lengths_exact ls t hn h))

example : detokI [9, 10, 0, 97, 40, 200, 201, 41, 1, 5, 20, 0, 81, 1]
    = .ok [49, 48, 32, 80, 82, 73, 78, 84, 32, 34, 72, 73, 34, 10, 50, 48, 32, 69, 78, 68, 32, 10] := by
  decide +kernel

/-! ## token tables (regenerated from `token_maps.rs` on every run) -/

def nodupB : List Nat → Bool
  | [] => true
  | a :: l => !l.contains a && nodupB l

/-- **Applesoft `TOK_MAP` and `DETOK_MAP` are one bijection**: token bytes are pairwise distinct in
both maps, are negative ASCII (`≥ 128`), every byte the tokenizer can emit has a spelling, both
maps have the same size, and every spelling is non-empty printable ASCII without blanks (so that the
blank-delimited listing re-lexes). -/
theorem applesoft_token_tables_agree :
    nodupB (applesoftTok.map (·.2)) = true ∧ nodupB (applesoftDetok.map (·.1)) = true ∧
    applesoftTok.length = applesoftDetok.length ∧
    applesoftTok.all (fun p => (applesoftDetok.lookup p.2).isSome) = true ∧
    applesoftDetok.all (fun p => 128 ≤ p.1 && p.1 < 256 && !p.2.isEmpty && p.2.all (fun c => 32 < c && c < 127)) = true ∧
    applesoftDetok.lookup aRemTok = some [114, 101, 109] ∧ applesoftDetok.lookup aDataTok = some [100, 97, 116, 97] := by
  decide +kernel

/-- **Integer BASIC `TOK_MAP` and `DETOK_MAP` agree**: detokenizer keys pairwise distinct, positive
ASCII (`< 128`), never the EOL byte; tokenizer bytes pairwise distinct; every byte the tokenizer can
emit has a spelling; spellings non-empty printable ASCII; REM / quotes are the bytes the detokenizer
special-cases. -/
theorem integer_token_tables_agree :
    nodupB (integerTok.map (·.2)) = true ∧ nodupB (integerDetok.map (·.1)) = true ∧
    integerTok.length = integerDetok.length ∧
    integerTok.all (fun p => (integerDetok.lookup p.2).isSome) = true ∧
    integerDetok.all (fun p => p.1 < 128 && p.1 != iEol && !p.2.isEmpty && p.2.all (fun c => 32 < c && c < 127)) = true ∧
    integerDetok.lookup iRemTok = some [114, 101, 109] ∧
    integerDetok.lookup iOpenQuote = some [34] ∧ integerDetok.lookup iCloseQuote = some [34] := by
  decide +kernel

/-! ## round 2: the listing is re-read to the same bytes (model level) -/

/-- **Payload round trip, all bytes, all three contexts** (property clause "tokenizes to the same
bytes", for strings, REM and DATA payloads *including escapes and escape look-alikes*).
Let `b'` be what follows a `"`/REM/DATA token up to the end of the line (`00`), `q` the quote count the
detokenizer starts with.  Then (1) the Rust escape routine — whose look-ahead runs into the rest of the
image `tl` — stops exactly at the end of the payload `p` and prints the payload-only listing `escP p`;
(2) the parser's scan of the listing (to the closing quote / unquoted colon / end of line) finds
exactly that text again, whatever follows it; (3) `parse_escaped_ascii` turns it back into `p`.
No condition on the payload bytes other than `< 256` and `≠ 00`: in particular a literal backslash
followed by `xHH` for every hex digit in both cases is covered (`\x5c` is printed and re-read). -/
theorem payload_roundtrip (ctx : Ctx) (b' tl w : List Nat) (q : Nat)
    (hb : ∀ x ∈ b', x < 256 ∧ x ≠ 0)
    (hw1 : (spanA ctx (termOf ctx) q b').2 = [] → ∃ w', w = 10 :: w')
    (hw2 : ∀ c z, (spanA ctx (termOf ctx) q b').2 = c :: z → (c = 34 ∨ c = 58) ∧ ∃ w', w = c :: w') :
    let p := (spanA ctx (termOf ctx) q b').1
    let e := escA ctx (termOf ctx) (b' ++ 0 :: tl) q
    e.2 = (spanA ctx (termOf ctx) q b').2 ++ 0 :: tl ∧
    (spanT ctx q (e.1 ++ w)).2 = w ∧
    unescA (spanT ctx q (e.1 ++ w)).1 = p := by
  intro p e
  have h1 := escA_spanA ctx tl b' q (fun x hx => (hb x hx).2)
  have h2 := spanT_escP ctx b' q w (fun x hx => (hb x hx).1) hw1 hw2
  have hp : ∀ x ∈ p, x < 256 := by
    intro x hx
    have hs := (spanA_split ctx (termOf ctx) b' q).1
    exact (hb x (by rw [← hs]; exact List.mem_append_left _ hx)).1
  have h3 := unescA_escP p hp
  show (escA ctx (termOf ctx) (b' ++ 0 :: tl) q).2 = _ ∧
    (spanT ctx q ((escA ctx (termOf ctx) (b' ++ 0 :: tl) q).1 ++ w)).2 = w ∧
    unescA (spanT ctx q ((escA ctx (termOf ctx) (b' ++ 0 :: tl) q).1 ++ w)).1 = p
  rw [h1]
  refine ⟨rfl, ?_, ?_⟩
  · show (spanT ctx q (escP (spanA ctx (termOf ctx) q b').1 ++ w)).2 = w
    rw [h2]
  · show unescA (spanT ctx q (escP (spanA ctx (termOf ctx) q b').1 ++ w)).1 = p
    rw [h2]; exact h3

/-- a string `"\x0F"` typed as backslash, `x`, `0`, `F` (bytes `5C 78 30 46`) followed by its closing quote:
listed as `\x5cx0F`, re-read as the same four bytes -/
example : (escA .str [34, 0] ([92, 120, 48, 70, 34] ++ 0 :: [0, 0]) 1).1 = [92, 120, 53, 99, 120, 48, 70] := by
  decide +kernel
example : unescA [92, 120, 53, 99, 120, 48, 70] = [92, 120, 48, 70] := by decide +kernel
/-- without the escaped backslash the listing `\x0F` would be re-read as the single byte `0F` -/
example : unescA [92, 120, 48, 70] = [15] := by decide +kernel

/-- **`DETOK_MAP` is inverted by the keyword lookup of the reference tokenizer**: every upper-case
spelling is found again and gives its own token byte; no spelling contains a blank or a line end (so a
blank-delimited keyword of the listing is one word) -/
theorem keyword_lookup_inverts_detok_map :
    applesoftDetok.all (fun p => lookupKw (upper p.2) == some p.1 &&
      (upper p.2).all (fun c => c != 32 && c != 10)) = true := by
  decide +kernel

/-- the round-trip statement of the property on the model, as a decidable check of one stream:
in-class, detokenizes, and the reference tokenizer returns `stripHead t` -/
def roundTripHolds (addr : Nat) (t : List Nat) : Bool :=
  match detokA t with
  | .ok s => retokA addr s == stripHeadA addr t
  | _ => false

/- FULL (not proved, see `design/C14.md`):
   theorem retokA_detokA (addr : Nat) (t : List Nat) (h : WF_A addr t = true) (hc : classA addr t = true) :
       roundTripHolds addr t = true
   Proved parts: `payload_roundtrip` (all payload bytes, all contexts), `keyword_lookup_inverts_detok_map`,
   `link_field_law` (re-assembly).  Missing: the induction over the items of a line that glues them
   (line number, code characters, keyword items, blank stripping after REM/DATA).  The statement is
   evaluated by the driver op `c14 rtA` on every token stream the real tokenizer produces in the harness. -/

/-- instances of the full statement (strings with escapes and a look-alike, REM with head blanks, DATA with
a quoted colon followed by a statement, keywords, an unterminated string) -/
def roundTripHoldsLines (addr : Nat) (ls : List Line) : Bool :=
  match assembleA addr ls with
  | .ok t => WF_A addr t && classA addr t && roundTripHolds addr t
  | _ => false

theorem retokA_detokA_partial :
    roundTripHoldsLines 2049 [⟨10, [151]⟩, ⟨20, [186, 34, 72, 73, 34]⟩] = true ∧
    roundTripHoldsLines 16384
      [⟨10, [186, 34, 92, 120, 48, 70, 13, 255, 34, 59, 65]⟩,          -- PRINT "\x0F<CR><FF>";A  (look-alike)
       ⟨20, [178, 32, 32, 92, 120, 52]⟩,                                 -- REM ␣␣\x4
       ⟨30, [131, 32, 34, 58, 34, 44, 92, 120, 102, 102, 32, 58, 186, 65, 36]⟩,  -- DATA ␣":",\xff␣:PRINT A$
       ⟨40, [186, 34, 72, 73]⟩] = true := by                             -- PRINT "HI  (unterminated)
  decide +kernel

/-! ## round 2: Integer BASIC number token -/

theorem dec_head_is_digit : ∀ hi : Fin 128, ∀ lo : Fin 256,
    48 ≤ (dec (lo.val + 256 * hi.val)).headD 0 ∧ (dec (lo.val + 256 * hi.val)).headD 0 ≤ 57 := by
  decide +kernel

/-- **The header byte of an Integer BASIC number token comes from the value**: `numTokI v` is a function
of the value alone (typed leading zeros or blanks cannot matter); its header is `B0 + d` where `'0'+d` is
the first character of the decimal listing of `v` — the digit the listing starts with — so it lies in
`B0..B9`; the two value bytes are `v` little endian.  All 32768 values `v = lo + 256·hi`. -/
theorem integer_number_token_header_from_value (hi : Fin 128) (lo : Fin 256) :
    numTokI (lo.val + 256 * hi.val) = [176 + firstDigit (lo.val + 256 * hi.val), lo.val, hi.val] ∧
    48 + firstDigit (lo.val + 256 * hi.val) = (dec (lo.val + 256 * hi.val)).headD 0 ∧
    firstDigit (lo.val + 256 * hi.val) ≤ 9 := by
  have hd := dec_head_is_digit hi lo
  have h1 : (lo.val + 256 * hi.val) % 256 = lo.val := by have := lo.isLt; omega
  have h2 : (lo.val + 256 * hi.val) / 256 = hi.val := by have := lo.isLt; omega
  refine ⟨by simp [numTokI, h1, h2], ?_, ?_⟩
  · unfold firstDigit
    cases hdec : dec (lo.val + 256 * hi.val) with
    | nil => rw [hdec] at hd; simp at hd
    | cons d _ => rw [hdec] at hd; simp at hd ⊢; omega
  · unfold firstDigit
    cases hdec : dec (lo.val + 256 * hi.val) with
    | nil => simp
    | cons d _ => rw [hdec] at hd; simp at hd ⊢; omega

/-- the listing of a number token does not depend on the header, only on the value; a stream whose
header digit disagrees with the value (`B0 07 00` for 7, what a tokenizer that looks at the typed text
`007` would emit) is not well formed -/
example : numTokI 7 = [183, 7, 0] ∧ numTokI 10 = [177, 10, 0] ∧ numTokI 0 = [176, 0, 0] := by decide
example : WF_I ([8, 10, 0, 95] ++ numTokI 10 ++ [1]) = true := by decide +kernel
example : WF_I [8, 10, 0, 95, 176, 10, 0, 1] = false := by decide +kernel
example : detokI [8, 10, 0, 95, 177, 10, 0, 1] = .ok [49, 48, 32, 71, 79, 84, 79, 32, 49, 48, 10] := by decide +kernel

/-! ## round 2: Merlin -/

open A2Verif.Merlin in
/-- **Merlin: the detokenizer is total on well-formed streams** (negative ASCII or blank, lines of at
most 126 bytes ended by `8D`): it never refuses -/
theorem merlin_detok_total_on_wf (t : List Nat) (h : WF_M t = true) : (detokM t).isOk = true := by
  unfold detokM
  split
  · rfl
  · exact detokLoop_wf t 0 [] h

open A2Verif.Merlin in
/-- **Merlin line format round trip (model)**: a line given as its columns `c :: cs` (label, opcode,
operand, comment; any printable ASCII, blanks inside strings and comments allowed) is encoded as
columns joined by single `A0` bytes, every character with the high bit set except blanks, `8D` at the
end; the detokenizer's decoding loop recovers exactly these columns (what it hands to the column
formatter is `c :: cs` again) and the listed line is the formatter's padding of them.  Holds in front
of any rest of the stream `X`. -/
theorem merlin_line_format_roundtrip (c : List Nat) (cs : List (List Nat)) (X : List Nat)
    (h : ∀ col ∈ c :: cs, ∀ x ∈ col, colCharOK x = true) :
    detokLoop (encLine (c :: cs) ++ X) [] =
      (detokLoop X []).map fun tl => trimEnd (fmtCols 0 (c :: cs)) ++ [10] ++ tl :=
  detok_encLine c cs X h

open A2Verif.Merlin in
/-- `LOOP LDA #$00 ;C` (4 columns): encoded bytes and listing with the default column widths 9/6/11 -/
example : encLine [[76, 79, 79, 80], [76, 68, 65], [35, 36, 48, 48], [59, 67]]
    = [204, 207, 207, 208, 160, 204, 196, 193, 160, 163, 164, 176, 176, 160, 187, 195, 141] := by decide
open A2Verif.Merlin in
example : detokM [204, 207, 207, 208, 160, 204, 196, 193, 160, 163, 164, 176, 176, 160, 187, 195, 141]
    = .ok ([76, 79, 79, 80] ++ blanks 5 ++ [76, 68, 65] ++ blanks 3 ++ [35, 36, 48, 48] ++ blanks 7 ++ [59, 67, 10]) := by
  decide +kernel
open A2Verif.Merlin in
/-- positive ASCII other than blank / tab is refused -/
example : detokM [204, 65, 141] = .err := by decide +kernel

/- FULL (not proved): `tokenize (detokenize t) = t` for Merlin needs a model of the column parser
   (which blanks of the padded listing separate columns and which belong to strings / comments); the
   parser is a parameter.  Checked by the direct oracle on the real code (`c14/merlin/retokenize-differs`). -/

end A2Verif.C14
