import A2Verif.Props.C09Img
/-!
# Property C06, image half: a saved image reloads — after the image metadata was edited

The file-system theorems of C06 speak about what is read from the saved units.  This module adds the container clause that
the seeded change C06-4 violated: for TD0, whatever notes edits, saves and sector writes preceded, the bytes of the next save
load again (so the volume on it is there at all), with the units the tracks held.
-/
namespace A2Verif.C06
open A2Verif.Model.C09Td0 A2Verif.Model.C08Td0 A2Verif.Lemmas.C09Td0

/-- **C06, "serialising the image and loading the bytes again … yields the same …"**, TD0 container, after any history of
notes edits / saves / sector writes: loading succeeds and returns the very tracks (hence every sector the file system wrote)
and the edited notes. -/
theorem td0_edited_image_reloads (x y : Image) (h : ImageWf x) (r : A2Verif.C09.Td0Reach x y) :
    ∃ z, fromBytesNormal (saveImg y).1 = some z ∧ z.tracks = y.tracks.map canonTrack ∧
      z.comment.map (·.text) = y.comment.map (·.text) := by
  obtain ⟨_, h2, h3, _⟩ := A2Verif.C09.td0_any_history_reloads x y h r
  exact ⟨canon y, h2, rfl, h3⟩

end A2Verif.C06
