import A2Verif.Lemmas.C08Imd
import A2Verif.Lemmas.C08Td0
/-!
# Property C08 on the sector-record containers IMD and TD0, tracks with ANY mix of record types

Models: `Model/C08Imd.lean`, `Model/C08Td0.lean` (transcriptions of `read_sector` / `write_sector` of src/img/imd.rs and
src/img/td0.rs with the head position — and for IMD the cached buffer offset — carried between accesses), tied to
the real code by the op sequences `c08 imdseq|td0seq` on images that an independent encoder builds from structured
descriptions (harness/src/fam/c08.rs, `mod mix`).
-/
namespace A2Verif.C08

section imd
open A2Verif.Model.C09Imd A2Verif.Model.C08Imd A2Verif.Model.C08Ring
open A2Verif.Lemmas.C09Imd A2Verif.Lemmas.C08Imd A2Verif.Lemmas.C08Ring

theorem imd_headPos_lt (t : TrackSt) (recs : List Sec) (h : Inv t recs) (hn : 0 < recs.length) :
    t.headPos < t.trk.sectorMap.length := by
  rw [h.map]; exact h.pos (by intro h0; simp [h0] at hn)

/-- **C08, IMD, the search.**  On a track whose records have any mix of types (`Inv`: the buffer is the concatenation
of well-formed records of different sizes and the cached offset is the offset of the record under the head), wherever
the head stands, the search loop of `read_sector` / `write_sector` does not panic and stops on record `i` with the
right buffer offset, if `i` carries the wanted id and no record that passes under the head before it does
(duplicated ids: the first one in rotation order, as on the real drive). -/
theorem imd_seek_first_match (t : TrackSt) (recs : List Sec) (h : Inv t recs) (i sec : Nat) (hi : i < recs.length)
    (hid : t.trk.sectorMap[i]? = some sec)
    (hfirst : ∀ j, j < recs.length → dist recs.length t.headPos j < dist recs.length t.headPos i →
      t.trk.sectorMap[j]? ≠ some sec) :
    seek sec t.trk.sectorMap.length t = .found (st t recs i) := by
  have hn : 0 < recs.length := by omega
  have hp := imd_headPos_lt t recs h hn
  rw [seek_eq t recs h hn]
  have hm := h.map
  rw [ringSeek_first t.trk.sectorMap sec _ t.headPos i hp (by omega) hid
    (by intro j hj; rw [hm]; exact hfirst j (by omega)) (by rw [hm]; exact dist_lt _ _ _ (by omega) hi)]

/-- with pairwise different sector ids (the normal case) the record found is THE record with that id -/
theorem imd_seek_found (t : TrackSt) (recs : List Sec) (h : Inv t recs) (i sec : Nat) (hi : i < recs.length)
    (hid : t.trk.sectorMap[i]? = some sec) (hnd : t.trk.sectorMap.Nodup) :
    seek sec t.trk.sectorMap.length t = .found (st t recs i) := by
  have hn : 0 < recs.length := by omega
  have hp := imd_headPos_lt t recs h hn
  rw [seek_eq t recs h hn, ringSeek_nodup t.trk.sectorMap sec t.headPos i hp (by rw [h.map]; exact hi) hid hnd]

/-- **C08, IMD, reading** (*"data … is exactly what is read back"*, *"invalid addresses are refused"*).  For every
track with any mix of record types, every head position and every sector id on the track: a record with a data
area (types 1, 3, 5, 7 — compressed records were expanded to these at load time) is read completely and exactly,
whatever lies in front of it; a "data unavailable" record (type 0) is refused with an error; nothing changes but the
head position, and the track stays consistent. -/
theorem imd_read_sector (t : TrackSt) (recs : List Sec) (h : Inv t recs) (i sec : Nat) (hi : i < recs.length)
    (hid : t.trk.sectorMap[i]? = some sec) (hnd : t.trk.sectorMap.Nodup) :
    readTrack t sec = (if hasData recs[i].code then .ok recs[i].data else .err, st t recs i) ∧
      Inv (st t recs i) recs ∧ (st t recs i).trk = t.trk :=
  ⟨read_at t recs h i hi sec (imd_seek_found t recs h i sec hi hid hnd), st_inv t recs h i hi, rfl⟩

/-- **C08, IMD, writing.**  A write to a record with a data area succeeds and replaces exactly the data of that record
by the zero-padded / truncated data (`quantize`): the new buffer is the concatenation of the same records with
record `i` updated — every other record, its type byte included, is bit-identical, wherever it lies. -/
theorem imd_write_sector (t : TrackSt) (recs : List Sec) (h : Inv t recs) (i sec : Nat) (hi : i < recs.length)
    (hid : t.trk.sectorMap[i]? = some sec) (hnd : t.trk.sectorMap.Nodup) (dat : List Nat)
    (hc : hasData recs[i].code = true) :
    ∃ t', writeTrack t sec dat = (.ok (), t') ∧
      Inv t' (recs.set i ⟨recs[i].code, quantize dat (secSize t.trk.shift)⟩) ∧
      t'.trk = { t.trk with buf := flatten (recs.set i ⟨recs[i].code, quantize dat (secSize t.trk.shift)⟩) } := by
  obtain ⟨t', h1, h2, _, h4⟩ := (write_at t recs h i hi sec dat (imd_seek_found t recs h i sec hi hid hnd)).1 hc
  exact ⟨t', h1, h2, h4⟩

/-- **C08, IMD, an unavailable sector** is handled as the source says: reads and writes are refused with an error, and
the refusal changes nothing on the track (the property's *"invalid addresses are refused"*: the sector has no data
area, so it is not a valid address of the image). -/
theorem imd_unavailable_refused (t : TrackSt) (recs : List Sec) (h : Inv t recs) (i sec : Nat) (hi : i < recs.length)
    (hid : t.trk.sectorMap[i]? = some sec) (hnd : t.trk.sectorMap.Nodup) (dat : List Nat)
    (hc : recs[i].code = 0) :
    readTrack t sec = (.err, st t recs i) ∧ writeTrack t sec dat = (.err, st t recs i) ∧
      Inv (st t recs i) recs ∧ (st t recs i).trk = t.trk := by
  have hs := imd_seek_found t recs h i sec hi hid hnd
  have hf : hasData recs[i].code = false := by rw [hc]; rfl
  refine ⟨?_, (write_at t recs h i hi sec dat hs).2 hf, st_inv t recs h i hi, rfl⟩
  rw [read_at t recs h i hi sec hs, hf]; rfl

/-- **C08, IMD, a sector id that is not on the track** is refused by reads and writes, without panic, whatever the mix
of records the head passes on its revolution; the track is unchanged. -/
theorem imd_absent_refused (t : TrackSt) (recs : List Sec) (h : Inv t recs) (sec : Nat) (dat : List Nat)
    (hab : ∀ j : Nat, t.trk.sectorMap[j]? ≠ some sec) :
    ∃ t', readTrack t sec = (.err, t') ∧ writeTrack t sec dat = (.err, t') ∧ Inv t' recs ∧ t'.trk = t.trk := by
  by_cases hn : 0 < recs.length
  · have hp := imd_headPos_lt t recs h hn
    have hno := ringSeek_absent t.trk.sectorMap sec t.trk.sectorMap.length t.headPos hab
    have hq := ringSeek_pos t.trk.sectorMap sec t.trk.sectorMap.length t.headPos hp
    have hse := seek_eq t recs h hn sec t.trk.sectorMap.length
    generalize hr : ringSeek t.trk.sectorMap sec t.trk.sectorMap.length t.headPos = r at hno hq hse
    obtain ⟨f, q⟩ := r
    simp only at hno hq
    subst hno
    simp only at hse
    refine ⟨st t recs q, ?_, ?_, st_inv t recs h q (by rw [← h.map]; exact hq), rfl⟩
    · simp only [readTrack, hse]
    · simp only [writeTrack, hse]
  · have h0 : t.trk.sectorMap.length = 0 := by rw [h.map]; omega
    refine ⟨t, ?_, ?_, h, rfl⟩
    · simp only [readTrack, h0, seek]
    · simp only [writeTrack, h0, seek]

/-- **C08, IMD, read-after-write and frame** for every track (any mix of record types), every head position, every
sector with a data area and every data: after the write, the sector reads as the padded data, and every other sector id of
the track reads exactly as it would have before — its data if it has any, the refusal if it is unavailable. -/
theorem imd_read_after_write_and_frame (t : TrackSt) (recs : List Sec) (h : Inv t recs) (i sec : Nat) (hi : i < recs.length)
    (hid : t.trk.sectorMap[i]? = some sec) (hnd : t.trk.sectorMap.Nodup) (dat : List Nat)
    (hc : hasData recs[i].code = true) :
    ∃ t', writeTrack t sec dat = (.ok (), t') ∧
      (readTrack t' sec).1 = .ok (quantize dat (secSize t.trk.shift)) ∧
      ∀ (j sec' : Nat) (hj : j < recs.length), j ≠ i → t.trk.sectorMap[j]? = some sec' →
        (readTrack t' sec').1 = (if hasData recs[j].code then .ok recs[j].data else .err) ∧
        (readTrack t' sec').1 = (readTrack t sec').1 := by
  obtain ⟨t', hw, hinv, htrk⟩ := imd_write_sector t recs h i sec hi hid hnd dat hc
  have hmap : t'.trk.sectorMap = t.trk.sectorMap := by rw [htrk]
  have hlen : (recs.set i ⟨recs[i].code, quantize dat (secSize t.trk.shift)⟩).length = recs.length := List.length_set
  refine ⟨t', hw, ?_, ?_⟩
  · have hr := (imd_read_sector t' _ hinv i sec (by rw [hlen]; exact hi) (by rw [hmap]; exact hid) (by rw [hmap]; exact hnd)).1
    rw [hr]
    simp [hc]
  · intro j sec' hj hne hjd
    have hr := (imd_read_sector t' _ hinv j sec' (by rw [hlen]; exact hj) (by rw [hmap]; exact hjd) (by rw [hmap]; exact hnd)).1
    have hr0 := (imd_read_sector t recs h j sec' hj hjd hnd).1
    have hget : (recs.set i ⟨recs[i].code, quantize dat (secSize t.trk.shift)⟩)[j]'(by rw [hlen]; exact hj) = recs[j] := by
      rw [List.getElem_set_ne (by omega)]
    rw [hr, hr0, hget]
    exact ⟨rfl, rfl⟩

/-- … and the track stays one the whole-file theorem `C09.imd_fromBytes_toBytes` speaks about: a written track is again an
expanded track of well-formed records, so that `from_bytes (to_bytes x) = x` holds after any number of writes on images with
mixed record types. -/
theorem imd_write_keeps_track_wf (t : TrackSt) (recs : List Sec) (h : Inv t recs) (hw : TrackWf t.trk recs) (i sec : Nat)
    (hi : i < recs.length) (hid : t.trk.sectorMap[i]? = some sec) (hnd : t.trk.sectorMap.Nodup) (dat : List Nat)
    (hc : hasData recs[i].code = true) :
    ∃ t', writeTrack t sec dat = (.ok (), t') ∧
      TrackWf t'.trk (recs.set i ⟨recs[i].code, quantize dat (secSize t.trk.shift)⟩) := by
  obtain ⟨t', h1, hinv, htrk⟩ := imd_write_sector t recs h i sec hi hid hnd dat hc
  refine ⟨t', h1, ?_⟩
  have hsh : t'.trk.shift = t.trk.shift := by rw [htrk]
  refine ⟨hinv.wf, ?_, by rw [htrk], ?_, ?_, ?_, ?_⟩
  · rw [htrk, List.length_set]; exact hw.count
  · rw [htrk]; exact hw.smap
  · rw [htrk]; exact hw.cmap
  · rw [htrk]; exact hw.hmap
  · rw [htrk]; exact hw.shift

/-- tracks other than the one addressed are untouched by a write (image level) -/
theorem imd_write_other_tracks (o : Obj) (c hd s : Nat) (d : List Nat) (j : Nat) (hj : findTrack o.tracks c hd ≠ some j) :
    (o.writeSector c hd s d).2.tracks[j]? = o.tracks[j]? := by
  unfold Obj.writeSector
  split
  · rfl
  · rename_i i hf
    have hij : i ≠ j := by intro he; subst he; exact hj hf
    split
    · rfl
    · simp [List.getElem?_set_ne hij]

/-- a 128-byte-sector track as a dump of a damaged disk has it: record 0 normal, record 1 unavailable, record 2
deleted-data, ids 1, 2, 3; the head stands on record 2 -/
def exImdSt : TrackSt :=
  { trk := { mode := 5, cylinder := 0, head := 0, sectors := 3, shift := 0, sectorMap := [1, 2, 3], cylMap := [], headMap := [],
             buf := flatten [⟨1, List.replicate 128 0xE5⟩, ⟨0, []⟩, ⟨3, List.range 128⟩] },
    headPos := 2, bufOffset := 130 }

/-- non-vacuity: the invariant holds on the example … -/
example : Inv exImdSt [⟨1, List.replicate 128 0xE5⟩, ⟨0, []⟩, ⟨3, List.range 128⟩] :=
  ⟨by decide +kernel, rfl, rfl, fun _ => by decide, by decide +kernel⟩

/-- … and the executable model behaves as the theorems say: the sector BEHIND the unavailable record is written and
read back, the sector in front of it is unchanged, the unavailable one is refused -/
example : (writeTrack exImdSt 3 [7, 7, 7]).1 = .ok () ∧
    (readTrack (writeTrack exImdSt 3 [7, 7, 7]).2 3).1 = .ok ([7, 7, 7] ++ List.replicate 125 0) ∧
    (readTrack (writeTrack exImdSt 3 [7, 7, 7]).2 1).1 = .ok (List.replicate 128 0xE5) ∧
    (readTrack (writeTrack exImdSt 3 [7, 7, 7]).2 2).1 = .err ∧
    (writeTrack exImdSt 2 [1]).1 = .err ∧ (readTrack exImdSt 9).1 = .err := by decide +kernel

end imd

section td0
open A2Verif.Model.C09Td0 A2Verif.Model.C08Td0 A2Verif.Model.C08Ring
open A2Verif.Lemmas.C09Td0 A2Verif.Lemmas.C08Td0 A2Verif.Lemmas.C08Ring A2Verif.Gen.Td0

/-- **C08, TD0, the search**: with pairwise different sector ids the loop stops on THE record with the wanted id,
wherever the head stands. -/
theorem td0_seek_found (t : TrackSt) (i sec : Nat) (hi : i < t.trk.sectors.length) (hp : t.headPos < t.trk.sectors.length)
    (hid : t.trk.sectors[i].id = sec) (hnd : (ids t).Nodup) :
    seek sec t.trk.sectors.length t = .found (on t i) := by
  have hn : 0 < t.trk.sectors.length := by omega
  have hid' : (ids t)[i]? = some sec := by simp [ids, List.getElem?_eq_getElem hi, hid]
  rw [seek_eq t hn]
  have := ringSeek_nodup (ids t) sec t.headPos i (by simpa using hp) (by simpa using hi) hid' hnd
  rw [ids_length] at this
  rw [this]

/-- **C08, TD0, reading**: the sector is decoded from whatever encoding it is stored in (raw, repeated pattern, run
length — `C09.td0_unpack_pack` and the `td0unpack` tie), a sector flagged skipped / no-data is refused; nothing but the
head position changes. -/
theorem td0_read_sector (t : TrackSt) (i sec : Nat) (hi : i < t.trk.sectors.length) (hp : t.headPos < t.trk.sectors.length)
    (hid : t.trk.sectors[i].id = sec) (hnd : (ids t).Nodup) :
    readTrack t sec = (match unpackSector t.trk.sectors[i] with | some d => .ok d | none => .err, on t i) :=
  read_at t i hi sec (td0_seek_found t i sec hi hp hid hnd)

theorem td0_no_data_refused (t : TrackSt) (i sec : Nat) (hi : i < t.trk.sectors.length) (hp : t.headPos < t.trk.sectors.length)
    (hid : t.trk.sectors[i].id = sec) (hnd : (ids t).Nodup) (hf : t.trk.sectors[i].flags &&& NO_DATA_MASK > 0) :
    readTrack t sec = (.err, on t i) := by
  rw [td0_read_sector t i sec hi hp hid hnd]
  simp [unpackSector, hf]

/-- **C08, TD0, read-after-write and frame** for every track (any flags, any encodings), every head position, every
sector on the track — flagged skipped / no-data or not — and every data, uniform or not: the write succeeds, drops the
no-data flags, and the sector then reads as the zero-padded data (`unpack (pack d) = d` for the encoding `pack` chose); every
other record of the track — header, flags, stored block — is identical, hence reads as before. -/
theorem td0_read_after_write_and_frame (t : TrackSt) (i sec : Nat) (hi : i < t.trk.sectors.length)
    (hp : t.headPos < t.trk.sectors.length) (hid : t.trk.sectors[i].id = sec) (hnd : (ids t).Nodup)
    (hsh : t.trk.sectors[i].shift ≤ 6) (dat : List Nat) :
    ∃ t', writeTrack t sec dat = (.ok (), t') ∧
      (readTrack t' sec).1 = .ok (quantize dat (secSize t.trk.sectors[i].shift)) ∧
      (∀ j, j ≠ i → t'.trk.sectors[j]? = t.trk.sectors[j]?) ∧
      (∀ (j sec' : Nat) (hj : j < t.trk.sectors.length), j ≠ i → t.trk.sectors[j].id = sec' →
        (readTrack t' sec').1 = (readTrack t sec').1) := by
  obtain ⟨rec, hpk, hun, hw⟩ := write_at t i hi sec dat hsh (td0_seek_found t i sec hi hp hid hnd)
  let t' := setSector t i (written t.trk.sectors[i] rec)
  have hlen : t'.trk.sectors.length = t.trk.sectors.length := by simp [t', setSector]
  have hids : ids t' = ids t := by
    simp only [ids, t', setSector, List.map_set, written]
    apply List.ext_getElem (by simp)
    intro k hk1 hk2
    rw [List.getElem_set]
    split
    · rename_i hik; subst hik; simp
    · rfl
  have hgi : t'.trk.sectors[i]'(by rw [hlen]; exact hi) = written t.trk.sectors[i] rec := by simp [t', setSector]
  have hgj : ∀ j, j ≠ i → t'.trk.sectors[j]? = t.trk.sectors[j]? := by
    intro j hj; simp [t', setSector, List.getElem?_set_ne (Ne.symm hj)]
  refine ⟨t', hw, ?_, hgj, ?_⟩
  · have hr := td0_read_sector t' i sec (by rw [hlen]; exact hi) (by rw [hlen]; exact hi) (by rw [hgi]; exact hid) (by rw [hids]; exact hnd)
    rw [hr, hgi]
    have : unpackSector (written t.trk.sectors[i] rec) = some (quantize dat (secSize t.trk.sectors[i].shift)) := by
      have hng : ¬ (packedFlags t.trk.sectors[i].flags &&& NO_DATA_MASK > 0) := by
        have := packedFlags_clear t.trk.sectors[i].flags; omega
      simp only [unpackSector, written, hng, ↓reduceIte, hun]
    rw [this]
  · intro j sec' hj hne hjd
    have hjs : t'.trk.sectors[j]'(by rw [hlen]; exact hj) = t.trk.sectors[j] := by
      have := hgj j hne
      rw [List.getElem?_eq_getElem (by rw [hlen]; exact hj), List.getElem?_eq_getElem hj] at this
      exact Option.some.inj this
    have hr := td0_read_sector t' j sec' (by rw [hlen]; exact hj) (by rw [hlen]; exact hi) (by rw [hjs]; exact hjd) (by rw [hids]; exact hnd)
    have hr0 := td0_read_sector t j sec' hj hp hjd hnd
    rw [hr, hr0, hjs]

/-- **C08, TD0, a sector id that is not on the track** is refused by reads and writes; the records are unchanged. -/
theorem td0_absent_refused (t : TrackSt) (sec : Nat) (dat : List Nat)
    (hab : ∀ s ∈ t.trk.sectors, s.id ≠ sec) :
    ∃ t', readTrack t sec = (.err, t') ∧ writeTrack t sec dat = (.err, t') ∧ t'.trk = t.trk := by
  by_cases hn : 0 < t.trk.sectors.length
  · have hab' : ∀ j : Nat, (ids t)[j]? ≠ some sec := by
      intro j hj
      simp only [ids, List.getElem?_map, Option.map_eq_some_iff] at hj
      obtain ⟨s, hs, hse⟩ := hj
      exact hab s (List.mem_of_getElem? hs) hse
    have hno := ringSeek_absent (ids t) sec t.trk.sectors.length t.headPos hab'
    have hse := seek_eq t hn sec t.trk.sectors.length
    generalize hr : ringSeek (ids t) sec t.trk.sectors.length t.headPos = r at hno hse
    obtain ⟨f, q⟩ := r
    simp only at hno
    subst hno
    simp only at hse
    exact ⟨on t q, by simp only [readTrack, hse], by simp only [writeTrack, hse], rfl⟩
  · have h0 : t.trk.sectors.length = 0 := by omega
    exact ⟨t, by simp only [readTrack, h0, seek], by simp only [writeTrack, h0, seek], rfl⟩

/-- … and the written track is again one the whole-file theorem `C09.td0_fromBytes_toBytes` speaks about (the new record
has a right length word and no no-data flag), so `from_bytes (to_bytes x)` succeeds with recomputed CRCs after any writes to
images with flagged sectors. -/
theorem td0_write_keeps_track_wf (t : TrackSt) (hw : TrackWf t.trk) (i sec : Nat) (hi : i < t.trk.sectors.length)
    (hp : t.headPos < t.trk.sectors.length) (hid : t.trk.sectors[i].id = sec) (hnd : (ids t).Nodup) (dat : List Nat) :
    ∃ t', writeTrack t sec dat = (.ok (), t') ∧ TrackWf t'.trk := by
  have hsw := hw.2.2 t.trk.sectors[i] (List.getElem_mem hi)
  obtain ⟨rec, hpk, hun, hwr⟩ := write_at t i hi sec dat hsw.1 (td0_seek_found t i sec hi hp hid hnd)
  refine ⟨_, hwr, ?_, hw.2.1, ?_⟩
  · simp only [setSector, List.length_set]; exact hw.1
  · intro s hs
    simp only [setSector] at hs
    rcases List.mem_or_eq_of_mem_set hs with hm | he
    · exact hw.2.2 s hm
    · subst he
      exact pack_sectorWf_flags _ hsw.1 _ rec hpk _ _ _ _ _ (packedFlags_clear _)

/-- a track with a skipped sector (flag 0x10, no data block) between a repeated-pattern and a run-length sector -/
def exTd0St : TrackSt :=
  { trk := { nsec := 3, cyl := 0, head := 0, crc := 0, sectors :=
      [{ cyl := 0, head := 0, id := 1, shift := 0, flags := 0, crc := 0, data := [5, 0, 1, 64, 0, 0xE5, 0xE5] },
       { cyl := 0, head := 0, id := 2, shift := 0, flags := 0x10, crc := 0, data := [] },
       { cyl := 0, head := 0, id := 3, shift := 0, flags := 0x04, crc := 0, data := [5, 0, 2, 1, 64, 7, 9] }] },
    headPos := 0 }

/-- non-vacuity, and the case of the property that a2kit's own images never show: UNIFORM data (stored with the repeated
pattern encoding) written to the skipped sector is read back; the skipped sector was refused before; neighbours unchanged -/
example : (readTrack exTd0St 2).1 = .err ∧ (writeTrack exTd0St 2 []).1 = .ok () ∧
    (readTrack (writeTrack exTd0St 2 []).2 2).1 = .ok (List.replicate 128 0) ∧
    (readTrack (writeTrack exTd0St 2 []).2 3).1 = .ok ((List.replicate 64 [7, 9]).flatten) ∧
    (readTrack (writeTrack exTd0St 2 []).2 1).1 = .ok (List.replicate 128 0xE5) ∧
    (ids exTd0St).Nodup := by decide +kernel

end td0

end A2Verif.C08
