import A2Verif.Lemmas.C15Data
import A2Verif.Lemmas.C15Label
import A2Verif.Lemmas.C15Range
/-!
# C15 — Disassembly reassembles to the identical bytes

Model: `Model/Dasm.lean` (disassembler: `dasm`, one `Line` per emitted unit of source) and `Model/Asm.lean`
(assembler: `lineBytes`, `asmAll`), over the opcode table regenerated from `opcodes.json` (`Gen/Opcodes.lean`).
All theorems are about the *repaired* code (`Quirks.fixed`); the three behaviours of the unrepaired code that
violate the property are kept as `Quirks.orig` and refuted on concrete witnesses at the end of the file.
-/
namespace A2Verif.C15
open A2Verif.Gen.Opcodes A2Verif.Gen.DasmLabels A2Verif.Dasm A2Verif.Asm

/-- **Coverage** ("accounts for every input byte exactly once"), for every byte string, origin, processor,
MX setting and `brk` option, code and data runs alike: the emitted lines tile `[org, org + n)` — each line
starts where the previous one ended, stands for at least one byte, and the last one ends at the end of the
range (`Line.len` of `LUP r / HEX h / --^` is `r * |h|`, of `DS n,$v` is `n`, of `ASC`/`DCI` the string length). -/
theorem dasm_covers_every_byte_once (q : Quirks) (cfg : Cfg) (org : Nat) (bytes : List Nat)
    (hb : ∀ x ∈ bytes, x < 256) :
    Contig org (dasm q cfg org bytes) (org + bytes.length) :=
  go_contig q cfg bytes.length org bytes (Nat.le_refl _) hb

example : Contig 0x300 (dasm Quirks.fixed ⟨.p6502, true, true, false⟩ 0x300 [0xA9, 0x01, 0x02, 0x02, 0x02, 0xC8, 0xC5, 0xCC, 0x00])
    (0x300 + 9) := dasm_covers_every_byte_once _ _ _ _ (by decide)

/-- **Round trip of one instruction, every operand value** ("never yields different bytes" and "reassembly
succeeds" at the level of one line).  Wherever the disassembler recognises an instruction of the selected
processor — any opcode of the table, any operand bytes (zero-page-valued absolute operands, long addresses
in any bank, immediates under every MX setting, block moves, branches at every origin including those it
renders as `HEX` because the target leaves bank 0) — the line it emits assembles, under every assembler
variant in which that processor can be declared, to exactly the opcode and its operand bytes. -/
theorem instruction_reassembles_exactly (cfg : Cfg) (ver : Ver) (addr op : Nat) (tl : List Nat) (i : Info)
    (hc : compat cfg.proc ver = true) (hb : ∀ x ∈ op :: tl, x < 256)
    (hi : isInstruction cfg (op :: tl) = some i) :
    lineBytes Quirks.fixed ⟨cfg.proc, ver, cfg.m8, cfg.x8⟩ addr (step Quirks.fixed cfg addr (op :: tl)).1
      = .ok ((op :: tl).take (step Quirks.fixed cfg addr (op :: tl)).2) := by
  have hop : op < 256 := hb op (by simp)
  have hbt : ∀ x ∈ tl, x < 256 := fun x hx => hb x (by simp [hx])
  obtain ⟨h1, h2⟩ := instr_roundtrip cfg ver addr op tl i hc hop hbt hi
  have hstep : step Quirks.fixed cfg addr (op :: tl) = pushInstruction Quirks.fixed addr op tl i := by
    simp [step, hi]
  rw [hstep, h1, h2, Nat.add_comm]; rfl

example : isInstruction ⟨.p65816, false, true, false⟩ [0xA9, 0x12, 0x00, 0x60] = some ⟨⟨.lda, .imm, true, true, true⟩, 2, true, false⟩ := by
  decide +kernel

/-- **Branches at range limits**: the assembler's `abs_to_rel` inverts the disassembler's `rel_to_abs` for
every program counter and every 8 / 16 bit displacement for which the latter yields a target. -/
theorem branch_roundtrip (n pc v d : Nat) (hn : n = 1 ∨ n = 2) (hv : v < 256 ^ n)
    (h : relToAbs pc v n = some d) : absToRel pc d n = some v :=
  (rel_roundtrip n pc v d hn hv h).1

example : relToAbs 0xFF7E 0x7F 1 = some 0xFFFF ∧ relToAbs 0xFF7F 0x7F 1 = none ∧ relToAbs 0 0x80 1 = none := by decide

/-- **Pure code reassembles** (last sentence of the property, and "never different bytes" for such input):
if the input consists only of complete valid instructions of the selected processor, then assembling the
whole disassembly line after line (program counter threaded as the spot assembler does) succeeds and yields
the input bytes — for every origin, processor, assembler variant that can declare it, and MX setting. -/
theorem pure_code_reassembles (cfg : Cfg) (ver : Ver) (org : Nat) (bytes : List Nat)
    (hc : compat cfg.proc ver = true) (hb : ∀ x ∈ bytes, x < 256)
    (hp : pureCode cfg bytes.length bytes = true) :
    asmAll Quirks.fixed ⟨cfg.proc, ver, cfg.m8, cfg.x8⟩ org (dasm Quirks.fixed cfg org bytes) = .ok bytes :=
  (pure_go cfg ver hc bytes.length org bytes (Nat.le_refl _) hb hp).1

example : pureCode ⟨.p65816, true, true, false⟩ 9 [0x54, 0x01, 0x02, 0x80, 0xFE, 0xAF, 0x56, 0x34, 0x12] = true := by
  decide +kernel

/-- **Content of every data run.**  Whatever `try_data_run` emits for a stretch that is not an instruction —
`DS n,$v` for a fill, `HEX`/`LUP n`+`HEX`+`--^` for a period-2 or period-4 pattern, `ASC '…'`/`ASC "…"` with or
without the `,00` tail, `DCI` with either delimiter — if the assembler accepts the line (it refuses `LUP`, and a `DS`
count above `$FFFF`), the bytes it emits are exactly the bytes of the run.  Uses the meaning of the five scan
counters (`ScanSem`: fill is uniform, string characters are in the printable set with the right high bit) and the
transcription of `push_strings` on the node text *with both delimiters* (`signStep`, `strCore`). -/
theorem data_run_content (q : Quirks) (c : ACfg) (addr : Nat) (rest : List Nat) (r : Line × Nat)
    (hb : ∀ x ∈ rest, x < 256) (h : tryDataRun addr rest = some r)
    (b : List Nat) (hok : lineBytes q c addr r.1 = .ok b) : b = rest.take r.2 :=
  tryDataRun_content q c addr rest r hb h b hok

example : tryDataRun 0x300 [0xC8, 0xC5, 0xCC, 0xCC, 0xCF, 0x00, 0x60]
    = some (.asc 0x300 true [0x48, 0x45, 0x4C, 0x4C, 0x4F] true, 6) := by decide +kernel
example : tryDataRun 0x300 [0x48, 0x45, 0x4C, 0x4C, 0xCF, 0x02]
    = some (.dci 0x300 false [0x48, 0x45, 0x4C, 0x4C, 0x4F], 5) := by decide +kernel
example : tryDataRun 0x300 [0x02, 0x02, 0x02, 0x60] = some (.ds 0x300 3 0x02, 3) := by decide +kernel
example : tryDataRun 0x300 [0x02, 0x03, 0x02, 0x03, 0x02] = some (.hex 0x300 2 [0x02, 0x03], 4) := by decide +kernel

/-- **Strings are printable** (backs the text-layer parameter for `ASC`/`DCI`): the characters the disassembler
puts between the delimiters are letters, digits, blank, comma or period (7 bit) — never a delimiter (`'` `"` `&` `/`),
a control character or `;` — so the rendered operand is one `dstring` token followed at most by `,00`. -/
theorem string_lines_printable (addr : Nat) (rest : List Nat) (r : Line × Nat)
    (h : tryDataRun addr rest = some r) : ∀ ch ∈ lineChars r.1, probablyString ch 0 = true :=
  tryDataRun_printable addr rest r h

/-- **A refused `LUP` still stands for its span.**  The spot assembler answers `CannotAssemble` for `LUP`; read as
Merlin reads it (body repeated `r` times) the group `LUP r` / `HEX body` / `--^` that `try_data_run` emits for a
period-2 or period-4 pattern is exactly the bytes of the run (so nothing is lost or duplicated by the refusal). -/
theorem lup_expansion_exact (addr : Nat) (rest : List Nat) (a reps : Nat) (body : List Nat) (k : Nat)
    (h : tryDataRun addr rest = some (.hex a reps body, k)) : lupBytes reps body = rest.take k :=
  tryDataRun_lup addr rest a reps body k h

example : lupBytes 2 [0x02, 0x03] = [0x02, 0x03, 0x02, 0x03] := by decide

/-- **Never different bytes, arbitrary input, one line** ("either reproduces the input bytes exactly or reports
that it cannot assemble a construct; it never yields different bytes").  At any point of any byte string, for
every processor, assembler variant that can declare it, MX and brk: if the assembler model accepts the line the
disassembler model emits there — instruction, out-of-range branch as `HEX`, data run of any kind, `DFB` — its
bytes are exactly the bytes the line stands for. -/
theorem never_different_bytes (cfg : Cfg) (ver : Ver) (addr : Nat) (rest : List Nat)
    (hc : compat cfg.proc ver = true) (hne : rest ≠ []) (hb : ∀ x ∈ rest, x < 256) (b : List Nat)
    (hok : lineBytes Quirks.fixed ⟨cfg.proc, ver, cfg.m8, cfg.x8⟩ addr (step Quirks.fixed cfg addr rest).1 = .ok b) :
    b = rest.take (step Quirks.fixed cfg addr rest).2 :=
  step_content cfg ver addr rest hc hne hb b hok

/-- **Never different bytes, whole program.**  For ANY byte string, origin, processor, assembler variant that can
declare it, MX and brk: if assembling the whole disassembly (line after line, program counter threaded as the
spot assembler does) succeeds, the result is the input; the only other outcome is an explicit refusal. -/
theorem reassembly_never_differs (cfg : Cfg) (ver : Ver) (org : Nat) (bytes : List Nat)
    (hc : compat cfg.proc ver = true) (hb : ∀ x ∈ bytes, x < 256) (b : List Nat)
    (hok : asmAll Quirks.fixed ⟨cfg.proc, ver, cfg.m8, cfg.x8⟩ org (dasm Quirks.fixed cfg org bytes) = .ok b) :
    b = bytes :=
  go_never_differs cfg ver hc bytes.length org bytes (Nat.le_refl _) hb b hok

/-- a mixture of code, a negative-ASCII string with `,00` tail, a fill and a stray byte: accepted and identical -/
example : okIs (asmAll Quirks.fixed ⟨.p6502, .m8, true, true⟩ 0x300
    (dasm Quirks.fixed ⟨.p6502, true, true, false⟩ 0x300 [0xA9, 0x01, 0x02, 0x02, 0x02, 0xC8, 0xC5, 0xCC, 0x00, 0x02]))
    [0xA9, 0x01, 0x02, 0x02, 0x02, 0xC8, 0xC5, 0xCC, 0x00, 0x02] = true := by decide +kernel

/-- a period-2 pattern becomes `LUP`, which the spot assembler refuses: an explicit error, not different bytes -/
example : okIs (asmAll Quirks.fixed ⟨.p6502, .m8, true, true⟩ 0x300
    (dasm Quirks.fixed ⟨.p6502, true, true, false⟩ 0x300 [0x02, 0x03, 0x02, 0x03])) [0x02, 0x03, 0x02, 0x03] = false := by
  decide +kernel

/-! ## Labelled output (`labeling` = "some" / "all")

The theorems above are about the listing with `labeling = "none"` (every operand is a number).  `format_lines`
can replace an operand by a label `_HEX`; `Assembler::dasm_symbols` gives that label the value `HEX`.  The label
layer is `Model/DasmLabel.lean`; the look-up key of the substitution guard is read from the current source by the
translator (`Gen.DasmLabels.labelKey`). -/

/-- **The substitution guard of the current tree** compares the *full* operand value with the labelled line
addresses (`labels.contains(&(operand.num[0] as usize))`).  Re-checked against `disassembly.rs` on every run; it
stops proving the moment the guard looks the value up in any other way (e.g. reduced to the label width). -/
theorem label_guard_current_tree : labelKey = LabelKey.exact := by decide

/-- **A label operand stands for the operand value itself**: for every line list whose addresses fit 24 bits,
every labeling mode, every line (1, 2 or 3 operand bytes, any bank, branch destinations), if the operand is
replaced by a label then the value of that label (its `pc_bytes`-byte hex text) is the operand value — in
particular a 24-bit operand in another bank is never given the 16-bit label of a line that shares its low word. -/
theorem label_stands_for_operand (lab : Labeling) (ls : List Line) (hb : ∀ l ∈ ls, l.addr < 2 ^ 24)
    (l : Line) (x : Nat) (h : labelSubst labelKey (labelSet lab ls) (pcBytes ls) l = some x) :
    l.labelCand = some x := by
  rw [label_guard_current_tree] at h
  exact labelSubst_exact lab ls hb l x h

example : labelSubst .exact (labelSet .some (dasm Quirks.fixed ⟨.p65816, true, true, false⟩ 0x8000 [0xAF, 0x00, 0x80, 0x00, 0x60]))
    2 (.instr 0x8000 .lda .absl false .long false (.val 0x8000 3)) = some 0x8000 := by decide +kernel
example : labelSubst .exact (labelSet .some (dasm Quirks.fixed ⟨.p65816, true, true, false⟩ 0x8000 [0xAF, 0x00, 0x80, 0x01, 0x60]))
    2 (.instr 0x8000 .lda .absl false .long false (.val 0x018000 3)) = none := by decide +kernel

/-- **Never different bytes, one labelled line, arbitrary input.**  `never_different_bytes` with the line taken
from the labelled listing: whatever the rest of the program is (it only enters through the label table), any
labeling mode, any operand width and bank. -/
theorem never_different_bytes_labelled (cfg : Cfg) (ver : Ver) (lab : Labeling) (ls : List Line)
    (hls : ∀ l ∈ ls, l.addr < 2 ^ 24) (addr : Nat) (rest : List Nat)
    (hc : compat cfg.proc ver = true) (hne : rest ≠ []) (hb : ∀ x ∈ rest, x < 256) (b : List Nat)
    (hok : lineBytes Quirks.fixed ⟨cfg.proc, ver, cfg.m8, cfg.x8⟩ addr
      (substLine labelKey (labelSet lab ls) (pcBytes ls) (step Quirks.fixed cfg addr rest).1) = .ok b) :
    b = rest.take (step Quirks.fixed cfg addr rest).2 := by
  rw [label_guard_current_tree, substLine_exact lab ls hls] at hok
  exact step_content cfg ver addr rest hc hne hb b hok

/-- **Never different bytes, whole labelled program** (`labeling` none / some / all): for ANY byte string that
fits the 24-bit address space, any origin, processor, assembler variant that can declare it, MX and brk, if
assembling the labelled listing succeeds the result is the input. -/
theorem reassembly_never_differs_labelled (cfg : Cfg) (ver : Ver) (lab : Labeling) (org : Nat) (bytes : List Nat)
    (hc : compat cfg.proc ver = true) (hb : ∀ x ∈ bytes, x < 256) (hsz : org + bytes.length ≤ 2 ^ 24)
    (b : List Nat)
    (hok : asmAll Quirks.fixed ⟨cfg.proc, ver, cfg.m8, cfg.x8⟩ org
      (labelled labelKey lab (dasm Quirks.fixed cfg org bytes)) = .ok b) :
    b = bytes := by
  rw [label_guard_current_tree, labelled_exact lab _ (dasm_addr_bound _ cfg org bytes hb hsz)] at hok
  exact go_never_differs cfg ver hc bytes.length org bytes (Nat.le_refl _) hb b hok

/-- **Pure code reassembles from the labelled listing as well.** -/
theorem pure_code_reassembles_labelled (cfg : Cfg) (ver : Ver) (lab : Labeling) (org : Nat) (bytes : List Nat)
    (hc : compat cfg.proc ver = true) (hb : ∀ x ∈ bytes, x < 256) (hsz : org + bytes.length ≤ 2 ^ 24)
    (hp : pureCode cfg bytes.length bytes = true) :
    asmAll Quirks.fixed ⟨cfg.proc, ver, cfg.m8, cfg.x8⟩ org
      (labelled labelKey lab (dasm Quirks.fixed cfg org bytes)) = .ok bytes := by
  rw [label_guard_current_tree, labelled_exact lab _ (dasm_addr_bound _ cfg org bytes hb hsz)]
  exact (pure_go cfg ver hc bytes.length org bytes (Nat.le_refl _) hb hp).1

/-- `LDAL $018000 / RTS` at `$8000` ("some": the first line is labelled `_8000`): the operand stays a number -/
example : okIs (asmAll Quirks.fixed ⟨.p65816, .m16, true, true⟩ 0x8000
    (labelled .exact .some (dasm Quirks.fixed ⟨.p65816, true, true, false⟩ 0x8000 [0xAF, 0x00, 0x80, 0x01, 0x60])))
    [0xAF, 0x00, 0x80, 0x01, 0x60] = true := by decide +kernel

/-- **A guard that compares modulo the label width violates the property** (seeded change C15-3, replayed on the
real code by the harness, sig `c15/65816/reassembly-differs/long-label-alias`): the same program is listed as
`_8000 LDAL _8000`, which assembles to bank `00`. -/
example : okIs (asmAll Quirks.fixed ⟨.p65816, .m16, true, true⟩ 0x8000
    (labelled .masked .some (dasm Quirks.fixed ⟨.p65816, true, true, false⟩ 0x8000 [0xAF, 0x00, 0x80, 0x01, 0x60])))
    [0xAF, 0x00, 0x80, 0x00, 0x60] = true := by decide +kernel

/-- the same on the 65802 with a branch target as the aliased label: `CMPL $FF2000 / BEQ $2000 / RTS` -/
example : okIs (asmAll Quirks.fixed ⟨.p65802, .m8, true, true⟩ 0x2000
    (labelled .masked .some (dasm Quirks.fixed ⟨.p65802, true, true, false⟩ 0x2000 [0xCF, 0x00, 0x20, 0xFF, 0xF0, 0xFA, 0x60])))
    [0xCF, 0x00, 0x20, 0x00, 0xF0, 0xFA, 0x60] = true := by decide +kernel

/-! ## Sub-ranges of a larger image (`DasmRange::Range([beg,end])` with `end < img.len()`, `LastBloadDos33`, `LastBloadProDos`)

Everything above is about the listing of the bytes it is given.  `disassemble` is handed a whole (RAM) image and a
range; `Model/DasmRange.lean` places the loop inside the image (`dasmImg`), with the bytes after the range at hand.
What bounds the string look-ahead of `try_data_run` is read from the current source (`Gen.DasmLabels.lookBound`). -/

/-- **The look-ahead of the current tree stops at the end of the range** (`ptr0 + n < end`), as do the scan loop,
the operand fit of `is_instruction` and the main loop (checked syntactically by the translator).  Stops proving when
the look-ahead is bounded by the image instead (seeded change C15-5). -/
theorem look_bound_current_tree : lookBound = LookBound.rangeEnd := by decide

/-- **Locality**: the listing of `img[beg..end]` does not depend on any byte of the image outside the range —
it is the listing of those bytes alone. -/
theorem range_listing_is_local (q : Quirks) (cfg : Cfg) (img : List Nat) (beg end_ : Nat) :
    dasmImg q cfg lookBound img beg end_ = dasm q cfg beg ((img.drop beg).take (end_ - beg)) := by
  rw [look_bound_current_tree]
  exact dasmR_rangeEnd q cfg beg _ _

/-- **The lines tile exactly `[beg, end)`** for every sub-range of every image ("accounts for every input byte exactly
once": no byte before `beg`, none at or after `end`), every processor, MX, brk. -/
theorem range_tiles_exactly (q : Quirks) (cfg : Cfg) (img : List Nat) (beg end_ : Nat)
    (h1 : beg ≤ end_) (h2 : end_ ≤ img.length) (hb : ∀ x ∈ img, x < 256) :
    Contig beg (dasmImg q cfg lookBound img beg end_) end_ := by
  rw [range_listing_is_local]
  have := dasm_covers_every_byte_once q cfg beg ((img.drop beg).take (end_ - beg)) (slice_bytes img beg end_ hb)
  rw [slice_length img beg end_ h1 h2] at this
  have e : beg + (end_ - beg) = end_ := by omega
  rw [e] at this
  exact this

/-- **Never different bytes for every sub-range of every image**, any labeling mode: if assembling the (labelled)
listing of `img[beg..end]` succeeds, the result is exactly `img[beg..end]` — in particular never a byte more. -/
theorem range_reassembly_never_differs (cfg : Cfg) (ver : Ver) (lab : Labeling) (img : List Nat) (beg end_ : Nat)
    (hc : compat cfg.proc ver = true) (h1 : beg ≤ end_) (h2 : end_ ≤ img.length) (hb : ∀ x ∈ img, x < 256)
    (hsz : end_ ≤ 2 ^ 24) (b : List Nat)
    (hok : asmAll Quirks.fixed ⟨cfg.proc, ver, cfg.m8, cfg.x8⟩ beg
      (labelled labelKey lab (dasmImg Quirks.fixed cfg lookBound img beg end_)) = .ok b) :
    b = (img.drop beg).take (end_ - beg) := by
  rw [range_listing_is_local] at hok
  refine reassembly_never_differs_labelled cfg ver lab beg _ hc (slice_bytes img beg end_ hb) ?_ b hok
  rw [slice_length img beg end_ h1 h2]; omega

/-- the two BLOAD ranges select a range inside the image (or are refused) -/
theorem bload_range_inside (img : List Nat) (sa la b e : Nat) (h : bloadRange img sa la = some (b, e)) :
    b ≤ e ∧ e ≤ img.length := by
  unfold bloadRange at h
  split at h
  · simp only [] at h
    split at h
    · cases h
    · cases h; omega
  · cases h

/-- text at the end of a range inside zeroed memory (6502): `JSR $FC58 / RTS / ASC 'BYE'` — three lines, 7 bytes -/
example : okIs (asmAll Quirks.fixed ⟨.p6502, .m8, true, true⟩ 2
    (dasmImg Quirks.fixed ⟨.p6502, true, true, false⟩ .rangeEnd [0xEA, 0xEA, 0x20, 0x58, 0xFC, 0x60, 0x42, 0x59, 0x45, 0x00, 0x00] 2 9))
    [0x20, 0x58, 0xFC, 0x60, 0x42, 0x59, 0x45] = true := by decide +kernel

/-- **A look-ahead bounded by the image violates the property** (seeded change C15-5, replayed on the real code by the
harness): the `$00` after the range is folded into `ASC 'BYE',00` and reassembly yields one byte that was never input. -/
example : okIs (asmAll Quirks.fixed ⟨.p6502, .m8, true, true⟩ 2
    (dasmImg Quirks.fixed ⟨.p6502, true, true, false⟩ .imageEnd [0xEA, 0xEA, 0x20, 0x58, 0xFC, 0x60, 0x42, 0x59, 0x45, 0x00, 0x00] 2 9))
    [0x20, 0x58, 0xFC, 0x60, 0x42, 0x59, 0x45, 0x00] = true := by decide +kernel

/-! ## The unrepaired code violates the property (witnesses replayed on the real code by the harness) -/

/-- defect 1 (`c15/65816/reassembly-differs/op=AF`): `AF 56 34 12` is rendered `LDA $123456` (no `L`), which the
assembler turns into `AD 56 34`. -/
example : okIs (lineBytes Quirks.orig ⟨.p65816, .m16, true, true⟩ 0x300
    (step Quirks.orig ⟨.p65816, true, true, false⟩ 0x300 [0xAF, 0x56, 0x34, 0x12]).1) [0xAD, 0x56, 0x34] = true := by
  decide +kernel

/-- defect 2 (`c15/65802/reassembly-differs/op=AF`): under Merlin 8 (65802) `LDAL $000034` becomes `AD 34 00`. -/
example : okIs (lineBytes Quirks.orig ⟨.p65802, .m8, true, true⟩ 0x300
    (step Quirks.orig ⟨.p65802, true, true, false⟩ 0x300 [0xAF, 0x34, 0x00, 0x00]).1) [0xAD, 0x34, 0x00] = true := by
  decide +kernel

/-- defect 3 (`c15/65816/reassembly-differs/after-block-move`): after `MVN` the program counter is 2 too high, so the
following `BRA` to itself assembles with displacement `FC` instead of `FE`. -/
example : okIs (asmAll Quirks.orig ⟨.p65816, .m16, true, true⟩ 0x300
    (dasm Quirks.orig ⟨.p65816, true, true, false⟩ 0x300 [0x54, 0x01, 0x02, 0x80, 0xFE])) [0x54, 0x01, 0x02, 0x80, 0xFC] = true := by
  decide +kernel

/-- and the same three inputs under the repaired behaviour -/
example : okIs (asmAll Quirks.fixed ⟨.p65816, .m16, true, true⟩ 0x300
    (dasm Quirks.fixed ⟨.p65816, true, true, false⟩ 0x300 [0x54, 0x01, 0x02, 0x80, 0xFE, 0xAF, 0x56, 0x34, 0x12]))
      [0x54, 0x01, 0x02, 0x80, 0xFE, 0xAF, 0x56, 0x34, 0x12] = true := by
  decide +kernel

end A2Verif.C15
