import A2Verif.Lemmas.C15Data
/-!
# C15 — Disassembly reassembles to the identical bytes

Model: `Model/Dasm.lean` (disassembler: `dasm`, one `Line` per emitted unit of source) and `Model/Asm.lean`
(assembler: `lineBytes`, `asmAll`), over the opcode table regenerated from `opcodes.json` (`Gen/Opcodes.lean`).
All theorems are about the *repaired* code (`Quirks.fixed`); the three behaviours of the unrepaired code that
violate the property are kept as `Quirks.orig` and refuted on concrete witnesses at the end of the file.
-/
namespace A2Verif.C15
open A2Verif.Gen.Opcodes A2Verif.Dasm A2Verif.Asm

/-- **Coverage** ("accounts for every input byte exactly once"), for every byte string, origin, processor,
MX setting and `brk` option, code and data runs alike: the emitted lines tile `[org, org + n)` — each line
starts where the previous one ended, stands for at least one byte, and the last one ends at the end of the
range (`Line.len` of `LUP r / HEX h / --^` is `r * |h|`, of `DS n,$v` is `n`, of `ASC`/`DCI` the string length). -/
theorem dasm_covers_every_byte_once (q : Quirks) (cfg : Cfg) (org : Nat) (bytes : List Nat)
    (hb : ∀ x ∈ bytes, x < 256) :
    Contig org (dasm q cfg org bytes) (org + bytes.length) :=
  go_contig q cfg bytes.length org bytes (Nat.le_refl _) hb

example : Contig 0x300 (dasm Quirks.fixed ⟨.p6502, true, true, false⟩ 0x300 [0xA9, 0x01, 0x02, 0x02, 0x02, 0xC8, 0xC5, 0xCC, 0x00])
    (0x300 + 9) := dasm_covers_every_byte_once _ _ _ _ (by decide)

/-- **Round trip of one instruction, every operand value** ("never yields different bytes" and "reassembly
succeeds" at the level of one line).  Wherever the disassembler recognises an instruction of the selected
processor — any opcode of the table, any operand bytes (zero-page-valued absolute operands, long addresses
in any bank, immediates under every MX setting, block moves, branches at every origin including those it
renders as `HEX` because the target leaves bank 0) — the line it emits assembles, under every assembler
variant in which that processor can be declared, to exactly the opcode and its operand bytes. -/
theorem instruction_reassembles_exactly (cfg : Cfg) (ver : Ver) (addr op : Nat) (tl : List Nat) (i : Info)
    (hc : compat cfg.proc ver = true) (hb : ∀ x ∈ op :: tl, x < 256)
    (hi : isInstruction cfg (op :: tl) = some i) :
    lineBytes Quirks.fixed ⟨cfg.proc, ver, cfg.m8, cfg.x8⟩ addr (step Quirks.fixed cfg addr (op :: tl)).1
      = .ok ((op :: tl).take (step Quirks.fixed cfg addr (op :: tl)).2) := by
  have hop : op < 256 := hb op (by simp)
  have hbt : ∀ x ∈ tl, x < 256 := fun x hx => hb x (by simp [hx])
  obtain ⟨h1, h2⟩ := instr_roundtrip cfg ver addr op tl i hc hop hbt hi
  have hstep : step Quirks.fixed cfg addr (op :: tl) = pushInstruction Quirks.fixed addr op tl i := by
    simp [step, hi]
  rw [hstep, h1, h2, Nat.add_comm]; rfl

example : isInstruction ⟨.p65816, false, true, false⟩ [0xA9, 0x12, 0x00, 0x60] = some ⟨⟨.lda, .imm, true, true, true⟩, 2, true, false⟩ := by
  decide +kernel

/-- **Branches at range limits**: the assembler's `abs_to_rel` inverts the disassembler's `rel_to_abs` for
every program counter and every 8 / 16 bit displacement for which the latter yields a target. -/
theorem branch_roundtrip (n pc v d : Nat) (hn : n = 1 ∨ n = 2) (hv : v < 256 ^ n)
    (h : relToAbs pc v n = some d) : absToRel pc d n = some v :=
  (rel_roundtrip n pc v d hn hv h).1

example : relToAbs 0xFF7E 0x7F 1 = some 0xFFFF ∧ relToAbs 0xFF7F 0x7F 1 = none ∧ relToAbs 0 0x80 1 = none := by decide

/-- **Pure code reassembles** (last sentence of the property, and "never different bytes" for such input):
if the input consists only of complete valid instructions of the selected processor, then assembling the
whole disassembly line after line (program counter threaded as the spot assembler does) succeeds and yields
the input bytes — for every origin, processor, assembler variant that can declare it, and MX setting. -/
theorem pure_code_reassembles (cfg : Cfg) (ver : Ver) (org : Nat) (bytes : List Nat)
    (hc : compat cfg.proc ver = true) (hb : ∀ x ∈ bytes, x < 256)
    (hp : pureCode cfg bytes.length bytes = true) :
    asmAll Quirks.fixed ⟨cfg.proc, ver, cfg.m8, cfg.x8⟩ org (dasm Quirks.fixed cfg org bytes) = .ok bytes :=
  (pure_go cfg ver hc bytes.length org bytes (Nat.le_refl _) hb hp).1

example : pureCode ⟨.p65816, true, true, false⟩ 9 [0x54, 0x01, 0x02, 0x80, 0xFE, 0xAF, 0x56, 0x34, 0x12] = true := by
  decide +kernel

/-- **Content of every data run.**  Whatever `try_data_run` emits for a stretch that is not an instruction —
`DS n,$v` for a fill, `HEX`/`LUP n`+`HEX`+`--^` for a period-2 or period-4 pattern, `ASC '…'`/`ASC "…"` with or
without the `,00` tail, `DCI` with either delimiter — if the assembler accepts the line (it refuses `LUP`, and a `DS`
count above `$FFFF`), the bytes it emits are exactly the bytes of the run.  Uses the meaning of the five scan
counters (`ScanSem`: fill is uniform, string characters are in the printable set with the right high bit) and the
transcription of `push_strings` on the node text *with both delimiters* (`signStep`, `strCore`). -/
theorem data_run_content (q : Quirks) (c : ACfg) (addr : Nat) (rest : List Nat) (r : Line × Nat)
    (hb : ∀ x ∈ rest, x < 256) (h : tryDataRun addr rest = some r)
    (b : List Nat) (hok : lineBytes q c addr r.1 = .ok b) : b = rest.take r.2 :=
  tryDataRun_content q c addr rest r hb h b hok

example : tryDataRun 0x300 [0xC8, 0xC5, 0xCC, 0xCC, 0xCF, 0x00, 0x60]
    = some (.asc 0x300 true [0x48, 0x45, 0x4C, 0x4C, 0x4F] true, 6) := by decide +kernel
example : tryDataRun 0x300 [0x48, 0x45, 0x4C, 0x4C, 0xCF, 0x02]
    = some (.dci 0x300 false [0x48, 0x45, 0x4C, 0x4C, 0x4F], 5) := by decide +kernel
example : tryDataRun 0x300 [0x02, 0x02, 0x02, 0x60] = some (.ds 0x300 3 0x02, 3) := by decide +kernel
example : tryDataRun 0x300 [0x02, 0x03, 0x02, 0x03, 0x02] = some (.hex 0x300 2 [0x02, 0x03], 4) := by decide +kernel

/-- **Strings are printable** (backs the text-layer parameter for `ASC`/`DCI`): the characters the disassembler
puts between the delimiters are letters, digits, blank, comma or period (7 bit) — never a delimiter (`'` `"` `&` `/`),
a control character or `;` — so the rendered operand is one `dstring` token followed at most by `,00`. -/
theorem string_lines_printable (addr : Nat) (rest : List Nat) (r : Line × Nat)
    (h : tryDataRun addr rest = some r) : ∀ ch ∈ lineChars r.1, probablyString ch 0 = true :=
  tryDataRun_printable addr rest r h

/-- **A refused `LUP` still stands for its span.**  The spot assembler answers `CannotAssemble` for `LUP`; read as
Merlin reads it (body repeated `r` times) the group `LUP r` / `HEX body` / `--^` that `try_data_run` emits for a
period-2 or period-4 pattern is exactly the bytes of the run (so nothing is lost or duplicated by the refusal). -/
theorem lup_expansion_exact (addr : Nat) (rest : List Nat) (a reps : Nat) (body : List Nat) (k : Nat)
    (h : tryDataRun addr rest = some (.hex a reps body, k)) : lupBytes reps body = rest.take k :=
  tryDataRun_lup addr rest a reps body k h

example : lupBytes 2 [0x02, 0x03] = [0x02, 0x03, 0x02, 0x03] := by decide

/-- **Never different bytes, arbitrary input, one line** ("either reproduces the input bytes exactly or reports
that it cannot assemble a construct; it never yields different bytes").  At any point of any byte string, for
every processor, assembler variant that can declare it, MX and brk: if the assembler model accepts the line the
disassembler model emits there — instruction, out-of-range branch as `HEX`, data run of any kind, `DFB` — its
bytes are exactly the bytes the line stands for. -/
theorem never_different_bytes (cfg : Cfg) (ver : Ver) (addr : Nat) (rest : List Nat)
    (hc : compat cfg.proc ver = true) (hne : rest ≠ []) (hb : ∀ x ∈ rest, x < 256) (b : List Nat)
    (hok : lineBytes Quirks.fixed ⟨cfg.proc, ver, cfg.m8, cfg.x8⟩ addr (step Quirks.fixed cfg addr rest).1 = .ok b) :
    b = rest.take (step Quirks.fixed cfg addr rest).2 :=
  step_content cfg ver addr rest hc hne hb b hok

/-- **Never different bytes, whole program.**  For ANY byte string, origin, processor, assembler variant that can
declare it, MX and brk: if assembling the whole disassembly (line after line, program counter threaded as the
spot assembler does) succeeds, the result is the input; the only other outcome is an explicit refusal. -/
theorem reassembly_never_differs (cfg : Cfg) (ver : Ver) (org : Nat) (bytes : List Nat)
    (hc : compat cfg.proc ver = true) (hb : ∀ x ∈ bytes, x < 256) (b : List Nat)
    (hok : asmAll Quirks.fixed ⟨cfg.proc, ver, cfg.m8, cfg.x8⟩ org (dasm Quirks.fixed cfg org bytes) = .ok b) :
    b = bytes :=
  go_never_differs cfg ver hc bytes.length org bytes (Nat.le_refl _) hb b hok

/-- a mixture of code, a negative-ASCII string with `,00` tail, a fill and a stray byte: accepted and identical -/
example : okIs (asmAll Quirks.fixed ⟨.p6502, .m8, true, true⟩ 0x300
    (dasm Quirks.fixed ⟨.p6502, true, true, false⟩ 0x300 [0xA9, 0x01, 0x02, 0x02, 0x02, 0xC8, 0xC5, 0xCC, 0x00, 0x02]))
    [0xA9, 0x01, 0x02, 0x02, 0x02, 0xC8, 0xC5, 0xCC, 0x00, 0x02] = true := by decide +kernel

/-- a period-2 pattern becomes `LUP`, which the spot assembler refuses: an explicit error, not different bytes -/
example : okIs (asmAll Quirks.fixed ⟨.p6502, .m8, true, true⟩ 0x300
    (dasm Quirks.fixed ⟨.p6502, true, true, false⟩ 0x300 [0x02, 0x03, 0x02, 0x03])) [0x02, 0x03, 0x02, 0x03] = false := by
  decide +kernel

/-! ## The unrepaired code violates the property (witnesses replayed on the real code by the harness) -/

/-- defect 1 (`c15/65816/reassembly-differs/op=AF`): `AF 56 34 12` is rendered `LDA $123456` (no `L`), which the
assembler turns into `AD 56 34`. -/
example : okIs (lineBytes Quirks.orig ⟨.p65816, .m16, true, true⟩ 0x300
    (step Quirks.orig ⟨.p65816, true, true, false⟩ 0x300 [0xAF, 0x56, 0x34, 0x12]).1) [0xAD, 0x56, 0x34] = true := by
  decide +kernel

/-- defect 2 (`c15/65802/reassembly-differs/op=AF`): under Merlin 8 (65802) `LDAL $000034` becomes `AD 34 00`. -/
example : okIs (lineBytes Quirks.orig ⟨.p65802, .m8, true, true⟩ 0x300
    (step Quirks.orig ⟨.p65802, true, true, false⟩ 0x300 [0xAF, 0x34, 0x00, 0x00]).1) [0xAD, 0x34, 0x00] = true := by
  decide +kernel

/-- defect 3 (`c15/65816/reassembly-differs/after-block-move`): after `MVN` the program counter is 2 too high, so the
following `BRA` to itself assembles with displacement `FC` instead of `FE`. -/
example : okIs (asmAll Quirks.orig ⟨.p65816, .m16, true, true⟩ 0x300
    (dasm Quirks.orig ⟨.p65816, true, true, false⟩ 0x300 [0x54, 0x01, 0x02, 0x80, 0xFE])) [0x54, 0x01, 0x02, 0x80, 0xFC] = true := by
  decide +kernel

/-- and the same three inputs under the repaired behaviour -/
example : okIs (asmAll Quirks.fixed ⟨.p65816, .m16, true, true⟩ 0x300
    (dasm Quirks.fixed ⟨.p65816, true, true, false⟩ 0x300 [0x54, 0x01, 0x02, 0x80, 0xFE, 0xAF, 0x56, 0x34, 0x12]))
      [0x54, 0x01, 0x02, 0x80, 0xFE, 0xAF, 0x56, 0x34, 0x12] = true := by
  decide +kernel

end A2Verif.C15
