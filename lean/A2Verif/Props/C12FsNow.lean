import A2Verif.Props.C12Fs
import A2Verif.Gen.C12FsFlags
/-!
# C12, file-system read paths: the theorems about the code **as it is now**

Each theorem here starts from flags and constants that `translator/gen_c12fs.py` derives from the current source
(`A2Verif.Gen.C12FsFlags`): it checks exactly when the guard or repair it names is in the source, and stops checking
when it disappears.  Kept apart from `Props/C12Fs.lean` so that the unconditional theorems there keep checking on an
unrepaired tree.
-/
namespace A2Verif.C12Fs

section Pascal
open A2Verif.Fs.Pascal A2Verif.C12FsId.Pascal

/-- **C12 / Pascal, now**: with the total name conversions in `pascal/pack.rs` (flag `pascalNameTotal`), every image of
512-byte blocks is identified, listed, walked, counted and fetched from without a panic. -/
theorem pascal_reads_no_panic_now (r : Raw) (hb : Blocks512 r) :
    testImg r ≠ .error .panic ∧ statV Gen.C12FsFlags.pascalNameTotal r ≠ .error .panic ∧
    catalogV Gen.C12FsFlags.pascalNameTotal r ≠ .error .panic ∧ treeV Gen.C12FsFlags.pascalNameTotal r ≠ .error .panic ∧
    globV Gen.C12FsFlags.pascalNameTotal r ≠ .error .panic ∧ ∀ name, getV Gen.C12FsFlags.pascalNameTotal r name ≠ .error .panic := by
  have h : Gen.C12FsFlags.pascalNameTotal = true := by decide
  rw [h]
  exact pascal_reads_fixed_no_panic r hb

end Pascal

section Dos
open A2Verif.Fs.Dos3x

/-- **C12 / DOS 3.x, now**: the fuel of the model's walks is the caps of the source (`MAX_DIRECTORY_REPS`,
`MAX_TSLIST_REPS` in `dos3x/types.rs`; the translator also checks that the five walks still loop over them and that
`open_vtoc_buffer` still bounds `max_pairs`). -/
theorem dos_caps_now : maxDirectoryReps = Gen.C12FsFlags.dosMaxDirectoryReps ∧ maxTslistReps = Gen.C12FsFlags.dosMaxTslistReps := by
  decide

end Dos

section Prodos
open A2Verif.Fs.Prodos A2Verif.C12FsId.Prodos

/-- **C12 / ProDOS, now**: with `read_index_block` saturating (`prodosIndexEofSaturating`), the listing, `get` of any
non-empty path and `stat` of a freshly mounted volume do not panic, on every image of 512-byte blocks. -/
theorem prodos_reads_no_panic_now (r : Raw) (hu : Units512 r) (src : Repairs) :
    (catalog [47] (fresh r src)).1 ≠ .error .panic ∧
    (∀ path, path ≠ [] → (getV Gen.C12FsFlags.prodosIndexEofSaturating path (fresh r src)).1 ≠ .error .panic) ∧
    (statFree (fresh r src)).1 ≠ .error .panic ∧ testImg r ≠ .error .panic := by
  have h : Gen.C12FsFlags.prodosIndexEofSaturating = true := by decide
  rw [h]
  have := prodos_reads_fixed_no_panic r hu src
  exact ⟨this.1, fun p hp => (this.2.2.2.1 p hp).1, this.2.2.2.2, prodos_testImg_no_panic r hu⟩

/-- **C12 / ProDOS, the same for the code as it is now**: checks exactly when the source has the visit budget
(`Gen.C12FsFlags.prodosVisitBudget`, derived by `translator/gen_c12fs.py` from `tree_node` and `glob_node`); the
nesting-cap flags are whatever the source says. -/
theorem prodos_walk_bounded_now (r : Raw) :
    (tree Gen.C12FsFlags.prodosVisitBudget Gen.C12FsFlags.prodosTreeCapErr r).2.visits ≤ r.units.size + 1 ∧
    (tree Gen.C12FsFlags.prodosVisitBudget Gen.C12FsFlags.prodosTreeCapErr r).2.reads ≤ 100 * (r.units.size + 1) ∧
    (glob Gen.C12FsFlags.prodosVisitBudget Gen.C12FsFlags.prodosGlobCapErr r).2.visits ≤ r.units.size + 1 ∧
    (glob Gen.C12FsFlags.prodosVisitBudget Gen.C12FsFlags.prodosGlobCapErr r).2.reads ≤ 100 * (r.units.size + 1) := by
  have h : Gen.C12FsFlags.prodosVisitBudget = true := by decide
  rw [h]
  exact ⟨(prodos_walk_budget_bounded _ r).1, (prodos_walk_budget_bounded _ r).2.1,
    (prodos_walk_budget_bounded _ r).2.2.1, (prodos_walk_budget_bounded _ r).2.2.2⟩

/-- **C12 / ProDOS, reaching the nesting cap ends the walk — in the code as it is now.**  The model's cap branch is an
error that every enclosing loop propagates (`entryLoop`, `blockLoop`: first error wins); this theorem checks exactly
when both `tree_node` and `glob_node` still return `Err` there, and with the caps 100 / 32 the models use. -/
theorem prodos_nesting_cap_is_error_now (budget : Bool) (r : Raw) (total b : Nat) (w : Walk) :
    walkNode budget Gen.C12FsFlags.prodosTreeCapErr r total 0 b w = (.error .endOfData, w) ∧
    walkNode budget Gen.C12FsFlags.prodosGlobCapErr r total 0 b w = (.error .endOfData, w) ∧
    Gen.C12FsFlags.prodosMaxDirectoryReps = 100 ∧ Gen.C12FsFlags.prodosMaxDirectoryDepth = 32 := by
  have h1 : Gen.C12FsFlags.prodosTreeCapErr = true := by decide
  have h2 : Gen.C12FsFlags.prodosGlobCapErr = true := by decide
  rw [h1, h2]
  exact ⟨by unfold walkNode; rfl, by unfold walkNode; rfl, by decide, by decide⟩

end Prodos

section Fat
open A2Verif.C12FsWalk

/-- **C12 / FAT, now**: `fat::Disk::tree_node` and `glob_node` carry the visit budget (`fatVisitBudget`), so the bound of
`fat_walk_budget_bounded` holds for the walk with the flags of the current source; the nesting cap is 64 and its branch
returns `Err`. -/
theorem fat_walk_bounded_now {σ δ : Type} (k : Skel σ δ) (limit : Nat) (root : δ) (st : σ) :
    (walk k Gen.C12FsFlags.fatVisitBudget Gen.C12FsFlags.fatTreeCapErr limit (Gen.C12FsFlags.fatMaxDirectoryDepth + 1) root (st, 0)).2.2 ≤ limit + 1 ∧
    (walk k Gen.C12FsFlags.fatVisitBudget Gen.C12FsFlags.fatGlobCapErr limit Gen.C12FsFlags.fatMaxDirectoryDepth root (st, 0)).2.2 ≤ limit + 1 ∧
    Gen.C12FsFlags.fatTreeCapErr = true ∧ Gen.C12FsFlags.fatGlobCapErr = true ∧ Gen.C12FsFlags.fatMaxDirectoryDepth = 64 := by
  have h : Gen.C12FsFlags.fatVisitBudget = true := by decide
  rw [h]
  exact ⟨(fat_walk_budget_bounded k _ limit _ root st).1, (fat_walk_budget_bounded k _ limit _ root st).1, by decide, by decide, by decide⟩

end Fat

section Cpm
open A2Verif.Fs.Cpm A2Verif.C12FsId.Cpm
open A2Verif.Read.Cpm (Dpb)

/-- **C12 / CP/M, now**: with `num_free_blocks` saturating and overlapping extent numbers refused (`cpmFreeSaturating`,
`cpmOverlapErr`), the read-only queries of an identified volume do not panic. -/
theorem cpm_mounted_reads_no_panic_now (d : Dpb) (r : Raw) (hv3 : d.v3 = true) (hm : testImg d r = .ok true) :
    statV Gen.C12FsFlags.cpmFreeSaturating d r ≠ .error .panic ∧ catalog d r ≠ .error .panic ∧ globV d r ≠ .error .panic ∧
    ∀ name absIdx, getV Gen.C12FsFlags.cpmOverlapErr d r name absIdx ≠ .error .panic := by
  have h1 : Gen.C12FsFlags.cpmFreeSaturating = true := by decide
  have h2 : Gen.C12FsFlags.cpmOverlapErr = true := by decide
  rw [h1, h2]
  exact cpm_mounted_reads_fixed_no_panic d r hv3 hm

end Cpm

end A2Verif.C12Fs
