import A2Verif.Lemmas.SrvPoison
import A2Verif.Lemmas.SrvSent
import A2Verif.Lemmas.SrvAn
/-!
# C18 — Language servers report on the latest text under any schedule

Theorems about the protocol model `A2Verif.Srv` (`Model/Srv.lean`), which transcribes the main loop,
the notification handlers and the configuration-response handler of the three servers.  All of them
quantify over **every** event list, i.e. every notification history and every interleaving of the
analysis threads (`acquire/finish/die` events are the scheduler).

The analysis is a parameter `an : Text → Option Diags`; the theorems hold for every `an`.
-/
namespace A2Verif.C18
open A2Verif.Srv

variable (an : Text → Option Diags)

/-! ## helper facts about lists of publications -/

theorem pubOf_some {jd : Nat × Doc} {p : Pub} (h : pubOf an jd = some p) :
    p.id = jd.1 ∧ p.uri = jd.2.uri ∧ p.ver = jd.2.ver ∧ an jd.2.text = some p.diags := by
  unfold pubOf at h
  split at h
  · rename_i d hd
    cases h
    exact ⟨rfl, rfl, rfl, hd⟩
  · cases h

theorem versions_sublist (l : List (Nat × Doc)) (u : Uri) :
    (((l.filterMap (pubOf an)).filter (fun p => p.uri = u)).map (·.ver)).Sublist
      ((l.filter (fun jd => jd.2.uri = u)).map (·.2.ver)) := by
  induction l with
  | nil => simp
  | cons jd l ih =>
    simp only [List.filterMap_cons]
    cases hp : pubOf an jd with
    | none =>
      simp only []
      by_cases hu : jd.2.uri = u
      · simp only [List.filter_cons, hu, decide_true, if_true, List.map_cons]
        exact ih.trans (List.sublist_cons_self _ _)
      · simp only [List.filter_cons, hu, decide_false]
        exact ih
    | some p =>
      have ⟨_, h2, h3, _⟩ := pubOf_some an hp
      simp only []
      by_cases hu : jd.2.uri = u
      · have hpu : p.uri = u := h2.trans hu
        simp only [List.filter_cons, hu, hpu, decide_true, if_true, List.map_cons, h3]
        exact ih.cons_cons _
      · have hpu : ¬ p.uri = u := fun h => hu (h2.symm.trans h)
        simp only [List.filter_cons, hu, hpu, decide_false]
        exact ih

theorem getLast?_cons_of_some {α : Type} {a : α} {l : List α} {x : α} (h : l.getLast? = some x) :
    (a :: l).getLast? = some x := by
  cases l with
  | nil => simp at h
  | cons b l => rw [List.getLast?_cons_cons]; exact h

theorem filter_pub_nil (l : List (Nat × Doc)) (u : Uri) (h : l.filter (fun jd => jd.2.uri = u) = []) :
    (l.filterMap (pubOf an)).filter (fun p => p.uri = u) = [] := by
  have := versions_sublist an l u
  rw [h] at this
  simp only [List.map_nil, List.sublist_nil, List.map_eq_nil_iff] at this
  exact this

/-- if the last job launched for `u` carries document `d` and `d` analyses to `r`, the last
publication for `u` in the exact published list is `(u, d.ver, r)` -/
theorem lastPub_of_lastLaunched (l : List (Nat × Doc)) (u : Uri) (d : Doc) (r : Diags)
    (hl : lastLaunched l u = some d) (hr : an d.text = some r) :
    ∃ id, lastPub (l.filterMap (pubOf an)) u = some { id := id, uri := u, ver := d.ver, diags := r } := by
  induction l with
  | nil => simp [lastLaunched] at hl
  | cons x l ih =>
    by_cases hx : x.2.uri = u
    · cases hlast : (l.filter (fun jd => jd.2.uri = u)).getLast? with
      | none =>
        have hnil : l.filter (fun jd => jd.2.uri = u) = [] := List.getLast?_eq_none_iff.mp hlast
        have hd : x.2 = d := by
          simp [lastLaunched, hx, hnil] at hl
          exact hl
        have hp : pubOf an x = some { id := x.1, uri := x.2.uri, ver := x.2.ver, diags := r } := by
          simp [pubOf, hd, hr]
        refine ⟨x.1, ?_⟩
        simp only [lastPub, List.filterMap_cons, hp, List.filter_cons, hx, decide_true, if_true]
        rw [filter_pub_nil an l u hnil]
        simp [← hd]
      | some y =>
        have hd : lastLaunched l u = some d := by
          simp only [lastLaunched, List.filter_cons, hx, decide_true, if_true] at hl
          rw [getLast?_cons_of_some hlast] at hl
          simp only [lastLaunched, hlast]
          exact hl
        obtain ⟨id, hid⟩ := ih hd
        refine ⟨id, ?_⟩
        simp only [lastPub, List.filterMap_cons] at hid ⊢
        cases hp : pubOf an x with
        | none => exact hid
        | some p =>
          simp only [List.filter_cons]
          split
          · exact getLast?_cons_of_some hid
          · exact hid
    · have hd : lastLaunched l u = some d := by
        simp only [lastLaunched, List.filter_cons, hx, decide_false] at hl
        exact hl
      obtain ⟨id, hid⟩ := ih hd
      refine ⟨id, ?_⟩
      simp only [lastPub, List.filterMap_cons] at hid ⊢
      cases hp : pubOf an x with
      | none => exact hid
      | some p =>
        have hpu : ¬ p.uri = u := fun h => hx ((pubOf_some an hp).2.1.symm.trans h)
        simp only [List.filter_cons, hpu, decide_false]
        exact hid

theorem IdsOk.run {s s' : State} {evs : List Event} (hi : IdsOk s) (hr : run an s evs = some s') : IdsOk s' :=
  run_induct an (ok := fun _ => True) (fun _ _ _ _ h hs => IdsOk.step an h hs) (fun _ _ => trivial) hi hr

/-! ## (i) publications arrive in launch order, hence in version order -/

/-- **C18 clause "diagnostics published for a document arrive in version order"**, structural form:
under every history and every schedule the list of publications is a subsequence of the list of
launched jobs (launch order = order of the client's notifications), and every publication carries
the uri and version *of the job's own document snapshot* and the analysis of that snapshot's text.
A stale result can therefore never follow a newer one. -/
theorem published_in_launch_order {evs : List Event} {s : State} (hr : run an init evs = some s) :
    s.published.Sublist (s.launched.filterMap (pubOf an)) := by
  obtain ⟨⟨pre, hl, hp⟩, _⟩ := Inv.run an (Inv.init an) hr
  rw [hl, List.filterMap_append]
  exact hp.trans (List.sublist_append_left _ _)

/-- **C18 clause "arrive in version order"**: whatever order relation `R` the versions sent by the
client for `u` satisfy pairwise (for an LSP client: strictly increasing), the versions published for
`u` satisfy it too. -/
theorem versions_in_order (R : Ver → Ver → Prop) {evs : List Event} {s : State} (u : Uri)
    (hr : run an init evs = some s)
    (hsent : ((s.launched.filter (fun jd => jd.2.uri = u)).map (·.2.ver)).Pairwise R) :
    ((s.published.filter (fun p => p.uri = u)).map (·.ver)).Pairwise R := by
  have h1 := published_in_launch_order an hr
  have h2 : ((s.published.filter (fun p => p.uri = u)).map (·.ver)).Sublist
      ((s.launched.filter (fun jd => jd.2.uri = u)).map (·.2.ver)) :=
    ((h1.filter _).map _).trans (versions_sublist an s.launched u)
  exact hsent.sublist h2

/-- non-vacuity: two edits whose analyses complete in the *opposite* order (job 1 obtains the mutex
and finishes before job 0) are still published as version 1, then version 2 -/
example : (run (fun t => some t) init
    [.opn 7 1 100, .chg 7 2 101, .acquire 1, .tick, .finish 1, .tick, .acquire 0, .finish 0, .tick, .tick]).map
      (fun s => s.published.map (fun p => (p.uri, p.ver, p.diags)))
    = some [(7, some 1, 100), (7, some 2, 101)] := by decide

/-! ## (ii) the last publication is the last version sent, with the analysis of the last text -/

/-- **C18 clause "the last one published carries the last version sent and equals what analysing
that final text alone produces"**, list form.  If no thread dies and every launched job eventually
finishes (fairness: the history contains `finish id` for every launched id), then `queue.length`
further passes of the main loop are enabled, empty the queue, and the published list is *exactly*
the launched list mapped through the analysis (jobs whose analysis returned `Err` publish nothing). -/
theorem published_exact_after_quiescence {evs : List Event} {s : State} (hr : run an init evs = some s)
    (hnd : ∀ e ∈ evs, notDie e) (hfair : ∀ id, id < s.nextId → Event.finish id ∈ evs) :
    ∃ s', run an init (evs ++ List.replicate s.queue.length .tick) = some s' ∧ s'.queue = [] ∧
      s'.launched = s.launched ∧ s'.published = s.launched.filterMap (pubOf an) := by
  have hids := IdsOk.run an IdsOk.init hr
  have hfin : ∀ j ∈ s.queue, j.st.finished = true := by
    intro j hj
    have hs := settled_of_run an IdsOk.init hr (hfair j.id (hids.bound j hj))
    exact hs.2 j hj rfl
  obtain ⟨s', h1, h2, h3⟩ := drain an s.queue.length s rfl hfin
  have hrun : run an init (evs ++ List.replicate s.queue.length .tick) = some s' := by
    rw [run_append, hr]; exact h1
  refine ⟨s', hrun, h2, h3, ?_⟩
  have hnd' : ∀ e ∈ evs ++ List.replicate s.queue.length Event.tick, notDie e := by
    intro e he
    rcases List.mem_append.mp he with he | he
    · exact hnd e he
    · rw [(List.mem_replicate.mp he).2]; trivial
  have hc := Clean.run an hnd' (Clean.init an) hrun
  rw [hc.exact an h2, h3]

/-- **C18 clause (ii), per document**: for histories of opens, changes, closes and configuration
answers, under any schedule without a dying thread and with every job finishing, after the queue has
drained the last publication for each document `u` carries the version of the last `didOpen`/
`didChange` sent for `u` and the analysis of that last text (provided that analysis succeeds). -/
theorem last_publication_is_last_sent {evs : List Event} {s : State} (hr : run an init evs = some s)
    (hnd : ∀ e ∈ evs, notDie e) (hplain : ∀ e ∈ evs, plain e)
    (hfair : ∀ id, id < s.nextId → Event.finish id ∈ evs) :
    ∃ s', run an init (evs ++ List.replicate s.queue.length .tick) = some s' ∧ s'.queue = [] ∧
      ∀ u d r, lastSent evs u = some d → an d.text = some r →
        ∃ id, lastPub s'.published u = some { id := id, uri := u, ver := d.ver, diags := r } := by
  obtain ⟨s', h1, h2, _, h4⟩ := published_exact_after_quiescence an hr hnd hfair
  refine ⟨s', h1, h2, ?_⟩
  intro u d r hd hrr
  have hsent := SentInv.run an hplain SentInv.init hr
  have hl : lastLaunched s.launched u = some d := by rw [hsent.last u]; exact hd
  rw [h4]
  exact lastPub_of_lastLaunched an s.launched u d r hl hrr

/-- non-vacuity for (ii): a burst of three edits on one document and one on another, jobs finishing
out of order; all hypotheses hold and the last publication for document 7 is version 3 -/
example :
    let evs : List Event := [.opn 7 1 100, .opn 8 1 200, .chg 7 2 101, .chg 7 3 102,
      .acquire 3, .finish 3, .acquire 1, .finish 1, .tick, .acquire 0, .finish 0, .acquire 2, .finish 2]
    (∀ e ∈ evs, notDie e) ∧ (∀ e ∈ evs, plain e) ∧
    (run (fun t => some (t + 1)) init evs).map (fun s => (s.nextId, s.queue.length)) = some (4, 4) ∧
    (∀ id, id < 4 → Event.finish id ∈ evs) ∧
    lastSent evs 7 = some { uri := 7, ver := some 3, text := 102 } ∧
    (run (fun t => some (t + 1)) init (evs ++ List.replicate 4 .tick)).map
      (fun s => (lastPub s.published 7).map (fun p => (p.ver, p.diags))) = some (some (some 3, 103)) := by
  refine ⟨by decide, by decide, by decide, by decide, by decide, by decide⟩

/-! ## (iii) the main loop never waits for an analysis thread -/

/-- **C18 clause "the server keeps answering requests"**: in *every* state — whatever the jobs are
doing, mutex held or poisoned — a pass of the main loop, a request, and each document notification
is enabled; a request is answered at once. -/
theorem main_loop_never_blocks (s : State) :
    (∃ s', step an s .tick = some s') ∧
    (∃ s', step an s .request = some s' ∧ s'.answered = s.answered + 1 ∧ s'.queue = s.queue) ∧
    (∀ u v t, (step an s (.opn u v t)).isSome ∧ (step an s (.chg u v t)).isSome) ∧
    (∀ u t, (step an s (.save u t)).isSome) ∧ (∀ u, (step an s (.close u)).isSome) := by
  refine ⟨?_, ⟨_, rfl, rfl, rfl⟩, ?_, ?_, ?_⟩
  · simp only [step]
    split
    · exact ⟨_, rfl⟩
    · split <;> exact ⟨_, rfl⟩
  · intro u v t
    refine ⟨rfl, ?_⟩
    simp only [step]
    split <;> rfl
  · intro u t; rfl
  · intro u; rfl

/-- the harvest looks only at the front job and does nothing at all while it is unfinished -/
theorem tick_does_not_wait {s : State} {j : Job} {rest : List Job} (hq : s.queue = j :: rest)
    (hf : j.st.finished = false) : step an s .tick = some s := by
  simp only [step, hq]
  cases hst : j.st with
  | done r => simp [hst, JobSt.finished] at hf
  | dead => simp [hst, JobSt.finished] at hf
  | spawned => rfl
  | holding => rfl

/-- The one place where the main thread does take the shared mutex is the first half of the handler
of the configuration response (`response.rs`): it is enabled exactly when no job holds the mutex, i.e.
the main loop can be delayed by the one analysis in progress, but by nothing else (a poisoned mutex
is skipped), and it changes nothing.  The second half (relaunch of every open document with a private
analyzer) never waits. -/
theorem config_waits_only_for_the_holder (s : State) :
    ((step an s .configLock).isSome = true ↔ (∀ id, s.lock ≠ .held id)) ∧
    (∀ s', step an s .configLock = some s' → s' = s) ∧
    (∀ live order, (step an s (.config live order)).isSome = true ↔ samePerm order (keys s.docs) = true) := by
  refine ⟨?_, ?_, ?_⟩
  · simp only [step]
    cases hl : s.lock <;> simp
  · intro s' h
    simp only [step] at h
    split at h
    · simp at h
    · simp only [Option.some.injEq] at h; exact h.symm
  · intro live order
    simp only [step]
    by_cases h : samePerm order (keys s.docs) = true <;> simp [h]

/-- every reachable state answers a request (non-vacuity of (iii) on a state with a held mutex) -/
example : (run (fun t => some t) init [.opn 1 1 5, .acquire 0, .request, .tick, .request]).map
    (fun s => (s.answered, s.queue.length, s.published.length)) = some (2, 1, 0) := by decide

/-! ## (iv) a dying analysis thread silences the server for good -/

/-- **C18 last sentence, model side**: once the shared mutex is poisoned it stays poisoned under
every continuation. -/
theorem poisoned_is_absorbing {evs evs' : List Event} {s s' : State} (hr0 : run an init evs = some s)
    (hp : s.lock = .poisoned) (hr : run an s evs' = some s') : s'.lock = .poisoned := by
  have h0 : LockInv s ∧ s.lock = .poisoned := ⟨LockInv.run an LockInv.init hr0, hp⟩
  have := run_induct an (P := fun s => LockInv s ∧ s.lock = .poisoned) (ok := fun _ => True)
    (fun s s' e _ h hs => ⟨LockInv.step an h.1 hs, poisoned_step an h.1 h.2 hs⟩) (fun _ _ => trivial) h0 hr
  exact this.2

/-- ids of the jobs that can still publish when the mutex is poisoned: results already computed and
private-analyzer jobs (configuration re-analysis) -/
def candidates (s : State) : List Nat :=
  (s.queue.filter (fun j => j.priv || (match j.st with | .done (some _) => true | _ => false))).map (·.id)

/-- **C18 last sentence, model side**: after the mutex is poisoned, nothing that is analysed from
then on is ever published — every later publication stems from a job whose result had already been
computed, or from a private-analyzer job that existed at that moment.  In particular no document
opened or changed afterwards ever gets diagnostics (until a configuration response relaunches it
with a private analyzer).  Hence the separate obligation "no document content makes an analysis
thread die", which only testing of the real analyzers can address. -/
theorem nothing_new_after_poison {evs evs' : List Event} {s s' : State} (hr0 : run an init evs = some s)
    (hp : s.lock = .poisoned) (hnc : ∀ e ∈ evs', notConfig e) (hr : run an s evs' = some s') :
    ∀ p ∈ s'.published, p ∈ s.published ∨ p.id ∈ candidates s := by
  have h0 : Mute s.published (candidates s) s := by
    refine ⟨LockInv.run an LockInv.init hr0, hp, fun p hp => .inl hp, ?_⟩
    intro j hj hc
    simp only [candidates, List.mem_map, List.mem_filter]
    refine ⟨j, ⟨hj, ?_⟩, rfl⟩
    rcases hc with hc | ⟨d, hc⟩
    · simp [hc]
    · simp [hc]
  have := run_induct an (P := Mute s.published (candidates s)) (ok := notConfig)
    (fun _ _ _ hok h hs => Mute.step an hok h hs) hnc h0 hr
  exact this.pubs

/-- witness for (iv): the first analysis dies; the document is changed twice afterwards, both jobs
run (`lock()` returns `Err`), the main loop keeps turning and answering requests, and nothing is
ever published -/
example : (run (fun t => some t) init
    [.opn 1 1 5, .acquire 0, .die 0, .tick, .chg 1 2 6, .acquire 1, .tick, .request, .chg 1 3 7, .acquire 2, .tick, .tick]).map
      (fun s => (s.lock, s.published.length, s.queue.length, s.answered))
    = some (.poisoned, 0, 0, 1) := by decide

/-! ## (v) the shared analyzer object: when is a published result a function of the text alone? -/

/-- **What the equals-fresh-analysis oracle checks, stated.**  In the model with the analyzer object's
state explicit (`stepS`: every shared job sees the state its predecessor on the mutex left behind), if
`analyze` resets its state (`A.resets`) then under every history and schedule everything published is,
in launch order, the analysis *by a new analyzer of that job's own text alone* (`A.alone`). -/
theorem published_is_function_of_text_alone {A : Analyzer} (hreset : A.resets) {evs : List Event} {ss : SState}
    (hr : runS A (sinit A) evs = some ss) :
    ss.srv.published.Sublist (ss.srv.launched.filterMap (pubOf A.alone)) :=
  published_in_launch_order A.alone (runS_refines hreset hr)

/-- **C18 clause (ii) for the stateful model**: with a resetting analyzer, no thread death and every
job finishing, after the queue has drained the last publication for each document carries the last
version sent and equals the analysis of the last text alone by a new analyzer — whatever other
documents and older versions went through the shared analyzer before, in whatever order. -/
theorem stateful_last_publication_equals_fresh_analysis {A : Analyzer} (hreset : A.resets)
    {evs : List Event} {ss : SState} (hr : runS A (sinit A) evs = some ss)
    (hnd : ∀ e ∈ evs, notDie e) (hplain : ∀ e ∈ evs, plain e)
    (hfair : ∀ id, id < ss.srv.nextId → Event.finish id ∈ evs) :
    ∃ ss', runS A (sinit A) (evs ++ List.replicate ss.srv.queue.length .tick) = some ss' ∧ ss'.srv.queue = [] ∧
      ∀ u d r, lastSent evs u = some d → A.alone d.text = some r →
        ∃ id, lastPub ss'.srv.published u = some { id := id, uri := u, ver := d.ver, diags := r } := by
  have hr0 : run A.alone init evs = some ss.srv := runS_refines hreset hr
  obtain ⟨s', h1, h2, h3⟩ := last_publication_is_last_sent A.alone hr0 hnd hplain hfair
  -- the ticks are enabled in the stateful model too and lead to the same server state
  have hticks : ∀ (n : Nat) (x : SState) (s2 : State), run A.alone x.srv (List.replicate n .tick) = some s2 →
      ∃ x', runS A x (List.replicate n .tick) = some x' ∧ x'.srv = s2 := by
    intro n
    induction n with
    | zero => intro x s2 h; simp only [List.replicate_zero, run, Option.some.injEq] at h; exact ⟨x, rfl, h⟩
    | succ n ih =>
      intro x s2 h
      simp only [List.replicate_succ, run] at h
      cases hs : step A.alone x.srv .tick with
      | none => simp [hs] at h
      | some s1 =>
        simp only [hs] at h
        have hS : stepS A x .tick = some { srv := s1, shared := x.shared } := by
          simp only [stepS, viewOf_eq_alone hreset, hs, Option.map_some]
        obtain ⟨x', hx1, hx2⟩ := ih { srv := s1, shared := x.shared } s2 h
        exact ⟨x', by simp only [List.replicate_succ, runS, hS]; exact hx1, hx2⟩
  have happ : ∀ (a b : List Event) (x : SState), runS A x (a ++ b) = (runS A x a).bind (fun y => runS A y b) := by
    intro a
    induction a with
    | nil => intro b x; simp [runS]
    | cons e a ih =>
      intro b x
      simp only [List.cons_append, runS]
      cases stepS A x e with
      | none => simp
      | some y => simp [ih]
  rw [run_append, hr0] at h1
  obtain ⟨x', hx1, hx2⟩ := hticks _ ss s' h1
  refine ⟨x', ?_, by rw [hx2]; exact h2, ?_⟩
  · rw [happ, hr]; exact hx1
  · rw [hx2]; exact h3

/-- non-vacuity: an analyzer whose successor state is the last text it saw but whose result ignores the
state (it "resets") — two documents, analyses out of launch order -/
example :
    let A : Analyzer := { fresh := 0, run := fun _ t => (some (t + 1), t) }
    A.resets ∧
    (runS A (sinit A) [.opn 7 1 100, .opn 8 1 200, .acquire 1, .finish 1, .acquire 0, .finish 0, .tick, .tick]).map
      (fun ss => (ss.shared, ss.srv.published.map (fun p => (p.uri, p.diags)))) = some (100, [(7, 101), (8, 201)]) := by
  refine ⟨fun _ _ => rfl, by decide⟩

/-- **The hypothesis is necessary** (this is the shape of a collision table that is not cleared between
analyses): an analyzer whose result depends on what the previous analysis left behind publishes, for
the final text `6`, something different from the analysis of `6` alone — and what it publishes depends
on the schedule. -/
example :
    let A : Analyzer := { fresh := 0, run := fun a t => (some (t + 1000 * a), t) }
    ¬ A.resets ∧
    A.alone 6 = some 6 ∧
    (runS A (sinit A) [.opn 7 1 5, .chg 7 2 6, .acquire 0, .finish 0, .acquire 1, .finish 1, .tick, .tick]).map
      (fun ss => (lastPub ss.srv.published 7).map (·.diags)) = some (some 5006) ∧
    (runS A (sinit A) [.opn 7 1 5, .chg 7 2 6, .acquire 1, .finish 1, .acquire 0, .finish 0, .tick, .tick]).map
      (fun ss => (lastPub ss.srv.published 7).map (·.diags)) = some (some 6) := by
  refine ⟨?_, by decide, by decide, by decide⟩
  intro h
  have := h 1 0
  simp at this

end A2Verif.C18
