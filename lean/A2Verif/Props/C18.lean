import A2Verif.Lemmas.SrvPoison
import A2Verif.Lemmas.SrvSent
import A2Verif.Lemmas.SrvCfgInv
import A2Verif.Model.SrvFields
/-!
# C18 — Language servers report on the latest text under any schedule

Theorems about the protocol model `A2Verif.Srv` (`Model/Srv.lean`), which transcribes the main loop,
the notification handlers and the configuration-response handler of the three servers.  All of them
quantify over **every** event list, i.e. every notification history and every interleaving of the
analysis threads (`acquire/finish/die` events are the scheduler).

In (i)–(iv) what a job computes is a parameter `an : job id → Text → Option Diags`; the theorems hold for
every `an`.  (v) determines the results from the client's settings and the shared analyzer object
(`Model/SrvCfg.lean`); (vi) ties the hypothesis "`analyze` resets" to tables generated from the source.
-/
namespace A2Verif.C18
open A2Verif.Srv

variable (an : Nat → Text → Option Diags)

/-! ## helper facts about lists of publications -/

theorem pubOf_some {jd : Nat × Doc} {p : Pub} (h : pubOf an jd = some p) :
    p.id = jd.1 ∧ p.uri = jd.2.uri ∧ p.ver = jd.2.ver ∧ an jd.1 jd.2.text = some p.diags := by
  unfold pubOf at h
  split at h
  · rename_i d hd
    cases h
    exact ⟨rfl, rfl, rfl, hd⟩
  · cases h

theorem versions_sublist (l : List (Nat × Doc)) (u : Uri) :
    (((l.filterMap (pubOf an)).filter (fun p => p.uri = u)).map (·.ver)).Sublist
      ((l.filter (fun jd => jd.2.uri = u)).map (·.2.ver)) := by
  induction l with
  | nil => simp
  | cons jd l ih =>
    simp only [List.filterMap_cons]
    cases hp : pubOf an jd with
    | none =>
      simp only []
      by_cases hu : jd.2.uri = u
      · simp only [List.filter_cons, hu, decide_true, if_true, List.map_cons]
        exact ih.trans (List.sublist_cons_self _ _)
      · simp only [List.filter_cons, hu, decide_false]
        exact ih
    | some p =>
      have ⟨_, h2, h3, _⟩ := pubOf_some an hp
      simp only []
      by_cases hu : jd.2.uri = u
      · have hpu : p.uri = u := h2.trans hu
        simp only [List.filter_cons, hu, hpu, decide_true, if_true, List.map_cons, h3]
        exact ih.cons_cons _
      · have hpu : ¬ p.uri = u := fun h => hu (h2.symm.trans h)
        simp only [List.filter_cons, hu, hpu, decide_false]
        exact ih

theorem getLast?_cons_of_some {α : Type} {a : α} {l : List α} {x : α} (h : l.getLast? = some x) :
    (a :: l).getLast? = some x := by
  cases l with
  | nil => simp at h
  | cons b l => rw [List.getLast?_cons_cons]; exact h

theorem filter_pub_nil (l : List (Nat × Doc)) (u : Uri) (h : l.filter (fun jd => jd.2.uri = u) = []) :
    (l.filterMap (pubOf an)).filter (fun p => p.uri = u) = [] := by
  have := versions_sublist an l u
  rw [h] at this
  simp only [List.map_nil, List.sublist_nil, List.map_eq_nil_iff] at this
  exact this

/-- if the last job launched for `u` is job `id` with document `d` and its analysis yields `r`, the last
publication for `u` in the exact published list is `(u, d.ver, r)`, produced by that job -/
theorem lastPub_of_lastLaunchedJ (l : List (Nat × Doc)) (u : Uri) (id : Nat) (d : Doc) (r : Diags)
    (hl : lastLaunchedJ l u = some (id, d)) (hr : an id d.text = some r) :
    lastPub (l.filterMap (pubOf an)) u = some { id := id, uri := u, ver := d.ver, diags := r } := by
  induction l with
  | nil => simp [lastLaunchedJ] at hl
  | cons x l ih =>
    by_cases hx : x.2.uri = u
    · cases hlast : (l.filter (fun jd => jd.2.uri = u)).getLast? with
      | none =>
        have hnil : l.filter (fun jd => jd.2.uri = u) = [] := List.getLast?_eq_none_iff.mp hlast
        have hd : x = (id, d) := by
          simp [lastLaunchedJ, hx, hnil] at hl
          exact hl
        have hp : pubOf an x = some { id := x.1, uri := x.2.uri, ver := x.2.ver, diags := r } := by
          simp [pubOf, hd, hr]
        simp only [lastPub, List.filterMap_cons, hp, List.filter_cons, hx, decide_true, if_true]
        rw [filter_pub_nil an l u hnil]
        simp [hd]
      | some y =>
        have hd : lastLaunchedJ l u = some (id, d) := by
          simp only [lastLaunchedJ, List.filter_cons, hx, decide_true, if_true] at hl
          rw [getLast?_cons_of_some hlast] at hl
          simp only [lastLaunchedJ, hlast]
          exact hl
        have hid := ih hd
        simp only [lastPub, List.filterMap_cons] at hid ⊢
        cases hp : pubOf an x with
        | none => exact hid
        | some p =>
          simp only [List.filter_cons]
          split
          · exact getLast?_cons_of_some hid
          · exact hid
    · have hd : lastLaunchedJ l u = some (id, d) := by
        simp only [lastLaunchedJ, List.filter_cons, hx, decide_false] at hl
        exact hl
      have hid := ih hd
      simp only [lastPub, List.filterMap_cons] at hid ⊢
      cases hp : pubOf an x with
      | none => exact hid
      | some p =>
        have hpu : ¬ p.uri = u := fun h => hx ((pubOf_some an hp).2.1.symm.trans h)
        simp only [List.filter_cons, hpu, decide_false]
        exact hid

theorem IdsOk.run {s s' : State} {evs : List Event} (hi : IdsOk s) (hr : run an s evs = some s') : IdsOk s' :=
  run_induct an (ok := fun _ => True) (fun _ _ _ _ h hs => IdsOk.step an h hs) (fun _ _ => trivial) hi hr

/-! ## (i) publications arrive in launch order, hence in version order -/

/-- **C18 clause "diagnostics published for a document arrive in version order"**, structural form:
under every history and every schedule the list of publications is a subsequence of the list of
launched jobs (launch order = order of the client's notifications), and every publication carries
the uri and version *of the job's own document snapshot* and the analysis of that snapshot's text.
A stale result can therefore never follow a newer one. -/
theorem published_in_launch_order {evs : List Event} {s : State} (hr : run an init evs = some s) :
    s.published.Sublist (s.launched.filterMap (pubOf an)) := by
  obtain ⟨⟨pre, hl, hp⟩, _⟩ := Inv.run an (Inv.init an) hr
  rw [hl, List.filterMap_append]
  exact hp.trans (List.sublist_append_left _ _)

/-- **C18 clause "arrive in version order"**: whatever order relation `R` the versions sent by the
client for `u` satisfy pairwise (for an LSP client: strictly increasing), the versions published for
`u` satisfy it too. -/
theorem versions_in_order (R : Ver → Ver → Prop) {evs : List Event} {s : State} (u : Uri)
    (hr : run an init evs = some s)
    (hsent : ((s.launched.filter (fun jd => jd.2.uri = u)).map (·.2.ver)).Pairwise R) :
    ((s.published.filter (fun p => p.uri = u)).map (·.ver)).Pairwise R := by
  have h1 := published_in_launch_order an hr
  have h2 : ((s.published.filter (fun p => p.uri = u)).map (·.ver)).Sublist
      ((s.launched.filter (fun jd => jd.2.uri = u)).map (·.2.ver)) :=
    ((h1.filter _).map _).trans (versions_sublist an s.launched u)
  exact hsent.sublist h2

/-- non-vacuity: two edits whose analyses complete in the *opposite* order (job 1 obtains the mutex
and finishes before job 0) are still published as version 1, then version 2 -/
example : (run (fun _ t => some t) init
    [.opn 7 1 100, .chg 7 2 101, .acquire 1, .tick, .finish 1, .tick, .acquire 0, .finish 0, .tick, .tick]).map
      (fun s => s.published.map (fun p => (p.uri, p.ver, p.diags)))
    = some [(7, some 1, 100), (7, some 2, 101)] := by decide

/-! ## (ii) the last publication is the last version sent, with the analysis of the last text -/

/-- **C18 clause "the last one published carries the last version sent and equals what analysing
that final text alone produces"**, list form.  If no thread dies and every launched job eventually
finishes (fairness: the history contains `finish id` for every launched id), then `queue.length`
further passes of the main loop are enabled, empty the queue, and the published list is *exactly*
the launched list mapped through the analysis (jobs whose analysis returned `Err` publish nothing). -/
theorem published_exact_after_quiescence {evs : List Event} {s : State} (hr : run an init evs = some s)
    (hnd : ∀ e ∈ evs, notDie e) (hfair : ∀ id, id < s.nextId → Event.finish id ∈ evs) :
    ∃ s', run an init (evs ++ List.replicate s.queue.length .tick) = some s' ∧ s'.queue = [] ∧
      s'.launched = s.launched ∧ s'.published = s.launched.filterMap (pubOf an) := by
  have hids := IdsOk.run an IdsOk.init hr
  have hfin : ∀ j ∈ s.queue, j.st.finished = true := by
    intro j hj
    have hs := settled_of_run an IdsOk.init hr (hfair j.id (hids.bound j hj))
    exact hs.2 j hj rfl
  obtain ⟨s', h1, h2, h3⟩ := drain an s.queue.length s rfl hfin
  have hrun : run an init (evs ++ List.replicate s.queue.length .tick) = some s' := by
    rw [run_append, hr]; exact h1
  refine ⟨s', hrun, h2, h3, ?_⟩
  have hnd' : ∀ e ∈ evs ++ List.replicate s.queue.length Event.tick, notDie e := by
    intro e he
    rcases List.mem_append.mp he with he | he
    · exact hnd e he
    · rw [(List.mem_replicate.mp he).2]; trivial
  have hc := Clean.run an hnd' (Clean.init an) hrun
  rw [hc.exact an h2, h3]

/-- **C18 clause (ii), per document**: for histories of opens, changes, closes and configuration
answers, under any schedule without a dying thread and with every job finishing, after the queue has
drained the last publication for each document `u` stems from the last job launched for `u`, which
carries the version and text of the last `didOpen`/`didChange` sent for `u`, and is the analysis result
of that job (provided that analysis succeeds). -/
theorem last_publication_is_last_sent {evs : List Event} {s : State} (hr : run an init evs = some s)
    (hnd : ∀ e ∈ evs, notDie e) (hplain : ∀ e ∈ evs, plain e)
    (hfair : ∀ id, id < s.nextId → Event.finish id ∈ evs) :
    ∃ s', run an init (evs ++ List.replicate s.queue.length .tick) = some s' ∧ s'.queue = [] ∧
      ∀ u d, lastSent evs u = some d → ∃ id, lastLaunchedJ s.launched u = some (id, d) ∧
        ∀ r, an id d.text = some r →
          lastPub s'.published u = some { id := id, uri := u, ver := d.ver, diags := r } := by
  obtain ⟨s', h1, h2, _, h4⟩ := published_exact_after_quiescence an hr hnd hfair
  refine ⟨s', h1, h2, ?_⟩
  intro u d hd
  have hsent := SentInv.run an hplain SentInv.init hr
  have hl : lastLaunched s.launched u = some d := by rw [hsent.last u]; exact hd
  rw [lastLaunched_eq_map] at hl
  cases hj : lastLaunchedJ s.launched u with
  | none => simp [hj] at hl
  | some jd =>
    obtain ⟨id, d'⟩ := jd
    simp only [hj, Option.map_some, Option.some.injEq] at hl
    subst hl
    refine ⟨id, rfl, ?_⟩
    intro r hrr
    rw [h4]
    exact lastPub_of_lastLaunchedJ an s.launched u id d' r hj hrr

/-- non-vacuity for (ii): a burst of three edits on one document and one on another, jobs finishing
out of order; all hypotheses hold and the last publication for document 7 is version 3 -/
example :
    let evs : List Event := [.opn 7 1 100, .opn 8 1 200, .chg 7 2 101, .chg 7 3 102,
      .acquire 3, .finish 3, .acquire 1, .finish 1, .tick, .acquire 0, .finish 0, .acquire 2, .finish 2]
    (∀ e ∈ evs, notDie e) ∧ (∀ e ∈ evs, plain e) ∧
    (run (fun _ t => some (t + 1)) init evs).map (fun s => (s.nextId, s.queue.length)) = some (4, 4) ∧
    (∀ id, id < 4 → Event.finish id ∈ evs) ∧
    lastSent evs 7 = some { uri := 7, ver := some 3, text := 102 } ∧
    (run (fun _ t => some (t + 1)) init (evs ++ List.replicate 4 .tick)).map
      (fun s => (lastPub s.published 7).map (fun p => (p.ver, p.diags))) = some (some (some 3, 103)) := by
  refine ⟨by decide, by decide, by decide, by decide, by decide, by decide⟩

/-! ## (iii) the main loop never waits for an analysis thread -/

/-- **C18 clause "the server keeps answering requests"**: in *every* state — whatever the jobs are
doing, mutex held or poisoned — a pass of the main loop, a request, and each document notification
is enabled; a request is answered at once. -/
theorem main_loop_never_blocks (s : State) :
    (∃ s', step an s .tick = some s') ∧
    (∃ s', step an s .request = some s' ∧ s'.answered = s.answered + 1 ∧ s'.queue = s.queue) ∧
    (∀ u v t, (step an s (.opn u v t)).isSome ∧ (step an s (.chg u v t)).isSome) ∧
    (∀ u t, (step an s (.save u t)).isSome) ∧ (∀ u, (step an s (.close u)).isSome) := by
  refine ⟨?_, ⟨_, rfl, rfl, rfl⟩, ?_, ?_, ?_⟩
  · simp only [step]
    split
    · exact ⟨_, rfl⟩
    · split <;> exact ⟨_, rfl⟩
  · intro u v t
    refine ⟨rfl, ?_⟩
    simp only [step]
    split <;> rfl
  · intro u t; rfl
  · intro u; rfl

/-- the harvest looks only at the front job and does nothing at all while it is unfinished -/
theorem tick_does_not_wait {s : State} {j : Job} {rest : List Job} (hq : s.queue = j :: rest)
    (hf : j.st.finished = false) : step an s .tick = some s := by
  simp only [step, hq]
  cases hst : j.st with
  | done r => simp [hst, JobSt.finished] at hf
  | dead => simp [hst, JobSt.finished] at hf
  | spawned => rfl
  | holding => rfl

/-- The one place where the main thread does take the shared mutex is the first half of the handler
of the configuration response (`response.rs`): it is enabled exactly when no job holds the mutex, i.e.
the main loop can be delayed by the one analysis in progress, but by nothing else (a poisoned mutex
is skipped), and it changes nothing.  The second half (relaunch of every open document with a private
analyzer) never waits. -/
theorem config_waits_only_for_the_holder (s : State) :
    (∀ c, (step an s (.configLock c)).isSome = true ↔ (∀ id, s.lock ≠ .held id)) ∧
    (∀ c s', step an s (.configLock c) = some s' → s' = s) ∧
    (∀ c live order, (step an s (.config c live order)).isSome = true ↔ samePerm order (keys s.docs) = true) := by
  refine ⟨?_, ?_, ?_⟩
  · intro c
    simp only [step]
    cases hl : s.lock <;> simp
  · intro c s' h
    simp only [step] at h
    split at h
    · simp at h
    · simp only [Option.some.injEq] at h; exact h.symm
  · intro c live order
    simp only [step]
    by_cases h : samePerm order (keys s.docs) = true <;> simp [h]

/-- every reachable state answers a request (non-vacuity of (iii) on a state with a held mutex) -/
example : (run (fun _ t => some t) init [.opn 1 1 5, .acquire 0, .request, .tick, .request]).map
    (fun s => (s.answered, s.queue.length, s.published.length)) = some (2, 1, 0) := by decide

/-! ## (iv) a dying analysis thread silences the server for good -/

/-- **C18 last sentence, model side**: once the shared mutex is poisoned it stays poisoned under
every continuation. -/
theorem poisoned_is_absorbing {evs evs' : List Event} {s s' : State} (hr0 : run an init evs = some s)
    (hp : s.lock = .poisoned) (hr : run an s evs' = some s') : s'.lock = .poisoned := by
  have h0 : LockInv s ∧ s.lock = .poisoned := ⟨LockInv.run an LockInv.init hr0, hp⟩
  have := run_induct an (P := fun s => LockInv s ∧ s.lock = .poisoned) (ok := fun _ => True)
    (fun s s' e _ h hs => ⟨LockInv.step an h.1 hs, poisoned_step an h.1 h.2 hs⟩) (fun _ _ => trivial) h0 hr
  exact this.2

/-- ids of the jobs that can still publish when the mutex is poisoned: results already computed and
private-analyzer jobs (configuration re-analysis) -/
def candidates (s : State) : List Nat :=
  (s.queue.filter (fun j => j.priv || (match j.st with | .done (some _) => true | _ => false))).map (·.id)

/-- **C18 last sentence, model side**: after the mutex is poisoned, nothing that is analysed from
then on is ever published — every later publication stems from a job whose result had already been
computed, or from a private-analyzer job that existed at that moment.  In particular no document
opened or changed afterwards ever gets diagnostics (until a configuration response relaunches it
with a private analyzer).  Hence the separate obligation "no document content makes an analysis
thread die", which only testing of the real analyzers can address. -/
theorem nothing_new_after_poison {evs evs' : List Event} {s s' : State} (hr0 : run an init evs = some s)
    (hp : s.lock = .poisoned) (hnc : ∀ e ∈ evs', notConfig e) (hr : run an s evs' = some s') :
    ∀ p ∈ s'.published, p ∈ s.published ∨ p.id ∈ candidates s := by
  have h0 : Mute s.published (candidates s) s := by
    refine ⟨LockInv.run an LockInv.init hr0, hp, fun p hp => .inl hp, ?_⟩
    intro j hj hc
    simp only [candidates, List.mem_map, List.mem_filter]
    refine ⟨j, ⟨hj, ?_⟩, rfl⟩
    rcases hc with hc | ⟨d, hc⟩
    · simp [hc]
    · simp [hc]
  have := run_induct an (P := Mute s.published (candidates s)) (ok := notConfig)
    (fun _ _ _ hok h hs => Mute.step an hok h hs) hnc h0 hr
  exact this.pubs

/-- witness for (iv): the first analysis dies; the document is changed twice afterwards, both jobs
run (`lock()` returns `Err`), the main loop keeps turning and answering requests, and nothing is
ever published -/
example : (run (fun _ t => some t) init
    [.opn 1 1 5, .acquire 0, .die 0, .tick, .chg 1 2 6, .acquire 1, .tick, .request, .chg 1 3 7, .acquire 2, .tick, .tick]).map
      (fun s => (s.lock, s.published.length, s.queue.length, s.answered))
    = some (.poisoned, 0, 0, 1) := by decide

/-! ## (v) settings and the shared analyzer object: what does a publication depend on?

`Model/SrvCfg.lean` (`stepC`) makes the two things a job's result depends on part of the protocol state:
the settings the client sends in answer to `workspace/configuration` (events `configLock c`,
`config c live order`: the two halves of `response.rs`) and the analyzer object behind the mutex.  A
shared job computes `A.run acfg shared text` with whatever settings and carried state the object has
*when the job finishes its turn on the mutex*; a job launched by the configuration handler computes
`A.run c (A.setCfg c A.fresh) text` on its own new analyzer. -/

section config
variable {σ : Type} {A : CAnalyzer σ}

/-- **every theorem of (i)–(iv) applies to the model with settings and analyzer object**: its server
part is a run of the base model, with the recorded results as the analysis function. -/
theorem config_model_refines_protocol_model {evs : List Event} {cs : CState σ}
    (hr : runC A (cinit A) evs = some cs) :
    run (fun i _ => resOf cs.fin i) init evs = some cs.srv ∧
    cs.srv.published.Sublist (cs.srv.launched.filterMap (pubOf (fun i _ => resOf cs.fin i))) :=
  ⟨runC_is_run hr, published_in_launch_order _ (runC_is_run hr)⟩

/-- **How the real handler waits, stated.**  The first half of the configuration handler is enabled
exactly when the main thread is not already inside the handler and no job holds the mutex (the main
thread blocks in `lock()` until the analysis in progress is over — it is never skipped because of
contention); if the mutex is free the shared analyzer has the new settings afterwards.  While the
handler is between its halves only threads move (`acquire`, `finish`, `die`). -/
theorem config_response_waits_and_is_applied (cs : CState σ) (c : Cfg) :
    ((stepC A cs (.configLock c)).isSome = true ↔ (cs.pending = none ∧ ∀ id, cs.srv.lock ≠ .held id)) ∧
    (∀ cs', stepC A cs (.configLock c) = some cs' → cs.srv.lock = .free → cs'.acfg = c ∧ cs'.pending = some c ∧ cs'.srv = cs.srv) ∧
    (cs.pending ≠ none → ∀ e, (stepC A cs e).isSome = true → (∃ id, e = .acquire id ∨ e = .finish id ∨ e = .die id) ∨
      ∃ c' l o, e = .config c' l o) := by
  refine ⟨?_, ?_, ?_⟩
  · simp only [stepC]
    cases hp : cs.pending <;> cases hl : cs.srv.lock <;> simp
  · intro cs' h hl
    simp only [stepC, hl] at h
    split at h
    · cases h
    · simp only [Option.some.injEq] at h
      subst h
      exact ⟨rfl, rfl, rfl⟩
  · intro hp e he
    have hps : cs.pending.isSome = true := by
      cases hpp : cs.pending with
      | none => exact absurd hpp hp
      | some _ => rfl
    cases e with
    | acquire id => exact .inl ⟨id, .inl rfl⟩
    | finish id => exact .inl ⟨id, .inr (.inl rfl)⟩
    | die id => exact .inl ⟨id, .inr (.inr rfl)⟩
    | config c' l o => exact .inr ⟨c', l, o, rfl⟩
    | configLock c' => simp [stepC, hps] at he
    | opn u v t => simp [stepC, hps] at he
    | chg u v t => simp [stepC, hps] at he
    | save u t => simp [stepC, hps] at he
    | close u => simp [stepC, hps] at he
    | tick => simp [stepC, hps] at he
    | request => simp [stepC, hps] at he

/-- **What the equals-fresh-analysis oracle checks, stated.**  If `analyze` re-initialises what it keeps
(`A.resets`), then under every history and schedule every completed analysis — hence everything
published, in launch order (`config_model_refines_protocol_model`) — is the analysis *by a new analyzer*
of that job's own text under the settings the job saw. -/
theorem published_is_function_of_settings_and_text (hreset : A.resets) {evs : List Event} {cs : CState σ}
    (hr : runC A (cinit A) evs = some cs) (hnd : ∀ e ∈ evs, notDie e) (hplain : ∀ e ∈ evs, plain e) :
    ∀ f ∈ cs.fin, f.res = A.alone f.cfg f.text := by
  intro f hf
  have hinv := CfgInv.run hnd hplain (CfgInv.init A) hr
  obtain ⟨a, ha⟩ := hinv.finRes f hf
  rw [ha]
  exact hreset _ _ _

/-- **C18 clause (ii) with settings**: "the last one published carries the last version sent and equals
what analysing that final text alone produces" — *under the settings the client sent last*.  For every
history of opens, changes, closes and configuration answers and every schedule — including a
configuration answer that arrives while a job holds the analyzer, jobs launched before the answer that
obtain the mutex after it, private re-analyses overtaking shared ones — if no thread dies, every job
finishes and the configuration handler is not in mid-flight, then after the queue has drained the last
publication for every open document `u` carries the version of the last text sent for `u` and equals the
analysis of that text alone by a new analyzer with the last settings. -/
theorem last_publication_uses_last_settings (hreset : A.resets) {evs : List Event} {cs : CState σ}
    (hr : runC A (cinit A) evs = some cs) (hnd : ∀ e ∈ evs, notDie e) (hplain : ∀ e ∈ evs, plain e)
    (hfair : ∀ id, id < cs.srv.nextId → Event.finish id ∈ evs) (hidle : cs.pending = none) :
    ∃ cs', runC A (cinit A) (evs ++ List.replicate cs.srv.queue.length .tick) = some cs' ∧ cs'.srv.queue = [] ∧
      ∀ u d, lookup cs.srv.docs u = some d → lastSent evs u = some d ∧
        ∀ r, A.alone (lastCfg evs) d.text = some r →
          ∃ id, lastPub cs'.srv.published u = some { id := id, uri := u, ver := d.ver, diags := r } := by
  have hrun := runC_is_run hr
  have hinv := CfgInv.run hnd hplain (CfgInv.init A) hr
  rw [← lastCfg_eq_foldl] at hinv
  obtain ⟨s', h1, h2, h3⟩ := last_publication_is_last_sent _ hrun hnd hplain hfair
  -- the ticks are enabled in the model with settings too and lead to the same server state
  have hticks : ∀ (n : Nat) (x : CState σ) (s2 : State), x.pending = none →
      run (fun i _ => resOf cs.fin i) x.srv (List.replicate n .tick) = some s2 →
      ∃ x', runC A x (List.replicate n .tick) = some x' ∧ x'.srv = s2 := by
    intro n
    induction n with
    | zero => intro x s2 _ h; simp only [List.replicate_zero, run, Option.some.injEq] at h; exact ⟨x, rfl, h⟩
    | succ n ih =>
      intro x s2 hx h
      simp only [List.replicate_succ, run] at h
      cases hs : step (fun i _ => resOf cs.fin i) x.srv .tick with
      | none => simp [hs] at h
      | some s1 =>
        simp only [hs] at h
        rw [step_other_congr _ noAn _ _ (by intro id; simp)] at hs
        have hS : stepC A x .tick = some { x with srv := s1 } := by
          simp only [stepC, hx, Option.isSome_none, Bool.false_eq_true, if_false, hs, Option.map_some]
        obtain ⟨x', hx1, hx2⟩ := ih { x with srv := s1 } s2 hx h
        exact ⟨x', by simp only [List.replicate_succ, runC, hS]; exact hx1, hx2⟩
  rw [run_append, hrun] at h1
  obtain ⟨x', hx1, hx2⟩ := hticks _ cs s' hidle h1
  refine ⟨x', by rw [runC_append, hr]; exact hx1, by rw [hx2]; exact h2, ?_⟩
  intro u d hd
  have hsent := SentInv.run _ hplain SentInv.init hrun
  have hls : lastSent evs u = some d := hsent.chk u d hd
  refine ⟨hls, ?_⟩
  intro r hrr
  obtain ⟨id, hj, hpub⟩ := h3 u d hls
  refine ⟨id, ?_⟩
  rw [hx2]
  apply hpub
  -- the job launched last for `u` finished, with the last settings, on the last text
  obtain ⟨id', hj', hmark⟩ := hinv.recent hidle u d hd
  rw [hj] at hj'
  cases hj'
  have hmem := lastLaunchedJ_mem hj
  have hlt : id < cs.srv.nextId := hinv.lo.bound _ hmem
  obtain ⟨f, hf, hfid⟩ := finish_recorded hr (hfair id hlt)
  have hres := resOf_agrees (FinOk.run (FinOk.init A) hr).nodup f hf
  rw [hfid] at hres
  rw [hres]
  have hcfg := hinv.fin f hf (by rw [hfid]; exact hmark)
  obtain ⟨d', hd', htext⟩ := hinv.finText f hf
  rw [hfid] at hd'
  have hdd : d' = d := launched_unique hinv.lo.sorted hd' hmem
  obtain ⟨a, ha⟩ := hinv.finRes f hf
  rw [ha, hreset, hcfg, htext, hdd]
  exact hrr

end config

/-- non-vacuity, and the schedules the generator forces on the real servers: the configuration answer `9`
arrives **while job 0 holds the analyzer** — the handler cannot run (`configLock` is not enabled), runs
after `finish 0`, then the document is changed; jobs 2 and 3 (private re-analyses) and job 4 (shared) see
settings `9`, and so does job 1, which was launched before the answer but obtained the mutex after it, and the last publication is the analysis of the last text under `9`. -/
example :
    let A : CAnalyzer Nat := { fresh := 0, setCfg := fun _ a => a, run := fun c _ t => (some (1000 * c + t), t) }
    A.resets ∧
    runC A (cinit A) [.opn 7 1 100, .acquire 0, .configLock 9] = none ∧
    (runC A (cinit A) [.opn 7 1 100, .opn 8 1 200, .acquire 0, .finish 0, .configLock 9, .acquire 1, .config 9 true [8, 7],
        .chg 7 2 101, .finish 1, .acquire 3, .finish 3, .acquire 2, .finish 2, .acquire 4, .finish 4,
        .tick, .tick, .tick, .tick, .tick]).map
      (fun cs => [cs.acfg, cs.shared, cs.srv.published.length] ++
                 ((lastPub cs.srv.published 7).map (fun p => [p.ver.getD 0, p.diags])).getD [] ++
                 ((lastPub cs.srv.published 8).map (fun p => [p.ver.getD 0, p.diags])).getD [])
      = some [9, 101, 5, 2, 9101, 1, 9200] := by
  refine ⟨fun _ _ _ => rfl, by decide, by decide⟩

/-! ## (vi) the analyzer object as a record of fields: when does `analyze` reset? -/

/-- If every field whose incoming value the passes can observe is in the reset set of `analyze`, the
result of `analyze` does not depend on the state the object is in: the hypothesis `resets` of (v). -/
theorem fieldAnalyzer_resets {F : Type} (A : FieldAnalyzer F) (h : ∀ f, A.reads f = true → A.reset f = true) :
    A.toC.resets := by
  intro c a t
  simp only [FieldAnalyzer.toC]
  apply A.respects
  intro f hf
  simp only [FieldAnalyzer.enter, h f hf, if_true]

open A2Verif.Gen.SrvState in
/-- **Tie of the reset hypothesis to the source** (decided on tables regenerated from the working tree at
every run): in each of the three analyzers every field that the passes read and write (`carried`: symbol
tables, collision maps, flow state, diagnostics, pass and position counters; Merlin: `XC` count /
processor selection, scope, include and fold stacks, assembler state) is assigned by `analyze` before it
looks at the text; no field classified as constant or as settings is written by analysis code; the
configuration handler of every server takes the shared analyzer with a blocking `lock()` and calls
`set_config` under that guard; the analysis threads take it with `lock()`.  Removing a reset (seeded
change C18-4: `self.ctx.reset_xc()` dropped from `analyze`) or replacing `lock()` by `try_lock()` in
`response.rs` (C18-3) makes this theorem false. -/
theorem analyze_is_function_of_text_current_tree :
    tablesOk AField.all AField.cls AField.reset AField.mutated = true ∧
    tablesOk IField.all IField.cls IField.reset IField.mutated = true ∧
    tablesOk MField.all MField.cls MField.reset MField.mutated = true ∧
    (∀ f : AField, f ∈ AField.all) ∧ (∀ f : IField, f ∈ IField.all) ∧ (∀ f : MField, f ∈ MField.all) ∧
    (∀ s : Server, s.configLockCall = .lock ∧ s.threadLockCall = .lock ∧ s.configSetsShared = true) := by
  refine ⟨by decide, by decide, by decide, ?_, ?_, ?_, ?_⟩
  · intro f; cases f <;> decide
  · intro f; cases f <;> decide
  · intro f; cases f <;> decide
  · intro s; cases s <;> decide

open A2Verif.Gen.SrvState in
/-- consequence for the three analyzers as they are in the working tree: any analyzer whose fields, reset
set are the generated ones and whose passes observe at entry only `carried` fields (the reading of the
classification in `Model/SrvFields.lean`; tested by the harness' history oracle, not proved) satisfies
`resets`, so (v) applies to it.  Stated for Merlin, the analyzer with the largest carried state. -/
theorem merlin_analyzer_resets (A : FieldAnalyzer MField) (hreset : A.reset = MField.reset)
    (hreads : ∀ f, A.reads f = true → MField.cls f = .carried) : A.toC.resets := by
  apply fieldAnalyzer_resets
  intro f hf
  have hc := hreads f hf
  rw [hreset]
  cases f <;> first | rfl | (simp [MField.cls] at hc)

/-- **The hypothesis is necessary** (the shape of seeded change C18-4): a two-field analyzer — field 0 the
`XC` count, which a text containing `XC` (text ≥ 100) raises and which decides how a later line is read;
field 1 the diagnostics.  With the count in the reset set the publication for the final text `6` is what a
new analyzer reports for `6`; with the count *not* reset (but set by `set_config`, as in the seeded
change) an earlier version containing `XC` changes the diagnostics of the final text, although the
published version is the right one. -/
example :
    let mk (resetXc : Bool) : FieldAnalyzer (Fin 2) :=
      { init := fun _ => 0, reset := fun f => f.val = 1 || resetXc, reads := fun f => f.val = 0,
        setCfg := fun _ s => fun f => if f.val = 0 then 0 else s f,
        body := fun _ s t => (some (t + 1000 * (if t ≥ 100 then 1 else s 0)), fun f => if f.val = 0 then (if t ≥ 100 then 1 else s 0) else t),
        respects := by
          intro _ s s' t h
          have : s 0 = s' 0 := h 0 (by decide)
          simp [this] }
    (mk true).toC.alone 0 6 = some 6 ∧
    (runC (mk true).toC (cinit (mk true).toC) [.opn 7 1 100, .chg 7 2 6, .acquire 0, .finish 0, .acquire 1, .finish 1, .tick, .tick]).map
      (fun cs => (lastPub cs.srv.published 7).map (fun p => (p.ver, p.diags))) = some (some (some 2, 6)) ∧
    (runC (mk false).toC (cinit (mk false).toC) [.opn 7 1 100, .chg 7 2 6, .acquire 0, .finish 0, .acquire 1, .finish 1, .tick, .tick]).map
      (fun cs => (lastPub cs.srv.published 7).map (fun p => (p.ver, p.diags))) = some (some (some 2, 1006)) := by
  refine ⟨by decide, by decide, by decide⟩

end A2Verif.C18
