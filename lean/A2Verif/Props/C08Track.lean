import A2Verif.Lemmas.TrackFormat
import A2Verif.Model.TrackImg
/-!
# C08, bit-level half: formatted tracks and whole NIB / WOZ images

"4-and-4, 5-and-3 and 6-and-2 nibble streams with checksums on circular tracks decode to the bytes that
were encoded for every possible sector content; data written is what is read back, no other address
changes, distinct addresses never alias" — for the tracks the formatter of `disk525.rs` produces (16
sectors 6&2 and 13 sectors 5&3; 8-bit sync of NIB, 9/10-bit sync of WOZ), under any order of reads and
writes with the carried-over head position.

`GFmt n f vol trk t cur others pre fpart q k` (`Lemmas/TrackGFmt.lean`) is the state of a track between
two operations: `n` bits; the head stands in the data area or gap of sector `cur`, `fpart`/`pre` are the
cells of it behind/ahead of the head, `others` the other sectors in track order; the head is `k` bits into
the leading zeros of the first cell ahead (`k > 0` only right after `format`), the cell boundary is at
absolute bit `q`.  A sector `GSec` has an id, a gap and `fld`: `some nibs` (data field) or `none` (never
written: the 13-sector formatter writes no data fields).
-/
namespace A2Verif.C08Track
open A2Verif.Model.Track A2Verif.Model.Nibble A2Verif.Model.TrackImg

/-! ## 1. the formatter establishes the invariant -/

/-- the track the formatter hands back: `bit_count` bits, every one written, pointer at 0 -/
theorem formatTrack_bits (f : Fmt) (hs : 8 ≤ f.syncBits) (vol trk : Nat) (ids : List Nat) (t0 : Trk)
    (h0 : t0.bits.length = f.bitCount ids.length) (hp0 : t0.pos = 0) :
    (formatTrack f vol trk ids t0).bits = trackW f vol trk ids ∧ (formatTrack f vol trk ids t0).pos = 0 := by
  have hl := trackW_length f hs vol trk ids
  have hn : 0 < f.bitCount ids.length := by unfold Fmt.bitCount; omega
  rw [formatTrack_eq]
  constructor
  · have := writeBits_bits (trackW f vol trk ids) t0 t0.bits [] (by simp) (by rw [h0, hl])
    simpa using this
  · have := writeBits_posAt (trackW f vol trk ids) t0 (f.bitCount ids.length) 0 ⟨h0, hn, by rw [hp0]; simp⟩
    rw [this.2.2, hl]; simp

/-- C08/track, gap (a) of the design: **`Formatted` is established by the formatter.**  For every volume
and track number, every list of pairwise different sector addresses (at most 32), 6&2 or 5&3, sync bytes of
8, 9 or 10 (any ≥ 8) bits: the track `format` produces — started from ANY buffer content — is in state
`GFmt`, head in the gap of the last sector, inside the zero bits that close the track's last sync byte.
Hence all theorems below apply to every freshly formatted track. -/
theorem format_track_formatted (f : Fmt) (hs : 8 ≤ f.syncBits) (vol trk : Nat) (ids0 : List Nat) (last : Nat)
    (hm : 16 + f.dataNibs + 60 + 3 ≤ f.maxTries) (hid : ∀ i ∈ ids0 ++ [last], i < 256)
    (hnd : (ids0 ++ [last]).Nodup) (hlen : ids0.length < 32) (t0 : Trk)
    (h0 : t0.bits.length = f.bitCount (ids0.length + 1)) (hp0 : t0.pos = 0) :
    GFmt (f.bitCount (ids0.length + 1)) f vol trk (formatTrack f vol trk (ids0 ++ [last]) t0)
      (fmtSec f 60 last) (ids0.map (fmtSec f 20)) (List.replicate 40 (f.z, 0xff))
      (gfield f (fld0 f) ++ syncCells f 20) (f.bitCount (ids0.length + 1) - f.z) f.z := by
  obtain ⟨hb, hp⟩ := formatTrack_bits f hs vol trk (ids0 ++ [last]) t0 (by simpa using h0) hp0
  have := format_gfmt f hs vol trk ids0 last 0 (by simpa using hm) hid hnd hlen (Or.inl rfl)
    (formatTrack f vol trk (ids0 ++ [last]) t0) (by simpa using hb) hp
  simpa using this

/-- the sector addresses of the two standard formats, last one apart -/
theorem secIds_split (six : Bool) :
    secIds six = (secIds six).take ((secIds six).length - 1) ++ [if six then 15 else 3] ∧
    (∀ i ∈ secIds six, i < 256) ∧ (secIds six).Nodup ∧ (secIds six).length = (if six then 16 else 13) := by
  cases six <;> decide

/-- C08/track: `format_std16_track` (6&2, ids `0..15`) and `format_std13_track` (5&3, ids in
`DOS32_PHYSICAL` order, no data fields) establish `GFmt`, for NIB (`sync = 8`) and WOZ (`sync = 10 / 9`)
buffers of at least 500 bytes, every volume and track. -/
theorem format_std_track_formatted (six : Bool) (sync m vol trk : Nat) (hs : 8 ≤ sync) (hm : 500 ≤ m) (t0 : Trk)
    (h0 : t0.bits.length = (⟨six, sync, m⟩ : Fmt).bitCount (secIds six).length) (hp0 : t0.pos = 0) :
    ∃ cur others pre fpart q k,
      GFmt ((⟨six, sync, m⟩ : Fmt).bitCount (secIds six).length) ⟨six, sync, m⟩ vol trk
        (formatTrack ⟨six, sync, m⟩ vol trk (secIds six) t0) cur others pre fpart q k ∧
      (cur :: others).map (·.id) = (if six then 15 else 3) :: (secIds six).take ((secIds six).length - 1) ∧
      (∀ s ∈ cur :: others, s.fld = fld0 ⟨six, sync, m⟩) := by
  obtain ⟨e, hid, hnd, hl⟩ := secIds_split six
  have hlen1 : ((secIds six).take ((secIds six).length - 1)).length + 1 = (secIds six).length := by
    rw [List.length_take, hl]; cases six <;> simp
  have hF := format_track_formatted ⟨six, sync, m⟩ hs vol trk ((secIds six).take ((secIds six).length - 1))
    (if six then 15 else 3) (by simp only [Fmt.dataNibs]; cases six <;> simp <;> omega)
    (by rw [← e]; exact hid) (by rw [← e]; exact hnd) (by rw [List.length_take, hl]; cases six <;> simp) t0
    (by rw [hlen1]; exact h0) hp0
  rw [← e, hlen1] at hF
  refine ⟨_, _, _, _, _, _, hF, ?_, ?_⟩
  · simp [fmtSec, Function.comp_def]
  · intro s hs'
    simp only [List.mem_cons, List.mem_map] at hs'
    rcases hs' with h | ⟨i, _, h⟩ <;> subst h <;> rfl

/-- non-vacuity: the hypotheses of `format_std_track_formatted` are met by the all-zero WOZ buffer of a
16-sector track and the all-ones NIB buffer of a 13-sector track -/
example : ∃ t0 : Trk, t0.bits.length = (⟨true, 10, 6646⟩ : Fmt).bitCount (secIds true).length ∧ t0.pos = 0 :=
  ⟨⟨List.replicate 51664 false, 0⟩, by
    show (List.replicate 51664 false).length = _
    rw [List.length_replicate]; decide, rfl⟩
example : ∃ t0 : Trk, t0.bits.length = (⟨false, 8, 6656⟩ : Fmt).bitCount (secIds false).length ∧ t0.pos = 0 :=
  ⟨⟨List.replicate 48264 true, 0⟩, by
    show (List.replicate 48264 true).length = _
    rw [List.length_replicate]; decide, rfl⟩

/-! ## 2. read and write on a formatted track, 6&2 and 5&3 -/

/-- every sector of the track can be the target of a search -/
theorem seek_exists (cur tgt : GSec) (others : List GSec) (h : tgt ∈ cur :: others) :
    ∃ rest l1, Seek cur tgt others rest l1 := by
  by_cases hc : tgt = cur
  · exact ⟨others, others, Or.inr ⟨hc, rfl, rfl⟩⟩
  · have : tgt ∈ others := by simpa [hc] using h
    obtain ⟨l1, l2, rfl⟩ := List.append_of_mem this
    exact ⟨l2 ++ cur :: l1, l1, Or.inl ⟨l2, rfl, rfl⟩⟩

/-- C08/track, "read = decoding of the nibbles held, nothing changes": `read_sector` of any sector of a
`GFmt` track (either codec; also right after `format`, from inside the closing zero bits) returns the
decoding of the sector's data field — 256 zeros for a never written 13-sector data area — and leaves a
`GFmt` track with the same sectors. -/
theorem track_read_sector_g {n : Nat} {f : Fmt} {vol trk : Nat} {t : Trk} {cur : GSec} {others : List GSec}
    {pre fpart : List Cell} {q k : Nat} (hv : vol < 256) (ht : trk < 256)
    (hF : GFmt n f vol trk t cur others pre fpart q k) (tgt : GSec) (rest l1 : List GSec)
    (hs : Seek cur tgt others rest l1) :
    ∃ (t' : Trk) (pre' fpart' : List Cell) (q' : Nat), readSector f trk tgt.id t = (gdecRes f tgt.fld, t') ∧
      GFmt n f vol trk t' tgt rest pre' fpart' q' 0 :=
  let ⟨t', h1, h2⟩ := readSector_gfmt hv ht hF tgt rest l1 hs
  ⟨t', _, _, _, h1, h2⟩

/-- C08/track, gap (c) of the design: **the 5&3 (and 6&2) write path.**  `write_sector` on a `GFmt` track
succeeds and replaces exactly the cells of the target's data area — a data field or the never written area
of a 13-sector track, which has the same bit length — by the data field of the encoding (`enc53` for 5&3,
`enc62` for 6&2); all other sectors, all address fields and all gaps are the same cells as before. -/
theorem track_write_sector_g {n : Nat} {f : Fmt} {vol trk : Nat} {t : Trk} {cur : GSec} {others : List GSec}
    {pre fpart : List Cell} {q k : Nat} (hsb : 8 ≤ f.syncBits) (hv : vol < 256) (ht : trk < 256)
    (hF : GFmt n f vol trk t cur others pre fpart q k) (tgt : GSec) (rest l1 : List GSec)
    (hs : Seek cur tgt others rest l1) (dat : List Nat) :
    ∃ (t' : Trk) (q' : Nat), writeSector f dat trk tgt.id t = (.ok (), t') ∧
      GFmt n f vol trk t' { tgt with fld := some (encNibs f dat) } rest
        (syncCells f tgt.gap) (fieldCells f (encNibs f dat)) q' 0 :=
  let ⟨t', h1, h2⟩ := writeSector_gfmt hsb hv ht hF tgt rest l1 hs dat
  ⟨t', _, h1, h2⟩

theorem gdecRes_enc (f : Fmt) (dat : List Nat) (hd : dat.length = 256) (hb : ∀ x ∈ dat, x < 256) :
    gdecRes f (some (encNibs f dat)) = .ok dat := by
  simp only [gdecRes, decRes', encNibs]
  cases f.six
  · simp only [Bool.false_eq_true, if_false, dec53_enc53 dat hd hb]
  · simp only [if_true, dec62_enc62 dat hd hb]

/-- C08/track, "data written is what is read back, no other address changes" on one track, both codecs:
after `write_sector(dat)` of a sector of a `GFmt` track, (1) reading it returns exactly `dat` (by
`codec62_roundtrip` / `codec53_roundtrip`, for every sector content), (2) reading any other sector returns
what it held before (zeros if never written); the track is `GFmt` after either, so this holds along any
sequence of reads and writes. -/
theorem track_read_after_write_and_frame_g {n : Nat} {f : Fmt} {vol trk : Nat} {t : Trk} {cur : GSec}
    {others : List GSec} {pre fpart : List Cell} {q k : Nat} (hsb : 8 ≤ f.syncBits) (hv : vol < 256) (ht : trk < 256)
    (hF : GFmt n f vol trk t cur others pre fpart q k) (tgt : GSec) (rest l1 : List GSec)
    (hs : Seek cur tgt others rest l1) (dat : List Nat) (hd : dat.length = 256) (hb : ∀ x ∈ dat, x < 256) :
    ∃ t' : Trk, writeSector f dat trk tgt.id t = (.ok (), t') ∧
      (∃ t'' pre' fpart' q', readSector f trk tgt.id t' = (.ok dat, t'') ∧
        GFmt n f vol trk t'' { tgt with fld := some (encNibs f dat) } rest pre' fpart' q' 0) ∧
      (∀ s ∈ rest, ∃ t'' rest' pre' fpart' q', readSector f trk s.id t' = (gdecRes f s.fld, t'') ∧
        GFmt n f vol trk t'' s rest' pre' fpart' q' 0) := by
  obtain ⟨t', w1, w2⟩ := writeSector_gfmt hsb hv ht hF tgt rest l1 hs dat
  refine ⟨t', w1, ?_, ?_⟩
  · obtain ⟨t'', r1, r2⟩ := readSector_gfmt hv ht w2 { tgt with fld := some (encNibs f dat) } rest rest
      (Or.inr ⟨rfl, rfl, rfl⟩)
    refine ⟨t'', _, _, _, ?_, r2⟩
    rw [r1]
    exact Prod.ext (gdecRes_enc f dat hd hb) rfl
  · intro s hsr
    obtain ⟨rest', l1', hk⟩ := seek_exists { tgt with fld := some (encNibs f dat) } s rest (by simp [hsr])
    obtain ⟨t'', r1, r2⟩ := readSector_gfmt hv ht w2 s rest' l1' hk
    exact ⟨t'', rest', _, _, _, r1, r2⟩

/-- C08/track, "invalid addresses are refused": a sector id that is on no address field of the track
(16..255 on a 16-sector track, 13..255 on a 13-sector one) is refused with `SectorNotFound` by read and
write — after 32 tries around the track — and the write does not reach `encode_sector`. -/
theorem track_missing_sector_refused {n : Nat} {f : Fmt} {vol trk : Nat} {t : Trk} {cur : GSec} {others : List GSec}
    {pre fpart : List Cell} {q k : Nat} (hv : vol < 256) (ht : trk < 256)
    (hF : GFmt n f vol trk t cur others pre fpart q k) (sec : Nat) (hne : ∀ s ∈ cur :: others, s.id ≠ sec) :
    (∃ t', readSector f trk sec t = (.error .sectorNotFound, t')) ∧
    (∀ dat, ∃ t', writeSector f dat trk sec t = (.error .sectorNotFound, t')) :=
  sector_missing_gfmt hv ht hF sec hne

/-- C08/track, the two gaps closed together: on a FRESHLY FORMATTED standard track (16 sectors 6&2 or 13
sectors 5&3; any volume, track, sync width ≥ 8), for every sector address `a` of the format and every 256
bytes: `write_sector(a)` succeeds, `read_sector(a)` then returns exactly those bytes, and every other sector
address `b` of the format still reads as 256 zeros. -/
theorem fresh_track_read_after_write (six : Bool) (sync m vol trk : Nat) (hs : 8 ≤ sync) (hm : 500 ≤ m)
    (hv : vol < 256) (ht : trk < 256) (t0 : Trk)
    (h0 : t0.bits.length = (⟨six, sync, m⟩ : Fmt).bitCount (secIds six).length) (hp0 : t0.pos = 0)
    (a : Nat) (ha : a ∈ secIds six) (dat : List Nat) (hd : dat.length = 256) (hb : ∀ x ∈ dat, x < 256) :
    ∃ t' : Trk, writeSector ⟨six, sync, m⟩ dat trk a (formatTrack ⟨six, sync, m⟩ vol trk (secIds six) t0) = (.ok (), t') ∧
      (∃ t'', readSector ⟨six, sync, m⟩ trk a t' = (.ok dat, t'')) ∧
      (∀ b ∈ secIds six, b ≠ a → ∃ t'', readSector ⟨six, sync, m⟩ trk b t' = (.ok (List.replicate 256 0), t'')) := by
  obtain ⟨cur, others, pre, fpart, q, k, hF, hids, hfl⟩ := format_std_track_formatted six sync m vol trk hs hm t0 h0 hp0
  obtain ⟨e, _, _, _⟩ := secIds_split six
  have hmem : ∀ x, x ∈ secIds six ↔ x ∈ (cur :: others).map (·.id) := by
    intro x; rw [hids]; conv => lhs; rw [e]
    simp only [List.mem_append, List.mem_cons, List.not_mem_nil, or_false]; exact Or.comm
  obtain ⟨tgt, htm, hta⟩ := List.mem_map.1 ((hmem a).1 ha)
  obtain ⟨rest, l1, hk⟩ := seek_exists cur tgt others htm
  obtain ⟨t', w1, ⟨t'', _, _, _, r1, _⟩, hfr⟩ := track_read_after_write_and_frame_g (f := ⟨six, sync, m⟩) hs hv ht hF tgt rest l1 hk dat hd hb
  rw [hta] at w1 r1
  refine ⟨t', w1, ⟨t'', r1⟩, ?_⟩
  intro b hbm hne
  obtain ⟨s, hsm, hsb⟩ := List.mem_map.1 ((hmem b).1 hbm)
  have hperm := seek_perm hk
  have hs_rest : s ∈ rest := by
    have : s ∈ tgt :: rest := (hperm.mem_iff).1 hsm
    simp only [List.mem_cons] at this
    rcases this with h | h
    · subst h; exact absurd (hsb.symm.trans hta) hne
    · exact h
  obtain ⟨t3, _, _, _, _, r3, _⟩ := hfr s hs_rest
  rw [hsb, hfl s hsm] at r3
  refine ⟨t3, ?_⟩
  rw [r3]
  have : gdecRes ⟨six, sync, m⟩ (fld0 ⟨six, sync, m⟩) = .ok (List.replicate 256 0) := by
    unfold fld0
    cases six
    · rfl
    · exact gdecRes_enc ⟨true, sync, m⟩ (List.replicate 256 0) (List.length_replicate ..)
        (by intro x hx; rw [List.eq_of_mem_replicate hx]; decide)
  rw [this]

end A2Verif.C08Track
