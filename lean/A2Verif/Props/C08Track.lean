import A2Verif.Lemmas.TrackImgCreate2
import A2Verif.Lemmas.TrackArrImg
/-!
# C08, bit-level half: formatted tracks and whole NIB / WOZ images

"4-and-4, 5-and-3 and 6-and-2 nibble streams with checksums on circular tracks decode to the bytes that
were encoded for every possible sector content; data written is what is read back, no other address
changes, distinct addresses never alias" — for the tracks the formatter of `disk525.rs` produces (16
sectors 6&2 and 13 sectors 5&3; 8-bit sync of NIB, 9/10-bit sync of WOZ), under any order of reads and
writes with the carried-over head position.

`GFmt n f vol trk t cur others pre fpart q k` (`Lemmas/TrackGFmt.lean`) is the state of a track between
two operations: `n` bits; the head stands in the data area or gap of sector `cur`, `fpart`/`pre` are the
cells of it behind/ahead of the head, `others` the other sectors in track order; the head is `k` bits into
the leading zeros of the first cell ahead (`k > 0` only right after `format`), the cell boundary is at
absolute bit `q`.  A sector `GSec` has an id, a gap and `fld`: `some nibs` (data field) or `none` (never
written: the 13-sector formatter writes no data fields).
-/
namespace A2Verif.C08Track
open A2Verif.Model.Track A2Verif.Model.Nibble A2Verif.Model.TrackImg

/-! ## 1. the formatter establishes the invariant -/

/-- C08/track, gap (a) of the design: **`Formatted` is established by the formatter.**  For every volume
and track number, every list of pairwise different sector addresses (at most 32), 6&2 or 5&3, sync bytes of
8, 9 or 10 (any ≥ 8) bits: the track `format` produces — started from ANY buffer content — is in state
`GFmt`, head in the gap of the last sector, inside the zero bits that close the track's last sync byte.
Hence all theorems below apply to every freshly formatted track. -/
theorem format_track_formatted (f : Fmt) (hs : 8 ≤ f.syncBits) (vol trk : Nat) (ids0 : List Nat) (last : Nat)
    (hm : 16 + f.dataNibs + 60 + 3 ≤ f.maxTries) (hid : ∀ i ∈ ids0 ++ [last], i < 256)
    (hnd : (ids0 ++ [last]).Nodup) (hlen : ids0.length < 32) (t0 : Trk)
    (h0 : t0.bits.length = f.bitCount (ids0.length + 1)) (hp0 : t0.pos = 0) :
    GFmt (f.bitCount (ids0.length + 1)) f vol trk (formatTrack f vol trk (ids0 ++ [last]) t0)
      (fmtSec f 60 last) (ids0.map (fmtSec f 20)) (List.replicate 40 (f.z, 0xff))
      (gfield f (fld0 f) ++ syncCells f 20) (f.bitCount (ids0.length + 1) - f.z) f.z := by
  obtain ⟨hb, hp⟩ := formatTrack_bits f hs vol trk (ids0 ++ [last]) t0 (by simpa using h0) hp0
  have := format_gfmt f hs vol trk ids0 last 0 (by simpa using hm) hid hnd hlen (Or.inl rfl)
    (formatTrack f vol trk (ids0 ++ [last]) t0) (by simpa using hb) hp
  simpa using this

/-- the sector addresses of the two standard formats, last one apart -/
theorem secIds_split (six : Bool) :
    secIds six = (secIds six).take ((secIds six).length - 1) ++ [if six then 15 else 3] ∧
    (∀ i ∈ secIds six, i < 256) ∧ (secIds six).Nodup ∧ (secIds six).length = (if six then 16 else 13) :=
  secIds_parts six

/-- C08/track: `format_std16_track` (6&2, ids `0..15`) and `format_std13_track` (5&3, ids in
`DOS32_PHYSICAL` order, no data fields) establish `GFmt`, for NIB (`sync = 8`) and WOZ (`sync = 10 / 9`)
buffers of at least 500 bytes, every volume and track. -/
theorem format_std_track_formatted (six : Bool) (sync m vol trk : Nat) (hs : 8 ≤ sync) (hm : 500 ≤ m) (t0 : Trk)
    (h0 : t0.bits.length = (⟨six, sync, m⟩ : Fmt).bitCount (secIds six).length) (hp0 : t0.pos = 0) :
    ∃ cur others pre fpart q k,
      GFmt ((⟨six, sync, m⟩ : Fmt).bitCount (secIds six).length) ⟨six, sync, m⟩ vol trk
        (formatTrack ⟨six, sync, m⟩ vol trk (secIds six) t0) cur others pre fpart q k ∧
      (cur :: others).map (·.id) = (if six then 15 else 3) :: (secIds six).take ((secIds six).length - 1) ∧
      (∀ s ∈ cur :: others, s.fld = fld0 ⟨six, sync, m⟩) := by
  obtain ⟨e, hid, hnd, hl⟩ := secIds_split six
  have hlen1 : ((secIds six).take ((secIds six).length - 1)).length + 1 = (secIds six).length := by
    rw [List.length_take, hl]; cases six <;> simp
  have hF := format_track_formatted ⟨six, sync, m⟩ hs vol trk ((secIds six).take ((secIds six).length - 1))
    (if six then 15 else 3) (by simp only [Fmt.dataNibs]; cases six <;> simp <;> omega)
    (by rw [← e]; exact hid) (by rw [← e]; exact hnd) (by rw [List.length_take, hl]; cases six <;> simp) t0
    (by rw [hlen1]; exact h0) hp0
  rw [← e, hlen1] at hF
  refine ⟨_, _, _, _, _, _, hF, ?_, ?_⟩
  · simp [fmtSec, Function.comp_def]
  · intro s hs'
    simp only [List.mem_cons, List.mem_map] at hs'
    rcases hs' with h | ⟨i, _, h⟩ <;> subst h <;> rfl

/-- non-vacuity: the hypotheses of `format_std_track_formatted` are met by the all-zero WOZ buffer of a
16-sector track and the all-ones NIB buffer of a 13-sector track -/
example : ∃ t0 : Trk, t0.bits.length = (⟨true, 10, 6646⟩ : Fmt).bitCount (secIds true).length ∧ t0.pos = 0 :=
  ⟨⟨List.replicate 51664 false, 0⟩, by
    show (List.replicate 51664 false).length = _
    rw [List.length_replicate]; decide, rfl⟩
example : ∃ t0 : Trk, t0.bits.length = (⟨false, 8, 6656⟩ : Fmt).bitCount (secIds false).length ∧ t0.pos = 0 :=
  ⟨⟨List.replicate 48264 true, 0⟩, by
    show (List.replicate 48264 true).length = _
    rw [List.length_replicate]; decide, rfl⟩

/-! ## 2. read and write on a formatted track, 6&2 and 5&3 -/

/-- every sector of the track can be the target of a search -/
theorem seek_exists (cur tgt : GSec) (others : List GSec) (h : tgt ∈ cur :: others) :
    ∃ rest l1, Seek cur tgt others rest l1 := by
  by_cases hc : tgt = cur
  · exact ⟨others, others, Or.inr ⟨hc, rfl, rfl⟩⟩
  · have : tgt ∈ others := by simpa [hc] using h
    obtain ⟨l1, l2, rfl⟩ := List.append_of_mem this
    exact ⟨l2 ++ cur :: l1, l1, Or.inl ⟨l2, rfl, rfl⟩⟩

/-- C08/track, "read = decoding of the nibbles held, nothing changes": `read_sector` of any sector of a
`GFmt` track (either codec; also right after `format`, from inside the closing zero bits) returns the
decoding of the sector's data field — 256 zeros for a never written 13-sector data area — and leaves a
`GFmt` track with the same sectors. -/
theorem track_read_sector_g {n : Nat} {f : Fmt} {vol trk : Nat} {t : Trk} {cur : GSec} {others : List GSec}
    {pre fpart : List Cell} {q k : Nat} (hv : vol < 256) (ht : trk < 256)
    (hF : GFmt n f vol trk t cur others pre fpart q k) (tgt : GSec) (rest l1 : List GSec)
    (hs : Seek cur tgt others rest l1) :
    ∃ (t' : Trk) (pre' fpart' : List Cell) (q' : Nat), readSector f trk tgt.id t = (gdecRes f tgt.fld, t') ∧
      GFmt n f vol trk t' tgt rest pre' fpart' q' 0 :=
  let ⟨t', h1, h2⟩ := readSector_gfmt hv ht hF tgt rest l1 hs
  ⟨t', _, _, _, h1, h2⟩

/-- C08/track, gap (c) of the design: **the 5&3 (and 6&2) write path.**  `write_sector` on a `GFmt` track
succeeds and replaces exactly the cells of the target's data area — a data field or the never written area
of a 13-sector track, which has the same bit length — by the data field of the encoding (`enc53` for 5&3,
`enc62` for 6&2); all other sectors, all address fields and all gaps are the same cells as before. -/
theorem track_write_sector_g {n : Nat} {f : Fmt} {vol trk : Nat} {t : Trk} {cur : GSec} {others : List GSec}
    {pre fpart : List Cell} {q k : Nat} (hsb : 8 ≤ f.syncBits) (hv : vol < 256) (ht : trk < 256)
    (hF : GFmt n f vol trk t cur others pre fpart q k) (tgt : GSec) (rest l1 : List GSec)
    (hs : Seek cur tgt others rest l1) (dat : List Nat) :
    ∃ (t' : Trk) (q' : Nat), writeSector f dat trk tgt.id t = (.ok (), t') ∧
      GFmt n f vol trk t' { tgt with fld := some (encNibs f dat) } rest
        (syncCells f tgt.gap) (fieldCells f (encNibs f dat)) q' 0 :=
  let ⟨t', h1, h2⟩ := writeSector_gfmt hsb hv ht hF tgt rest l1 hs dat
  ⟨t', _, h1, h2⟩

theorem gdecRes_enc (f : Fmt) (dat : List Nat) (hd : dat.length = 256) (hb : ∀ x ∈ dat, x < 256) :
    gdecRes f (some (encNibs f dat)) = .ok dat := by
  simp only [gdecRes, decRes', encNibs]
  cases f.six
  · simp only [Bool.false_eq_true, if_false, dec53_enc53 dat hd hb]
  · simp only [if_true, dec62_enc62 dat hd hb]

/-- C08/track, "data written is what is read back, no other address changes" on one track, both codecs:
after `write_sector(dat)` of a sector of a `GFmt` track, (1) reading it returns exactly `dat` (by
`codec62_roundtrip` / `codec53_roundtrip`, for every sector content), (2) reading any other sector returns
what it held before (zeros if never written); the track is `GFmt` after either, so this holds along any
sequence of reads and writes. -/
theorem track_read_after_write_and_frame_g {n : Nat} {f : Fmt} {vol trk : Nat} {t : Trk} {cur : GSec}
    {others : List GSec} {pre fpart : List Cell} {q k : Nat} (hsb : 8 ≤ f.syncBits) (hv : vol < 256) (ht : trk < 256)
    (hF : GFmt n f vol trk t cur others pre fpart q k) (tgt : GSec) (rest l1 : List GSec)
    (hs : Seek cur tgt others rest l1) (dat : List Nat) (hd : dat.length = 256) (hb : ∀ x ∈ dat, x < 256) :
    ∃ t' : Trk, writeSector f dat trk tgt.id t = (.ok (), t') ∧
      (∃ t'' pre' fpart' q', readSector f trk tgt.id t' = (.ok dat, t'') ∧
        GFmt n f vol trk t'' { tgt with fld := some (encNibs f dat) } rest pre' fpart' q' 0) ∧
      (∀ s ∈ rest, ∃ t'' rest' pre' fpart' q', readSector f trk s.id t' = (gdecRes f s.fld, t'') ∧
        GFmt n f vol trk t'' s rest' pre' fpart' q' 0) := by
  obtain ⟨t', w1, w2⟩ := writeSector_gfmt hsb hv ht hF tgt rest l1 hs dat
  refine ⟨t', w1, ?_, ?_⟩
  · obtain ⟨t'', r1, r2⟩ := readSector_gfmt hv ht w2 { tgt with fld := some (encNibs f dat) } rest rest
      (Or.inr ⟨rfl, rfl, rfl⟩)
    refine ⟨t'', _, _, _, ?_, r2⟩
    rw [r1]
    exact Prod.ext (gdecRes_enc f dat hd hb) rfl
  · intro s hsr
    obtain ⟨rest', l1', hk⟩ := seek_exists { tgt with fld := some (encNibs f dat) } s rest (by simp [hsr])
    obtain ⟨t'', r1, r2⟩ := readSector_gfmt hv ht w2 s rest' l1' hk
    exact ⟨t'', rest', _, _, _, r1, r2⟩

/-- C08/track, "invalid addresses are refused": a sector id that is on no address field of the track
(16..255 on a 16-sector track, 13..255 on a 13-sector one) is refused with `SectorNotFound` by read and
write — after 32 tries around the track — and the write does not reach `encode_sector`. -/
theorem track_missing_sector_refused {n : Nat} {f : Fmt} {vol trk : Nat} {t : Trk} {cur : GSec} {others : List GSec}
    {pre fpart : List Cell} {q k : Nat} (hv : vol < 256) (ht : trk < 256)
    (hF : GFmt n f vol trk t cur others pre fpart q k) (sec : Nat) (hne : ∀ s ∈ cur :: others, s.id ≠ sec) :
    (∃ t', readSector f trk sec t = (.error .sectorNotFound, t')) ∧
    (∀ dat, ∃ t', writeSector f dat trk sec t = (.error .sectorNotFound, t')) :=
  sector_missing_gfmt hv ht hF sec hne

/-- C08/track, the two gaps closed together: on a FRESHLY FORMATTED standard track (16 sectors 6&2 or 13
sectors 5&3; any volume, track, sync width ≥ 8), for every sector address `a` of the format and every 256
bytes: `write_sector(a)` succeeds, `read_sector(a)` then returns exactly those bytes, and every other sector
address `b` of the format still reads as 256 zeros. -/
theorem fresh_track_read_after_write (six : Bool) (sync m vol trk : Nat) (hs : 8 ≤ sync) (hm : 500 ≤ m)
    (hv : vol < 256) (ht : trk < 256) (t0 : Trk)
    (h0 : t0.bits.length = (⟨six, sync, m⟩ : Fmt).bitCount (secIds six).length) (hp0 : t0.pos = 0)
    (a : Nat) (ha : a ∈ secIds six) (dat : List Nat) (hd : dat.length = 256) (hb : ∀ x ∈ dat, x < 256) :
    ∃ t' : Trk, writeSector ⟨six, sync, m⟩ dat trk a (formatTrack ⟨six, sync, m⟩ vol trk (secIds six) t0) = (.ok (), t') ∧
      (∃ t'', readSector ⟨six, sync, m⟩ trk a t' = (.ok dat, t'')) ∧
      (∀ b ∈ secIds six, b ≠ a → ∃ t'', readSector ⟨six, sync, m⟩ trk b t' = (.ok (List.replicate 256 0), t'')) := by
  obtain ⟨cur, others, pre, fpart, q, k, hF, hids, hfl⟩ := format_std_track_formatted six sync m vol trk hs hm t0 h0 hp0
  obtain ⟨e, _, _, _⟩ := secIds_split six
  have hmem : ∀ x, x ∈ secIds six ↔ x ∈ (cur :: others).map (·.id) := by
    intro x; rw [hids]; conv => lhs; rw [e]
    simp only [List.mem_append, List.mem_cons, List.not_mem_nil, or_false]; exact Or.comm
  obtain ⟨tgt, htm, hta⟩ := List.mem_map.1 ((hmem a).1 ha)
  obtain ⟨rest, l1, hk⟩ := seek_exists cur tgt others htm
  obtain ⟨t', w1, ⟨t'', _, _, _, r1, _⟩, hfr⟩ := track_read_after_write_and_frame_g (f := ⟨six, sync, m⟩) hs hv ht hF tgt rest l1 hk dat hd hb
  rw [hta] at w1 r1
  refine ⟨t', w1, ⟨t'', r1⟩, ?_⟩
  intro b hbm hne
  obtain ⟨s, hsm, hsb⟩ := List.mem_map.1 ((hmem b).1 hbm)
  have hperm := seek_perm hk
  have hs_rest : s ∈ rest := by
    have : s ∈ tgt :: rest := (hperm.mem_iff).1 hsm
    simp only [List.mem_cons] at this
    rcases this with h | h
    · subst h; exact absurd (hsb.symm.trans hta) hne
    · exact h
  obtain ⟨t3, _, _, _, _, r3, _⟩ := hfr s hs_rest
  rw [hsb, hfl s hsm] at r3
  refine ⟨t3, ?_⟩
  rw [r3]
  have : gdecRes ⟨six, sync, m⟩ (fld0 ⟨six, sync, m⟩) = .ok (List.replicate 256 0) := by
    unfold fld0
    cases six
    · rfl
    · exact gdecRes_enc ⟨true, sync, m⟩ (List.replicate 256 0) (List.length_replicate ..)
        (by intro x hx; rw [List.eq_of_mem_replicate hx]; decide)
  rw [this]

/-! ## 3. whole images: NIB, NB2, WOZ1, WOZ2

`TrackImg` (`Model/TrackImg.lean`) is the image as the Rust holds it: one byte buffer with all track
buffers, TMAP, TRKS entries (WOZ1: bit count; WOZ2: starting block, block count, bit count), the carried
`head_coords.bit_ptr`.  `readSector`/`writeSector` choose the track buffer through `locate` (TMAP quarter
track lookup, TRKS entry checks, block arithmetic) exactly as `get_trk_idx`/`get_trk_ref`/`get_trk_bits_rng`.

`HoldsV img v six vol m`: the image satisfies the invariant `ImgInv` (every track buffer is canonically a
formatted track, all tracks have the same shape, the carried head position is a cell boundary common to all
tracks) and sector `s` of track `t` decodes to `m t s`. -/

def HoldsV (img : TrackImg) (v : Variant) (six : Bool) (vol : Nat) (m : Nat → Nat → List Nat) : Prop :=
  ∃ o gaps secs a c0 k,
    ImgInv img (offsOf v) (capOf v) (nOf v six) vol o gaps (secIds six) secs a c0 k ∧
    fmtOf img (capOf v) = fOf v six ∧
    ∀ t, t < 35 → ∀ s ∈ secs t, gdecRes (fOf v six) s.fld = .ok (m t s.id)

/-- C08/image, the TMAP condition: `TMap::create` sends every whole track to its own TRKS entry (the lookup
of `get_trk_idx` succeeds at the whole-track slot itself), hence the lookup is injective on whole tracks. -/
theorem tmap_injective_on_whole_tracks :
    (∀ t : Fin 35, getTrkIdx tmapCreate t.val = .ok t.val) ∧
    (∀ t u i, t < 35 → u < 35 → getTrkIdx tmapCreate t = .ok i → getTrkIdx tmapCreate u = .ok i → t = u) :=
  ⟨tmapCreate_lookup, fun t u i ht hu => tmapCreate_injective t u i ht hu⟩

/-- C08/image, "distinct tracks never share cells": in a created image every whole track `t < 35` is
located (through TMAP and TRKS for WOZ) at its own buffer of `capOf v` bytes; the 35 buffers lie inside
the image bytes and are pairwise disjoint. -/
theorem create_layout (v : Variant) (six : Bool) (vol : Nat) :
    Layout (createV v six vol) (offsOf v) (capOf v) (nOf v six) :=
  layout_create v six vol

/-- C08/image, gap (d) of the design, part 1: **`create` establishes the image invariant** for NIB, WOZ1 and
WOZ2, 16 sectors 6&2 and 13 sectors 5&3, every volume number; every sector of every track reads as 256
zeros.  `Variant.nb2` is the NB2 file (35 × 6384 bytes, `Nib::from_bytes`) obtained by cutting the tracks of a
created NIB: `createV_nb2_fromBytes`. -/
theorem create_holds_v (v : Variant) (six : Bool) (vol : Nat) (hv : vol < 256) :
    HoldsV (createV v six vol) v six vol (fun _ _ => List.replicate 256 0) := by
  obtain ⟨o, gaps, secs0, a, c0, k, inv, _, hfl⟩ := create_inv v six vol hv
  refine ⟨o, gaps, _, a, c0, k, inv, fmtOf_create v six vol, ?_⟩
  intro t _ s hs
  rw [hfl s hs]
  unfold fld0
  cases h6 : (fOf v six).six
  · rfl
  · have := gdecRes_enc (fOf v six) (List.replicate 256 0) (List.length_replicate ..)
      (by intro x hx; rw [List.eq_of_mem_replicate hx]; decide)
    simp only [encNibs, h6, if_true] at this
    exact this

/-- C08/image, "for every valid (track, sector): what is read is what the image holds; a read changes no
byte": `read_sector(cyl, 0, sec)` for `cyl < 35` and `sec` a sector address of the format returns `m cyl sec`,
the image bytes are unchanged, and `HoldsV` again (the carried head position moved). -/
theorem image_read_v (img : TrackImg) (v : Variant) (six : Bool) (vol : Nat) (m : Nat → Nat → List Nat)
    (h : HoldsV img v six vol m) (cyl sec : Nat) (hc : cyl < 35) (hs : sec ∈ secIds six) :
    ∃ img', A2Verif.Model.TrackImg.readSector Trk img cyl 0 sec = (.ok (m cyl sec), img') ∧ img'.bytes = img.bytes ∧
      HoldsV img' v six vol m := by
  obtain ⟨o, gaps, secs, a, c0, k, inv, hf, hm⟩ := h
  obtain ⟨tgt, htm, hid, img', a', c0', k', hr, hb, inv'⟩ := img_read inv cyl hc sec hs
  rw [hf, hm cyl hc tgt htm, hid] at hr
  refine ⟨img', hr, hb, o, gaps, secs, a', c0', k', inv', ?_, hm⟩
  have : fmtOf img' (capOf v) = fmtOf img (capOf v) := by
    have h1 := inv'.lay.loc 0 (by omega)
    have h2 := inv.lay.loc 0 (by omega)
    -- kind and six are not touched by a read: compare through the definition of `readSector`
    have hk : img'.kind = img.kind ∧ img'.six = img.six := by
      have e := congrArg Prod.snd hr
      rw [readSector_eq inv.lay cyl sec hc (by
        have := (sector_of_id inv cyl hc sec hs); obtain ⟨_, _, _, h⟩ := this; omega)] at e
      simp only at e
      split at e <;> (subst e; exact ⟨rfl, rfl⟩)
    unfold fmtOf; rw [hk.1, hk.2]
  rw [this, hf]

theorem quant_props (dat : List Nat) (hb : ∀ x ∈ dat, x < 256) : (quant dat).length = 256 ∧ ∀ x ∈ quant dat, x < 256 := by
  constructor
  · simp only [quant, List.length_take, List.length_append, List.length_replicate]; omega
  · intro x hx
    have := List.mem_of_mem_take hx
    rcases List.mem_append.1 this with h | h
    · exact hb x h
    · rw [List.eq_of_mem_replicate h]; decide

/-- C08/image, gap (d), part 2: **read-after-write and frame across the whole image.**  `write_sector(cyl, 0,
sec, dat)` for `cyl < 35`, `sec` a sector address of the format, any data (padded with zeros / cut to 256
bytes): it succeeds; no byte of the image outside the buffer of track `cyl` changes (frame across tracks,
on the raw bits); afterwards the image holds `quant dat` at `(cyl, sec)` and at EVERY other (track, sector)
what it held before — so distinct (track, sector) never alias, and by `image_read_v` a later read of
`(cyl, sec)` returns the data, any other read its old value, for any order of operations (the statement is
about `HoldsV`, which every operation re-establishes). -/
theorem image_write_v (img : TrackImg) (v : Variant) (six : Bool) (vol : Nat) (m : Nat → Nat → List Nat)
    (h : HoldsV img v six vol m) (cyl sec : Nat) (hc : cyl < 35) (hs : sec ∈ secIds six) (dat : List Nat)
    (hb : ∀ x ∈ dat, x < 256) :
    ∃ img', A2Verif.Model.TrackImg.writeSector Trk img cyl 0 sec dat = (.ok (), img') ∧
      img'.bytes.length = img.bytes.length ∧
      (∀ i, i < offsOf v cyl ∨ offsOf v cyl + capOf v ≤ i → img'.bytes[i]? = img.bytes[i]?) ∧
      HoldsV img' v six vol (fun t s => if t = cyl ∧ s = sec then quant dat else m t s) := by
  obtain ⟨o, gaps, secs, a, c0, k, inv, hf, hm⟩ := h
  obtain ⟨tgt, htm, hid, img', As', Bs', hsecs, hw, hl, hfr, inv'⟩ := img_write inv cyl hc sec hs dat
  have hkeep : img'.kind = img.kind ∧ img'.six = img.six := by
    have e := congrArg Prod.snd hw
    rw [writeSector_eq inv.lay cyl sec dat hc (by
      have := (sector_of_id inv cyl hc sec hs); obtain ⟨_, _, _, h⟩ := this; omega)] at e
    simp only at e
    split at e <;> (subst e; exact ⟨rfl, rfl⟩)
  have hf' : fmtOf img' (capOf v) = fOf v six := by rw [← hf]; unfold fmtOf; rw [hkeep.1, hkeep.2]
  rw [hf] at inv'
  refine ⟨img', hw, hl, hfr, o, gaps, _, _, _, _, inv', hf', ?_⟩
  intro t ht s hs'
  have hq := quant_props dat hb
  by_cases hte : t = cyl
  · subst hte
    simp only [setSecs, if_true, List.mem_append, List.mem_cons] at hs'
    have hnd : ((As' ++ tgt :: Bs').map (·.id)).Nodup := by rw [← hsecs, inv.idsEq t ht]; exact inv.nodup
    simp only [List.map_append, List.map_cons, List.nodup_append, List.nodup_cons, List.mem_map, List.mem_cons] at hnd
    rcases hs' with h | h | h
    · have hne : s.id ≠ sec := by
        rw [← hid]; intro he
        exact hnd.2.2 s.id ⟨s, h, rfl⟩ tgt.id (Or.inl rfl) he
      simp only [hne, and_false, if_false]
      exact hm t ht s (by rw [hsecs]; simp [h])
    · subst h
      simp only [hid, and_self, if_true]
      exact gdecRes_enc (fOf v six) (quant dat) hq.1 hq.2
    · have hne : s.id ≠ sec := by
        rw [← hid]; intro he
        exact hnd.2.1.1 ⟨s, h, he⟩
      simp only [hne, and_false, if_false]
      exact hm t ht s (by rw [hsecs]; simp [h])
  · simp only [setSecs, if_neg hte] at hs'
    simp only [hte, false_and, if_false]
    exact hm t ht s hs'

/-- C08/image, "invalid addresses are refused": head ≠ 0, track ≥ 35, sector > 255, or a sector number that
is no sector address of the format (16..255 / 13..255) — read and write return an error and the image,
including the carried head position, is unchanged. -/
theorem image_invalid_refused_v (img : TrackImg) (v : Variant) (six : Bool) (vol : Nat) (m : Nat → Nat → List Nat)
    (h : HoldsV img v six vol m) (cyl head sec : Nat) (dat : List Nat)
    (hbad : 1 ≤ head ∨ 35 ≤ cyl ∨ 255 < sec ∨ (cyl < 35 ∧ sec ∉ secIds six)) :
    (∃ r, A2Verif.Model.TrackImg.readSector Trk img cyl head sec = (r, img) ∧ (r = .err ∨ r = .nib .sectorNotFound)) ∧
    (∃ r, A2Verif.Model.TrackImg.writeSector Trk img cyl head sec dat = (r, img) ∧ (r = .err ∨ r = .nib .sectorNotFound)) := by
  obtain ⟨o, gaps, secs, a, c0, k, inv, _, _⟩ := h
  exact img_refuse inv cyl head sec dat hbad

/-- C08/image, everything together on a freshly created image: for NIB / WOZ1 / WOZ2, 16 or 13 sectors, any
volume; any two DIFFERENT valid addresses `(c, s) ≠ (c', s')` and any data: write `(c, s)`, then a read of
`(c', s')` (on the same or another track, with the head position the write left behind) still returns 256
zeros, and a read of `(c, s)` after that returns the data written. -/
theorem fresh_image_read_after_write (v : Variant) (six : Bool) (vol : Nat) (hv : vol < 256)
    (c s c' s' : Nat) (hc : c < 35) (hs : s ∈ secIds six) (hc' : c' < 35) (hs' : s' ∈ secIds six)
    (hne : ¬ (c' = c ∧ s' = s)) (dat : List Nat) (hb : ∀ x ∈ dat, x < 256) :
    ∃ i1 i2 i3, A2Verif.Model.TrackImg.writeSector Trk (createV v six vol) c 0 s dat = (.ok (), i1) ∧
      A2Verif.Model.TrackImg.readSector Trk i1 c' 0 s' = (.ok (List.replicate 256 0), i2) ∧
      A2Verif.Model.TrackImg.readSector Trk i2 c 0 s = (.ok (quant dat), i3) := by
  obtain ⟨i1, w, _, _, h1⟩ := image_write_v _ v six vol _ (create_holds_v v six vol hv) c s hc hs dat hb
  obtain ⟨i2, r2, _, h2⟩ := image_read_v i1 v six vol _ h1 c' s' hc' hs'
  obtain ⟨i3, r3, _, _⟩ := image_read_v i2 v six vol _ h2 c s hc hs
  simp only [hne, if_false] at r2
  simp only [and_self, if_true] at r3
  exact ⟨i1, i2, i3, w, r2, r3⟩

/-! ### any order of operations -/

inductive Op
  | r (c s : Nat)
  | w (c s : Nat) (d : List Nat)

/-- a valid operation: whole track of the image, sector address of the format, byte data -/
def Op.Valid (six : Bool) : Op → Prop
  | .r c s => c < 35 ∧ s ∈ secIds six
  | .w c s d => c < 35 ∧ s ∈ secIds six ∧ ∀ x ∈ d, x < 256

/-- run a sequence of operations on the image (model of the Rust calls), collecting the results -/
def runOps (img : TrackImg) : List Op → List (IRes (List Nat)) × TrackImg
  | [] => ([], img)
  | .r c s :: rest =>
    let x := A2Verif.Model.TrackImg.readSector Trk img c 0 s
    let y := runOps x.2 rest
    (x.1 :: y.1, y.2)
  | .w c s d :: rest =>
    let x := A2Verif.Model.TrackImg.writeSector Trk img c 0 s d
    let y := runOps x.2 rest
    ((match x.1 with | .ok _ => .ok [] | .err => .err | .nib e => .nib e | .panic => .panic) :: y.1, y.2)

/-- the same sequence on a reference map (track, sector) → 256 bytes -/
def refOps (m : Nat → Nat → List Nat) : List Op → List (IRes (List Nat)) × (Nat → Nat → List Nat)
  | [] => ([], m)
  | .r c s :: rest => let y := refOps m rest; (.ok (m c s) :: y.1, y.2)
  | .w c s d :: rest =>
    let y := refOps (fun t x => if t = c ∧ x = s then quant d else m t x) rest
    (.ok [] :: y.1, y.2)

/-- C08/image, "under any order of reads and writes": every sequence of valid reads and writes on an image
that `HoldsV m` (in particular a freshly created one, `create_holds_v`) — any tracks in any order, each
operation starting from the head position the previous one left — returns exactly what the reference map
returns, and the image then holds the reference map's final contents. -/
theorem image_history (v : Variant) (six : Bool) (vol : Nat) : ∀ (ops : List Op) (img : TrackImg)
    (m : Nat → Nat → List Nat), HoldsV img v six vol m → (∀ op ∈ ops, op.Valid six) →
    (runOps img ops).1 = (refOps m ops).1 ∧ HoldsV (runOps img ops).2 v six vol (refOps m ops).2 := by
  intro ops
  induction ops with
  | nil => intro img m h _; exact ⟨rfl, h⟩
  | cons op rest ih =>
    intro img m h hv
    have hvr : ∀ op ∈ rest, op.Valid six := fun o ho => hv o (by simp [ho])
    cases op with
    | r c s =>
      obtain ⟨hc, hs⟩ : c < 35 ∧ s ∈ secIds six := hv (.r c s) (by simp)
      obtain ⟨img', hr, _, h'⟩ := image_read_v img v six vol m h c s hc hs
      obtain ⟨i1, i2⟩ := ih img' m h' hvr
      simp only [runOps, refOps, hr]
      exact ⟨by rw [i1], i2⟩
    | w c s d =>
      obtain ⟨hc, hs, hb⟩ : c < 35 ∧ s ∈ secIds six ∧ ∀ x ∈ d, x < 256 := hv (.w c s d) (by simp)
      obtain ⟨img', hw, _, _, h'⟩ := image_write_v img v six vol m h c s hc hs d hb
      obtain ⟨i1, i2⟩ := ih img' _ h' hvr
      simp only [runOps, refOps, hw]
      exact ⟨by rw [i1], i2⟩

/-- C08/image, NIB family layout for BOTH track capacities (seeded change C08-7 replaced `self.trk_cap` by the
NIB constant in the write window): `Nib::from_bytes` accepts 35 × 6656 (NIB) and 35 × 6384 (NB2) bytes, and in
either image track `t` is located — for reads AND writes, `locate` is the one window both use — at
`t * trk_cap`, `trk_cap` bytes long, all 35 windows inside the buffer and pairwise disjoint; and the NB2 variant
of the theorems above is exactly what `from_bytes` makes of a created NIB cut to 6384-byte tracks. -/
theorem nib_family_layout (six : Bool) (bytes : List Nat) (cap : Nat) (hcap : cap = nibCap ∨ cap = nb2Cap)
    (hl : bytes.length = 35 * cap) :
    (∃ img, nibFromBytes six bytes = some img ∧ img.bytes = bytes ∧ img.trkCap = cap ∧
      Layout img (fun t => t * cap) cap (cap * 8)) ∧
    (∀ vol, nibFromBytes six (nb2Bytes (create Trk .nib six vol).bytes) = some (createV .nb2 six vol)) :=
  ⟨nibFromBytes_layout six bytes cap hcap hl, createV_nb2_fromBytes six⟩

/-! ## 4. the array representation (buffer of `bit_count` bits + bit pointer), for EVERY bit count

The theorems above are about `Trk` (the track as a list seen from the head).  The Rust — and the driver that
is compared with it — holds a buffer and a pointer (`ATrk`).  A whole-byte shortcut in `TrackBits::write` that
is wrong when `bit_count` is not a multiple of 8 (seeded change C08-5: 13-sector WOZ tracks have 48694 bits)
breaks exactly the facts of this section. -/

/-- C08/track, "a write of `n` bits at any pointer on a track of ANY bit count changes exactly those `n` cells
(mod the count)": for the array track of any size — a multiple of 8 or not — any pointer inside it and any
`xs` no longer than the track, also when the write runs across the end of the buffer: seen from the head, the
first `xs.length` cells are replaced by `xs` (now behind the head), every other cell is unchanged, the pointer
moved by `xs.length` modulo the size, the size is the same. -/
theorem atrk_write_exact_any_bit_count (xs : List Bool) (a : ATrk) (h : a.pos < a.buf.size) (hl : xs.length ≤ a.buf.size) :
    (writeBits xs a).view.bits = a.view.bits.drop xs.length ++ xs ∧
    (writeBits xs a).pos = (a.pos + xs.length) % a.buf.size ∧ (writeBits xs a).buf.size = a.buf.size :=
  atrk_writeBits_exact xs a h hl

/-- C08/track, the list / array gap of `design/C08.md` §6 (b): **the array instance refines the list
instance.**  For every array track with the pointer inside the buffer — any size, any pointer — `read_sector`,
`write_sector` and `format` on the head-relative view of the track are the view of the same operation on the
array track (same result, and the array track afterwards is again usable).  Hence every `Trk` theorem of this
file holds for the representation the Rust uses. -/
theorem atrk_refines_trk (f : Fmt) (a : ATrk) (h : a.pos < a.buf.size) :
    (∀ trk sec, readSector f trk sec a.view = ((readSector f trk sec a).1, (readSector f trk sec a).2.view)) ∧
    (∀ dat trk sec, writeSector f dat trk sec a.view =
      ((writeSector f dat trk sec a).1, (writeSector f dat trk sec a).2.view)) ∧
    (∀ vol trk ids, formatTrack f vol trk ids a.view = (formatTrack f vol trk ids a).view) :=
  ⟨fun trk sec => (readSector_view f trk sec a h).1, fun dat trk sec => (writeSector_view f dat trk sec a h).1,
   fun vol trk ids => (formatTrack_view f vol trk ids a h).1⟩

/-- C08/track: read-after-write and frame for the ARRAY track whose view is a formatted track (both codecs,
every bit count): write then read returns the data; any other sector reads what it held. -/
theorem atrk_read_after_write_and_frame {n : Nat} {f : Fmt} {vol trk : Nat} (a : ATrk) (ha : a.pos < a.buf.size)
    {cur : GSec} {others : List GSec} {pre fpart : List Cell} {q k : Nat} (hsb : 8 ≤ f.syncBits) (hv : vol < 256)
    (ht : trk < 256) (hF : GFmt n f vol trk a.view cur others pre fpart q k) (tgt : GSec) (rest l1 : List GSec)
    (hs : Seek cur tgt others rest l1) (dat : List Nat) (hd : dat.length = 256) (hb : ∀ x ∈ dat, x < 256) :
    (writeSector f dat trk tgt.id a).1 = .ok () ∧
    (readSector f trk tgt.id (writeSector f dat trk tgt.id a).2).1 = .ok dat ∧
    (∀ s ∈ rest, (readSector f trk s.id (writeSector f dat trk tgt.id a).2).1 = gdecRes f s.fld) := by
  obtain ⟨t', w1, ⟨t'', _, _, _, r1, _⟩, hfr⟩ := track_read_after_write_and_frame_g hsb hv ht hF tgt rest l1 hs dat hd hb
  obtain ⟨wv, wa⟩ := writeSector_view f dat trk tgt.id a ha
  rw [wv] at w1
  have e1 : (writeSector f dat trk tgt.id a).1 = .ok () := congrArg Prod.fst w1
  have e2 : (writeSector f dat trk tgt.id a).2.view = t' := congrArg Prod.snd w1
  refine ⟨e1, ?_, ?_⟩
  · have := (readSector_view f trk tgt.id _ wa).1
    rw [e2, r1] at this
    exact (congrArg Prod.fst this).symm
  · intro s hs'
    obtain ⟨t3, _, _, _, _, r3, _⟩ := hfr s hs'
    have := (readSector_view f trk s.id _ wa).1
    rw [e2, r3] at this
    exact (congrArg Prod.fst this).symm

/-- C08/image: on an image that `HoldsV` (any of NIB, NB2, WOZ1, WOZ2), `read_sector` / `write_sector` run with
the array track representation (what the driver runs against the real code) are EQUAL to the same calls run
with the list representation the image theorems are about — for every address, valid or not, and any data;
and `format` fills the same buffer in both representations. -/
theorem image_array_refines (img : TrackImg) (v : Variant) (six : Bool) (vol : Nat) (m : Nat → Nat → List Nat)
    (h : HoldsV img v six vol m) (cyl head sec : Nat) (dat : List Nat) :
    A2Verif.Model.TrackImg.readSector ATrk img cyl head sec = A2Verif.Model.TrackImg.readSector Trk img cyl head sec ∧
    A2Verif.Model.TrackImg.writeSector ATrk img cyl head sec dat = A2Verif.Model.TrackImg.writeSector Trk img cyl head sec dat ∧
    (∀ t, formatBuf ATrk (fOf v six) vol t (capOf v * 8) = formatBuf Trk (fOf v six) vol t (capOf v * 8)) := by
  obtain ⟨_, _, _, _, _, _, inv, _, _⟩ := h
  have hl := layout_locOk inv.lay cyl head
  refine ⟨readSector_refine img cyl head sec hl, writeSector_refine img cyl head sec dat hl, ?_⟩
  intro t
  apply formatBuf_refine
  have := (facts v six).2.2.2.2.2.1
  have h2 := (facts v six).2.2.1
  have hs := (facts v six).1
  show 0 < (fOf v six).bitCount (secIds six).length
  unfold Fmt.bitCount; omega

/-! ### the three `create`d kinds addressed by `ImgKind` (the statements of the first round, used by C07) -/

def kindV : ImgKind → Variant
  | .nib => .nib
  | .woz1 => .woz1
  | .woz2 => .woz2

theorem createV_ofKind (kind : ImgKind) (six : Bool) (vol : Nat) :
    createV (kindV kind) six vol = create Trk kind six vol := by cases kind <;> rfl

/-- `HoldsV` for one of the three kinds `create` makes -/
def Holds (img : TrackImg) (kind : ImgKind) (six : Bool) (vol : Nat) (m : Nat → Nat → List Nat) : Prop :=
  HoldsV img (kindV kind) six vol m

/-- C08/image: `create_holds_v` for `Nib::create`, `Woz1::create`, `Woz2::create` -/
theorem create_holds (kind : ImgKind) (six : Bool) (vol : Nat) (hv : vol < 256) :
    Holds (create Trk kind six vol) kind six vol (fun _ _ => List.replicate 256 0) := by
  rw [← createV_ofKind]; exact create_holds_v (kindV kind) six vol hv

/-- C08/image: `image_read_v` for the three `create`d kinds -/
theorem image_read (img : TrackImg) (kind : ImgKind) (six : Bool) (vol : Nat) (m : Nat → Nat → List Nat)
    (h : Holds img kind six vol m) (cyl sec : Nat) (hc : cyl < 35) (hs : sec ∈ secIds six) :
    ∃ img', A2Verif.Model.TrackImg.readSector Trk img cyl 0 sec = (.ok (m cyl sec), img') ∧ img'.bytes = img.bytes ∧
      Holds img' kind six vol m :=
  image_read_v img (kindV kind) six vol m h cyl sec hc hs

/-- C08/image: `image_write_v` for the three `create`d kinds -/
theorem image_write (img : TrackImg) (kind : ImgKind) (six : Bool) (vol : Nat) (m : Nat → Nat → List Nat)
    (h : Holds img kind six vol m) (cyl sec : Nat) (hc : cyl < 35) (hs : sec ∈ secIds six) (dat : List Nat)
    (hb : ∀ x ∈ dat, x < 256) :
    ∃ img', A2Verif.Model.TrackImg.writeSector Trk img cyl 0 sec dat = (.ok (), img') ∧
      img'.bytes.length = img.bytes.length ∧
      (∀ i, i < offsOf (kindV kind) cyl ∨ offsOf (kindV kind) cyl + capOf (kindV kind) ≤ i → img'.bytes[i]? = img.bytes[i]?) ∧
      Holds img' kind six vol (fun t s => if t = cyl ∧ s = sec then quant dat else m t s) :=
  image_write_v img (kindV kind) six vol m h cyl sec hc hs dat hb

/-- C08/image: `image_invalid_refused_v` for the three `create`d kinds -/
theorem image_invalid_refused (img : TrackImg) (kind : ImgKind) (six : Bool) (vol : Nat) (m : Nat → Nat → List Nat)
    (h : Holds img kind six vol m) (cyl head sec : Nat) (dat : List Nat)
    (hbad : 1 ≤ head ∨ 35 ≤ cyl ∨ 255 < sec ∨ (cyl < 35 ∧ sec ∉ secIds six)) :
    (∃ r, A2Verif.Model.TrackImg.readSector Trk img cyl head sec = (r, img) ∧ (r = .err ∨ r = .nib .sectorNotFound)) ∧
    (∃ r, A2Verif.Model.TrackImg.writeSector Trk img cyl head sec dat = (r, img) ∧ (r = .err ∨ r = .nib .sectorNotFound)) :=
  image_invalid_refused_v img (kindV kind) six vol m h cyl head sec dat hbad

/-- non-vacuity of the image theorems: the hypotheses `HoldsV`, valid addresses, byte data are met -/
example : HoldsV (createV .woz2 true 254) .woz2 true 254 (fun _ _ => List.replicate 256 0) ∧ 17 < 35 ∧
    5 ∈ secIds true ∧ 12 ∈ secIds false ∧ ∀ x ∈ [1, 2, 255], x < 256 :=
  ⟨create_holds_v .woz2 true 254 (by decide), by decide, by decide, by decide, by decide⟩

end A2Verif.C08Track
