import A2Verif.Lemmas.NibbleRT
/-!
# Property C08 — sector and block storage is exact and non-interfering

Part 1 (this section): the bit-level encodings.  4&4, 6&2 and 5&3 decode to the bytes that were
encoded, for EVERY sector content (all lists of 256 bytes — an unbounded statement, proved by list
induction for the XOR chain and by exhaustive kernel evaluation of the per-byte bit identities), and
the disk-byte tables of the current source have the properties the track search relies on.
-/
namespace A2Verif.C08
open A2Verif.Model.Nibble A2Verif.Gen.Disk525

/-- C08, clause "4-and-4 … decode to the bytes that were encoded": for every byte `v`, the two
address-field bytes `encode_44` produces are bytes with the high bit set (latch-aligned), never the
reserved `D5`, and `decode_44` returns `v`. -/
theorem codec44_roundtrip (v : Nat) (h : v < 256) :
    ∃ a b, encode44 v = [a, b] ∧ decode44 a b = v ∧ a < 256 ∧ b < 256 ∧
      a &&& 0x80 = 0x80 ∧ b &&& 0x80 = 0x80 ∧ a ≠ 0xD5 ∧ b ≠ 0xD5 := by
  have r := encode44_range_fin ⟨v, h⟩
  exact ⟨_, _, rfl, decode44_encode44_fin ⟨v, h⟩, r.1, r.2.1, r.2.2.1, r.2.2.2.1, r.2.2.2.2.1, r.2.2.2.2.2⟩

example : encode44 0xFE = [0xFF, 0xFE] ∧ decode44 0xFF 0xFE = 0xFE := by decide

/-- C08, clause "6-and-2 nibble streams with checksums … decode to the bytes that were encoded for
every possible sector content": for every list of 256 bytes, the 343 disk bytes `encode_sector_62`
writes are accepted by `decode_sector_62` (no invalid byte, checksum closes) and give back the data. -/
theorem codec62_roundtrip (d : List Nat) (hlen : d.length = 256) (hb : ∀ x ∈ d, x < 256) :
    dec62 (enc62 d) = .ok d ∧ (enc62 d).length = 343 :=
  ⟨dec62_enc62 d hlen hb, by simp [enc62, pre62, length_chain]⟩

example : (List.replicate 256 0xA5).length = 256 ∧ ∀ x ∈ List.replicate 256 0xA5, x < 256 := by
  constructor
  · exact List.length_replicate
  · intro x hx; rw [List.eq_of_mem_replicate hx]; decide

/-- C08, same clause for 5-and-3 (13-sector disks): 411 disk bytes, decoded back exactly. -/
theorem codec53_roundtrip (d : List Nat) (hlen : d.length = 256) (hb : ∀ x ∈ d, x < 256) :
    dec53 (enc53 d) = .ok d ∧ (enc53 d).length = 411 :=
  ⟨dec53_enc53 d hlen hb, by simp [enc53, pre53, length_chain]⟩

/-- Every disk byte either encoder can emit is a table entry: a byte ≥ 0x96 with the high bit set
that is neither `D5` nor `AA`.  Hence a data field never contains a prolog (`D5 AA xx`) and never
de-synchronises the read latch — for every content, whatever its length. -/
theorem enc62_bytes_clean (d : List Nat) : ∀ y ∈ enc62 d,
    0x96 ≤ y ∧ y < 256 ∧ y &&& 0x80 = 0x80 ∧ y ≠ 0xD5 ∧ y ≠ 0xAA := by
  intro y hy
  obtain ⟨x, _, rfl⟩ := List.mem_map.1 hy
  have : x &&& 0x3f < 64 := Nat.lt_succ_of_le Nat.and_le_right
  exact tbl62_range ⟨x &&& 0x3f, this⟩

theorem enc53_bytes_clean (d : List Nat) : ∀ y ∈ enc53 d,
    0xAB ≤ y ∧ y < 256 ∧ y &&& 0x80 = 0x80 ∧ y ≠ 0xD5 ∧ y ≠ 0xAA := by
  intro y hy
  obtain ⟨x, _, rfl⟩ := List.mem_map.1 hy
  have : x &&& 0x1f < 32 := Nat.lt_succ_of_le Nat.and_le_right
  exact tbl53_range ⟨x &&& 0x1f, this⟩

/-- Facts about the 6&2 table of the current source (`DISK_BYTES_62`, regenerated every run): 64
pairwise distinct entries, and the table `invert_62` builds inverts it in both directions. -/
theorem table62_facts :
    DISK_BYTES_62.length = 64 ∧
    (∀ i j : Fin 64, DISK_BYTES_62.getD i.val 0 = DISK_BYTES_62.getD j.val 0 → i = j) ∧
    (∀ n, n < 64 → decByte62 (encByte62 n) = n) ∧
    (∀ b, b < 256 → decByte62 b ≠ INVALID_NIB_BYTE → decByte62 b < 64 ∧ encByte62 (decByte62 b) = b) :=
  ⟨tbl62_length, tbl62_injective, decByte62_encByte62, encByte62_decByte62⟩

/-- the same for the 5&3 table (32 entries) -/
theorem table53_facts :
    DISK_BYTES_53.length = 32 ∧
    (∀ i j : Fin 32, DISK_BYTES_53.getD i.val 0 = DISK_BYTES_53.getD j.val 0 → i = j) ∧
    (∀ n, n < 32 → decByte53 (encByte53 n) = n) ∧
    (∀ b, b < 256 → decByte53 b ≠ INVALID_NIB_BYTE → decByte53 b < 32 ∧ encByte53 (decByte53 b) = b) :=
  ⟨tbl53_length, tbl53_injective, decByte53_encByte53, encByte53_decByte53⟩

/-- the decoder is not vacuous: a damaged field is refused (flipping one nibble of the encoding of the
zero sector to another valid disk byte breaks the checksum; a non-table byte is an invalid byte) -/
example : (match dec62 ((enc62 (List.replicate 256 0)).set 5 0x97) with | .error .badChecksum => true | _ => false) = true ∧
    (match dec62 ((enc62 (List.replicate 256 0)).set 5 0xD5) with | .error .invalidByte => true | _ => false) = true := by
  decide +kernel

end A2Verif.C08
