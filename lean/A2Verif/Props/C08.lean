import A2Verif.Lemmas.NibbleRT
import A2Verif.Lemmas.FlatLaws
import A2Verif.Lemmas.Nibble35
import A2Verif.Lemmas.TrackOps
import A2Verif.Props.C08Img
/-!
# Property C08 — sector and block storage is exact and non-interfering

Part 1 (this section): the bit-level encodings.  4&4, 6&2 and 5&3 decode to the bytes that were
encoded, for EVERY sector content (all lists of 256 bytes — an unbounded statement, proved by list
induction for the XOR chain and by exhaustive kernel evaluation of the per-byte bit identities), and
the disk-byte tables of the current source have the properties the track search relies on.
-/
namespace A2Verif.C08
open A2Verif.Model.Nibble A2Verif.Gen.Disk525

/-- C08, clause "4-and-4 … decode to the bytes that were encoded": for every byte `v`, the two
address-field bytes `encode_44` produces are bytes with the high bit set (latch-aligned), never the
reserved `D5`, and `decode_44` returns `v`. -/
theorem codec44_roundtrip (v : Nat) (h : v < 256) :
    ∃ a b, encode44 v = [a, b] ∧ decode44 a b = v ∧ a < 256 ∧ b < 256 ∧
      a &&& 0x80 = 0x80 ∧ b &&& 0x80 = 0x80 ∧ a ≠ 0xD5 ∧ b ≠ 0xD5 := by
  have r := encode44_range_fin ⟨v, h⟩
  exact ⟨_, _, rfl, decode44_encode44_fin ⟨v, h⟩, r.1, r.2.1, r.2.2.1, r.2.2.2.1, r.2.2.2.2.1, r.2.2.2.2.2⟩

example : encode44 0xFE = [0xFF, 0xFE] ∧ decode44 0xFF 0xFE = 0xFE := by decide

/-- C08, clause "6-and-2 nibble streams with checksums … decode to the bytes that were encoded for
every possible sector content": for every list of 256 bytes, the 343 disk bytes `encode_sector_62`
writes are accepted by `decode_sector_62` (no invalid byte, checksum closes) and give back the data. -/
theorem codec62_roundtrip (d : List Nat) (hlen : d.length = 256) (hb : ∀ x ∈ d, x < 256) :
    dec62 (enc62 d) = .ok d ∧ (enc62 d).length = 343 :=
  ⟨dec62_enc62 d hlen hb, by simp [enc62, pre62, length_chain]⟩

example : (List.replicate 256 0xA5).length = 256 ∧ ∀ x ∈ List.replicate 256 0xA5, x < 256 := by
  constructor
  · exact List.length_replicate
  · intro x hx; rw [List.eq_of_mem_replicate hx]; decide

/-- C08, same clause for 5-and-3 (13-sector disks): 411 disk bytes, decoded back exactly. -/
theorem codec53_roundtrip (d : List Nat) (hlen : d.length = 256) (hb : ∀ x ∈ d, x < 256) :
    dec53 (enc53 d) = .ok d ∧ (enc53 d).length = 411 :=
  ⟨dec53_enc53 d hlen hb, by simp [enc53, pre53, length_chain]⟩

/-- Every disk byte either encoder can emit is a table entry: a byte ≥ 0x96 with the high bit set
that is neither `D5` nor `AA`.  Hence a data field never contains a prolog (`D5 AA xx`) and never
de-synchronises the read latch — for every content, whatever its length. -/
theorem enc62_bytes_clean (d : List Nat) : ∀ y ∈ enc62 d,
    0x96 ≤ y ∧ y < 256 ∧ y &&& 0x80 = 0x80 ∧ y ≠ 0xD5 ∧ y ≠ 0xAA := by
  intro y hy
  obtain ⟨x, _, rfl⟩ := List.mem_map.1 hy
  have : x &&& 0x3f < 64 := Nat.lt_succ_of_le Nat.and_le_right
  exact tbl62_range ⟨x &&& 0x3f, this⟩

theorem enc53_bytes_clean (d : List Nat) : ∀ y ∈ enc53 d,
    0xAB ≤ y ∧ y < 256 ∧ y &&& 0x80 = 0x80 ∧ y ≠ 0xD5 ∧ y ≠ 0xAA := by
  intro y hy
  obtain ⟨x, _, rfl⟩ := List.mem_map.1 hy
  have : x &&& 0x1f < 32 := Nat.lt_succ_of_le Nat.and_le_right
  exact tbl53_range ⟨x &&& 0x1f, this⟩

/-- Facts about the 6&2 table of the current source (`DISK_BYTES_62`, regenerated every run): 64
pairwise distinct entries, and the table `invert_62` builds inverts it in both directions. -/
theorem table62_facts :
    DISK_BYTES_62.length = 64 ∧
    (∀ i j : Fin 64, DISK_BYTES_62.getD i.val 0 = DISK_BYTES_62.getD j.val 0 → i = j) ∧
    (∀ n, n < 64 → decByte62 (encByte62 n) = n) ∧
    (∀ b, b < 256 → decByte62 b ≠ INVALID_NIB_BYTE → decByte62 b < 64 ∧ encByte62 (decByte62 b) = b) :=
  ⟨tbl62_length, tbl62_injective, decByte62_encByte62, encByte62_decByte62⟩

/-- the same for the 5&3 table (32 entries) -/
theorem table53_facts :
    DISK_BYTES_53.length = 32 ∧
    (∀ i j : Fin 32, DISK_BYTES_53.getD i.val 0 = DISK_BYTES_53.getD j.val 0 → i = j) ∧
    (∀ n, n < 32 → decByte53 (encByte53 n) = n) ∧
    (∀ b, b < 256 → decByte53 b ≠ INVALID_NIB_BYTE → decByte53 b < 32 ∧ encByte53 (decByte53 b) = b) :=
  ⟨tbl53_length, tbl53_injective, decByte53_encByte53, encByte53_decByte53⟩

/-- the decoder is not vacuous: a damaged field is refused (flipping one nibble of the encoding of the
zero sector to another valid disk byte breaks the checksum; a non-table byte is an invalid byte) -/
example : (match dec62 ((enc62 (List.replicate 256 0)).set 5 0x97) with | .error .badChecksum => true | _ => false) = true ∧
    (match dec62 ((enc62 (List.replicate 256 0)).set 5 0xD5) with | .error .invalidByte => true | _ => false) = true := by
  decide +kernel


/-!
### The 3.5 inch 524-byte sector codec (`disk35.rs`)
-/
section codec35
open A2Verif.Model.Nibble35

/-- C08, clause "for all … 524-byte sector contents": for every list of 524 bytes (12 tag bytes + 512
data bytes) `encode_sector_62` of disk35.rs yields 703 disk bytes (699 data + 4 checksum nibbles) which
`decode_sector_62` accepts — no invalid byte, all three end-around-carry checksums agree — and decodes
to the same 524 bytes.  Proved by induction over the 174 byte triples + the final pair with the
invariant "decoder checksum state = encoder checksum state" (`dec35Loop_enc35Pre`, stated for an
arbitrary starting state). -/
theorem codec35_roundtrip (d : List Nat) (hlen : d.length = 524) (hb : ∀ x ∈ d, x < 256) :
    ∃ ns, enc35 d = some ns ∧ ns.length = 703 ∧ dec35 ns = .ok d :=
  dec35_enc35 d hlen hb

example : (List.replicate 524 0xFF).length = 524 ∧ ∀ x ∈ List.replicate 524 0xFF, x < 256 := by
  constructor
  · exact List.length_replicate
  · intro x hx; rw [List.eq_of_mem_replicate hx]; decide

/-- every disk byte of a 3.5 inch data field is a 6&2 table entry: ≥ 0x96, high bit set, not `D5`/`AA` -/
theorem enc35_bytes_clean (d ns : List Nat) (h : enc35 d = some ns) : ∀ y ∈ ns,
    0x96 ≤ y ∧ y < 256 ∧ y &&& 0x80 = 0x80 ∧ y ≠ 0xD5 ∧ y ≠ 0xAA :=
  A2Verif.Model.Nibble35.enc35_bytes_clean d ns h

/-- not vacuous: changing one data nibble of the all-ones sector to another valid disk byte is a
checksum error, a non-table byte is an invalid byte -/
example : (match enc35 (List.replicate 524 0xFF) with
    | some ns => (match dec35 (ns.set 1 0x96), dec35 (ns.set 1 0xD5) with
      | .error .badChecksum, .error .invalidByte => true
      | _, _ => false)
    | none => false) = true := by decide +kernel

end codec35

/-!
## Part 2: the flat formats (DO, PO, D13, IMG, 2MG with DO/PO payload)

`StoreLaws wf valid unit read write` (defined in `Lemmas/FlatLaws.lean`) is, for one addressing mode
of one format and for ALL images, addresses and data:
* a write to a valid address succeeds, keeps the image well formed, and afterwards that address reads
  as the data zero-padded / truncated to the unit size (`quantize`), and every OTHER valid address
  reads exactly as before (no aliasing, non-interference);
* a read of a valid address succeeds and yields a whole unit.
`Refuses wf valid read write`: every invalid address is answered with an error — not a panic, not
data — and the image is unchanged.

The flag `g` of the model functions says whether the source has the bounds check for that arm
(extracted from the working tree into `A2Verif.Gen.C08Guards`).  `StoreLaws` holds for both values;
`Refuses` holds with the check and is FALSE without it (concrete witnesses below, replayed on the
real code by harness cases idx 90000-90006).
-/
section flat
open A2Verif.Model.Flat A2Verif.Gen

/-- C08 for DOS-ordered images addressed by `Block::DO([track,sector])`, any track/sector counts. -/
theorem do_block_laws (g : Bool) : StoreLaws DOImg.wf DOImg.validTS (fun _ _ => 256)
    (fun i a => i.readBlock g (.dos a.1 a.2)) (fun i a d => i.writeBlock g (.dos a.1 a.2) d) :=
  DOImg.dos_laws g

example : witDO.wf ∧ witDO.validTS (1, 15) := ⟨witDO_wf.1, by decide⟩

/-- C08 "invalid addresses are refused" for `Block::DO`, given the bounds check. -/
theorem do_block_refused : Refuses DOImg.wf DOImg.validTS
    (fun i a => i.readBlock true (.dos a.1 a.2)) (fun i a d => i.writeBlock true (.dos a.1 a.2) d) :=
  DOImg.dos_refuses

/-- Without the bounds check the refusal law is false: on a well-formed 2-track image `[0,16]` is
accepted (it is the storage of `[1,0]`, see `witDO_facts`) and `[2,0]` panics. -/
theorem do_block_unchecked_not_refused : ¬ Refuses DOImg.wf DOImg.validTS
    (fun i a => i.readBlock false (.dos a.1 a.2)) (fun i a d => i.writeBlock false (.dos a.1 a.2) d) := by
  intro h
  have := (h.refused witDO (0, 16) [] witDO_wf.1 (by decide)).1
  rw [witDO_facts.1] at this
  exact absurd this (by decide)

/-- C08 for the physical sector interface of DOS-ordered 16-sector images
(`read_sector(cyl,head,sec)` through `DOS_PSEC_TO_DOS_LSEC`); the refusal law holds of the code as
it is. -/
theorem do_sector_laws : StoreLaws DOImg.wf16 DOImg.validCHS (fun _ _ => 256)
    (fun i a => i.readSector a.1 a.2.1 a.2.2) (fun i a d => i.writeSector a.1 a.2.1 a.2.2 d) :=
  DOImg.sector_laws

theorem do_sector_refused : Refuses DOImg.wf16 DOImg.validCHS
    (fun i a => i.readSector a.1 a.2.1 a.2.2) (fun i a d => i.writeSector a.1 a.2.1 a.2.2 d) :=
  DOImg.sector_refuses

example : witDO.wf16 ∧ witDO.validCHS (1, 0, 15) := ⟨witDO_wf.2.1, by decide⟩

/-- C08 for ProDOS blocks on a DOS-ordered 16-sector image (two 256-byte halves located through
`ts_from_prodos_block`): the halves of one block never collide and different blocks never share a
sector. -/
theorem do_prodos_laws (g : Bool) : StoreLaws DOImg.wfPO DOImg.validPO (fun _ _ => 512)
    (fun i b => i.readBlock g (.po b)) (fun i b d => i.writeBlock g (.po b) d) :=
  DOImg.po_laws g

theorem do_prodos_refused : Refuses DOImg.wfPO DOImg.validPO
    (fun i b => i.readBlock true (.po b)) (fun i b d => i.writeBlock true (.po b) d) :=
  DOImg.po_refuses

theorem do_prodos_unchecked_not_refused : ¬ Refuses DOImg.wfPO DOImg.validPO
    (fun i b => i.readBlock false (.po b)) (fun i b d => i.writeBlock false (.po b) d) := by
  intro h
  have := (h.refused witDO 16 [] witDO_wf.2.2 (by decide)).1
  rw [witDO_facts.2.2.2] at this
  exact absurd this (by decide)

example : witDO.wfPO ∧ witDO.validPO 15 := ⟨witDO_wf.2.2, by decide⟩

/-- C08 for ProDOS-ordered images. -/
theorem po_block_laws (g : Bool) : StoreLaws POImg.wf POImg.valid (fun _ _ => 512)
    (fun i b => i.readBlock g (.po b)) (fun i b d => i.writeBlock g (.po b) d) :=
  POImg.po_laws g

theorem po_block_refused : Refuses POImg.wf POImg.valid
    (fun i b => i.readBlock true (.po b)) (fun i b d => i.writeBlock true (.po b) d) :=
  POImg.po_refuses

theorem po_block_unchecked_not_refused : ¬ Refuses POImg.wf POImg.valid
    (fun i b => i.readBlock false (.po b)) (fun i b d => i.writeBlock false (.po b) d) := by
  intro h
  have := (h.refused witPO 2 [] witPO_wf (by decide)).1
  rw [witPO_facts] at this
  exact absurd this (by decide)

example : witPO.wf ∧ witPO.valid 1 := ⟨witPO_wf, by decide⟩

/-- C08 for 13-sector images, `Block::D13([track,sector])` and the physical sector interface. -/
theorem d13_block_laws (g : Bool) : StoreLaws D13Img.wf D13Img.validTS (fun _ _ => 256)
    (fun i a => i.readBlock g (.d13 a.1 a.2)) (fun i a d => i.writeBlock g (.d13 a.1 a.2) d) :=
  D13Img.block_laws g

theorem d13_block_refused : Refuses D13Img.wf D13Img.validTS
    (fun i a => i.readBlock true (.d13 a.1 a.2)) (fun i a d => i.writeBlock true (.d13 a.1 a.2) d) :=
  D13Img.block_refuses

theorem d13_block_unchecked_not_refused : ¬ Refuses D13Img.wf D13Img.validTS
    (fun i a => i.readBlock false (.d13 a.1 a.2)) (fun i a d => i.writeBlock false (.d13 a.1 a.2) d) := by
  intro h
  have := (h.refused witD13 (0, 13) [] witD13_wf (by decide)).1
  rw [witD13_facts.1] at this
  exact absurd this (by decide)

theorem d13_sector_laws : StoreLaws D13Img.wf D13Img.validCHS (fun _ _ => 256)
    (fun i a => i.readSector a.1 a.2.1 a.2.2) (fun i a d => i.writeSector a.1 a.2.1 a.2.2 d) :=
  D13Img.sector_laws

theorem d13_sector_refused : Refuses D13Img.wf D13Img.validCHS
    (fun i a => i.readSector a.1 a.2.1 a.2.2) (fun i a d => i.writeSector a.1 a.2.1 a.2.2 d) :=
  D13Img.sector_refuses

example : witD13.wf ∧ witD13.validTS (1, 12) ∧ witD13.validCHS (1, 0, 12) := ⟨witD13_wf, by decide, by decide⟩

/-- C08 for IBM sector dumps (IMG), physical sectors `(cyl, head, 1-based sector)` of any uniform
geometry and sector size. -/
theorem img_sector_laws (g : Bool) : StoreLaws IbmImg.wf IbmImg.validCHS (fun i _ => i.secSize)
    (fun i a => i.readSector g a.1 a.2.1 a.2.2) (fun i a d => i.writeSector g a.1 a.2.1 a.2.2 d) :=
  IbmImg.sector_laws g

theorem img_sector_refused : Refuses IbmImg.wf IbmImg.validCHS
    (fun i a => i.readSector true a.1 a.2.1 a.2.2) (fun i a d => i.writeSector true a.1 a.2.1 a.2.2 d) :=
  IbmImg.sector_refuses

/-- Without the head check `(cyl 0, head 2, sector 1)` of a two-sided image is accepted; it is the
storage of `(1,0,1)` (`witIMG_facts`). -/
theorem img_sector_unchecked_not_refused : ¬ Refuses IbmImg.wf IbmImg.validCHS
    (fun i a => i.readSector false a.1 a.2.1 a.2.2) (fun i a d => i.writeSector false a.1 a.2.1 a.2.2 d) := by
  intro h
  have := (h.refused witIMG (0, 2, 1) [] witIMG_wf (by decide)).1
  rw [witIMG_facts.1] at this
  exact absurd this (by decide)

example : witIMG.wf ∧ witIMG.validCHS (1, 1, 2) := ⟨witIMG_wf, by decide⟩

/-- C08 for 2MG with a DOS-ordered payload: with the write-protect flag clear, all three addressing
modes inherit the laws of the wrapped image (the wrapper only delegates). -/
theorem mg_do_block_laws (g : Bool) :
    StoreLaws (MgImg.wfDos DOImg.wf) (MgImg.validDos DOImg.validTS) (MgImg.unitDos (fun _ _ => 256))
      (fun m (a : Nat × Nat) => m.readBlock g (.dos a.1 a.2)) (fun m a d => m.writeBlock g (.dos a.1 a.2) d) :=
  MgImg.lift_dos _ _ _ _ _ _ _ (fun _ _ _ => rfl) (fun _ _ _ => rfl) (DOImg.dos_laws g)

theorem mg_do_prodos_laws (g : Bool) :
    StoreLaws (MgImg.wfDos DOImg.wfPO) (MgImg.validDos DOImg.validPO) (MgImg.unitDos (fun _ _ => 512))
      (fun m (b : Nat) => m.readBlock g (.po b)) (fun m b d => m.writeBlock g (.po b) d) :=
  MgImg.lift_dos _ _ _ _ _ _ _ (fun _ _ _ => rfl) (fun _ _ _ => rfl) (DOImg.po_laws g)

theorem mg_do_sector_laws :
    StoreLaws (MgImg.wfDos DOImg.wf16) (MgImg.validDos DOImg.validCHS) (MgImg.unitDos (fun _ _ => 256))
      (fun m (a : Nat × Nat × Nat) => m.readSector a.1 a.2.1 a.2.2) (fun m a d => m.writeSector a.1 a.2.1 a.2.2 d) :=
  MgImg.lift_dos _ _ _ _ _ _ _ (fun _ _ _ => rfl) (fun _ _ _ => rfl) DOImg.sector_laws

/-- C08 for 2MG with a ProDOS-ordered payload. -/
theorem mg_po_block_laws (g : Bool) :
    StoreLaws (MgImg.wfPo POImg.wf) (MgImg.validPo POImg.valid) (MgImg.unitPo (fun _ _ => 512))
      (fun m (b : Nat) => m.readBlock g (.po b)) (fun m b d => m.writeBlock g (.po b) d) :=
  MgImg.lift_po _ _ _ _ _ _ _ (fun _ _ _ => rfl) (fun _ _ _ => rfl) (POImg.po_laws g)

/-- a write-protected 2MG refuses every write and is unchanged -/
theorem mg_write_protected (m : MgImg) (h : m.writeProtected = true) (g : Bool) (a : Block) (c hd s : Nat)
    (d : List Nat) : m.writeBlock g a d = .err m ∧ m.writeSector c hd s d = .err m :=
  MgImg.write_protected m h g a c hd s d

example : MgImg.wfDos DOImg.wf ⟨false, .dos witDO⟩ ∧ MgImg.validDos DOImg.validTS ⟨false, .dos witDO⟩ (1, 3) :=
  ⟨⟨rfl, witDO, rfl, witDO_wf.1⟩, ⟨witDO, rfl, by decide⟩⟩

/-- The refusal law for the tree the check is running on: for each arm, if the translator found the
bounds check the law holds of the model the driver runs, and if it did not, the law fails. -/
theorem flat_refusal_current_tree :
    (C08Guards.doBlockDO = true → Refuses DOImg.wf DOImg.validTS
      (fun i a => i.readBlock C08Guards.doBlockDO (.dos a.1 a.2)) (fun i a d => i.writeBlock C08Guards.doBlockDO (.dos a.1 a.2) d)) ∧
    (C08Guards.doBlockPO = true → Refuses DOImg.wfPO DOImg.validPO
      (fun i b => i.readBlock C08Guards.doBlockPO (.po b)) (fun i b d => i.writeBlock C08Guards.doBlockPO (.po b) d)) ∧
    (C08Guards.poBlock = true → Refuses POImg.wf POImg.valid
      (fun i b => i.readBlock C08Guards.poBlock (.po b)) (fun i b d => i.writeBlock C08Guards.poBlock (.po b) d)) ∧
    (C08Guards.d13Block = true → Refuses D13Img.wf D13Img.validTS
      (fun i a => i.readBlock C08Guards.d13Block (.d13 a.1 a.2)) (fun i a d => i.writeBlock C08Guards.d13Block (.d13 a.1 a.2) d)) ∧
    (C08Guards.imgHead = true → Refuses IbmImg.wf IbmImg.validCHS
      (fun i a => i.readSector C08Guards.imgHead a.1 a.2.1 a.2.2) (fun i a d => i.writeSector C08Guards.imgHead a.1 a.2.1 a.2.2 d)) := by
  refine ⟨?_, ?_, ?_, ?_, ?_⟩ <;> intro h <;> rw [h]
  · exact do_block_refused
  · exact do_prodos_refused
  · exact po_block_refused
  · exact d13_block_refused
  · exact img_sector_refused

end flat


/-!
## Part 3: the circular bit track of disk525.rs (NIB / WOZ 5.25 inch tracks)

`Model.Track` is the code of `TrackBits` written against an abstract bit head; the theorems are about its
head-relative list instance `Trk`, the driver runs the array instance (absolute buffer + bit pointer) and
is compared with the real object after random op sequences (`c08 trk`).  A *cell* `(z, b)` is `z` zero
bits followed by the 8 bits of a byte with the high bit set; `stream` turns cells into bits.
-/
section track
open A2Verif.Model.Track A2Verif.Model.Nibble

/-- C08/track, "from an aligned position the latch returns the next cell's byte": with the head at a
cell boundary `read_latch` skips the cell's zero bits, returns its byte and stops at the next boundary. -/
theorem track_latch_aligned (t : Trk) (c : Cell) (cs : List Cell) (hv : ValidCell c) (h : t.bits = stream (c :: cs)) :
    (readLatch1 t).1 = c.2 ∧ (readLatch1 t).2.bits = stream (cs ++ [c]) :=
  readLatch1_cell t c cs hv h

example : ValidCell (2, 0xd5) ∧ (readLatch1 (⟨stream [(2, 0xd5), (0, 0xaa)], 0⟩ : Trk)).1 = 0xd5 := by
  constructor
  · exact ⟨by decide, by decide⟩
  · decide +kernel

/-- C08/track, the byte pattern search: it stops just behind the first cell that completes the pattern,
provided the matcher does not complete inside the cells before it (`runM … = some m`). -/
theorem track_find_pattern (f : Fmt) (patt mask : List Nat) (cap : Option Nat) (t : Trk) (pre : List Cell) (c : Cell)
    (cs : List Cell) (m : Nat) (hp : patt.length ≠ 0) (hv : ∀ x ∈ pre ++ [c], ValidCell x)
    (h : t.bits = stream (pre ++ c :: cs)) (hr : runM patt mask 0 (pre.map (·.2)) = some m)
    (hs : stepM patt mask m c.2 = patt.length) (hf : pre.length + 1 ≤ f.maxTries) (hc : capOk cap (pre.length + 1)) :
    (findPat f patt mask cap t).1 = true ∧ (findPat f patt mask cap t).2.bits = stream (cs ++ pre ++ [c]) :=
  findPat_hit f patt mask cap t pre c cs m hp hv h hr hs hf hc

/-- C08/track, "the prolog search finds the unique address field of (track, sector)": on a `Formatted`
track — whatever operation left the head wherever in a data field or gap — `find_sector` succeeds for
every sector on the track (also the one the head is in: once around) and stops just behind that sector's
address epilog.  Uses: no `D5` in data fields / address bytes / sync, so only prologs start a match. -/
theorem track_find_sector (f : Fmt) (vol trk : Nat) (hv : vol < 256) (ht : trk < 256) (t : Trk) (cur : Sec)
    (others : List Sec) (hF : Formatted f vol trk t cur others) (tgt : Sec) (rest : List Sec)
    (hcase : (∃ l1 l2, others = l1 ++ tgt :: l2 ∧ rest = l2 ++ cur :: l1) ∨ (tgt = cur ∧ rest = others)) :
    ∃ t1 : Trk, findSector f trk tgt.id t = (.ok (), t1) ∧ AfterFind f vol trk t1 tgt rest :=
  findSector_formatted f vol trk hv ht t cur others hF tgt rest hcase

/-- C08/track, reading: the result is the decoding of the nibbles the sector holds, no cell changes, the
track stays `Formatted` (the carried-over head position is part of the state). -/
theorem track_read_sector (f : Fmt) (vol trk : Nat) (hv : vol < 256) (ht : trk < 256) (t : Trk) (cur : Sec)
    (others : List Sec) (hF : Formatted f vol trk t cur others) (tgt : Sec) (rest : List Sec)
    (hcase : (∃ l1 l2, others = l1 ++ tgt :: l2 ∧ rest = l2 ++ cur :: l1) ∨ (tgt = cur ∧ rest = others)) :
    ∃ t' : Trk, readSector f trk tgt.id t = (decRes f tgt.nibs, t') ∧ Formatted f vol trk t' tgt rest :=
  readSector_formatted f vol trk hv ht t cur others hF tgt rest hcase

/-- C08/track, "`write_sector` rewrites exactly the data field cells and preserves `Formatted`": the new
state has the same sectors with the same nibbles except that the target holds `enc62 dat`. -/
theorem track_write_sector (f : Fmt) (h6 : f.six = true) (hs : 8 ≤ f.syncBits) (vol trk : Nat) (hv : vol < 256)
    (ht : trk < 256) (t : Trk) (cur : Sec) (others : List Sec) (hF : Formatted f vol trk t cur others) (tgt : Sec)
    (rest : List Sec)
    (hcase : (∃ l1 l2, others = l1 ++ tgt :: l2 ∧ rest = l2 ++ cur :: l1) ∨ (tgt = cur ∧ rest = others))
    (dat : List Nat) (hd : dat.length = 256) :
    ∃ t' : Trk, writeSector f dat trk tgt.id t = (.ok (), t') ∧
      Formatted f vol trk t' { tgt with nibs := enc62 dat } rest :=
  writeSector_formatted f h6 hs vol trk hv ht t cur others hF tgt rest hcase dat hd

/-- C08/track, read-after-write and frame on one track: after writing `dat` to sector `tgt` of a
`Formatted` 6&2 track, (1) reading that sector (once around the track) returns exactly `dat`, and
(2) reading any other sector `s` returns the decoding of the nibbles it held before the write; after
either read the track is `Formatted` again, so the statement applies to the next operation — i.e. to
any order of reads and writes. -/
theorem track_read_after_write_and_frame (f : Fmt) (h6 : f.six = true) (hs : 8 ≤ f.syncBits) (vol trk : Nat)
    (hv : vol < 256) (ht : trk < 256) (t : Trk) (cur : Sec) (others : List Sec)
    (hF : Formatted f vol trk t cur others) (tgt : Sec) (rest : List Sec)
    (hcase : (∃ l1 l2, others = l1 ++ tgt :: l2 ∧ rest = l2 ++ cur :: l1) ∨ (tgt = cur ∧ rest = others))
    (dat : List Nat) (hd : dat.length = 256) (hb : ∀ x ∈ dat, x < 256) :
    ∃ t' : Trk, writeSector f dat trk tgt.id t = (.ok (), t') ∧
      (∃ t'', readSector f trk tgt.id t' = (.ok dat, t'') ∧
        Formatted f vol trk t'' { tgt with nibs := enc62 dat } rest) ∧
      (∀ (s : Sec) (l1 l2 : List Sec), rest = l1 ++ s :: l2 →
        ∃ t'', readSector f trk s.id t' = (decRes f s.nibs, t'') ∧
          Formatted f vol trk t'' s (l2 ++ { tgt with nibs := enc62 dat } :: l1)) := by
  obtain ⟨t', w1, w2⟩ := writeSector_formatted f h6 hs vol trk hv ht t cur others hF tgt rest hcase dat hd
  refine ⟨t', w1, ?_, ?_⟩
  · obtain ⟨t'', r1, r2⟩ := readSector_formatted f vol trk hv ht t' _ rest w2 { tgt with nibs := enc62 dat } rest
      (Or.inr ⟨rfl, rfl⟩)
    refine ⟨t'', ?_, r2⟩
    rw [r1]
    have : decRes f (enc62 dat) = .ok dat := by
      simp only [decRes, h6, if_true, dec62_enc62 dat hd hb]
    exact Prod.ext this rfl
  · intro s l1 l2 hr
    exact readSector_formatted f vol trk hv ht t' _ rest w2 s _ (Or.inl ⟨l1, l2, hr, rfl⟩)

/-- `Formatted` is not vacuous: a two-sector WOZ-style track (10-bit sync) with the head in the gap
behind sector 0 -/
example : Formatted ⟨true, 10, 6646⟩ 254 17
    ⟨stream (syncCells ⟨true, 10, 6646⟩ 20 ++
      secsCells ⟨true, 10, 6646⟩ 254 17 [⟨1, enc62 (List.replicate 256 7), 60⟩] ++
      addrCells ⟨true, 10, 6646⟩ 254 17 0 ++ fieldCells ⟨true, 10, 6646⟩ (enc62 (List.replicate 256 0))), 0⟩
    ⟨0, enc62 (List.replicate 256 0), 20⟩ [⟨1, enc62 (List.replicate 256 7), 60⟩] := by
  refine ⟨syncCells _ 20, fieldCells _ _, rfl, quiet_gap _ 20, rfl, ?_, by decide, by decide⟩
  intro s hs
  simp only [List.mem_cons, List.not_mem_nil, or_false] at hs
  rcases hs with h | h <;> subst h
  · exact goodSec_enc62 _ rfl 0 20 _ (by decide) (by decide)
  · exact goodSec_enc62 _ rfl 1 60 _ (by decide) (by decide)

end track

end A2Verif.C08
