import A2Verif.Lemmas.NibbleRT
import A2Verif.Lemmas.FlatLaws
/-!
# Property C08 — sector and block storage is exact and non-interfering

Part 1 (this section): the bit-level encodings.  4&4, 6&2 and 5&3 decode to the bytes that were
encoded, for EVERY sector content (all lists of 256 bytes — an unbounded statement, proved by list
induction for the XOR chain and by exhaustive kernel evaluation of the per-byte bit identities), and
the disk-byte tables of the current source have the properties the track search relies on.
-/
namespace A2Verif.C08
open A2Verif.Model.Nibble A2Verif.Gen.Disk525

/-- C08, clause "4-and-4 … decode to the bytes that were encoded": for every byte `v`, the two
address-field bytes `encode_44` produces are bytes with the high bit set (latch-aligned), never the
reserved `D5`, and `decode_44` returns `v`. -/
theorem codec44_roundtrip (v : Nat) (h : v < 256) :
    ∃ a b, encode44 v = [a, b] ∧ decode44 a b = v ∧ a < 256 ∧ b < 256 ∧
      a &&& 0x80 = 0x80 ∧ b &&& 0x80 = 0x80 ∧ a ≠ 0xD5 ∧ b ≠ 0xD5 := by
  have r := encode44_range_fin ⟨v, h⟩
  exact ⟨_, _, rfl, decode44_encode44_fin ⟨v, h⟩, r.1, r.2.1, r.2.2.1, r.2.2.2.1, r.2.2.2.2.1, r.2.2.2.2.2⟩

example : encode44 0xFE = [0xFF, 0xFE] ∧ decode44 0xFF 0xFE = 0xFE := by decide

/-- C08, clause "6-and-2 nibble streams with checksums … decode to the bytes that were encoded for
every possible sector content": for every list of 256 bytes, the 343 disk bytes `encode_sector_62`
writes are accepted by `decode_sector_62` (no invalid byte, checksum closes) and give back the data. -/
theorem codec62_roundtrip (d : List Nat) (hlen : d.length = 256) (hb : ∀ x ∈ d, x < 256) :
    dec62 (enc62 d) = .ok d ∧ (enc62 d).length = 343 :=
  ⟨dec62_enc62 d hlen hb, by simp [enc62, pre62, length_chain]⟩

example : (List.replicate 256 0xA5).length = 256 ∧ ∀ x ∈ List.replicate 256 0xA5, x < 256 := by
  constructor
  · exact List.length_replicate
  · intro x hx; rw [List.eq_of_mem_replicate hx]; decide

/-- C08, same clause for 5-and-3 (13-sector disks): 411 disk bytes, decoded back exactly. -/
theorem codec53_roundtrip (d : List Nat) (hlen : d.length = 256) (hb : ∀ x ∈ d, x < 256) :
    dec53 (enc53 d) = .ok d ∧ (enc53 d).length = 411 :=
  ⟨dec53_enc53 d hlen hb, by simp [enc53, pre53, length_chain]⟩

/-- Every disk byte either encoder can emit is a table entry: a byte ≥ 0x96 with the high bit set
that is neither `D5` nor `AA`.  Hence a data field never contains a prolog (`D5 AA xx`) and never
de-synchronises the read latch — for every content, whatever its length. -/
theorem enc62_bytes_clean (d : List Nat) : ∀ y ∈ enc62 d,
    0x96 ≤ y ∧ y < 256 ∧ y &&& 0x80 = 0x80 ∧ y ≠ 0xD5 ∧ y ≠ 0xAA := by
  intro y hy
  obtain ⟨x, _, rfl⟩ := List.mem_map.1 hy
  have : x &&& 0x3f < 64 := Nat.lt_succ_of_le Nat.and_le_right
  exact tbl62_range ⟨x &&& 0x3f, this⟩

theorem enc53_bytes_clean (d : List Nat) : ∀ y ∈ enc53 d,
    0xAB ≤ y ∧ y < 256 ∧ y &&& 0x80 = 0x80 ∧ y ≠ 0xD5 ∧ y ≠ 0xAA := by
  intro y hy
  obtain ⟨x, _, rfl⟩ := List.mem_map.1 hy
  have : x &&& 0x1f < 32 := Nat.lt_succ_of_le Nat.and_le_right
  exact tbl53_range ⟨x &&& 0x1f, this⟩

/-- Facts about the 6&2 table of the current source (`DISK_BYTES_62`, regenerated every run): 64
pairwise distinct entries, and the table `invert_62` builds inverts it in both directions. -/
theorem table62_facts :
    DISK_BYTES_62.length = 64 ∧
    (∀ i j : Fin 64, DISK_BYTES_62.getD i.val 0 = DISK_BYTES_62.getD j.val 0 → i = j) ∧
    (∀ n, n < 64 → decByte62 (encByte62 n) = n) ∧
    (∀ b, b < 256 → decByte62 b ≠ INVALID_NIB_BYTE → decByte62 b < 64 ∧ encByte62 (decByte62 b) = b) :=
  ⟨tbl62_length, tbl62_injective, decByte62_encByte62, encByte62_decByte62⟩

/-- the same for the 5&3 table (32 entries) -/
theorem table53_facts :
    DISK_BYTES_53.length = 32 ∧
    (∀ i j : Fin 32, DISK_BYTES_53.getD i.val 0 = DISK_BYTES_53.getD j.val 0 → i = j) ∧
    (∀ n, n < 32 → decByte53 (encByte53 n) = n) ∧
    (∀ b, b < 256 → decByte53 b ≠ INVALID_NIB_BYTE → decByte53 b < 32 ∧ encByte53 (decByte53 b) = b) :=
  ⟨tbl53_length, tbl53_injective, decByte53_encByte53, encByte53_decByte53⟩

/-- the decoder is not vacuous: a damaged field is refused (flipping one nibble of the encoding of the
zero sector to another valid disk byte breaks the checksum; a non-table byte is an invalid byte) -/
example : (match dec62 ((enc62 (List.replicate 256 0)).set 5 0x97) with | .error .badChecksum => true | _ => false) = true ∧
    (match dec62 ((enc62 (List.replicate 256 0)).set 5 0xD5) with | .error .invalidByte => true | _ => false) = true := by
  decide +kernel


/-!
## Part 2: the flat formats (DO, PO, D13, IMG, 2MG with DO/PO payload)

`StoreLaws wf valid unit read write` (defined in `Lemmas/FlatLaws.lean`) is, for one addressing mode
of one format and for ALL images, addresses and data:
* a write to a valid address succeeds, keeps the image well formed, and afterwards that address reads
  as the data zero-padded / truncated to the unit size (`quantize`), and every OTHER valid address
  reads exactly as before (no aliasing, non-interference);
* a read of a valid address succeeds and yields a whole unit.
`Refuses wf valid read write`: every invalid address is answered with an error — not a panic, not
data — and the image is unchanged.

The flag `g` of the model functions says whether the source has the bounds check for that arm
(extracted from the working tree into `A2Verif.Gen.C08Guards`).  `StoreLaws` holds for both values;
`Refuses` holds with the check and is FALSE without it (concrete witnesses below, replayed on the
real code by harness cases idx 90000-90006).
-/
section flat
open A2Verif.Model.Flat A2Verif.Gen

/-- C08 for DOS-ordered images addressed by `Block::DO([track,sector])`, any track/sector counts. -/
theorem do_block_laws (g : Bool) : StoreLaws DOImg.wf DOImg.validTS (fun _ _ => 256)
    (fun i a => i.readBlock g (.dos a.1 a.2)) (fun i a d => i.writeBlock g (.dos a.1 a.2) d) :=
  DOImg.dos_laws g

example : witDO.wf ∧ witDO.validTS (1, 15) := ⟨witDO_wf.1, by decide⟩

/-- C08 "invalid addresses are refused" for `Block::DO`, given the bounds check. -/
theorem do_block_refused : Refuses DOImg.wf DOImg.validTS
    (fun i a => i.readBlock true (.dos a.1 a.2)) (fun i a d => i.writeBlock true (.dos a.1 a.2) d) :=
  DOImg.dos_refuses

/-- Without the bounds check the refusal law is false: on a well-formed 2-track image `[0,16]` is
accepted (it is the storage of `[1,0]`, see `witDO_facts`) and `[2,0]` panics. -/
theorem do_block_unchecked_not_refused : ¬ Refuses DOImg.wf DOImg.validTS
    (fun i a => i.readBlock false (.dos a.1 a.2)) (fun i a d => i.writeBlock false (.dos a.1 a.2) d) := by
  intro h
  have := (h.refused witDO (0, 16) [] witDO_wf.1 (by decide)).1
  rw [witDO_facts.1] at this
  exact absurd this (by decide)

/-- C08 for the physical sector interface of DOS-ordered 16-sector images
(`read_sector(cyl,head,sec)` through `DOS_PSEC_TO_DOS_LSEC`); the refusal law holds of the code as
it is. -/
theorem do_sector_laws : StoreLaws DOImg.wf16 DOImg.validCHS (fun _ _ => 256)
    (fun i a => i.readSector a.1 a.2.1 a.2.2) (fun i a d => i.writeSector a.1 a.2.1 a.2.2 d) :=
  DOImg.sector_laws

theorem do_sector_refused : Refuses DOImg.wf16 DOImg.validCHS
    (fun i a => i.readSector a.1 a.2.1 a.2.2) (fun i a d => i.writeSector a.1 a.2.1 a.2.2 d) :=
  DOImg.sector_refuses

example : witDO.wf16 ∧ witDO.validCHS (1, 0, 15) := ⟨witDO_wf.2.1, by decide⟩

/-- C08 for ProDOS blocks on a DOS-ordered 16-sector image (two 256-byte halves located through
`ts_from_prodos_block`): the halves of one block never collide and different blocks never share a
sector. -/
theorem do_prodos_laws (g : Bool) : StoreLaws DOImg.wfPO DOImg.validPO (fun _ _ => 512)
    (fun i b => i.readBlock g (.po b)) (fun i b d => i.writeBlock g (.po b) d) :=
  DOImg.po_laws g

theorem do_prodos_refused : Refuses DOImg.wfPO DOImg.validPO
    (fun i b => i.readBlock true (.po b)) (fun i b d => i.writeBlock true (.po b) d) :=
  DOImg.po_refuses

theorem do_prodos_unchecked_not_refused : ¬ Refuses DOImg.wfPO DOImg.validPO
    (fun i b => i.readBlock false (.po b)) (fun i b d => i.writeBlock false (.po b) d) := by
  intro h
  have := (h.refused witDO 16 [] witDO_wf.2.2 (by decide)).1
  rw [witDO_facts.2.2.2] at this
  exact absurd this (by decide)

example : witDO.wfPO ∧ witDO.validPO 15 := ⟨witDO_wf.2.2, by decide⟩

/-- C08 for ProDOS-ordered images. -/
theorem po_block_laws (g : Bool) : StoreLaws POImg.wf POImg.valid (fun _ _ => 512)
    (fun i b => i.readBlock g (.po b)) (fun i b d => i.writeBlock g (.po b) d) :=
  POImg.po_laws g

theorem po_block_refused : Refuses POImg.wf POImg.valid
    (fun i b => i.readBlock true (.po b)) (fun i b d => i.writeBlock true (.po b) d) :=
  POImg.po_refuses

theorem po_block_unchecked_not_refused : ¬ Refuses POImg.wf POImg.valid
    (fun i b => i.readBlock false (.po b)) (fun i b d => i.writeBlock false (.po b) d) := by
  intro h
  have := (h.refused witPO 2 [] witPO_wf (by decide)).1
  rw [witPO_facts] at this
  exact absurd this (by decide)

example : witPO.wf ∧ witPO.valid 1 := ⟨witPO_wf, by decide⟩

/-- C08 for 13-sector images, `Block::D13([track,sector])` and the physical sector interface. -/
theorem d13_block_laws (g : Bool) : StoreLaws D13Img.wf D13Img.validTS (fun _ _ => 256)
    (fun i a => i.readBlock g (.d13 a.1 a.2)) (fun i a d => i.writeBlock g (.d13 a.1 a.2) d) :=
  D13Img.block_laws g

theorem d13_block_refused : Refuses D13Img.wf D13Img.validTS
    (fun i a => i.readBlock true (.d13 a.1 a.2)) (fun i a d => i.writeBlock true (.d13 a.1 a.2) d) :=
  D13Img.block_refuses

theorem d13_block_unchecked_not_refused : ¬ Refuses D13Img.wf D13Img.validTS
    (fun i a => i.readBlock false (.d13 a.1 a.2)) (fun i a d => i.writeBlock false (.d13 a.1 a.2) d) := by
  intro h
  have := (h.refused witD13 (0, 13) [] witD13_wf (by decide)).1
  rw [witD13_facts.1] at this
  exact absurd this (by decide)

theorem d13_sector_laws : StoreLaws D13Img.wf D13Img.validCHS (fun _ _ => 256)
    (fun i a => i.readSector a.1 a.2.1 a.2.2) (fun i a d => i.writeSector a.1 a.2.1 a.2.2 d) :=
  D13Img.sector_laws

theorem d13_sector_refused : Refuses D13Img.wf D13Img.validCHS
    (fun i a => i.readSector a.1 a.2.1 a.2.2) (fun i a d => i.writeSector a.1 a.2.1 a.2.2 d) :=
  D13Img.sector_refuses

example : witD13.wf ∧ witD13.validTS (1, 12) ∧ witD13.validCHS (1, 0, 12) := ⟨witD13_wf, by decide, by decide⟩

/-- C08 for IBM sector dumps (IMG), physical sectors `(cyl, head, 1-based sector)` of any uniform
geometry and sector size. -/
theorem img_sector_laws (g : Bool) : StoreLaws IbmImg.wf IbmImg.validCHS (fun i _ => i.secSize)
    (fun i a => i.readSector g a.1 a.2.1 a.2.2) (fun i a d => i.writeSector g a.1 a.2.1 a.2.2 d) :=
  IbmImg.sector_laws g

theorem img_sector_refused : Refuses IbmImg.wf IbmImg.validCHS
    (fun i a => i.readSector true a.1 a.2.1 a.2.2) (fun i a d => i.writeSector true a.1 a.2.1 a.2.2 d) :=
  IbmImg.sector_refuses

/-- Without the head check `(cyl 0, head 2, sector 1)` of a two-sided image is accepted; it is the
storage of `(1,0,1)` (`witIMG_facts`). -/
theorem img_sector_unchecked_not_refused : ¬ Refuses IbmImg.wf IbmImg.validCHS
    (fun i a => i.readSector false a.1 a.2.1 a.2.2) (fun i a d => i.writeSector false a.1 a.2.1 a.2.2 d) := by
  intro h
  have := (h.refused witIMG (0, 2, 1) [] witIMG_wf (by decide)).1
  rw [witIMG_facts.1] at this
  exact absurd this (by decide)

example : witIMG.wf ∧ witIMG.validCHS (1, 1, 2) := ⟨witIMG_wf, by decide⟩

/-- C08 for 2MG with a DOS-ordered payload: with the write-protect flag clear, all three addressing
modes inherit the laws of the wrapped image (the wrapper only delegates). -/
theorem mg_do_block_laws (g : Bool) :
    StoreLaws (MgImg.wfDos DOImg.wf) (MgImg.validDos DOImg.validTS) (MgImg.unitDos (fun _ _ => 256))
      (fun m (a : Nat × Nat) => m.readBlock g (.dos a.1 a.2)) (fun m a d => m.writeBlock g (.dos a.1 a.2) d) :=
  MgImg.lift_dos _ _ _ _ _ _ _ (fun _ _ _ => rfl) (fun _ _ _ => rfl) (DOImg.dos_laws g)

theorem mg_do_prodos_laws (g : Bool) :
    StoreLaws (MgImg.wfDos DOImg.wfPO) (MgImg.validDos DOImg.validPO) (MgImg.unitDos (fun _ _ => 512))
      (fun m (b : Nat) => m.readBlock g (.po b)) (fun m b d => m.writeBlock g (.po b) d) :=
  MgImg.lift_dos _ _ _ _ _ _ _ (fun _ _ _ => rfl) (fun _ _ _ => rfl) (DOImg.po_laws g)

theorem mg_do_sector_laws :
    StoreLaws (MgImg.wfDos DOImg.wf16) (MgImg.validDos DOImg.validCHS) (MgImg.unitDos (fun _ _ => 256))
      (fun m (a : Nat × Nat × Nat) => m.readSector a.1 a.2.1 a.2.2) (fun m a d => m.writeSector a.1 a.2.1 a.2.2 d) :=
  MgImg.lift_dos _ _ _ _ _ _ _ (fun _ _ _ => rfl) (fun _ _ _ => rfl) DOImg.sector_laws

/-- C08 for 2MG with a ProDOS-ordered payload. -/
theorem mg_po_block_laws (g : Bool) :
    StoreLaws (MgImg.wfPo POImg.wf) (MgImg.validPo POImg.valid) (MgImg.unitPo (fun _ _ => 512))
      (fun m (b : Nat) => m.readBlock g (.po b)) (fun m b d => m.writeBlock g (.po b) d) :=
  MgImg.lift_po _ _ _ _ _ _ _ (fun _ _ _ => rfl) (fun _ _ _ => rfl) (POImg.po_laws g)

/-- a write-protected 2MG refuses every write and is unchanged -/
theorem mg_write_protected (m : MgImg) (h : m.writeProtected = true) (g : Bool) (a : Block) (c hd s : Nat)
    (d : List Nat) : m.writeBlock g a d = .err m ∧ m.writeSector c hd s d = .err m :=
  MgImg.write_protected m h g a c hd s d

example : MgImg.wfDos DOImg.wf ⟨false, .dos witDO⟩ ∧ MgImg.validDos DOImg.validTS ⟨false, .dos witDO⟩ (1, 3) :=
  ⟨⟨rfl, witDO, rfl, witDO_wf.1⟩, ⟨witDO, rfl, by decide⟩⟩

/-- The refusal law for the tree the check is running on: for each arm, if the translator found the
bounds check the law holds of the model the driver runs, and if it did not, the law fails. -/
theorem flat_refusal_current_tree :
    (C08Guards.doBlockDO = true → Refuses DOImg.wf DOImg.validTS
      (fun i a => i.readBlock C08Guards.doBlockDO (.dos a.1 a.2)) (fun i a d => i.writeBlock C08Guards.doBlockDO (.dos a.1 a.2) d)) ∧
    (C08Guards.doBlockPO = true → Refuses DOImg.wfPO DOImg.validPO
      (fun i b => i.readBlock C08Guards.doBlockPO (.po b)) (fun i b d => i.writeBlock C08Guards.doBlockPO (.po b) d)) ∧
    (C08Guards.poBlock = true → Refuses POImg.wf POImg.valid
      (fun i b => i.readBlock C08Guards.poBlock (.po b)) (fun i b d => i.writeBlock C08Guards.poBlock (.po b) d)) ∧
    (C08Guards.d13Block = true → Refuses D13Img.wf D13Img.validTS
      (fun i a => i.readBlock C08Guards.d13Block (.d13 a.1 a.2)) (fun i a d => i.writeBlock C08Guards.d13Block (.d13 a.1 a.2) d)) ∧
    (C08Guards.imgHead = true → Refuses IbmImg.wf IbmImg.validCHS
      (fun i a => i.readSector C08Guards.imgHead a.1 a.2.1 a.2.2) (fun i a d => i.writeSector C08Guards.imgHead a.1 a.2.1 a.2.2 d)) := by
  refine ⟨?_, ?_, ?_, ?_, ?_⟩ <;> intro h <;> rw [h]
  · exact do_block_refused
  · exact do_prodos_refused
  · exact po_block_refused
  · exact d13_block_refused
  · exact img_sector_refused

end flat

end A2Verif.C08
