import A2Verif.Lemmas.VolSpec
/-!
# C03 — volume structures stay sound under every history

The independent readers (`Model/Read/*`) walk every directory, index, T/S-list and cluster chain with
explicit visited-sets and bounds and fail on a cycle, an out-of-range pointer or a counter that disagrees
with the directory; when they succeed they return a `Vol`, on which `Vol.wfB` is evaluated after every
step (first conjunct of `stepConds`, for successful AND refused operations).  Here: what `wfB` means at
the level of propositions, and that it holds after every step of every valid history.
-/
namespace A2Verif.C03

/-- C03 ("no block is owned by two files or by a file and a system structure, every block a directory entry
leads to lies inside the volume and is marked in use"): the Boolean check means exactly that.  The list of
all owned units followed by the system units has no repetition; every owned unit is inside the volume;
no owned unit and no system unit is marked free; the free list has no repetition; paths are unique. -/
theorem wfB_sound {v : Vol} (h : v.wfB = true) :
    (v.allOwned ++ v.sys).Nodup ∧ (∀ u ∈ v.allOwned, v.lo ≤ u ∧ u < v.hi) ∧
    (∀ u ∈ v.allOwned, u ∉ v.freeUnits) ∧ (∀ u ∈ v.sys, u ∉ v.freeUnits) ∧
    v.freeUnits.Nodup ∧ (v.files.map (·.path)).Nodup := by
  obtain ⟨h1, h2, h3, h4, h5, h6, _⟩ := wfB_iff.1 h
  exact ⟨h2, h1, h3, h4, h5.1, h6⟩

/-- the converse: `wfB` demands nothing beyond these propositions and ascending chunk indices, so a reading
that fails the check really violates one of them -/
theorem wfB_complete {v : Vol}
    (h : (v.allOwned ++ v.sys).Nodup ∧ (∀ u ∈ v.allOwned, v.lo ≤ u ∧ u < v.hi) ∧
      (∀ u ∈ v.allOwned, u ∉ v.freeUnits) ∧ (∀ u ∈ v.sys, u ∉ v.freeUnits) ∧
      v.freeUnits.Nodup ∧ (v.files.map (·.path)).Nodup)
    (hfree : ∀ u ∈ v.freeUnits, v.lo ≤ u ∧ u < v.hi)
    (hasc : ∀ f ∈ v.files, (f.chunks.map (·.1)).Pairwise (· < ·)) : v.wfB = true :=
  wfB_iff.2 ⟨h.2.1, h.1, h.2.2.1, h.2.2.2.1, ⟨h.2.2.2.2.1, hfree⟩, h.2.2.2.2.2, hasc⟩

theorem nodup_flatMap_disjoint {l : List FileRec} (nd : (l.flatMap (·.owned)).Nodup)
    {f g : FileRec} (hf : f ∈ l) (hg : g ∈ l) (hne : f.path ≠ g.path) {u : Nat}
    (huf : u ∈ f.owned) : u ∉ g.owned := by
  induction l with
  | nil => cases hf
  | cons x xs ih =>
    rw [List.flatMap_cons, List.nodup_append] at nd
    obtain ⟨_, ndxs, hdis⟩ := nd
    rcases List.mem_cons.1 hf with rfl | hf'
    · rcases List.mem_cons.1 hg with rfl | hg'
      · exact absurd rfl hne
      · exact fun hug => hdis u huf u (List.mem_flatMap.2 ⟨g, hg', hug⟩) rfl
    · rcases List.mem_cons.1 hg with rfl | hg'
      · exact fun hug => hdis u hug u (List.mem_flatMap.2 ⟨f, hf', huf⟩) rfl
      · exact ih ndxs hf' hg'

/-- C03, "no block is owned by two files", in the pointwise form: two different entries of a well-formed
volume share no unit, an entry does not list a unit twice, and no entry owns a system unit. -/
theorem no_unit_shared {v : Vol} (h : v.wfB = true) {f g : FileRec} (hf : f ∈ v.files) (hg : g ∈ v.files)
    (hne : f.path ≠ g.path) : (∀ u ∈ f.owned, u ∉ g.owned) ∧ (∀ u ∈ f.owned, u ∉ v.sys) := by
  have nd := (wfB_sound h).1
  rw [List.nodup_append] at nd
  refine ⟨fun u hu => nodup_flatMap_disjoint nd.1 hf hg hne hu, fun u hu hs => ?_⟩
  exact nd.2.2 u (List.mem_flatMap.2 ⟨f, hf, hu⟩) u hs rfl

/-- C03 over histories ("after any sequence of operations, successful or failed"): the reading after
EVERY step of a valid history of any length is well-formed. -/
theorem every_state_well_formed {P : FsParams} {v0 : Vol} {tr : List Step} (hv : validFrom P v0 tr) :
    ∀ s ∈ tr, s.post.wfB = true := by
  induction tr generalizing v0 with
  | nil => intro s hs; cases hs
  | cons t rest ih =>
    intro s hs
    rcases List.mem_cons.1 hs with rfl | hm
    · exact stepOk_wf hv.1
    · exact ih hv.2 s hm

/-- C03: in particular the last reading, and with it all the propositions of `wfB_sound`. -/
theorem final_state_well_formed {P : FsParams} {v0 : Vol} {tr : List Step} (h0 : v0.wfB = true)
    (hv : validFrom P v0 tr) : (finalVol v0 tr).wfB = true :=
  history_induction (fun v => v.wfB = true) (fun _ _ _ _ hs _ => stepOk_wf hs) tr v0 hv h0

/-- C03: soundness is part of the step condition for refused operations too ("including steps that fail
part-way"): a refused operation that left a cross-link, a dangling entry or a unit both owned and free is
not a valid step. -/
theorem refused_step_leaves_sound_volume {P : FsParams} {pre post : Vol} {op : FsOp}
    (h : stepOk P pre op false post = true) : post.wfB = true := stepOk_wf h

/-! ## non-vacuity -/
open VolExample

example : ∀ s ∈ hist, s.post.wfB = true := every_state_well_formed hist_valid

example : (v1.allOwned ++ v1.sys).Nodup ∧ (∀ u ∈ v1.allOwned, v1.lo ≤ u ∧ u < v1.hi) ∧
    (∀ u ∈ v1.allOwned, u ∉ v1.freeUnits) ∧ (∀ u ∈ v1.sys, u ∉ v1.freeUnits) ∧
    v1.freeUnits.Nodup ∧ (v1.files.map (·.path)).Nodup := wfB_sound (by decide)

/-- the check is not vacuous: a volume in which `B` also claims unit 3 of `A` is rejected, and so is a step
leading to it -/
example : ({ v1 with files := [fA, { fB with owned := [3] }] } : Vol).wfB = false := by decide
example : stepOk P0 v0 putB.op true { v1 with files := [fA, { fB with owned := [3] }] } = false := by decide

end A2Verif.C03
