import A2Verif.Lemmas.FsProdosFree
import A2Verif.Lemmas.FsProdosModify
import A2Verif.Lemmas.FsProdosDelete
import A2Verif.Lemmas.FsProdosPut
import A2Verif.Lemmas.FsProdosOps
import A2Verif.Lemmas.FsProdosLockPath
import A2Verif.Lemmas.FsProdosRetype
import A2Verif.Lemmas.FsProdosRun
import A2Verif.Lemmas.FsProdosHist
import A2Verif.Lemmas.FsProdosSubPut5
import A2Verif.Props.C01
import A2Verif.Props.C02
import A2Verif.Props.C03
import A2Verif.Props.C04
import A2Verif.Props.C05
import A2Verif.Props.C19
import A2Verif.Model.Read.ProdosT
import A2Verif.Model.VolSpec
/-!
# The concrete ProDOS model (`Model/Fs/Prodos.lean`): what is proved about it

The model is a transcription of a2kit's ProDOS module, tied byte for byte to the real code after every operation of
every generated history (`Drv/FsProdos.lean`, `harness/src/fam/fs_prodos.rs`).  This file collects the theorems about
it (details: `design/FsProdos.md`).  **Proved for all inputs, source as repaired, volumes with one level of sub-directories**:
the on-disk invariant `Inv` and the states `SInv` of the disk object between two calls; for paths addressing the volume
directory the refinement of `put` (seedling, sapling, tree, sparse), `mkdir`, `delete` (of a file and of a sub-directory),
`rename` (of a file), `lock`, `unlock`, `retype` — every outcome, `Inv` preserved (`prodos_put_refines`,
`prodos_mkdir_refines`, `prodos_delete_refines`, `prodos_rename_refines`, `prodos_lock_refines_inv`, …); for paths `DIR/NAME`
into a first-level sub-directory the refinement of `delete`, `lock`, `unlock`, `retype` (`prodos_sub_delete_refines`,
`prodos_sub_lock_refines`, `prodos_sub_unlock_refines`, `prodos_sub_retype_refines`); `prodos_step_refines`,
`prodos_history_refines` over both kinds of path; and the C01–C05 / C19 corollaries for the concrete model at the end of the
file.  Proved as a lemma, not registered (`Lemmas/FsProdosSubPut5.lean`, `sub_put_ok`): the success case of `put` of `DIR/NAME`
into a sub-directory with an empty slot (`SInv` afterwards, abstract `put` of `DIR/NAME`, exact free accounting).
**Not proved**: the refusals of `put` and `rename`, `mkdir` on paths into sub-directories, directory growth, `format` for every size.
Older results, kept:

* **refinement of `lock`, `unlock` and `retype` for files of the volume directory** (`prodos_lock_refines`,
  `prodos_unlock_refines`, `prodos_retype_refines`): if the image reads (total reader `Read.ProdosT.read`) as a well-formed volume `v` and
  `lock(path)` succeeds for a one-component path, the new image reads as a well-formed `v'` and `v → v'` is a transition
  the abstract specification allows for `lock` of the canonical (upper-cased) name — through: the exact image the
  model writes (`modify_spec`), the reading of an image in which one access byte changed (`readDir_mod`, `read_mod`,
  on top of the congruence `readDir_congr`: *a reading depends only on the units it names*), and the correspondence
  between the model's search and the reader's walk (`find_root_reaches`: what the search finds, the reader lists, under
  the upper-cased name);
* the allocator: `allocate_block`/`deallocate_block` flip exactly one bit, `num_free_blocks` counts the blocks marked
  free, `get_available_block` is first fit — sound and complete (`prodos_first_fit_sound`, `prodos_first_fit_complete`:
  the allocator half of the C04 acceptance clause);
* `stat().free_blocks` is the length of the free list the independent reader extracts from the same image
  (`prodos_stat_free_is_reading`);
* `lock`, `unlock`, `retype`, `rename` (through `modify`) rewrite exactly one directory entry and clear that block's bitmap
  bit, the access byte `lock` stores is one the reader calls locked, the byte `unlock` stores one it calls unlocked
  (`prodos_lock_writes_one_entry`, …, `rename_spec`);
* the exact image after `put` of a one-chunk file (`put_seedling_spec`, `prodos_put_seedling_writes`), after `create`
  (`mkdir_spec`), after `delete` of a file whose entry sits in its directory's key block (`delete_file_spec`), each given
  what the search (`prepare_to_write` / `find_file`) returned; `delete` frees exactly the blocks the independent reader
  lists as owned by a seedling / sapling entry (`prodos_seedling_delete_frees_owned`, `prodos_sapling_delete_frees_owned`);

and, evaluated in the kernel on a small volume (`Props/FsProdosExamples.lean`), that `format` establishes the invariant
`InvB` and that short histories (sparse put; put, lock, refused delete) are valid traces of the abstract specification
under the **total** reader `Read.ProdosT.read`.
-/
namespace A2Verif.FsProdos
open A2Verif.Fs.Prodos

/-! ## the theorems, under the names registered in `obligations/` -/

/-- **allocator, effect of `allocate_block`** (C03/C04): on an open buffer that covers block `i`, afterwards exactly
block `i` has become "not free"; every other block keeps its mark; nothing else of the disk changes -/
theorem prodos_allocate_clears_one_bit (d : Disk) (buf : Array Nat) (i : Nat) (h : BufOpen d buf) (hi : i / 8 < buf.size) :
    allocate i d = (.ok (), { d with bitmap := some (clearBit buf i) }) ∧
    ∀ j, freeB (clearBit buf i) j = (if j = i then false else freeB buf j) :=
  ⟨allocate_open d buf i h.isOpen hi, fun j => freeB_clearBit buf i j h.bytes hi⟩

/-- **allocator, effect of `deallocate_block`**: exactly block `i` becomes free -/
theorem prodos_deallocate_sets_one_bit (d : Disk) (buf : Array Nat) (i : Nat) (h : BufOpen d buf) (hi : i / 8 < buf.size) :
    deallocate i d = (.ok (), { d with bitmap := some (setBit buf i) }) ∧
    ∀ j, freeB (setBit buf i) j = (if j = i then true else freeB buf j) :=
  ⟨deallocate_open d buf i h.isOpen hi, fun j => freeB_setBit buf i j h.bytes hi⟩

/-- **`num_free_blocks` is the number of blocks marked free** (C04) -/
theorem prodos_num_free_is_count (d : Disk) (buf : Array Nat) (h : BufOpen d buf) :
    numFreeBlocks d = (.ok (freeBlocks buf d.total).length, d) := numFreeBlocks_open d buf h

/-- **first fit is sound**: the block `get_available_block` returns lies in the volume, is marked free, and no smaller
block is (the allocation order the byte-exact tie depends on) -/
theorem prodos_first_fit_sound (d : Disk) (buf : Array Nat) (h : BufOpen d buf) (ht : d.total ≤ 65536) (b : Nat)
    (hr : getAvailableBlock d = (.ok (some b), d)) :
    b < d.total ∧ freeB buf b = true ∧ ∀ j, j < b → freeB buf j = false := getAvailableBlock_sound d buf h ht b hr

/-- **first fit is complete**: if any block of the volume is marked free, one is found -/
theorem prodos_first_fit_complete (d : Disk) (buf : Array Nat) (h : BufOpen d buf) (c : Nat) (hc : c < d.total)
    (hfree : freeB buf c = true) : ∃ b, getAvailableBlock d = (.ok (some b), d) := getAvailableBlock_complete d buf h c hc hfree

/-- **C04 acceptance clause, allocator half** (`prodos_fits_is_accepted` is *partial*).
Full statement, not proved: *for an image satisfying the invariant, a valid fresh path whose parent exists, a file
image with `blocks_needed f ≤ free` and (if the parent directory is full) one block more, `put` returns `Ok`.*
Proved here: whenever `num_free_blocks` reports a positive count, `get_available_block` returns a block — the
allocator never answers "disk full" while the count `put` checked against is positive, and (`prodos_allocate_clears_one_bit`,
`prodos_num_free_is_count`) each allocation lowers that count by exactly one.  Missing: the walk through `write_file`
showing that `blocks_needed` is the number of allocations it performs (checked by the tie and by the oracle
`fits-is-accepted` on every generated put, including sizes at the index-structure boundaries). -/
theorem prodos_fits_is_accepted_partial (d : Disk) (buf : Array Nat) (h : BufOpen d buf) (n : Nat)
    (hn : numFreeBlocks d = (.ok n, d)) (hpos : 0 < n) : ∃ b, getAvailableBlock d = (.ok (some b), d) := by
  rw [numFreeBlocks_open d buf h] at hn
  have hlen : (freeBlocks buf d.total).length = n := by injection hn with h1 _; injection h1
  have hne : freeBlocks buf d.total ≠ [] := by intro he; rw [he] at hlen; simp at hlen; omega
  obtain ⟨c, hc⟩ := List.exists_mem_of_ne_nil _ hne
  have hc' := List.mem_filter.mp hc
  exact getAvailableBlock_complete d buf h c (List.mem_range.mp hc'.1) hc'.2

theorem count_without (p : Nat → Bool) (i : Nat) : ∀ n : Nat,
    ((List.range n).filter (fun j => p j && !(j == i))).length + (if i < n ∧ p i = true then 1 else 0)
      = ((List.range n).filter p).length
  | 0 => by simp
  | n + 1 => by
    have ih := count_without p i n
    rw [List.range_succ, List.filter_append, List.filter_append, List.length_append, List.length_append]
    by_cases hni : n = i
    · subst hni
      have h1 : ¬ (n < n ∧ p n = true) := by omega
      rw [if_neg h1] at ih
      cases hp : p n <;> simp [hp] <;> omega
    · have h2 : (i < n + 1 ∧ p i = true) ↔ (i < n ∧ p i = true) := by
        constructor
        · intro h; exact ⟨by omega, h.2⟩
        · intro h; exact ⟨by omega, h.2⟩
      simp only [h2]
      cases hp : p n <;> simp [hp, hni] <;> omega

/-- an allocation lowers the free count by exactly one when the block was free (and not at all when it was not) -/
theorem prodos_allocate_lowers_count (buf : Array Nat) (total i : Nat) (hok : BytesOk buf) (hi : i / 8 < buf.size) (hit : i < total) :
    (freeBlocks (clearBit buf i) total).length + (if freeB buf i = true then 1 else 0) = (freeBlocks buf total).length := by
  unfold freeBlocks
  have hfun : ∀ j, freeB (clearBit buf i) j = (freeB buf j && !(j == i)) := by
    intro j; rw [freeB_clearBit buf i j hok hi]
    by_cases h : j = i
    · simp [h]
    · simp [h]
  rw [List.filter_congr (fun j _ => hfun j)]
  have := count_without (freeB buf) i total
  by_cases hf : freeB buf i = true
  · simp only [hit, hf, and_self, if_true] at this ⊢; exact this
  · have hf' : freeB buf i = false := by simpa using hf
    simp [hf'] at this ⊢; exact this

/-- **`stat().free_blocks` is the length of the independent reader's free list** (C04: the count a2kit reports is the
count an independent reading of the saved image gives) -/
theorem prodos_stat_free_is_reading (d : Disk) (kb : Bytes)
    (hclosed : d.bitmap = none) (hnb : d.bitmapBlocks.contains volKeyBlock = false)
    (hkb : d.raw.units[2]? = some kb)
    (hcnt : (d.total + 4095) / 4096 = d.bmCount)
    (hblk : ∀ k, k < d.bmCount →
      le16 kb 39 + k < d.raw.units.size ∧ (unitAt d.raw (le16 kb 39 + k)).length = 512 ∧ ∀ x ∈ unitAt d.raw (le16 kb 39 + k), x < 256) :
    ∃ fr, Read.Prodos.bitmapFree d.raw (le16 kb 39) d.total = .ok fr ∧ (statFree d).1 = .ok fr.length :=
  statFree_eq_reader_free d kb hclosed hnb hkb hcnt hblk

/-- **`delete` of a seedling file frees exactly its data block** (C04): the list the independent reader reports as `owned`
for a seedling entry is `[key]` -/
theorem prodos_seedling_delete_frees_owned (d : Disk) (buf : Array Nat) (e : Bytes) (h : BufOpen d buf)
    (hst : Ent.storageType e = stSeedling) (hcov : Ent.keyPtr e / 8 < buf.size) :
    ∃ buf', deallocFileBlocks e d = (.ok (), { d with bitmap := some buf' }) ∧
      ∀ j, freeB buf' j = ([Ent.keyPtr e].contains j || freeB buf j) := by
  refine ⟨setBit buf (Ent.keyPtr e), ?_, ?_⟩
  · unfold deallocFileBlocks
    simp only [hst, ↓reduceIte]
    exact deallocate_open d buf _ h.isOpen hcov
  · intro j
    rw [freeB_setBit buf _ j h.bytes hcov]
    by_cases hj : j = Ent.keyPtr e
    · simp [hj]
    · simp [hj]

/-- **`delete` of a sapling file frees exactly what the independent reader says it owns** (C04): the index block and
the blocks its non-zero pointers name (`saplingOwned` = the reader's `key :: ps.map (·.2)`); every other mark is kept,
only the index block's unit is rewritten (halves swapped) -/
theorem prodos_sapling_delete_frees_owned (d : Disk) (buf : Array Nat) (e : Bytes) (ib : Bytes) (h : BufOpen d buf)
    (hst : Ent.storageType e = stSapling)
    (hnb : d.bitmapBlocks.contains (Ent.keyPtr e) = false) (hib : d.raw.units[Ent.keyPtr e]? = some ib)
    (hcov : ∀ q ∈ saplingOwned (Ent.keyPtr e) ib, q / 8 < buf.size) :
    ∃ d' buf', deallocFileBlocks e d = (.ok (), d') ∧ d'.bitmap = some buf' ∧
      (∀ j, freeB buf' j = ((saplingOwned (Ent.keyPtr e) ib).contains j || freeB buf j)) ∧
      (∀ j, j ≠ Ent.keyPtr e → d'.raw.units[j]? = d.raw.units[j]?) := by
  have hd : deallocFileBlocks e d = deallocIndexBlock (Ent.keyPtr e) d := by
    unfold deallocFileBlocks
    have h1 : ¬ (stSapling = stSeedling) := by decide
    simp only [hst, ↓reduceIte]
    rw [if_neg h1]
  rw [hd]
  exact sapling_dealloc_frees_owned d buf _ ib h.isOpen h.bytes hnb hib hcov

/-- **`put` of a one-chunk file** (C01 content, C02 frame, C04 allocation): given what `prepare_to_write` returned (name,
parent key block `key`, free slot `loc`, first free block `nb`), `put` succeeds with the file image's length; afterwards
the data block holds the chunk padded with zeros, every unit other than the parent key block, the slot's block and
the data block is untouched, and in the bitmap exactly block `nb` has become used.  (The exact contents of the
two directory blocks are in `put_seedling_spec`.) -/
theorem prodos_put_seedling_writes (d : Disk) (buf : Array Nat) (f : FImg) (time : Bytes) (nm : Bytes) (key nb : Nat) (loc : Loc)
    (kblk lblk c : Bytes) (acc : Nat)
    (hf1 : f.fsOk = true) (hf2 : f.chunkLen = blockSize) (hch : f.chunks = [(0, c)])
    (hlen : ¬ (f.fsType.length < 1 ∨ f.version.length < 1 ∨ f.minVersion.length < 1 ∨ f.aux.length < 2))
    (hacc : f.access[0]? = some acc)
    (hopen : BufOpen d buf)
    (hprep : prepareToWrite f.fullPath d = (.ok (nm, key, loc, nb), d))
    (hkb : d.bitmapBlocks.contains key = false) (hkblk : d.raw.units[key]? = some kblk) (hklen : kblk.length = 512)
    (hkk : kindOf key kblk ≠ DKind.entry) (hkc : le16 (kblk.take dirLen) (4 + 33) + 1 ≤ 65535)
    (hkcov : key / 8 < buf.size) (hkused : freeB buf key = false)
    (hlb : d.bitmapBlocks.contains loc.block = false) (hlblk : d.raw.units[loc.block]? = some lblk) (hllen : lblk.length = 512)
    (hlidx : IdxOkFor loc lblk) (hlcov : loc.block / 8 < buf.size) (hlused : freeB buf loc.block = false)
    (hnbfree : freeB buf nb = true) (hnbmin : ∀ j, j < nb → freeB buf j = false) (hnbt : nb < d.total) (hnb16 : nb < 65536)
    (hnbb : d.bitmapBlocks.contains nb = false) (hnbsz : nb < d.raw.units.size) (hnbcov : nb / 8 < buf.size) :
    ∃ d' buf', put f time {} d = (.ok f.eof, d') ∧ d'.bitmap = some buf' ∧
      d'.raw.units[nb]? = some (quantize (c.take blockSize)) ∧
      (∀ j, j ≠ key → j ≠ loc.block → j ≠ nb → d'.raw.units[j]? = d.raw.units[j]?) ∧
      (∀ j, freeB buf' j = (if j = nb then false else freeB buf j)) := by
  have hspec := put_seedling_spec d buf f time nm key nb loc kblk lblk c acc hf1 hf2 hch hlen hacc hopen hprep hkb hkblk hklen
    hkk hkc hkcov hkused hlb hlblk hllen hlidx hlcov hlused hnbfree hnbmin hnbt hnb16 hnbb hnbsz hnbcov
  have hne : nb ≠ loc.block := by intro h; rw [h] at hnbfree; rw [hnbfree] at hlused; cases hlused
  have hksz : key < d.raw.units.size := by
    rcases Nat.lt_or_ge key d.raw.units.size with h | h
    · exact h
    · rw [Array.getElem?_eq_none h] at hkblk; cases hkblk
  have hlsz : loc.block < d.raw.units.size := by
    rcases Nat.lt_or_ge loc.block d.raw.units.size with h | h
    · exact h
    · rw [Array.getElem?_eq_none h] at hlblk; cases hlblk
  refine ⟨_, _, hspec, rfl, ?_, ?_, ?_⟩
  · show (setUnit (setUnit _ nb _) loc.block _).units[nb]? = _
    rw [setUnit_other _ _ _ _ (Ne.symm hne), setUnit_self _ _ _ (by rw [setUnit_size, setUnit_size]; exact hnbsz)]
  · intro j hjk hjl hjn
    show (setUnit (setUnit (setUnit (setUnit d.raw key _) loc.block _) nb _) loc.block _).units[j]? = _
    rw [setUnit_other _ _ _ _ (Ne.symm hjl), setUnit_other _ _ _ _ (Ne.symm hjn), setUnit_other _ _ _ _ (Ne.symm hjl),
      setUnit_other _ _ _ _ (Ne.symm hjk)]
  · intro j
    have hb1 : ∀ j, freeB (clearBit buf key) j = freeB buf j := freeB_clearBit_used buf key hopen.bytes hkcov hkused
    have hok1 := bytesOk_clearBit buf key hopen.bytes
    have hb2 : ∀ j, freeB (clearBit (clearBit buf key) loc.block) j = freeB buf j := by
      intro j
      rw [freeB_clearBit_used (clearBit buf key) loc.block hok1 (by rw [size_clearBit]; exact hlcov) (by rw [hb1]; exact hlused) j, hb1]
    have hok2 := bytesOk_clearBit _ loc.block hok1
    have hok3 := bytesOk_clearBit _ nb hok2
    have hb3 : ∀ j, freeB (clearBit (clearBit (clearBit buf key) loc.block) nb) j = (if j = nb then false else freeB buf j) := by
      intro j
      rw [freeB_clearBit _ nb j hok2 (by rw [size_clearBit, size_clearBit]; exact hnbcov), hb2]
    rw [freeB_clearBit_used _ loc.block hok3 (by rw [size_clearBit, size_clearBit, size_clearBit]; exact hlcov)
      (by rw [hb3]; simp [Ne.symm hne, hlused]) j, hb3]

/-- **`lock` writes one entry** (C02 frame, C19): found at `loc`, the file's entry gets the access byte `lockAcc`, which
the independent reader calls locked; every other unit of the image is the same object as before -/
theorem prodos_lock_writes_one_entry (d : Disk) (buf : Array Nat) (path : Bytes) (loc : Loc) (blk : Bytes)
    (hfind : findFile path d = (.ok loc, d))
    (hnb : d.bitmapBlocks.contains loc.block = false) (hblk : d.raw.units[loc.block]? = some blk)
    (hidx : Dir.idxOk { kind := kindOf loc.block blk, bytes := blk.take dirLen } loc.idx = true)
    (hopen : d.bitmap = some buf) (hcov : loc.block / 8 < buf.size) :
    ∃ d', lock path d = (.ok (), d') ∧
      d'.raw = setUnit d.raw loc.block (blockWithEntry blk loc.idx
        (Ent.setAccess (slice (blk.take dirLen) (Dir.entryOff loc.idx) entryLen)
          (lockAcc (Ent.access (slice (blk.take dirLen) (Dir.entryOff loc.idx) entryLen))))) ∧
      (∀ j, j ≠ loc.block → d'.raw.units[j]? = d.raw.units[j]?) ∧ d'.bitmap = some (clearBit buf loc.block) :=
  ⟨_, lock_spec d buf path loc blk hfind hnb hblk hidx hopen hcov, rfl, fun _ hj => setUnit_other _ _ _ _ (Ne.symm hj), rfl⟩

/-- **`unlock` writes one entry**: the access byte becomes `unlockAcc`, which the reader calls unlocked -/
theorem prodos_unlock_writes_one_entry (d : Disk) (buf : Array Nat) (path : Bytes) (loc : Loc) (blk : Bytes)
    (hfind : findFile path d = (.ok loc, d))
    (hnb : d.bitmapBlocks.contains loc.block = false) (hblk : d.raw.units[loc.block]? = some blk)
    (hidx : Dir.idxOk { kind := kindOf loc.block blk, bytes := blk.take dirLen } loc.idx = true)
    (hopen : d.bitmap = some buf) (hcov : loc.block / 8 < buf.size) :
    ∃ d', unlock path d = (.ok (), d') ∧
      d'.raw = setUnit d.raw loc.block (blockWithEntry blk loc.idx
        (Ent.setAccess (slice (blk.take dirLen) (Dir.entryOff loc.idx) entryLen)
          (unlockAcc (Ent.access (slice (blk.take dirLen) (Dir.entryOff loc.idx) entryLen))))) ∧
      (∀ j, j ≠ loc.block → d'.raw.units[j]? = d.raw.units[j]?) ∧ d'.bitmap = some (clearBit buf loc.block) :=
  ⟨_, unlock_spec d buf path loc blk hfind hnb hblk hidx hopen hcov, rfl, fun _ hj => setUnit_other _ _ _ _ (Ne.symm hj), rfl⟩

/-- **`retype` writes one entry**: type byte and aux field -/
theorem prodos_retype_writes_one_entry (d : Disk) (buf : Array Nat) (path : Bytes) (t a : Nat) (loc : Loc) (blk : Bytes)
    (hfind : findFile path d = (.ok loc, d))
    (hnb : d.bitmapBlocks.contains loc.block = false) (hblk : d.raw.units[loc.block]? = some blk)
    (hidx : Dir.idxOk { kind := kindOf loc.block blk, bytes := blk.take dirLen } loc.idx = true)
    (hopen : d.bitmap = some buf) (hcov : loc.block / 8 < buf.size) :
    ∃ d', retype path (some t) (some a) d = (.ok (), d') ∧
      d'.raw = setUnit d.raw loc.block (blockWithEntry blk loc.idx
        (Ent.setAux (Ent.setFtype (slice (blk.take dirLen) (Dir.entryOff loc.idx) entryLen) t) a)) ∧
      (∀ j, j ≠ loc.block → d'.raw.units[j]? = d.raw.units[j]?) :=
  ⟨_, retype_spec d buf path t a loc blk hfind hnb hblk hidx hopen hcov, rfl, fun _ hj => setUnit_other _ _ _ _ (Ne.symm hj)⟩

/-- **protection bytes** (C19): what `lock` stores the independent reader calls locked, what `unlock` stores it calls
unlocked, and an entry the reader calls unlocked passes the tests of `delete` (destroy bit) and `rename` (rename bit) -/
theorem prodos_protection_bytes :
    (∀ a : Fin 256, readerLocked (lockAcc a.val) = true) ∧ (∀ a : Fin 256, readerLocked (unlockAcc a.val) = false) ∧
    (∀ a : Fin 256, readerLocked a.val = false → (a.val &&& 0x80 ≠ 0 ∧ a.val &&& 0x40 ≠ 0)) :=
  ⟨fun a => (lockAcc_locked a).1, fun a => (unlockAcc_unlocked a).1, unlocked_passes_tests⟩

/-- **M2 for `lock`, files of the volume directory** (C02, C03, C19).  `path` has one component (`NAME` or `/VOL/NAME`); the
bitmap buffer is open; the image reads (total reader) as the well-formed volume `v`; the volume directory has the
standard geometry; its blocks are full blocks of bytes with last byte zero, none a cached bitmap block, all covered by
the buffer (`ChainOk`).  If `lock(path)` succeeds, the new image reads as a well-formed `v'` and `v → v'` satisfies every
condition of the abstract specification for `lock` of the upper-cased name: the record exists, becomes protected,
keeps content, length, blocks, type and aux, and every other record is unchanged. -/
theorem prodos_lock_refines (d d' : Disk) (buf : Array Nat) (path vn nm kb : Bytes) (v : Vol)
    (hkb : d.raw.units[2]? = some kb) (h2nb : d.bitmapBlocks.contains 2 = false)
    (hnodes : normalizePath (volName (slice kb 4 entryLen)) path = .ok [vn, nm])
    (hopen : d.bitmap = some buf)
    (hread : Read.ProdosT.read d.raw = .ok v) (hwf : v.wfB = true)
    (hgeo : kb.getD 35 0 = 39 ∧ kb.getD 36 0 = 13)
    (hch : ∀ fsL ch, Read.ProdosT.readTree d.raw v.hi = .ok (fsL, ch) → ChainOk d buf ch)
    (hrun : lock path d = (.ok (), d')) :
    ∃ v', Read.ProdosT.read d'.raw = .ok v' ∧ v'.wfB = true ∧ stepOk prodosParams v (.lock (upper nm)) true v' = true :=
  lock_path_refines d d' buf path vn nm kb v hkb h2nb hnodes hopen hread hwf hgeo hch hrun

/-- **M2 for `unlock`, files of the volume directory** (same hypotheses as `prodos_lock_refines`) -/
theorem prodos_unlock_refines (d d' : Disk) (buf : Array Nat) (path vn nm kb : Bytes) (v : Vol)
    (hkb : d.raw.units[2]? = some kb) (h2nb : d.bitmapBlocks.contains 2 = false)
    (hnodes : normalizePath (volName (slice kb 4 entryLen)) path = .ok [vn, nm])
    (hopen : d.bitmap = some buf)
    (hread : Read.ProdosT.read d.raw = .ok v) (hwf : v.wfB = true)
    (hgeo : kb.getD 35 0 = 39 ∧ kb.getD 36 0 = 13)
    (hch : ∀ fsL ch, Read.ProdosT.readTree d.raw v.hi = .ok (fsL, ch) → ChainOk d buf ch)
    (hrun : unlock path d = (.ok (), d')) :
    ∃ v', Read.ProdosT.read d'.raw = .ok v' ∧ v'.wfB = true ∧ stepOk prodosParams v (.unlock (upper nm)) true v' = true :=
  unlock_path_refines d d' buf path vn nm kb v hkb h2nb hnodes hopen hread hwf hgeo hch hrun

/-- **M2 for `retype`, files of the volume directory** (C01/C02: content, length and blocks are kept, every other record
is unchanged; same hypotheses as `prodos_lock_refines`; `t` is the type code `FileType::from_str` yields, `a` the
numeric sub-type) -/
theorem prodos_retype_refines (d d' : Disk) (buf : Array Nat) (path vn nm kb : Bytes) (t a : Nat) (v : Vol)
    (hkb : d.raw.units[2]? = some kb) (h2nb : d.bitmapBlocks.contains 2 = false)
    (hnodes : normalizePath (volName (slice kb 4 entryLen)) path = .ok [vn, nm])
    (hopen : d.bitmap = some buf)
    (hread : Read.ProdosT.read d.raw = .ok v) (hwf : v.wfB = true)
    (hgeo : kb.getD 35 0 = 39 ∧ kb.getD 36 0 = 13)
    (hch : ∀ fsL ch, Read.ProdosT.readTree d.raw v.hi = .ok (fsL, ch) → ChainOk d buf ch)
    (hrun : retype path (some t) (some a) d = (.ok (), d')) :
    ∃ v', Read.ProdosT.read d'.raw = .ok v' ∧ v'.wfB = true ∧ stepOk prodosParams v (.retype (upper nm)) true v' = true :=
  retype_path_refines d d' buf path vn nm kb t a v hkb h2nb hnodes hopen hread hwf hgeo hch hrun

/-! ## the number of bitmap blocks (finding `prodos-bitmap-block-count`) -/

/-- **source as repaired**: the number of bitmap blocks a2kit loads, writes back and reserves is the number the volume
format has (what the independent reader computes), for every block count -/
theorem prodos_bitmap_count_repaired (d : Disk) (h : d.src.bitmapCeil = true) : d.bmCount = (d.total + 4095) / 4096 := by
  unfold Disk.bmCount; rw [if_pos h]

example : (blank 4096 repaired).bmCount = 1 ∧ (blank 8192 repaired).bmCount = 2 ∧ (blank 65535 repaired).bmCount = 16 := by decide

/-- **negative witness, source as written**: on a volume of `4096·k` blocks a2kit counts `k + 1` bitmap blocks where the
format has `k`; once the buffer is open, the block right after the bitmap — an ordinary block of the volume, free on a
volume laid out by ProDOS — is refused by `write_block` with a panic ("attempt to write bitmap block").  Replayed on the
real code at aadfbdc (directed scenario `prodos-bitmap-block-count`: put of a 100-byte file on such a volume panics). -/
theorem prodos_bitmap_count_as_written_panics (d : Disk) (bm cnt k : Nat) (data : Bytes) (h : St d bm cnt)
    (hsrc : d.src.bitmapCeil = false) (hk : 0 < k) (ht : d.total = 4096 * k) :
    (d.total + 4095) / 4096 = k ∧ cnt = k + 1 ∧
      writeBlock data (bm + k) 0 (openD d bm cnt) = (.error .panic, openD d bm cnt) := by
  have hc : cnt = k + 1 := by
    rw [← h.hcnt]; unfold Disk.bmCount bitmapBlockCount; rw [hsrc, ht]; simp; omega
  refine ⟨by rw [ht]; omega, hc, ?_⟩
  have hmem : (openD d bm cnt).bitmapBlocks.contains (bm + k) = true := by
    show (bmRange bm cnt).contains (bm + k) = true
    simp only [List.contains_eq_mem, decide_eq_true_eq]
    rw [mem_bmRange]; omega
  unfold writeBlock
  simp only [bind_def, M.bind, M.get, hmem, ↓reduceIte, M.fail]

/-- the hypotheses of `prodos_bitmap_count_as_written_panics` are satisfiable: a 4096-block disk object (of which only
the first 8 units are spelled out) whose header names block 6 as the first bitmap block -/
example : ∃ d : Disk, St d 6 2 ∧ d.src.bitmapCeil = false ∧ d.total = 4096 * 1 :=
  ⟨{ raw := { unitLen := 512, units := #[[], [], List.replicate 39 0 ++ [6, 0], [], [], [], [], []] }, total := 4096,
     bitmap := none, bitmapBlocks := [], src := asWritten },
   ⟨⟨_, rfl, by decide⟩, by decide, by decide, by intro i hi; rw [mem_bmRange] at hi; show i < 8; omega, Or.inl ⟨rfl, Or.inl rfl⟩⟩, rfl, rfl⟩

/-! ## the on-disk invariant and the bitmap buffer (M1) -/

/-- **`Inv` is decidable and implies a sound reading** (C03, C04): on every image satisfying the invariant the total reader
succeeds, and what it reads is well formed and leak free -/
theorem prodos_inv_reading {r : Raw} (h : Inv r) :
    ∃ v, Read.ProdosT.read r = .ok v ∧ v.wfB = true ∧ v.noLeak = true := inv_reading h

example (r : Raw) : Decidable (Inv r) := inferInstance

/-- **buffer states, opening**: between two calls of the API (`SInv`: buffer closed as after `from_img` / `get_img()`, or open
as after `stat()`), `get_bitmap_buffer` yields the buffer the image holds — `open_bitmap_buffer` loads the `⌈total/4096⌉`
bitmap blocks the volume header names — and leaves the buffer open -/
theorem prodos_open_loads_image {d : Disk} (hs : SInv d) :
    getBitmap d = (.ok (bufOf d.raw (hdrBm d.raw) (nbmOf d.total)), openD d (hdrBm d.raw) (nbmOf d.total)) := by
  rw [getBitmap_st hs.st, hs.eff]

/-- **buffer states, write-back round trip**: what `get_img()` writes into the bitmap blocks (`wbRaw`) is what the next
`open_bitmap_buffer` loads, for every number of bitmap blocks -/
theorem prodos_writeback_round_trip (r : Raw) (bm cnt : Nat) (buf : Array Nat) (hex : ∀ i ∈ bmRange bm cnt, i < r.units.size)
    (hsize : buf.size = blockSize * cnt) : bufOf (wbRaw r bm cnt buf) bm cnt = buf := bufOf_wbRaw r bm cnt buf hex hsize

/-- **buffer states, `get_img()`**: on a disk object between two calls `get_img()` succeeds, leaves the image as it is (an open
buffer equals what the image holds) and ends in an `SInv` state with the buffer closed -/
theorem prodos_get_img_keeps_image {d : Disk} (hs : SInv d) :
    ∃ d', d.flush = (.ok (), d') ∧ d'.raw = d.raw ∧ SInv d' := refused_same hs

/-- **`stat().free_blocks` under the invariant** (C04): the number of units the reader finds free, from either buffer state;
afterwards the buffer is open and the state is an `SInv` state again -/
theorem prodos_stat_free_inv {d : Disk} (hs : SInv d) :
    ∃ v d', Read.ProdosT.read d.raw = .ok v ∧ statFree d = (.ok v.free, d') ∧ SInv d' ∧ d'.raw = d.raw := statFree_sinv hs

/-! ## `delete` (M2/M3 for the volume directory) -/

/-- **`delete` frees exactly the blocks the reader reports as owned — seedling, sapling and tree files** (C04), from either
buffer state: for an entry whose blocks (`ownedOfEntry`: what the model walks) are pairwise different, exist, are no bitmap
blocks and are covered by the buffer, `deallocate_file_blocks` succeeds; a block is free afterwards iff it is one of them or
was free; only the file's index blocks are rewritten (halves swapped); and `ownedOfEntry` **is** the `owned` list the
independent reader reports for that entry (master index block clean) -/
theorem prodos_delete_frees_owned {d : Disk} {bm cnt : Nat} (h : St d bm cnt) (e pfx : Bytes) (total : Nat) (f : FileRec)
    (hst : e.getD 0 0 / 16 = 1 ∨ e.getD 0 0 / 16 = 2 ∨ e.getD 0 0 / 16 = 3)
    (hread : Read.ProdosT.readFile d.raw total e pfx = .ok f)
    (hclean : e.getD 0 0 / 16 = 3 → MasterClean (unitAt d.raw (le16 e 0x11)))
    (hnd : f.owned.Nodup)
    (hall : ∀ x ∈ f.owned, x ∉ bmRange bm cnt ∧ x ≠ 2 ∧ x < d.raw.units.size ∧ x / 8 < (effBuf d bm cnt).size)
    (hok : BytesOk (effBuf d bm cnt)) :
    ∃ d' raw' buf', deallocFileBlocks e d = (.ok (), d') ∧ Next d d' bm cnt raw' buf' ∧
      (∀ j, j ∉ f.owned → raw'.units[j]? = d.raw.units[j]?) ∧
      (∀ j, freeB buf' j = (f.owned.contains j || freeB (effBuf d bm cnt) j)) := by
  have ho := readFile_owned d.raw total e pfx f hread hst hclean
  rw [ho] at hnd hall
  obtain ⟨d', raw', buf', h1, h2, _, h4, _, _, _, h8⟩ := deallocFile_next h e hst hnd hall hok
  exact ⟨d', raw', buf', h1, h2, by rw [ho]; exact h4, by rw [ho]; exact h8⟩

/-- **`delete(path)` refines the abstract `delete`** (C02, C03, C04, C05, C19; files of the volume directory — seedling,
sapling or tree — and sub-directories of it, source as repaired).  `path` has the normal form `[volume, name]`.  From
either buffer state: whatever the outcome (deleted; `PATH NOT FOUND` for a missing or invalid name; `WRITE PROTECTED` for a
file whose destroy bit is clear and for a directory that still holds a file), after `get_img()` the disk object satisfies `SInv` again — the image satisfies `Inv` — and
the readings before and after satisfy every condition of the abstract specification for `delete NAME` with that result: a
refusal changes nothing; a success removes exactly that record, frees exactly its blocks, leaves every other record
identical, and the volume well formed and leak free. -/
theorem prodos_delete_refines {d : Disk} (hs : SInv d) (path nm : Bytes)
    (hnodes : normalizePath (volName (hdrOf d.raw)) path = .ok [volName (hdrOf d.raw), nm]) (hnm : nm ≠ [])
    (hnv : NotVol (volName (hdrOf d.raw)) path) :
    ∃ res d1 d4 v v4, delete path repaired d = (res, d1) ∧ d1.flush = (.ok (), d4) ∧ SInv d4 ∧
      Read.ProdosT.read d.raw = .ok v ∧ Read.ProdosT.read d4.raw = .ok v4 ∧
      stepOk prodosParams v (.delete (upper nm)) (match res with | .ok _ => true | .error _ => false) v4 = true ∧
      v4.label = v.label :=
  delete_refines hs path nm hnodes hnm hnv

/-- the same for a simple relative name (no `/`, 1 to 15 characters): the abstract operation is `delete` of the upper-cased name -/
theorem prodos_delete_refines_name {d : Disk} (hs : SInv d) (name : Bytes) (hne : name ≠ []) (hns : 47 ∉ name) (hl : name.length ≤ 15) :
    ∃ res d1 d4 v v4, delete name repaired d = (res, d1) ∧ d1.flush = (.ok (), d4) ∧ SInv d4 ∧
      Read.ProdosT.read d.raw = .ok v ∧ Read.ProdosT.read d4.raw = .ok v4 ∧
      stepOk prodosParams v (.delete (upper name)) (match res with | .ok _ => true | .error _ => false) v4 = true ∧
      v4.label = v.label := by
  have hn := normalizePath_simple (volName (hdrOf d.raw)) name hne hns hl (volName_len _)
  have hun : upper name ≠ [] := by
    intro h; apply hne; unfold upper at h; exact List.map_eq_nil_iff.mp h
  have := delete_refines hs name (upper name) hn hun (notVol_simple _ name hne hns)
  rw [upper_upper] at this
  exact this

/-! ## `lock`, `unlock`, `retype`, `rename` in the `SInv` framework; histories; corollaries for C02–C05, C19 -/

/-- **`lock(path)` refines the abstract `lock`** (C02, C03, C19): from either buffer state, every outcome, `Inv` preserved -/
theorem prodos_lock_refines_inv {d : Disk} (hs : SInv d) (path nm : Bytes)
    (hnodes : normalizePath (volName (hdrOf d.raw)) path = .ok [volName (hdrOf d.raw), nm]) (hnm : nm ≠ []) :
    Refines d (Fs.Prodos.lock path d) (.lock (upper nm)) := lock_refines' hs path nm hnodes hnm

/-- **`unlock(path)` refines the abstract `unlock`** -/
theorem prodos_unlock_refines_inv {d : Disk} (hs : SInv d) (path nm : Bytes)
    (hnodes : normalizePath (volName (hdrOf d.raw)) path = .ok [volName (hdrOf d.raw), nm]) (hnm : nm ≠ []) :
    Refines d (Fs.Prodos.unlock path d) (.unlock (upper nm)) := unlock_refines' hs path nm hnodes hnm

/-- **`retype(path, type, aux)` refines the abstract `retype`**, including the refused type string / sub-type -/
theorem prodos_retype_refines_inv {d : Disk} (hs : SInv d) (path nm : Bytes) (newType aux : Option Nat)
    (hnodes : normalizePath (volName (hdrOf d.raw)) path = .ok [volName (hdrOf d.raw), nm]) (hnm : nm ≠ [])
    (htb : ∀ t, newType = some t → t < 256) :
    Refines d (Fs.Prodos.retype path newType aux d) (.retype (upper nm)) := retype_refines' hs path nm newType aux hnodes hnm htb

/-- **`lock(DIR/NAME)` refines the abstract `lock`** (C02, C03, C19; file of a first-level sub-directory): from either buffer
state, every outcome (directory or file not found, invalid name, locked), `Inv` preserved; the abstract path is `DIR/NAME` as the
reader lists it -/
theorem prodos_sub_lock_refines {d : Disk} (hs : SInv d) (path dn nm : Bytes)
    (hnodes : normalizePath (volName (hdrOf d.raw)) path = .ok [volName (hdrOf d.raw), dn, nm]) (hnm : nm ≠ []) :
    Refines d (Fs.Prodos.lock path d) (.lock (upper dn ++ [47] ++ upper nm)) := lock_sub_refines' hs path dn nm hnodes hnm

/-- **`unlock(DIR/NAME)` refines the abstract `unlock`** (file of a first-level sub-directory) -/
theorem prodos_sub_unlock_refines {d : Disk} (hs : SInv d) (path dn nm : Bytes)
    (hnodes : normalizePath (volName (hdrOf d.raw)) path = .ok [volName (hdrOf d.raw), dn, nm]) (hnm : nm ≠ []) :
    Refines d (Fs.Prodos.unlock path d) (.unlock (upper dn ++ [47] ++ upper nm)) := unlock_sub_refines' hs path dn nm hnodes hnm

/-- **`retype(DIR/NAME, type, aux)` refines the abstract `retype`** (file of a first-level sub-directory), including the
refused type string / sub-type -/
theorem prodos_sub_retype_refines {d : Disk} (hs : SInv d) (path dn nm : Bytes) (newType aux : Option Nat)
    (hnodes : normalizePath (volName (hdrOf d.raw)) path = .ok [volName (hdrOf d.raw), dn, nm]) (hnm : nm ≠ [])
    (htb : ∀ t, newType = some t → t < 256) :
    Refines d (Fs.Prodos.retype path newType aux d) (.retype (upper dn ++ [47] ++ upper nm)) :=
  retype_sub_refines' hs path dn nm newType aux hnodes hnm htb

/-- **`delete(DIR/NAME)` refines the abstract `delete`** (C02–C05, C19; seedling, sapling or tree file of a first-level
sub-directory): refused — and nothing changed — when the directory or the file is not found, a name is invalid or the file is
protected; otherwise the file's record is gone, exactly its blocks are free, the directory's record and every other record are
as before, the directory's file count is lowered; `Inv` preserved -/
theorem prodos_sub_delete_refines {d : Disk} (hs : SInv d) (path dn nm : Bytes)
    (hnodes : normalizePath (volName (hdrOf d.raw)) path = .ok [volName (hdrOf d.raw), dn, nm]) (hnm : nm ≠ [])
    (hnv : NotVol (volName (hdrOf d.raw)) path) :
    Refines d (delete path repaired d) (.delete (upper dn ++ [47] ++ upper nm)) := delete_sub_refines' hs path dn nm hnodes hnm hnv

/-- **`rename(path, newName)` refines the abstract `rename`** (C02, C03, C05, C19): refused — and nothing changed — for an
invalid new name (`SYNTAX`), a new name some entry of the volume directory already has (`DUPLICATE FILENAME`), a missing
source (`PATH NOT FOUND`), a source whose rename bit is clear (`WRITE PROTECTED`); otherwise the record gets the upper-cased
new name and keeps content, length, blocks, protection; every other record is identical.  The source is not a sub-directory
(`hfile`): renaming a directory renames the paths of the files in it, which the abstract `rename` does not describe -/
theorem prodos_rename_refines {d : Disk} (hs : SInv d) (path nm newName : Bytes)
    (hnodes : normalizePath (volName (hdrOf d.raw)) path = .ok [volName (hdrOf d.raw), nm]) (hnm : nm ≠ [])
    (hnv : NotVol (volName (hdrOf d.raw)) path)
    (hfile : ∀ f, (volOf d.raw).lookup (upper nm) = some f → f.isDir = false) :
    Refines d (Fs.Prodos.rename path newName d) (.rename (upper nm) (upper newName)) :=
  rename_refines' hs path nm newName hnodes hnm hnv (fun ch hic hv => by
    cases hx : (dirSlots d.raw 2 ch).find? (isHit [stSubDirEntry] nm) with
    | none => rfl
    | some x =>
      obtain ⟨f, hf, hd⟩ := dir_hit_lookup hs nm hv ch hic x hx
      have := hfile f hf
      rw [hd] at this; cases this)

/-- **`create(path)` refines the abstract `mkdir`** (C02–C05; directory in the volume directory): refused — and nothing
changed — for an invalid name (`SYNTAX`), a name some entry already has (`DUPLICATE FILENAME`), a full volume directory
(`DIRECTORY FULL`), no free block (`DISK FULL`); otherwise the reading gains the record of an empty directory whose one block
was free, every other record is identical, and the new image satisfies the invariant (the new key block has the standard
geometry and names its parent entry) -/
theorem prodos_mkdir_refines {d : Disk} (hs : SInv d) (path time nm : Bytes) (htime : time.length = 4 ∧ ∀ x ∈ time, x < 256)
    (hnodes : normalizePath (volName (hdrOf d.raw)) path = .ok [volName (hdrOf d.raw), nm]) (hnm : nm ≠ []) :
    Refines d (mkdir path time d) (.mkdir (upper nm)) := mkdir_refines' hs path time nm htime hnodes hnm

/-- **the converse search correspondence** (C05): a valid name that `search_entries` does not find in the volume directory
(among all storage types) is a name the reader does not list -/
theorem prodos_unfound_is_unlisted {r : Raw} (hinv : Inv r) (v : Vol) (fsL : List Read.ProdosT.LRec) (ch : List Nat)
    (hread : Read.ProdosT.read r = .ok v) (htree : Read.ProdosT.readTree r (hdrTotal r) = .ok (fsL, ch)) (nn : Bytes)
    (hv : isNameValid nn = true) (hnone : (dirSlots r 2 ch).find? (isHit allTypes nn) = none) : upper nn ∉ v.paths :=
  path_not_listed hinv v fsL ch hread htree nn hv hnone

/-- **`put(fimg)` refines the abstract `put`** (C01–C05; file of the volume directory: seedling, sapling and tree files,
sparse ones included): whatever the outcome — refused before anything is read, refused
by `prepare_to_write`, refused for lack of space, carried out — after `get_img()` the state is a state between two calls
again and the readings before and after are related by the step the abstract specification allows for `put` with the reported
result; a refused `put` changes nothing -/
theorem prodos_put_refines {d : Disk} (hs : SInv d) (f : FImg) (time nm : Bytes) (pa : PutArgs f time)
    (hnodes : normalizePath (volName (hdrOf d.raw)) f.fullPath = .ok [volName (hdrOf d.raw), nm]) (hnm : nm ≠ []) :
    Refines d (put f time repaired d)
      (.put (upper nm) f.chunks f.eof (f.fsType.getD 0 0) (f.aux.getD 0 0 + 256 * f.aux.getD 1 0)) :=
  put_refines' hs f time nm pa hnodes hnm

/-- **`blocks_needed` counts what `write_file` takes** (C04): the chunks present, one index block when the image has more
than one chunk position, and — when it has more than 256 — the master index block and one index block for every further group
of 256 chunk positions **that holds a chunk** (`grp`: the group numbers of the chunks from position 256 on) -/
theorem prodos_blocks_needed_counts (f : FImg) (hk : (f.chunks.map (·.1)).Pairwise (· < ·)) :
    blocksNeeded f = dataCount f f.end_ + (if f.end_ > 1 then 1 else 0) +
      (if f.end_ > 256 then 1 + distinctCount (grp f f.end_) else 0) := blocksNeeded_eq f hk

/-- the same for at most 256 chunk positions -/
theorem prodos_blocks_needed_small (f : FImg) (hk : (f.chunks.map (·.1)).Pairwise (· < ·)) (h : f.end_ ≤ 256) :
    blocksNeeded f = dataCount f f.end_ + (if f.end_ > 1 then 1 else 0) := blocksNeeded_small f hk h

/-- **C04, acceptance** (`fits-is-accepted`; volume directory): a valid name that is not listed, a free slot in the
volume directory, and `blocks_needed(fimg)` — data blocks, index blocks of the groups that hold data, master index block — not
above the number of free blocks: `put` returns `Ok`, the step is the abstract `put`, and the free list shrinks by **exactly**
`blocks_needed(fimg)` (so `write_file` takes neither more nor fewer blocks than were asked for) -/
theorem prodos_fits_is_accepted {d : Disk} (hs : SInv d) (v : Vol) (fsL : List Read.ProdosT.LRec) (ch : List Nat)
    (hr : Read.ProdosT.read d.raw = .ok v) (ht : Read.ProdosT.readTree d.raw (hdrTotal d.raw) = .ok (fsL, ch))
    (f : FImg) (time nm : Bytes) (pk : PutOk f time)
    (hnodes : normalizePath (volName (hdrOf d.raw)) f.fullPath = .ok [volName (hdrOf d.raw), nm]) (hnm : nm ≠ [])
    (hv : isNameValid nm = true)
    (hnone : (dirSlots d.raw 2 ch).find? (isHit allTypes nm) = none)
    (x : Bytes × Nat × Nat) (hslot : (dirSlots d.raw 2 ch).find? isFreeSlot = some x)
    (hfit : blocksNeeded f ≤ v.freeUnits.length) :
    ∃ d3 d4 v4, put f time repaired d = (.ok f.eof, d3) ∧ d3.flush = (.ok (), d4) ∧ SInv d4 ∧
      Read.ProdosT.read d4.raw = .ok v4 ∧
      stepOk prodosParams v (.put (upper nm) f.chunks f.eof (f.fsType.getD 0 0) (f.aux.getD 0 0 + 256 * f.aux.getD 1 0)) true v4 = true ∧
      v4.label = v.label ∧ v4.freeUnits.length + blocksNeeded f = v.freeUnits.length :=
  put_ok hs v fsL ch hr ht f time nm pk hnodes hnm hv hnone x hslot hfit

/-- **Refinement, one step** (volume-directory operations `put`, `mkdir`, `delete`, `rename` of a file, `lock`, `unlock`,
`retype`; `delete`, `lock`, `unlock`, `retype` of a file of a first-level sub-directory) -/
theorem prodos_step_refines {d : Disk} (hs : SInv d) (op : VOp) (hroot : op.Ok (volName (hdrOf d.raw)))
    (hren : ∀ p n, op = .rename p n → ∀ f, (volOf d.raw).lookup (nameOf (volName (hdrOf d.raw)) p) = some f → f.isDir = false) :
    SInv (op.exec d).2 ∧
    stepOk prodosParams (volOf d.raw) (op.abs (volName (hdrOf d.raw))) (op.exec d).1 (volOf (op.exec d).2.raw) = true ∧
    volName (hdrOf (op.exec d).2.raw) = volName (hdrOf d.raw) := step_refines hs op hroot hren

/-- **Refinement, histories**: every history of operations on the volume directory and on files of first-level sub-directories
(`VOp.Ok`) from an `SInv` state in which `rename` is applied
to files only (`RenFiles`; `renFiles_of_no_rename`) is a valid trace of the abstract specification, ends in an `SInv` state,
and its final reading is the reading of the final image -/
theorem prodos_history_refines (ops : List VOp) (d : Disk) (hs : SInv d) (hroot : ∀ op ∈ ops, op.Ok (volName (hdrOf d.raw)))
    (hren : RenFiles (volName (hdrOf d.raw)) d ops) :
    validFrom prodosParams (volOf d.raw) (trace (volName (hdrOf d.raw)) d ops) ∧ SInv (finalDisk d ops) ∧
    finalVol (volOf d.raw) (trace (volName (hdrOf d.raw)) d ops) = volOf (finalDisk d ops).raw := history_refines ops d hs hroot hren

/-- C02 for the concrete model: a file that no operation of the history names is found identical (content, length, type,
flags, blocks) in the reading of the final image -/
theorem prodos_bystanders_survive (ops : List VOp) (d : Disk) (hs : SInv d) (hroot : ∀ op ∈ ops, op.Ok (volName (hdrOf d.raw)))
    (hren : RenFiles (volName (hdrOf d.raw)) d ops) {q : Bytes} {g : FileRec} (hg : (volOf d.raw).lookup q = some g) (hd : g.isDir = false)
    (hq : ∀ op ∈ ops, q ∉ (op.abs (volName (hdrOf d.raw))).targets) :
    (volOf (finalDisk d ops).raw).lookup q = some g := by
  obtain ⟨hv, _, heq⟩ := history_refines ops d hs hroot hren
  have := C02.bystanders_survive_history hv (fun s hs' => by
    obtain ⟨op, ho, e⟩ := mem_trace hs'
    rw [e]; exact hq op ho) hg hd
  rw [heq] at this
  exact this

/-- C03 for the concrete model: the image after **every** step of every history, successful or refused, is read by the
total reader as a well-formed volume, and satisfies `Inv` at the end -/
theorem prodos_states_well_formed (ops : List VOp) (d : Disk) (hs : SInv d) (hroot : ∀ op ∈ ops, op.Ok (volName (hdrOf d.raw)))
    (hren : RenFiles (volName (hdrOf d.raw)) d ops) :
    (∀ s ∈ trace (volName (hdrOf d.raw)) d ops, s.post.wfB = true) ∧ Inv (finalDisk d ops).raw := by
  obtain ⟨hv, hfin, _⟩ := history_refines ops d hs hroot hren
  exact ⟨C03.every_state_well_formed hv, hfin.inv⟩

/-- C04 for the concrete model: after every history `free + owned + system = size` in the reading of the final image -/
theorem prodos_free_accounting (ops : List VOp) (d : Disk) (hs : SInv d) (hroot : ∀ op ∈ ops, op.Ok (volName (hdrOf d.raw)))
    (hren : RenFiles (volName (hdrOf d.raw)) d ops) :
    (volOf (finalDisk d ops).raw).free + (volOf (finalDisk d ops).raw).allOwned.length + (volOf (finalDisk d ops).raw).sys.length =
      (volOf (finalDisk d ops).raw).hi - (volOf (finalDisk d ops).raw).lo := by
  obtain ⟨_, hfin, _⟩ := history_refines ops d hs hroot hren
  obtain ⟨v, fsL, ch, hr, ht, _⟩ := hfin.ctx
  obtain ⟨hw, hn, _, hv, _, _, _, hchf, _, h6, h3, hbt, _⟩ := root_chain_facts hfin.inv v fsL ch hr ht
  rw [volOf_eq hr]
  apply C04.free_accounting hw hn
  intro u hu
  rw [hv] at hu ⊢
  simp only [List.mem_append, List.mem_cons, List.mem_map, List.mem_range, List.not_mem_nil, or_false] at hu
  simp only
  rcases hu with ((rfl | rfl) | hc) | ⟨k, hk, rfl⟩
  · omega
  · omega
  · exact ⟨Nat.zero_le _, (hchf u hc).1⟩
  · omega

/-- C05 for the concrete model: the names the reader lists after a history are the fold of the history over the initial
listing, and they are pairwise different -/
theorem prodos_listing_is_history_fold (ops : List VOp) (d : Disk) (hs : SInv d) (hroot : ∀ op ∈ ops, op.Ok (volName (hdrOf d.raw)))
    (hren : RenFiles (volName (hdrOf d.raw)) d ops) (q : Bytes) :
    (q ∈ (volOf (finalDisk d ops).raw).paths ↔ q ∈ foldPaths (volOf d.raw).paths (trace (volName (hdrOf d.raw)) d ops)) ∧
    (volOf (finalDisk d ops).raw).paths.Nodup := by
  obtain ⟨hv, hfin, heq⟩ := history_refines ops d hs hroot hren
  have := C05.listing_is_history_fold' hv q
  rw [heq] at this
  obtain ⟨v, hr, hw, _⟩ := inv_reading hfin.inv
  exact ⟨this, by rw [volOf_eq hr]; exact wfB_paths_nodup hw⟩

/-- C19 for the concrete model: a protected file survives every history in which nobody locks, unlocks or retypes it —
identical content, length, type, flags and blocks at the end — and every delete or rename attempted on it was refused -/
theorem prodos_locked_file_survives (ops : List VOp) (d : Disk) (hs : SInv d) (hroot : ∀ op ∈ ops, op.Ok (volName (hdrOf d.raw)))
    (hren : RenFiles (volName (hdrOf d.raw)) d ops) {q : Bytes} {g : FileRec} (hg : (volOf d.raw).lookup q = some g) (hl : g.locked = true) (hd : g.isDir = false)
    (hop : ∀ op ∈ ops, op.abs (volName (hdrOf d.raw)) ≠ .lock q ∧ op.abs (volName (hdrOf d.raw)) ≠ .unlock q ∧
      op.abs (volName (hdrOf d.raw)) ≠ .retype q) :
    (volOf (finalDisk d ops).raw).lookup q = some g ∧
    ∀ s ∈ trace (volName (hdrOf d.raw)) d ops, (s.op = .delete q ∨ ∃ r, s.op = .rename q r) → s.ok = false := by
  obtain ⟨hv, _, heq⟩ := history_refines ops d hs hroot hren
  have hop' : ∀ s ∈ trace (volName (hdrOf d.raw)) d ops, s.op ≠ .lock q ∧ s.op ≠ .unlock q ∧ s.op ≠ .retype q := by
    intro s hs'
    obtain ⟨op, ho, e⟩ := mem_trace hs'
    rw [e]; exact hop op ho
  have h1 := C19.protected_file_survives hv hg hl hd hop'
  rw [heq] at h1
  refine ⟨h1, fun s hs' hatt => ?_⟩
  apply C19.attempts_on_protected_file_refused hv hg hl hd hop' s hs'
  rcases hatt with h | ⟨r, h⟩
  · exact Or.inl h
  · exact Or.inr (Or.inl ⟨r, h⟩)

/-- C01 for the concrete model: a file stored by an accepted `put` is read back — chunk for chunk, with its length, type
and auxiliary type — from the image at the end of **any** history of volume-directory operations that do not name it -/
theorem prodos_get_returns_last_put (f : FImg) (t : Bytes) (ops : List VOp) (d : Disk) (hs : SInv d)
    (hroot : ∀ op ∈ VOp.put f t :: ops, op.Ok (volName (hdrOf d.raw)))
    (hren : RenFiles (volName (hdrOf d.raw)) d (VOp.put f t :: ops))
    (hok : ((VOp.put f t).exec d).1 = true)
    (hq : ∀ op ∈ ops, nameOf (volName (hdrOf d.raw)) f.fullPath ∉ (op.abs (volName (hdrOf d.raw))).targets) :
    ∃ g, (volOf (finalDisk d (VOp.put f t :: ops)).raw).lookup (nameOf (volName (hdrOf d.raw)) f.fullPath) = some g ∧
      chunksMatch f.chunks g.chunks = true ∧ g.eof = f.eof ∧ g.isDir = false ∧ g.ftype = f.fsType.getD 0 0 ∧
      g.aux = f.aux.getD 0 0 + 256 * f.aux.getD 1 0 := by
  obtain ⟨h1, h2, h3⟩ := step_refines hs (.put f t) (hroot _ List.mem_cons_self) hren.1
  rw [hok] at h2
  obtain ⟨hv, _, heq⟩ := history_refines ops ((VOp.put f t).exec d).2 h1
    (fun o ho => by rw [h3]; exact hroot o (List.mem_cons_of_mem _ ho)) (by rw [h3]; exact hren.2)
  rw [h3] at hv heq
  obtain ⟨g, hg, _, hc, he, hd, hty, hax⟩ := C01.get_returns_last_put h2 hv (fun s hs' => by
    obtain ⟨op, ho, e⟩ := mem_trace hs'
    rw [e]; exact hq op ho)
  rw [heq] at hg
  exact ⟨g, hg, hc, he, hd, hty rfl, hax rfl⟩

end A2Verif.FsProdos
