import A2Verif.Lemmas.FsProdosFree
import A2Verif.Lemmas.FsProdosModify
import A2Verif.Model.Read.ProdosT
import A2Verif.Model.VolSpec
/-!
# The concrete ProDOS model (`Model/Fs/Prodos.lean`): what is proved about it

The model is a transcription of a2kit's ProDOS module, tied byte for byte to the real code after every operation of
every generated history (`Drv/FsProdos.lean`, `harness/src/fam/fs_prodos.rs`).  This file collects the theorems about
it.  **The refinement to the abstract volume specification (`Inv`, `step_refines`, `history_refines` as for the Pascal
model) is not proved for ProDOS**; what is proved, for all inputs:

* the allocator: `allocate_block`/`deallocate_block` flip exactly one bit, `num_free_blocks` counts the blocks marked
  free, `get_available_block` is first fit — sound and complete (`prodos_first_fit_sound`, `prodos_first_fit_complete`:
  the allocator half of the C04 acceptance clause);
* `stat().free_blocks` is the length of the free list the independent reader extracts from the same image
  (`prodos_stat_free_is_reading`);
* `lock`, `unlock`, `retype` (through `modify`) rewrite exactly one directory entry and clear that block's bitmap bit,
  the access byte `lock` stores is one the reader calls locked, the byte `unlock` stores one it calls unlocked
  (`prodos_lock_writes_one_entry`, …);

and, evaluated in the kernel on a small volume (`Props/FsProdosExamples.lean`), that `format` establishes the invariant
`InvB` and that short histories (sparse put; put, lock, refused delete) are valid traces of the abstract specification
under the **total** reader `Read.ProdosT.read`.
-/
namespace A2Verif.FsProdos
open A2Verif.Fs.Prodos

/-- the parameters of the abstract specification for ProDOS (as `Drv/Fs.lean::fsParams "prodos"`) -/
def prodosParams : FsParams := { eofRule := id, keepsType := true, keepsAux := true, hasLock := true }

/-- the on-disk invariant, as a decidable check: every unit is a block, the total reader reads the image, the reading
is well formed (C03) and leak free (C04) -/
def InvB (r : Raw) : Bool :=
  r.units.all (fun u => u.length == 512) &&
  (match Read.ProdosT.read r with
   | .ok v => v.wfB && v.noLeak
   | .error _ => false)

/-- the reading of an image (the empty volume where it cannot be read) -/
def volOf (r : Raw) : Vol :=
  match Read.ProdosT.read r with
  | .ok v => v
  | .error _ => { lo := 0, hi := 0, sys := [], files := [], freeUnits := [] }

/-- concrete operations, with the arguments the a2kit API takes -/
inductive COp where
  | put (path : Bytes) (ftype aux access : Nat) (eof : Nat) (chunks : List (Nat × Bytes))
  | delete (path : Bytes)
  | rename (path newName : Bytes)
  | lock (path : Bytes)
  | unlock (path : Bytes)
  | retype (path : Bytes) (ftype aux : Nat)
  | mkdir (path : Bytes)

/-- the operation of the abstract specification (`cp`: the canonical path of the target, `cq` of a rename's new name) -/
def COp.abs (cp cq : Bytes) : COp → FsOp
  | .put _ ft aux _ eof cs => .put cp cs eof ft aux
  | .delete _ => .delete cp
  | .rename _ _ => .rename cp cq
  | .lock _ => .lock cp
  | .unlock _ => .unlock cp
  | .retype _ _ _ => .retype cp
  | .mkdir _ => .mkdir cp

def okOf {α : Type} (x : R α × Disk) : Bool × Disk :=
  match x with
  | (.ok _, d) => (true, d)
  | (.error _, d) => (false, d)

/-- one concrete operation followed by the write-back `get_img()` performs -/
def COp.run (time : Bytes) (op : COp) (d : Disk) : Bool × Disk :=
  let (ok, d') := match op with
    | .put p ft aux acc eof cs => okOf (Fs.Prodos.put { fullPath := p, fsType := [ft], aux := u16le aux, access := [acc], eof := eof, chunks := cs } time {} d)
    | .delete p => okOf (Fs.Prodos.delete p {} d)
    | .rename p n => okOf (Fs.Prodos.rename p n d)
    | .lock p => okOf (Fs.Prodos.lock p d)
    | .unlock p => okOf (Fs.Prodos.unlock p d)
    | .retype p t a => okOf (Fs.Prodos.retype p (some t) (some a) d)
    | .mkdir p => okOf (Fs.Prodos.mkdir p time d)
  (ok, d'.flush.2)

/-- one step of a history is a transition the abstract specification allows, ends in an `InvB` image, and has the
expected result -/
def stepRefines (time : Bytes) (cp cq : Bytes) (op : COp) (expectOk : Bool) (d : Disk) : Bool × Disk :=
  let (ok, d') := op.run time d
  (stepOk prodosParams (volOf d.raw) (op.abs cp cq) ok (volOf d'.raw) && InvB d'.raw && ok == expectOk, d')

def historyRefines (time : Bytes) : List (Bytes × Bytes × COp × Bool) → Disk → Bool
  | [], _ => true
  | (cp, cq, op, expectOk) :: rest, d =>
    let (good, d') := stepRefines time cp cq op expectOk d
    good && historyRefines time rest d'

/-! ## a small volume in the kernel -/

def blank (n : Nat) : Disk :=
  { raw := { unitLen := 512, units := Array.replicate n (List.replicate 512 0) }, total := n, bitmap := none, bitmapBlocks := [] }

def exTime : Bytes := [33, 0, 0, 0]

/-- `format("VERIF", …)` of a blank image of `n` blocks, written back -/
def formatted (n : Nat) : Disk := ((format [86, 69, 82, 73, 70] (zeros 512) exTime (blank n)).2.flush).2

def chunkOf (v n : Nat) : Bytes := List.replicate n v

/-! ## the theorems, under the names registered in `obligations/` -/

/-- **allocator, effect of `allocate_block`** (C03/C04): on an open buffer that covers block `i`, afterwards exactly
block `i` has become "not free"; every other block keeps its mark; nothing else of the disk changes -/
theorem prodos_allocate_clears_one_bit (d : Disk) (buf : Array Nat) (i : Nat) (h : BufOpen d buf) (hi : i / 8 < buf.size) :
    allocate i d = (.ok (), { d with bitmap := some (clearBit buf i) }) ∧
    ∀ j, freeB (clearBit buf i) j = (if j = i then false else freeB buf j) :=
  ⟨allocate_open d buf i h.isOpen hi, fun j => freeB_clearBit buf i j h.bytes hi⟩

/-- **allocator, effect of `deallocate_block`**: exactly block `i` becomes free -/
theorem prodos_deallocate_sets_one_bit (d : Disk) (buf : Array Nat) (i : Nat) (h : BufOpen d buf) (hi : i / 8 < buf.size) :
    deallocate i d = (.ok (), { d with bitmap := some (setBit buf i) }) ∧
    ∀ j, freeB (setBit buf i) j = (if j = i then true else freeB buf j) :=
  ⟨deallocate_open d buf i h.isOpen hi, fun j => freeB_setBit buf i j h.bytes hi⟩

/-- **`num_free_blocks` is the number of blocks marked free** (C04) -/
theorem prodos_num_free_is_count (d : Disk) (buf : Array Nat) (h : BufOpen d buf) :
    numFreeBlocks d = (.ok (freeBlocks buf d.total).length, d) := numFreeBlocks_open d buf h

/-- **first fit is sound**: the block `get_available_block` returns lies in the volume, is marked free, and no smaller
block is (the allocation order the byte-exact tie depends on) -/
theorem prodos_first_fit_sound (d : Disk) (buf : Array Nat) (h : BufOpen d buf) (ht : d.total ≤ 65536) (b : Nat)
    (hr : getAvailableBlock d = (.ok (some b), d)) :
    b < d.total ∧ freeB buf b = true ∧ ∀ j, j < b → freeB buf j = false := getAvailableBlock_sound d buf h ht b hr

/-- **first fit is complete**: if any block of the volume is marked free, one is found -/
theorem prodos_first_fit_complete (d : Disk) (buf : Array Nat) (h : BufOpen d buf) (c : Nat) (hc : c < d.total)
    (hfree : freeB buf c = true) : ∃ b, getAvailableBlock d = (.ok (some b), d) := getAvailableBlock_complete d buf h c hc hfree

/-- **C04 acceptance clause, allocator half** (`prodos_fits_is_accepted` is *partial*).
Full statement, not proved: *for an image satisfying the invariant, a valid fresh path whose parent exists, a file
image with `blocks_needed f ≤ free` and (if the parent directory is full) one block more, `put` returns `Ok`.*
Proved here: whenever `num_free_blocks` reports a positive count, `get_available_block` returns a block — the
allocator never answers "disk full" while the count `put` checked against is positive, and (`prodos_allocate_clears_one_bit`,
`prodos_num_free_is_count`) each allocation lowers that count by exactly one.  Missing: the walk through `write_file`
showing that `blocks_needed` is the number of allocations it performs (checked by the tie and by the oracle
`fits-is-accepted` on every generated put, including sizes at the index-structure boundaries). -/
theorem prodos_fits_is_accepted_partial (d : Disk) (buf : Array Nat) (h : BufOpen d buf) (n : Nat)
    (hn : numFreeBlocks d = (.ok n, d)) (hpos : 0 < n) : ∃ b, getAvailableBlock d = (.ok (some b), d) := by
  rw [numFreeBlocks_open d buf h] at hn
  have hlen : (freeBlocks buf d.total).length = n := by injection hn with h1 _; injection h1
  have hne : freeBlocks buf d.total ≠ [] := by intro he; rw [he] at hlen; simp at hlen; omega
  obtain ⟨c, hc⟩ := List.exists_mem_of_ne_nil _ hne
  have hc' := List.mem_filter.mp hc
  exact getAvailableBlock_complete d buf h c (List.mem_range.mp hc'.1) hc'.2

theorem count_without (p : Nat → Bool) (i : Nat) : ∀ n : Nat,
    ((List.range n).filter (fun j => p j && !(j == i))).length + (if i < n ∧ p i = true then 1 else 0)
      = ((List.range n).filter p).length
  | 0 => by simp
  | n + 1 => by
    have ih := count_without p i n
    rw [List.range_succ, List.filter_append, List.filter_append, List.length_append, List.length_append]
    by_cases hni : n = i
    · subst hni
      have h1 : ¬ (n < n ∧ p n = true) := by omega
      rw [if_neg h1] at ih
      cases hp : p n <;> simp [hp] <;> omega
    · have h2 : (i < n + 1 ∧ p i = true) ↔ (i < n ∧ p i = true) := by
        constructor
        · intro h; exact ⟨by omega, h.2⟩
        · intro h; exact ⟨by omega, h.2⟩
      simp only [h2]
      cases hp : p n <;> simp [hp, hni] <;> omega

/-- an allocation lowers the free count by exactly one when the block was free (and not at all when it was not) -/
theorem prodos_allocate_lowers_count (buf : Array Nat) (total i : Nat) (hok : BytesOk buf) (hi : i / 8 < buf.size) (hit : i < total) :
    (freeBlocks (clearBit buf i) total).length + (if freeB buf i = true then 1 else 0) = (freeBlocks buf total).length := by
  unfold freeBlocks
  have hfun : ∀ j, freeB (clearBit buf i) j = (freeB buf j && !(j == i)) := by
    intro j; rw [freeB_clearBit buf i j hok hi]
    by_cases h : j = i
    · simp [h]
    · simp [h]
  rw [List.filter_congr (fun j _ => hfun j)]
  have := count_without (freeB buf) i total
  by_cases hf : freeB buf i = true
  · simp only [hit, hf, and_self, if_true] at this ⊢; exact this
  · have hf' : freeB buf i = false := by simpa using hf
    simp [hf'] at this ⊢; exact this

/-- **`stat().free_blocks` is the length of the independent reader's free list** (C04: the count a2kit reports is the
count an independent reading of the saved image gives) -/
theorem prodos_stat_free_is_reading (d : Disk) (kb : Bytes)
    (hclosed : d.bitmap = none) (hnb : d.bitmapBlocks.contains volKeyBlock = false)
    (hkb : d.raw.units[2]? = some kb)
    (hcnt : (d.total + 4095) / 4096 = bitmapBlockCount d.total)
    (hblk : ∀ k, k < bitmapBlockCount d.total →
      le16 kb 39 + k < d.raw.units.size ∧ (unitAt d.raw (le16 kb 39 + k)).length = 512 ∧ ∀ x ∈ unitAt d.raw (le16 kb 39 + k), x < 256) :
    ∃ fr, Read.Prodos.bitmapFree d.raw (le16 kb 39) d.total = .ok fr ∧ (statFree d).1 = .ok fr.length :=
  statFree_eq_reader_free d kb hclosed hnb hkb hcnt hblk

/-- **`lock` writes one entry** (C02 frame, C19): found at `loc`, the file's entry gets the access byte `lockAcc`, which
the independent reader calls locked; every other unit of the image is the same object as before -/
theorem prodos_lock_writes_one_entry (d : Disk) (buf : Array Nat) (path : Bytes) (loc : Loc) (blk : Bytes)
    (hfind : findFile path d = (.ok loc, d))
    (hnb : d.bitmapBlocks.contains loc.block = false) (hblk : d.raw.units[loc.block]? = some blk)
    (hidx : Dir.idxOk { kind := kindOf loc.block blk, bytes := blk.take dirLen } loc.idx = true)
    (hopen : d.bitmap = some buf) (hcov : loc.block / 8 < buf.size) :
    ∃ d', lock path d = (.ok (), d') ∧
      d'.raw = setUnit d.raw loc.block (blockWithEntry blk loc.idx
        (Ent.setAccess (slice (blk.take dirLen) (Dir.entryOff loc.idx) entryLen)
          (lockAcc (Ent.access (slice (blk.take dirLen) (Dir.entryOff loc.idx) entryLen))))) ∧
      (∀ j, j ≠ loc.block → d'.raw.units[j]? = d.raw.units[j]?) ∧ d'.bitmap = some (clearBit buf loc.block) :=
  ⟨_, lock_spec d buf path loc blk hfind hnb hblk hidx hopen hcov, rfl, fun _ hj => setUnit_other _ _ _ _ (Ne.symm hj), rfl⟩

/-- **`unlock` writes one entry**: the access byte becomes `unlockAcc`, which the reader calls unlocked -/
theorem prodos_unlock_writes_one_entry (d : Disk) (buf : Array Nat) (path : Bytes) (loc : Loc) (blk : Bytes)
    (hfind : findFile path d = (.ok loc, d))
    (hnb : d.bitmapBlocks.contains loc.block = false) (hblk : d.raw.units[loc.block]? = some blk)
    (hidx : Dir.idxOk { kind := kindOf loc.block blk, bytes := blk.take dirLen } loc.idx = true)
    (hopen : d.bitmap = some buf) (hcov : loc.block / 8 < buf.size) :
    ∃ d', unlock path d = (.ok (), d') ∧
      d'.raw = setUnit d.raw loc.block (blockWithEntry blk loc.idx
        (Ent.setAccess (slice (blk.take dirLen) (Dir.entryOff loc.idx) entryLen)
          (unlockAcc (Ent.access (slice (blk.take dirLen) (Dir.entryOff loc.idx) entryLen))))) ∧
      (∀ j, j ≠ loc.block → d'.raw.units[j]? = d.raw.units[j]?) ∧ d'.bitmap = some (clearBit buf loc.block) :=
  ⟨_, unlock_spec d buf path loc blk hfind hnb hblk hidx hopen hcov, rfl, fun _ hj => setUnit_other _ _ _ _ (Ne.symm hj), rfl⟩

/-- **`retype` writes one entry**: type byte and aux field -/
theorem prodos_retype_writes_one_entry (d : Disk) (buf : Array Nat) (path : Bytes) (t a : Nat) (loc : Loc) (blk : Bytes)
    (hfind : findFile path d = (.ok loc, d))
    (hnb : d.bitmapBlocks.contains loc.block = false) (hblk : d.raw.units[loc.block]? = some blk)
    (hidx : Dir.idxOk { kind := kindOf loc.block blk, bytes := blk.take dirLen } loc.idx = true)
    (hopen : d.bitmap = some buf) (hcov : loc.block / 8 < buf.size) :
    ∃ d', retype path (some t) (some a) d = (.ok (), d') ∧
      d'.raw = setUnit d.raw loc.block (blockWithEntry blk loc.idx
        (Ent.setAux (Ent.setFtype (slice (blk.take dirLen) (Dir.entryOff loc.idx) entryLen) t) a)) ∧
      (∀ j, j ≠ loc.block → d'.raw.units[j]? = d.raw.units[j]?) :=
  ⟨_, retype_spec d buf path t a loc blk hfind hnb hblk hidx hopen hcov, rfl, fun _ hj => setUnit_other _ _ _ _ (Ne.symm hj)⟩

/-- **protection bytes** (C19): what `lock` stores the independent reader calls locked, what `unlock` stores it calls
unlocked, and an entry the reader calls unlocked passes the tests of `delete` (destroy bit) and `rename` (rename bit) -/
theorem prodos_protection_bytes :
    (∀ a : Fin 256, readerLocked (lockAcc a.val) = true) ∧ (∀ a : Fin 256, readerLocked (unlockAcc a.val) = false) ∧
    (∀ a : Fin 256, readerLocked a.val = false → (a.val &&& 0x80 ≠ 0 ∧ a.val &&& 0x40 ≠ 0)) :=
  ⟨fun a => (lockAcc_locked a).1, fun a => (unlockAcc_unlocked a).1, unlocked_passes_tests⟩

end A2Verif.FsProdos
