import A2Verif.Props.C12Woz
/-!
# C12, nibble track access: the theorems about the gates **as they are in the source now**

Kept apart from `Props/C12Woz.lean` so that the unconditional theorems there keep checking when a guard changes.
-/
namespace A2Verif.C12Woz
open A2Verif.Model.Robust

/-! ## the code as it is now (flags of `Gen.C12Flags`, translator/gen_c12.py) -/

/-- **now**: `Woz1::get_trk_ref` bounds the bit count by the bit buffer, so `woz1_track_access_no_panic` and
`woz1FromBytes_no_panic` are about the current source (the translator also checks `TrackBits::next`, `shift_fwd`,
`new_rw_obj` against the modelled text and that `Trk.bits` is the fixed 6646-byte array) -/
theorem woz1_track_access_no_panic_now (bytesUsed bitCount head : Nat) (buf : List Nat) (ops : List Op) :
    woz1TrackAccess woz1GuardNow bytesUsed bitCount Gen.C12Flags.woz1TrackByteCapacity head ops ≠ .panic ∧
    woz1TrackAccess woz1GuardNow bytesUsed bitCount Gen.C12Flags.woz1TrackByteCapacity head ops ≠ .hang ∧
    woz1FromBytes woz1GuardNow buf ops ≠ .panic ∧ woz1FromBytes woz1GuardNow buf ops ≠ .hang ∧
    Gen.C12Flags.woz1TrackByteCapacity = woz1BufLen := by
  have h : woz1GuardNow = .buffer := by decide
  rw [h]
  exact ⟨(woz1_track_access_no_panic _ _ _ _ _).1, (woz1_track_access_no_panic _ _ _ _ _).2,
    (woz1FromBytes_no_panic _ _).1, (woz1FromBytes_no_panic _ _).2, by decide⟩

/-- **now**: `Woz2::get_trk_bits_rng` has both range tests and `Nib::new_rw_obj` takes the bit count from the slice length -/
theorem woz2_nib_track_access_no_panic_now (startBlock blockCount bitCount offset bitsLen head trkCap : Nat) (hc : 0 < trkCap) (ops : List Op) :
    woz2TrackAccess Gen.C12Flags.woz2TrkRangeGuard startBlock blockCount bitCount offset bitsLen head ops ≠ .panic ∧
    woz2TrackAccess Gen.C12Flags.woz2TrkRangeGuard startBlock blockCount bitCount offset bitsLen head ops ≠ .hang ∧
    Gen.C12Flags.nibBitCountIsCapacity = true ∧ nibTrackAccess trkCap head ops ≠ .panic := by
  have h : Gen.C12Flags.woz2TrkRangeGuard = true := by decide
  rw [h]
  have w := woz2_track_access_no_panic startBlock blockCount bitCount offset bitsLen head ops
  exact ⟨w.1, w.2.1, by decide, (nib_track_access_no_panic trkCap head hc ops).1⟩

end A2Verif.C12Woz
