import A2Verif.Lemmas.VolSpec
/-!
# C05 — directory listings agree with the operation history

`Vol.paths` is the listing the independent reader finds (the harness compares a2kit's catalog, glob and
tree with it and with its own reference map); `applyPaths`/`foldPaths` (`Model/VolTrace.lean`) is the
abstract effect of a history on the set of stored names.  Here: the per-step conditions force the listing
to follow that fold for histories of any length, duplicates can only be refused, a refusal changes nothing,
and names are always unique.
-/
namespace A2Verif.C05

/-- C05 ("each of them can be fetched, and no other path can"): a path is listed iff a lookup finds an entry,
and the entry found carries that path. -/
theorem listed_iff_fetchable {v : Vol} {q : Bytes} :
    q ∈ v.paths ↔ ∃ f, v.lookup q = some f ∧ f.path = q := by
  rw [mem_paths_iff]
  constructor
  · intro h
    cases hl : v.lookup q with
    | none => rw [hl] at h; cases h
    | some f => exact ⟨f, rfl, (lookup_some hl).2⟩
  · rintro ⟨f, hf, _⟩; rw [hf]; rfl

/-- C05, accepted `put`: the listing gains exactly the stored path. -/
theorem put_listing {P : FsParams} {pre post : Vol} {p : Bytes} {cs : List (Nat × Bytes)} {eof ty aux : Nat}
    (h : stepOk P pre (.put p cs eof ty aux) true post = true) (q : Bytes) :
    q ∈ post.paths ↔ q = p ∨ q ∈ pre.paths := by
  obtain ⟨hn, ⟨f, hf, _⟩, _⟩ := stepOk_put h
  by_cases hq : q = p
  · subst hq; exact ⟨fun _ => Or.inl rfl, fun _ => mem_paths_of_lookup hf⟩
  · rw [stepOk_bystander_path h (by simpa [FsOp.targets] using hq)]
    simp [hq]

/-- C05, accepted `mkdir`: the listing gains exactly the new directory. -/
theorem mkdir_listing {P : FsParams} {pre post : Vol} {p : Bytes}
    (h : stepOk P pre (.mkdir p) true post = true) (q : Bytes) :
    q ∈ post.paths ↔ q = p ∨ q ∈ pre.paths := by
  obtain ⟨hn, ⟨f, hf, _⟩, _⟩ := stepOk_mkdir h
  by_cases hq : q = p
  · subst hq; exact ⟨fun _ => Or.inl rfl, fun _ => mem_paths_of_lookup hf⟩
  · rw [stepOk_bystander_path h (by simpa [FsOp.targets] using hq)]
    simp [hq]

/-- C05, successful `delete`: the listing loses exactly the deleted path. -/
theorem delete_listing {P : FsParams} {pre post : Vol} {p : Bytes}
    (h : stepOk P pre (.delete p) true post = true) (q : Bytes) :
    q ∈ post.paths ↔ q ≠ p ∧ q ∈ pre.paths := by
  obtain ⟨_, hgone, _⟩ := stepOk_delete h
  by_cases hq : q = p
  · subst hq
    exact ⟨fun hm => absurd hgone (by rw [← not_mem_paths_iff]; exact fun hn => hn hm), fun hc => absurd rfl hc.1⟩
  · rw [stepOk_bystander_path h (by simpa [FsOp.targets] using hq)]
    simp [hq]

/-- C05, successful `rename p q`: the listing loses `p` and gains `q`, nothing else. -/
theorem rename_listing {P : FsParams} {pre post : Vol} {p q : Bytes}
    (h : stepOk P pre (.rename p q) true post = true) (r : Bytes) :
    r ∈ post.paths ↔ r = q ∨ (r ≠ p ∧ r ∈ pre.paths) := by
  obtain ⟨⟨f, g, hf, hg, _⟩, _, hsrc, _⟩ := stepOk_rename h
  by_cases hrq : r = q
  · subst hrq; exact ⟨fun _ => Or.inl rfl, fun _ => mem_paths_of_lookup hg⟩
  · by_cases hrp : r = p
    · subst hrp
      constructor
      · intro hm
        rcases hsrc with e | e
        · exact absurd e hrq
        · exact absurd e (by rw [← not_mem_paths_iff]; exact fun hn => hn hm)
      · rintro (e | ⟨e, _⟩)
        · exact absurd e hrq
        · exact absurd rfl e
    · rw [stepOk_bystander_path h (by simp [FsOp.targets, hrp, hrq])]
      simp [hrq, hrp]

/-- C05, every step that is not a successful put/mkdir/delete/rename — lock, unlock, retype, a query, and
EVERY refused operation — leaves the listing as it was. -/
theorem unchanged_listing {P : FsParams} {pre post : Vol} {op : FsOp} {ok : Bool}
    (h : stepOk P pre op ok post = true)
    (hop : ok = false ∨ (∃ p, op = .lock p) ∨ (∃ p, op = .unlock p) ∨ (∃ p, op = .retype p) ∨ op = .other)
    (q : Bytes) : q ∈ post.paths ↔ q ∈ pre.paths := by
  have flag : ∀ p, op.targets = [p] → (∃ f g, pre.lookup p = some f ∧ post.lookup p = some g) →
      (q ∈ post.paths ↔ q ∈ pre.paths) := by
    intro p ht ⟨f, g, hf, hg⟩
    by_cases hq : q = p
    · subst hq; exact ⟨fun _ => mem_paths_of_lookup hf, fun _ => mem_paths_of_lookup hg⟩
    · exact stepOk_bystander_path h (by rw [ht]; simpa using hq)
  rcases hop with rfl | ⟨p, rfl⟩ | ⟨p, rfl⟩ | ⟨p, rfl⟩ | rfl
  · exact (sameFiles_paths (stepOk_refused h) q).symm
  · cases ok with
    | false => exact (sameFiles_paths (stepOk_refused h) q).symm
    | true => obtain ⟨⟨f, g, hf, hg, _⟩, _⟩ := stepOk_lock h; exact flag p rfl ⟨f, g, hf, hg⟩
  · cases ok with
    | false => exact (sameFiles_paths (stepOk_refused h) q).symm
    | true => obtain ⟨⟨f, g, hf, hg, _⟩, _⟩ := stepOk_unlock h; exact flag p rfl ⟨f, g, hf, hg⟩
  · cases ok with
    | false => exact (sameFiles_paths (stepOk_refused h) q).symm
    | true => obtain ⟨⟨f, g, hf, hg, _⟩, _⟩ := stepOk_retype h; exact flag p rfl ⟨f, g, hf, hg⟩
  · exact stepOk_bystander_path h (by simp [FsOp.targets])

/-- C05, one step, all cases in one statement: the listing after a valid step has the members the abstract
model `applyPaths` predicts from the listing before. -/
theorem listing_step {P : FsParams} {pre post : Vol} {op : FsOp} {ok : Bool}
    (h : stepOk P pre op ok post = true) (q : Bytes) :
    q ∈ post.paths ↔ q ∈ applyPaths pre.paths op ok := by
  cases ok with
  | false =>
    have : applyPaths pre.paths op false = pre.paths := by cases op <;> rfl
    rw [this]; exact unchanged_listing h (Or.inl rfl) q
  | true =>
    cases op with
    | put p cs eof ty aux => rw [put_listing h]; simp [applyPaths]
    | mkdir p => rw [mkdir_listing h]; simp [applyPaths]
    | delete p => rw [delete_listing h]; simp [applyPaths, and_comm]
    | rename p r => rw [rename_listing h]; simp [applyPaths, and_comm]
    | lock p => exact unchanged_listing h (Or.inr (Or.inl ⟨p, rfl⟩)) q
    | unlock p => exact unchanged_listing h (Or.inr (Or.inr (Or.inl ⟨p, rfl⟩))) q
    | retype p => exact unchanged_listing h (Or.inr (Or.inr (Or.inr (Or.inl ⟨p, rfl⟩)))) q
    | other => exact unchanged_listing h (Or.inr (Or.inr (Or.inr (Or.inr rfl)))) q

/-- `applyPaths` depends on the listing only through its members -/
theorem applyPaths_congr {l l' : List Bytes} (h : ∀ q, q ∈ l ↔ q ∈ l') (op : FsOp) (ok : Bool) (q : Bytes) :
    q ∈ applyPaths l op ok ↔ q ∈ applyPaths l' op ok := by
  cases ok with
  | false =>
    have e : ∀ l, applyPaths l op false = l := fun l => by cases op <;> rfl
    rw [e, e]; exact h q
  | true => cases op <;> simp [applyPaths, h]

/-- C05 over histories ("after any history, the catalog … list exactly the files and directories that were
stored and not deleted, under their current names"): for a valid history of any length, a path is in the
final listing iff it is in the fold of the abstract model over the history (start listing, plus what was
stored or created, minus what was deleted, renames applied, refused operations ignored). -/
theorem listing_is_history_fold {P : FsParams} {tr : List Step} :
    ∀ {v0 : Vol} (l0 : List Bytes), (∀ q, q ∈ v0.paths ↔ q ∈ l0) → validFrom P v0 tr →
      ∀ q, q ∈ (finalVol v0 tr).paths ↔ q ∈ foldPaths l0 tr := by
  induction tr with
  | nil => intro v0 l0 h0 _ q; exact h0 q
  | cons s rest ih =>
    intro v0 l0 h0 hv q
    rw [finalVol_cons]
    show _ ↔ q ∈ foldPaths (applyPaths l0 s.op s.ok) rest
    exact ih (applyPaths l0 s.op s.ok)
      (fun r => (listing_step hv.1 r).trans (applyPaths_congr h0 s.op s.ok r)) hv.2 q

/-- the usual instance: the fold starts from the initial listing itself -/
theorem listing_is_history_fold' {P : FsParams} {v0 : Vol} {tr : List Step} (hv : validFrom P v0 tr) (q : Bytes) :
    q ∈ (finalVol v0 tr).paths ↔ q ∈ foldPaths v0.paths tr :=
  listing_is_history_fold v0.paths (fun _ => Iff.rfl) hv q

/-- C05 ("storing to an existing name or renaming onto an existing name is refused"): a step that stores or
creates under a listed name, or renames onto a different listed name, is valid only with result "refused". -/
theorem duplicate_refused {P : FsParams} {pre post : Vol} {op : FsOp} {ok : Bool}
    (h : stepOk P pre op ok post = true)
    (hdup : (∃ p cs eof ty aux, op = .put p cs eof ty aux ∧ p ∈ pre.paths) ∨
            (∃ p, op = .mkdir p ∧ p ∈ pre.paths) ∨
            (∃ p q, op = .rename p q ∧ p ≠ q ∧ q ∈ pre.paths)) :
    ok = false := by
  cases ok with
  | false => rfl
  | true =>
    exfalso
    rcases hdup with ⟨p, cs, eof, ty, aux, rfl, hm⟩ | ⟨p, rfl, hm⟩ | ⟨p, q, rfl, hne, hm⟩
    · exact (not_mem_paths_iff.2 (stepOk_put h).1) hm
    · exact (not_mem_paths_iff.2 (stepOk_mkdir h).1) hm
    · rcases (stepOk_rename h).2.1 with e | e
      · exact hne e
      · exact (not_mem_paths_iff.2 e) hm

/-- C05 ("… and changes nothing"): after a refused operation the listing is the same and every file entry —
the one the operation named included — is identical. -/
theorem refused_changes_nothing {P : FsParams} {pre post : Vol} {op : FsOp}
    (h : stepOk P pre op false post = true) :
    (∀ q, q ∈ post.paths ↔ q ∈ pre.paths) ∧
    (∀ q f, pre.lookup q = some f → f.isDir = false → post.lookup q = some f) :=
  ⟨fun q => (sameFiles_paths (stepOk_refused h) q).symm,
   fun _ _ hf hd => sameFiles_lookup (stepOk_refused h) hf hd⟩

/-- C05 ("so names within a directory are always unique"): the final listing of every valid history has no
repetition. -/
theorem names_unique {P : FsParams} {v0 : Vol} {tr : List Step} (h0 : v0.wfB = true) (hv : validFrom P v0 tr) :
    (finalVol v0 tr).paths.Nodup :=
  wfB_paths_nodup (history_induction (fun v => v.wfB = true) (fun _ _ _ _ hs _ => stepOk_wf hs) tr v0 hv h0)

/-- … and so has the listing after every single step. -/
theorem names_unique_every_step {P : FsParams} {v0 : Vol} {tr : List Step} (hv : validFrom P v0 tr) :
    ∀ s ∈ tr, s.post.paths.Nodup := by
  induction tr generalizing v0 with
  | nil => intro s hs; cases hs
  | cons t rest ih =>
    intro s hs
    rcases List.mem_cons.1 hs with rfl | hm
    · exact wfB_paths_nodup (stepOk_wf hv.1)
    · exact ih hv.2 s hm

/-! ## non-vacuity -/
open VolExample

/-- the example history: `A` stored before, `B` stored, renamed to `C`, `A` deleted; refused delete and
refused duplicate put ignored.  The fold says the listing is `{C}` and so says the reading. -/
example : foldPaths v0.paths hist = [[67]] := by decide
example : ∀ q, q ∈ (finalVol v0 hist).paths ↔ q ∈ foldPaths v0.paths hist :=
  fun q => listing_is_history_fold' hist_valid q

/-- the refused `put C` onto the existing `C` of the example: the spec forces "refused" -/
example : putCref.ok = false :=
  duplicate_refused (P := P0) (pre := v3) (post := v3) (op := putCref.op) (by decide)
    (Or.inl ⟨[67], [(0, [5])], 1, 6, 0, rfl, by decide⟩)
/-- and a reading in which the duplicate put had been accepted is not a valid step -/
example : stepOk P0 v3 putCref.op true v3 = false := by decide

example : (finalVol v0 hist).paths.Nodup := names_unique v0_wf hist_valid

end A2Verif.C05
