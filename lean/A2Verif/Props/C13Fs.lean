import A2Verif.Props.C13
import A2Verif.Lemmas.PackFs
/-!
# C13, part 2 — the round trip on file images *as the file systems return them*

`Props/C13.lean` proves `unpack_x (pack_x d) = d` for the image `pack_x` builds.  What comes back from a disk
(`DiskFS::get`) is that image with whole-block chunks and the directory's metadata laid over it
(`Packing.decorate`, `Model/PackFs.lean`): the DOS 3.x lock bit in the type byte, CP/M attribute bits in the
extension, any access / version / time-stamp bytes, CP/M's record-granular eof.  The theorems below state the
round trip — data, load address, and the decoder the auto-selecting `unpack` picks — for EVERY value of those
bits (`dc : Deco` with `Deco.ok fs dc`), for every payload the packer accepts.
-/
namespace A2Verif.C13
open A2Verif.Packing

theorem dosUnpackBin_congr (f g : FImg) (h : sequence f = sequence g) : dosUnpackBin f = dosUnpackBin g := by
  unfold dosUnpackBin; rw [h]

theorem dosUnpackTok_congr (f g : FImg) (h : sequence f = sequence g) : dosUnpackTok f = dosUnpackTok g := by
  unfold dosUnpackTok; rw [h]

theorem guardV_ok {α : Type} (fs : Fs) (f : FImg) (r : Res α) (h : verify fs f = true) : guardV fs f r = r := by
  unfold guardV; rw [if_pos h]

theorem verify_of_type (fs : Fs) (f : FImg) (t : Nat) (ts : Bytes) (h : f.fsType = t :: ts) : verify fs f = true := by
  cases fs <;> simp [verify, h]

/-- **DOS 3.x binary file as `get` returns it** (locked or not, whole sectors, any sector tail): the data, the
load address, and the decoder chosen by `unpack`.  Both length-header variants; chunks of at least 3 bytes. -/
theorem dos_bin_returned (v : DosLen) (gv : RecGather) (pv : PasIndent) (f : FImg) (d : Bytes) (a : Nat) (t : Bytes) (dc : Deco)
    (hn : 3 ≤ f.chunkLen) (ha : a < 65536) (hv : v = .wrapping ∨ d.length < 65536) (hok : Deco.ok .dos dc) :
    ∃ g, dosPackBin v f d (some a) t = .ok g ∧
      unpackBinV .dos (decorate .dos dc g) = .ok (d.take (d.length % 65536)) ∧
      loadAddrV .dos (decorate .dos dc g) = a ∧
      unpackAuto gv pv .dos (decorate .dos dc g) = .ok (.binary (d.take (d.length % 65536))) := by
  have hn0 : 0 < f.chunkLen := by omega
  have hnot : ¬ (v = .checked ∧ 65536 ≤ d.length) := by
    rintro ⟨h1, h2⟩
    rcases hv with h | h
    · rw [h] at h1; cases h1
    · omega
  let X := u16le a ++ u16le d.length ++ d ++ t
  let g : FImg := { desequence f X with fsType := [4] }
  have hpack : dosPackBin v f d (some a) t = .ok g := dosPackBin_ok v f d a t ha hnot
  refine ⟨g, hpack, ?_⟩
  -- the type byte
  obtain ⟨t', hty, htm⟩ := decorate_type_dos dc g 4 hok rfl (by omega)
  have hver : verify .dos (decorate .dos dc g) = true := verify_of_type _ _ t' [] hty
  -- the sequence is the packed one followed by the sector tail: the same as packing with a longer junk tail
  obtain ⟨p, hp⟩ := sequence_decorate .dos dc g
  have hsg : sequence g = X := Packing.sequence_desequence f X hn0
  obtain ⟨g', hp', hu', _⟩ := dos_bin_general v f d a (t ++ p) hn0 ha hv
  have hg' : g' = { desequence f (u16le a ++ u16le d.length ++ d ++ (t ++ p)) with fsType := [4] } := by
    have := dosPackBin_ok v f d a (t ++ p) ha hnot
    rw [this] at hp'; cases hp'; rfl
  have hsg' : sequence g' = X ++ p := by
    rw [hg']
    have : sequence ({ desequence f (u16le a ++ u16le d.length ++ d ++ (t ++ p)) with fsType := [4] } : FImg)
        = u16le a ++ u16le d.length ++ d ++ (t ++ p) := Packing.sequence_desequence f _ hn0
    rw [this]; simp [X, List.append_assoc]
  have hbin : dosUnpackBin (decorate .dos dc g) = .ok (d.take (d.length % 65536)) := by
    rw [dosUnpackBin_congr _ g' (by rw [hp, hsg, hsg'])]; exact hu'
  -- the first chunk
  have hne : X ≠ [] := by simp [X, u16le]
  have hc : g.chunks = chunksFrom X.length f.chunkLen 0 X := desequence_chunks_of_ne f _ hne
  have hc0 : getChunk g.chunks 0 = some (X.take f.chunkLen) := by
    rw [hc, getChunk_chunksFrom_zero _ _ _ (by simp [X, u16le])]
  obtain ⟨p0, hp0⟩ := getChunk_padLast_zero g.chunkLen dc.pad g.chunks _ hc0
  obtain ⟨k, hk⟩ : ∃ k, f.chunkLen = k + 3 := ⟨f.chunkLen - 3, by omega⟩
  have htake : ∃ r, X.take f.chunkLen = a % 256 :: (a / 256 % 256) :: r ∧ 1 ≤ r.length := by
    refine ⟨(d.length % 256 :: d.length / 256 % 256 :: (d ++ t)).take (k + 1), ?_, ?_⟩
    · simp [X, hk, u16le, List.take_succ_cons]
    · simp [List.length_take]
  obtain ⟨r, hr, hrl⟩ := htake
  refine ⟨?_, ?_, ?_⟩
  · unfold unpackBinV; rw [guardV_ok _ _ _ hver]; exact hbin
  · show dosLoadAddr (decorate .dos dc g) = a
    unfold dosLoadAddr
    rw [hty]
    simp only [htm]
    rw [decorate_chunks, hp0, hr]
    simp only [List.cons_append, List.length_cons, List.getD_cons_zero, List.getD_cons_succ]
    have hlen : (r ++ p0).length + 1 + 1 > 2 := by simp; omega
    simp only [hlen, if_true]
    rw [if_neg (by decide), if_neg (by decide)]
    first | omega | (simp only [if_true]; omega) | (rw [if_pos rfl]; omega)
  · unfold unpackAuto
    rw [hver]
    simp only [Bool.not_true, Bool.false_eq_true, if_false, hty, List.headD_cons, htm]
    rw [hbin]; rfl

/-- **DOS 3.x token file as `get` returns it** (Applesoft or Integer, locked or not): the program, the load
address `get_load_address` deduces (Integer: 0; Applesoft: the one `deduce_address` finds in the packed program,
provided the first line ends inside the first chunk — `deduce_address` is only given chunk 0), and the decoder
chosen by `unpack`. -/
theorem dos_tok_returned (v : DosLen) (gv : RecGather) (pv : PasIndent) (f : FImg) (d : Bytes) (l : Lang) (t : Bytes) (dc : Deco)
    (hn : 0 < f.chunkLen) (hl : l ≠ .other) (hv : v = .wrapping ∨ d.length < 65536) (hok : Deco.ok .dos dc) :
    ∃ g, dosPackTok v f d l t = .ok g ∧
      unpackTokV .dos (decorate .dos dc g) = .ok (d.take (d.length % 65536)) ∧
      (l = .integer → loadAddrV .dos (decorate .dos dc g) = 0) ∧
      (l = .applesoft → ∀ rel, deduceScan (d.drop 4) 4 = some rel → rel + 3 ≤ f.chunkLen →
        loadAddrV .dos (decorate .dos dc g) = deduceAddressTotal d) ∧
      unpackAuto gv pv .dos (decorate .dos dc g) = .ok (.binary (d.take (d.length % 65536))) := by
  have hnot : ¬ (v = .checked ∧ 65536 ≤ d.length) := by
    rintro ⟨h1, h2⟩
    rcases hv with h | h
    · rw [h] at h1; cases h1
    · omega
  let X := u16le d.length ++ (d ++ t)
  -- the type the packer sets
  obtain ⟨ty, hty4, htyl⟩ : ∃ ty : Nat, (ty = 2 ∨ ty = 1) ∧ (ty = 2 ↔ l = .applesoft) := by
    cases l with
    | other => exact absurd rfl hl
    | applesoft => exact ⟨2, Or.inl rfl, by simp⟩
    | integer => exact ⟨1, Or.inr rfl, by simp⟩
  let g : FImg := { desequence f X with fsType := [ty] }
  have hpack : dosPackTok v f d l t = .ok g := by
    unfold dosPackTok; rw [if_neg hnot]
    cases l with
    | other => exact absurd rfl hl
    | applesoft => have : ty = 2 := htyl.mpr rfl; subst this; rfl
    | integer =>
      have : ty = 1 := by
        rcases hty4 with h | h
        · exact absurd (htyl.mp h) (by simp)
        · exact h
      subst this; rfl
  refine ⟨g, hpack, ?_⟩
  obtain ⟨t', hty, htm⟩ := decorate_type_dos dc g ty hok rfl (by rcases hty4 with h | h <;> omega)
  have hver : verify .dos (decorate .dos dc g) = true := verify_of_type _ _ t' [] hty
  obtain ⟨p, hp⟩ := sequence_decorate .dos dc g
  have hsg : sequence g = X := Packing.sequence_desequence f X hn
  obtain ⟨g', hp', hu'⟩ := dos_tok_general v f d l (t ++ p) hn hl hv
  have hsg' : sequence g' = X ++ p := by
    have key : ∀ ty' : Bytes, sequence ({ desequence f (u16le d.length ++ (d ++ (t ++ p))) with fsType := ty' } : FImg)
        = X ++ p := by
      intro ty'
      have : sequence ({ desequence f (u16le d.length ++ (d ++ (t ++ p))) with fsType := ty' } : FImg)
          = u16le d.length ++ (d ++ (t ++ p)) := Packing.sequence_desequence f _ hn
      rw [this]; simp [X, List.append_assoc]
    unfold dosPackTok at hp'
    rw [if_neg hnot] at hp'
    cases l with
    | other => exact absurd rfl hl
    | applesoft => cases hp'; exact key _
    | integer => cases hp'; exact key _
  have htok : dosUnpackTok (decorate .dos dc g) = .ok (d.take (d.length % 65536)) := by
    rw [dosUnpackTok_congr _ g' (by rw [hp, hsg, hsg'])]; exact hu'
  have hne : X ≠ [] := by simp [X, u16le]
  have hc : g.chunks = chunksFrom X.length f.chunkLen 0 X := desequence_chunks_of_ne f _ hne
  have hc0 : getChunk g.chunks 0 = some (X.take f.chunkLen) := by
    rw [hc, getChunk_chunksFrom_zero _ _ _ (by simp [X, u16le])]
  obtain ⟨p0, hp0⟩ := getChunk_padLast_zero g.chunkLen dc.pad g.chunks _ hc0
  refine ⟨?_, ?_, ?_, ?_⟩
  · unfold unpackTokV; simp only []; rw [guardV_ok _ _ _ hver]; exact htok
  · intro hli
    have hty1 : ty = 1 := by
      rcases hty4 with h | h
      · have := htyl.mp h; rw [hli] at this; cases this
      · exact h
    show dosLoadAddr (decorate .dos dc g) = 0
    unfold dosLoadAddr
    rw [hty]
    simp only [htm, hty1, if_true]
  · intro hla rel hs hrel
    have hty2 : ty = 2 := htyl.mpr hla
    obtain ⟨h1, h2, _⟩ := deduceScan_local (d.drop 4) 4 rel hs
    have hdl : rel < d.length := by simp only [List.length_drop] at h2; omega
    show dosLoadAddr (decorate .dos dc g) = deduceAddressTotal d
    unfold dosLoadAddr
    rw [hty]
    simp only [htm, hty2]
    rw [if_pos trivial, decorate_chunks, hp0]
    obtain ⟨k, hk⟩ : ∃ k, f.chunkLen = k + 2 := ⟨f.chunkLen - 2, by omega⟩
    have hX : X.take f.chunkLen = d.length % 256 :: (d.length / 256 % 256) :: (d ++ t).take k := by
      simp [X, hk, u16le, List.take_succ_cons]
    rw [hX]
    have hk1 : rel + 1 ≤ k := by omega
    have hlen : (d.length % 256 :: (d.length / 256 % 256) :: (d ++ t).take k ++ p0).length > 2 := by
      simp only [List.cons_append, List.length_cons, List.length_append, List.length_take]
      omega
    rw [if_neg (by decide)]
    simp only []
    rw [if_pos hlen]
    simp only [List.cons_append, List.drop_succ_cons, List.drop_zero]
    apply deduceAddressTotal_local d _ rel hs (by omega)
    rw [List.take_append_of_le_length (by simp only [List.length_take, List.length_append]; omega),
      List.take_take, Nat.min_eq_left hk1, List.take_append_of_le_length (by omega)]
  · unfold unpackAuto
    rw [hver]
    simp only [Bool.not_true, Bool.false_eq_true, if_false, hty, List.headD_cons, htm]
    rcases hty4 with h | h <;> subst h
    · rw [if_neg (by decide), if_neg (by decide), if_pos (Or.inl rfl), htok]; rfl
    · rw [if_neg (by decide), if_neg (by decide), if_pos (Or.inr rfl), htok]; rfl

/-! ## the eof-based file systems -/

/-- an image whose chunks and eof are those of `desequence f x` -/
theorem packed_eof_le (f g : FImg) (x : Bytes) (hn : 0 < f.chunkLen)
    (hc : g.chunks = (desequence f x).chunks) (he : g.eof = (desequence f x).eof) :
    sequence g = x ∧ getEof g ≤ (sequence g).length := by
  have hs : sequence g = x := seqOfChunks f g x hn hc
  have hg : getEof g = x.length % 256 ^ (min 8 f.eof.length) := by
    unfold getEof; rw [he]; exact getEof_desequence f x
  rw [hs, hg]
  exact ⟨rfl, Nat.mod_le _ _⟩

/-- reading up to the eof returns the packed data, whatever the file system laid over the image
(ProDOS, Pascal, FAT: the eof comes back unchanged) -/
theorem eof_unpack_returned (fs : Fs) (hfs : fs ≠ .cpm) (dc : Deco) (f g : FImg) (x : Bytes) (hn : 0 < f.chunkLen)
    (hc : g.chunks = (desequence f x).chunks) (he : g.eof = (desequence f x).eof)
    (hcap : x.length < 256 ^ (min 8 f.eof.length)) :
    sequenceLimited (decorate fs dc g) (getEof (decorate fs dc g)) = x := by
  obtain ⟨_, hle⟩ := packed_eof_le f g x hn hc he
  rw [seqLimited_decorate fs dc g hfs hle, eof_unpack_general f g x hn hc he, take_mod_of_lt _ _ hcap]

theorem h24 : (256 : Nat) ^ (min 8 3) = 2 ^ 24 := by decide
theorem h32 : (256 : Nat) ^ (min 8 4) = 2 ^ 32 := by decide

/-- **ProDOS binary file as `get` returns it** (any access byte — locked, backed up —, any version bytes, whole
blocks): data, load address (the aux type), decoder chosen by `unpack`. -/
theorem prodos_bin_returned (gv : RecGather) (pv : PasIndent) (f g : FImg) (d : Bytes) (addr : Option Nat) (t : Bytes) (dc : Deco)
    (hn : 0 < f.chunkLen) (hw : f.eof.length = 3) (hok : Deco.ok .prodos dc)
    (h : prodosPackBin .checked f d addr t = .ok g) :
    unpackBinV .prodos (decorate .prodos dc g) = .ok (d ++ t) ∧
    (∃ a, addr = some a ∧ loadAddrV .prodos (decorate .prodos dc g) = a) ∧
    unpackAuto gv pv .prodos (decorate .prodos dc g) = .ok (.binary (d ++ t)) := by
  by_cases hl : 2 ^ 24 ≤ (d ++ t).length
  · rw [prodosPackBin_long f d addr t hl] at h; cases h
  · rw [prodosPackBin_short f d addr t hl] at h
    cases addr with
    | none => cases h
    | some a =>
      by_cases ha : 65536 ≤ a
      · simp only [ha, if_true] at h; cases h
      · simp only [ha, if_false, Res.ok.injEq] at h
        subst h
        have hty : (decorate .prodos dc
            { desequence f (d ++ t) with fsType := [6], access := [prodosAccess], aux := u16le a }).fsType = [6] :=
          decorate_type_same .prodos dc _ hok (Or.inl rfl)
        have hver := verify_of_type .prodos _ 6 [] hty
        have hbin : unpackBin .prodos (decorate .prodos dc
            { desequence f (d ++ t) with fsType := [6], access := [prodosAccess], aux := u16le a }) = .ok (d ++ t) := by
          exact congrArg Res.ok (eof_unpack_returned .prodos (by decide) dc f
            ({ desequence f (d ++ t) with fsType := [6], access := [prodosAccess], aux := u16le a } : FImg)
            (d ++ t) hn rfl rfl (by rw [hw, h24]; omega))
        refine ⟨?_, ⟨a, rfl, ?_⟩, ?_⟩
        · unfold unpackBinV; rw [guardV_ok _ _ _ hver]; exact hbin
        · show prodosLoadAddr _ = a
          simp only [prodosLoadAddr, getAux, decorate_aux, truncLe, u16le, List.take, leVal]
          omega
        · unfold unpackAuto
          rw [hver]
          simp only [Bool.not_true, Bool.false_eq_true, if_false, hty, List.headD_cons]
          rw [if_neg (by decide), if_pos (by decide), hbin]; rfl

/-- **ProDOS token file as `get` returns it**: the program; the load address is the aux type, which `pack_tok`
set to what `deduce_address` finds (Applesoft) or to 0 (Integer); `unpack` picks the token decoder. -/
theorem prodos_tok_returned (gv : RecGather) (pv : PasIndent) (f g : FImg) (d : Bytes) (l : Lang) (t : Bytes) (dc : Deco)
    (hn : 0 < f.chunkLen) (hw : f.eof.length = 3) (hok : Deco.ok .prodos dc)
    (h : prodosPackTok .checked .total f d l t = .ok g) :
    unpackTokV .prodos (decorate .prodos dc g) = .ok (d ++ t) ∧
    loadAddrV .prodos (decorate .prodos dc g) = (match l with | .applesoft => deduceAddressTotal d % 65536 | _ => 0) ∧
    unpackAuto gv pv .prodos (decorate .prodos dc g) = .ok (.binary (d ++ t)) := by
  by_cases hl : 2 ^ 24 ≤ (d ++ t).length
  · rw [prodosPackTok_long .total f d l t hl] at h; cases h
  · rw [prodosPackTok_short .total f d l t hl] at h
    have core : ∀ (ty : Nat) (ax : Bytes), (ty = 0xfc ∨ ty = 0xfa) →
        let g0 : FImg := { desequence f (d ++ t) with access := [prodosAccess], fsType := [ty], aux := ax }
        unpackTokV .prodos (decorate .prodos dc g0) = .ok (d ++ t) ∧
        loadAddrV .prodos (decorate .prodos dc g0) = truncLe ax % 65536 ∧
        unpackAuto gv pv .prodos (decorate .prodos dc g0) = .ok (.binary (d ++ t)) := by
      intro ty ax hty4 g0
      have hty : (decorate .prodos dc g0).fsType = [ty] := decorate_type_same .prodos dc _ hok (Or.inl rfl)
      have hver := verify_of_type .prodos _ ty [] hty
      have htok : unpackTok .prodos (decorate .prodos dc g0) = .ok (d ++ t) := by
        show Res.ok (sequenceLimited _ _) = _
        rw [eof_unpack_returned .prodos (by decide) dc f g0 (d ++ t) hn rfl rfl (by rw [hw, h24]; omega)]
      refine ⟨?_, rfl, ?_⟩
      · unfold unpackTokV; simp only []; rw [guardV_ok _ _ _ hver]; exact htok
      · unfold unpackAuto
        rw [hver]
        simp only [Bool.not_true, Bool.false_eq_true, if_false, hty, List.headD_cons]
        rcases hty4 with h | h <;> subst h
        · rw [if_neg (by decide), if_neg (by decide), if_pos (Or.inl rfl), htok]; rfl
        · rw [if_neg (by decide), if_neg (by decide), if_pos (Or.inr rfl), htok]; rfl
    cases l with
    | other => cases h
    | integer =>
      simp only [Res.ok.injEq] at h
      subst h
      obtain ⟨c1, c2, c3⟩ := core 0xfa [0, 0] (Or.inr rfl)
      exact ⟨c1, by rw [c2]; rfl, c3⟩
    | applesoft =>
      simp only [deduce, Res.ok.injEq] at h
      subst h
      obtain ⟨c1, c2, c3⟩ := core 0xfc (u16le (deduceAddressTotal d)) (Or.inl rfl)
      refine ⟨c1, ?_, c3⟩
      rw [c2]
      simp only [truncLe, u16le, List.take, leVal]
      omega

/-- **Pascal and FAT binary files as `get` returns them** (FAT: any attribute byte, the type is whatever
extension the directory name has): the data comes back exactly; Pascal's `unpack` picks the binary decoder. -/
theorem eof4_bin_returned (fs : Fs) (hfs : fs = .pascal ∨ fs = .fat) (v : Variant) (gv : RecGather) (pv : PasIndent) (f g : FImg)
    (d : Bytes) (addr : Option Nat) (t : Bytes) (dc : Deco) (hn : 0 < f.chunkLen) (hw : f.eof.length = 4)
    (hcap : (d ++ t).length < 2 ^ 32) (hok : Deco.ok fs dc) (h : packBin v fs f d addr t = .ok g) :
    unpackBinV fs (decorate fs dc g) = .ok (d ++ t) ∧
    (fs = .pascal → unpackAuto gv pv .pascal (decorate .pascal dc g) = .ok (.binary (d ++ t))) := by
  rcases hfs with rfl | rfl
  · simp only [packBin, pascalPackBin, Res.ok.injEq] at h
    subst h
    have hty : (decorate .pascal dc { desequence f (d ++ t) with fsType := [5, 0] }).fsType = [5, 0] :=
      decorate_type_same .pascal dc _ hok (Or.inr rfl)
    have hver := verify_of_type .pascal _ 5 [0] hty
    have hbin : unpackBin .pascal (decorate .pascal dc { desequence f (d ++ t) with fsType := [5, 0] }) = .ok (d ++ t) := by
      exact congrArg Res.ok (eof_unpack_returned .pascal (by decide) dc f
        ({ desequence f (d ++ t) with fsType := [5, 0] } : FImg) (d ++ t) hn rfl rfl (by rw [hw, h32]; exact hcap))
    refine ⟨?_, fun _ => ?_⟩
    · unfold unpackBinV; rw [guardV_ok _ _ _ hver]; exact hbin
    · unfold unpackAuto
      rw [hver]
      simp only [Bool.not_true, Bool.false_eq_true, if_false, hty, List.headD_cons]
      rw [if_neg (by decide), hbin]; rfl
  · simp only [packBin, plainPackBin, Res.ok.injEq] at h
    subst h
    refine ⟨?_, fun hh => by cases hh⟩
    unfold unpackBinV guardV
    simp only [verify, if_true]
    exact congrArg Res.ok (eof_unpack_returned .fat (by decide) dc f (desequence f (d ++ t)) (d ++ t) hn rfl rfl
      (by rw [hw, h32]; exact hcap))

/-- **CP/M binary file as `get` returns it** (any attribute bits in name and extension): CP/M 3 records the byte
count, so the data comes back exactly; CP/M 2 records whole 128-byte records, so the data comes back followed by
less than one record of whatever filled the block. -/
theorem cpm_bin_returned (v : Variant) (f g : FImg) (d : Bytes) (addr : Option Nat) (t : Bytes) (dc : Deco)
    (hn : 0 < f.chunkLen) (hw : f.eof.length = 4) (hcap : (d ++ t).length + 128 ≤ 2 ^ 32) (hok : Deco.ok .cpm dc)
    (h : packBin v .cpm f d addr t = .ok g) :
    ∃ q, unpackBinV .cpm (decorate .cpm dc g) = .ok ((d ++ t) ++ q) ∧ q.length < dc.eofRound ∧
      (dc.eofRound = 1 → q = []) := by
  simp only [packBin, plainPackBin, Res.ok.injEq] at h
  subst h
  have hs : sequence (desequence f (d ++ t)) = d ++ t := Packing.sequence_desequence f _ hn
  have he : getEof (desequence f (d ++ t)) = (d ++ t).length := by
    rw [getEof_desequence, hw, h32]; exact Nat.mod_eq_of_lt (by omega)
  obtain ⟨q, hq, hql, hq1⟩ := seqLimited_decorate_cpm dc (desequence f (d ++ t)) (d ++ t) hs he
    (by rw [desequence_eof_length, hw]) hcap hok.2.1
  refine ⟨q, ?_, hql, hq1⟩
  unfold unpackBinV guardV
  simp only [verify, if_true]
  show Res.ok (sequenceLimited _ _) = _
  rw [hq]

/-! ## raw bytes -/

/-- **Raw bytes as `get` returns them**: the packed bytes always come back as a prefix (DOS 3.x has no eof, and
without `trunc` every file system returns whole blocks); with `trunc` ProDOS, Pascal and FAT return them exactly,
CP/M 2 to the next record boundary. -/
theorem raw_returned (fs : Fs) (f g : FImg) (d : Bytes) (dc : Deco) (trunc : Bool)
    (hn : 0 < f.chunkLen) (hw : f.eof.length = eofWidth fs) (hcap : d.length + 128 ≤ 2 ^ 32) (hok : Deco.ok fs dc)
    (h : packRaw allChecked fs f d = .ok g) :
    ∃ q, unpackRawV fs (decorate fs dc g) trunc = .ok (d ++ q) ∧
      (trunc = true → (fs = .prodos ∨ fs = .pascal ∨ fs = .fat) → q = []) ∧
      (trunc = true → fs = .cpm → q.length < dc.eofRound ∧ (dc.eofRound = 1 → q = [])) := by
  cases fs with
  | dos =>
    simp only [packRaw, dosPackRaw, Res.ok.injEq] at h
    subst h
    obtain ⟨t', hty, _⟩ := decorate_type_dos dc ({ desequence f d with fsType := [0] } : FImg) 0 hok rfl (by omega)
    have hver := verify_of_type .dos _ t' [] hty
    obtain ⟨p, hp⟩ := sequence_decorate .dos dc ({ desequence f d with fsType := [0] } : FImg)
    have hs : sequence ({ desequence f d with fsType := [0] } : FImg) = d := Packing.sequence_desequence f d hn
    refine ⟨p, ?_, fun _ hh => (by rcases hh with hh | hh | hh <;> cases hh), fun _ hh => (by cases hh)⟩
    unfold unpackRawV; rw [guardV_ok _ _ _ hver]
    show Res.ok (sequence _) = _
    rw [hp, hs]
  | prodos =>
    by_cases hl : 2 ^ 24 ≤ d.length
    · rw [prodosPackRaw_long f d hl] at h; cases h
    · rw [prodosPackRaw_short f d hl] at h
      simp only [Res.ok.injEq] at h
      subst h
      let g0 : FImg := { desequence f d with fsType := [4], aux := [0, 0], access := [prodosAccess] }
      have hty : (decorate .prodos dc g0).fsType = [4] := decorate_type_same .prodos dc _ hok (Or.inl rfl)
      have hver := verify_of_type .prodos _ 4 [] hty
      cases trunc with
      | true =>
        refine ⟨[], ?_, fun _ _ => rfl, fun _ hh => (by cases hh)⟩
        unfold unpackRawV; rw [guardV_ok _ _ _ hver]
        show Res.ok (sequenceLimited _ _) = _
        rw [List.append_nil]
        exact congrArg Res.ok (eof_unpack_returned .prodos (by decide) dc f g0 d hn rfl rfl
          (by rw [hw]; show d.length < 256 ^ (min 8 3); rw [h24]; omega))
      | false =>
        obtain ⟨p, hp⟩ := sequence_decorate .prodos dc g0
        have hs : sequence g0 = d := Packing.sequence_desequence f d hn
        refine ⟨p, ?_, fun hh => (by cases hh), fun hh => (by cases hh)⟩
        unfold unpackRawV; rw [guardV_ok _ _ _ hver]
        show Res.ok (sequence _) = _
        rw [hp, hs]
  | pascal =>
    simp only [packRaw, pascalPackRaw, Res.ok.injEq] at h
    subst h
    let g0 : FImg := { desequence f d with fsType := [3, 0], eof := leBytes 4 (d.length % 2 ^ 32) }
    have hty : (decorate .pascal dc g0).fsType = [3, 0] := decorate_type_same .pascal dc _ hok (Or.inr rfl)
    have hver := verify_of_type .pascal _ 3 [0] hty
    have hs : sequence g0 = d := Packing.sequence_desequence f d hn
    obtain ⟨p, hp⟩ := sequence_decorate .pascal dc g0
    cases trunc with
    | true =>
      refine ⟨[], ?_, fun _ _ => rfl, fun _ hh => (by cases hh)⟩
      unfold unpackRawV; rw [guardV_ok _ _ _ hver]
      show Res.ok (sequenceLimited _ _) = _
      have hE : getEof g0 = d.length := by
        show truncLe (leBytes 4 (d.length % 2 ^ 32)) = _
        rw [truncLe_leBytes, h32, Nat.mod_mod, Nat.mod_eq_of_lt (by omega)]
      rw [seqLimited_decorate .pascal dc g0 (by decide) (by rw [hE, hs]; exact Nat.le_refl _),
        sequenceLimited_eq_take, hs, hE, List.take_length, List.append_nil]
    | false =>
      refine ⟨p, ?_, fun hh => (by cases hh), fun hh => (by cases hh)⟩
      unfold unpackRawV; rw [guardV_ok _ _ _ hver]
      show Res.ok (sequence _) = _
      rw [hp, hs]
  | cpm =>
    simp only [packRaw, plainPackRaw, Res.ok.injEq] at h
    subst h
    have hw4 : f.eof.length = 4 := hw
    have hs : sequence (desequence f d) = d := Packing.sequence_desequence f _ hn
    cases trunc with
    | true =>
      have he : getEof (desequence f d) = d.length := by
        rw [getEof_desequence, hw4, h32]; exact Nat.mod_eq_of_lt (by omega)
      obtain ⟨q, hq, hql, hq1⟩ := seqLimited_decorate_cpm dc (desequence f d) d hs he
        (by rw [desequence_eof_length, hw4]) hcap hok.2.1
      refine ⟨q, ?_, fun _ hh => (by rcases hh with hh | hh | hh <;> cases hh), fun _ _ => ⟨hql, hq1⟩⟩
      unfold unpackRawV guardV
      simp only [verify, if_true]
      show Res.ok (sequenceLimited _ _) = _
      rw [hq]
    | false =>
      obtain ⟨p, hp⟩ := sequence_decorate .cpm dc (desequence f d)
      refine ⟨p, ?_, fun hh => (by cases hh), fun hh => (by cases hh)⟩
      unfold unpackRawV guardV
      simp only [verify, if_true]
      show Res.ok (sequence _) = _
      rw [hp, hs]
  | fat =>
    simp only [packRaw, plainPackRaw, Res.ok.injEq] at h
    subst h
    have hw4 : f.eof.length = 4 := hw
    have hs : sequence (desequence f d) = d := Packing.sequence_desequence f _ hn
    cases trunc with
    | true =>
      refine ⟨[], ?_, fun _ _ => rfl, fun _ hh => (by cases hh)⟩
      unfold unpackRawV guardV
      simp only [verify, if_true]
      rw [List.append_nil]
      exact congrArg Res.ok (eof_unpack_returned .fat (by decide) dc f (desequence f d) d hn rfl rfl
        (by rw [hw4, h32]; omega))
    | false =>
      obtain ⟨p, hp⟩ := sequence_decorate .fat dc (desequence f d)
      refine ⟨p, ?_, fun hh => (by cases hh), fun hh => (by cases hh)⟩
      unfold unpackRawV guardV
      simp only [verify, if_true]
      show Res.ok (sequence _) = _
      rw [hp, hs]

/-! ## text -/

theorem mem_append_singleton (x : Nat) (xs : Bytes) : x ∈ xs ++ [x] := by simp

theorem cpmToBytes_has_ctrlz (t : Bytes) : 0x1a ∈ cpmToBytes t := by
  unfold cpmToBytes
  simp

/-- what the text decoders read is not changed by what the file system lays over a packed text -/
theorem txt_returned_core (v : Variant) (fs : Fs) (f g : FImg) (t : Bytes) (dc : Deco)
    (hn : 0 < f.chunkLen) (hok : Deco.ok fs dc) (h : packTxt v fs f t = .ok g) :
    unpackTxt fs (decorate fs dc g) = unpackTxt fs g ∧ verify fs (decorate fs dc g) = true ∧
    (fs = .dos → ∃ t', (decorate fs dc g).fsType = [t'] ∧ t' % 128 = 0) ∧
    (fs = .prodos → (decorate fs dc g).fsType = [4] ∧ getAux (decorate fs dc g) = 0) ∧
    (fs = .pascal → (decorate fs dc g).fsType = [3, 0]) := by
  cases fs with
  | dos =>
    simp only [packTxt] at h
    unfold dosPackTxt at h
    cases hd : dosFromUtf8 [0x8d] t with
    | none => rw [hd] at h; cases h
    | some dat =>
      rw [hd] at h
      simp only [Res.ok.injEq] at h
      subst h
      let g0 : FImg := { desequence f (dat ++ [0]) with fsType := [0] }
      obtain ⟨t', hty, htm⟩ := decorate_type_dos dc g0 0 hok rfl (by omega)
      obtain ⟨p, hp⟩ := sequence_decorate .dos dc g0
      have hs : sequence g0 = dat ++ [0] := Packing.sequence_desequence f _ hn
      refine ⟨?_, verify_of_type .dos _ t' [] hty, fun _ => ⟨t', hty, htm⟩, fun hh => (by cases hh), fun hh => (by cases hh)⟩
      show dosUnpackTxt _ = dosUnpackTxt _
      unfold dosUnpackTxt
      rw [hp, hs, beforeFirst_mem_append 0 _ _ (mem_append_singleton 0 dat)]
  | prodos =>
    simp only [packTxt] at h
    unfold prodosPackTxt at h
    cases hd : prodosFromUtf8 [0x0d] t with
    | none => rw [hd] at h; cases h
    | some dat =>
      rw [hd] at h
      simp only [] at h
      split at h
      · cases h
      · simp only [Res.ok.injEq] at h
        subst h
        let g0 : FImg := { desequence f dat with access := [prodosAccess], fsType := [4], aux := [0, 0] }
        have hty : (decorate .prodos dc g0).fsType = [4] := decorate_type_same .prodos dc _ hok (Or.inl rfl)
        obtain ⟨_, hle⟩ := packed_eof_le f g0 dat hn rfl rfl
        refine ⟨?_, verify_of_type .prodos _ 4 [] hty, fun hh => (by cases hh), fun _ => ⟨hty, ?_⟩, fun hh => (by cases hh)⟩
        · show prodosUnpackTxt _ = prodosUnpackTxt _
          unfold prodosUnpackTxt
          rw [seqLimited_decorate .prodos dc g0 (by decide) hle]
        · show truncLe (decorate .prodos dc g0).aux = 0
          rw [decorate_aux]; rfl
  | pascal =>
    simp only [packTxt] at h
    unfold pascalPackTxt at h
    cases hd : pasFromUtf8 [0x0d] t with
    | panic => rw [hd] at h; cases h
    | err => rw [hd] at h; cases h
    | ok text =>
      rw [hd] at h
      simp only [Res.ok.injEq] at h
      subst h
      let dat := pasHeader ++ text
      let e4 : Bytes := leBytes 4 ((dat.length - 512 * (trailingZeros dat / 512)) % 2 ^ 32)
      let g0 : FImg := { desequence f dat with fsType := [3, 0], eof := e4 }
      have hty : (decorate .pascal dc g0).fsType = [3, 0] := decorate_type_same .pascal dc _ hok (Or.inr rfl)
      have hs : sequence g0 = dat := Packing.sequence_desequence f _ hn
      have hle : getEof g0 ≤ (sequence g0).length := by
        rw [hs]
        show truncLe (leBytes 4 ((dat.length - 512 * (trailingZeros dat / 512)) % 2 ^ 32)) ≤ _
        rw [truncLe_leBytes, h32, Nat.mod_mod]
        exact Nat.le_trans (Nat.mod_le _ _) (Nat.sub_le _ _)
      refine ⟨?_, verify_of_type .pascal _ 3 [0] hty, fun hh => (by cases hh), fun hh => (by cases hh), fun _ => hty⟩
      show pascalUnpackTxt _ = pascalUnpackTxt _
      unfold pascalUnpackTxt
      rw [seqLimited_decorate .pascal dc g0 (by decide) hle]
  | cpm =>
    simp only [packTxt] at h
    unfold cpmPackTxt at h
    cases hd : cpmFromUtf8 [] t with
    | none => rw [hd] at h; cases h
    | some dat =>
      rw [hd] at h
      simp only [Res.ok.injEq] at h
      subst h
      obtain ⟨p, hp⟩ := sequence_decorate .cpm dc (desequence f (cpmToBytes dat))
      have hs : sequence (desequence f (cpmToBytes dat)) = cpmToBytes dat := Packing.sequence_desequence f _ hn
      refine ⟨?_, rfl, fun hh => (by cases hh), fun hh => (by cases hh), fun hh => (by cases hh)⟩
      show cpmUnpackTxt _ = cpmUnpackTxt _
      unfold cpmUnpackTxt
      rw [hp, hs, beforeFirst_mem_append 0x1a _ _ (cpmToBytes_has_ctrlz dat)]
  | fat =>
    simp only [packTxt] at h
    unfold fatPackTxt at h
    cases hd : cpmFromUtf8 [] t with
    | none => rw [hd] at h; cases h
    | some dat =>
      rw [hd] at h
      simp only [Res.ok.injEq] at h
      subst h
      obtain ⟨p, hp⟩ := sequence_decorate .fat dc (desequence f (dat ++ [0x1a]))
      have hs : sequence (desequence f (dat ++ [0x1a])) = dat ++ [0x1a] := Packing.sequence_desequence f _ hn
      refine ⟨?_, rfl, fun hh => (by cases hh), fun hh => (by cases hh), fun hh => (by cases hh)⟩
      show cpmUnpackTxt _ = cpmUnpackTxt _
      unfold cpmUnpackTxt
      rw [hp, hs, beforeFirst_mem_append 0x1a _ _ (mem_append_singleton 0x1a dat)]

/-- **Text files as `get` returns them**, all five file systems: whatever text `unpack_txt` reads from the packed
image, it reads from the returned one (whole blocks, any block tail, lock / attribute bits, any access and version
bytes, CP/M record eof). -/
theorem txt_returned (v : Variant) (pv : PasIndent) (fs : Fs) (f g : FImg) (t t' : Bytes) (dc : Deco)
    (hn : 0 < f.chunkLen) (hok : Deco.ok fs dc) (h : packTxt v fs f t = .ok g) (hu : unpackTxt fs g = .ok t') :
    unpackTxtV pv fs (decorate fs dc g) = .ok t' := by
  obtain ⟨h1, h2, _⟩ := txt_returned_core v fs f g t dc hn hok h
  unfold unpackTxtV; rw [guardV_ok _ _ _ h2]
  exact unpackTxtP_ok pv fs _ t' (by rw [h1, hu])

theorem nullCount_textOk (t : Bytes) (ht : TextOk t) : nullCount t = 0 := by
  unfold nullCount
  rw [List.length_eq_zero_iff, List.filter_eq_nil_iff]
  intro b hb
  rcases ht b hb with h | ⟨h, _⟩ <;> simp <;> omega

/-- **`unpack` picks the text decoder for a returned text file**, all five file systems: a non-empty text of
printable lines comes back as `Text`, whatever the lock / attribute bits (FAT: for every extension that `get` can
deliver, i.e. UTF-8 — see `design/C13.md`). -/
theorem txt_auto_returned (v : Variant) (gv : RecGather) (pv : PasIndent) (fs : Fs) (f g : FImg) (t t' : Bytes) (dc : Deco)
    (hn : 0 < f.chunkLen) (hok : Deco.ok fs dc) (h : packTxt v fs f t = .ok g) (hu : unpackTxt fs g = .ok t')
    (ht : TextOk t') (hne : t' ≠ []) (hfat : fs = .fat → validUtf8 (decorate fs dc g).fsType = true) :
    unpackAuto gv pv fs (decorate fs dc g) = .ok (.text t') := by
  obtain ⟨h1, h2, hdos, hpro, hpas⟩ := txt_returned_core v fs f g t dc hn hok h
  have hnc := nullCount_textOk t' ht
  have hlen : 0 < t'.length := List.length_pos_iff.mpr hne
  have hfew : fewNulls t' = true := by simp [fewNulls, hnc, hlen]
  have hno : noNulls t' = true := by simp [noNulls, hnc]; omega
  rw [hu] at h1
  unfold unpackAuto
  rw [h2]
  simp only [Bool.not_true, Bool.false_eq_true, if_false]
  cases fs with
  | dos =>
    obtain ⟨ty, hty, htm⟩ := hdos rfl
    have h1' : dosUnpackTxt (decorate .dos dc g) = .ok t' := h1
    simp only [hty, List.headD_cons, htm, if_true, h1', textOrBytes, hfew]
  | prodos =>
    obtain ⟨hty, hax⟩ := hpro rfl
    have h1' : prodosUnpackTxt (decorate .prodos dc g) = .ok t' := h1
    simp only [hty, List.headD_cons, if_true, hax, h1', textOrBytes, hfew]
  | pascal =>
    have hty := hpas rfl
    have h1' : pascalUnpackTxtP pv (decorate .pascal dc g) = .ok t' := pascalUnpackTxtP_ok pv _ t' h1
    simp only [hty, List.headD_cons, if_true, h1', textOrBytes, hfew]
  | cpm =>
    have h1' : cpmUnpackTxt (decorate .cpm dc g) = .ok t' := h1
    simp only [h1', textOrBytes, hfew, hno, if_true]
    split <;> rfl
  | fat =>
    have h1' : cpmUnpackTxt (decorate .fat dc g) = .ok t' := h1
    simp only [hfat rfl, Bool.not_true, Bool.false_eq_true, if_false, h1', textOrBytes, hfew, hno, if_true]
    split <;> rfl

/-! ## concrete instances (the hypotheses are satisfiable, the statements are not vacuous) -/

/-- a locked DOS 3.x file in whole sectors whose tail is not zero -/
def lockedDeco : Deco :=
  { typeBits := [0x80], typeSet := none, pad := List.replicate 256 0xE5, eofRound := 1, access := [], version := [],
    minVersion := [], created := [], modified := [], accessed := [], fullPath := [] }

/-- a CP/M 2 file that is read-only, system and archived, in 1 KiB blocks filled with `E5` -/
def cpmDeco : Deco :=
  { typeBits := [0x80, 0x80, 0x80], typeSet := none, pad := List.replicate 1024 0xE5, eofRound := 128,
    access := List.replicate 11 0xA0, version := [], minVersion := [], created := [], modified := [], accessed := [],
    fullPath := [] }

/-- a locked ProDOS file (access `$21`) with version bytes, in whole blocks -/
def prodosDeco : Deco :=
  { typeBits := [], typeSet := none, pad := List.replicate 512 0, eofRound := 1, access := [0x21], version := [0x24],
    minVersion := [0x00], created := [1, 2, 3, 4], modified := [5, 6, 7, 8], accessed := [], fullPath := [] }

example : Deco.ok .dos lockedDeco := by decide
example : Deco.ok .cpm cpmDeco := by decide
example : Deco.ok .prodos prodosDeco := by decide

example : ∃ g, dosPackBin .checked (newFimg .dos 256 []) [1, 2, 3] (some 0x300) [] = .ok g ∧
    (decorate .dos lockedDeco g).fsType = [0x84] ∧ (sequence (decorate .dos lockedDeco g)).length = 256 ∧
    unpackBinV .dos (decorate .dos lockedDeco g) = .ok [1, 2, 3] ∧ loadAddrV .dos (decorate .dos lockedDeco g) = 0x300 ∧
    unpackAuto .zeroFill .panicking .dos (decorate .dos lockedDeco g) = .ok (.binary [1, 2, 3]) :=
  ⟨_, rfl, by decide +kernel, by decide +kernel, by decide +kernel, by decide +kernel, by decide +kernel⟩

/-- `10 HOME` tokenized at `$4001`, saved and locked: type byte `$82`, load address deduced from the link -/
example : ∃ g, dosPackTok .checked (newFimg .dos 256 []) [0x07, 0x40, 10, 0, 0x97, 0, 0, 0] .applesoft [] = .ok g ∧
    (decorate .dos lockedDeco g).fsType = [0x82] ∧
    unpackTokV .dos (decorate .dos lockedDeco g) = .ok [0x07, 0x40, 10, 0, 0x97, 0, 0, 0] ∧
    loadAddrV .dos (decorate .dos lockedDeco g) = 0x4001 :=
  ⟨_, rfl, by decide +kernel, by decide +kernel, by decide +kernel⟩

example : ∃ g, prodosPackBin .checked (newFimg .prodos 512 []) [1, 2, 3] (some 0x2000) [] = .ok g ∧
    (decorate .prodos prodosDeco g).access = [0x21] ∧ (sequence (decorate .prodos prodosDeco g)).length = 512 ∧
    unpackBinV .prodos (decorate .prodos prodosDeco g) = .ok [1, 2, 3] ∧
    loadAddrV .prodos (decorate .prodos prodosDeco g) = 0x2000 :=
  ⟨_, rfl, by decide +kernel, by decide +kernel, by decide +kernel, by decide +kernel⟩

/-- CP/M 2: three bytes come back followed by 125 bytes of the block (one record) -/
example : ∃ g, packBin allChecked .cpm (newFimg .cpm 1024 []) [1, 2, 3] none [] = .ok g ∧
    unpackBinV .cpm (decorate .cpm cpmDeco g) = .ok ([1, 2, 3] ++ List.replicate 125 0xE5) :=
  ⟨_, rfl, by decide +kernel⟩

example : ∃ g, packTxt allChecked .cpm { newFimg .cpm 1024 [] with fsType := [0x54, 0x58, 0x54] } (strBytes "HI\n") = .ok g ∧
    (decorate .cpm cpmDeco g).fsType = [0xD4, 0xD8, 0xD4] ∧
    unpackAuto .zeroFill .panicking .cpm (decorate .cpm cpmDeco g) = .ok (.text (strBytes "HI\n")) :=
  ⟨_, rfl, by decide +kernel, by decide +kernel⟩

end A2Verif.C13
