import A2Verif.Lemmas.CmdSkel
import A2Verif.Gen.CmdSkel
/-!
# C11 — a failed or read-only command never changes the image file

`A2Verif.Gen.CmdSkel` is regenerated from the current `src/main.rs`, `src/commands/*.rs`,
`src/lib.rs` on every run: one control skeleton per subcommand (see `Model/CmdSkel.lean`).
The generic theorems hold for every skeleton, every environment (which fallible step fails at
which iteration, which branch is taken, how many items a batch has, what a mutation does) and
every image file; the `decide` theorems re-establish their hypotheses on the skeletons that the
source has *now*.
-/
namespace A2Verif.C11
open A2Verif.CmdSkel

/-- **Generic, clause "a command that exits with an error leaves the image byte-identical".**
For every skeleton on which `save` is last (`SaveLast`), every environment and every file: if the
exit class is not `ok` (error return, panic, or falling out of the handler) the file afterwards is
the file before. -/
theorem failed_command_leaves_file {α β : Type} (env : Env α β) (k : Skel) (file : α)
    (h : SaveLast k = true) (hexit : (exec env k file).1 ≠ Exit.ok) :
    (exec env k file).2 = file := by
  unfold SaveLast at h
  cases hc : chk k false with
  | none => simp [hc] at h
  | some m =>
    simp only [hc, Bool.and_eq_true, Bool.not_eq_eq_eq_not, Bool.not_true] at h
    have g := run_good env file k false m [] { file := file, mem := env.init } hc (fun _ => rfl)
    unfold exec at *
    cases hr : run env k [] { file := file, mem := env.init } with
    | cont s => rw [hr] at g; exact g h.1.1
    | brk s => rw [hr] at g; exact g h.1.2
    | cnt s => rw [hr] at g; exact g h.2
    | exit e s =>
      rw [hr] at g hexit
      simp only [Good] at g
      simp only at hexit
      simpa [hexit] using g

/-- **Generic, clause "commands that only read never modify it".**  A skeleton without any `save`
step leaves the file alone whatever the exit class. -/
theorem readonly_never_changes {α β : Type} (env : Env α β) (k : Skel) (file : α)
    (h : ReadOnly k = true) : (exec env k file).2 = file := by
  have hs : hasSave k = false := by
    unfold ReadOnly at h
    cases hx : hasSave k <;> simp_all
  have g := run_same env file k [] { file := file, mem := env.init } hs rfl
  unfold exec
  cases hr : run env k [] { file := file, mem := env.init } with
  | cont s => rw [hr] at g; exact g
  | brk s => rw [hr] at g; exact g
  | cnt s => rw [hr] at g; exact g
  | exit e s => rw [hr] at g; exact g

/-- **Generic, clause "changes become permanent only when a command completes successfully"**
(contrapositive of the first theorem). -/
theorem change_implies_success {α β : Type} (env : Env α β) (k : Skel) (file : α)
    (h : SaveLast k = true) (hch : (exec env k file).2 ≠ file) : (exec env k file).1 = Exit.ok :=
  Classical.byContradiction fun hne => hch (failed_command_leaves_file env k file h hne)

/-! ## the skeletons of the current source -/

open A2Verif.Gen.CmdSkel in
/-- the subcommands that are allowed to write the image file.  Everything else — in particular a
subcommand added later — must be `ReadOnly` until it is classified here. -/
def isWriter : Cmd → Bool
  | .mkdsk | .mkdir | .delete | .protect | .unprotect | .lock | .unlock | .rename | .retype
  | .put | .mput => true
  | _ => false

/-- **Every handler of the current source saves last.**  Moving `save_img` into the `mput` loop, or
adding a fallible call / `unwrap` / second write after a save, makes this `decide` fail. -/
theorem all_handlers_saveLast :
    ∀ p ∈ A2Verif.Gen.CmdSkel.all, SaveLast p.2 = true := by decide +kernel

/-- **catalog, tree, glob, stat, geometry, get, mget (and verify, minify, renumber, tokenize,
detokenize, asm, dasm, pack, unpack, completions) contain no save step at all.** -/
theorem nonwriter_handlers_readOnly :
    ∀ p ∈ A2Verif.Gen.CmdSkel.all, isWriter p.1 = false → ReadOnly p.2 = true := by decide +kernel

/-- non-vacuity of the classification: the writers do have a save step, a load-or-create and
(except `mkdsk`, which formats a fresh image) load the file first -/
theorem writer_handlers_do_save :
    ∀ p ∈ A2Verif.Gen.CmdSkel.all, isWriter p.1 = true → hasSave p.2 = true ∧ hasMutate p.2 = true := by
  decide +kernel

/-- the named read-only commands of the property text are in the table and are not writers -/
theorem named_readonly_commands_present :
    ∀ c ∈ [Gen.CmdSkel.Cmd.catalog, .get, .mget, .stat, .tree, .geometry, .glob],
      isWriter c = false ∧ (A2Verif.Gen.CmdSkel.all.map (·.1)).contains c = true := by decide +kernel

/-- **C11 for the current source, error clause**: for every subcommand, environment and file. -/
theorem c11_failed_command {α β : Type} (env : Env α β) (file : α) :
    ∀ p ∈ A2Verif.Gen.CmdSkel.all, (exec env p.2 file).1 ≠ Exit.ok → (exec env p.2 file).2 = file :=
  fun p hp => failed_command_leaves_file env p.2 file (all_handlers_saveLast p hp)

/-- **C11 for the current source, read-only clause.** -/
theorem c11_readonly_command {α β : Type} (env : Env α β) (file : α) :
    ∀ p ∈ A2Verif.Gen.CmdSkel.all, isWriter p.1 = false → (exec env p.2 file).2 = file :=
  fun p hp hw => readonly_never_changes env p.2 file (nonwriter_handlers_readOnly p hp hw)

/-! ## non-vacuity and sensitivity -/

/-- the shape of `mput`: load, loop over items (parse, put), save, return -/
def mputGood : Skel :=
  .seq .load (.seq (.fallible 1 catLoad)
    (.seq (.forEach 2 (.seq (.fallible 3 catOther) (.seq (.mutate 4) (.fallible 5 catMutate))))
      (.seq (.save 6 false) .retOk)))

/-- the same with the save moved into the loop -/
def mputBad : Skel :=
  .seq .load (.seq (.fallible 1 catLoad)
    (.seq (.forEach 2 (.seq (.fallible 3 catOther) (.seq (.mutate 4) (.seq (.fallible 5 catMutate) (.save 6 false)))))
      .retOk))

example : SaveLast mputGood = true := by decide
example : SaveLast mputBad = false := by decide
example : SaveLast (.seq (.save 1 false) (.seq (.fallible 2 0) .retOk)) = false := by decide
example : SaveLast (.seq (.save 1 false) (.seq (.panicSite 2 0) .retOk)) = false := by decide
example : SaveLast (.seq (.save 1 false) .retErr) = false := by decide
example : SaveLast (.seq (.save 1 false) .skip) = false := by decide
example : SaveLast (.forEach 1 (.seq (.fallible 2 0) (.seq (.save 3 false) .retOk))) = true := by decide
example : SaveLast (.forEach 1 (.seq (.fallible 2 0) (.seq (.save 3 false) .cnt))) = false := by decide
example : SaveLast (.call (.seq (.save 1 false) .retOk) .skip .retErr) = false := by decide
example : SaveLast (.call (.seq (.save 1 false) .retOk) .retOk .retErr) = true := by decide

/-- environment for a batch of three items whose third `put` fails: files are `Nat`s, a mutation
adds one -/
def env3 : Env Nat Nat :=
  { fails := fun site stk => site == 5 && stk == [2], left := fun _ _ => true, count := fun _ _ => 3,
    mu := fun _ _ m => m + 1, dec := id, enc := id, init := 0 }

/-- the good skeleton exits with an error and the file is untouched … -/
example : exec env3 mputGood 10 = (Exit.err, 10) := by decide
/-- … the bad one has written two items when the third fails: `SaveLast` is not decoration -/
example : exec env3 mputBad 10 = (Exit.err, 12) := by decide
/-- and without failure the change becomes permanent -/
example : exec { env3 with fails := fun _ _ => false } mputGood 10 = (Exit.ok, 13) := by decide

end A2Verif.C11
