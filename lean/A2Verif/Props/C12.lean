import A2Verif.Model.Robust
import A2Verif.Model.RobustWoz
import A2Verif.Model.RobustDetok
import A2Verif.Model.RobustFatChain
import A2Verif.Lemmas.RobustImd
import A2Verif.Model.RobustPascal
import A2Verif.Model.RobustMg2
import A2Verif.Model.RobustTd0
/-!
# C12 — malformed input yields an error, never a crash or hang: the modelled parsing fronts

For every modelled front `F`:
* `F_fixed_no_panic : ∀ input, FFixed input ≠ panic` — the repaired code never panics (and the model is a total
  function, so it terminates: loops are structural recursion or recursion on the Rust's own caps);
* an `example` proving that the code as at the pinned snapshot *does* panic on a concrete witness (`…Orig … = panic`),
  which the harness replays on the real code;
* `F_now_no_panic` — the same statement about the code as it is *now* (model selected by the flags that
  translator/gen_c12.py reads off the source).  It is provable exactly when the guards are present.
-/
namespace A2Verif.C12
open A2Verif.Model.Robust

/-! ## `FileImage::from_json`: version string -/

/-- C12, file image JSON: with the checked version parser `from_json` never panics, whatever the version
string and whatever the rest of the JSON tree says. -/
theorem fromJson_fixed_no_panic (v : Option (List Nat)) (r : FimgRest) : fromJsonFront true v r ≠ .panic := by
  unfold fromJsonFront
  cases v with
  | none => simp
  | some s =>
    simp only [if_true]
    cases h : tryVersionTuple s with
    | none => simp
    | some t =>
      simp only
      split <;> (try split) <;> (try split) <;> (try split) <;> simp

/-- the checked parser refuses exactly the strings on which the original panics … -/
theorem versionTupleOrig_panic_iff (s : List Nat) : versionTupleOrig s = .panic ↔ tryVersionTuple s = none := by
  unfold versionTupleOrig tryVersionTuple
  cases (splitDot s).mapM parseUsize with
  | none => simp
  | some v =>
    simp only
    cases v[0]? <;> cases v[1]? <;> cases v[2]? <;> simp

/-- … and returns the same tuple on all others (the repair changes no accepted input). -/
theorem versionTuple_agree (s : List Nat) (t : Nat × Nat × Nat) (h : tryVersionTuple s = some t) :
    versionTupleOrig s = .ok t := by
  unfold versionTupleOrig
  unfold tryVersionTuple at h
  cases hm : (splitDot s).mapM parseUsize with
  | none => simp [hm] at h
  | some v =>
    simp only [hm] at h ⊢
    cases h0 : v[0]? <;> cases h1 : v[1]? <;> cases h2 : v[2]? <;> simp_all

/-- non-vacuity: `"2.1.0"` is accepted with the expected tuple, by both parsers -/
example : tryVersionTuple [50, 46, 49, 46, 48] = some (2, 1, 0) ∧ versionTupleOrig [50, 46, 49, 46, 48] = .ok (2, 1, 0) := by decide

/-- DESIGN §9 item 13, witnesses: `{"fimg_version":"abc"}` (expect) and `"2.1"` (index) panic in the code as at the snapshot -/
example : fromJsonFront false (some [97, 98, 99]) ⟨true, true, true⟩ = .panic := by decide
example : fromJsonFront false (some [50, 46, 49]) ⟨true, true, true⟩ = .panic := by decide
example : fromJsonFront false (some [49, 56, 52, 52, 54, 55, 52, 52, 48, 55, 51, 55, 48, 57, 53, 53, 49, 54, 49, 54, 46, 48, 46, 48]) ⟨true, true, true⟩ = .panic := by decide
/-- the same inputs are refused (`err`) by the repaired code; a good version passes -/
example : fromJsonFront true (some [97, 98, 99]) ⟨true, true, true⟩ = .err := by decide
example : fromJsonFront true (some [50, 46, 49, 46, 48]) ⟨true, true, true⟩ = .ok () := by decide

/-- C12 for the code as it is now (needs `Gen.C12Flags.fimgTryVersion = true`) -/
theorem fromJson_now_no_panic (v : Option (List Nat)) (r : FimgRest) : fromJsonNow v r ≠ .panic := by
  have h : Gen.C12Flags.fimgTryVersion = true := by decide
  unfold fromJsonNow
  rw [h]
  exact fromJson_fixed_no_panic v r

/-! ## FAT boot sector -/

/-- the generated allow-list of sectors per cluster does not contain 0 (re-proved against the source) -/
theorem secPerClus_nonzero : ∀ n, Gen.C12Flags.bpbSecPerClus.contains n = true → n ≠ 0 := by
  intro n h hn
  subst hn
  revert h
  decide

/-- C12, identifying and mounting a FAT image: if `BootSector::verify` *requires* the BPB test, then for every
sector-0 content `test_img` + `from_img` return (mounted with a FAT type, or "not FAT"), they never divide by
zero or underflow. -/
theorem fatMount_fixed_no_panic (sec : List Nat) : fatMount true sec ≠ .panic := by
  unfold fatMount
  split
  · simp
  · rename_i hlen
    simp only
    generalize parseBpb sec _ = b
    split
    · rename_i hv
      unfold Bpb.verify at hv
      simp only [if_true] at hv
      have hov : ¬ b.totSec ≤ b.overhead := by
        intro hle
        simp [hle] at hv
      simp only [hov, if_false] at hv
      have hfs : ¬ b.fatSecs = 0 := by
        intro hz
        simp [hz] at hv
      simp only [hfs, if_false, Bool.and_eq_true] at hv
      have hf := hv.2
      unfold Bpb.foundationOk at hf
      simp only [Bool.and_eq_true] at hf
      have hspc : b.secPerClus ≠ 0 := secPerClus_nonzero _ hf.1.1.1.1.2
      unfold Bpb.fatType
      have h1 : ¬ b.totSec < b.overhead := by omega
      simp [h1, hspc]
    · simp

/-- DESIGN §9 item 14, witness: a sector with the 55 AA signature, `sec_per_clus = 0` and otherwise plausible
counts is accepted by the or-form of `verify` and then divides by zero; the and-form refuses it. -/
def badBootSector : List Nat :=
  [0xEB, 0x3C, 0x90] ++ List.replicate 8 0x20 ++ [0x00, 0x02, 0x00, 0x01, 0x00, 0x02, 0x70, 0x00, 0xD0, 0x02, 0xFD, 0x02, 0x00]
  ++ List.replicate 486 0 ++ [0x55, 0xAA]

example : badBootSector.length = 512 := by decide +kernel
example : fatMount false badBootSector = .panic := by decide +kernel
example : fatMount true badBootSector = .err := by decide +kernel

/-- non-vacuity: the boot sector of a 360K disk mounts as FAT12 in both forms -/
def goodBootSector : List Nat :=
  [0xEB, 0x3C, 0x90] ++ List.replicate 8 0x20 ++ [0x00, 0x02, 0x02, 0x01, 0x00, 0x02, 0x70, 0x00, 0xD0, 0x02, 0xFD, 0x02, 0x00]
  ++ List.replicate 486 0 ++ [0x55, 0xAA]

example : fatMount true goodBootSector = .ok 12 ∧ fatMount false goodBootSector = .ok 12 := by decide +kernel

/-- C12 for the code as it is now (needs `Gen.C12Flags.bpbVerifyAnd = true`) -/
theorem fatMount_now_no_panic (sec : List Nat) : fatMountNow sec ≠ .panic := by
  have h : Gen.C12Flags.bpbVerifyAnd = true := by decide
  unfold fatMountNow
  rw [h]
  exact fatMount_fixed_no_panic sec

/-! ## WOZ2 container: chunk walk and TRKS chunk -/

theorem trksUpdate_fixed_no_panic (len size : Nat) : trksUpdate true true len size ≠ .panic := by
  unfold trksUpdate
  simp only [Bool.true_and, decide_eq_true_eq]
  repeat' split
  all_goals first | (simp; done) | (exfalso; omega)

/-- a chunk handed out by `get_next_chunk` lies inside the buffer -/
theorem getNextChunk_body (ptr : Nat) (buf : List Nat) (off len : Nat)
    (h : (getNextChunk ptr buf).body = some (off, len)) : off + len ≤ buf.length := by
  unfold getNextChunk at h
  split at h
  · simp at h
  · simp only at h
    split at h
    · simp at h
    · split at h
      · simp only [Option.some.injEq, Prod.mk.injEq] at h
        omega
      · simp at h

theorem wozChunk_fixed_no_panic (g : Bool) (buf : List Nat) (st : WozState) (ptr : Nat) :
    wozChunk ⟨true, true, g⟩ buf st (getNextChunk ptr buf) ≠ .panic := by
  unfold wozChunk
  cases hb : (getNextChunk ptr buf).body with
  | none => simp
  | some p =>
    obtain ⟨off, len⟩ := p
    have hin := getNextChunk_body ptr buf off len hb
    simp only
    split
    · split
      · simp
      · rename_i hl
        have h8 : off + 8 < buf.length := by omega
        have h9 : off + 9 < buf.length := by omega
        have h45 : off + 45 < buf.length := by omega
        have h54 : off + 54 < buf.length := by omega
        have h55 : off + 55 < buf.length := by omega
        have h56 : off + 56 < buf.length := by omega
        have h57 : off + 57 < buf.length := by omega
        simp [h8, h9, h45, h54, h55, h56, h57]
    · split
      · split <;> simp
      · split
        · have := trksUpdate_fixed_no_panic len (len - 8)
          cases ht : trksUpdate true true len (len - 8) <;> simp_all
        · simp

theorem wozLoop_fixed_no_panic (g : Bool) (buf : List Nat) (ptr : Nat) (st : WozState) :
    wozLoop ⟨true, true, g⟩ buf ptr st ≠ .panic := by
  fun_induction wozLoop ⟨true, true, g⟩ buf ptr st with
  | case1 st => simp
  | case2 ptr st hp c he => simp
  | case3 ptr st hp c hpn => exact absurd hpn (wozChunk_fixed_no_panic g buf st ptr)
  | case4 ptr st hp c st' hok hn => simp
  | case5 ptr st hp c st' hok hn hlt ih => exact ih

/-- C12, identifying a WOZ2 image: with the two TRKS guards `Woz2::from_bytes` never panics on any byte string
(up to its last step `get_track_solution(0)`, which is a parameter), and its chunk walk terminates. -/
theorem woz2FromBytes_fixed_no_panic (g : Bool) (buf : List Nat) : woz2FromBytes ⟨true, true, g⟩ buf ≠ .panic := by
  unfold woz2FromBytes
  split
  · simp
  · split
    · simp
    · have := wozLoop_fixed_no_panic g buf 12 {}
      cases hl : wozLoop ⟨true, true, g⟩ buf 12 {} with
      | panic => exact absurd hl this
      | err => simp
      | ok st => simp only; split <;> (try split) <;> (try split) <;> simp

/-- DESIGN §9 item 17, witness: header + a TRKS chunk of size 16 panics in the code as at the snapshot and is
refused by the repaired code -/
def wozTrks16 : List Nat :=
  [0x57, 0x4f, 0x5a, 0x32, 0xff, 0x0a, 0x0d, 0x0a, 0, 0, 0, 0] ++ [0x54, 0x52, 0x4b, 0x53, 16, 0, 0, 0] ++ List.replicate 16 0

example : woz2FromBytes ⟨false, false, false⟩ wozTrks16 = .panic := by decide +kernel
example : woz2FromBytes ⟨true, true, true⟩ wozTrks16 = .err := by decide +kernel

/-- C12 for the code as it is now (needs both TRKS guards in the source) -/
theorem woz2FromBytes_now_no_panic (buf : List Nat) : woz2FromBytesNow buf ≠ .panic := by
  have h1 : Gen.C12Flags.woz2TrksLenGuard = true := by decide
  have h2 : Gen.C12Flags.woz2TrksSizeGuard = true := by decide
  unfold woz2FromBytesNow wozFlagsNow
  rw [h1, h2]
  exact woz2FromBytes_fixed_no_panic _ buf

/-! ## Detokenizers -/

theorem aLine_fixed_no_panic (img : List Nat) (la : Nat) : ∀ (fuel addr : Nat), aLine true img la fuel addr ≠ .panic := by
  intro fuel
  induction fuel with
  | zero => intro addr; simp [aLine]
  | succ n ih =>
    intro addr
    unfold aLine
    simp only [↓reduceIte]
    repeat' split
    all_goals first | exact ih _ | (simp; done)

theorem aProg_fixed_no_panic (img : List Nat) : ∀ (fuel addr : Nat), aProg true img fuel addr ≠ .panic := by
  intro fuel
  induction fuel with
  | zero => intro addr; simp [aProg]
  | succ n ih =>
    intro addr
    unfold aProg
    repeat' split
    all_goals first | exact ih _ | (simp; done) | (exfalso; apply aLine_fixed_no_panic img; assumption)

/-- C12, Applesoft detokenizer: with the bound test in front of the closing-quote test, `detokenize` returns
text or an error for every byte string; it terminates within `max_lines × max_line_length` steps. -/
theorem aDetok_fixed_no_panic (img : List Nat) : aDetok true img ≠ .panic :=
  aProg_fixed_no_panic img _ _

/-- DESIGN §9 item 18, witness `01 08 0A 00 22 41`: unterminated string at the end of the program -/
example : aDetok false [0x01, 0x08, 0x0A, 0x00, 0x22, 0x41] = .panic := by decide +kernel
example : aDetok true [0x01, 0x08, 0x0A, 0x00, 0x22, 0x41] = .ok () := by decide +kernel
/-- non-vacuity: `10 PRINT "HI"` detokenizes in both forms -/
example : aDetok false [0x0B, 0x08, 0x0A, 0x00, 0xBA, 0x22, 0x48, 0x49, 0x22, 0x00, 0x00, 0x00] = .ok () := by decide +kernel

theorem aDetok_now_no_panic (img : List Nat) : aDetokNow img ≠ .panic := by
  have h : Gen.C12Flags.applesoftQuoteGuard = true := by decide
  unfold aDetokNow
  rw [h]
  exact aDetok_fixed_no_panic img

theorem iScan_fixed_no_panic (terms : List Nat) : ∀ (l : List Nat) (idx : Nat), iScan true terms l idx ≠ .panic := by
  intro l
  induction l with
  | nil => intro idx; simp [iScan]
  | cons b rest ih =>
    intro idx
    unfold iScan
    simp only [↓reduceIte]
    repeat' split
    all_goals first | exact ih _ | (simp; done)

theorem iLine_fixed_no_panic (img : List Nat) : ∀ (fuel addr : Nat), iLine ⟨true, true⟩ img fuel addr ≠ .panic := by
  intro fuel
  induction fuel with
  | zero => intro addr; simp [iLine]
  | succ n ih =>
    intro addr
    unfold iLine
    simp only [↓reduceIte]
    repeat' split
    all_goals first | exact ih _ | (simp; done) | (exfalso; apply iScan_fixed_no_panic; assumption)

theorem iProg_fixed_no_panic (img : List Nat) : ∀ (fuel addr : Nat), iProg ⟨true, true⟩ img fuel addr ≠ .panic := by
  intro fuel
  induction fuel with
  | zero => intro addr; simp [iProg]
  | succ n ih =>
    intro addr
    unfold iProg
    repeat' split
    all_goals first | exact ih _ | (simp; done) | (exfalso; apply iLine_fixed_no_panic img; assumption)

/-- C12, Integer BASIC detokenizer: with the two guards `detokenize` never indexes out of range and never
underflows, for every byte string. -/
theorem iDetok_fixed_no_panic (img : List Nat) : iDetok ⟨true, true⟩ img ≠ .panic :=
  iProg_fixed_no_panic img _ _

/-- DESIGN §9 item 18, witness `05 0A 00 28 C1`, and the `is_hex` underflow `… 28 DC F8 30 30 29 01` -/
example : iDetok ⟨false, false⟩ [0x05, 0x0A, 0x00, 0x28, 0xC1] = .panic := by decide +kernel
example : iDetok ⟨true, false⟩ [0x05, 0x0A, 0x00, 0x28, 0xDC, 0xF8, 0x30, 0x30, 0x29, 0x01] = .panic := by decide +kernel
example : iDetok ⟨true, true⟩ [0x05, 0x0A, 0x00, 0x28, 0xC1] = .err := by decide +kernel
example : iDetok ⟨true, true⟩ [0x05, 0x0A, 0x00, 0x28, 0xDC, 0xF8, 0x30, 0x30, 0x29, 0x01] = .ok () := by decide +kernel

theorem iDetok_now_no_panic (img : List Nat) : iDetokNow img ≠ .panic := by
  have h1 : Gen.C12Flags.integerQuoteGuard = true := by decide
  have h2 : Gen.C12Flags.integerHexGuard = true := by decide
  unfold iDetokNow
  rw [h1, h2]
  exact iDetok_fixed_no_panic img

/-! ## FAT cluster chains versus the FAT buffer -/

/-- the range test with the *usable* count keeps `get_cluster` inside a buffer of `fatLen` bytes -/
theorem fatGet_in_range (typ n : Nat) (fat : List Nat) (u : Nat) (ht : typ = 12 ∨ typ = 16 ∨ typ = 32)
    (hu : u + 2 ≤ fat.length * 8 / typ) (hn : inRng u n = true) : fatGet typ n fat ≠ .panic := by
  simp only [inRng, Bool.and_eq_true, decide_eq_true_eq] at hn
  unfold fatGet
  rcases ht with h | h | h
  · subst h
    have h1 : n + n / 2 + 1 < fat.length := by omega
    have h0 : n + n / 2 < fat.length := by omega
    simp [h0, h1]
  · subst h
    have h1 : 2 * n + 1 < fat.length := by omega
    have h0 : 2 * n < fat.length := by omega
    simp [h0, h1]
  · subst h
    have h3 : 4 * n + 3 < fat.length := by omega
    have h2 : 4 * n + 2 < fat.length := by omega
    have h1 : 4 * n + 1 < fat.length := by omega
    have h0 : 4 * n < fat.length := by omega
    simp [h0, h1, h2, h3]

theorem nextCluster_no_panic (typ n : Nat) (fat : List Nat) (u : Nat) (ht : typ = 12 ∨ typ = 16 ∨ typ = 32)
    (hu : u + 2 ≤ fat.length * 8 / typ) : nextCluster typ u fat n ≠ .panic := by
  unfold nextCluster
  split
  · simp
  · rename_i hr
    have hr' : inRng u n = true := by simpa using hr
    have := fatGet_in_range typ n fat u ht hu hr'
    cases hg : fatGet typ n fat with
    | panic => exact absurd hg this
    | err => simp
    | ok v => simp only; split <;> (try split) <;> simp

theorem chainLoop_no_panic (typ : Nat) (fat : List Nat) (u : Nat) (readOk : Nat → Bool) (ht : typ = 12 ∨ typ = 16 ∨ typ = 32)
    (hu : u + 2 ≤ fat.length * 8 / typ) : ∀ (fuel curr cnt : Nat), chainLoop typ u fat readOk fuel curr cnt ≠ .panic := by
  intro fuel
  induction fuel with
  | zero => intro curr cnt; simp [chainLoop]
  | succ k ih =>
    intro curr cnt
    unfold chainLoop
    repeat' split
    all_goals first | exact ih _ _ | (simp; done) | (exfalso; apply nextCluster_no_panic typ curr fat u ht hu; assumption)

/-- `cluster_count_usable` never exceeds what the FAT buffer holds -/
theorem usableClusters_le (d len typ u : Nat) (h : usableClusters d len typ = .ok u) : u + 2 ≤ len * 8 / typ := by
  unfold usableClusters at h
  split at h
  · simp at h
  · simp only [Outcome.ok.injEq] at h
    omega

/-- C12, reading a file or directory of a mounted FAT volume: whatever the first-cluster field and the FAT
contain, following the chain never indexes outside the FAT buffer and ends after at most `usable` steps —
provided the FAT has room for at least the two reserved entries (true after `BootSector::verify`: at least one
sector of at least 512 bytes) and the range test uses the usable count (checked in the source by the translator). -/
theorem fatFetch_no_panic (d typ : Nat) (fat : List Nat) (readOk : Nat → Bool) (first : Nat)
    (ht : typ = 12 ∨ typ = 16 ∨ typ = 32) (hcap : 2 ≤ fat.length * 8 / typ) : fatFetch d typ fat readOk first ≠ .panic := by
  unfold fatFetch
  cases hu : usableClusters d fat.length typ with
  | panic =>
    unfold usableClusters at hu
    split at hu
    · omega
    · simp at hu
  | err => simp
  | ok u =>
    have hle := usableClusters_le d fat.length typ u hu
    simp only
    unfold chainWalk
    split
    · simp
    · split
      · simp
      · exact chainLoop_no_panic typ fat u readOk ht hle _ _ _

/-- the seeded mutant (range test against the *abstract* count, i.e. the data clusters): a 180K volume has 353
data clusters and a 512-byte FAT; first cluster 341 is "in range" and the walk indexes byte 512 -/
example : chainWalk 12 353 (List.replicate 512 0) (fun _ => true) 341 = .panic := by decide +kernel
example : fatFetch 353 12 (List.replicate 512 0) (fun _ => true) 341 = .err := by decide +kernel
/-- non-vacuity: a two-cluster chain 2 → 3 → EOC is walked -/
example : fatFetch 353 12 ([0xFC, 0xFF, 0xFF, 0x03, 0xF0, 0xFF] ++ List.replicate 506 0) (fun _ => true) 2 = .ok 2 := by decide +kernel

/-! ## IMD container -/

def wfTrack (t : ImdTrack) : Prop := wfSecs t.shift t.nsec t.tbuf = true

theorem parseTrack_spec (bytes : List Nat) :
    parseTrack bytes ≠ .panic ∧ ∀ t extra, parseTrack bytes = .ok (t, extra) → wfTrack t := by
  unfold parseTrack
  split
  · rename_i m cy head nsec shift rest
    split
    · simp
    · split
      · simp
      · split
        · simp
        · split
          · simp
          · rename_i tb r hps
            refine ⟨by simp, ?_⟩
            intro t extra h
            simp only [Outcome.ok.injEq, Prod.mk.injEq] at h
            obtain ⟨ht, _⟩ := h
            subst ht
            exact parseSecs_wf shift nsec _ tb r hps
  · simp

theorem imdLoop_spec (rem : List Nat) (acc : List ImdTrack) (hacc : ∀ t ∈ acc, wfTrack t) :
    imdLoop rem acc ≠ .panic ∧ ∀ ts, imdLoop rem acc = .ok ts → ∀ t ∈ ts, wfTrack t := by
  fun_induction imdLoop rem acc with
  | case1 acc =>
    refine ⟨by simp, ?_⟩
    intro ts h t ht
    simp only [Outcome.ok.injEq] at h
    subst h
    exact hacc t (by simpa using ht)
  | case2 acc x xs he => simp
  | case3 acc x xs hp => exact absurd hp (parseTrack_spec (x :: xs)).1
  | case4 acc x xs t extra hok he => simp
  | case5 acc x xs t extra hok hp =>
    have hw := (parseTrack_spec (x :: xs)).2 t extra hok
    obtain ⟨tb', h1, _⟩ := expandScan_wf t.shift t.nsec t.tbuf hw
    rw [h1] at hp
    simp at hp
  | case6 acc x xs t extra hok tb' hex ih =>
    apply ih
    intro u hu
    simp only [List.mem_cons] at hu
    rcases hu with hu | hu
    · subst hu
      have hw := (parseTrack_spec (x :: xs)).2 t extra hok
      obtain ⟨tb2, h1, h2⟩ := expandScan_wf t.shift t.nsec t.tbuf hw
      rw [h1] at hex
      simp only [Outcome.ok.injEq] at hex
      subst hex
      exact h2
    · exact hacc u hu

theorem capAll_wf : ∀ (ts : List ImdTrack), (∀ t ∈ ts, wfTrack t) → capAll ts ≠ .panic := by
  intro ts
  induction ts with
  | nil => intro _; simp [capAll]
  | cons t ts ih =>
    intro h
    unfold capAll
    have h1 := capScan_wf t.shift t.nsec t.tbuf (h t (by simp))
    have h2 := ih (fun u hu => h u (by simp [hu]))
    cases hc : capScan t.shift t.nsec t.tbuf with
    | panic => exact absurd hc h1
    | err => simp
    | ok n =>
      simp only
      cases hd : capAll ts with
      | panic => exact absurd hd h2
      | err => simp
      | ok m => simp

/-- C12, identifying an IMD image: `Imd::from_bytes` returns an image or an error for every byte string — the
record buffers that `update_from_bytes` accepts are well formed, `expand` keeps them well formed, and the
re-scans in `expand` and `byte_capacity` (which `panic!` on an unknown type byte and index without a test) only
ever see well formed buffers.  The track loop terminates because every record consumes at least 5 bytes. -/
theorem imdFromBytes_no_panic (data : List Nat) : imdFromBytes data ≠ .panic := by
  unfold imdFromBytes
  split
  · simp
  · split
    · split
      · simp
      · simp only
        split
        · simp
        · split
          · simp
          · split
            · simp
            · rename_i hp
              exact absurd hp (imdLoop_spec _ [] (by simp)).1
            · rename_i tracks hl
              split
              · simp
              · split
                · simp
                · simp
                · rename_i hc
                  exact absurd hc (capAll_wf tracks ((imdLoop_spec _ [] (by simp)).2 tracks hl))
    · simp

/-- what the guards are for: the re-scan of a buffer that `update_from_bytes` would *not* have accepted panics
(unknown type byte 9; a data record cut short) -/
example : expandScan 0 1 [9] = .panic := by decide
example : expandScan 0 1 [1, 0, 0] = .panic := by decide
example : capScan 0 2 [0] = .panic := by decide
/-- non-vacuity: header, comment "HI", one track of two sectors (one compressed, one unavailable) is accepted;
without the 0x1A it is refused -/
def imdSample : List Nat :=
  [73, 77, 68, 32, 49, 46] ++ List.replicate 23 32 ++ [72, 73, 0x1a] ++ [5, 0, 0, 2, 0, 1, 2, 2, 0xE5, 0]
example : imdFromBytes imdSample = .ok () := by decide +kernel
example : imdFromBytes (imdSample.take 31) = .err := by decide +kernel

/-! ## Pascal directory -/

theorem pasGather_length (img : Nat → Option (List Nat)) (hblk : ∀ b v, img b = some v → v.length = 512) :
    ∀ (k b : Nat) (buf : List Nat), pasGather img k b = some buf → buf.length = 512 * k := by
  intro k
  induction k with
  | zero => intro b buf h; simp [pasGather] at h; subst h; simp
  | succ k ih =>
    intro b buf h
    unfold pasGather at h
    split at h
    · simp at h
    · rename_i v hv
      cases hg : pasGather img k (b + 1) with
      | none => simp [hg] at h
      | some rest =>
        simp only [hg, Option.map_some, Option.some.injEq] at h
        subst h
        rw [List.length_append, hblk b v hv, ih _ _ hg]
        omega

theorem rd16_ok (xs : List Nat) (i : Nat) (h : i + 1 < xs.length) : ∃ v, rd16 xs i = .ok v := by
  unfold rd16
  have h0 : i < xs.length := by omega
  simp [h0, h]

/-- `get_directory` cannot panic, and what it returns satisfies `num_files ≤ entries.len()` with every entry
inside the buffer -/
theorem pasGetDirectory_spec (img : Nat → Option (List Nat)) (hblk : ∀ b v, img b = some v → v.length = 512) :
    pasGetDirectory img ≠ .panic ∧
    ∀ d, pasGetDirectory img = .ok d → d.numFiles ≤ d.nEntries ∧ 26 * (d.nEntries + 1) ≤ d.buf.length := by
  unfold pasGetDirectory
  cases h2 : img 2 with
  | none => simp
  | some b2 =>
    have hl := hblk 2 b2 h2
    simp only
    have hnl : ¬ b2.length < 26 := by omega
    simp only [hnl, if_false]
    obtain ⟨v0, e0⟩ := rd16_ok b2 0 (by omega)
    obtain ⟨v2, e2⟩ := rd16_ok b2 2 (by omega)
    obtain ⟨v14, e14⟩ := rd16_ok b2 14 (by omega)
    obtain ⟨v16, e16⟩ := rd16_ok b2 16 (by omega)
    simp only [e0, e2, e14, e16]
    split
    · simp
    · rename_i hhdr
      cases hg : pasGather img (v2 - 2) 2 with
      | none => simp
      | some buf =>
        have hlen := pasGather_length img hblk _ _ _ hg
        simp only
        have h1 : ¬ buf.length / 26 < 1 := by omega
        have h2' : ¬ 26 * (buf.length / 26 - 1 + 1) > buf.length := by omega
        simp only [h1, h2', if_false]
        split
        · simp
        · refine ⟨by simp, ?_⟩
          intro d hd
          simp only [Outcome.ok.injEq] at hd
          subst hd
          simp only
          omega

theorem pasScan_no_panic (d : PasDir) (hb : 26 * (d.nEntries + 1) ≤ d.buf.length) :
    ∀ (k i : Nat), i + k ≤ d.nEntries → pasScan d k i ≠ .panic := by
  intro k
  induction k with
  | zero => intro i _; simp [pasScan]
  | succ k ih =>
    intro i hik
    unfold pasScan
    have hi : ¬ i ≥ d.nEntries := by omega
    simp only [hi, if_false]
    obtain ⟨a, ea⟩ := rd16_ok d.buf (26 * (i + 1)) (by omega)
    obtain ⟨b, eb⟩ := rd16_ok d.buf (26 * (i + 1) + 2) (by omega)
    simp only [ea, eb]
    have := ih (i + 1) (by omega)
    cases hs : pasScan d k (i + 1) with
    | panic => exact absurd hs this
    | err => simp
    | ok n => simp

/-- C12, identifying/mounting/listing a Pascal volume: for every image content (blocks are 512 bytes, reads
outside the image fail) loading the directory and scanning its `num_files` entries never slices or indexes out
of range — this is what the test `num_files ≤ entries.len()` in `get_directory` buys. -/
theorem pasReadDir_no_panic (img : Nat → Option (List Nat)) (hblk : ∀ b v, img b = some v → v.length = 512) :
    pasReadDir img ≠ .panic := by
  unfold pasReadDir
  have hs := pasGetDirectory_spec img hblk
  cases hd : pasGetDirectory img with
  | panic => exact absurd hd hs.1
  | err => simp
  | ok d =>
    have := hs.2 d hd
    exact pasScan_no_panic d this.2 d.numFiles 0 (by omega)

/-- `read_file`: the guard makes the `u32` subtraction safe -/
theorem pasEof_no_panic (chunks rem : Nat) : pasEof chunks rem ≠ .panic := by
  unfold pasEof
  repeat' split
  all_goals first | (simp; done) | omega

/-- what the file-count test is for: 19 files claimed in a 1-block directory (18 entries) -/
example : pasScan ⟨280, 19, List.replicate 512 0, 18⟩ 19 0 = .panic := by decide +kernel
/-- non-vacuity: a directory of one block (2..3) with no files loads and scans -/
example : pasReadDir (fun b => if b < 280 then some (if b = 2 then [0, 0, 3, 0, 0, 0, 5] ++ List.replicate 7 65 ++ [24, 1, 0, 0] ++ List.replicate 494 0 else List.replicate 512 0) else none) = .ok 0 := by decide +kernel

/-! ## 2MG container -/

theorem rd32_ok (h : List Nat) (i : Nat) (hi : i + 3 < h.length) : ∃ v, rd32 h i = .ok v := by
  unfold rd32
  have h0 : i < h.length := by omega
  have h1 : i + 1 < h.length := by omega
  have h2 : i + 2 < h.length := by omega
  simp [h0, h1, h2, hi]

/-- C12, identifying a 2MG image: for every 64-byte header and every file length `Dot2mg::from_bytes` returns an
image or an error; the three slices it takes are all preceded by a sufficient length test. -/
theorem mg2FromBytes_no_panic (hdr : List Nat) (fileLen : Nat) (nib : Bool) (hh : hdr.length = 64) :
    mg2FromBytes hdr fileLen nib ≠ .panic := by
  unfold mg2FromBytes
  split
  · simp
  · obtain ⟨v0, e0⟩ := rd32_ok hdr 0 (by omega)
    obtain ⟨v12, e12⟩ := rd32_ok hdr 12 (by omega)
    obtain ⟨v20, e20⟩ := rd32_ok hdr 20 (by omega)
    obtain ⟨v24, e24⟩ := rd32_ok hdr 24 (by omega)
    obtain ⟨v28, e28⟩ := rd32_ok hdr 28 (by omega)
    obtain ⟨v32, e32⟩ := rd32_ok hdr 32 (by omega)
    obtain ⟨v36, e36⟩ := rd32_ok hdr 36 (by omega)
    obtain ⟨v40, e40⟩ := rd32_ok hdr 40 (by omega)
    obtain ⟨v44, e44⟩ := rd32_ok hdr 44 (by omega)
    have hs : ∀ a b : Nat, ¬ fileLen < a + b → sliceOk fileLen a (a + b) = true := by
      intro a b h
      simp only [sliceOk, Bool.and_eq_true, decide_eq_true_eq]
      omega
    simp only [e0, e12, e20, e24, e28, e32, e36, e40, e44]
    split
    · simp
    · split
      · simp
      · split
        · simp
        · rename_i hl
          simp only [hs _ _ hl, Bool.not_true, Bool.false_eq_true, if_false]
          by_cases hc : fileLen < v32 + v36 <;> by_cases hr : fileLen < v40 + v44
          · simp only [hc, hr, not_true_eq_false, false_and, if_false]
            repeat' split
            all_goals simp
          · simp only [hc, hs _ _ hr, not_true_eq_false, false_and, if_false, Bool.not_true, Bool.false_eq_true, and_false]
            repeat' split
            all_goals simp
          · simp only [hr, hs _ _ hc, not_true_eq_false, false_and, if_false, Bool.not_true, Bool.false_eq_true, and_false]
            repeat' split
            all_goals simp
          · simp only [hs _ _ hc, hs _ _ hr, Bool.not_true, Bool.false_eq_true, and_false, if_false]
            repeat' split
            all_goals simp

/-- non-vacuity: a ProDOS-order 140K payload behind a 64-byte header is accepted; with `blocks` off by one it is refused -/
def mg2Header (blocks : Nat) : List Nat :=
  [0x32, 0x49, 0x4D, 0x47, 0x32, 0x4B, 0x49, 0x54, 64, 0, 1, 0, 1, 0, 0, 0, 0, 0, 0, 0, blocks % 256, blocks / 256, 0, 0, 64, 0, 0, 0, 0, 0x30, 2, 0]
  ++ List.replicate 32 0
example : mg2FromBytes (mg2Header 280) (64 + 143360) false = .ok () := by decide
example : mg2FromBytes (mg2Header 281) (64 + 143360) false = .err := by decide
example : mg2FromBytes (mg2Header 280) (64 + 143359) false = .err := by decide

/-! ## TD0 sector records (partial: the record loop of `Td0::from_bytes` itself is covered by the oracle only) -/

theorem td0Repeated_no_panic (size : Nat) : ∀ (fuel : Nat) (data : List Nat) (h : Nat), data.length ≤ fuel →
    td0Repeated size data h ≠ .panic := by
  intro fuel
  induction fuel with
  | zero =>
    intro data h hl
    have : data = [] := List.length_eq_zero_iff.mp (by omega)
    subst this
    unfold td0Repeated
    split <;> simp
  | succ k ih =>
    intro data h hl
    unfold td0Repeated
    split
    · split
      · apply ih
        simp only [List.length_cons] at hl
        omega
      · simp
    · split <;> simp

theorem td0RunLength_no_panic (size : Nat) : ∀ (fuel : Nat) (data : List Nat) (h : Nat), td0RunLength size fuel data h ≠ .panic := by
  intro fuel
  induction fuel with
  | zero => intro data h; unfold td0RunLength; split <;> simp
  | succ k ih =>
    intro data h
    unfold td0RunLength
    repeat' split
    all_goals first | exact ih _ _ | (simp; done)

theorem td0Payload_no_panic (size enc : Nat) (rest : List Nat) : td0Payload size enc rest ≠ .panic := by
  unfold td0Payload
  split
  · split <;> simp
  · split
    · exact td0Repeated_no_panic size rest.length rest 0 (by omega)
    · split
      · exact td0RunLength_no_panic size _ rest 0
      · simp

/-- C12 (partial), reading a TD0 sector: with a size code below 64 — `Td0::from_bytes` refuses codes above 6 —
`Sector::unpack` returns data or an error for every record content. -/
theorem td0Unpack_partial (shift flags : Nat) (data : List Nat) (hs : shift < 64) : td0Unpack shift flags data ≠ .panic := by
  unfold td0Unpack
  have : ¬ shift ≥ 64 := by omega
  simp only [this, if_false]
  split
  · simp
  · split
    · rename_i a b enc rest
      have := td0Payload_no_panic (128 * 2 ^ shift) enc rest
      cases hr : td0Payload (128 * 2 ^ shift) enc rest with
      | panic => exact absurd hr this
      | err => simp
      | ok n => simp only; split <;> simp
    · simp

/-- the three TD0 guards are in the source now (false on a tree without `c12-td0-from-bytes-checks.diff`, where the
oracle stream `td0/from_bytes` supplies the inputs: no terminator, no tracks, size code 64) -/
theorem td0Guards_now : Gen.C12Flags.td0ShiftGuard = true ∧ Gen.C12Flags.td0TermGuard = true ∧ Gen.C12Flags.td0TracksGuard = true := by
  decide

/-- DESIGN §9 item 16, witness: size code 64 -/
example : td0Unpack 64 0 [5, 0, 1, 64, 0, 0xE5, 0xE5] = .panic := by decide
example : td0Unpack 0 0 [5, 0, 1, 64, 0, 0xE5, 0xE5] = .ok () := by decide
example : td0Unpack 0 0 [5, 0, 1, 63, 0, 0xE5, 0xE5] = .err := by decide

end A2Verif.C12
