import A2Verif.Model.Robust
import A2Verif.Model.RobustWoz
import A2Verif.Model.RobustDetok
/-!
# C12 — malformed input yields an error, never a crash or hang: the modelled parsing fronts

For every modelled front `F`:
* `F_fixed_no_panic : ∀ input, FFixed input ≠ panic` — the repaired code never panics (and the model is a total
  function, so it terminates: loops are structural recursion or recursion on the Rust's own caps);
* an `example` proving that the code as at the pinned snapshot *does* panic on a concrete witness (`…Orig … = panic`),
  which the harness replays on the real code;
* `F_now_no_panic` — the same statement about the code as it is *now* (model selected by the flags that
  translator/gen_c12.py reads off the source).  It is provable exactly when the guards are present.
-/
namespace A2Verif.C12
open A2Verif.Model.Robust

/-! ## `FileImage::from_json`: version string -/

/-- C12, file image JSON: with the checked version parser `from_json` never panics, whatever the version
string and whatever the rest of the JSON tree says. -/
theorem fromJson_fixed_no_panic (v : Option (List Nat)) (r : FimgRest) : fromJsonFront true v r ≠ .panic := by
  unfold fromJsonFront
  cases v with
  | none => simp
  | some s =>
    simp only [if_true]
    cases h : tryVersionTuple s with
    | none => simp
    | some t =>
      simp only
      split <;> (try split) <;> (try split) <;> (try split) <;> simp

/-- the checked parser refuses exactly the strings on which the original panics … -/
theorem versionTupleOrig_panic_iff (s : List Nat) : versionTupleOrig s = .panic ↔ tryVersionTuple s = none := by
  unfold versionTupleOrig tryVersionTuple
  cases (splitDot s).mapM parseUsize with
  | none => simp
  | some v =>
    simp only
    cases v[0]? <;> cases v[1]? <;> cases v[2]? <;> simp

/-- … and returns the same tuple on all others (the repair changes no accepted input). -/
theorem versionTuple_agree (s : List Nat) (t : Nat × Nat × Nat) (h : tryVersionTuple s = some t) :
    versionTupleOrig s = .ok t := by
  unfold versionTupleOrig
  unfold tryVersionTuple at h
  cases hm : (splitDot s).mapM parseUsize with
  | none => simp [hm] at h
  | some v =>
    simp only [hm] at h ⊢
    cases h0 : v[0]? <;> cases h1 : v[1]? <;> cases h2 : v[2]? <;> simp_all

/-- non-vacuity: `"2.1.0"` is accepted with the expected tuple, by both parsers -/
example : tryVersionTuple [50, 46, 49, 46, 48] = some (2, 1, 0) ∧ versionTupleOrig [50, 46, 49, 46, 48] = .ok (2, 1, 0) := by decide

/-- DESIGN §9 item 13, witnesses: `{"fimg_version":"abc"}` (expect) and `"2.1"` (index) panic in the code as at the snapshot -/
example : fromJsonFront false (some [97, 98, 99]) ⟨true, true, true⟩ = .panic := by decide
example : fromJsonFront false (some [50, 46, 49]) ⟨true, true, true⟩ = .panic := by decide
example : fromJsonFront false (some [49, 56, 52, 52, 54, 55, 52, 52, 48, 55, 51, 55, 48, 57, 53, 53, 49, 54, 49, 54, 46, 48, 46, 48]) ⟨true, true, true⟩ = .panic := by decide
/-- the same inputs are refused (`err`) by the repaired code; a good version passes -/
example : fromJsonFront true (some [97, 98, 99]) ⟨true, true, true⟩ = .err := by decide
example : fromJsonFront true (some [50, 46, 49, 46, 48]) ⟨true, true, true⟩ = .ok () := by decide

/-- C12 for the code as it is now (needs `Gen.C12Flags.fimgTryVersion = true`) -/
theorem fromJson_now_no_panic (v : Option (List Nat)) (r : FimgRest) : fromJsonNow v r ≠ .panic := by
  have h : Gen.C12Flags.fimgTryVersion = true := by decide
  unfold fromJsonNow
  rw [h]
  exact fromJson_fixed_no_panic v r

/-! ## FAT boot sector -/

/-- the generated allow-list of sectors per cluster does not contain 0 (re-proved against the source) -/
theorem secPerClus_nonzero : ∀ n, Gen.C12Flags.bpbSecPerClus.contains n = true → n ≠ 0 := by
  intro n h hn
  subst hn
  revert h
  decide

/-- C12, identifying and mounting a FAT image: if `BootSector::verify` *requires* the BPB test, then for every
sector-0 content `test_img` + `from_img` return (mounted with a FAT type, or "not FAT"), they never divide by
zero or underflow. -/
theorem fatMount_fixed_no_panic (sec : List Nat) : fatMount true sec ≠ .panic := by
  unfold fatMount
  split
  · simp
  · rename_i hlen
    simp only
    generalize parseBpb sec _ = b
    split
    · rename_i hv
      unfold Bpb.verify at hv
      simp only [if_true] at hv
      have hov : ¬ b.totSec ≤ b.overhead := by
        intro hle
        simp [hle] at hv
      simp only [hov, if_false] at hv
      have hfs : ¬ b.fatSecs = 0 := by
        intro hz
        simp [hz] at hv
      simp only [hfs, if_false, Bool.and_eq_true] at hv
      have hf := hv.2
      unfold Bpb.foundationOk at hf
      simp only [Bool.and_eq_true] at hf
      have hspc : b.secPerClus ≠ 0 := secPerClus_nonzero _ hf.1.1.1.1.2
      unfold Bpb.fatType
      have h1 : ¬ b.totSec < b.overhead := by omega
      simp [h1, hspc]
    · simp

/-- DESIGN §9 item 14, witness: a sector with the 55 AA signature, `sec_per_clus = 0` and otherwise plausible
counts is accepted by the or-form of `verify` and then divides by zero; the and-form refuses it. -/
def badBootSector : List Nat :=
  [0xEB, 0x3C, 0x90] ++ List.replicate 8 0x20 ++ [0x00, 0x02, 0x00, 0x01, 0x00, 0x02, 0x70, 0x00, 0xD0, 0x02, 0xFD, 0x02, 0x00]
  ++ List.replicate 486 0 ++ [0x55, 0xAA]

example : badBootSector.length = 512 := by decide +kernel
example : fatMount false badBootSector = .panic := by decide +kernel
example : fatMount true badBootSector = .err := by decide +kernel

/-- non-vacuity: the boot sector of a 360K disk mounts as FAT12 in both forms -/
def goodBootSector : List Nat :=
  [0xEB, 0x3C, 0x90] ++ List.replicate 8 0x20 ++ [0x00, 0x02, 0x02, 0x01, 0x00, 0x02, 0x70, 0x00, 0xD0, 0x02, 0xFD, 0x02, 0x00]
  ++ List.replicate 486 0 ++ [0x55, 0xAA]

example : fatMount true goodBootSector = .ok 12 ∧ fatMount false goodBootSector = .ok 12 := by decide +kernel

/-- C12 for the code as it is now (needs `Gen.C12Flags.bpbVerifyAnd = true`) -/
theorem fatMount_now_no_panic (sec : List Nat) : fatMountNow sec ≠ .panic := by
  have h : Gen.C12Flags.bpbVerifyAnd = true := by decide
  unfold fatMountNow
  rw [h]
  exact fatMount_fixed_no_panic sec

/-! ## WOZ2 container: chunk walk and TRKS chunk -/

theorem trksUpdate_fixed_no_panic (len size : Nat) : trksUpdate true true len size ≠ .panic := by
  unfold trksUpdate
  simp only [Bool.true_and, decide_eq_true_eq]
  repeat' split
  all_goals first | (simp; done) | (exfalso; omega)

/-- a chunk handed out by `get_next_chunk` lies inside the buffer -/
theorem getNextChunk_body (ptr : Nat) (buf : List Nat) (off len : Nat)
    (h : (getNextChunk ptr buf).body = some (off, len)) : off + len ≤ buf.length := by
  unfold getNextChunk at h
  split at h
  · simp at h
  · simp only at h
    split at h
    · simp at h
    · split at h
      · simp only [Option.some.injEq, Prod.mk.injEq] at h
        omega
      · simp at h

theorem wozChunk_fixed_no_panic (g : Bool) (buf : List Nat) (st : WozState) (ptr : Nat) :
    wozChunk ⟨true, true, g⟩ buf st (getNextChunk ptr buf) ≠ .panic := by
  unfold wozChunk
  cases hb : (getNextChunk ptr buf).body with
  | none => simp
  | some p =>
    obtain ⟨off, len⟩ := p
    have hin := getNextChunk_body ptr buf off len hb
    simp only
    split
    · split
      · simp
      · rename_i hl
        have h8 : off + 8 < buf.length := by omega
        have h9 : off + 9 < buf.length := by omega
        have h45 : off + 45 < buf.length := by omega
        have h54 : off + 54 < buf.length := by omega
        have h55 : off + 55 < buf.length := by omega
        have h56 : off + 56 < buf.length := by omega
        have h57 : off + 57 < buf.length := by omega
        simp [h8, h9, h45, h54, h55, h56, h57]
    · split
      · split <;> simp
      · split
        · have := trksUpdate_fixed_no_panic len (len - 8)
          cases ht : trksUpdate true true len (len - 8) <;> simp_all
        · simp

theorem wozLoop_fixed_no_panic (g : Bool) (buf : List Nat) (ptr : Nat) (st : WozState) :
    wozLoop ⟨true, true, g⟩ buf ptr st ≠ .panic := by
  fun_induction wozLoop ⟨true, true, g⟩ buf ptr st with
  | case1 st => simp
  | case2 ptr st hp c he => simp
  | case3 ptr st hp c hpn => exact absurd hpn (wozChunk_fixed_no_panic g buf st ptr)
  | case4 ptr st hp c st' hok hn => simp
  | case5 ptr st hp c st' hok hn hlt ih => exact ih

/-- C12, identifying a WOZ2 image: with the two TRKS guards `Woz2::from_bytes` never panics on any byte string
(up to its last step `get_track_solution(0)`, which is a parameter), and its chunk walk terminates. -/
theorem woz2FromBytes_fixed_no_panic (g : Bool) (buf : List Nat) : woz2FromBytes ⟨true, true, g⟩ buf ≠ .panic := by
  unfold woz2FromBytes
  split
  · simp
  · split
    · simp
    · have := wozLoop_fixed_no_panic g buf 12 {}
      cases hl : wozLoop ⟨true, true, g⟩ buf 12 {} with
      | panic => exact absurd hl this
      | err => simp
      | ok st => simp only; split <;> (try split) <;> (try split) <;> simp

/-- DESIGN §9 item 17, witness: header + a TRKS chunk of size 16 panics in the code as at the snapshot and is
refused by the repaired code -/
def wozTrks16 : List Nat :=
  [0x57, 0x4f, 0x5a, 0x32, 0xff, 0x0a, 0x0d, 0x0a, 0, 0, 0, 0] ++ [0x54, 0x52, 0x4b, 0x53, 16, 0, 0, 0] ++ List.replicate 16 0

example : woz2FromBytes ⟨false, false, false⟩ wozTrks16 = .panic := by decide +kernel
example : woz2FromBytes ⟨true, true, true⟩ wozTrks16 = .err := by decide +kernel

/-- C12 for the code as it is now (needs both TRKS guards in the source) -/
theorem woz2FromBytes_now_no_panic (buf : List Nat) : woz2FromBytesNow buf ≠ .panic := by
  have h1 : Gen.C12Flags.woz2TrksLenGuard = true := by decide
  have h2 : Gen.C12Flags.woz2TrksSizeGuard = true := by decide
  unfold woz2FromBytesNow wozFlagsNow
  rw [h1, h2]
  exact woz2FromBytes_fixed_no_panic _ buf

/-! ## Detokenizers -/

theorem aLine_fixed_no_panic (img : List Nat) (la : Nat) : ∀ (fuel addr : Nat), aLine true img la fuel addr ≠ .panic := by
  intro fuel
  induction fuel with
  | zero => intro addr; simp [aLine]
  | succ n ih =>
    intro addr
    unfold aLine
    simp only [↓reduceIte]
    repeat' split
    all_goals first | exact ih _ | (simp; done)

theorem aProg_fixed_no_panic (img : List Nat) : ∀ (fuel addr : Nat), aProg true img fuel addr ≠ .panic := by
  intro fuel
  induction fuel with
  | zero => intro addr; simp [aProg]
  | succ n ih =>
    intro addr
    unfold aProg
    repeat' split
    all_goals first | exact ih _ | (simp; done) | (exfalso; apply aLine_fixed_no_panic img; assumption)

/-- C12, Applesoft detokenizer: with the bound test in front of the closing-quote test, `detokenize` returns
text or an error for every byte string; it terminates within `max_lines × max_line_length` steps. -/
theorem aDetok_fixed_no_panic (img : List Nat) : aDetok true img ≠ .panic :=
  aProg_fixed_no_panic img _ _

/-- DESIGN §9 item 18, witness `01 08 0A 00 22 41`: unterminated string at the end of the program -/
example : aDetok false [0x01, 0x08, 0x0A, 0x00, 0x22, 0x41] = .panic := by decide +kernel
example : aDetok true [0x01, 0x08, 0x0A, 0x00, 0x22, 0x41] = .ok () := by decide +kernel
/-- non-vacuity: `10 PRINT "HI"` detokenizes in both forms -/
example : aDetok false [0x0B, 0x08, 0x0A, 0x00, 0xBA, 0x22, 0x48, 0x49, 0x22, 0x00, 0x00, 0x00] = .ok () := by decide +kernel

theorem aDetok_now_no_panic (img : List Nat) : aDetokNow img ≠ .panic := by
  have h : Gen.C12Flags.applesoftQuoteGuard = true := by decide
  unfold aDetokNow
  rw [h]
  exact aDetok_fixed_no_panic img

theorem iScan_fixed_no_panic (terms : List Nat) : ∀ (l : List Nat) (idx : Nat), iScan true terms l idx ≠ .panic := by
  intro l
  induction l with
  | nil => intro idx; simp [iScan]
  | cons b rest ih =>
    intro idx
    unfold iScan
    simp only [↓reduceIte]
    repeat' split
    all_goals first | exact ih _ | (simp; done)

theorem iLine_fixed_no_panic (img : List Nat) : ∀ (fuel addr : Nat), iLine ⟨true, true⟩ img fuel addr ≠ .panic := by
  intro fuel
  induction fuel with
  | zero => intro addr; simp [iLine]
  | succ n ih =>
    intro addr
    unfold iLine
    simp only [↓reduceIte]
    repeat' split
    all_goals first | exact ih _ | (simp; done) | (exfalso; apply iScan_fixed_no_panic; assumption)

theorem iProg_fixed_no_panic (img : List Nat) : ∀ (fuel addr : Nat), iProg ⟨true, true⟩ img fuel addr ≠ .panic := by
  intro fuel
  induction fuel with
  | zero => intro addr; simp [iProg]
  | succ n ih =>
    intro addr
    unfold iProg
    repeat' split
    all_goals first | exact ih _ | (simp; done) | (exfalso; apply iLine_fixed_no_panic img; assumption)

/-- C12, Integer BASIC detokenizer: with the two guards `detokenize` never indexes out of range and never
underflows, for every byte string. -/
theorem iDetok_fixed_no_panic (img : List Nat) : iDetok ⟨true, true⟩ img ≠ .panic :=
  iProg_fixed_no_panic img _ _

/-- DESIGN §9 item 18, witness `05 0A 00 28 C1`, and the `is_hex` underflow `… 28 DC F8 30 30 29 01` -/
example : iDetok ⟨false, false⟩ [0x05, 0x0A, 0x00, 0x28, 0xC1] = .panic := by decide +kernel
example : iDetok ⟨true, false⟩ [0x05, 0x0A, 0x00, 0x28, 0xDC, 0xF8, 0x30, 0x30, 0x29, 0x01] = .panic := by decide +kernel
example : iDetok ⟨true, true⟩ [0x05, 0x0A, 0x00, 0x28, 0xC1] = .err := by decide +kernel
example : iDetok ⟨true, true⟩ [0x05, 0x0A, 0x00, 0x28, 0xDC, 0xF8, 0x30, 0x30, 0x29, 0x01] = .ok () := by decide +kernel

theorem iDetok_now_no_panic (img : List Nat) : iDetokNow img ≠ .panic := by
  have h1 : Gen.C12Flags.integerQuoteGuard = true := by decide
  have h2 : Gen.C12Flags.integerHexGuard = true := by decide
  unfold iDetokNow
  rw [h1, h2]
  exact iDetok_fixed_no_panic img

end A2Verif.C12
