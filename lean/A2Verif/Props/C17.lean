import A2Verif.Lemmas.Minify
import A2Verif.Model.MinifyVars
/-!
# C17 — Minification keeps the program valid and referentially intact

Theorems about the model `A2Verif.Model.Minify` (program-level decisions of
`/repo/src/lang/applesoft/minifier.rs`).  The parser is a parameter: programs are lists of abstract
lines.  Validity of the output *text* is checked on the real code by the harness oracle
(`harness/src/fam/c17.rs`), not here.
-/
namespace A2Verif.C17
open A2Verif.Model.Minify

/-- `r'` is what a reference to `r` must become: `r` itself if line `r` was not deleted, else the
first surviving line after `r` -/
def Image (p : List Line) (del : List Nat) (r r' : Nat) : Prop :=
  (r ∉ del ∧ r' = r) ∨ (r ∈ del ∧ NextSurv (p.map (·.num)) del r r')

theorem sublist_pairwise_lt {a b : List Nat} (h : a.Sublist b) (hb : b.Pairwise (· < ·)) :
    a.Pairwise (· < ·) := hb.sublist h

/-- pass 2 sends every reference to its image under the deleted-line map -/
theorem retarget_image {cfg : Cfg} {level : Nat} {p : List Line} {m : List (Nat × Nat)} (hasc : Asc p)
    (hm : buildMap (deleted cfg level p) (deleted cfg level p) (p.map (·.num)) = some m) (r : Nat) :
    Image p (deleted cfg level p) r (retarget m r) := by
  unfold retarget
  cases hl : lookup m r with
  | some c =>
    right
    have hmem := lookup_some_mem hl
    have hfst := buildMap_fst hm
    have hr : r ∈ deleted cfg level p := by
      rw [← hfst]; exact List.mem_map.mpr ⟨(r, c), hmem, rfl⟩
    have := buildMap_spec hm [] (by simp)
      (sublist_pairwise_lt (deleted_sublist cfg level p) hasc) (r, c) hmem
    exact ⟨hr, by simpa using this⟩
  | none =>
    left
    have := lookup_none_iff.mp hl
    rw [buildMap_fst hm] at this
    exact ⟨this, rfl⟩

/-- the image of a reference that resolved in the input is a line that survives stage 1 -/
theorem image_survives {cfg : Cfg} {level : Nat} {p : List Line} (hasc : Asc p) {r r' : Nat}
    (hi : Image p (deleted cfg level p) r r') (hr : r ∈ p.map (·.num)) :
    r' ∈ (surviving cfg level p).map (·.num) := by
  rw [mem_surviving hasc]
  rcases hi with ⟨h1, rfl⟩ | ⟨_, pre, rest, hall, _, _, hnd⟩
  · exact ⟨hr, h1⟩
  · exact ⟨by rw [hall]; simp, hnd⟩

theorem pick_mem {keep : Bool} {p : List Line} {fs : List Bool} {l : Line}
    (h : l ∈ pick keep p fs) : l ∈ p := by
  induction p generalizing fs with
  | nil => simp [pick] at h
  | cons a ls ih =>
    cases fs with
    | nil => simp [pick] at h
    | cons f fs =>
      unfold pick at h
      split at h
      · rcases List.mem_cons.mp h with rfl | h
        · simp
        · exact List.mem_cons_of_mem _ (ih h)
      · exact List.mem_cons_of_mem _ (ih h)

theorem flatMap_refs_retarget (m : List (Nat × Nat)) (ls : List Line) :
    (ls.map (retargetLine m)).flatMap (·.refs) = (ls.flatMap (·.refs)).map (retarget m) := by
  induction ls with
  | nil => simp
  | cons l ls ih => simp [retargetLine, ih]

theorem map_num_retarget (m : List (Nat × Nat)) (ls : List Line) :
    (ls.map (retargetLine m)).map (·.num) = ls.map (·.num) := by
  induction ls with
  | nil => simp
  | cons l ls ih => simp [retargetLine, ih]

theorem flatMap_lits_retarget (m : List (Nat × Nat)) (ls : List Line) :
    (ls.map (retargetLine m)).flatMap (·.lits) = ls.flatMap (·.lits) := by
  induction ls with
  | nil => simp
  | cons l ls ih => simp [retargetLine, ih]

/-- **Reference integrity** (clauses "every line-number reference resolves whenever it did in the
input" and "no target is merged away without the reference following it"), for every program with
ascending line numbers, every level without combining, and level 3 once stage 3 consults the
remapped reference set (`remapRefs`).  `f` is the retargeting function: it sends every reference
to its `Image`, the output's references are the surviving input references mapped through `f`
position by position, and the image of every reference that resolved in the input starts an
output line. -/
theorem ref_integrity (cfg : Cfg) (level : Nat) (p : List Line) (out : List Group) (hasc : Asc p)
    (hcfg : cfg.remapRefs = true ∨ level < 3) (h : minify cfg level p = .ok out) :
    ∃ f : Nat → Nat, (∀ r, Image p (deleted cfg level p) r (f r)) ∧
      out.flatMap (·.refs) = ((surviving cfg level p).flatMap (·.refs)).map f ∧
      ∀ r ∈ (surviving cfg level p).flatMap (·.refs), r ∈ p.map (·.num) → f r ∈ out.map (·.num) := by
  unfold minify at h
  split at h
  · cases h
  · rename_i m hm
    refine ⟨retarget m, retarget_image hasc hm, ?_, ?_⟩
    · split at h
      · cases h; rw [stage3_refs, flatMap_refs_retarget]
      · cases h
        simp only [List.flatMap_map]
        rw [← flatMap_refs_retarget]
        simp [List.flatMap_map, Group.single]
    · intro r hr hrn
      have hsurv := image_survives hasc (retarget_image hasc hm r) hrn
      split at h
      · rename_i hc
        cases h
        have hrem : cfg.remapRefs = true := by
          rcases hcfg with h1 | h1
          · exact h1
          · simp [combineLines] at hc; omega
        apply stage3_head_of_ref
        · simp only [refSet, hrem, if_true]
          obtain ⟨l, hl, hrl⟩ := List.mem_flatMap.mp hr
          exact List.mem_map.mpr ⟨r, List.mem_flatMap.mpr ⟨l, pick_mem hl, hrl⟩, rfl⟩
        · rw [map_num_retarget]; exact hsurv
      · cases h
        simpa [List.map_map, Group.single, Function.comp_def, retargetLine] using hsurv

/-- **No referenced line is merged away**: with `remapRefs`, no line absorbed into another one in
stage 3 is the target of any reference of the output program. -/
theorem absorbed_not_target (cfg : Cfg) (level : Nat) (p : List Line) (out : List Group)
    (hcfg : cfg.remapRefs = true) (h : minify cfg level p = .ok out) :
    ∀ g ∈ out, ∀ n ∈ g.absorbed, n ∉ out.flatMap (·.refs) := by
  unfold minify at h
  split at h
  · cases h
  · rename_i m hm
    split at h
    · cases h
      intro g hg n hn hmem
      rw [stage3_refs, flatMap_refs_retarget] at hmem
      obtain ⟨r, hr, rfl⟩ := List.mem_map.mp hmem
      have key : ∀ g ∈ stage3 (refSet cfg m p) (fnextSet cfg p) ((surviving cfg level p).map (retargetLine m)),
          ∀ n ∈ g.absorbed, n ∉ refSet cfg m p := by
        generalize (surviving cfg level p).map (retargetLine m) = s2
        cases s2 with
        | nil => simp [stage3]
        | cons l ls =>
          unfold stage3
          exact combine_absorbed _ _ _ _ _ ls (by simp [Group.single])
      apply key g hg _ hn
      simp only [refSet, hcfg, if_true]
      obtain ⟨l, hl, hrl⟩ := List.mem_flatMap.mp hr
      exact List.mem_map.mpr ⟨r, List.mem_flatMap.mpr ⟨l, pick_mem hl, hrl⟩, rfl⟩
    · cases h
      intro g hg n hn
      obtain ⟨l, _, rfl⟩ := List.mem_map.mp hg
      simp [Group.single] at hn

/-- **The output exists**: when the last line is never deleted (`keepLast`), minification of a
program with ascending line numbers never fails. -/
theorem keepLast_never_errs (cfg : Cfg) (level : Nat) (p : List Line) (hk : cfg.keepLast = true)
    (hasc : Asc p) : minify cfg level p ≠ .err := by
  unfold minify
  split
  · rename_i hnone
    exfalso
    cases p with
    | nil => simp [deleted, pick, buildMap] at hnone
    | cons l ls =>
      obtain ⟨z, hz, hzn, hzd⟩ := keepLast_witness hk level hasc (by simp)
      exact buildMap_ne_none hz hzn hzd hnone
  · split <;> simp

/-- **Strings and DATA payloads** are carried through stages 2 and 3 unchanged and in order: the
literals of the output are those of the surviving lines. -/
theorem lits_of_surviving (cfg : Cfg) (level : Nat) (p : List Line) (out : List Group)
    (h : minify cfg level p = .ok out) :
    out.flatMap (·.lits) = (surviving cfg level p).flatMap (·.lits) := by
  unfold minify at h
  split at h
  · cases h
  · split at h
    · cases h; rw [stage3_lits, flatMap_lits_retarget]
    · rename_i m _ _
      cases h
      rw [← flatMap_lits_retarget m]
      simp [List.flatMap_map, Group.single]

theorem pick_false_lits {p : List Line} {fs : List Bool} (hlen : fs.length = p.length)
    (h : ∀ l ∈ pick true p fs, l.lits = []) :
    (pick false p fs).flatMap (·.lits) = p.flatMap (·.lits) := by
  induction p generalizing fs with
  | nil => simp [pick]
  | cons l ls ih =>
    cases fs with
    | nil => simp at hlen
    | cons f fs =>
      cases f with
      | true =>
        have e1 : pick false (l :: ls) (true :: fs) = pick false ls fs := by simp [pick]
        have e2 : pick true (l :: ls) (true :: fs) = l :: pick true ls fs := by simp [pick]
        rw [e2] at h
        rw [e1, ih (by simpa using hlen) (fun x hx => h x (List.mem_cons_of_mem _ hx))]
        simp [h l (by simp)]
      | false =>
        have e1 : pick false (l :: ls) (false :: fs) = l :: pick false ls fs := by simp [pick]
        have e2 : pick true (l :: ls) (false :: fs) = pick true ls fs := by simp [pick]
        rw [e2] at h
        rw [e1]
        simp [ih (by simpa using hlen) h]

theorem deleted_line_rem {cfg : Cfg} {level : Nat} {p : List Line} :
    ∀ l ∈ pick true p (delFlags cfg level p), l.dels cfg = true := by
  fun_induction delFlags cfg level p with
  | case1 => simp [pick]
  | case2 l =>
    intro x hx
    unfold pick at hx
    split at hx
    · rename_i hf
      simp only [pick, List.mem_cons, List.not_mem_nil, or_false] at hx
      subst hx
      simp only [beq_true, Bool.and_eq_true] at hf
      exact hf.1.2
    · simp [pick] at hx
  | case3 l l' ls ih =>
    intro x hx
    unfold pick at hx
    split at hx
    · rename_i hf
      rcases List.mem_cons.mp hx with rfl | hx
      · simp only [beq_true, Bool.and_eq_true] at hf
        exact hf.2
      · exact ih x hx
    · exact ih x hx

/-- … and since a line whose *first* statement is `REM` carries no literal (`hrem`, a fact about the
parse: everything after `REM` is comment text), once only such lines are deleted (`remTopOnly`)
the literals of the output are exactly those of the input, in order. -/
theorem lits_preserved (cfg : Cfg) (level : Nat) (p : List Line) (out : List Group)
    (hcfg : cfg.remTopOnly = true)
    (hrem : ∀ l ∈ p, l.rem = true → l.lits = []) (h : minify cfg level p = .ok out) :
    out.flatMap (·.lits) = p.flatMap (·.lits) := by
  rw [lits_of_surviving cfg level p out h]
  refine pick_false_lits (delFlags_length cfg level p) (fun l hl => hrem l (pick_mem hl) ?_)
  have := deleted_line_rem l hl
  simpa [Line.dels, hcfg] using this

/-- **DATA payloads cannot be extended**: once `DATA` really forbids combining the next line
(`dataForbids`), nothing is ever appended to a line that contains a `DATA` statement (an
unterminated string at the end of the payload would swallow the appended statements). -/
theorem data_line_ends_group (cfg : Cfg) (level : Nat) (p : List Line) (out : List Group)
    (hcfg : cfg.dataForbids = true) (h : minify cfg level p = .ok out) :
    ∀ g ∈ out, ∀ l ∈ p, l.data = true → l.num ∉ g.members.dropLast := by
  intro g hg l hl hd hmem
  have hF : l.num ∈ fnextSet cfg p := by
    simp only [fnextSet, List.mem_map, List.mem_filter]
    exact ⟨l, ⟨hl, by simp [hcfg, hd]⟩, rfl⟩
  unfold minify at h
  split at h
  · cases h
  · split at h
    · cases h
      exact stage3_fnext _ _ _ g hg _ hmem hF
    · cases h
      obtain ⟨l', _, rfl⟩ := List.mem_map.mp hg
      simp [Group.single, Group.members] at hmem

/-- as written, `10 DATA "ABC` / `20 PRINT` becomes one line at level 3 (the PRINT disappears into
the string) -/
example : minify Cfg.asWritten 3
    [⟨10, false, false, [], false, true, false, [1], 11, false⟩, ⟨20, false, false, [], false, false, false, [], 7, false⟩]
    = .ok [⟨10, [20], [], [1], 17⟩] := by decide
example : minify Cfg.fixed 3
    [⟨10, false, false, [], false, true, false, [1], 11, false⟩, ⟨20, false, false, [], false, false, false, [], 7, false⟩]
    = .ok [⟨10, [], [], [1], 11⟩, ⟨20, [], [], [], 7⟩] := by decide

/-! ## The code as written violates the property (DESIGN §9 item 24) -/

/-- `10 GOSUB 20 / 15 X=1 / 20 REM SUB / 30 PRINT / 40 RETURN` -/
def witnessMerged : List Line :=
  [ ⟨10, false, false, [20], false, false, false, [], 9, false⟩,
    ⟨15, false, false, [], false, false, false, [], 5, false⟩,
    ⟨20, true, false, [], false, false, false, [], 5, false⟩,
    ⟨30, false, false, [], false, false, false, [], 7, false⟩,
    ⟨40, false, false, [], true, false, false, [], 8, false⟩ ]

/-- every reference of the output resolves in the output -/
def Resolves (out : List Group) : Prop := ∀ r ∈ out.flatMap (·.refs), r ∈ out.map (·.num)
instance (out : List Group) : Decidable (Resolves out) := by unfold Resolves; infer_instance

/-- as written, level 3 turns the witness into the single line `10GOSUB30:X=1:PRINT:RETURN`:
line 30, the (retargeted) target of the GOSUB, is merged away -/
theorem asWritten_target_merged_away :
    minify Cfg.asWritten 3 witnessMerged = .ok [⟨10, [15, 30, 40], [30], [], 26⟩] := by decide

/-- hence reference integrity is false of the code as written -/
theorem asWritten_not_ref_integrity :
    ¬ ∀ (p : List Line) (level : Nat) (out : List Group), Asc p →
        (∀ r ∈ p.flatMap (·.refs), r ∈ p.map (·.num)) →
        minify Cfg.asWritten level p = .ok out → Resolves out := by
  intro h
  have := h witnessMerged 3 _ (by unfold Asc; decide) (by decide) asWritten_target_merged_away
  revert this
  decide

/-- the repaired stage 3 keeps line 30 on the same witness -/
example : minify Cfg.fixed 3 witnessMerged =
    .ok [⟨10, [15], [30], [], 13⟩, ⟨30, [40], [], [], 14⟩] := by decide

/-- `10 PRINT / 20 REM END`: as written, level 2 fails with `Invalid Line Number` -/
def witnessFinalRem : List Line :=
  [ ⟨10, false, false, [], false, false, false, [], 7, false⟩,
    ⟨20, true, false, [], false, false, false, [], 5, false⟩ ]

theorem asWritten_final_rem_errs : minify Cfg.asWritten 2 witnessFinalRem = .err := by decide

theorem asWritten_not_total :
    ¬ ∀ (p : List Line) (level : Nat), Asc p → minify Cfg.asWritten level p ≠ .err := by
  intro h
  exact h witnessFinalRem 2 (by unfold Asc; decide) asWritten_final_rem_errs

example : minify Cfg.fixed 2 witnessFinalRem = .ok [⟨10, [], [], [], 7⟩, ⟨20, [], [], [], 5⟩] := by decide

/-- non-vacuity of `ref_integrity`: a program with a chain of deleted REM targets -/
example : ∃ out, Asc witnessMerged ∧ minify Cfg.fixed 3 witnessMerged = .ok out ∧ Resolves out :=
  ⟨_, by unfold Asc; decide, rfl, by decide⟩

/-! ## Variable shortening -/
section Vars
open A2Verif.Model.MinifyVars A2Verif.Gen.MinifyGuards

theorem drop_pred_length {txt : List Nat} (h : 0 < txt.length) :
    ∃ y, txt.drop (txt.length - 1) = [y] := by
  have hl : (txt.drop (txt.length - 1)).length = 1 := by simp; omega
  match hd : txt.drop (txt.length - 1), hl with
  | [y], _ => exact ⟨y, rfl⟩

/-- **Two-character rule**: shortening never changes the identity Applesoft gives a variable (first
two characters, case-insensitively, and type), whatever `needs_guard` answered. -/
theorem short_keeps_sig (k : Kind) (g : Bool) (txt : List Nat) :
    nameSig k (shortName k g txt) = nameSig k txt := by
  have key : ∀ t : List Nat, 3 < t.length →
      ((t.take 2 ++ t.drop (t.length - 1)).dropLast.take 2) = t.dropLast.take 2 := by
    intro t ht
    obtain ⟨y, hy⟩ := drop_pred_length (txt := t) (by omega)
    rw [hy, List.dropLast_concat, List.dropLast_eq_take, List.take_take, List.take_take]
    congr 1
    omega
  cases k with
  | real =>
    simp only [shortName, nameSig]
    split
    · split
      · simp [List.take_take]
      · split <;> simp [List.take_take]
    · rfl
  | str =>
    simp only [shortName, nameSig]
    split
    · rename_i h; rw [key txt h]
    · rfl
  | int =>
    simp only [shortName, nameSig]
    split
    · rename_i h; rw [key txt h]
    · rfl

/-- … and keeps the type suffix character -/
theorem short_keeps_suffix (k : Kind) (g : Bool) (txt : List Nat) :
    suffix k (shortName k g txt) = suffix k txt := by
  have key : ∀ t : List Nat, 3 < t.length →
      (t.take 2 ++ t.drop (t.length - 1)).drop ((t.take 2 ++ t.drop (t.length - 1)).length - 1)
        = t.drop (t.length - 1) := by
    intro t ht
    obtain ⟨y, hy⟩ := drop_pred_length (txt := t) (by omega)
    rw [hy]
    have : (t.take 2).length = 2 := by simp; omega
    simp [this]
  cases k with
  | real => simp [suffix]
  | str =>
    simp only [shortName, suffix]
    split
    · rename_i h; exact key txt h
    · rfl
  | int =>
    simp only [shortName, suffix]
    split
    · rename_i h; exact key txt h
    · rfl

/-- **Distinct variables stay distinct** (and equal ones stay equal) under the two-character rule -/
theorem short_distinct (k k' : Kind) (g g' : Bool) (a b : List Nat) :
    nameSig k (shortName k g a) = nameSig k' (shortName k' g' b) ↔ nameSig k a = nameSig k' b := by
  rw [short_keeps_sig, short_keeps_sig]

/-- `SCALE` and `SCORE` are one variable for Applesoft, before and after; `SCALE`/`SUM` are two -/
example : nameSig .real (shortName .real false [83, 67, 65, 76, 69])
    = nameSig .real (shortName .real false [83, 67, 79, 82, 69]) := by decide
example : nameSig .real (shortName .real false [83, 67, 65, 76, 69])
    ≠ nameSig .real (shortName .real false [83, 85, 77]) := by decide

/-- the written text is the shortened name, or that name in parentheses -/
theorem shortText_cases (k : Kind) (g : Bool) (txt : List Nat) :
    shortText k g txt = shortName k g txt ∨ shortText k g txt = [40] ++ shortName k g txt ++ [41] := by
  unfold shortText
  split
  · rename_i h
    right
    obtain ⟨rfl, h2, rfl, h4⟩ := h
    simp [shortName, h2, h4]
  · left; rfl

/-- the table is consulted case-insensitively -/
theorem needsGuard_lower (txt : List Nat) (f : Tok) :
    needsGuard (txt.map lower) f = needsGuard txt f := by
  have : ∀ c, lower (lower c) = lower c := by
    intro c; unfold lower; split <;> (try split) <;> (try rfl) <;> omega
  simp [needsGuard, ← List.map_take, List.map_map, Function.comp_def, this]

end Vars

end A2Verif.C17
