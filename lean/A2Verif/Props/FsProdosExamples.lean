import A2Verif.Props.FsProdos
/-!
Kernel-evaluated instances for the concrete ProDOS model: the executable refinement check `historyRefines`
(`Props/FsProdos.lean`: every step is a transition `stepOk prodosParams` allows between the readings of the **total**
reader, ends in an image satisfying `InvB`, and has the expected result) on a 10-block volume.  These are not the
general refinement theorem (not proved for ProDOS); they show that the definitions are satisfiable and guard the
model against regressions the way a unit test would, inside the kernel.  Each takes 15-50 s.
-/
namespace A2Verif.FsProdos
open A2Verif.Fs.Prodos

def str (x : String) : Bytes := x.toList.map Char.toNat

/-- `format` establishes the invariant (kernel evaluation on a 10-block volume: the harness ties `format` byte for byte
on 280 and 1600 blocks; a proof for every size is not done) -/
theorem format_establishes_inv_small : InvB (formatted 10).raw = true := by decide +kernel

/-- a sparse sapling file (chunks 0 and 2 of 3) is a transition the specification allows: put reads back, length and
type read back, only free units used, volume well formed and leak free afterwards (kernel evaluation) -/
theorem example_sparse_put_refines :
    historyRefines repaired exTime
      [ (str "B", [], .put (str "b") 6 0x2000 0xC3 1100 [(0, chunkOf 1 512), (2, chunkOf 3 76)], true) ] (formatted 10) = true := by
  decide +kernel

/-- put, lock, refused delete of the locked file: three transitions the specification allows, the last one with a
refusal that changes nothing (kernel evaluation) -/
theorem example_history_refines :
    historyRefines repaired exTime
      [ (str "A", [], .put (str "a") 4 0x1234 0xC3 300 [(0, chunkOf 7 300)], true),
        (str "A", [], .lock (str "A"), true),
        (str "A", [], .delete (str "a"), false) ] (formatted 10) = true := by
  decide +kernel

/-- **negative witness, source as written (no `firstHole`)**: a file image without chunk 0 (`{1 ↦ 512 × 'A'}`) is accepted, and
the image written does not satisfy the invariant — slot 0 of the index block names the index block itself (the
entry's provisional key pointer), the reader reports `blocks-used-differs-from-reachable`.  The real code at aadfbdc does
the same: `get` returns chunks 0 and 1, chunk 0 being the index block (directed scenario `prodos-put-first-chunk-hole`) -/
theorem first_chunk_hole_as_written_breaks :
    ((COp.put (str "h") 6 0 0xC3 1024 [(1, chunkOf 65 512)]).run asWritten exTime (formatted 10 asWritten)).1 = true ∧
    InvB ((COp.put (str "h") 6 0 0xC3 1024 [(1, chunkOf 65 512)]).run asWritten exTime (formatted 10 asWritten)).2.raw = false := by
  decide +kernel

/-- **the same input on the source as repaired**: slot 0 is a hole, the step is a transition the specification allows
(the stored chunk list `[(1, …)]` reads back index for index: no chunk 0 appears) and ends in an `InvB` image -/
theorem first_chunk_hole_repaired_refines :
    historyRefines repaired exTime
      [ (str "H", [], .put (str "h") 6 0 0xC3 1024 [(1, chunkOf 65 512)], true) ] (formatted 10) = true := by
  decide +kernel

end A2Verif.FsProdos
