import A2Verif.Lemmas.FsProdosEx1
import A2Verif.Lemmas.FsProdosEx2
import A2Verif.Lemmas.FsProdosEx3
import A2Verif.Lemmas.FsProdosEx4
import A2Verif.Lemmas.FsProdosEx5
/-!
Kernel-evaluated instances for the concrete ProDOS model, in files that build in parallel (each under three minutes): `Lemmas/FsProdosEx1.lean` — the formatted 10-block volume satisfies `SInv` (`formatted10_sinv`,
`format_establishes_inv_small`) and the non-vacuity examples of the theorems that assume `SInv`; `FsProdosEx2.lean` — two
short histories checked step by step with the executable `historyRefines` (`example_sparse_put_refines`,
`example_history_refines`); `FsProdosEx3.lean` — finding `prodos-put-first-chunk-hole` on the source as written and as
repaired (`first_chunk_hole_as_written_breaks`, `first_chunk_hole_repaired_refines`); `FsProdosEx4.lean` (after `Ex1`) — the
hypotheses of the acceptance theorem and of the C01 corollary for `put` are met; `FsProdosEx5.lean` (after `Ex1`) — paths into a
first-level sub-directory: the volume after `create("d")`, the four refinement theorems and a history on `d/…`.
-/
